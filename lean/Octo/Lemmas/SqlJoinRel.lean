import Octo.Lemmas.SqlJoinEval
/-!
  Relational reading of physical plans (C02): `planBag` is what a plan computes when every node is read as the
  relational operator it implements (Filter = selection on TRUE, StreamJoin = join on "keys equal and not NULL",
  OuterJoin = that plus NULL-padded unmatched rows, LookupJoin = dependent join), with no schedules and no
  retractions.  This file relates it to the SQL semantics of the FROM clause: `planOf_sound`.
-/
namespace Octo.SqlJoin
open Octo Octo.Sql Octo.Join

abbrev VRow := List Value

/-- the join keys of the pair are equal and contain no NULL (`CompareValueSlices` on evaluated key expressions) -/
def keyMatch (kl kr : List SExpr) (ctx a b : VRow) : Bool :=
  match evalAll (ctx ++ a) kl, evalAll (ctx ++ b) kr with
  | some x, some y => !hasNull x && Octo.rowEq x y
  | _, _ => false

def relInner (m : VRow → VRow → Bool) (L R : List VRow) : List VRow :=
  L.flatMap fun a => (R.filter fun b => m a b).map fun b => a ++ b

def relPadL (m : VRow → VRow → Bool) (nR : Nat) (L R : List VRow) : List VRow :=
  (L.filter fun a => !(R.any fun b => m a b)).map fun a => a ++ nullRow nR

def relPadR (m : VRow → VRow → Bool) (nL : Nat) (L R : List VRow) : List VRow :=
  (R.filter fun b => !(L.any fun a => m a b)).map fun b => nullRow nL ++ b

def relOuter (m : VRow → VRow → Bool) (isL isR : Bool) (nL nR : Nat) (L R : List VRow) : List VRow :=
  relInner m L R ++ (if isL then relPadL m nR L R else []) ++ (if isR then relPadR m nL L R else [])

/-- dependent join -/
def relDep (J : VRow → List VRow) (L : List VRow) : List VRow :=
  L.flatMap fun a => (J a).map fun b => a ++ b

def planBag (db : Db) : Plan → VRow → List VRow
  | .scan i, _ => tableRows db i
  | .filter p s, ctx => (planBag db s ctx).filter fun r => isTrue (ctx ++ r) p
  | .map es s, ctx => (planBag db s ctx).filterMap fun r => evalAll (ctx ++ r) es
  | .streamJoin kl kr l r, ctx => relInner (keyMatch kl kr ctx) (planBag db l ctx) (planBag db r ctx)
  | .outerJoin isL isR kl kr l r, ctx =>
    relOuter (keyMatch kl kr ctx) isL isR (l.width db) (r.width db) (planBag db l ctx) (planBag db r ctx)
  | .lookupJoin s j, ctx => relDep (fun a => planBag db j (ctx ++ a)) (planBag db s ctx)

/-! ### well-formedness -/

/-- every row of a table has the table's width -/
def DbOK (db : Db) : Prop := ∀ t ∈ db, ∀ r ∈ t.rows, r.length = t.width

/-- predicates are predicates; the two key lists of a join have the same length -/
def Plan.ok : Plan → Bool
  | .scan _ => true
  | .filter p s => predOK p && s.ok
  | .map _ s => s.ok
  | .streamJoin kl kr l r => (kl.length == kr.length) && l.ok && r.ok
  | .outerJoin _ _ kl kr l r => (kl.length == kr.length) && l.ok && r.ok
  | .lookupJoin s j => s.ok && j.ok

def From.ok : From → Bool
  | .tbl _ => true
  | .sub s w => predOK w && s.ok
  | .proj s _ => s.ok
  | .join _ l r on => predOK on && l.ok && r.ok

theorem tableRows_width {db : Db} (hdb : DbOK db) (i : Nat) : ∀ r ∈ tableRows db i, r.length = tableWidth db i := by
  intro r hr
  unfold tableRows at hr
  unfold tableWidth
  cases h : db[i]? with
  | none => simp [h] at hr
  | some t =>
    simp only [h] at hr ⊢
    exact hdb t (List.mem_of_getElem? h) r hr

theorem evalAll_length : ∀ (es : List SExpr) (row : VRow) (v : VRow), evalAll row es = some v → v.length = es.length
  | [], _, v, h => by simp [evalAll] at h; subst h; rfl
  | e :: es, row, v, h => by
    simp only [evalAll] at h
    cases he : eval row e with
    | none => simp [he] at h
    | some x =>
      cases hes : evalAll row es with
      | none => simp [he, hes] at h
      | some xs =>
        simp only [he, hes, Option.some.injEq] at h
        subst h
        simp [evalAll_length es row xs hes]

theorem mem_relInner {m : VRow → VRow → Bool} {L R : List VRow} {x : VRow} (h : x ∈ relInner m L R) :
    ∃ a ∈ L, ∃ b ∈ R, m a b = true ∧ x = a ++ b := by
  unfold relInner at h
  simp only [List.mem_flatMap, List.mem_map, List.mem_filter] at h
  obtain ⟨a, ha, b, ⟨hb, hm⟩, rfl⟩ := h
  exact ⟨a, ha, b, hb, hm, rfl⟩

theorem nullRow_length (n : Nat) : (nullRow n).length = n := by simp [nullRow]

theorem planBag_width {db : Db} (hdb : DbOK db) : ∀ (p : Plan) (ctx : VRow), ∀ r ∈ planBag db p ctx, r.length = p.width db := by
  intro p
  induction p with
  | scan i => intro ctx r hr; exact tableRows_width hdb i r hr
  | filter p s ih =>
    intro ctx r hr
    simp only [planBag, List.mem_filter] at hr
    exact ih ctx r hr.1
  | map es s _ =>
    intro ctx r hr
    simp only [planBag, List.mem_filterMap] at hr
    obtain ⟨x, _, hx⟩ := hr
    exact evalAll_length es _ r hx
  | streamJoin kl kr l r ihl ihr =>
    intro ctx x hx
    simp only [planBag] at hx
    obtain ⟨a, ha, b, hb, _, rfl⟩ := mem_relInner hx
    simp [Plan.width, ihl ctx a ha, ihr ctx b hb]
  | outerJoin isL isR kl kr l r ihl ihr =>
    intro ctx x hx
    simp only [planBag, relOuter, List.mem_append] at hx
    rcases hx with (hx | hx) | hx
    · obtain ⟨a, ha, b, hb, _, rfl⟩ := mem_relInner hx
      simp [Plan.width, ihl ctx a ha, ihr ctx b hb]
    · cases isL with
      | false => simp at hx
      | true =>
        simp only [↓reduceIte, relPadL, List.mem_map, List.mem_filter] at hx
        obtain ⟨a, ⟨ha, _⟩, rfl⟩ := hx
        simp [Plan.width, ihl ctx a ha, nullRow_length]
    · cases isR with
      | false => simp at hx
      | true =>
        simp only [↓reduceIte, relPadR, List.mem_map, List.mem_filter] at hx
        obtain ⟨b, ⟨hb, _⟩, rfl⟩ := hx
        simp [Plan.width, ihr ctx b hb, nullRow_length]
  | lookupJoin s j ihs ihj =>
    intro ctx x hx
    simp only [planBag, relDep, List.mem_flatMap, List.mem_map] at hx
    obtain ⟨a, ha, b, hb, rfl⟩ := hx
    simp [Plan.width, ihs ctx a ha, ihj (ctx ++ a) b hb]

/-! ### list algebra -/

theorem filter_map_append (P : VRow → Bool) (a : VRow) (X : List VRow) :
    (X.map fun b => a ++ b).filter P = (X.filter fun b => P (a ++ b)).map fun b => a ++ b := by
  induction X with
  | nil => rfl
  | cons x X ih =>
    simp only [List.map_cons, List.filter_cons]
    by_cases h : P (a ++ x) = true
    · simp [h, ih]
    · simp [h, ih]

theorem filter_filter' (p q : VRow → Bool) (X : List VRow) :
    (X.filter p).filter q = X.filter fun b => p b && q b := by
  induction X with
  | nil => rfl
  | cons x X ih =>
    simp only [List.filter_cons]
    by_cases hp : p x = true
    · by_cases hq : q x = true
      · simp [hp, hq, List.filter_cons, ih]
      · simp [hp, hq, List.filter_cons, ih]
    · simp [hp, ih]

theorem filter_congr' {p q : VRow → Bool} {X : List VRow} (h : ∀ x ∈ X, p x = q x) : X.filter p = X.filter q := by
  induction X with
  | nil => rfl
  | cons x X ih =>
    simp only [List.filter_cons, h x (by simp)]
    rw [ih (fun y hy => h y (by simp [hy]))]

theorem filter_relInner (m : VRow → VRow → Bool) (P : VRow → Bool) (L R : List VRow) :
    (relInner m L R).filter P = relInner (fun a b => m a b && P (a ++ b)) L R := by
  unfold relInner
  induction L with
  | nil => rfl
  | cons a L ih =>
    simp only [List.flatMap_cons, List.filter_append, ih, filter_map_append, filter_filter']

theorem relInner_congr {m m' : VRow → VRow → Bool} {L R : List VRow} (h : ∀ a ∈ L, ∀ b ∈ R, m a b = m' a b) :
    relInner m L R = relInner m' L R := by
  unfold relInner
  induction L with
  | nil => rfl
  | cons a L ih =>
    simp only [List.flatMap_cons]
    rw [ih (fun x hx => h x (by simp [hx])), filter_congr' (fun b hb => h a (by simp) b hb)]

theorem relPadL_congr {m m' : VRow → VRow → Bool} {L R : List VRow} (n : Nat) (h : ∀ a ∈ L, ∀ b ∈ R, m a b = m' a b) :
    relPadL m n L R = relPadL m' n L R := by
  unfold relPadL
  congr 1
  apply filter_congr'
  intro a ha
  congr 1
  rw [List.any_eq, List.any_eq]
  simp only [decide_eq_decide]
  constructor
  · rintro ⟨b, hb, hm⟩; exact ⟨b, hb, by rw [← h a ha b hb]; exact hm⟩
  · rintro ⟨b, hb, hm⟩; exact ⟨b, hb, by rw [h a ha b hb]; exact hm⟩

theorem relPadR_congr {m m' : VRow → VRow → Bool} {L R : List VRow} (n : Nat) (h : ∀ a ∈ L, ∀ b ∈ R, m a b = m' a b) :
    relPadR m n L R = relPadR m' n L R := by
  unfold relPadR
  congr 1
  apply filter_congr'
  intro b hb
  congr 1
  rw [List.any_eq, List.any_eq]
  simp only [decide_eq_decide]
  constructor
  · rintro ⟨a, ha, hm⟩; exact ⟨a, ha, by rw [← h a ha b hb]; exact hm⟩
  · rintro ⟨a, ha, hm⟩; exact ⟨a, ha, by rw [h a ha b hb]; exact hm⟩

theorem filter_relDep (J : VRow → List VRow) (P : VRow → Bool) (L : List VRow) :
    (relDep J L).filter P = relDep (fun a => (J a).filter fun b => P (a ++ b)) L := by
  unfold relDep
  induction L with
  | nil => rfl
  | cons a L ih => simp only [List.flatMap_cons, List.filter_append, ih, filter_map_append]

theorem flatMap_congr' {α β : Type} {f g : α → List β} {L : List α} (h : ∀ a ∈ L, f a = g a) :
    L.flatMap f = L.flatMap g := by
  induction L with
  | nil => rfl
  | cons a L ih =>
    simp only [List.flatMap_cons]
    rw [ih (fun x hx => h x (by simp [hx])), h a (by simp)]

theorem relDep_congr {J J' : VRow → List VRow} {L : List VRow} (h : ∀ a ∈ L, J a = J' a) : relDep J L = relDep J' L := by
  unfold relDep
  induction L with
  | nil => rfl
  | cons a L ih =>
    simp only [List.flatMap_cons]
    rw [ih (fun x hx => h x (by simp [hx])), h a (by simp)]

/-! ### evaluation on the parts of a joined row -/

/-- an expression that uses no position at or beyond `row.length` within the appended part -/
theorem eval_append_left (row x : VRow) (e : SExpr) :
    (∀ i ∈ colsOf e, i < row.length ∨ row.length + x.length ≤ i) → eval (row ++ x) e = eval row e := by
  induction e with
  | col i =>
    intro h
    have hi := h i (by simp [colsOf])
    simp only [eval]
    rcases hi with hi | hi
    · rw [List.getElem?_append_left hi]
    · rw [List.getElem?_eq_none (by simp; omega), List.getElem?_eq_none (by omega)]
  | lit v => intro _; rfl
  | bin op a b iha ihb =>
    intro h
    simp only [colsOf, List.mem_append] at h
    simp only [eval, iha (fun i hi => h i (Or.inl hi)), ihb (fun i hi => h i (Or.inr hi))]
  | and a b iha ihb =>
    intro h
    simp only [colsOf, List.mem_append] at h
    simp only [eval, iha (fun i hi => h i (Or.inl hi)), ihb (fun i hi => h i (Or.inr hi))]
  | or a b iha ihb =>
    intro h
    simp only [colsOf, List.mem_append] at h
    simp only [eval, iha (fun i hi => h i (Or.inl hi)), ihb (fun i hi => h i (Or.inr hi))]
  | not a iha => intro h; simp only [colsOf] at h; simp only [eval, iha h]
  | isNull a iha => intro h; simp only [colsOf] at h; simp only [eval, iha h]
  | isNotNull a iha => intro h; simp only [colsOf] at h; simp only [eval, iha h]

/-- `e` uses none of the right input's columns: it can be evaluated on `ctx ++ a` -/
theorem eval_leftOnly {c wl wr : Nat} {ctx a b : VRow} (hc : ctx.length = c) (ha : a.length = wl) (hb : b.length = wr)
    {e : SExpr} (h : usesRange (c + wl) (c + wl + wr) e = false) : eval (ctx ++ a ++ b) e = eval (ctx ++ a) e := by
  apply eval_append_left
  intro i hi
  have := usesRange_false h i hi
  simp only [List.length_append]
  omega

/-- `e` uses none of the left input's columns: re-indexed, it can be evaluated on `ctx ++ b` -/
theorem eval_rightOnly {c wl : Nat} {ctx a b : VRow} (hc : ctx.length = c) (ha : a.length = wl)
    {e : SExpr} (h : usesRange c (c + wl) e = false) : eval (ctx ++ a ++ b) e = eval (ctx ++ b) (shiftE c wl e) :=
  eval_shiftE c wl ctx a b hc ha e (usesRange_false h)

theorem isTrue_leftOnly {c wl wr : Nat} {ctx a b : VRow} (hc : ctx.length = c) (ha : a.length = wl) (hb : b.length = wr)
    {e : SExpr} (h : usesRange (c + wl) (c + wl + wr) e = false) : isTrue (ctx ++ a ++ b) e = isTrue (ctx ++ a) e := by
  unfold isTrue; rw [eval_leftOnly hc ha hb h]

theorem isTrue_rightOnly {c wl : Nat} {ctx a b : VRow} (hc : ctx.length = c) (ha : a.length = wl)
    {e : SExpr} (h : usesRange c (c + wl) e = false) : isTrue (ctx ++ a ++ b) e = isTrue (ctx ++ b) (shiftE c wl e) := by
  unfold isTrue; rw [eval_rightOnly hc ha h]

/-! ### key equalities -/

theorem isNullV_iff (v : Value) : isNullV v = true ↔ v = .null := by
  cases v <;> simp [isNullV]

/-- both sides evaluate, the first is not NULL and they compare equal (then the second is not NULL either) -/
def eqKey (ou ov : Option Value) : Bool :=
  match ou, ov with
  | some u, some v => !isNullV u && (cmp u v == 0)
  | _, _ => false

theorem eqKey_comm (ou ov : Option Value) : eqKey ou ov = eqKey ov ou := by
  cases ou with
  | none => cases ov <;> rfl
  | some u =>
    cases ov with
    | none => rfl
    | some v =>
      show (!isNullV u && (cmp u v == 0)) = (!isNullV v && (cmp v u == 0))
      have hanti := cmp_antisymm u v
      have e1 : (cmp v u == 0) = (cmp u v == 0) := by
        rw [Bool.eq_iff_iff]; simp only [beq_iff_eq]; omega
      rw [e1]
      by_cases h0 : cmp u v = 0
      · rw [isNullV_congr h0]
      · have : (cmp u v == 0) = false := beq_eq_false_iff_ne.mpr h0
        rw [this]; simp

/-- `x = y` is TRUE iff both sides evaluate, neither is NULL and they compare equal -/
theorem isTrue_eq (row : VRow) (x y : SExpr) :
    isTrue row (.bin .eq x y) = eqKey (eval row x) (eval row y) := by
  unfold eqKey
  rw [isTrue_eq_tv, eval_bin_eq]
  cases hx : eval row x with
  | none => rfl
  | some u =>
    cases hy : eval row y with
    | none => rfl
    | some v =>
      simp only [Option.bind]
      by_cases hu : isNullV u = true
      · simp [hu, tv_null]
      · by_cases hv : isNullV v = true
        · have hvn := (isNullV_iff v).mp hv
          subst hvn
          have : ¬ (cmp u .null = 0) := by
            intro h0; exact hu ((isNullV_iff u).mpr ((cmp_null_right u).mp h0))
          simp [hu, hv, tv_null, this]
        · simp only [hu, hv, Bool.or_self, Bool.false_eq_true, ↓reduceIte, applyBin, Bool.not_false, Bool.true_and]
          cases hcmp : (cmp u v == 0) <;> simp [tv_true, tv_false]

theorem keyMatch_cons (x y : SExpr) (kl kr : List SExpr) (ctx a b : VRow) :
    keyMatch (x :: kl) (y :: kr) ctx a b =
      (eqKey (eval (ctx ++ a) x) (eval (ctx ++ b) y) && keyMatch kl kr ctx a b) := by
  unfold keyMatch eqKey
  simp only [evalAll]
  cases hx : eval (ctx ++ a) x with
  | none => simp
  | some u =>
    cases hy : eval (ctx ++ b) y with
    | none =>
      cases evalAll (ctx ++ a) kl <;> simp
    | some v =>
      cases hl : evalAll (ctx ++ a) kl with
      | none => simp
      | some us =>
        cases hr : evalAll (ctx ++ b) kr with
        | none => simp
        | some vs =>
          simp only [Octo.rowEq, cmpList, cmpListWith]
          by_cases hu : isNullV u = true
          · have := (isNullV_iff u).mp hu
            subst this
            simp [hasNull, isNullV]
          · have hh : hasNull (u :: us) = hasNull us := by
              cases u <;> simp [hasNull, isNullV] at hu ⊢
            rw [hh]
            simp only [hu, Bool.not_false, Bool.true_and]
            simp only [cmp]
            by_cases hc : cmpWith cmpFloatFixed u v = 0
            · simp [hc]
            · have e : (cmpWith cmpFloatFixed u v == 0) = false := beq_eq_false_iff_ne.mpr hc
              simp [hc, e]

theorem keyMatch_nil (ctx a b : VRow) : keyMatch [] [] ctx a b = true := by
  simp [keyMatch, evalAll, hasNull, Octo.rowEq, cmpList, cmpListWith]

/-- the keys extracted from the ON condition of an outer join say exactly that every equality is TRUE -/
theorem outerKeys_match {c wl wr : Nat} {ctx a b : VRow} (hc : ctx.length = c) (ha : a.length = wl) (hb : b.length = wr) :
    ∀ (parts : List SExpr) (kl kr : List SExpr), outerKeys c wl wr parts = some (kl, kr) →
      keyMatch kl kr ctx a b = parts.all (isTrue (ctx ++ a ++ b))
  | [], kl, kr, h => by
    simp only [outerKeys, Option.some.injEq, Prod.mk.injEq] at h
    obtain ⟨rfl, rfl⟩ := h
    simp [keyMatch_nil]
  | e :: rest, kl, kr, h => by
    cases e with
    | bin op x y =>
      cases op with
      | eq =>
        simp only [outerKeys] at h
        split at h
        · rename_i hcond
          simp only [Bool.and_eq_true, Bool.not_eq_true'] at hcond
          cases hrec : outerKeys c wl wr rest with
          | none => simp [hrec] at h
          | some ks =>
            simp only [hrec, Option.map_some, Option.some.injEq, Prod.mk.injEq] at h
            obtain ⟨rfl, rfl⟩ := h
            rw [keyMatch_cons, outerKeys_match hc ha hb rest ks.1 ks.2 (by rw [hrec]), List.all_cons, isTrue_eq,
              eval_leftOnly hc ha hb hcond.1.1.2, eval_rightOnly hc ha hcond.1.2]
        · split at h
          · rename_i hcond
            simp only [Bool.and_eq_true, Bool.not_eq_true'] at hcond
            cases hrec : outerKeys c wl wr rest with
            | none => simp [hrec] at h
            | some ks =>
              simp only [hrec, Option.map_some, Option.some.injEq, Prod.mk.injEq] at h
              obtain ⟨rfl, rfl⟩ := h
              rw [keyMatch_cons, outerKeys_match hc ha hb rest ks.1 ks.2 (by rw [hrec]), List.all_cons, isTrue_eq,
                eval_rightOnly hc ha hcond.1.1.1, eval_leftOnly hc ha hb hcond.2]
              rw [eqKey_comm]
          · cases h
      | _ => simp [outerKeys] at h
    | _ => simp [outerKeys] at h

theorem outerKeys_length {c wl wr : Nat} : ∀ (parts kl kr : List SExpr), outerKeys c wl wr parts = some (kl, kr) →
    kl.length = kr.length
  | [], kl, kr, h => by
    simp only [outerKeys, Option.some.injEq, Prod.mk.injEq] at h
    obtain ⟨rfl, rfl⟩ := h; rfl
  | e :: rest, kl, kr, h => by
    cases e with
    | bin op x y =>
      cases op with
      | eq =>
        simp only [outerKeys] at h
        cases hrec : outerKeys c wl wr rest with
        | none => simp [hrec] at h
        | some ks =>
          have ih := outerKeys_length rest ks.1 ks.2 (by rw [hrec])
          simp only [hrec, Option.map_some] at h
          split at h
          · simp only [Option.some.injEq, Prod.mk.injEq] at h; obtain ⟨rfl, rfl⟩ := h; simp [ih]
          · split at h
            · simp only [Option.some.injEq, Prod.mk.injEq] at h; obtain ⟨rfl, rfl⟩ := h; simp [ih]
            · cases h
      | _ => simp [outerKeys] at h
    | _ => simp [outerKeys] at h

/-! ### the planner -/

theorem fromSem_width {db : Db} (hdb : DbOK db) : ∀ (f : From) (ctx : VRow), ∀ r ∈ fromSem db f ctx, r.length = f.width db := by
  intro f
  induction f with
  | tbl i => intro ctx r hr; exact tableRows_width hdb i r hr
  | sub s w ih =>
    intro ctx r hr
    simp only [fromSem, List.mem_filter] at hr
    exact ih ctx r hr.1
  | proj s es _ =>
    intro ctx r hr
    simp only [fromSem, List.mem_filterMap] at hr
    obtain ⟨x, _, hx⟩ := hr
    exact evalAll_length es _ r hx
  | join k l r on ihl ihr =>
    intro ctx x hx
    cases k with
    | lookup =>
      simp only [fromSem, List.mem_flatMap, List.mem_map, List.mem_filter] at hx
      obtain ⟨a, ha, b, ⟨hb, _⟩, rfl⟩ := hx
      simp [From.width, ihl ctx a ha, ihr (ctx ++ a) b hb]
    | inner | left | right | full =>
      simp only [fromSem, List.mem_append] at hx
      rcases hx with (hx | hx) | hx
      · simp only [innerPart, List.mem_flatMap, List.mem_map, List.mem_filter] at hx
        obtain ⟨a, ha, b, ⟨hb, _⟩, rfl⟩ := hx
        simp [From.width, ihl ctx a ha, ihr ctx b hb]
      · split at hx
        · simp only [leftPart, List.mem_map, List.mem_filter] at hx
          obtain ⟨a, ⟨ha, _⟩, rfl⟩ := hx
          simp [From.width, ihl ctx a ha, nullRow_length]
        · simp at hx
      · split at hx
        · simp only [rightPart, List.mem_map, List.mem_filter] at hx
          obtain ⟨b, ⟨hb, _⟩, rfl⟩ := hx
          simp [From.width, ihr ctx b hb, nullRow_length]
        · simp at hx

theorem predOK_of_parts : ∀ (e : SExpr), (∀ c ∈ splitAnd e, predOK c = true) → predOK e = true := by
  intro e
  induction e with
  | and a b iha ihb =>
    intro h
    simp only [splitAnd, List.mem_append] at h
    simp only [predOK, Bool.and_eq_true]
    exact ⟨iha (fun c hc => h c (Or.inl hc)), ihb (fun c hc => h c (Or.inr hc))⟩
  | col i => intro h; exact h _ (by simp [splitAnd])
  | lit v => intro h; exact h _ (by simp [splitAnd])
  | bin op a b _ _ => intro h; exact h _ (by simp [splitAnd])
  | or a b _ _ => intro h; exact h _ (by simp [splitAnd])
  | not a _ => intro h; exact h _ (by simp [splitAnd])
  | isNull a _ => intro h; exact h _ (by simp [splitAnd])
  | isNotNull a _ => intro h; exact h _ (by simp [splitAnd])

theorem planOf_width (db : Db) : ∀ (f : From) (c : Nat) (p : Plan), planOf db f c = some p → p.width db = f.width db := by
  intro f
  induction f with
  | tbl i => intro c p h; simp only [planOf, Option.some.injEq] at h; subst h; rfl
  | sub s w ih =>
    intro c p h
    simp only [planOf] at h
    cases hs : planOf db s c with
    | none => simp [hs] at h
    | some ps => simp only [hs, Option.map_some, Option.some.injEq] at h; subst h; simp [Plan.width, From.width, ih c ps hs]
  | proj s es ih =>
    intro c p h
    simp only [planOf] at h
    cases hs : planOf db s c with
    | none => simp [hs] at h
    | some ps => simp only [hs, Option.map_some, Option.some.injEq] at h; subst h; simp [Plan.width, From.width]
  | join k l r on ihl ihr =>
    intro c p h
    cases k with
    | inner =>
      simp only [planOf] at h
      cases hl : planOf db l c <;> cases hr : planOf db r c <;> simp only [hl, hr] at h <;> try cases h
      simp [Plan.width, From.width, ihl c _ hl, ihr c _ hr]
    | lookup =>
      simp only [planOf] at h
      cases hl : planOf db l c <;> cases hr : planOf db r (c + l.width db) <;> simp only [hl, hr] at h <;> try cases h
      simp [Plan.width, From.width, ihl c _ hl, ihr _ _ hr]
    | left | right | full =>
      simp only [planOf] at h
      cases hl : planOf db l c <;> cases hr : planOf db r c <;> simp only [hl, hr] at h <;> try cases h
      cases hk : outerKeys c (l.width db) (r.width db) (splitAnd on) <;> simp only [hk, Option.map_none, Option.map_some] at h <;> cases h
      simp [Plan.width, From.width, ihl c _ hl, ihr c _ hr]

/-- **the planner is right**: read relationally, the plan built for a FROM clause computes the SQL semantics
    of that FROM clause (as the same list of rows) -/
theorem planOf_sound {db : Db} (hdb : DbOK db) : ∀ (f : From) (c : Nat) (p : Plan) (ctx : VRow),
    planOf db f c = some p → ctx.length = c → planBag db p ctx = fromSem db f ctx := by
  intro f
  induction f with
  | tbl i => intro c p ctx h _; simp only [planOf, Option.some.injEq] at h; subst h; rfl
  | sub s w ih =>
    intro c p ctx h hc
    simp only [planOf] at h
    cases hs : planOf db s c with
    | none => simp [hs] at h
    | some ps =>
      simp only [hs, Option.map_some, Option.some.injEq] at h; subst h
      simp only [planBag, fromSem, ih c ps ctx hs hc]
  | proj s es ih =>
    intro c p ctx h hc
    simp only [planOf] at h
    cases hs : planOf db s c with
    | none => simp [hs] at h
    | some ps =>
      simp only [hs, Option.map_some, Option.some.injEq] at h; subst h
      simp only [planBag, fromSem, ih c ps ctx hs hc]
  | join k l r on ihl ihr =>
    intro c p ctx h hc
    cases k with
    | inner =>
      simp only [planOf] at h
      cases hl : planOf db l c <;> cases hr : planOf db r c <;> simp only [hl, hr] at h <;> try cases h
      rename_i pl pr
      simp only [planBag, fromSem, ihl c pl ctx hl hc, ihr c pr ctx hr hc, filter_relInner, wantsLeft, wantsRight]
      simp only [innerPart, relInner, keyMatch_nil, Bool.true_and, List.append_assoc]
      simp
    | lookup =>
      simp only [planOf] at h
      cases hl : planOf db l c <;> cases hr : planOf db r (c + l.width db) <;> simp only [hl, hr] at h <;> try cases h
      rename_i pl pr
      simp only [planBag, fromSem, ihl c pl ctx hl hc, filter_relDep]
      unfold relDep
      apply flatMap_congr'
      intro a ha
      have hw := fromSem_width hdb l ctx a ha
      have e := ihr (c + l.width db) pr (ctx ++ a) hr (by simp [hc, hw])
      simp only [e, List.append_assoc]
    | left | right | full =>
      all_goals
        simp only [planOf] at h
        cases hl : planOf db l c <;> cases hr : planOf db r c <;> simp only [hl, hr] at h <;> try cases h
        rename_i pl pr
        cases hk : outerKeys c (l.width db) (r.width db) (splitAnd on) <;> simp only [hk, Option.map_none, Option.map_some] at h <;> cases h
        rename_i ks
        have hm : ∀ a ∈ fromSem db l ctx, ∀ b ∈ fromSem db r ctx,
            keyMatch ks.1 ks.2 ctx a b = isTrue (ctx ++ a ++ b) on := by
          intro a ha b hb
          rw [outerKeys_match hc (fromSem_width hdb l ctx a ha) (fromSem_width hdb r ctx b hb) _ ks.1 ks.2 hk]
          have hp : predOK on = true := by
            apply predOK_of_parts
            intro e he
            have : ∀ (parts : List SExpr) (kl kr : List SExpr), outerKeys c (l.width db) (r.width db) parts = some (kl, kr) →
                ∀ e ∈ parts, predOK e = true := by
              intro parts
              induction parts with
              | nil => intro _ _ _ e he; simp at he
              | cons q rest ihp =>
                intro kl kr hq e he
                cases q with
                | bin op x y =>
                  cases op with
                  | eq =>
                    simp only [List.mem_cons] at he
                    rcases he with rfl | he
                    · rfl
                    · simp only [outerKeys] at hq
                      cases hrec : outerKeys c (l.width db) (r.width db) rest with
                      | none => simp [hrec] at hq
                      | some ks' => exact ihp ks'.1 ks'.2 (by rw [hrec]) e he
                  | _ => simp [outerKeys] at hq
                | _ => simp [outerKeys] at hq
            exact this _ ks.1 ks.2 hk e he
          rw [isTrue_splitAnd _ on hp]
        simp only [planBag, fromSem, relOuter, ihl c pl ctx hl hc, ihr c pr ctx hr hc, planOf_width db l c pl hl,
          planOf_width db r c pr hr]
        rw [relInner_congr hm, relPadL_congr _ hm, relPadR_congr _ hm]
        simp [innerPart, leftPart, rightPart, relInner, relPadL, relPadR, wantsLeft, wantsRight]

end Octo.SqlJoin
