import Octo.Lemmas.SqlOps
/-! The ordered multiset (`insertItem`, `prune`, `flatten`, `buildTree`, `emit`) of
    `OrderSensitiveTransform` and of the table printer. -/
namespace Octo.Sql
open Octo

/-! ### filter and map agree with their naive specifications whenever they do not fail -/

theorem filterOp_spec (p : SExpr) (rows out : List Row) (h : filterOp p rows = some out) :
    out = specFilter (some p) rows := by
  induction rows generalizing out with
  | nil => simp [filterOp] at h; simp [specFilter, h]
  | cons r rs ih =>
    simp only [filterOp] at h
    cases he : eval r p with
    | none => simp [he] at h
    | some v =>
      cases hr : filterOp p rs with
      | none => simp [he, hr] at h
      | some o =>
        simp only [he, hr, Option.some.injEq] at h
        have := ih o hr
        simp only [specFilter] at this ⊢
        simp only [List.filter_cons, he]
        subst h
        cases v <;> simp [this]
        rename_i b; cases b <;> simp

theorem evalAll_length (row : Row) (es : List SExpr) (vs : Row) (h : evalAll row es = some vs) :
    vs.length = es.length := by
  induction es generalizing vs with
  | nil => simp [evalAll] at h; simp [h]
  | cons e es ih =>
    simp only [evalAll] at h
    cases h1 : eval row e <;> cases h2 : evalAll row es <;> simp [h1, h2] at h
    subst h; simp [ih _ h2]

theorem mapOp_spec (es : List SExpr) (rows out : List Row) (h : mapOp es rows = some out) :
    out = specMap (some es) rows := by
  induction rows generalizing out with
  | nil => simp [mapOp] at h; simp [specMap, h]
  | cons r rs ih =>
    simp only [mapOp] at h
    cases h1 : evalAll r es <;> cases h2 : mapOp es rs <;> simp [h1, h2] at h
    subst h
    have := ih _ h2
    simp only [specMap] at this ⊢
    simp [List.filterMap_cons, h1, this]

/-! ### `keyCmp` / `itemCmp` with direction multipliers ±1 -/

def MultsOk (m : List Int) : Prop := ∀ x ∈ m, x = 1 ∨ x = -1

theorem keyCmp_refl (m : List Int) (k : List Value) : keyCmp m k k = 0 := by
  induction m generalizing k with
  | nil => cases k <;> simp [keyCmp]
  | cons a as ih =>
    cases k with
    | nil => simp [keyCmp]
    | cons x xs =>
      have := cmpWith_refl cmpFloatFixed_laws x
      simp only [keyCmp, cmp, this]
      simp [ih]

theorem keyCmp_antisymm (m : List Int) (a b : List Value) : keyCmp m a b = - keyCmp m b a := by
  induction m generalizing a b with
  | nil => cases a <;> cases b <;> simp [keyCmp]
  | cons w ws ih =>
    cases a with
    | nil => cases b <;> simp [keyCmp]
    | cons x xs =>
      cases b with
      | nil => simp [keyCmp]
      | cons y ys =>
        have h := cmpWith_antisymm cmpFloatFixed_laws x y
        simp only [keyCmp, cmp, bne_iff_ne, ne_eq, ite_not]
        have := ih xs ys
        by_cases h0 : cmpWith cmpFloatFixed x y = 0
        · have h1 : cmpWith cmpFloatFixed y x = 0 := by omega
          simp [h0, h1, this]
        · have h1 : cmpWith cmpFloatFixed y x ≠ 0 := by omega
          simp only [h0, h1, if_false]
          rw [h]; simp [Int.neg_mul]

theorem keyCmp_trans (m : List Int) (hm : MultsOk m) (a b c : List Value)
    (hl1 : a.length = b.length) (hl2 : b.length = c.length) :
    keyCmp m a b ≤ 0 → keyCmp m b c ≤ 0 → keyCmp m a c ≤ 0 := by
  induction m generalizing a b c with
  | nil => cases a <;> cases c <;> simp [keyCmp]
  | cons w ws ih =>
    cases a with
    | nil => cases c <;> simp [keyCmp]
    | cons x xs =>
      cases b with
      | nil => simp at hl1
      | cons y ys =>
        cases c with
        | nil => simp at hl2
        | cons z zs =>
          have hw := hm w (by simp)
          have hws : MultsOk ws := fun q hq => hm q (by simp [hq])
          have t1 := cmpWith_trans cmpFloatFixed_laws x y z
          have t2 := cmpWith_trans cmpFloatFixed_laws z y x
          have t3 := cmpWith_trans cmpFloatFixed_laws y z x
          have t4 := cmpWith_trans cmpFloatFixed_laws z x y
          have t5 := cmpWith_trans cmpFloatFixed_laws x z y
          have t6 := cmpWith_trans cmpFloatFixed_laws y x z
          have a1 := cmpWith_antisymm cmpFloatFixed_laws x y
          have a2 := cmpWith_antisymm cmpFloatFixed_laws y z
          have a3 := cmpWith_antisymm cmpFloatFixed_laws x z
          have r1 := cmpWith_range cmpFloatFixed_laws x y
          have r2 := cmpWith_range cmpFloatFixed_laws y z
          have r3 := cmpWith_range cmpFloatFixed_laws x z
          have hrec := ih hws xs ys zs (by simpa using hl1) (by simpa using hl2)
          rcases hw with rfl | rfl
          · simp only [keyCmp, cmp, bne_iff_ne, ne_eq, ite_not, Int.mul_one]
            repeat' split
            all_goals omega
          · simp only [keyCmp, cmp, bne_iff_ne, ne_eq, ite_not, Int.mul_neg, Int.mul_one]
            repeat' split
            all_goals omega

theorem itemCmp_refl (m : List Int) (a : Item) : itemCmp m a a = 0 := by
  simp [itemCmp, keyCmp_refl, cmpList_refl]

theorem itemCmp_antisymm (m : List Int) (a b : Item) : itemCmp m a b = - itemCmp m b a := by
  have h1 := keyCmp_antisymm m a.key b.key
  have h2 := cmpList_antisymm a.vals b.vals
  simp only [itemCmp, bne_iff_ne, ne_eq, ite_not]
  repeat' split
  all_goals omega

/-- items whose keys all have the length of the ORDER BY clause -/
def KeyLen (n : Nat) (a : Item) : Prop := a.key.length = n

theorem itemCmp_trans (m : List Int) (hm : MultsOk m) (n : Nat) (a b c : Item)
    (ha : KeyLen n a) (hb : KeyLen n b) (hc : KeyLen n c) :
    itemCmp m a b ≤ 0 → itemCmp m b c ≤ 0 → itemCmp m a c ≤ 0 := by
  have k1 := keyCmp_trans m hm a.key b.key c.key (by simp [KeyLen] at *; omega) (by simp [KeyLen] at *; omega)
  have k2 := keyCmp_trans m hm c.key b.key a.key (by simp [KeyLen] at *; omega) (by simp [KeyLen] at *; omega)
  have k3 := keyCmp_trans m hm b.key c.key a.key (by simp [KeyLen] at *; omega) (by simp [KeyLen] at *; omega)
  have k4 := keyCmp_trans m hm c.key a.key b.key (by simp [KeyLen] at *; omega) (by simp [KeyLen] at *; omega)
  have s1 := keyCmp_antisymm m a.key b.key
  have s2 := keyCmp_antisymm m b.key c.key
  have s3 := keyCmp_antisymm m a.key c.key
  have v1 := cmpList_trans a.vals b.vals c.vals
  simp only [itemCmp, bne_iff_ne, ne_eq, ite_not]
  repeat' split
  all_goals omega

end Octo.Sql
