import Octo.Lemmas.TypingKinds
/-!
  Octo.Lemmas.TypingTableOk — the generated descriptor table satisfies `SigOk` for every body function that respects the
  extracted result kinds, given the decidable facts about the table (`TableFacts`, discharged by `decide` in
  `Octo.Props.C08` against the table as regenerated from /repo on this run).
-/
namespace Octo.Tc
open Octo Octo.Ty Octo.Gen.FuncTable

/-- the decidable per-entry facts -/
structure TableFacts : Prop where
  out_wf : ∀ e ∈ table, wf e.out = true
  params : ∀ e ∈ table, e.args.all paramOk = true
  kinds : ∀ e ∈ table, e.hasTypeFn = false → e.kinds.all (kindOk e.args e.out) = true
  tyfn : ∀ e ∈ table, e.hasTypeFn = true →
    (match tyFnOf e.name e.idx with
      | some f => e.kinds.all (tyFnKindOk f)
      | none => false) = true
  indices : ∀ e ∈ table, (table.filter (fun e' => e'.name = e.name)).map (·.idx) =
    List.range (table.filter (fun e' => e'.name = e.name)).length

theorem descrsOf_get (F : TableFacts) {name : List Nat} {i : Nat} {d : Descr} (h : (descrsOf name)[i]? = some d) :
    ∃ e ∈ table, e.name = name ∧ e.idx = i ∧ d = descrOf e := by
  unfold descrsOf at h
  rw [List.getElem?_map] at h
  cases he : (table.filter (fun e => e.name = name))[i]? with
  | none => simp [he] at h
  | some e =>
    simp only [he, Option.map_some, Option.some.injEq] at h
    have hmem : e ∈ table.filter (fun e => e.name = name) := List.mem_of_getElem? he
    have ⟨ht, hn⟩ := List.mem_filter.mp hmem
    have hn' : e.name = name := by simpa using hn
    refine ⟨e, ht, hn', ?_, h.symm⟩
    have hidx := F.indices e ht
    rw [hn'] at hidx
    have h1 : ((table.filter (fun e' => e'.name = name)).map (·.idx))[i]? = some e.idx := by
      rw [List.getElem?_map, he]; rfl
    rw [hidx] at h1
    have hlt : i < (table.filter (fun e' => e'.name = name)).length := (List.getElem?_eq_some_iff.mp he).1
    rw [List.getElem?_range hlt] at h1
    simp only [Option.some.injEq] at h1
    exact h1.symm

theorem descrsOf_mem (F : TableFacts) {name : List Nat} {d : Descr} (h : d ∈ descrsOf name) :
    ∃ e ∈ table, e.name = name ∧ d = descrOf e := by
  obtain ⟨i, hi⟩ := List.getElem?_of_mem h
  obtain ⟨e, he, hn, _, hd⟩ := descrsOf_get F hi
  exact ⟨e, he, hn, hd⟩

/-- **obligation (i) for the real table**: for every assignment of bodies that respect the result kinds extracted from
    the Go source, the generated function environment satisfies what the soundness theorem needs -/
theorem sigOk_of_facts (F : TableFacts) (body : Name → Nat → List Value → Res)
    (hb : ∀ e ∈ table, RespectsKinds e.kinds (body e.name e.idx)) : SigOk (sigOf body) where
  out_wf := by
    intro name d hd
    obtain ⟨e, he, _, rfl⟩ := descrsOf_mem F hd
    exact F.out_wf e he
  params := by
    intro name d hd p hp
    obtain ⟨e, he, _, rfl⟩ := descrsOf_mem F hd
    exact List.all_eq_true.mp (F.params e he) p hp
  tyfn_wf := by
    intro name d f hd htf tys o hw hf
    obtain ⟨e, he, _, rfl⟩ := descrsOf_mem F hd
    simp only [descrOf] at htf
    cases hh : e.hasTypeFn with
    | false => simp [hh] at htf
    | true =>
      simp only [hh, if_true, Option.some.injEq] at htf
      cases hq : tyFnOf e.name e.idx with
      | some g => rw [hq] at htf; subst htf; exact applyTyFn_wf hw hf
      | none => rw [hq] at htf; subst htf; simp at hf
  sound := by
    intro name i d hget
    obtain ⟨e, he, hn, hi, rfl⟩ := descrsOf_get F hget
    have hbe := hb e he
    rw [hn, hi] at hbe
    simp only [sigOf]
    cases htf : e.hasTypeFn with
    | false =>
      refine descrSound_of_kinds (kinds := e.kinds) (by simp [descrOf, htf]) ?_ hbe
      intro k hk
      exact List.all_eq_true.mp (F.kinds e he htf) k hk
    | true =>
      have hty := F.tyfn e he htf
      unfold DescrSound
      simp only [descrOf, htf, if_true]
      cases hf : tyFnOf e.name e.idx with
      | none => simp [hf] at hty
      | some f =>
        simp only [hf] at hty ⊢
        intro tys o args v hfo hc hv
        obtain ⟨k, hk, hp⟩ := hbe args v hv
        exact tyFnKind_sound (List.all_eq_true.mp hty k hk) hfo hc hp

end Octo.Tc
