import Octo.Lemmas.ValueOrder
/-! The order laws of `cmpWith cf` for values of any nesting depth, from the laws of `cf`. -/
namespace Octo
open Value

variable {cf : Nat → Nat → Int}

theorem bool_cmp_cases (a b : Bool) :
    (if (a == b) = true then (0:Int) else if (!a) = true then -1 else 1) =
      cmpNat a.toNat b.toNat := by
  cases a <;> cases b <;> simp [cmpNat]

mutual
theorem cmpWith_range (L : CmpLaws cf) : ∀ a b, cmpWith cf a b = -1 ∨ cmpWith cf a b = 0 ∨ cmpWith cf a b = 1
  | .list xs, .list ys => by simp only [cmpWith]; exact cmpListWith_range L xs ys
  | .struct xs, .struct ys => by simp only [cmpWith]; exact cmpListWith_range L xs ys
  | .tuple xs, .tuple ys => by simp only [cmpWith]; exact cmpListWith_range L xs ys
  | .null, b => by cases b <;> simp [cmpWith, rank]
  | .int x, b => by cases b <;> simp [cmpWith, rank, cmpInt_range]
  | .float x, b => by cases b <;> simp [cmpWith, rank, L.range]
  | .bool x, b => by
      cases b <;> simp [cmpWith, rank]
      rename_i y; cases x <;> cases y <;> simp
  | .str x, b => by cases b <;> simp [cmpWith, rank, cmpBytes_range]
  | .time x _, b => by cases b <;> simp [cmpWith, rank, cmpInt_range]
  | .dur x, b => by cases b <;> simp [cmpWith, rank, cmpInt_range]
  | .list xs, .null | .list xs, .int _ | .list xs, .float _ | .list xs, .bool _ | .list xs, .str _
  | .list xs, .time _ _ | .list xs, .dur _ | .list xs, .struct _ | .list xs, .tuple _ => by simp [cmpWith, rank]
  | .struct xs, .null | .struct xs, .int _ | .struct xs, .float _ | .struct xs, .bool _ | .struct xs, .str _
  | .struct xs, .time _ _ | .struct xs, .dur _ | .struct xs, .list _ | .struct xs, .tuple _ => by simp [cmpWith, rank]
  | .tuple xs, .null | .tuple xs, .int _ | .tuple xs, .float _ | .tuple xs, .bool _ | .tuple xs, .str _
  | .tuple xs, .time _ _ | .tuple xs, .dur _ | .tuple xs, .list _ | .tuple xs, .struct _ => by simp [cmpWith, rank]
theorem cmpListWith_range (L : CmpLaws cf) : ∀ xs ys, cmpListWith cf xs ys = -1 ∨ cmpListWith cf xs ys = 0 ∨ cmpListWith cf xs ys = 1
  | [], [] => by simp [cmpListWith]
  | [], _ :: _ => by simp [cmpListWith]
  | _ :: _, [] => by simp [cmpListWith]
  | x :: xs, y :: ys => by
    simp only [cmpListWith]
    split
    · exact cmpWith_range L x y
    · exact cmpListWith_range L xs ys
end

end Octo

namespace Octo
open Value
variable {cf : Nat → Nat → Int}

theorem Value.size_pos (a : Value) : 0 < a.size := by cases a <;> simp [Value.size] <;> omega

/-! #### reflexivity -/
mutual
theorem cmpWith_refl (L : CmpLaws cf) : ∀ a, cmpWith cf a a = 0
  | .null => by simp [cmpWith]
  | .int _ => by simp [cmpWith, cmpInt_refl]
  | .float _ => by simp [cmpWith, L.refl]
  | .bool _ => by simp [cmpWith]
  | .str _ => by simp [cmpWith, cmpBytes_refl]
  | .time _ _ => by simp [cmpWith, cmpInt_refl]
  | .dur _ => by simp [cmpWith, cmpInt_refl]
  | .list xs => by simp only [cmpWith]; exact cmpListWith_refl L xs
  | .struct xs => by simp only [cmpWith]; exact cmpListWith_refl L xs
  | .tuple xs => by simp only [cmpWith]; exact cmpListWith_refl L xs
theorem cmpListWith_refl (L : CmpLaws cf) : ∀ xs, cmpListWith cf xs xs = 0
  | [] => by simp [cmpListWith]
  | x :: xs => by simp [cmpListWith, cmpWith_refl L x, cmpListWith_refl L xs]
end

/-! #### antisymmetry -/
theorem cmpListWith_antisymm_of (n : Nat)
    (ih : ∀ x y : Value, x.size + y.size < n → cmpWith cf x y = - cmpWith cf y x) :
    ∀ xs ys, Value.sizeList xs + Value.sizeList ys < n → cmpListWith cf xs ys = - cmpListWith cf ys xs
  | [], [], _ => by simp [cmpListWith]
  | [], _ :: _, _ => by simp [cmpListWith]
  | _ :: _, [], _ => by simp [cmpListWith]
  | x :: xs, y :: ys, h => by
    simp only [Value.sizeList] at h
    have h1 := ih x y (by omega)
    have h2 := cmpListWith_antisymm_of n ih xs ys (by omega)
    simp only [cmpListWith, bne_iff_ne, ne_eq, ite_not]
    repeat' split
    all_goals omega

theorem cmpWith_antisymm_aux (L : CmpLaws cf) : ∀ n, ∀ a b : Value, a.size + b.size < n →
    cmpWith cf a b = - cmpWith cf b a := by
  intro n
  induction n with
  | zero => intro a b h; omega
  | succ n ih =>
    intro a b h
    have hl := cmpListWith_antisymm_of (cf := cf) n ih
    cases a <;> cases b <;> simp only [cmpWith, rank, Value.size] at * <;>
      first
      | (apply hl; omega)
      | exact cmpInt_antisymm _ _
      | exact L.antisymm _ _
      | exact cmpBytes_antisymm _ _
      | (rename_i x y; cases x <;> cases y <;> simp)
      | simp

theorem cmpWith_antisymm (L : CmpLaws cf) (a b : Value) : cmpWith cf a b = - cmpWith cf b a :=
  cmpWith_antisymm_aux L _ a b (Nat.lt_succ_self _)

end Octo

namespace Octo
open Value
variable {cf : Nat → Nat → Int}

/-! #### transitivity -/
theorem cmpListWith_trans_of (L : CmpLaws cf) (n : Nat)
    (ih : ∀ x y z : Value, x.size + y.size + z.size < n →
      cmpWith cf x y ≤ 0 → cmpWith cf y z ≤ 0 → cmpWith cf x z ≤ 0) :
    ∀ xs ys zs, Value.sizeList xs + Value.sizeList ys + Value.sizeList zs < n →
      cmpListWith cf xs ys ≤ 0 → cmpListWith cf ys zs ≤ 0 → cmpListWith cf xs zs ≤ 0
  | [], [], [], _ => by simp [cmpListWith]
  | [], [], _ :: _, _ => by simp [cmpListWith]
  | [], _ :: _, [], _ => by simp [cmpListWith]
  | [], _ :: _, _ :: _, _ => by simp [cmpListWith]
  | _ :: _, [], _, _ => by simp [cmpListWith]
  | _ :: _, _ :: _, [], _ => by simp [cmpListWith]
  | x :: xs, y :: ys, z :: zs, h => by
    simp only [Value.sizeList] at h
    have t1 := ih x y z (by omega)
    have t2 := ih z x y (by omega)
    have t3 := ih y z x (by omega)
    have a1 := cmpWith_antisymm L x y
    have a2 := cmpWith_antisymm L y z
    have a3 := cmpWith_antisymm L x z
    have r := cmpListWith_trans_of L n ih xs ys zs (by omega)
    simp only [cmpListWith, bne_iff_ne, ne_eq, ite_not]
    repeat' split
    all_goals omega

theorem cmpWith_le_rank (a b : Value) (h : cmpWith cf a b ≤ 0) : a.rank ≤ b.rank := by
  cases a <;> cases b <;> simp only [cmpWith, rank] at * <;> first | omega | (split at h <;> omega)

theorem cmpWith_of_rank_lt (a b : Value) (h : a.rank < b.rank) : cmpWith cf a b = -1 := by
  cases a <;> cases b <;> simp [cmpWith, rank] at * <;> omega

theorem cmpWith_trans_aux (L : CmpLaws cf) : ∀ n, ∀ a b c : Value, a.size + b.size + c.size < n →
    cmpWith cf a b ≤ 0 → cmpWith cf b c ≤ 0 → cmpWith cf a c ≤ 0 := by
  intro n
  induction n with
  | zero => intro a b c h; omega
  | succ n ih =>
    intro a b c h hab hbc
    have r1 := cmpWith_le_rank a b hab
    have r2 := cmpWith_le_rank b c hbc
    by_cases hr : a.rank < c.rank
    · rw [cmpWith_of_rank_lt a c hr]; omega
    · have e1 : a.rank = b.rank := by omega
      have e2 : b.rank = c.rank := by omega
      have hl := cmpListWith_trans_of L n ih
      cases a <;> cases b <;> simp only [rank] at e1 <;> (try omega) <;>
        cases c <;> simp only [rank] at e2 <;> (try omega) <;>
        simp only [cmpWith, Value.size] at * <;>
        first
        | (apply hl _ _ _ _ hab hbc; omega)
        | exact cmpInt_trans _ _ _ hab hbc
        | exact L.trans _ _ _ hab hbc
        | exact cmpBytes_trans _ _ _ hab hbc
        | (rename_i x y z; revert hab hbc; cases x <;> cases y <;> cases z <;> simp)
        | simp

theorem cmpWith_trans (L : CmpLaws cf) (a b c : Value) :
    cmpWith cf a b ≤ 0 → cmpWith cf b c ≤ 0 → cmpWith cf a c ≤ 0 :=
  cmpWith_trans_aux L _ a b c (Nat.lt_succ_self _)

theorem cmpWith_eq_trans (L : CmpLaws cf) (a b c : Value)
    (h1 : cmpWith cf a b = 0) (h2 : cmpWith cf b c = 0) : cmpWith cf a c = 0 := by
  have t1 := cmpWith_trans L a b c (by omega) (by omega)
  have a1 := cmpWith_antisymm L a b
  have a2 := cmpWith_antisymm L b c
  have a3 := cmpWith_antisymm L a c
  have t2 := cmpWith_trans L c b a (by omega) (by omega)
  omega

end Octo
