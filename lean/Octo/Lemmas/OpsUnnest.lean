import Octo.Lemmas.OpsShape
import Octo.Lemmas.HashCongr
/-!
  Octo.Lemmas.OpsUnnest — Unnest is row-congruent: rows that compare equal unnest to lists of rows
  that compare equal position by position.
-/
namespace Octo.Ops
open Octo

/-- two lists related position by position -/
inductive All2 (R : α → β → Prop) : List α → List β → Prop
  | nil : All2 R [] []
  | cons {a b as bs} : R a b → All2 R as bs → All2 R (a :: as) (b :: bs)

theorem all2_cons_iff {R : α → β → Prop} {a : α} {b : β} {as : List α} {bs : List β} :
    All2 R (a :: as) (b :: bs) ↔ R a b ∧ All2 R as bs :=
  ⟨fun h => by cases h with | cons h1 h2 => exact ⟨h1, h2⟩, fun h => All2.cons h.1 h.2⟩

/-- pointwise `Compare == 0` -/
def PEq (a b : Row) : Prop := All2 (fun x y => cmp x y = 0) a b

theorem cmpList_eq_iff_peq : ∀ (a b : Row), cmpList a b = 0 ↔ PEq a b
  | [], [] => by simp only [cmpList, cmpListWith, PEq, true_iff]; exact All2.nil
  | [], _ :: _ => by simp only [cmpList, cmpListWith, PEq]; constructor <;> intro h <;> first | omega | cases h
  | _ :: _, [] => by simp only [cmpList, cmpListWith, PEq]; constructor <;> intro h <;> first | omega | cases h
  | x :: xs, y :: ys => by
    have ih := cmpList_eq_iff_peq xs ys
    simp only [PEq, all2_cons_iff]
    rw [cmpList_cons]
    by_cases hc : cmp x y = 0
    · simp only [hc, bne_self_eq_false, Bool.false_eq_true, ↓reduceIte, true_and]; exact ih
    · have : (cmp x y != 0) = true := by simpa using hc
      simp [this, hc]

theorem peq_set {a b : Row} (h : PEq a b) (i : Nat) {u v : Value} (huv : cmp u v = 0) : PEq (a.set i u) (b.set i v) := by
  induction h generalizing i with
  | nil => exact All2.nil
  | cons hxy _ ih =>
    cases i with
    | zero => exact All2.cons huv (by assumption)
    | succ i => exact All2.cons hxy (ih i)

theorem peq_get {a b : Row} (h : PEq a b) (i : Nat) :
    (a[i]? = none ∧ b[i]? = none) ∨ ∃ u v, a[i]? = some u ∧ b[i]? = some v ∧ cmp u v = 0 := by
  induction h generalizing i with
  | nil => left; simp
  | cons hxy _ ih =>
    cases i with
    | zero => right; exact ⟨_, _, rfl, rfl, hxy⟩
    | succ i => simpa using ih i

theorem cnt_of_forall2 {l l' : List Row} (h : All2 (fun x y => rowEq x y = true) l l') (y : Row) :
    cnt l y = cnt l' y := by
  induction h with
  | nil => rfl
  | cons hxy _ ih => simp only [cnt, ih, rowEq_congr_left hxy y]

theorem cmp_list_left (xs : Row) (v : Value) (h : cmp (.list xs) v = 0) : ∃ ys, v = .list ys ∧ cmpList xs ys = 0 := by
  have hr := cmpWith_zero_rank (cf := cmpFloatFixed) (.list xs) v h
  cases v <;> simp [Value.rank] at hr
  rename_i ys
  exact ⟨ys, rfl, by simpa [cmp, cmpWith] using h⟩

theorem unnestRow_congr (idx : Nat) {x x' : Row} (h : rowEq x x' = true) (y : Row) :
    cnt (unnestRow idx x) y = cnt (unnestRow idx x') y := by
  have hp : PEq x x' := (cmpList_eq_iff_peq x x').mp ((rowEq_iff x x').mp h)
  apply cnt_of_forall2
  rcases peq_get hp idx with ⟨h1, h2⟩ | ⟨u, v, h1, h2, huv⟩
  · simp only [unnestRow, h1, h2]; exact All2.nil
  · simp only [unnestRow, h1, h2]
    cases u with
    | list xs =>
      obtain ⟨ys, rfl, hl⟩ := cmp_list_left xs v huv
      have hpl : PEq xs ys := (cmpList_eq_iff_peq xs ys).mp hl
      simp only
      clear huv hl h1 h2
      induction hpl with
      | nil => exact All2.nil
      | cons hab _ ih =>
        simp only [List.map_cons]
        refine All2.cons ?_ ih
        exact (rowEq_iff _ _).mpr ((cmpList_eq_iff_peq _ _).mpr (peq_set hp idx hab))
    | _ =>
      -- not a list on the left: not a list on the right either (same TypeID)
      have hr := cmpWith_zero_rank (cf := cmpFloatFixed) _ v huv
      cases v <;> simp [Value.rank] at hr <;> exact All2.nil

/-! ### Unnest as a linear operator -/
def unnestK (idx : Nat) (x y : Row) : Int := cnt (unnestRow idx x) y

theorem net_unnestBlock (idx : Nat) (r : Rec) (y : Row) : net (unnestBlock idx r) y = sgn r * unnestK idx r.vals y := by
  simp only [unnestBlock, unnestK]
  induction unnestRow idx r.vals with
  | nil => simp [net, cnt]
  | cons v vs ih =>
    simp only [List.map_cons, net, cnt, ih, weight_eq, sgn]
    cases r.retr <;> simp <;> split <;> omega

theorem unnest_linear (idx : Nat) : Linear (unnestBlock idx) (unnestK idx) where
  net_block := net_unnestBlock idx
  congr y := fun x x' h => unnestRow_congr idx h y
  nonneg x y := cnt_nonneg _ _
  adds r hr j hj := by simp only [unnestBlock, List.mem_map] at hj; obtain ⟨_, _, rfl⟩ := hj; exact hr
  retrs r hr j hj := by simp only [unnestBlock, List.mem_map] at hj; obtain ⟨_, _, rfl⟩ := hj; exact hr

theorem sumOver_unnestK (idx : Nat) (rows : List Row) (y : Row) :
    sumOver (fun x => unnestK idx x y) rows = cnt (unnestB idx rows) y := by
  induction rows with
  | nil => rfl
  | cons x xs ih => simp only [sumOver, unnestB, List.flatMap_cons, cnt_append, unnestK] at *; rw [ih]

end Octo.Ops
