import Octo.Lemmas.OpsStateless
import Octo.Lemmas.OpsDistinct
/-!
  Octo.Lemmas.OpsGroup — group by.  The aggregates of one group are an abstract `GAgg` that
  satisfies the C14 contract `GAggOK` (on every valid add/retract history the triggered value is the
  reference aggregate of the consolidated history, up to `Compare == 0`).  The state invariant
  `GInv` says: the hash map holds exactly the keys with a non-zero record count, each with that
  count and with aggregates that have been fed *some* valid history whose net content is the net
  content of the group's sub-changelog (this absorbs the reset when a group's count reaches 0).
-/
namespace Octo.Ops
open Octo

def foldH (agg : GAgg α) (h : List Rec) : α := h.foldl (fun s r => agg.add s r.retr r.vals) agg.init

theorem foldH_snoc (agg : GAgg α) (h : List Rec) (r : Rec) :
    foldH agg (h ++ [r]) = agg.add (foldH agg h) r.retr r.vals := by
  simp [foldH, List.foldl_append]

/-- the C14 contract for the aggregates of a group, `spec` being the batch aggregate of a list of
    aggregate-input tuples -/
def GAggOK (agg : GAgg α) (spec : List Row → Row) : Prop :=
  ∀ (h : List Rec) (rows : List Row), ValidLog h → Consolidates rows h →
    ∃ out, agg.trig (foldH agg h) = some out ∧ rowEq out (spec rows) = true

/-- the changelog of aggregate inputs of group `k` -/
def sub (kf inf : Row → Row) (k : Row) (log : List Rec) : List Rec :=
  (log.filter fun r => rowEq (kf r.vals) k).map fun r => { vals := inf r.vals, retr := r.retr, et := none }

def keyW (kf : Row → Row) (k : Row) (x : Row) : Int := if rowEq (kf x) k then 1 else 0
def subW (kf inf : Row → Row) (k y : Row) (x : Row) : Int := if rowEq (kf x) k then ind1 (inf x) y else 0

/-- OverallRecordCount of group `k` -/
def keyCount (kf : Row → Row) (k : Row) (log : List Rec) : Int := wsum (keyW kf k) log

theorem net_sub (kf inf : Row → Row) (k y : Row) (log : List Rec) :
    net (sub kf inf k log) y = wsum (subW kf inf k y) log := by
  induction log with
  | nil => rfl
  | cons r rs ih =>
    simp only [sub, List.filter_cons, wsum, subW] at *
    split
    · simp only [List.map_cons, net, weight_eq, ih, sgn, ind1]; split <;> simp
    · simp [ih]

theorem keyW_congr (kf : Row → Row) (hk : RowCongr kf) (k : Row) : Congr (keyW kf k) := by
  intro x x' h; simp only [keyW, rowEq_congr_left (hk x x' h) k]

theorem subW_congr (kf inf : Row → Row) (hk : RowCongr kf) (hi : RowCongr inf) (k y : Row) :
    Congr (subW kf inf k y) := by
  intro x x' h
  simp only [subW, rowEq_congr_left (hk x x' h) k, ind1, rowEq_congr_left (hi x x' h) y]

theorem keyW_nonneg (kf : Row → Row) (k x : Row) : 0 ≤ keyW kf k x := by simp only [keyW]; split <;> omega
theorem subW_nonneg (kf inf : Row → Row) (k y x : Row) : 0 ≤ subW kf inf k y x := by
  simp only [subW, ind1]; split <;> (try split) <;> omega

theorem sub_congr_key (kf inf : Row → Row) {k k' : Row} (h : rowEq k k' = true) (log : List Rec) :
    sub kf inf k log = sub kf inf k' log := by
  simp only [sub]
  congr 1
  apply List.filter_congr
  intro r _
  exact rowEq_congr_right h _

theorem keyCount_congr_key (kf : Row → Row) {k k' : Row} (h : rowEq k k' = true) (log : List Rec) :
    keyCount kf k log = keyCount kf k' log := by
  simp only [keyCount]
  congr 1
  funext x
  simp only [keyW, rowEq_congr_right h (kf x)]

theorem keyCount_snoc (kf : Row → Row) (k : Row) (log : List Rec) (r : Rec) :
    keyCount kf k (log ++ [r]) = keyCount kf k log + (if rowEq (kf r.vals) k then sgn r else 0) := by
  simp only [keyCount, wsum_append, wsum, keyW]; split <;> simp

theorem sub_snoc (kf inf : Row → Row) (k : Row) (log : List Rec) (r : Rec) :
    sub kf inf k (log ++ [r]) = sub kf inf k log ++
      (if rowEq (kf r.vals) k then [{ vals := inf r.vals, retr := r.retr, et := none }] else []) := by
  simp only [sub, List.filter_append, List.map_append, List.filter_cons, List.filter_nil]
  split <;> simp

/-! ### sums over a consolidation -/
theorem sumOver_keyW (kf : Row → Row) (k : Row) (rows : List Row) :
    sumOver (keyW kf k) rows = cnt (rows.map kf) k := by
  induction rows with
  | nil => rfl
  | cons x xs ih => simp only [sumOver, List.map_cons, cnt, keyW, ih]

theorem sumOver_subW (kf inf : Row → Row) (k y : Row) (rows : List Row) :
    sumOver (subW kf inf k y) rows = cnt ((rows.filter fun x => rowEq (kf x) k).map inf) y := by
  induction rows with
  | nil => rfl
  | cons x xs ih =>
    simp only [sumOver, List.filter_cons, subW, ih, ind1]
    split <;> simp [cnt]

theorem keyCount_of_consolidates (kf : Row → Row) (hk : RowCongr kf) (k : Row) {rows : List Row} {log : List Rec}
    (hc : Consolidates rows log) : keyCount kf k log = cnt (rows.map kf) k := by
  rw [keyCount, wsum_of_consolidates _ (keyW_congr kf hk k) hc, sumOver_keyW]

/-- the group's sub-changelog is consolidated by the aggregate inputs of the group's rows -/
theorem sub_consolidates (kf inf : Row → Row) (hk : RowCongr kf) (hi : RowCongr inf) (k : Row) {rows : List Row}
    {log : List Rec} (hc : Consolidates rows log) :
    Consolidates ((rows.filter fun x => rowEq (kf x) k).map inf) (sub kf inf k log) := by
  intro y
  rw [net_sub, wsum_of_consolidates _ (subW_congr kf inf hk hi k y) hc, sumOver_subW]

theorem cnt_zero_filter (kf : Row → Row) (k : Row) (rows : List Row) (h : cnt (rows.map kf) k = 0) :
    (rows.filter fun x => rowEq (kf x) k) = [] := by
  induction rows with
  | nil => rfl
  | cons x xs ih =>
    simp only [List.map_cons, cnt] at h
    have := cnt_nonneg (xs.map kf) k
    cases hx : rowEq (kf x) k
    · simp only [hx, Bool.false_eq_true, ↓reduceIte, Int.zero_add] at h
      simp [List.filter_cons, hx, ih h]
    · simp only [hx, ↓reduceIte] at h; omega

/-- a group whose record count is zero has an empty (net) sub-changelog — this is where validity of
    the input is used: `aggregates.Remove(key)` forgets nothing -/
theorem sub_net_zero (kf inf : Row → Row) (hk : RowCongr kf) (hi : RowCongr inf) (k : Row) {log : List Rec}
    (hv : ValidLog log) (h0 : keyCount kf k log = 0) (y : Row) : net (sub kf inf k log) y = 0 := by
  have hc := consolidate_correct hv
  rw [keyCount_of_consolidates kf hk k hc] at h0
  rw [sub_consolidates kf inf hk hi k hc y, cnt_zero_filter kf k _ h0]
  rfl

theorem sub_net_nonneg (kf inf : Row → Row) (hk : RowCongr kf) (hi : RowCongr inf) (k : Row) {log : List Rec}
    (hv : ValidLog log) (y : Row) : 0 ≤ net (sub kf inf k log) y := by
  rw [net_sub]
  exact wsum_nonneg_of_valid _ (subW_congr kf inf hk hi k y) (subW_nonneg kf inf k y) hv

theorem validLog_snoc {h : List Rec} (hv : ValidLog h) (r : Rec) (hn : ∀ y, 0 ≤ net (h ++ [r]) y) :
    ValidLog (h ++ [r]) := by
  intro n y
  by_cases hl : n ≤ h.length
  · rw [List.take_append_of_le_length hl]; exact hv n y
  · rw [List.take_of_length_le (by simp; omega)]; exact hn y

/-! ### the state invariant -/
structure GInv (agg : GAgg α) (kf inf : Row → Row) (groups : List (Row × GItem α)) (done : List Rec) : Prop where
  nodup : groups.Pairwise (fun a b => rowEq a.1 b.1 = false)
  absent : ∀ k, aget groups k = none → keyCount kf k done = 0
  present : ∀ k e, aget groups k = some e →
    e.2.count = keyCount kf k done ∧ e.2.count ≠ 0 ∧
    ∃ h, ValidLog h ∧ (∀ y, net h y = net (sub kf inf k done) y) ∧ e.2.st = foldH agg h

theorem ginv_init (agg : GAgg α) (kf inf : Row → Row) : GInv agg kf inf [] [] where
  nodup := List.Pairwise.nil
  absent := by intro k _; rfl
  present := by intro k e h; simp [aget] at h

theorem pairwise_aremove (groups : List (Row × β)) (k : Row)
    (h : groups.Pairwise (fun a b => rowEq a.1 b.1 = false)) :
    (aremove groups k).Pairwise (fun a b => rowEq a.1 b.1 = false) := List.Pairwise.filter _ h

theorem pairwise_aput (groups : List (Row × β)) (k : Row) (v : β)
    (h : groups.Pairwise (fun a b => rowEq a.1 b.1 = false)) :
    (aput groups k v).Pairwise (fun a b => rowEq a.1 b.1 = false) := by
  simp only [aput, List.pairwise_cons]
  refine ⟨?_, pairwise_aremove groups k h⟩
  intro e he
  simp only [aremove, List.mem_filter, Bool.not_eq_eq_eq_not, Bool.not_true] at he
  rw [rowEq_symm]; exact he.2

theorem ginv_step (agg : GAgg α) (kf inf : Row → Row) (hk : RowCongr kf) (hi : RowCongr inf)
    (groups : List (Row × GItem α)) (done : List Rec) (r : Rec)
    (inv : GInv agg kf inf groups done) (hv : ValidLog (done ++ [r])) :
    GInv agg kf inf (gUpdate agg groups (kf r.vals) r.retr (inf r.vals)) (done ++ [r]) := by
  have hvd : ValidLog done := validLog_prefix hv
  -- the entry the callback works on: the stored one or a fresh one
  obtain ⟨e0, he0, hkey0, hcount0, h0, hv0, hnet0, hst0⟩ :
      ∃ e0 : Row × GItem α,
        gEntry agg groups (kf r.vals) = e0 ∧
        rowEq e0.1 (kf r.vals) = true ∧ e0.2.count = keyCount kf (kf r.vals) done ∧
        ∃ h, ValidLog h ∧ (∀ y, net h y = net (sub kf inf (kf r.vals) done) y) ∧ e0.2.st = foldH agg h := by
    cases hg : aget groups (kf r.vals) with
    | none =>
      have hz := inv.absent _ hg
      exact ⟨(kf r.vals, { count := 0, st := agg.init }), by simp only [gEntry, hg], rowEq_refl _, hz.symm, [], validLog_nil,
        fun y => (sub_net_zero kf inf hk hi _ hvd hz y).symm, rfl⟩
    | some p =>
      obtain ⟨c1, _, h, hh⟩ := inv.present _ p hg
      exact ⟨p, by simp only [gEntry, hg], aget_key _ _ _ hg, c1, h, hh⟩
  -- the new item
  let rin : Rec := { vals := inf r.vals, retr := r.retr, et := none }
  have hcount1 : (if r.retr then e0.2.count - 1 else e0.2.count + 1) = keyCount kf (kf r.vals) (done ++ [r]) := by
    rw [keyCount_snoc, rowEq_refl, hcount0]; simp only [sgn, ↓reduceIte]; split <;> omega
  have hnet1 : ∀ y, net (h0 ++ [rin]) y = net (sub kf inf (kf r.vals) (done ++ [r])) y := by
    intro y
    rw [sub_snoc, rowEq_refl, net_append, net_append, hnet0 y]; rfl
  have hv1 : ValidLog (h0 ++ [rin]) :=
    validLog_snoc hv0 rin (fun y => by rw [hnet1 y]; exact sub_net_nonneg kf inf hk hi _ hv y)
  have hst1 : agg.add e0.2.st r.retr (inf r.vals) = foldH agg (h0 ++ [rin]) := by
    rw [foldH_snoc, hst0]
  -- other keys are untouched
  have other : ∀ k, rowEq (kf r.vals) k = false →
      keyCount kf k (done ++ [r]) = keyCount kf k done ∧ sub kf inf k (done ++ [r]) = sub kf inf k done := by
    intro k hk'
    constructor
    · rw [keyCount_snoc, hk']; simp
    · rw [sub_snoc, hk']; simp
  have e0other : ∀ k, rowEq (kf r.vals) k = false → rowEq e0.1 k = false := by
    intro k hk'; rw [rowEq_congr_left hkey0 k]; exact hk'
  unfold gUpdate
  rw [he0]
  simp only
  by_cases hzero : (if r.retr then e0.2.count - 1 else e0.2.count + 1) = 0
  · -- the group disappears
    simp only [hzero, beq_self_eq_true, ↓reduceIte]
    refine ⟨pairwise_aremove _ _ inv.nodup, ?_, ?_⟩
    · intro k hkq
      rw [aget_aremove] at hkq
      cases hkk : rowEq (kf r.vals) k
      · simp only [hkk, Bool.false_eq_true, ↓reduceIte] at hkq
        rw [(other k hkk).1]; exact inv.absent k hkq
      · rw [← keyCount_congr_key kf hkk, ← hcount1]; exact hzero
    · intro k e hkq
      rw [aget_aremove] at hkq
      cases hkk : rowEq (kf r.vals) k
      · simp only [hkk, Bool.false_eq_true, ↓reduceIte] at hkq
        rw [(other k hkk).1, (other k hkk).2]; exact inv.present k e hkq
      · simp [hkk] at hkq
  · -- the group stays (or appears)
    have hne : ((if r.retr then e0.2.count - 1 else e0.2.count + 1) == 0) = false := by simpa using hzero
    simp only [hne, Bool.false_eq_true, ↓reduceIte]
    refine ⟨pairwise_aput _ _ _ inv.nodup, ?_, ?_⟩
    · intro k hkq
      rw [aget_aput] at hkq
      cases hkk : rowEq (kf r.vals) k
      · simp only [e0other k hkk, Bool.false_eq_true, ↓reduceIte] at hkq
        rw [(other k hkk).1]; exact inv.absent k hkq
      · have : rowEq e0.1 k = true := rowEq_trans hkey0 hkk
        simp [this] at hkq
    · intro k e hkq
      rw [aget_aput] at hkq
      cases hkk : rowEq (kf r.vals) k
      · simp only [e0other k hkk, Bool.false_eq_true, ↓reduceIte] at hkq
        rw [(other k hkk).1, (other k hkk).2]; exact inv.present k e hkq
      · have : rowEq e0.1 k = true := rowEq_trans hkey0 hkk
        simp only [this, ↓reduceIte, Option.some.injEq] at hkq
        subst hkq
        refine ⟨?_, hzero, h0 ++ [rin], hv1, ?_, hst1⟩
        · rw [← keyCount_congr_key kf hkk]; exact hcount1
        · intro y; rw [← sub_congr_key kf inf hkk]; exact hnet1 y

end Octo.Ops
