import Octo.Lemmas.TySumTotal
import Octo.Lemmas.TyInter
import Octo.Lemmas.TyTypeOfWf
/-! Totality of the model functions built on `typeSum` (no fuel exhaustion on well-formed inputs). -/
namespace Octo
namespace Ty

theorem optFoldl_typeSum_total : ∀ (ts : List Ty) (t : Ty), wf t = true → (∀ x ∈ ts, wf x = true) →
    (optFoldl typeSum t ts).isSome = true
  | [], _, _, _ => rfl
  | x :: xs, t, wt, h => by
    simp only [optFoldl]
    have tot := typeSum_total wt (h x (by simp))
    cases hs : typeSum t x with
    | none => simp [hs] at tot
    | some s =>
      simp only
      exact optFoldl_typeSum_total xs s (wfFor_typeSum t x s hs wt (h x (by simp))).1 (fun y hy => h y (by simp [hy]))

theorem interLoop_total (target : Ty) : ∀ (ps : List Ty) (out : Option Ty), (∀ p ∈ ps, wf p = true) →
    (∀ o, out = some o → wf o = true) → (interLoop target out ps).isSome = true
  | [], _, _, _ => rfl
  | p :: ps, out, hp, ho => by
    simp only [interLoop]
    have hps : ∀ q ∈ ps, wf q = true := fun q hq => hp q (by simp [hq])
    split
    · cases out with
      | none => exact interLoop_total target ps (some p) hps (by intro o h; cases h; exact hp p (by simp))
      | some o =>
        simp only
        have wo := ho o rfl
        have tot := typeSum_total wo (hp p (by simp))
        cases hs : typeSum o p with
        | none => simp [hs] at tot
        | some s =>
          simp only
          exact interLoop_total target ps (some s) hps (by
            intro o' h; cases h; exact (wfFor_typeSum o p s hs wo (hp p (by simp))).1)
    · exact interLoop_total target ps out hps ho

theorem interLoop_wf (target : Ty) : ∀ (ps : List Ty) (out res : Option Ty), (∀ p ∈ ps, wf p = true) →
    (∀ o, out = some o → wf o = true) → interLoop target out ps = some res → ∀ o, res = some o → wf o = true
  | [], out, res, _, ho, h => by simp only [interLoop, Option.some.injEq] at h; subst h; exact ho
  | p :: ps, out, res, hp, ho, h => by
    simp only [interLoop] at h
    have hps : ∀ q ∈ ps, wf q = true := fun q hq => hp q (by simp [hq])
    split at h
    · cases out with
      | none =>
        exact interLoop_wf target ps (some p) res hps (by intro o h; cases h; exact hp p (by simp)) h
      | some o =>
        simp only at h
        cases hs : typeSum o p with
        | none => simp [hs] at h
        | some s =>
          simp only [hs] at h
          exact interLoop_wf target ps (some s) res hps (by
            intro o' h'; cases h'; exact (wfFor_typeSum o p s hs (ho o rfl) (hp p (by simp))).1) h
    · exact interLoop_wf target ps out res hps ho h

/-- `TypeIntersection` never runs out of fuel on well-formed operands -/
theorem typeInter_total {a b : Ty} (wa : wf a = true) (wb : wf b = true) : (typeInter a b).isSome = true := by
  unfold typeInter
  have pa : ∀ p ∈ prims a, wf p = true := fun p hp => (prims_spec hp).2 wa
  have pb : ∀ p ∈ prims b, wf p = true := fun p hp => (prims_spec hp).2 wb
  have t1 := interLoop_total b (prims a) none pa (by intro o h; cases h)
  cases h1 : interLoop b none (prims a) with
  | none => simp [h1] at t1
  | some out =>
    simp only
    exact interLoop_total a (prims b) out pb (interLoop_wf b (prims a) none out pa (by intro o h; cases h) h1)

end Ty

open Ty in
theorem typeOfMany_total : ∀ (xs : List Value),
    (∀ x ∈ xs, x.narrowStructs = true → (x.typeOf).isSome = true) →
    Value.narrowStructsList xs = true → (Value.typeOfMany xs).isSome = true
  | [], _, _ => rfl
  | x :: xs, ih, hn => by
    simp only [Value.narrowStructsList, Bool.and_eq_true] at hn
    simp only [Value.typeOfMany]
    have h1 := ih x (by simp) hn.1
    have h2 := typeOfMany_total xs (fun y hy => ih y (by simp [hy])) hn.2
    cases hx : x.typeOf with
    | none => simp [hx] at h1
    | some t =>
      cases hxs : Value.typeOfMany xs with
      | none => simp [hxs] at h2
      | some ts => rfl

open Ty in
/-- `Value.Type` never runs out of fuel when no struct value inside has two or more fields -/
theorem typeOf_total_aux : ∀ (n : Nat) (v : Value), v.size ≤ n → v.narrowStructs = true → (v.typeOf).isSome = true := by
  intro n
  induction n with
  | zero => intro v h; cases v <;> simp [Value.size] at h
  | succ n ih =>
    intro v hn hv
    have sub : ∀ xs : List Value, Value.sizeList xs ≤ n → ∀ x ∈ xs, x.narrowStructs = true → (x.typeOf).isSome = true :=
      fun xs hs x hx => ih x (by have := Value.size_le_sizeList hx; omega)
    cases v with
    | list xs =>
      simp only [Value.narrowStructs] at hv
      simp only [Value.size] at hn
      simp only [Value.typeOf]
      have tm := typeOfMany_total xs (sub xs (by omega)) hv
      cases hm : Value.typeOfMany xs with
      | none => simp [hm] at tm
      | some ts =>
        simp only
        have ⟨_, wts⟩ := typeOfMany_wf xs ts (fun x hx hx' t ht =>
          typeOf_wf_aux x.size x (Nat.le_refl _) hx' t ht) hv hm
        cases ts with
        | nil => rfl
        | cons t0 ts =>
          simp only [elemFold, Option.isSome_map]
          exact optFoldl_typeSum_total ts t0 (wts t0 (by simp)) (fun x hx => wts x (by simp [hx]))
    | struct xs =>
      simp only [Value.narrowStructs, Bool.and_eq_true] at hv
      simp only [Value.size] at hn
      simp only [Value.typeOf, Option.isSome_map]
      exact typeOfMany_total xs (sub xs (by omega)) hv.2
    | tuple xs =>
      simp only [Value.narrowStructs] at hv
      simp only [Value.size] at hn
      simp only [Value.typeOf, Option.isSome_map]
      exact typeOfMany_total xs (sub xs (by omega)) hv
    | _ => rfl

end Octo
