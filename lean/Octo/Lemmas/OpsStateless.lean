import Octo.Lemmas.OpsLinear
/-!
  Octo.Lemmas.OpsStateless — Filter, Map, Unnest, LookupJoin as linear operators: what they emit
  per record (`…Block`), their row-level kernels and the `Linear` instances.
-/
namespace Octo.Ops
open Octo

theorem net_congr_vals (l l' : List Rec)
    (h : l.map (fun r => (r.vals, r.retr)) = l'.map (fun r => (r.vals, r.retr))) (y : Row) : net l y = net l' y := by
  induction l generalizing l' with
  | nil => cases l' with
    | nil => rfl
    | cons a as => simp at h
  | cons r rs ih =>
    cases l' with
    | nil => simp at h
    | cons a as =>
      simp only [List.map_cons, List.cons.injEq, Prod.mk.injEq] at h
      simp only [net, Rec.weight, h.1.1, h.1.2, ih as h.2]

theorem sgn_mul_ind1 (r : Rec) (y : Row) (v : Row) :
    net [{ vals := v, retr := r.retr, et := r.et }] y = sgn r * ind1 v y := by
  simp only [net, weight_eq, sgn, ind1]; split <;> simp

/-! ### Filter -/
def PredCongr (p : Row → Value) : Prop := ∀ x x', rowEq x x' = true → isTrue (p x) = isTrue (p x')

def filterBlock (p : Row → Value) (r : Rec) : List Rec := if isTrue (p r.vals) then [r] else []
def filterEmit (p : Row → Value) : Msg → List Msg
  | .wm t => [.wm t]
  | .data r => if isTrue (p r.vals) then [.data r] else []
def filterK (p : Row → Value) (x y : Row) : Int := if isTrue (p x) then ind1 x y else 0

theorem filterOp_onMsg (p : Row → Value) (m : Msg) :
    (filterOp fun x => .ok (p x)).onMsg () m = ((), filterEmit p m, none) := by
  cases m with
  | wm t => rfl
  | data r =>
    simp only [filterOp, filterEmit]
    cases h : p r.vals <;> simp [isTrue]
    rename_i b; cases b <;> simp

theorem filter_run (p : Row → Value) (ms : List Msg) :
    (filterOp fun x => .ok (p x)).run ms = (ms.flatMap (filterEmit p), none) :=
  runFrom_stateless _ _ rfl ms (fun m _ => filterOp_onMsg p m)

theorem filter_recs (p : Row → Value) (ms : List Msg) :
    recs ((filterOp fun x => .ok (p x)).run ms).1 = (recs ms).flatMap (filterBlock p) := by
  rw [filter_run]
  apply recs_flatMap
  · intro t; rfl
  · intro r; simp only [filterEmit, filterBlock]; split <;> rfl

theorem filter_linear (p : Row → Value) (hp : PredCongr p) : Linear (filterBlock p) (filterK p) where
  net_block r y := by
    simp only [filterBlock, filterK]
    split
    · have := sgn_mul_ind1 r y r.vals; simpa using this
    · simp [net]
  congr y := by
    intro x x' h
    simp only [filterK, hp x x' h, ind1, rowEq_congr_left h y]
  nonneg x y := by simp only [filterK, ind1]; split <;> (try split) <;> omega
  adds r hr j hj := by
    simp only [filterBlock] at hj; split at hj <;> simp at hj; subst hj; exact hr
  retrs r hr j hj := by
    simp only [filterBlock] at hj; split at hj <;> simp at hj; subst hj; exact hr

theorem sumOver_filterK (p : Row → Value) (rows : List Row) (y : Row) :
    sumOver (fun x => filterK p x y) rows = cnt (filterB p rows) y := by
  induction rows with
  | nil => rfl
  | cons x xs ih =>
    simp only [sumOver, filterB, List.filter_cons, filterK, ind1] at *
    split <;> simp [cnt, ih]

/-! ### Map -/
def RowCongr (f : Row → Row) : Prop := ∀ x x', rowEq x x' = true → rowEq (f x) (f x') = true

def mapBlock (f : Row → Row) (r : Rec) : List Rec := [{ vals := f r.vals, retr := r.retr, et := r.et }]
def mapEmit (f : Row → Row) : Msg → List Msg
  | .wm t => [.wm t]
  | .data r => [.data { vals := f r.vals, retr := r.retr, et := r.et }]
def mapK (f : Row → Row) (x y : Row) : Int := ind1 (f x) y

theorem map_run (f : Row → Row) (ms : List Msg) :
    (mapOp fun x => .ok (f x)).run ms = (ms.flatMap (mapEmit f), none) :=
  runFrom_stateless _ _ rfl ms (fun m _ => by cases m <;> rfl)

theorem map_recs (f : Row → Row) (ms : List Msg) :
    recs ((mapOp fun x => .ok (f x)).run ms).1 = (recs ms).flatMap (mapBlock f) := by
  rw [map_run]
  apply recs_flatMap
  · intro t; rfl
  · intro r; rfl

theorem map_linear (f : Row → Row) (hf : RowCongr f) : Linear (mapBlock f) (mapK f) where
  net_block r y := sgn_mul_ind1 r y (f r.vals)
  congr y := by
    intro x x' h
    simp only [mapK, ind1, rowEq_congr_left (hf x x' h) y]
  nonneg x y := by simp only [mapK, ind1]; split <;> omega
  adds r hr j hj := by simp only [mapBlock, List.mem_singleton] at hj; subst hj; exact hr
  retrs r hr j hj := by simp only [mapBlock, List.mem_singleton] at hj; subst hj; exact hr

theorem sumOver_mapK (f : Row → Row) (rows : List Row) (y : Row) :
    sumOver (fun x => mapK f x y) rows = cnt (mapB f rows) y := by
  induction rows with
  | nil => rfl
  | cons x xs ih => simp only [sumOver, mapB, List.map_cons, cnt, mapK, ind1] at *; rw [ih]

/-! ### LookupJoin -/
def lookupBlock (J : Row → List Msg) (r : Rec) : List Rec :=
  (recs (J r.vals)).map fun j =>
    { vals := r.vals ++ j.vals, retr := (r.retr || j.retr) && !(r.retr && j.retr), et := r.et }
def lookupEmitAll (J : Row → List Msg) : Msg → List Msg
  | .wm t => [.wm t]
  | .data r => (J r.vals).map (lookupEmit r)
def lookupK (J : Row → List Msg) (x y : Row) : Int := net (lookupRecs (fun x => recs (J x)) x) y

theorem lookup_run (J : Row → List Msg) (ms : List Msg) :
    (lookupOp fun x => (J x, none)).run ms = (ms.flatMap (lookupEmitAll J), none) :=
  runFrom_stateless _ _ rfl ms (fun m _ => by cases m <;> rfl)

theorem recs_map_lookupEmit (r : Rec) (jm : List Msg) :
    recs (jm.map (lookupEmit r)) = (recs jm).map fun j =>
      { vals := r.vals ++ j.vals, retr := (r.retr || j.retr) && !(r.retr && j.retr), et := r.et } := by
  induction jm with
  | nil => rfl
  | cons m ms ih => cases m <;> simp [lookupEmit, recs, ih]

theorem lookup_recs (J : Row → List Msg) (ms : List Msg) :
    recs ((lookupOp fun x => (J x, none)).run ms).1 = (recs ms).flatMap (lookupBlock J) := by
  rw [lookup_run]
  apply recs_flatMap
  · intro t; rfl
  · intro r; exact recs_map_lookupEmit r (J r.vals)

theorem lookup_net_block (J : Row → List Msg) (r : Rec) (y : Row) :
    net (lookupBlock J r) y = sgn r * lookupK J r.vals y := by
  simp only [lookupBlock, lookupK, lookupRecs]
  generalize recs (J r.vals) = js
  induction js with
  | nil => simp [net]
  | cons j js ih =>
    simp only [List.map_cons, net, ih, weight_eq, sgn]
    cases r.retr <;> cases j.retr <;> simp <;> split <;> omega

theorem sumOver_lookupK (J : Row → List Msg) (rows : List Row) (y : Row) :
    sumOver (fun x => lookupK J x y) rows = lookupSpec (fun x => recs (J x)) rows y := by
  induction rows with
  | nil => rfl
  | cons x xs ih => simp only [sumOver, lookupSpec]; rw [ih]; rfl

theorem lookup_linear (J : Row → List Msg) (hJ : ∀ y, Congr (fun x => lookupK J x y))
    (hadd : ∀ x, ∀ j ∈ recs (J x), j.retr = false) : Linear (lookupBlock J) (lookupK J) where
  net_block := lookup_net_block J
  congr := hJ
  nonneg x y := by
    simp only [lookupK, lookupRecs]
    have := net_take_nonneg_of_adds ((recs (J x)).map fun j => ({ vals := x ++ j.vals, retr := j.retr, et := none } : Rec))
      (by intro q hq; simp only [List.mem_map] at hq; obtain ⟨j, hj, rfl⟩ := hq; exact hadd x j hj)
      ((recs (J x)).length) y
    rw [List.take_of_length_le (by simp)] at this
    exact this.1
  adds r hr j hj := by
    simp only [lookupBlock, List.mem_map] at hj
    obtain ⟨q, hq, rfl⟩ := hj
    simp [hr, hadd _ q hq]
  retrs r hr j hj := by
    simp only [lookupBlock, List.mem_map] at hj
    obtain ⟨q, hq, rfl⟩ := hj
    simp [hr, hadd _ q hq]

end Octo.Ops
