import Octo.Lemmas.OpsSortOrder
import Octo.Lemmas.OpsGroup
/-!
  Octo.Lemmas.OpsSortRun — the run invariant of OrderSensitiveTransform and of the batch printer:
  the tree is strictly sorted, holds positive counts, and the count of the class of every row is
  its net multiplicity in the consumed changelog.
-/
namespace Octo.Ops
open Octo

structure SortCfg where
  dirs : List Int
  w : Nat
  kf : Row → Row
  hd : Dirs dirs
  hkl : ∀ v, (kf v).length = dirs.length
  hk : RowCongr kf

def SortCfg.mk' (c : SortCfg) (v : Row) : SItem := { key := c.kf v, vals := v, count := 0 }
abbrev SortCfg.less (c : SortCfg) : SItem → SItem → Bool := lessItem c.dirs

theorem SortCfg.wf (c : SortCfg) (v : Row) (h : v.length = c.w) : WF c.dirs c.w (c.mk' v) := ⟨c.hkl v, h⟩

structure SInv (c : SortCfg) (t : List SItem) (done : List Rec) : Prop where
  sorted : StrictSorted c.less t
  items : ∀ a ∈ t, 0 < a.count ∧ WF c.dirs c.w a ∧ a.key = c.kf a.vals
  counts : ∀ v, v.length = c.w → treeCount c.less (c.mk' v) t = net done v

theorem sinv_init (c : SortCfg) : SInv c [] [] :=
  ⟨List.Pairwise.nil, by simp, by intro v _; rfl⟩

theorem delta_eq_sgn (r : Rec) : delta r.retr = sgn r := rfl

theorem sinv_step (c : SortCfg) (t : List SItem) (done : List Rec) (r : Rec) (inv : SInv c t done)
    (hw : r.vals.length = c.w) (hv : r.retr = true → 0 < net done r.vals) :
    SInv c (bump c.less (c.mk' r.vals) r.retr t) (done ++ [r]) := by
  have S := lessItem_swo c.dirs c.w c.hd
  have hx := c.wf r.vals hw
  have hP : ∀ a ∈ t, WF c.dirs c.w a := fun a ha => (inv.items a ha).2.1
  have hp : ∀ a ∈ t, 0 < a.count := fun a ha => (inv.items a ha).1
  refine ⟨bump_sorted _ _ S _ _ _ hx hP inv.sorted, ?_, ?_⟩
  · intro a ha
    refine ⟨bump_counts_pos _ _ _ _ hp a ha, bump_P _ _ S _ _ _ hx hP a ha, ?_⟩
    rcases bump_mem _ _ _ _ a ha with h | ⟨b, hb, h⟩
    · rw [h.1, h.2]; rfl
    · rw [h.1, h.2]; exact (inv.items b hb).2.2
  · intro v hvl
    have hr : r.retr = true → 0 < treeCount c.less (c.mk' r.vals) t := by
      intro h; rw [inv.counts _ hw]; exact hv h
    rw [treeCount_bump _ _ S _ _ _ hx hP inv.sorted hp hr _ (c.wf v hvl), inv.counts v hvl]
    have e : eqv (lessItem c.dirs) (c.mk' v) (c.mk' r.vals) = rowEq v r.vals :=
      eqv_iff_rowEq c.dirs c.w c.hd c.kf c.hk (c.mk' v) (c.mk' r.vals) (c.wf v hvl) hx rfl rfl
    rw [e, net_append, net, net, Int.add_zero, weight_eq]
    simp only [rowEq_symm v r.vals, delta_eq_sgn]

/-! ### the rows of a sorted tree -/
theorem cnt_replicate (n : Nat) (v y : Row) : cnt (List.replicate n v) y = if rowEq v y then (n : Int) else 0 := by
  induction n with
  | zero => simp [cnt]
  | succ n ih => simp only [List.replicate_succ, cnt, ih]; split <;> simp <;> omega

theorem cnt_treeRows_cons (a : SItem) (t : List SItem) (y : Row) :
    cnt (treeRows (a :: t)) y = cnt (itemRows a) y + cnt (treeRows t) y := by
  simp [treeRows, cnt_append]

theorem cnt_treeRows (c : SortCfg) (t : List SItem) (hs : StrictSorted c.less t)
    (hi : ∀ a ∈ t, 0 < a.count ∧ WF c.dirs c.w a ∧ a.key = c.kf a.vals) (v : Row) (hv : v.length = c.w) :
    cnt (treeRows t) v = treeCount c.less (c.mk' v) t := by
  have S := lessItem_swo c.dirs c.w c.hd
  have hz := c.wf v hv
  induction t with
  | nil => rfl
  | cons y ys ih =>
    have hs' := List.pairwise_cons.mp hs
    have hy := hi y List.mem_cons_self
    have hys : ∀ a ∈ ys, 0 < a.count ∧ WF c.dirs c.w a ∧ a.key = c.kf a.vals := fun a ha => hi a (List.mem_cons_of_mem _ ha)
    have ih' := ih hs'.2 hys
    have e : eqv (lessItem c.dirs) y (c.mk' v) = rowEq y.vals v :=
      eqv_iff_rowEq c.dirs c.w c.hd c.kf c.hk y (c.mk' v) hy.2.1 hz hy.2.2 rfl
    rw [cnt_treeRows_cons, itemRows, cnt_replicate, ih', ← e]
    simp only [treeCount, eqv, SortCfg.less] at hs' ⊢
    by_cases h1 : lessItem c.dirs (c.mk' v) y = true
    · have : treeCount (lessItem c.dirs) (c.mk' v) ys = 0 := by
        apply treeCount_of_all_gt
        intro a ha
        exact S.trans _ _ _ hz hy.2.1 (hys a ha).2.1 h1 (hs'.1 a ha)
      simp [this, h1]
    · have h1' : lessItem c.dirs (c.mk' v) y = false := by simpa using h1
      by_cases h2 : lessItem c.dirs y (c.mk' v) = true
      · simp [h1', h2]
      · have h2' : lessItem c.dirs y (c.mk' v) = false := by simpa using h2
        -- same class: the rest of the tree is above
        have : treeCount (lessItem c.dirs) (c.mk' v) ys = 0 := by
          apply treeCount_of_all_gt
          intro a ha
          rw [S.incomp_left (c.mk' v) y a hz hy.2.1 (hys a ha).2.1 h1' h2']; exact hs'.1 a ha
        simp [this, h1', h2']; omega

theorem net_zero_of_length (l : List Rec) (y : Row) (h : ∀ r ∈ l, r.vals.length ≠ y.length) : net l y = 0 := by
  induction l with
  | nil => rfl
  | cons r rs ih =>
    have h1 := h r List.mem_cons_self
    have : rowEq r.vals y = false := by
      cases hr : rowEq r.vals y
      · rfl
      · exact absurd (length_eq_of_cmpList_eq _ _ ((rowEq_iff _ _).mp hr)) h1
    simp [net, weight_eq, this, ih (fun q hq => h q (List.mem_cons_of_mem _ hq))]

theorem cnt_zero_of_length (l : List Row) (y : Row) (h : ∀ x ∈ l, x.length ≠ y.length) : cnt l y = 0 := by
  induction l with
  | nil => rfl
  | cons x xs ih =>
    have h1 := h x List.mem_cons_self
    have : rowEq x y = false := by
      cases hr : rowEq x y
      · rfl
      · exact absurd (length_eq_of_cmpList_eq _ _ ((rowEq_iff _ _).mp hr)) h1
    simp [cnt, this, ih (fun q hq => h q (List.mem_cons_of_mem _ hq))]

theorem mem_treeRows {t : List SItem} {x : Row} (h : x ∈ treeRows t) : ∃ a ∈ t, x = a.vals := by
  simp only [treeRows, List.mem_flatMap, itemRows] at h
  obtain ⟨a, ha, hx⟩ := h
  exact ⟨a, ha, (List.mem_replicate.mp hx).2⟩

/-- the rows come out in non-decreasing order of `Less` -/
theorem treeRows_sorted (c : SortCfg) (t : List SItem) (hs : StrictSorted c.less t)
    (hi : ∀ a ∈ t, 0 < a.count ∧ WF c.dirs c.w a ∧ a.key = c.kf a.vals) :
    (treeRows t).Pairwise fun x y => lessRow c.dirs c.kf y x = false := by
  have S := lessItem_swo c.dirs c.w c.hd
  induction t with
  | nil => exact List.Pairwise.nil
  | cons a as ih =>
    have hs' := List.pairwise_cons.mp hs
    have ha := hi a List.mem_cons_self
    have has : ∀ b ∈ as, 0 < b.count ∧ WF c.dirs c.w b ∧ b.key = c.kf b.vals := fun b hb => hi b (List.mem_cons_of_mem _ hb)
    have hself : lessItem c.dirs a a = false := S.irrefl a ha.2.1
    have hrow : ∀ b : SItem, b.key = c.kf b.vals → ∀ x, lessRow c.dirs c.kf x b.vals = lessItem c.dirs (c.mk' x) b := by
      intro b hb x
      simp only [lessRow, SortCfg.mk', lessItem, hb]
    simp only [treeRows, List.flatMap_cons]
    rw [List.pairwise_append]
    refine ⟨?_, ih hs'.2 has, ?_⟩
    · -- copies of the same row
      simp only [itemRows]
      rw [List.pairwise_replicate]
      right
      simp only [lessRow, lessItem] at hself ⊢
      rw [← ha.2.2]; exact hself
    · intro x hx y hy
      simp only [itemRows] at hx
      have hxa : x = a.vals := (List.mem_replicate.mp hx).2
      obtain ⟨b, hb, hyb⟩ := mem_treeRows hy
      subst hxa; subst hyb
      have hab : lessItem c.dirs a b = true := hs'.1 b hb
      -- asymmetry
      cases hba : lessItem c.dirs b a
      · simp only [lessRow, lessItem] at hba ⊢
        rw [← ha.2.2, ← (has b hb).2.2]; exact hba
      · have := S.trans a b a ha.2.1 (has b hb).2.1 ha.2.1 hab hba
        rw [hself] at this; cases this

/-! ### running the nodes -/
theorem retr_present_of_valid {done : List Rec} {r : Rec} (hv : ValidLog (done ++ [r])) (hr : r.retr = true) :
    0 < net done r.vals := by
  have := validLog_net_nonneg hv r.vals
  rw [net_append] at this
  simp only [net, weight_eq, rowEq_refl, ↓reduceIte, sgn, hr, Int.add_zero] at this
  omega

theorem order_onMsg_data (c : SortCfg) (limit : Option Int) (noRetr : Bool) (hlim : limit = none ∨ noRetr = false)
    (t : List SItem) (r : Rec) :
    (orderOp c.dirs (fun x => .ok (c.kf x)) limit noRetr).onMsg t (.data r) =
      (bump c.less (c.mk' r.vals) r.retr t, [], none) := by
  rcases hlim with h | h
  · subst h; rfl
  · subst h
    cases limit with
    | none => rfl
    | some n => simp [orderOp, SortCfg.mk']

theorem order_runFrom (c : SortCfg) (limit : Option Int) (noRetr : Bool) (hlim : limit = none ∨ noRetr = false)
    (ms : List Msg) :
    ∀ (t : List SItem) (done : List Rec), SInv c t done → ValidLog (done ++ recs ms) →
      (∀ r ∈ recs ms, r.vals.length = c.w) →
      ∃ t', SInv c t' (done ++ recs ms) ∧
        (orderOp c.dirs (fun x => .ok (c.kf x)) limit noRetr).runFrom t ms false =
          ((takeOpt limit (treeRows t')).map addRec, none) := by
  induction ms with
  | nil =>
    intro t done inv _ _
    exact ⟨t, by simpa [recs] using inv, by simp [Op.runFrom, orderOp]⟩
  | cons m ms ih =>
    intro t done inv hv hw
    cases m with
    | wm w =>
      have hstep : (orderOp c.dirs (fun x => .ok (c.kf x)) limit noRetr).onMsg t (.wm w) = (t, [], none) := rfl
      obtain ⟨t', h1, h2⟩ := ih t done inv (by simpa [recs] using hv) (by simpa [recs] using hw)
      exact ⟨t', by simpa [recs] using h1, by simp only [Op.runFrom, hstep, h2, List.nil_append]⟩
    | data r =>
      have hv' : ValidLog ((done ++ [r]) ++ recs ms) := by simpa [recs, List.append_assoc] using hv
      have hvr : ValidLog (done ++ [r]) := validLog_prefix hv'
      have inv' := sinv_step c t done r inv (hw r (by simp [recs])) (retr_present_of_valid hvr)
      obtain ⟨t', h1, h2⟩ := ih _ (done ++ [r]) inv' hv' (fun q hq => hw q (by simp [recs, hq]))
      refine ⟨t', by simpa [recs, List.append_assoc] using h1, ?_⟩
      simp only [Op.runFrom, order_onMsg_data c limit noRetr hlim, h2, List.nil_append]

theorem printer_onMsg_data (c : SortCfg) (limit : Option Int) (noRetr : Bool) (hlim : limit = none ∨ noRetr = false)
    (t : List SItem) (r : Rec) :
    (printerOp c.dirs (fun x => .ok (c.kf x)) limit noRetr).onMsg t (.data r) =
      if r.retr && treeCount c.less (c.mk' r.vals) t == 0 then (t, [], some .panic)
      else (bump c.less (c.mk' r.vals) r.retr t, [], none) := by
  rcases hlim with h | h
  · subst h; rfl
  · subst h
    cases limit with
    | none => rfl
    | some n => simp [printerOp, SortCfg.mk']

/-- the batch printer: on a valid changelog it ends with the sorted table; otherwise it panics
    ("received retraction before value") — the executable form of `valid_out` -/
theorem printer_runFrom (c : SortCfg) (limit : Option Int) (noRetr : Bool) (hlim : limit = none ∨ noRetr = false)
    (ms : List Msg) :
    ∀ (t : List SItem) (done : List Rec), SInv c t done → ValidLog done →
      (∀ r ∈ recs ms, r.vals.length = c.w) →
      (ValidLog (done ++ recs ms) →
        ∃ t', SInv c t' (done ++ recs ms) ∧
          (printerOp c.dirs (fun x => .ok (c.kf x)) limit noRetr).runFrom t ms false =
            ((takeOpt limit (treeRows t')).map addRec, none)) ∧
      (¬ ValidLog (done ++ recs ms) →
        (printerOp c.dirs (fun x => .ok (c.kf x)) limit noRetr).runFrom t ms false = ([], some .panic)) := by
  induction ms with
  | nil =>
    intro t done inv hvd _
    refine ⟨fun _ => ⟨t, by simpa [recs] using inv, by simp [Op.runFrom, printerOp]⟩, ?_⟩
    intro h; simp [recs] at h; exact absurd hvd h
  | cons m ms ih =>
    intro t done inv hvd hw
    cases m with
    | wm w =>
      have hstep : (printerOp c.dirs (fun x => .ok (c.kf x)) limit noRetr).onMsg t (.wm w) = (t, [], none) := rfl
      obtain ⟨i1, i2⟩ := ih t done inv hvd (by simpa [recs] using hw)
      constructor
      · intro hv
        obtain ⟨t', h1, h2⟩ := i1 (by simpa [recs] using hv)
        exact ⟨t', by simpa [recs] using h1, by simp only [Op.runFrom, hstep, h2, List.nil_append]⟩
      · intro hv
        have := i2 (by simpa [recs] using hv)
        simp only [Op.runFrom, hstep, this, List.nil_append]
    | data r =>
      have hwr : r.vals.length = c.w := hw r (by simp [recs])
      have hcount : treeCount c.less (c.mk' r.vals) t = net done r.vals := inv.counts _ hwr
      have hnn := validLog_net_nonneg hvd r.vals
      by_cases hbad : r.retr = true ∧ net done r.vals = 0
      · -- retraction of an absent row: the printer panics, and the changelog is invalid
        have hstep : (printerOp c.dirs (fun x => .ok (c.kf x)) limit noRetr).onMsg t (.data r) = (t, [], some .panic) := by
          rw [printer_onMsg_data c limit noRetr hlim, hcount]; simp [hbad.1, hbad.2]
        have hinv : ¬ ValidLog (done ++ recs (.data r :: ms)) := by
          intro hv
          have hv' : ValidLog ((done ++ [r]) ++ recs ms) := by simpa [recs, List.append_assoc] using hv
          have := retr_present_of_valid (validLog_prefix hv') hbad.1
          omega
        refine ⟨fun hv => absurd hv hinv, fun _ => ?_⟩
        simp only [Op.runFrom, hstep]
        simp [printerOp, propagate]
      · have hok : r.retr = true → 0 < net done r.vals := by
          intro h
          have : ¬ net done r.vals = 0 := fun h0 => hbad ⟨h, h0⟩
          omega
        have hstep : (printerOp c.dirs (fun x => .ok (c.kf x)) limit noRetr).onMsg t (.data r) =
            (bump c.less (c.mk' r.vals) r.retr t, [], none) := by
          rw [printer_onMsg_data c limit noRetr hlim, hcount]
          cases hr : r.retr
          · simp
          · have := hok hr
            have : ¬ net done r.vals = 0 := by omega
            simp [this]
        have hvr : ValidLog (done ++ [r]) := by
          apply validLog_snoc hvd
          intro y
          rw [net_append]
          simp only [net, weight_eq, sgn, Int.add_zero]
          have := validLog_net_nonneg hvd y
          cases hr : r.retr
          · split <;> simp <;> omega
          · split
            · rename_i hy
              have h1 := hok hr
              have h2 : net done y = net done r.vals := (net_congr_row done hy).symm
              simp; omega
            · simp; omega
        have inv' := sinv_step c t done r inv hwr hok
        obtain ⟨i1, i2⟩ := ih _ (done ++ [r]) inv' hvr (fun q hq => hw q (by simp [recs, hq]))
        constructor
        · intro hv
          obtain ⟨t', h1, h2⟩ := i1 (by simpa [recs, List.append_assoc] using hv)
          exact ⟨t', by simpa [recs, List.append_assoc] using h1, by simp only [Op.runFrom, hstep, h2, List.nil_append]⟩
        · intro hv
          have := i2 (by simpa [recs, List.append_assoc] using hv)
          simp only [Op.runFrom, hstep, this, List.nil_append]

/-- the content of a tree satisfying the invariant: sorted, and with the net multiplicities of the log -/
theorem sinv_rows (c : SortCfg) (t : List SItem) (log : List Rec) (inv : SInv c t log)
    (hw : ∀ r ∈ log, r.vals.length = c.w) :
    (treeRows t).Pairwise (fun x y => lessRow c.dirs c.kf y x = false) ∧ ∀ y, cnt (treeRows t) y = net log y := by
  refine ⟨treeRows_sorted c t inv.sorted inv.items, ?_⟩
  intro y
  by_cases hy : y.length = c.w
  · rw [cnt_treeRows c t inv.sorted inv.items y hy, inv.counts y hy]
  · rw [net_zero_of_length log y (fun r hr => by rw [hw r hr]; exact fun h => hy h.symm)]
    apply cnt_zero_of_length
    intro x hx
    obtain ⟨a, ha, rfl⟩ := mem_treeRows hx
    rw [(inv.items a ha).2.1.2]; exact fun h => hy h.symm

theorem recs_map_addRec (l : List Row) : recs (l.map addRec) = adds l := by
  induction l with
  | nil => rfl
  | cons x xs ih => simp [addRec, recs, adds, ih]

end Octo.Ops
