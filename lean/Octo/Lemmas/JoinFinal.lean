import Octo.Lemmas.JoinRunInd
import Octo.Lemmas.JoinOuter
/-!
  The two nodes as instances of `RecvOK`, and the run theorem from the initial state.
-/
namespace Octo.Join
open Octo

theorem padW_perm_my {cfg : Cfg} {left : Bool} {my my' : List Rec} (other : List Rec) (row : Row)
    (h : List.Perm my my') : padW cfg left my other row = padW cfg left my' other row := wsum_perm h

theorem padW_perm_other {cfg : Cfg} {left : Bool} (my : List Rec) {other other' : List Rec} (row : Row)
    (h : List.Perm other other') : padW cfg left my other row = padW cfg left my other' row := by
  unfold padW
  apply wsum_congr
  intro x _
  unfold padTerm partners
  rw [wsum_perm h]

theorem outerW_perm_left {cfg : Cfg} {L L' : List Rec} (R : List Rec) (row : Row) (h : List.Perm L L') :
    outerW cfg L R row = outerW cfg L' R row := by
  unfold outerW
  rw [joinW_perm_left h, padW_perm_my R row h, padW_perm_other R row h]

theorem outerW_perm_right {cfg : Cfg} (L : List Rec) {R R' : List Rec} (row : Row) (h : List.Perm R R') :
    outerW cfg L R row = outerW cfg L R' row := by
  unfold outerW
  rw [joinW_perm_right L h, padW_perm_other L row h, padW_perm_my L row h]

/-- StreamJoin (as it is now) satisfies what the machine needs, for the inner-join specification -/
theorem recvOK_inner {cfg : Cfg} (hc : cfg.nullMatch = false) (ho : cfg.outer = false) : RecvOK cfg (joinW cfg) where
  store := by
    intro left tm to Pm Po x my' em hm hot _ h
    unfold recv at h; rw [ho] at h
    exact sjRecv_store hc hm hot h
  osr := by
    intro _ left to Pm Po x my' em hot h
    unfold recv at h; rw [ho] at h
    exact sjRecv_osr hc Pm hot h
  permL := fun R row h => joinW_perm_left h R row
  permR := fun L _ _ row h => joinW_perm_right L h row
  nil := fun _ => rfl

/-- OuterJoin (as it is now) satisfies what the machine needs, for the outer-join specification -/
theorem recvOK_outer {cfg : Cfg} (hc : cfg.nullMatch = false) (ho : cfg.outer = true) : RecvOK cfg (outerW cfg) where
  store := by
    intro left tm to Pm Po x my' em hm hot hsh h
    unfold recv at h; rw [ho] at h
    exact ojRecv_store hc hm hot (hsh ho) h
  osr := by
    intro h; rw [ho] at h; cases h
  permL := fun R row h => outerW_perm_left R row h
  permR := fun L _ _ row h => outerW_perm_right L row h
  nil := by
    intro row
    unfold outerW joinW padW
    simp [wsum]

theorem specW_recvOK {cfg : Cfg} (hc : cfg.nullMatch = false) : RecvOK cfg (specW cfg) := by
  by_cases ho : cfg.outer = true
  · have : specW cfg = outerW cfg := by funext L R row; simp [specW, ho]
    rw [this]; exact recvOK_outer hc ho
  · have ho' : cfg.outer = false := by cases h : cfg.outer <;> simp_all
    have : specW cfg = joinW cfg := by funext L R row; simp [specW, ho']
    rw [this]; exact recvOK_inner hc ho'

theorem inv_init {cfg : Cfg} {W : List Rec → List Rec → Row → Int} (ok : RecvOK cfg W) :
    Inv cfg W St.init none [] [] [] [] :=
  ⟨⟨fun row => by simp [St.init, recs, net, ok.nil], [], [], rfl, rfl, rep_nil cfg true, rep_nil cfg false⟩,
    List.Perm.refl _, List.Perm.refl _⟩

theorem timely_init : Timely St.init (.at none) [] [] :=
  ⟨List.Perm.refl _, List.Perm.refl _, trivial, trivial⟩

/-- **the run theorem**: for every schedule of the two inputs, if the node does not panic, its
    consolidated output is the specification of the complete inputs; and for fresh inputs
    (monotone watermarks, no late records) every forwarded watermark `w` comes after an output prefix
    that is the specification of the inputs up to `w`. -/
theorem run_spec {cfg : Cfg} {W : List Rec → List Rec → Row → Int} (ok : RecvOK cfg W) (hsw : cfg.switchOsr = false)
    {ls rs : List Msg} {σ : List Ev} {out : List Msg}
    (hshL : ∀ x ∈ recs ls, Shape cfg true x) (hshR : ∀ x ∈ recs rs, Shape cfg false x)
    (hI : Interleave ls rs σ) (hrun : run cfg σ = .ok out) :
    (∀ row, net (recs out) row = W (recs ls) (recs rs) row) ∧
    (Fresh none ls ∧ Fresh none rs → wmOK W (recs ls) (recs rs) [] out) := by
  refine goal_all ok hsw (Fresh none ls ∧ Fresh none rs) (recs ls) (recs rs) hshL hshR σ St.init .both
    (evsOf true ls) (evsOf false rs) ls rs [] [] [] [] out hI ⟨rfl, rfl⟩ (by simp) (by simp)
    (inv_init ok) trivial (fun hF => ?_) hrun
  exact ⟨trivial, timely_init, rfl, rfl, hF.1, hF.2⟩

end Octo.Join
