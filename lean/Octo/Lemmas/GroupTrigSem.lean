import Octo.Lemmas.GroupTrig
import Octo.Lemmas.GroupAgg
/-!
  `CustomTriggerGroupBy` at the SQL level, part 2: the table the node holds after a batch input — and hence, by
  C16's `out_eq_table`, the consolidation of the changelog it emits under any trigger — is `groupSem` as a bag:
  one row per class of key tuples, the aggregates of the class's non-NULL inputs (`custom_trigger_groupSem`).
-/
namespace Octo.Grp
open Octo Octo.Sql

def mkRec (r : Row) : Rec := ⟨r, false, none⟩

theorem recs_toMsgs' (rows : List Row) : recs (toMsgs rows) = rows.map mkRec := recs_toMsgs rows

/-! ### additions only: every record is live -/

theorem countOf_adds (g : List Rec) (h : ∀ r ∈ g, r.retr = false) : Trig.countOf g = g.length := by
  induction g with
  | nil => rfl
  | cons r rs ih =>
    have hr := h r List.mem_cons_self
    have := ih (fun x hx => h x (List.mem_cons_of_mem _ hx))
    simp only [Trig.countOf, List.map_cons, List.sum_cons, Trig.sign, hr, Bool.false_eq_true, if_false, List.length_cons] at *
    omega

theorem foldl_liveStep_adds (g acc : List Rec) (ha : ∀ r ∈ acc, r.retr = false) (hg : ∀ r ∈ g, r.retr = false) :
    g.foldl Trig.liveStep acc = acc ++ g := by
  induction g generalizing acc with
  | nil => simp
  | cons r rs ih =>
    have hall : ∀ x ∈ acc ++ [r], x.retr = false := by
      intro x hx
      rcases List.mem_append.mp hx with hx | hx
      · exact ha x hx
      · simp only [List.mem_singleton] at hx; subst hx; exact hg _ List.mem_cons_self
    have hc := countOf_adds (acc ++ [r]) hall
    have hstep : Trig.liveStep acc r = acc ++ [r] := by
      simp only [Trig.liveStep]
      rw [if_neg]
      simp only [hc, List.length_append, List.length_cons, List.length_nil, beq_iff_eq]
      omega
    simp only [List.foldl_cons, hstep]
    rw [ih (acc ++ [r]) hall (fun x hx => hg x (List.mem_cons_of_mem _ hx))]
    simp

theorem live_adds (g : List Rec) (h : ∀ r ∈ g, r.retr = false) : Trig.live g = g := by
  simpa [Trig.live] using foldl_liveStep_adds g [] (by simp) h

/-! ### the node's view of a batch input -/

/-- the value of the aggregate argument on a row (NULL if it fails; it does not, under `evalsOk`) -/
def argv (p : PAgg) (r : Row) : Value := (evalArg r p).getD .null

/-- what the node reports for an aggregate over the inputs `xs` -/
def nodeVal (p : PAgg) (xs : List Value) : Value :=
  match cellOut p xs with
  | .val v => v
  | .panic => .null

theorem isNull_eq (v : Value) : Trig.isNull v = isNullV v := by cases v <;> rfl

theorem evalArg_of_ok {keys : List SExpr} {aggs : List PAgg} {rows : List Row} (hok : evalsOk keys aggs rows = true)
    {r : Row} (hr : r ∈ rows) {p : PAgg} (hp : p ∈ aggs) : ∃ v, evalArg r p = some v := by
  have := List.all_eq_true.mp hok r hr
  simp only [Bool.and_eq_true] at this
  obtain ⟨ins, hins⟩ := Option.isSome_iff_exists.mp this.2
  obtain ⟨i, hi, hpi⟩ := List.getElem_of_mem hp
  have h := evalArgs_get r aggs ins hins i
  rw [List.getElem?_eq_getElem hi, hpi] at h
  simp only [Option.bind_some] at h
  have hlen := evalArgs_length r aggs ins hins
  rw [List.getElem?_eq_getElem (by omega)] at h
  exact ⟨_, h.symm⟩

theorem keyOf_of_ok {keys : List SExpr} {aggs : List PAgg} {rows : List Row} (hok : evalsOk keys aggs rows = true)
    (t : Trig) {r : Row} (hr : r ∈ rows) :
    (gbConf keys aggs t).keyOf r = keyOfRow keys r ∧ (keyOfRow keys r).length = keys.length := by
  have := List.all_eq_true.mp hok r hr
  simp only [Bool.and_eq_true] at this
  obtain ⟨k, hk⟩ := Option.isSome_iff_exists.mp this.1
  constructor
  · simp [gbConf, keyOfRow, hk]
  · simp only [keyOfRow, hk, Option.getD_some]
    exact evalAll_length r keys k hk

theorem mem_groupRows {keys : List SExpr} {k r : Row} {rows : List Row} (h : r ∈ groupRows keys k rows) : r ∈ rows :=
  (List.mem_filter.mp h).1

/-- the records of the class of `k`, as the node sees them -/
theorem ofKey_rows (keys : List SExpr) (aggs : List PAgg) (t : Trig) (rows : List Row)
    (hok : evalsOk keys aggs rows = true) (k : Row) :
    Trig.ofKey (gbConf keys aggs t) k (rows.map mkRec) = (groupRows keys k rows).map mkRec := by
  simp only [Trig.ofKey, groupRows, List.filter_map, Function.comp_def, mkRec]
  congr 1
  apply List.filter_congr
  intro r hr
  rw [(keyOf_of_ok hok t hr).1]
  rfl

theorem aggInputs_eq {keys : List SExpr} {aggs : List PAgg} {rows : List Row} (hok : evalsOk keys aggs rows = true)
    {p : PAgg} (hp : p ∈ aggs) (grp : List Row) (hg : ∀ r ∈ grp, r ∈ rows) :
    aggInputs p grp = (grp.map (argv p)).filter fun v => !isNullV v := by
  simp only [aggInputs]
  congr 1
  induction grp with
  | nil => rfl
  | cons r rs ih =>
    obtain ⟨v, hv⟩ := evalArg_of_ok hok (hg r List.mem_cons_self) hp
    simp only [List.filterMap_cons, hv, List.map_cons, argv, Option.getD_some]
    rw [ih (fun x hx => hg x (List.mem_cons_of_mem _ hx))]

/-- the history `CustomTriggerGroupBy` feeds an aggregate for a class = the all-additions history of the class's
    non-NULL inputs -/
theorem trigHist_eq {keys : List SExpr} {aggs : List PAgg} {rows : List Row} (hok : evalsOk keys aggs rows = true)
    {p : PAgg} (hp : p ∈ aggs) (grp : List Row) (hg : ∀ r ∈ grp, r ∈ rows) :
    Trig.histOf ⟨aggF p, fun vals => (evalArg vals p).getD .null⟩ (grp.map mkRec) = histOf (aggInputs p grp) := by
  rw [aggInputs_eq hok hp grp hg]
  simp only [Trig.histOf, histOf, List.filter_map, List.map_map, Function.comp_def, mkRec, isNull_eq, argv]

theorem histSize_histOf' (xs : List Value) : Trig.histSize (histOf xs) = xs.length := by
  induction xs with
  | nil => rfl
  | cons x r ih =>
    simp only [histOf, List.map_cons, Trig.histSize, List.sum_cons, Bool.false_eq_true, if_false, List.length_cons] at *
    omega

theorem aggF_eq_nodeVal (p : PAgg) (xs : List Value) :
    (if Trig.histSize (histOf xs) > 0 then aggF p (histOf xs) else Value.null) = nodeVal p xs := by
  rw [histSize_histOf']
  cases xs with
  | nil => simp [nodeVal, cellOut]
  | cons x r =>
    simp only [nodeVal, cellOut, trigAgg, aggF, List.length_cons]
    rw [if_pos (by omega), if_pos (by omega)]
    cases (Agg.mkAgg p.kind p.distinct).trigger ((Agg.mkAgg p.kind p.distinct).run (histOf (x :: r))).1 <;> rfl

/-- the aggregate columns the node holds for the class of `k` -/
def nodeVals (keys : List SExpr) (aggs : List PAgg) (rows : List Row) (k : Row) : Row :=
  aggs.map fun p => nodeVal p (aggInputs p (groupRows keys k rows))

theorem specResults_rows (keys : List SExpr) (aggs : List PAgg) (t : Trig) (rows : List Row)
    (hok : evalsOk keys aggs rows = true) (k : Row) :
    Trig.specResults (gbConf keys aggs t).aggs ((groupRows keys k rows).map mkRec) = nodeVals keys aggs rows k := by
  simp only [Trig.specResults, gbConf, nodeVals, List.map_map, Function.comp_def]
  apply List.map_congr_left
  intro p hp
  rw [trigHist_eq hok hp (groupRows keys k rows) (fun r hr => mem_groupRows hr)]
  exact aggF_eq_nodeVal p _

/-- **the table of the node after a batch input** -/
theorem tableOf_rows (keys : List SExpr) (aggs : List PAgg) (t : Trig) (rows : List Row)
    (hok : evalsOk keys aggs rows = true) (row : Row) :
    Trig.tableOf (gbConf keys aggs t) keys.length (Trig.aggsAfter (gbConf keys aggs t) (rows.map mkRec)) row =
      if (groupRows keys (row.take keys.length) rows).isEmpty then 0
      else if Sql.rowEq (row.take keys.length ++ nodeVals keys aggs rows (row.take keys.length)) row then 1 else 0 := by
  have hinv := Trig.aggsInv_after (gbConf keys aggs t) (rows.map mkRec) (row.take keys.length)
  rw [ofKey_rows keys aggs t rows hok] at hinv
  rw [live_adds _ (by intro r hr; obtain ⟨x, _, rfl⟩ := List.mem_map.mp hr; rfl)] at hinv
  simp only [Trig.tableOf, Trig.curRow_eq]
  cases hf : TMap.find Trig.keyLess (row.take keys.length) (Trig.aggsAfter (gbConf keys aggs t) (rows.map mkRec)) with
  | none =>
    simp only [hf, Option.map_none] at hinv
    have : (groupRows keys (row.take keys.length) rows).isEmpty = true := by
      cases hg : (groupRows keys (row.take keys.length) rows) with
      | nil => rfl
      | cons x xs => simp [hg] at hinv
    simp [this]
  | some ki =>
    simp only [hf, Option.map_some] at hinv
    cases hg : (groupRows keys (row.take keys.length) rows) with
    | nil => simp [hg] at hinv
    | cons x xs =>
      simp only [hg, List.map_cons, List.isEmpty_cons, Bool.false_eq_true, if_false, Option.some.injEq,
        Prod.mk.injEq] at hinv
      simp only [Option.map_some, List.isEmpty_cons, Bool.false_eq_true, if_false]
      rw [hinv.1, Trig.results_cellsOf]
      have := specResults_rows keys aggs t rows hok (row.take keys.length)
      rw [hg] at this
      simp only [List.map_cons] at this
      rw [this]
      rfl

/-! ### the specification side: at most one class matches a row -/

theorem keq_eq_rowEq (a b : Row) : Trig.keq a b = Sql.rowEq a b := rfl

theorem rowEq_prefix {k res row : Row} (h : Sql.rowEq row (k ++ res) = true) : Sql.rowEq k (row.take k.length) = true := by
  have h' : Trig.keq (k ++ res) row = true := by rw [keq_eq_rowEq]; exact rowEq_symm h
  have := Trig.keq_take (nk := k.length) rfl h'
  rwa [keq_eq_rowEq] at this

theorem countRow_classes (nk : Nat) (L : List Row) (V : Row → Row)
    (hlen : ∀ k ∈ L, k.length = nk) (hpw : L.Pairwise fun a b => Sql.rowEq b a = false) (row : Row) :
    countRow row (L.map fun k => k ++ V k) = if (L.any fun k => Sql.rowEq row (k ++ V k)) = true then 1 else 0 := by
  induction L with
  | nil => rfl
  | cons k ks ih =>
    rw [List.pairwise_cons] at hpw
    have ih' := ih (fun x hx => hlen x (List.mem_cons_of_mem _ hx)) hpw.2
    simp only [List.map_cons, countRow, List.any_cons]
    rw [ih']
    by_cases hk : Sql.rowEq row (k ++ V k) = true
    case neg =>
      have hk' : Sql.rowEq row (k ++ V k) = false := by simpa using hk
      simp [hk']
    case pos =>
      -- no later class can match as well
      have hnone : (ks.any fun k' => Sql.rowEq row (k' ++ V k')) = false := by
        rw [List.any_eq_false]
        intro k' hk' hm
        have h1 := rowEq_prefix hk
        have h2 := rowEq_prefix (by simpa using hm : Sql.rowEq row (k' ++ V k') = true)
        rw [hlen k List.mem_cons_self] at h1
        rw [hlen k' (List.mem_cons_of_mem _ hk')] at h2
        have : Sql.rowEq k' k = true := rowEq_trans h2 (rowEq_symm h1)
        have := hpw.1 k' hk'
        simp_all
      simp [hk, hnone]

theorem rowEq_map {α : Type} (l : List α) (f g : α → Value) (h : ∀ x ∈ l, cmp (f x) (g x) = 0) :
    Sql.rowEq (l.map f) (l.map g) = true := by
  induction l with
  | nil => rfl
  | cons x xs ih =>
    exact rowEq_cons (h x List.mem_cons_self) (ih (fun y hy => h y (List.mem_cons_of_mem _ hy)))

/-- the aggregate columns of the specification for the class of `k` -/
def specVals (keys : List SExpr) (aggs : List PAgg) (rows : List Row) (k : Row) : Row :=
  aggs.map fun p => aggValue p (aggInputs p (groupRows keys k rows))

theorem groupRows_congr (keys : List SExpr) (rows : List Row) {k k' : Row} (h : Sql.rowEq k k' = true) :
    groupRows keys k rows = groupRows keys k' rows := by
  simp only [groupRows]
  apply List.filter_congr
  intro r _
  exact rowEq_congr h _

theorem node_eq_spec (keys : List SExpr) (aggs : List PAgg) (rows : List Row) (hf : FiniteArgs aggs rows)
    {k0 kk : Row} (h : Sql.rowEq k0 kk = true) :
    Sql.rowEq (k0 ++ specVals keys aggs rows k0) (kk ++ nodeVals keys aggs rows kk) = true := by
  apply rowEq_append h
  rw [specVals, nodeVals, groupRows_congr keys rows h]
  apply rowEq_map
  intro p hp
  obtain ⟨v, hv, hc⟩ := cellOut_spec p (aggInputs p (groupRows keys kk rows))
    (finiteInputs_of_args hf hp _ (fun r hr => mem_groupRows hr))
  simp only [nodeVal, hv]
  have h2 : cmp (aggValue p (aggInputs p (groupRows keys kk rows))) v = - cmp v (aggValue p (aggInputs p (groupRows keys kk rows))) :=
    cmpWith_antisymm cmpFloatFixed_laws _ _
  rw [h2, hc]
  rfl

/-- **`CustomTriggerGroupBy` is `groupSem`**: for every grouping block and every trigger that selects the node
    (`COUNTING k`, with or without `ON END OF STREAM`), on every batch input on which the expressions evaluate: no
    panic, and the changelog the node emits — with all its retractions — consolidates to exactly the rows of
    `groupSem`: for every row, its net multiplicity in the output is its multiplicity in `groupSem` -/
theorem custom_trigger_groupSem (keys : List SExpr) (aggs : List PAgg) (t : Trig) (rows : List Row)
    (hok : evalsOk keys aggs rows = true) (hf : FiniteArgs aggs rows) :
    ∃ out, Trig.run Trig.wlessFixed (gbConf keys aggs t) (toMsgs rows) = some out ∧
      ∀ row, net (recs out) row = (countRow row (groupSem keys aggs rows) : Int) := by
  have hall : (recs (toMsgs rows)).all (fun r => Trig.stepOk (gbConf keys aggs t) r.vals) = true := by
    rw [recs_toMsgs, List.all_eq_true]
    intro r hr
    obtain ⟨x, hx, rfl⟩ := List.mem_map.mp hr
    exact stepOk_gbConf keys aggs t x (List.all_eq_true.mp hok x hx)
  refine ⟨Trig.gbRun Trig.wlessFixed (gbConf keys aggs t) (Trig.buffer (toMsgs rows)), ?_, ?_⟩
  · simp only [Trig.run, hall, if_true]
  intro row
  rw [buffer_toMsgs,
    Trig.out_eq_table Trig.wlessFixed_laws (gbConf_keyLen keys aggs t) (gbConf_live keys aggs t),
    recs_toMsgs', tableOf_rows keys aggs t rows hok row]
  -- the specification side
  let L := keyClasses (rows.map (keyOfRow keys))
  have hL : ∀ k ∈ L, ∃ r ∈ rows, keyOfRow keys r = k := by
    intro k hk
    obtain ⟨r, hr, hrk⟩ := List.mem_map.mp (mem_keyClasses hk)
    exact ⟨r, hr, hrk⟩
  have hlen : ∀ k ∈ L, k.length = keys.length := by
    intro k hk
    obtain ⟨r, hr, rfl⟩ := hL k hk
    exact (keyOf_of_ok hok t hr).2
  have hsem : groupSem keys aggs rows = L.map fun k => k ++ specVals keys aggs rows k := rfl
  rw [hsem, countRow_classes keys.length L _ hlen (keyClasses_pairwise _) row]
  generalize hkk : row.take keys.length = kk
  by_cases hany : (L.any fun k => Sql.rowEq row (k ++ specVals keys aggs rows k)) = true
  · -- some class matches the row
    obtain ⟨k0, hk0, hm⟩ := List.any_eq_true.mp hany
    have hpre : Sql.rowEq k0 kk = true := by
      have := rowEq_prefix hm
      rw [hlen k0 hk0, hkk] at this
      exact this
    obtain ⟨r, hr, hrk⟩ := hL k0 hk0
    have hne : (groupRows keys kk rows).isEmpty = false := by
      have : r ∈ groupRows keys kk rows := List.mem_filter.mpr ⟨hr, by rw [hrk]; exact hpre⟩
      cases hg : groupRows keys kk rows with
      | nil => rw [hg] at this; cases this
      | cons _ _ => rfl
    have hrow : Sql.rowEq (kk ++ nodeVals keys aggs rows kk) row = true :=
      rowEq_symm (rowEq_trans hm (node_eq_spec keys aggs rows hf hpre))
    simp [hany, hne, hrow]
  · have hany' : (L.any fun k => Sql.rowEq row (k ++ specVals keys aggs rows k)) = false := by simpa using hany
    simp only [hany', Bool.false_eq_true, if_false]
    cases hg : groupRows keys kk rows with
    | nil => simp
    | cons x xs =>
      simp only [List.isEmpty_cons, Bool.false_eq_true, if_false]
      have hx : x ∈ groupRows keys kk rows := by rw [hg]; exact List.mem_cons_self
      have hxr := mem_groupRows hx
      have hxk : Sql.rowEq (keyOfRow keys x) kk = true := (List.mem_filter.mp hx).2
      obtain ⟨k0, hk0, hc⟩ := keyClasses_covers (rows.map (keyOfRow keys)) (keyOfRow keys x) (List.mem_map_of_mem hxr)
      have hpre : Sql.rowEq k0 kk = true := rowEq_trans (rowEq_symm hc) hxk
      have hno : Sql.rowEq (kk ++ nodeVals keys aggs rows kk) row = false := by
        cases hr : Sql.rowEq (kk ++ nodeVals keys aggs rows kk) row
        · rfl
        · exfalso
          have : Sql.rowEq row (k0 ++ specVals keys aggs rows k0) = true :=
            rowEq_symm (rowEq_trans (node_eq_spec keys aggs rows hf hpre) hr)
          have := List.any_eq_false.mp hany' k0 hk0
          simp_all
      simp [hno]

end Octo.Grp
