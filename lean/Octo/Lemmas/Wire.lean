import Octo.Model.Wire
/-!
  Lemmas for C26: what the two value tables and the two type tables (as regenerated from plugins.go) compute on
  the Go structs built by `octosql.NewX` / on well-formed types, and the library round trips
  (`timestamppb.New`/`AsTime`, `durationpb.New`/`AsDuration`).
-/
namespace Octo.Wire
open Octo

/-! ### timestamps, durations -/

theorem ts_roundtrip (t : GTime) : (tsNew t).map (fun x => tsAsTime (some x)) = some (t.1, 0) := by
  simp only [tsNew, tsAsTime, Option.map]
  congr 2
  omega

theorem tsAsTime_tsNew (ns : Int) :
    tsAsTime (some ⟨ns / 1000000000, ns % 1000000000⟩) = (ns, 0) := by
  simp only [tsAsTime]
  congr 1
  omega

/-- the nanos written by `timestamppb.New` fit the `int32` field and the proto range `[0, 1e9)` -/
theorem tsNew_nanos_range (ns : Int) : 0 ≤ ns % 1000000000 ∧ ns % 1000000000 < 1000000000 := by omega

theorem tdiv9_nonneg (d : Int) (h : 0 ≤ d) : tdiv9 d = d / 1000000000 := by simp [tdiv9, h]
theorem tdiv9_neg (d : Int) (h : d < 0) : tdiv9 d = -((-d) / 1000000000) := by
  simp only [tdiv9]; split <;> omega

/-- `durationpb.New` then `AsDuration` is the identity on every `time.Duration` (an int64) -/
theorem dur_roundtrip (d : Int) (h : inInt64 d) :
    durAsDuration (some ⟨tdiv9 d, d - tdiv9 d * 1000000000⟩) = d := by
  unfold inInt64 minInt64 maxInt64 at h
  by_cases hd : 0 ≤ d
  · have e := tdiv9_nonneg d hd
    have hq : 0 ≤ d / 1000000000 ∧ d / 1000000000 * 1000000000 ≤ d ∧ d < d / 1000000000 * 1000000000 + 1000000000 := by omega
    generalize hqq : d / 1000000000 = q at *
    have w0 : wrap64 (q * 1000000000) = q * 1000000000 := by unfold wrap64; omega
    have t0 : tdiv9 (q * 1000000000) = q := by rw [tdiv9_nonneg _ (by omega)]; omega
    have w1 : wrap64 (q * 1000000000 + (d - q * 1000000000)) = d := by unfold wrap64; omega
    simp only [durAsDuration, e, w0, t0, w1, bne_self_eq_false, Bool.false_or]
    split
    · rename_i hc
      simp only [Bool.or_eq_true, Bool.and_eq_true, decide_eq_true_eq] at hc
      omega
    · rfl
  · have hd' : d < 0 := by omega
    have e := tdiv9_neg d hd'
    have hq : 0 ≤ (-d) / 1000000000 ∧ (-d) / 1000000000 * 1000000000 ≤ -d ∧ -d < (-d) / 1000000000 * 1000000000 + 1000000000 := by omega
    generalize hqq : (-d) / 1000000000 = q at *
    have w0 : wrap64 (-q * 1000000000) = -q * 1000000000 := by unfold wrap64; omega
    have t0 : tdiv9 (-q * 1000000000) = -q := by
      by_cases hq0 : q = 0
      · subst hq0; simp [tdiv9]
      · rw [tdiv9_neg _ (by omega)]; omega
    have w1 : wrap64 (-q * 1000000000 + (d - -q * 1000000000)) = d := by unfold wrap64; omega
    simp only [durAsDuration, e, w0, t0, w1, bne_self_eq_false, Bool.false_or]
    split
    · rename_i hc
      simp only [Bool.or_eq_true, Bool.and_eq_true, decide_eq_true_eq] at hc
      omega
    · rfl

/-! ### values -/

mutual
/-- the proto message `NativeValueToProto` builds -/
def encP : Value → PV
  | .null => .mk 0 0 0 false [] none none [] [] []
  | .int i => .mk 1 i 0 false [] none none [] [] []
  | .float f => .mk 2 0 f false [] none none [] [] []
  | .bool b => .mk 3 0 0 b [] none none [] [] []
  | .str s => .mk 4 0 0 false s none none [] [] []
  | .time ns loc => .mk 5 0 0 false [] (tsNew (ns, loc)) none [] [] []
  | .dur d => .mk 6 0 0 false [] none (durNew d) [] [] []
  | .list xs => .mk 7 0 0 false [] none none (encPs xs) [] []
  | .struct xs => .mk 8 0 0 false [] none none [] (encPs xs) []
  | .tuple xs => .mk 9 0 0 false [] none none [] [] (encPs xs)
def encPs : List Value → List PV
  | [] => []
  | x :: xs => encP x :: encPs xs
end

theorem lkE7 : lookupV Gen.Wire.nativeValueToProto.cases 7 = some [⟨.list, .list, .mapSelf⟩] := rfl
theorem lkE8 : lookupV Gen.Wire.nativeValueToProto.cases 8 = some [⟨.struct, .struct, .mapSelf⟩] := rfl
theorem lkE9 : lookupV Gen.Wire.nativeValueToProto.cases 9 = some [⟨.tuple, .tuple, .mapSelf⟩] := rfl
theorem lkD7 : lookupV Gen.Wire.toNativeValue.cases 7 = some [⟨.list, .list, .mapSelf⟩] := rfl
theorem lkD8 : lookupV Gen.Wire.toNativeValue.cases 8 = some [⟨.struct, .struct, .mapSelf⟩] := rfl
theorem lkD9 : lookupV Gen.Wire.toNativeValue.cases 9 = some [⟨.tuple, .tuple, .mapSelf⟩] := rfl

mutual
/-- `NativeValueToProto` never panics on a value built by the `octosql.NewX` constructors, and builds `encP v` -/
theorem encode_ofValue : ∀ v, encodeV (ofValue v) = some (encP v)
  | .null => by rfl
  | .int _ => by rfl
  | .float _ => by rfl
  | .bool _ => by rfl
  | .str _ => by rfl
  | .time _ _ => by rfl
  | .dur _ => by rfl
  | .list xs => by
    have h := encode_ofValues xs
    unfold encodeVs at h
    unfold encodeV
    rw [ofValue, convV, lkE7]
    simp only [h, runV, applyV, RV.get, pickRec, RV.set, encP]
    rfl
  | .struct xs => by
    have h := encode_ofValues xs
    unfold encodeVs at h
    unfold encodeV
    rw [ofValue, convV, lkE8]
    simp only [h, runV, applyV, RV.get, pickRec, RV.set, encP]
    rfl
  | .tuple xs => by
    have h := encode_ofValues xs
    unfold encodeVs at h
    unfold encodeV
    rw [ofValue, convV, lkE9]
    simp only [h, runV, applyV, RV.get, pickRec, RV.set, encP]
    rfl
theorem encode_ofValues : ∀ xs, encodeVs (ofValues xs) = some (encPs xs)
  | [] => by rfl
  | x :: xs => by
    have h1 := encode_ofValue x
    have h2 := encode_ofValues xs
    unfold encodeV at h1
    unfold encodeVs at h2 ⊢
    rw [ofValues, convVs, h1, h2, encPs]
end

mutual
/-- every `time.Duration` inside the value is an int64 -/
def durOk : Value → Prop
  | .dur d => inInt64 d
  | .list xs => dursOk xs
  | .struct xs => dursOk xs
  | .tuple xs => dursOk xs
  | _ => True
def dursOk : List Value → Prop
  | [] => True
  | x :: xs => durOk x ∧ dursOk xs
end

theorem decode_time (ns : Int) (loc : Nat) :
    decodeV (.mk 5 0 0 false [] (tsNew (ns, loc)) none [] [] []) = some (.mk 5 0 0 false [] (ns, 0) 0 [] [] []) := by
  have h := tsAsTime_tsNew ns
  have e : decodeV (.mk 5 0 0 false [] (tsNew (ns, loc)) none [] [] [])
      = some (.mk 5 0 0 false [] (tsAsTime (tsNew (ns, loc))) 0 [] [] []) := by rfl
  rw [e]; simp only [tsNew]; rw [h]

theorem decode_dur (d : Int) (h : inInt64 d) :
    decodeV (.mk 6 0 0 false [] none (durNew d) [] [] []) = some (.mk 6 0 0 false [] zeroTime d [] [] []) := by
  have e : decodeV (.mk 6 0 0 false [] none (durNew d) [] [] [])
      = some (.mk 6 0 0 false [] zeroTime (durAsDuration (durNew d)) [] [] []) := by rfl
  rw [e]; simp only [durNew]; rw [dur_roundtrip d h]

mutual
/-- `ToNativeValue` on what `NativeValueToProto` built: the same value, every time in UTC -/
theorem decode_encP : ∀ v, durOk v → decodeV (encP v) = some (ofValue (normLoc v))
  | .null, _ => by rfl
  | .int _, _ => by rfl
  | .float _, _ => by rfl
  | .bool _, _ => by rfl
  | .str _, _ => by rfl
  | .time ns loc, _ => by simp only [encP, normLoc, ofValue]; exact decode_time ns loc
  | .dur d, h => by simp only [encP, normLoc, ofValue]; exact decode_dur d (by simpa [durOk] using h)
  | .list xs, h => by
    have h := decode_encPs xs (by simpa [durOk] using h)
    unfold decodeVs at h
    unfold decodeV
    rw [encP, convV, lkD7]
    simp only [h, runV, applyV, RV.get, pickRec, RV.set, normLoc, ofValue]
    rfl
  | .struct xs, h => by
    have h := decode_encPs xs (by simpa [durOk] using h)
    unfold decodeVs at h
    unfold decodeV
    rw [encP, convV, lkD8]
    simp only [h, runV, applyV, RV.get, pickRec, RV.set, normLoc, ofValue]
    rfl
  | .tuple xs, h => by
    have h := decode_encPs xs (by simpa [durOk] using h)
    unfold decodeVs at h
    unfold decodeV
    rw [encP, convV, lkD9]
    simp only [h, runV, applyV, RV.get, pickRec, RV.set, normLoc, ofValue]
    rfl
theorem decode_encPs : ∀ xs, dursOk xs → decodeVs (encPs xs) = some (ofValues (normLocs xs))
  | [], _ => by rfl
  | x :: xs, h => by
    have hh : durOk x ∧ dursOk xs := by simpa [dursOk] using h
    have h1 := decode_encP x hh.1
    have h2 := decode_encPs xs hh.2
    unfold decodeV at h1
    unfold decodeVs at h2 ⊢
    rw [encPs, convVs, h1, h2, normLocs, ofValues]
end

mutual
theorem toValue_ofValue : ∀ v, toValue (ofValue v) = some v
  | .null => by rfl
  | .int _ => by rfl
  | .float _ => by rfl
  | .bool _ => by rfl
  | .str _ => by rfl
  | .time _ _ => by rfl
  | .dur _ => by rfl
  | .list xs => by simp [ofValue, toValue, toValues_ofValues xs]
  | .struct xs => by simp [ofValue, toValue, toValues_ofValues xs]
  | .tuple xs => by simp [ofValue, toValue, toValues_ofValues xs]
theorem toValues_ofValues : ∀ xs, toValues (ofValues xs) = some xs
  | [] => by rfl
  | x :: xs => by simp [ofValues, toValues, toValue_ofValue x, toValues_ofValues xs]
end

theorem tripValue_eq (v : Value) (h : durOk v) : tripValue v = some (normLoc v) := by
  simp [tripValue, encode_ofValue v, decode_encP v h, toValue_ofValue]

/-! ### `normLoc` does not change how a value compares -/
mutual
theorem cmp_normLoc (cf : Nat → Nat → Int) (hcf : ∀ a, cf a a = 0) : ∀ v, cmpWith cf (normLoc v) v = 0
  | .null => by simp [normLoc, cmpWith]
  | .int _ => by simp [normLoc, cmpWith, cmpInt]
  | .float _ => by simp [normLoc, cmpWith, hcf]
  | .bool _ => by simp [normLoc, cmpWith]
  | .str s => by
    simp only [normLoc, cmpWith]
    induction s with
    | nil => simp [cmpBytes]
    | cons b bs ih => simp [cmpBytes, ih]
  | .time _ _ => by simp [normLoc, cmpWith, cmpInt]
  | .dur _ => by simp [normLoc, cmpWith, cmpInt]
  | .list xs => by simp only [normLoc, cmpWith]; exact cmpList_normLocs cf hcf xs
  | .struct xs => by simp only [normLoc, cmpWith]; exact cmpList_normLocs cf hcf xs
  | .tuple xs => by simp only [normLoc, cmpWith]; exact cmpList_normLocs cf hcf xs
theorem cmpList_normLocs (cf : Nat → Nat → Int) (hcf : ∀ a, cf a a = 0) : ∀ xs, cmpListWith cf (normLocs xs) xs = 0
  | [] => by simp [normLocs, cmpListWith]
  | x :: xs => by simp [normLocs, cmpListWith, cmp_normLoc cf hcf x, cmpList_normLocs cf hcf xs]
end

/-! ### types -/

theorem lkTE (k : Int) (h : k = 0 ∨ k = 1 ∨ k = 2 ∨ k = 3 ∨ k = 4 ∨ k = 5 ∨ k = 6 ∨ k = 11) :
    lookupT Gen.Wire.nativeTypeToProto.cases k = some [] := by
  rcases h with h | h | h | h | h | h | h | h <;> subst h <;> rfl
theorem lkTD (k : Int) (h : k = 0 ∨ k = 1 ∨ k = 2 ∨ k = 3 ∨ k = 4 ∨ k = 5 ∨ k = 6 ∨ k = 11) :
    lookupT Gen.Wire.toNativeType.cases k = some [] := by
  rcases h with h | h | h | h | h | h | h | h <;> subst h <;> rfl
theorem lkTE7 : lookupT Gen.Wire.nativeTypeToProto.cases 7 = some [⟨.list, .list, .optSelf⟩] := rfl
theorem lkTE8 : lookupT Gen.Wire.nativeTypeToProto.cases 8 = some [⟨.struct, .struct, .mapFields⟩] := rfl
theorem lkTE9 : lookupT Gen.Wire.nativeTypeToProto.cases 9 = some [⟨.tuple, .tuple, .mapSelf⟩] := rfl
theorem lkTE10 : lookupT Gen.Wire.nativeTypeToProto.cases 10 = some [⟨.union, .union, .mapSelf⟩] := rfl
theorem lkTD7 : lookupT Gen.Wire.toNativeType.cases 7 = some [⟨.list, .list, .optSelf⟩] := rfl
theorem lkTD8 : lookupT Gen.Wire.toNativeType.cases 8 = some [⟨.struct, .struct, .mapFields⟩] := rfl
theorem lkTD9 : lookupT Gen.Wire.toNativeType.cases 9 = some [⟨.tuple, .tuple, .mapSelf⟩] := rfl
theorem lkTD10 : lookupT Gen.Wire.toNativeType.cases 10 = some [⟨.union, .union, .mapSelf⟩] := rfl

mutual
/-- the proto message has the same shape as the Go struct: `NativeTypeToProto` maps `ofTy t` to `ofTy t` -/
theorem encode_ofTy : ∀ t, encodeT (ofTy t) = some (ofTy t)
  | .null => by rfl
  | .int => by rfl
  | .float => by rfl
  | .bool => by rfl
  | .str => by rfl
  | .time => by rfl
  | .dur => by rfl
  | .any => by rfl
  | .listNil => by rfl
  | .list e => by
    have h := encode_ofTy e
    unfold encodeT at h ⊢
    rw [ofTy, convT, lkTE7]
    simp only [convTo, h, runT, applyT, RT.get, RT.set]
    rfl
  | .struct ns ts => by
    have h := encode_ofTys ts
    unfold encodeTs at h
    unfold encodeT
    rw [ofTy, convT, lkTE8]
    simp only [h, runT, applyT, RT.get, RT.set]
    rfl
  | .tuple ts => by
    have h := encode_ofTys ts
    unfold encodeTs at h
    unfold encodeT
    rw [ofTy, convT, lkTE9]
    simp only [h, runT, applyT, RT.get, RT.set, TRecs.seqOf]
    rfl
  | .union ts => by
    have h := encode_ofTys ts
    unfold encodeTs at h
    unfold encodeT
    rw [ofTy, convT, lkTE10]
    simp only [h, runT, applyT, RT.get, RT.set, TRecs.seqOf]
    rfl
theorem encode_ofTys : ∀ ts, encodeTs (ofTys ts) = some (ofTys ts)
  | [] => by rfl
  | t :: ts => by
    have h1 := encode_ofTy t
    have h2 := encode_ofTys ts
    unfold encodeT at h1
    unfold encodeTs at h2 ⊢
    rw [ofTys, convTs, h1, h2]
end

mutual
theorem decode_ofTy : ∀ t, decodeT (ofTy t) = some (ofTy t)
  | .null => by rfl
  | .int => by rfl
  | .float => by rfl
  | .bool => by rfl
  | .str => by rfl
  | .time => by rfl
  | .dur => by rfl
  | .any => by rfl
  | .listNil => by rfl
  | .list e => by
    have h := decode_ofTy e
    unfold decodeT at h ⊢
    rw [ofTy, convT, lkTD7]
    simp only [convTo, h, runT, applyT, RT.get, RT.set]
    rfl
  | .struct ns ts => by
    have h := decode_ofTys ts
    unfold decodeTs at h
    unfold decodeT
    rw [ofTy, convT, lkTD8]
    simp only [h, runT, applyT, RT.get, RT.set]
    rfl
  | .tuple ts => by
    have h := decode_ofTys ts
    unfold decodeTs at h
    unfold decodeT
    rw [ofTy, convT, lkTD9]
    simp only [h, runT, applyT, RT.get, RT.set, TRecs.seqOf]
    rfl
  | .union ts => by
    have h := decode_ofTys ts
    unfold decodeTs at h
    unfold decodeT
    rw [ofTy, convT, lkTD10]
    simp only [h, runT, applyT, RT.get, RT.set, TRecs.seqOf]
    rfl
theorem decode_ofTys : ∀ ts, decodeTs (ofTys ts) = some (ofTys ts)
  | [] => by rfl
  | t :: ts => by
    have h1 := decode_ofTy t
    have h2 := decode_ofTys ts
    unfold decodeT at h1
    unfold decodeTs at h2 ⊢
    rw [ofTys, convTs, h1, h2]
end

mutual
theorem toTy_ofTy : ∀ t, toTy (ofTy t) = some t
  | .null => by rfl
  | .int => by rfl
  | .float => by rfl
  | .bool => by rfl
  | .str => by rfl
  | .time => by rfl
  | .dur => by rfl
  | .any => by rfl
  | .listNil => by rfl
  | .list e => by simp [ofTy, toTy, toTy_ofTy e]
  | .struct ns ts => by simp [ofTy, toTy, toTys_ofTys ts]
  | .tuple ts => by simp [ofTy, toTy, toTys_ofTys ts]
  | .union ts => by simp [ofTy, toTy, toTys_ofTys ts]
theorem toTys_ofTys : ∀ ts, toTys (ofTys ts) = some ts
  | [] => by rfl
  | t :: ts => by simp [ofTys, toTys, toTy_ofTy t, toTys_ofTys ts]
end

theorem tripTy_eq (t : Ty) : tripTy t = some t := by
  simp [tripTy, encode_ofTy t, decode_ofTy t, toTy_ofTy]

/-! ### schema fields, variable contexts -/

theorem encodeFields_ofTys (ns : List Name) (ts : List Ty) : encodeFields ⟨ns, ofTys ts⟩ = some ⟨ns, ofTys ts⟩ := by
  simp [encodeFields, encode_ofTys]
theorem decodeFields_ofTys (ns : List Name) (ts : List Ty) : decodeFields ⟨ns, ofTys ts⟩ = some ⟨ns, ofTys ts⟩ := by
  simp [decodeFields, decode_ofTys]


theorem decodePhysCtxRev_ok : ∀ (fs out : List (Fields RT)), (∀ f ∈ fs, decodeFields f = some f) →
    decodePhysCtxRev fs out = some (fs.reverse ++ out)
  | [], out, _ => by simp [decodePhysCtxRev]
  | f :: fs, out, h => by
    simp only [decodePhysCtxRev, h f (by simp)]
    rw [decodePhysCtxRev_ok fs (f :: out) (fun g hg => h g (List.mem_cons_of_mem _ hg))]
    simp

theorem encodePhysCtx_ok : ∀ (fs : List (Fields RT)), (∀ f ∈ fs, encodeFields f = some f) → encodePhysCtx fs = some fs
  | [], _ => by simp [encodePhysCtx]
  | f :: fs, h => by
    simp [encodePhysCtx, h f (by simp), encodePhysCtx_ok fs (fun g hg => h g (List.mem_cons_of_mem _ hg))]

/-- the frames of a physical variable context as the Go structs hold them -/
def physFrames (frames : List (List Name × List Ty)) : List (Fields RT) := frames.map fun f => ⟨f.1, ofTys f.2⟩


def framesDursOk : List (List Value) → Prop
  | [] => True
  | f :: fs => dursOk f ∧ framesDursOk fs

theorem encodeExecCtx_ok : ∀ (fs : List (List Value)), encodeExecCtx (fs.map ofValues) = some (fs.map encPs)
  | [] => by simp [encodeExecCtx]
  | f :: fs => by simp [encodeExecCtx, encode_ofValues f, encodeExecCtx_ok fs]

theorem decodeExecCtxRev_ok : ∀ (fs : List (List Value)) (out : List (List GV)), (∀ f ∈ fs, dursOk f) →
    decodeExecCtxRev (fs.map encPs) out = some ((fs.map fun f => ofValues (normLocs f)).reverse ++ out)
  | [], out, _ => by simp [decodeExecCtxRev]
  | f :: fs, out, h => by
    simp only [List.map_cons, decodeExecCtxRev, decode_encPs f (h f (by simp))]
    rw [decodeExecCtxRev_ok fs _ (fun g hg => h g (List.mem_cons_of_mem _ hg))]
    simp

theorem framesDursOk_mem : ∀ (fs : List (List Value)), framesDursOk fs → ∀ f ∈ fs, dursOk f
  | [], _, f, hf => by simp at hf
  | g :: fs, h, f, hf => by
    simp only [framesDursOk] at h
    rcases List.mem_cons.mp hf with rfl | hf
    · exact h.1
    · exact framesDursOk_mem fs h.2 f hf


end Octo.Wire
