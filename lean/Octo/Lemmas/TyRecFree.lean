import Octo.Lemmas.TyWf
import Octo.Lemmas.TyTypeOf
/-! A declarative sufficient condition for ShapeCompatible: types without structs and tuples
    (scalars, lists, unions of those — most SQL column types) are always shape compatible. -/
namespace Octo
namespace Ty

mutual
/-- no struct and no tuple anywhere inside -/
def noRec : Ty → Bool
  | .list e => noRec e
  | .struct _ _ => false
  | .tuple _ => false
  | .union alts => noRecList alts
  | .null | .int | .float | .bool | .str | .time | .dur | .listNil | .any => true
def noRecList : List Ty → Bool
  | [] => true
  | t :: ts => noRec t && noRecList ts
end

theorem noRecList_iff : ∀ (l : List Ty), noRecList l = true ↔ ∀ a ∈ l, noRec a = true
  | [] => by simp [noRecList]
  | a :: as => by simp [noRecList, noRecList_iff as]

def RecFreeFor (f : Ty → Ty → Option Ty) (ok : Ty → Ty → Bool) : Prop :=
  ∀ x y s, f x y = some s → noRec x = true → noRec y = true → ok x y = true ∧ noRec s = true

theorem foldOk_recFree {f : Ty → Ty → Option Ty} {ok : Ty → Ty → Bool} (hf : RecFreeFor f ok) :
    ∀ (alts : List Ty) (out c : Ty), optFoldl f out alts = some c → noRec out = true → (∀ a ∈ alts, noRec a = true) →
      foldOk f ok out alts = true ∧ noRec c = true
  | [], out, c, hc, ho, _ => by
    simp only [optFoldl, Option.some.injEq] at hc; subst hc; exact ⟨rfl, ho⟩
  | a :: as, out, c, hc, ho, ha => by
    simp only [optFoldl] at hc
    cases hs : f out a with
    | none => simp [hs] at hc
    | some out' =>
      simp only [hs] at hc
      have ⟨h1, h2⟩ := hf out a out' hs ho (ha a (by simp))
      have ⟨h3, h4⟩ := foldOk_recFree hf as out' c hc h2 (fun b hb => ha b (by simp [hb]))
      exact ⟨by simp [foldOk, h1, hs, h3], h4⟩

theorem recFree_step {f : Ty → Ty → Option Ty} {ok : Ty → Ty → Bool} (hf : RecFreeFor f ok) :
    RecFreeFor (typeSumStep f) (shapeOkStep f ok) := by
  intro a b c hc na nb
  unfold typeSumStep at hc
  unfold shapeOkStep
  by_cases h1 : a.is b = .is
  · rw [if_pos h1] at hc ⊢; cases hc; exact ⟨rfl, nb⟩
  rw [if_neg h1] at hc ⊢
  by_cases h2 : b.is a = .is
  · rw [if_pos h2] at hc ⊢; cases hc; exact ⟨rfl, na⟩
  rw [if_neg h2] at hc ⊢
  split at hc
  · simp [noRec] at na
  · cases hc; exact ⟨rfl, na⟩
  · cases hc; exact ⟨rfl, nb⟩
  · cases hc; exact ⟨rfl, na⟩
  · simp only [Option.map_eq_some_iff] at hc
    obtain ⟨s, hs, rfl⟩ := hc
    simp only [noRec] at na nb ⊢
    exact hf _ _ s hs na nb
  · simp [noRec] at na
  · rename_i alts1 alts2
    simp only [noRec] at nb
    exact foldOk_recFree hf alts2 _ c hc na ((noRecList_iff _).mp nb)
  · exact hf _ _ c hc nb na
  · rename_i alts _
    simp only [noRec] at na
    have na' := (noRecList_iff _).mp na
    split at hc
    · rename_i hany
      simp only [Option.map_eq_some_iff] at hc
      obtain ⟨alts', hm, rfl⟩ := hc
      obtain ⟨a1, r1, hfind, hg1, _⟩ := find_of_mergeFirst _ _ _ hm hany
      obtain ⟨pre, a0, post, r, e1, _, e3, e4⟩ := mergeFirst_split _ _ _ hm hany
      have m1 : a1 ∈ alts := List.mem_of_find?_eq_some hfind
      refine ⟨by simp only [hfind]; exact (hf a1 b r1 hg1 (na' a1 m1) nb).1, ?_⟩
      simp only [noRec]
      rw [noRecList_iff]
      intro x hx
      rw [e4] at hx
      simp only [List.mem_append, List.mem_cons] at hx
      rcases hx with hx | rfl | hx
      · exact na' x (by rw [e1]; simp [hx])
      · exact (hf a0 b x e3 (na' a0 (by rw [e1]; simp)) nb).2
      · exact na' x (by rw [e1]; simp [hx])
    · rename_i hany
      cases hc
      have hnone : alts.find? (fun x => decide (x.id = b.id)) = none := by
        rw [List.find?_eq_none]
        intro x hx hid
        exact hany (List.any_eq_true.mpr ⟨x, hx, hid⟩)
      refine ⟨by simp only [hnone], ?_⟩
      simp only [noRec]
      rw [noRecList_iff]
      intro x hx
      rw [mem_sortById, List.mem_append] at hx
      rcases hx with hx | hx
      · exact na' x hx
      · simp only [List.mem_singleton] at hx; subst hx; exact nb
  · cases hc
    refine ⟨by simp only, ?_⟩
    simp only [noRec]
    rw [noRecList_iff]
    intro x hx
    rw [mem_sortById] at hx
    simp only [List.mem_cons, List.not_mem_nil, or_false] at hx
    rcases hx with rfl | rfl
    · exact na
    · exact nb

theorem recFree_F : ∀ (n : Nat), RecFreeFor (typeSumF n) (shapeOkF n)
  | 0 => by intro a b c h; simp [typeSumF] at h
  | n + 1 => by
    intro a b c hc
    simp only [typeSumF] at hc
    simp only [shapeOkF]
    exact recFree_step (recFree_F n) a b c hc

end Ty
end Octo

namespace Octo
open Ty

mutual
/-- no struct and no tuple value anywhere inside -/
def Value.noRecV : Value → Bool
  | .list xs => Value.noRecVList xs
  | .struct _ => false
  | .tuple _ => false
  | _ => true
def Value.noRecVList : List Value → Bool
  | [] => true
  | x :: xs => Value.noRecV x && Value.noRecVList xs
end

theorem recFree_typeSum : RecFreeFor typeSum shapeOk := fun a b c hc => recFree_F (sumFuel a b) a b c hc

theorem typeOfMany_recFree : ∀ (xs : List Value) (ts : List Ty),
    (∀ x ∈ xs, x.noRecV = true → ∀ t, x.typeOf = some t → x.typeOfShapeOk = true ∧ noRec t = true) →
    Value.noRecVList xs = true → Value.typeOfMany xs = some ts →
    Value.typeOfShapeOkMany xs = true ∧ ∀ t ∈ ts, noRec t = true
  | [], ts, _, _, h => by
    simp only [Value.typeOfMany, Option.some.injEq] at h; subst h; simp [Value.typeOfShapeOkMany]
  | x :: xs, ts, ih, hn, h => by
    simp only [Value.typeOfMany] at h
    simp only [Value.noRecVList, Bool.and_eq_true] at hn
    cases hx : x.typeOf with
    | none => simp [hx] at h
    | some t =>
      cases hxs : Value.typeOfMany xs with
      | none => simp [hx, hxs] at h
      | some ts' =>
        simp only [hx, hxs, Option.some.injEq] at h
        subst h
        have ⟨h1, h2⟩ := ih x (by simp) hn.1 t hx
        have ⟨h3, h4⟩ := typeOfMany_recFree xs ts' (fun y hy => ih y (by simp [hy])) hn.2 hxs
        refine ⟨by simp [Value.typeOfShapeOkMany, h1, h3], ?_⟩
        intro t' ht'
        cases ht' with
        | head => exact h2
        | tail _ ht' => exact h4 t' ht'

theorem typeOf_recFree_aux : ∀ (n : Nat) (v : Value), v.size ≤ n → v.noRecV = true →
    ∀ t, v.typeOf = some t → v.typeOfShapeOk = true ∧ noRec t = true := by
  intro n
  induction n with
  | zero => intro v h; cases v <;> simp [Value.size] at h
  | succ n ih =>
    intro v hn hv t ht
    cases v with
    | list xs =>
      simp only [Value.typeOf] at ht
      simp only [Value.noRecV] at hv
      cases hm : Value.typeOfMany xs with
      | none => simp [hm] at ht
      | some ts =>
        simp only [hm] at ht
        have ⟨h1, h2⟩ := typeOfMany_recFree xs ts (fun x hx => ih x (by
          have := Value.size_le_sizeList hx; simp only [Value.size] at hn; omega)) hv hm
        simp only [Value.typeOfShapeOk, h1, hm, Bool.true_and]
        cases ts with
        | nil =>
          simp only [elemFold, Option.some.injEq] at ht
          subst ht
          simp [noRec]
        | cons t0 ts =>
          simp only [elemFold, Option.map_eq_some_iff] at ht
          obtain ⟨e, he, rfl⟩ := ht
          have ⟨h3, h4⟩ := foldOk_recFree recFree_typeSum ts t0 e he (h2 t0 (by simp))
            (fun a ha => h2 a (by simp [ha]))
          exact ⟨h3, by simpa [noRec] using h4⟩
    | struct xs => simp [Value.noRecV] at hv
    | tuple xs => simp [Value.noRecV] at hv
    | _ =>
      simp only [Value.typeOf, Option.some.injEq] at ht
      subst ht
      simp [Value.typeOfShapeOk, noRec]

end Octo
