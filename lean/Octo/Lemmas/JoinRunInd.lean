import Octo.Lemmas.JoinRun
/-!
  The induction over an arbitrary schedule: for every interleaving of the two inputs' events, if
  the node does not panic, its output is the specification of the complete inputs, and (for
  fresh inputs) every forwarded watermark comes after an output prefix that is the specification
  of the inputs up to it.
-/
namespace Octo.Join
open Octo

variable {cfg : Cfg} {W : List Rec → List Rec → Row → Int}

/-! ### schedules -/
theorem evsOf_nil (left : Bool) : evsOf left [] = [{ left := left, msg := none }] := rfl
theorem evsOf_cons (left : Bool) (m : Msg) (ms : List Msg) :
    evsOf left (m :: ms) = { left := left, msg := some m } :: evsOf left ms := rfl

theorem merge_nil_inv {α : Type} {a b : List α} (h : Merge a b []) : a = [] ∧ b = [] := by
  cases h; exact ⟨rfl, rfl⟩

theorem merge_cons_inv {α : Type} {a b σ : List α} {e : α} (h : Merge a b (e :: σ)) :
    (∃ a', a = e :: a' ∧ Merge a' b σ) ∨ (∃ b', b = e :: b' ∧ Merge a b' σ) := by
  cases h with
  | left h' => exact Or.inl ⟨_, rfl, h'⟩
  | right h' => exact Or.inr ⟨_, rfl, h'⟩

theorem merge_nil_left {α : Type} {b σ : List α} (h : Merge [] b σ) : σ = b := by
  induction σ generalizing b with
  | nil => exact (merge_nil_inv h).2.symm
  | cons e σ ih =>
    rcases merge_cons_inv h with ⟨a', ha, _⟩ | ⟨b', hb, h'⟩
    · cases ha
    · subst hb; rw [ih h']

theorem merge_nil_right {α : Type} {a σ : List α} (h : Merge a [] σ) : σ = a := by
  induction σ generalizing a with
  | nil => exact (merge_nil_inv h).1.symm
  | cons e σ ih =>
    rcases merge_cons_inv h with ⟨a', ha, h'⟩ | ⟨b', hb, _⟩
    · subst ha; rw [ih h']
    · cases hb

/-- which tree is given up in a phase -/
def dropOf : Phase → Option Bool
  | .one leftDone true => some (!leftDone)
  | _ => none

/-- the remaining events of the two inputs in a phase -/
def PhaseEv : Phase → List Ev → List Ev → List Msg → List Msg → Prop
  | .both, el, er, restL, restR => el = evsOf true restL ∧ er = evsOf false restR
  | .one true _, el, er, restL, restR => el = [] ∧ restL = [] ∧ er = evsOf false restR
  | .one false _, el, er, restL, restR => er = [] ∧ restR = [] ∧ el = evsOf true restL
  | .done, _, _, _, _ => False

def PhaseD (cfg : Cfg) : Phase → Prop
  | .one _ true => cfg.outer = false
  | _ => True

/-- the time half of the invariant (only under the freshness hypotheses) -/
def TimeInv (W : List Rec → List Rec → Row → Int) (ls rs : List Rec) (s : St) (ph : Phase) (RL RR : List Rec)
    (restL restR : List Msg) : Prop :=
  wmOK W ls rs [] s.out ∧
  match ph with
  | .both => Timely s (.at s.minW) RL RR ∧ after s.minW s.lw = false ∧ after s.minW s.rw = false ∧
      Fresh s.lw restL ∧ Fresh s.rw restR
  | .one leftDone _ => ∃ B : T, Timely s (.at B) RL RR ∧ Fresh B (if leftDone then restR else restL)
  | .done => True

theorem timely_add_left {s s' : St} {bd : Bound} {RL RR : List Rec} {x : Rec} {t : Int} (ht : Timely s bd RL RR)
    (hL : s'.bufL = Buf.add t x s.bufL) (hR : s'.bufR = s.bufR) (hx : x.et = some t) (hlate : lateB bd x = true) :
    Timely s' bd (RL ++ [x]) RR := by
  refine ⟨?_, by rw [hR]; exact ht.lateR, by rw [hL]; exact bufOK_add hx ht.okL, by rw [hR]; exact ht.okR⟩
  rw [hL, List.filter_append]
  have : [x].filter (lateB bd) = [x] := by simp [hlate]
  rw [this]
  exact (bufAll_add t x s.bufL).trans (List.Perm.append_right [x] ht.lateL)

theorem timely_add_right {s s' : St} {bd : Bound} {RL RR : List Rec} {x : Rec} {t : Int} (ht : Timely s bd RL RR)
    (hR : s'.bufR = Buf.add t x s.bufR) (hL : s'.bufL = s.bufL) (hx : x.et = some t) (hlate : lateB bd x = true) :
    Timely s' bd RL (RR ++ [x]) := by
  refine ⟨by rw [hL]; exact ht.lateL, ?_, by rw [hL]; exact ht.okL, by rw [hR]; exact bufOK_add hx ht.okR⟩
  rw [hR, List.filter_append]
  have : [x].filter (lateB bd) = [x] := by simp [hlate]
  rw [this]
  exact (bufAll_add t x s.bufR).trans (List.Perm.append_right [x] ht.lateR)

theorem wmOK_snoc_data {ls rs : List Rec} {o : List Msg} (em : List Rec) (h : wmOK W ls rs [] o) :
    wmOK W ls rs [] (o ++ dataMsgs em) :=
  (wmOK_append W ls rs o (dataMsgs em) []).mpr ⟨h, wmOK_data W ls rs em _⟩

theorem wmOK_snoc_wm {ls rs : List Rec} {o : List Msg} (em : List Rec) (m : Int) (h : wmOK W ls rs [] o)
    (hnet : ∀ row, net (recs (o ++ dataMsgs em)) row = W (upTo m ls) (upTo m rs) row) :
    wmOK W ls rs [] (o ++ dataMsgs em ++ [Msg.wm m]) := by
  refine (wmOK_append W ls rs (o ++ dataMsgs em) [Msg.wm m] []).mpr ⟨wmOK_snoc_data em h, ?_⟩
  simp only [List.nil_append, wmOK, and_true]
  exact hnet

theorem after_some_of_after {e : T} {c : T} (h : after e c = true) : ∃ t, e = some t := by
  cases e with
  | none => simp [after] at h
  | some t => exact ⟨t, rfl⟩

theorem dropOf_one (ld osr : Bool) {drop' : Option Bool} (h1 : osr = drop'.isSome)
    (h2 : drop' = none ∨ drop' = some (!ld)) : dropOf (.one ld osr) = drop' := by
  rcases h2 with h | h <;> subst h <;> simp at h1 <;> subst h1 <;> rfl

theorem dropOf_cases (ld osr : Bool) : dropOf (.one ld osr) = none ∨ dropOf (.one ld osr) = some (!ld) := by
  cases osr
  · left; rfl
  · right; rfl

theorem dropOf_isSome (ld osr : Bool) : (dropOf (.one ld osr)).isSome = osr := by
  cases osr <;> rfl

theorem phaseD_of {ld osr : Bool} {drop' : Option Bool} (h1 : osr = drop'.isSome)
    (h2 : drop'.isSome = true → cfg.outer = false) : PhaseD cfg (.one ld osr) := by
  cases osr with
  | false => trivial
  | true => exact h2 h1.symm

theorem phaseD_drop {ld osr : Bool} (h : PhaseD cfg (.one ld osr)) : (dropOf (.one ld osr)).isSome = true → cfg.outer = false := by
  cases osr with
  | false => intro h'; cases h'
  | true => intro _; exact h

/-- the statement proved by induction on the schedule -/
def Goal (cfg : Cfg) (W : List Rec → List Rec → Row → Int) (F : Prop) (ls rs : List Rec) (σ : List Ev) : Prop :=
  ∀ (s : St) (ph : Phase) (el er : List Ev) (restL restR : List Msg) (RL RR PL PR : List Rec) (out : List Msg),
    Merge el er σ → PhaseEv ph el er restL restR →
    ls = RL ++ recs restL → rs = RR ++ recs restR →
    Inv cfg W s (dropOf ph) RL RR PL PR → PhaseD cfg ph →
    (F → TimeInv W ls rs s ph RL RR restL restR) →
    runFrom cfg s ph σ = .ok out →
    (∀ row, net (recs out) row = W ls rs row) ∧ (F → wmOK W ls rs [] out)

theorem evsOf_ne_nil (left : Bool) (ms : List Msg) : evsOf left ms ≠ [] := by
  cases ms <;> simp [evsOf]

section steps
variable (ok : RecvOK cfg W) (hsw : cfg.switchOsr = false) (F : Prop) (ls rs : List Rec)
  (hshL : ∀ x ∈ ls, Shape cfg true x) (hshR : ∀ x ∈ rs, Shape cfg false x)
include ok hsw hshL hshR

theorem both_left_step {σ : List Ev} (IH : Goal cfg W F ls rs σ)
    {s : St} {el' er : List Ev} {restL restR : List Msg} {RL RR PL PR : List Rec} {out : List Msg} {e : Ev}
    (hm : Merge el' er σ) (hel : evsOf true restL = e :: el') (her : er = evsOf false restR)
    (hls : ls = RL ++ recs restL) (hrs : rs = RR ++ recs restR)
    (hi : Inv cfg W s none RL RR PL PR) (hT : F → TimeInv W ls rs s .both RL RR restL restR)
    (hrun : runFrom cfg s .both (e :: σ) = .ok out) :
    (∀ row, net (recs out) row = W ls rs row) ∧ (F → wmOK W ls rs [] out) := by
  have hRL : ∀ x ∈ RL, Shape cfg true x := fun x hx => hshL x (by rw [hls]; simp [hx])
  have hRR : ∀ x ∈ RR, Shape cfg false x := fun x hx => hshR x (by rw [hrs]; simp [hx])
  cases restL with
  | nil =>
    rw [evsOf_nil] at hel
    have h1 := (List.cons.inj hel).1
    have h2 := (List.cons.inj hel).2
    subst h1; subst h2
    simp only [runFrom] at hrun
    cases hoc : onFirstClose cfg s true with
    | error o => rw [hoc] at hrun; simp at hrun
    | ok p =>
      obtain ⟨s', osr⟩ := p
      rw [hoc] at hrun
      simp only at hrun
      obtain ⟨PL', PR', drop', hi', _, _, hosr, hdr, hdo, b1, b2, em, hout⟩ := onFirstClose_step ok hsw hi hRL hRR hoc
      simp only [if_true] at b1 b2
      refine IH s' (.one true osr) [] er [] restR RL RR PL' PR' out hm ⟨rfl, rfl, her⟩ hls hrs
        (by rw [dropOf_one true osr hosr hdr]; exact hi') (phaseD_of hosr hdo) (fun hF => ?_) hrun
      obtain ⟨hw, ht, hlw, hrw, hfl, hfr⟩ := hT hF
      exact ⟨by rw [hout]; exact wmOK_snoc_data em hw, s.rw, timely_advance ht (late_mono hrw) b1 b2, hfr⟩
  | cons m restL' =>
    rw [evsOf_cons] at hel
    have h1 := (List.cons.inj hel).1
    have h2 := (List.cons.inj hel).2
    subst h1; subst h2
    cases m with
    | data r =>
      simp only [runFrom] at hrun
      cases hoc : onRec cfg s true r false with
      | error o => rw [hoc] at hrun; simp at hrun
      | ok s' =>
        rw [hoc] at hrun
        simp only at hrun
        have hsh : Shape cfg true r := hshL r (by rw [hls]; simp [recs])
        obtain ⟨PL', hi', ⟨em, hout⟩, flw, frw, fmin, fbufR, fbufL, _⟩ :=
          onRec_left ok (drop := none) (by simp) (by simp) hi hsh hoc
        refine IH s' .both (evsOf true restL') er restL' restR (RL ++ [r]) RR PL' PR out hm ⟨rfl, her⟩
          (by rw [hls]; simp [recs]) hrs hi' trivial (fun hF => ?_) hrun
        obtain ⟨hw, ht, hlw, hrw, hfl, hfr⟩ := hT hF
        obtain ⟨t, het⟩ := after_some_of_after hfl.1
        refine ⟨by rw [hout]; exact wmOK_snoc_data em hw, ?_, by rw [fmin, flw]; exact hlw, by rw [fmin, frw]; exact hrw,
          by rw [flw]; exact hfl.2, by rw [frw]; exact hfr⟩
        rw [fmin]
        refine timely_add_left ht (fbufL t het).1 fbufR het ?_
        rw [lateB_at]; exact after_of_after_of_not_after hfl.1 hlw
    | wm w =>
      simp only [runFrom] at hrun
      cases hoc : onWm cfg s true w with
      | error o => rw [hoc] at hrun; simp at hrun
      | ok s' =>
        rw [hoc] at hrun
        simp only at hrun
        obtain ⟨PL', PR', hi', _, _, hlw', hrw', hcase⟩ := onWm_step ok hi hRL hRR hoc
        simp only [if_true] at hlw' hrw'
        have hls' : ls = RL ++ recs restL' := by rw [hls]; simp [recs]
        refine IH s' .both (evsOf true restL') er restL' restR RL RR PL' PR' out hm ⟨rfl, her⟩
          hls' hrs hi' trivial (fun hF => ?_) hrun
        obtain ⟨hw, ht, hlw, hrw, hfl, hfr⟩ := hT hF
        have hlw2 : after s.minW (some w) = false := not_after_trans hlw hfl.1
        rcases hcase with ⟨c1, c2, c3, c4, _⟩ | ⟨m, em, hm', hadv, c1, c2, c3, c4⟩
        · exact ⟨by rw [c4]; exact hw, by rw [c1]; exact timely_congr ht c2 c3, by rw [c1, hlw']; exact hlw2,
            by rw [c1, hrw']; exact hrw, by rw [hlw']; exact hfl.2, by rw [hrw']; exact hfr⟩
        · have hm1 : after (some m) s'.lw = false := by rw [← hm']; exact minT_le_left _ _
          have hm2 : after (some m) s'.rw = false := by rw [← hm']; exact minT_le_right _ _
          have ht' : Timely s' (.at (some m)) RL RR :=
            timely_advance ht (late_mono (not_after_of_after hadv)) c2 c3
          refine ⟨?_, by rw [c1]; exact ht', by rw [c1]; exact hm1, by rw [c1]; exact hm2,
            by rw [hlw']; exact hfl.2, by rw [hrw']; exact hfr⟩
          rw [c4]
          refine wmOK_snoc_wm em m hw (fun row => ?_)
          have hc := hi'.core.out row
          rw [c4, recs_snoc_wm] at hc
          rw [hc, hls', hrs]
          exact spec_upTo ok hi' ht' (fresh_late hfl.2 (by rw [← hlw']; exact hm1))
            (fresh_late hfr (by rw [← hrw']; exact hm2)) row

theorem both_right_step {σ : List Ev} (IH : Goal cfg W F ls rs σ)
    {s : St} {el er' : List Ev} {restL restR : List Msg} {RL RR PL PR : List Rec} {out : List Msg} {e : Ev}
    (hm : Merge el er' σ) (hel : el = evsOf true restL) (her : evsOf false restR = e :: er')
    (hls : ls = RL ++ recs restL) (hrs : rs = RR ++ recs restR)
    (hi : Inv cfg W s none RL RR PL PR) (hT : F → TimeInv W ls rs s .both RL RR restL restR)
    (hrun : runFrom cfg s .both (e :: σ) = .ok out) :
    (∀ row, net (recs out) row = W ls rs row) ∧ (F → wmOK W ls rs [] out) := by
  have hRL : ∀ x ∈ RL, Shape cfg true x := fun x hx => hshL x (by rw [hls]; simp [hx])
  have hRR : ∀ x ∈ RR, Shape cfg false x := fun x hx => hshR x (by rw [hrs]; simp [hx])
  cases restR with
  | nil =>
    rw [evsOf_nil] at her
    have h1 := (List.cons.inj her).1
    have h2 := (List.cons.inj her).2
    subst h1; subst h2
    simp only [runFrom] at hrun
    cases hoc : onFirstClose cfg s false with
    | error o => rw [hoc] at hrun; simp at hrun
    | ok p =>
      obtain ⟨s', osr⟩ := p
      rw [hoc] at hrun
      simp only at hrun
      obtain ⟨PL', PR', drop', hi', _, _, hosr, hdr, hdo, b1, b2, em, hout⟩ := onFirstClose_step ok hsw hi hRL hRR hoc
      simp only [Bool.false_eq_true, if_false] at b1 b2
      refine IH s' (.one false osr) el [] restL [] RL RR PL' PR' out hm ⟨rfl, rfl, hel⟩ hls hrs
        (by rw [dropOf_one false osr hosr hdr]; exact hi') (phaseD_of hosr hdo) (fun hF => ?_) hrun
      obtain ⟨hw, ht, hlw, hrw, hfl, hfr⟩ := hT hF
      exact ⟨by rw [hout]; exact wmOK_snoc_data em hw, s.lw, timely_advance ht (late_mono hlw) b1 b2, hfl⟩
  | cons m restR' =>
    rw [evsOf_cons] at her
    have h1 := (List.cons.inj her).1
    have h2 := (List.cons.inj her).2
    subst h1; subst h2
    cases m with
    | data r =>
      simp only [runFrom] at hrun
      cases hoc : onRec cfg s false r false with
      | error o => rw [hoc] at hrun; simp at hrun
      | ok s' =>
        rw [hoc] at hrun
        simp only at hrun
        have hsh : Shape cfg false r := hshR r (by rw [hrs]; simp [recs])
        obtain ⟨PR', hi', ⟨em, hout⟩, flw, frw, fmin, fbufL, fbufR, _⟩ :=
          onRec_right ok (drop := none) (by simp) (by simp) hi hsh hoc
        refine IH s' .both el (evsOf false restR') restL restR' RL (RR ++ [r]) PL PR' out hm ⟨hel, rfl⟩
          hls (by rw [hrs]; simp [recs]) hi' trivial (fun hF => ?_) hrun
        obtain ⟨hw, ht, hlw, hrw, hfl, hfr⟩ := hT hF
        obtain ⟨t, het⟩ := after_some_of_after hfr.1
        refine ⟨by rw [hout]; exact wmOK_snoc_data em hw, ?_, by rw [fmin, flw]; exact hlw, by rw [fmin, frw]; exact hrw,
          by rw [flw]; exact hfl, by rw [frw]; exact hfr.2⟩
        rw [fmin]
        refine timely_add_right ht (fbufR t het).1 fbufL het ?_
        rw [lateB_at]; exact after_of_after_of_not_after hfr.1 hrw
    | wm w =>
      simp only [runFrom] at hrun
      cases hoc : onWm cfg s false w with
      | error o => rw [hoc] at hrun; simp at hrun
      | ok s' =>
        rw [hoc] at hrun
        simp only at hrun
        obtain ⟨PL', PR', hi', _, _, hlw', hrw', hcase⟩ := onWm_step ok hi hRL hRR hoc
        simp only [Bool.false_eq_true, if_false] at hlw' hrw'
        have hrs' : rs = RR ++ recs restR' := by rw [hrs]; simp [recs]
        refine IH s' .both el (evsOf false restR') restL restR' RL RR PL' PR' out hm ⟨hel, rfl⟩
          hls hrs' hi' trivial (fun hF => ?_) hrun
        obtain ⟨hw, ht, hlw, hrw, hfl, hfr⟩ := hT hF
        have hrw2 : after s.minW (some w) = false := not_after_trans hrw hfr.1
        rcases hcase with ⟨c1, c2, c3, c4, _⟩ | ⟨m, em, hm', hadv, c1, c2, c3, c4⟩
        · exact ⟨by rw [c4]; exact hw, by rw [c1]; exact timely_congr ht c2 c3, by rw [c1, hlw']; exact hlw,
            by rw [c1, hrw']; exact hrw2, by rw [hlw']; exact hfl, by rw [hrw']; exact hfr.2⟩
        · have hm1 : after (some m) s'.lw = false := by rw [← hm']; exact minT_le_left _ _
          have hm2 : after (some m) s'.rw = false := by rw [← hm']; exact minT_le_right _ _
          have ht' : Timely s' (.at (some m)) RL RR :=
            timely_advance ht (late_mono (not_after_of_after hadv)) c2 c3
          refine ⟨?_, by rw [c1]; exact ht', by rw [c1]; exact hm1, by rw [c1]; exact hm2,
            by rw [hlw']; exact hfl, by rw [hrw']; exact hfr.2⟩
          rw [c4]
          refine wmOK_snoc_wm em m hw (fun row => ?_)
          have hc := hi'.core.out row
          rw [c4, recs_snoc_wm] at hc
          rw [hc, hls, hrs']
          exact spec_upTo ok hi' ht' (fresh_late hfl (by rw [← hlw']; exact hm1))
            (fresh_late hfr.2 (by rw [← hrw']; exact hm2)) row

theorem one_right_step {σ : List Ev} (IH : Goal cfg W F ls rs σ)
    {s : St} {osr : Bool} {er' : List Ev} {restR : List Msg} {RL RR PL PR : List Rec} {out : List Msg} {e : Ev}
    (hm : Merge [] er' σ) (her : evsOf false restR = e :: er')
    (hls : ls = RL ++ recs []) (hrs : rs = RR ++ recs restR)
    (hi : Inv cfg W s (dropOf (.one true osr)) RL RR PL PR) (hD : PhaseD cfg (.one true osr))
    (hT : F → TimeInv W ls rs s (.one true osr) RL RR [] restR)
    (hrun : runFrom cfg s (.one true osr) (e :: σ) = .ok out) :
    (∀ row, net (recs out) row = W ls rs row) ∧ (F → wmOK W ls rs [] out) := by
  have hRL : ∀ x ∈ RL, Shape cfg true x := fun x hx => hshL x (by rw [hls]; simp [hx])
  have hRR : ∀ x ∈ RR, Shape cfg false x := fun x hx => hshR x (by rw [hrs]; simp [hx])
  have hd := phaseD_drop hD
  have hopen : dropOf (.one true osr) ≠ some true := by cases osr <;> simp [dropOf]
  cases restR with
  | nil =>
    rw [evsOf_nil] at her
    have h1 := (List.cons.inj her).1
    have h2 := (List.cons.inj her).2
    subst h1; subst h2
    have hσ : σ = [] := merge_nil_left hm
    subst hσ
    simp only [runFrom, Bool.false_eq_true, beq_iff_eq, if_false] at hrun
    cases hoc : onSecondClose cfg s osr with
    | error o => rw [hoc] at hrun; simp at hrun
    | ok s' =>
      rw [hoc] at hrun
      simp only [runFrom] at hrun
      have hout := (Outcome.ok.inj hrun).symm
      subst hout
      rw [← dropOf_isSome true osr] at hoc
      obtain ⟨hfin, em, hout⟩ := onSecondClose_step ok hd hi hRL hRR hoc
      refine ⟨fun row => ?_, fun hF => ?_⟩
      · rw [hfin row, hls, hrs]; simp [recs]
      · rw [hout]; exact wmOK_snoc_data em (hT hF).1
  | cons m restR' =>
    rw [evsOf_cons] at her
    have h1 := (List.cons.inj her).1
    have h2 := (List.cons.inj her).2
    subst h1; subst h2
    cases m with
    | data r =>
      simp only [runFrom, Bool.false_eq_true, beq_iff_eq, if_false] at hrun
      cases hoc : onRec cfg s false r osr with
      | error o => rw [hoc] at hrun; simp at hrun
      | ok s' =>
        rw [hoc] at hrun
        simp only at hrun
        have hsh : Shape cfg false r := hshR r (by rw [hrs]; simp [recs])
        rw [← dropOf_isSome true osr] at hoc
        obtain ⟨PR', hi', ⟨em, hout⟩, flw, frw, fmin, fbufL, fbufR, _⟩ := onRec_right ok hd hopen hi hsh hoc
        refine IH s' (.one true osr) [] (evsOf false restR') [] restR' RL (RR ++ [r]) PL PR' out hm ⟨rfl, rfl, rfl⟩
          hls (by rw [hrs]; simp [recs]) hi' hD (fun hF => ?_) hrun
        obtain ⟨hw, B, ht, hfr⟩ := hT hF
        simp only [if_true] at hfr
        obtain ⟨t, het⟩ := after_some_of_after hfr.1
        refine ⟨by rw [hout]; exact wmOK_snoc_data em hw, B, ?_, by simpa using hfr.2⟩
        refine timely_add_right ht (fbufR t het).1 fbufL het ?_
        rw [lateB_at]; exact hfr.1
    | wm w =>
      simp only [runFrom, Bool.false_eq_true, beq_iff_eq, if_false] at hrun
      cases hoc : onWmOne cfg s true osr w with
      | error o => rw [hoc] at hrun; simp at hrun
      | ok p =>
        obtain ⟨s', osr'⟩ := p
        rw [hoc] at hrun
        simp only at hrun
        rw [← dropOf_isSome true osr] at hoc
        obtain ⟨PL', PR', drop', hi', _, _, hosr, hdr, hdo, b1, b2, em, hout⟩ :=
          onWmOne_step ok (dropOf_cases true osr) hd hi hRL hRR hoc
        have hrs' : rs = RR ++ recs restR' := by rw [hrs]; simp [recs]
        refine IH s' (.one true osr') [] (evsOf false restR') [] restR' RL RR PL' PR' out hm ⟨rfl, rfl, rfl⟩
          hls hrs' (by rw [dropOf_one true osr' hosr hdr]; exact hi') (phaseD_of hosr hdo) (fun hF => ?_) hrun
        obtain ⟨hw, B, ht, hfr⟩ := hT hF
        simp only [if_true] at hfr
        have ht' : Timely s' (.at (some w)) RL RR := timely_advance ht (late_mono hfr.1) b1 b2
        refine ⟨?_, some w, ht', by simpa using hfr.2⟩
        rw [hout]
        refine wmOK_snoc_wm em w hw (fun row => ?_)
        have hc := hi'.core.out row
        rw [hout, recs_snoc_wm] at hc
        rw [hc, hls, hrs']
        exact spec_upTo ok hi' ht' (by intro x hx; simp [recs] at hx)
          (fresh_late hfr.2 (after_irrefl _)) row

theorem one_left_step {σ : List Ev} (IH : Goal cfg W F ls rs σ)
    {s : St} {osr : Bool} {el' : List Ev} {restL : List Msg} {RL RR PL PR : List Rec} {out : List Msg} {e : Ev}
    (hm : Merge el' [] σ) (hel : evsOf true restL = e :: el')
    (hls : ls = RL ++ recs restL) (hrs : rs = RR ++ recs [])
    (hi : Inv cfg W s (dropOf (.one false osr)) RL RR PL PR) (hD : PhaseD cfg (.one false osr))
    (hT : F → TimeInv W ls rs s (.one false osr) RL RR restL [])
    (hrun : runFrom cfg s (.one false osr) (e :: σ) = .ok out) :
    (∀ row, net (recs out) row = W ls rs row) ∧ (F → wmOK W ls rs [] out) := by
  have hRL : ∀ x ∈ RL, Shape cfg true x := fun x hx => hshL x (by rw [hls]; simp [hx])
  have hRR : ∀ x ∈ RR, Shape cfg false x := fun x hx => hshR x (by rw [hrs]; simp [hx])
  have hd := phaseD_drop hD
  have hopen : dropOf (.one false osr) ≠ some false := by cases osr <;> simp [dropOf]
  cases restL with
  | nil =>
    rw [evsOf_nil] at hel
    have h1 := (List.cons.inj hel).1
    have h2 := (List.cons.inj hel).2
    subst h1; subst h2
    have hσ : σ = [] := merge_nil_right hm
    subst hσ
    simp only [runFrom, beq_iff_eq, if_false] at hrun
    cases hoc : onSecondClose cfg s osr with
    | error o => rw [hoc] at hrun; simp at hrun
    | ok s' =>
      rw [hoc] at hrun
      simp only [runFrom] at hrun
      have hout := (Outcome.ok.inj hrun).symm
      subst hout
      rw [← dropOf_isSome false osr] at hoc
      obtain ⟨hfin, em, hout⟩ := onSecondClose_step ok hd hi hRL hRR hoc
      refine ⟨fun row => ?_, fun hF => ?_⟩
      · rw [hfin row, hls, hrs]; simp [recs]
      · rw [hout]; exact wmOK_snoc_data em (hT hF).1
  | cons m restL' =>
    rw [evsOf_cons] at hel
    have h1 := (List.cons.inj hel).1
    have h2 := (List.cons.inj hel).2
    subst h1; subst h2
    cases m with
    | data r =>
      simp only [runFrom, beq_iff_eq, if_false] at hrun
      cases hoc : onRec cfg s true r osr with
      | error o => rw [hoc] at hrun; simp at hrun
      | ok s' =>
        rw [hoc] at hrun
        simp only at hrun
        have hsh : Shape cfg true r := hshL r (by rw [hls]; simp [recs])
        rw [← dropOf_isSome false osr] at hoc
        obtain ⟨PL', hi', ⟨em, hout⟩, flw, frw, fmin, fbufR, fbufL, _⟩ := onRec_left ok hd hopen hi hsh hoc
        refine IH s' (.one false osr) (evsOf true restL') [] restL' [] (RL ++ [r]) RR PL' PR out hm ⟨rfl, rfl, rfl⟩
          (by rw [hls]; simp [recs]) hrs hi' hD (fun hF => ?_) hrun
        obtain ⟨hw, B, ht, hfl⟩ := hT hF
        simp only [Bool.false_eq_true, if_false] at hfl
        obtain ⟨t, het⟩ := after_some_of_after hfl.1
        refine ⟨by rw [hout]; exact wmOK_snoc_data em hw, B, ?_, by simpa using hfl.2⟩
        refine timely_add_left ht (fbufL t het).1 fbufR het ?_
        rw [lateB_at]; exact hfl.1
    | wm w =>
      simp only [runFrom, beq_iff_eq, if_false] at hrun
      cases hoc : onWmOne cfg s false osr w with
      | error o => rw [hoc] at hrun; simp at hrun
      | ok p =>
        obtain ⟨s', osr'⟩ := p
        rw [hoc] at hrun
        simp only at hrun
        rw [← dropOf_isSome false osr] at hoc
        obtain ⟨PL', PR', drop', hi', _, _, hosr, hdr, hdo, b1, b2, em, hout⟩ :=
          onWmOne_step ok (dropOf_cases false osr) hd hi hRL hRR hoc
        have hls' : ls = RL ++ recs restL' := by rw [hls]; simp [recs]
        refine IH s' (.one false osr') (evsOf true restL') [] restL' [] RL RR PL' PR' out hm ⟨rfl, rfl, rfl⟩
          hls' hrs (by rw [dropOf_one false osr' hosr hdr]; exact hi') (phaseD_of hosr hdo) (fun hF => ?_) hrun
        obtain ⟨hw, B, ht, hfl⟩ := hT hF
        simp only [Bool.false_eq_true, if_false] at hfl
        have ht' : Timely s' (.at (some w)) RL RR := timely_advance ht (late_mono hfl.1) b1 b2
        refine ⟨?_, some w, ht', by simpa using hfl.2⟩
        rw [hout]
        refine wmOK_snoc_wm em w hw (fun row => ?_)
        have hc := hi'.core.out row
        rw [hout, recs_snoc_wm] at hc
        rw [hc, hls', hrs]
        exact spec_upTo ok hi' ht' (fresh_late hfl.2 (after_irrefl _))
          (by intro x hx; simp [recs] at hx) row

/-- the induction over the schedule -/
theorem goal_all : ∀ σ : List Ev, Goal cfg W F ls rs σ
  | [] => by
    intro s ph el er restL restR RL RR PL PR out hm hph _ _ _ _ _ _
    obtain ⟨h1, h2⟩ := merge_nil_inv hm
    cases ph with
    | both => exact absurd (hph.1 ▸ h1) (evsOf_ne_nil _ _)
    | one ld osr =>
      cases ld with
      | true => exact absurd (hph.2.2 ▸ h2) (evsOf_ne_nil _ _)
      | false => exact absurd (hph.2.2 ▸ h1) (evsOf_ne_nil _ _)
    | done => exact absurd hph id
  | e :: σ => by
    have IH := goal_all σ
    intro s ph el er restL restR RL RR PL PR out hm hph hls hrs hi hD hT hrun
    cases ph with
    | both =>
      obtain ⟨hel, her⟩ := hph
      rcases merge_cons_inv hm with ⟨el', h1, hm'⟩ | ⟨er', h1, hm'⟩
      · exact both_left_step ok hsw F ls rs hshL hshR IH hm' (hel ▸ h1) her hls hrs hi hT hrun
      · exact both_right_step ok hsw F ls rs hshL hshR IH hm' hel (her ▸ h1) hls hrs hi hT hrun
    | one ld osr =>
      cases ld with
      | true =>
        obtain ⟨hel, hrl, her⟩ := hph
        subst hel; subst hrl
        rcases merge_cons_inv hm with ⟨el', h1, _⟩ | ⟨er', h1, hm'⟩
        · cases h1
        · exact one_right_step ok hsw F ls rs hshL hshR IH hm' (her ▸ h1) hls hrs hi hD hT hrun
      | false =>
        obtain ⟨her, hrr, hel⟩ := hph
        subst her; subst hrr
        rcases merge_cons_inv hm with ⟨el', h1, hm'⟩ | ⟨er', h1, _⟩
        · exact one_left_step ok hsw F ls rs hshL hshR IH hm' (hel ▸ h1) hls hrs hi hD hT hrun
        · cases h1
    | done => exact absurd hph id

end steps

end Octo.Join
