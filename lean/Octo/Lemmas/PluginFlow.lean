import Octo.Model.PluginFlow
/-! Lemmas for C26: nothing is lost in the predicate bookkeeping between executor and plugin. -/
namespace Octo.Wire

theorem count_filter_split (p : Pred → Bool) (l : List Pred) (a : Pred) :
    (l.filter p).count a + (l.filter (fun x => !p x)).count a = l.count a := by
  have h := List.Perm.count_eq (List.filter_append_perm p l) a
  simpa [List.count_append] using h

/-- if the implementation returns everything it was given (as rejected or pushed down), so does the plugin side … -/
theorem serverPushDown_perm (impl : PushImpl)
    (himpl : ∀ a b, ((impl a b).1 ++ (impl a b).2.1).Perm (a ++ b)) (newPreds pushed : List Pred) :
    ((serverPushDown impl newPreds pushed).1 ++ (serverPushDown impl newPreds pushed).2.1).Perm (newPreds ++ pushed) := by
  rw [List.perm_iff_count]
  intro a
  have h1 := List.Perm.count_eq (himpl (newPreds.filter (·.known)) pushed) a
  have h2 := count_filter_split (·.known) newPreds a
  simp only [serverPushDown, List.count_append] at *
  omega

/-- … and so does the octosql side -/
theorem clientPushDown_perm (impl : PushImpl)
    (himpl : ∀ a b, ((impl a b).1 ++ (impl a b).2.1).Perm (a ++ b)) (newPreds pushed : List Pred) :
    ((clientPushDown impl newPreds pushed).1 ++ (clientPushDown impl newPreds pushed).2.1).Perm (newPreds ++ pushed) := by
  rw [List.perm_iff_count]
  intro a
  have h1 := List.Perm.count_eq (serverPushDown_perm impl himpl (newPreds.filter (fun p => !p.hasSubquery)) pushed) a
  have h2 := count_filter_split (·.hasSubquery) newPreds a
  simp only [clientPushDown, List.count_append] at *
  omega

end Octo.Wire
