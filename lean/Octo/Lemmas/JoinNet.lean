import Octo.Lemmas.JoinRecv
/-!
  Consolidated ("net") reasoning for compositions of operators (C02, query level).

  * `wsum_sameNet`: two changelogs with the same net content give the same weighted sum for every row
    function that does not distinguish equivalent rows — the tool that lets a theorem about one node
    ("output ≃ spec of the actual input changelogs") be composed with the theorems about the nodes below it
    ("input changelog ≃ the relation it stands for");
  * row-wise operators (`rowOp`: Filter, Map, dropping columns) respect net equality;
  * a generic nested-loop join `gjoin` / outer join `gouter` over an arbitrary match predicate respects net
    equality of both inputs, and on retraction-free inputs it is the list-level relational join.
-/
namespace Octo.Join
open Octo

/-- same consolidated content -/
def NetEq (a b : List Rec) : Prop := ∀ row, net a row = net b row

theorem NetEq.refl (a : List Rec) : NetEq a a := fun _ => rfl
theorem NetEq.symm {a b : List Rec} (h : NetEq a b) : NetEq b a := fun row => (h row).symm
theorem NetEq.trans {a b c : List Rec} (h1 : NetEq a b) (h2 : NetEq b c) : NetEq a c := fun row => (h1 row).trans (h2 row)
theorem NetEq.append {a b c d : List Rec} (h1 : NetEq a b) (h2 : NetEq c d) : NetEq (a ++ c) (b ++ d) := by
  intro row; rw [net_append, net_append, h1 row, h2 row]

theorem sgn_eq (r : Rec) : sgn r = if r.retr then -1 else 1 := rfl

theorem weight_sgn (r : Rec) (row : Row) : r.weight row = if rowEq r.vals row then sgn r else 0 := rfl

/-! ### the class-sum lemma -/

/-- the records whose row is not in the class of `d` -/
def offClass (d : Row) (A : List Rec) : List Rec := A.filter fun r => !rowEq r.vals d

theorem offClass_length_le (d : Row) (A : List Rec) : (offClass d A).length ≤ A.length := List.length_filter_le _ _

theorem offClass_cons_self_length (r : Rec) (A : List Rec) : (offClass r.vals (r :: A)).length ≤ A.length := by
  unfold offClass
  rw [List.filter_cons]
  simp only [rowEq_refl, Bool.not_true, Bool.false_eq_true, ↓reduceIte]
  exact List.length_filter_le _ _

theorem net_offClass (d : Row) (A : List Rec) (row : Row) :
    net (offClass d A) row = if rowEq d row then 0 else net A row := by
  induction A with
  | nil => simp [offClass, net]
  | cons r A ih =>
    unfold offClass at *
    rw [List.filter_cons]
    by_cases hrd : rowEq r.vals d = true
    · simp only [hrd, Bool.not_true, Bool.false_eq_true, ↓reduceIte]
      rw [ih, net_cons, weight_sgn]
      have : rowEq r.vals row = rowEq d row := rowEq_congr_left (rowEq_iff.mp hrd) row
      rw [this]
      by_cases h : rowEq d row = true
      · simp [h]
      · simp [h]
    · simp only [hrd, Bool.not_false, ↓reduceIte]
      rw [net_cons, ih, net_cons, weight_sgn]
      by_cases h : rowEq d row = true
      · have h2 : rowEq r.vals row = false := by
          cases hh : rowEq r.vals row with
          | false => rfl
          | true =>
            exfalso; apply hrd
            have e1 := rowEq_iff.mp hh
            have e2 := rowEq_iff.mp h
            exact rowEq_iff.mpr (cmpList_eq_trans e1 (cmpList_eq_symm e2))
        simp [h, h2]
      · simp [h]

theorem wsum_class_split (g : Row → Int) (hg : Congr g) (d : Row) (A : List Rec) :
    wsum (fun r => sgn r * g r.vals) A = g d * net A d + wsum (fun r => sgn r * g r.vals) (offClass d A) := by
  induction A with
  | nil => simp [offClass, net, wsum]
  | cons r A ih =>
    unfold offClass at *
    rw [wsum_cons, ih, net_cons, weight_sgn, List.filter_cons]
    by_cases hrd : rowEq r.vals d = true
    · simp only [hrd, Bool.not_true, Bool.false_eq_true, ↓reduceIte]
      rw [hg r.vals d (rowEq_iff.mp hrd), Int.mul_add, Int.mul_comm (g d) (sgn r)]
      omega
    · simp only [Bool.not_eq_true] at hrd
      simp only [hrd, Bool.not_false, ↓reduceIte, wsum_cons, Bool.false_eq_true, Int.zero_add]
      omega

theorem wsum_sameNet_aux (g : Row → Int) (hg : Congr g) : ∀ n (A B : List Rec), A.length + B.length ≤ n → NetEq A B →
    wsum (fun r => sgn r * g r.vals) A = wsum (fun r => sgn r * g r.vals) B
  | 0, A, B, hn, _ => by
    have ha : A = [] := List.eq_nil_of_length_eq_zero (by omega)
    have hb : B = [] := List.eq_nil_of_length_eq_zero (by omega)
    rw [ha, hb]
  | n + 1, A, B, hn, h => by
    have step : ∀ d : Row, (offClass d A).length + (offClass d B).length ≤ n →
        wsum (fun r => sgn r * g r.vals) A = wsum (fun r => sgn r * g r.vals) B := by
      intro d hl
      rw [wsum_class_split g hg d A, wsum_class_split g hg d B, h d]
      congr 1
      apply wsum_sameNet_aux g hg n _ _ hl
      intro row
      rw [net_offClass, net_offClass, h row]
    match A, B with
    | [], [] => rfl
    | a :: A', B' =>
      apply step a.vals
      have h1 := offClass_cons_self_length a A'
      have h2 := offClass_length_le a.vals B'
      simp only [List.length_cons] at hn
      omega
    | [], b :: B' =>
      apply step b.vals
      have h1 := offClass_cons_self_length b B'
      have h2 := offClass_length_le b.vals ([] : List Rec)
      simp only [List.length_cons] at hn
      omega

/-- **class-sum lemma**: net-equal changelogs have equal weighted sums -/
theorem wsum_sameNet {A B : List Rec} (h : NetEq A B) (g : Row → Int) (hg : Congr g) :
    wsum (fun r => sgn r * g r.vals) A = wsum (fun r => sgn r * g r.vals) B :=
  wsum_sameNet_aux g hg _ A B (Nat.le_refl _) h

/-! ### row-wise operators -/

/-- apply a partial row function to every record (Filter: keep or drop; Map; dropping columns) -/
def rowOp (h : Row → Option Row) (A : List Rec) : List Rec :=
  A.filterMap fun r => (h r.vals).map fun v => { r with vals := v }

/-- `h` does not distinguish equivalent rows -/
def OpCongr (h : Row → Option Row) : Prop :=
  ∀ a b, cmpList a b = 0 →
    match h a, h b with
    | none, none => True
    | some x, some y => cmpList x y = 0
    | _, _ => False

def opInd (h : Row → Option Row) (row : Row) (v : Row) : Int :=
  match h v with
  | none => 0
  | some w => if rowEq w row then 1 else 0

theorem congr_opInd {h : Row → Option Row} (hh : OpCongr h) (row : Row) : Congr (opInd h row) := by
  intro a b hab
  have := hh a b hab
  unfold opInd
  cases ha : h a with
  | none =>
    cases hb : h b with
    | none => rfl
    | some y => simp only [ha, hb] at this
  | some x =>
    cases hb : h b with
    | none => simp only [ha, hb] at this
    | some y =>
      simp only [ha, hb] at this
      simp only [rowEq_congr_left this row]

theorem net_rowOp (h : Row → Option Row) (A : List Rec) (row : Row) :
    net (rowOp h A) row = wsum (fun r => sgn r * opInd h row r.vals) A := by
  induction A with
  | nil => rfl
  | cons r A ih =>
    unfold rowOp at *
    rw [List.filterMap_cons, wsum_cons, ← ih]
    unfold opInd
    cases hr : h r.vals with
    | none => simp
    | some w =>
      simp only [Option.map_some, net_cons, weight_eq, sgn_eq]
      cases rowEq w row <;> cases r.retr <;> simp

theorem rowOp_netEq {h : Row → Option Row} (hh : OpCongr h) {A B : List Rec} (hab : NetEq A B) :
    NetEq (rowOp h A) (rowOp h B) := by
  intro row
  rw [net_rowOp, net_rowOp]
  exact wsum_sameNet hab _ (congr_opInd hh row)

/-! ### a generic join -/

/-- `m` does not distinguish equivalent rows -/
def MCongr (m : Row → Row → Bool) : Prop :=
  ∀ a a' b b', cmpList a a' = 0 → cmpList b b' = 0 → m a b = m a' b'

def gjoin (m : Row → Row → Bool) (L R : List Rec) : List Rec :=
  L.flatMap fun l => (R.filter fun r => m l.vals r.vals).map fun r => pairRec l r

/-- signed number of records of `R` that match the left row `a` -/
def gpartL (m : Row → Row → Bool) (a : Row) (R : List Rec) : Int :=
  wsum (fun r => if m a r.vals then sgn r else 0) R
def gpartR (m : Row → Row → Bool) (L : List Rec) (b : Row) : Int :=
  wsum (fun l => if m l.vals b then sgn l else 0) L

def gpadL (m : Row → Row → Bool) (nR : Nat) (L R : List Rec) : List Rec :=
  (L.filter fun l => gpartL m l.vals R == 0).map fun l => { l with vals := l.vals ++ nulls nR }
def gpadR (m : Row → Row → Bool) (nL : Nat) (L R : List Rec) : List Rec :=
  (R.filter fun r => gpartR m L r.vals == 0).map fun r => { r with vals := nulls nL ++ r.vals }

def gouter (m : Row → Row → Bool) (oL oR : Bool) (nL nR : Nat) (L R : List Rec) : List Rec :=
  gjoin m L R ++ (if oL then gpadL m nR L R else []) ++ (if oR then gpadR m nL L R else [])

def gpairInd (m : Row → Row → Bool) (row : Row) (a b : Row) : Int :=
  if m a b && rowEq (a ++ b) row then 1 else 0

theorem net_gjoin (m : Row → Row → Bool) (L R : List Rec) (row : Row) :
    net (gjoin m L R) row = wsum (fun l => sgn l * wsum (fun r => sgn r * gpairInd m row l.vals r.vals) R) L := by
  unfold gjoin
  induction L with
  | nil => rfl
  | cons l L ih =>
    rw [List.flatMap_cons, net_append, ih, wsum_cons, net_map_filter]
    congr 1
    rw [← wsum_mul_left]
    apply wsum_congr
    intro r _
    unfold gpairInd pairRec
    rw [weight_eq, sgn_eq, sgn_eq]
    cases m l.vals r.vals <;> cases l.retr <;> cases r.retr <;> cases rowEq (l.vals ++ r.vals) row <;> simp

theorem congr_gpairInd_right {m : Row → Row → Bool} (hm : MCongr m) (row a : Row) : Congr (gpairInd m row a) := by
  intro b b' hb
  unfold gpairInd
  rw [hm a a b b' (cmpList_refl a) hb, rowEq_congr_left (cmpList_append_eq b b' (cmpList_refl a) hb) row]

theorem congr_gjoin_inner {m : Row → Row → Bool} (hm : MCongr m) (row : Row) (R : List Rec) :
    Congr (fun a => wsum (fun r => sgn r * gpairInd m row a r.vals) R) := by
  intro a a' ha
  apply wsum_congr
  intro r _
  unfold gpairInd
  rw [hm a a' r.vals r.vals ha (cmpList_refl _),
    rowEq_congr_left (cmpList_append_eq r.vals r.vals ha (cmpList_refl _)) row]

theorem gjoin_netEq {m : Row → Row → Bool} (hm : MCongr m) {L L' R R' : List Rec} (hL : NetEq L L') (hR : NetEq R R') :
    NetEq (gjoin m L R) (gjoin m L' R') := by
  intro row
  rw [net_gjoin, net_gjoin]
  rw [wsum_sameNet hL _ (congr_gjoin_inner hm row R)]
  apply wsum_congr
  intro l _
  rw [wsum_sameNet hR _ (congr_gpairInd_right hm row l.vals)]

theorem gpartL_netEq {m : Row → Row → Bool} (hm : MCongr m) (a : Row) {R R' : List Rec} (hR : NetEq R R') :
    gpartL m a R = gpartL m a R' := by
  unfold gpartL
  have e : ∀ X : List Rec, wsum (fun r => if m a r.vals then sgn r else 0) X =
      wsum (fun r => sgn r * (if m a r.vals then 1 else 0)) X := by
    intro X; apply wsum_congr; intro r _; cases m a r.vals <;> simp
  rw [e, e]
  refine wsum_sameNet hR (fun b => if m a b then 1 else 0) ?_
  intro b b' hb
  show (if m a b then (1:Int) else 0) = (if m a b' then 1 else 0)
  rw [hm a a b b' (cmpList_refl a) hb]

theorem gpartR_netEq {m : Row → Row → Bool} (hm : MCongr m) (b : Row) {L L' : List Rec} (hL : NetEq L L') :
    gpartR m L b = gpartR m L' b := by
  unfold gpartR
  have e : ∀ X : List Rec, wsum (fun l => if m l.vals b then sgn l else 0) X =
      wsum (fun l => sgn l * (if m l.vals b then 1 else 0)) X := by
    intro X; apply wsum_congr; intro r _; cases m r.vals b <;> simp
  rw [e, e]
  refine wsum_sameNet hL (fun a => if m a b then 1 else 0) ?_
  intro a a' ha
  show (if m a b then (1:Int) else 0) = (if m a' b then 1 else 0)
  rw [hm a a' b b ha (cmpList_refl b)]

theorem gpartL_congr {m : Row → Row → Bool} (hm : MCongr m) {a a' : Row} (ha : cmpList a a' = 0) (R : List Rec) :
    gpartL m a R = gpartL m a' R := by
  unfold gpartL; apply wsum_congr; intro r _; rw [hm a a' r.vals r.vals ha (cmpList_refl _)]

theorem gpartR_congr {m : Row → Row → Bool} (hm : MCongr m) (L : List Rec) {b b' : Row} (hb : cmpList b b' = 0) :
    gpartR m L b = gpartR m L b' := by
  unfold gpartR; apply wsum_congr; intro l _; rw [hm l.vals l.vals b b' (cmpList_refl _) hb]

theorem gpadL_eq_rowOp (m : Row → Row → Bool) (nR : Nat) (L R : List Rec) :
    gpadL m nR L R = rowOp (fun a => if gpartL m a R == 0 then some (a ++ nulls nR) else none) L := by
  unfold gpadL rowOp
  induction L with
  | nil => rfl
  | cons l L ih =>
    rw [List.filter_cons, List.filterMap_cons]
    by_cases h : (gpartL m l.vals R == 0) = true
    · simp only [h, ↓reduceIte, List.map_cons, Option.map_some, ih]
    · simp only [h, Bool.false_eq_true, ↓reduceIte, Option.map_none, ih]

theorem gpadR_eq_rowOp (m : Row → Row → Bool) (nL : Nat) (L R : List Rec) :
    gpadR m nL L R = rowOp (fun b => if gpartR m L b == 0 then some (nulls nL ++ b) else none) R := by
  unfold gpadR rowOp
  induction R with
  | nil => rfl
  | cons r R ih =>
    rw [List.filter_cons, List.filterMap_cons]
    by_cases h : (gpartR m L r.vals == 0) = true
    · simp only [h, ↓reduceIte, List.map_cons, Option.map_some, ih]
    · simp only [h, Bool.false_eq_true, ↓reduceIte, Option.map_none, ih]

theorem gpadL_netEq {m : Row → Row → Bool} (hm : MCongr m) (nR : Nat) {L L' R R' : List Rec}
    (hL : NetEq L L') (hR : NetEq R R') : NetEq (gpadL m nR L R) (gpadL m nR L' R') := by
  rw [gpadL_eq_rowOp, gpadL_eq_rowOp]
  have e : (fun a => if gpartL m a R == 0 then some (a ++ nulls nR) else none) =
      (fun a => if gpartL m a R' == 0 then some (a ++ nulls nR) else none) := by
    funext a; rw [gpartL_netEq hm a hR]
  rw [e]
  apply rowOp_netEq _ hL
  intro a b hab
  show match (if (gpartL m a R' == 0) = true then some (a ++ nulls nR) else none),
      (if (gpartL m b R' == 0) = true then some (b ++ nulls nR) else none) with
    | none, none => True
    | some x, some y => cmpList x y = 0
    | _, _ => False
  rw [gpartL_congr hm hab R']
  by_cases h : (gpartL m b R' == 0) = true
  · simp only [h, ↓reduceIte]; exact cmpList_append_eq _ _ hab (cmpList_refl _)
  · simp only [h, Bool.false_eq_true, ↓reduceIte]

theorem gpadR_netEq {m : Row → Row → Bool} (hm : MCongr m) (nL : Nat) {L L' R R' : List Rec}
    (hL : NetEq L L') (hR : NetEq R R') : NetEq (gpadR m nL L R) (gpadR m nL L' R') := by
  rw [gpadR_eq_rowOp, gpadR_eq_rowOp]
  have e : (fun b => if gpartR m L b == 0 then some (nulls nL ++ b) else none) =
      (fun b => if gpartR m L' b == 0 then some (nulls nL ++ b) else none) := by
    funext b; rw [gpartR_netEq hm b hL]
  rw [e]
  apply rowOp_netEq _ hR
  intro a b hab
  show match (if (gpartR m L' a == 0) = true then some (nulls nL ++ a) else none),
      (if (gpartR m L' b == 0) = true then some (nulls nL ++ b) else none) with
    | none, none => True
    | some x, some y => cmpList x y = 0
    | _, _ => False
  rw [gpartR_congr hm L' hab]
  by_cases h : (gpartR m L' b == 0) = true
  · simp only [h, ↓reduceIte]; exact cmpList_append_eq _ _ (cmpList_refl _) hab
  · simp only [h, Bool.false_eq_true, ↓reduceIte]

theorem gouter_netEq {m : Row → Row → Bool} (hm : MCongr m) (oL oR : Bool) (nL nR : Nat) {L L' R R' : List Rec}
    (hL : NetEq L L') (hR : NetEq R R') : NetEq (gouter m oL oR nL nR L R) (gouter m oL oR nL nR L' R') := by
  unfold gouter
  apply NetEq.append
  · apply NetEq.append (gjoin_netEq hm hL hR)
    cases oL
    · exact NetEq.refl _
    · exact gpadL_netEq hm nR hL hR
  · cases oR
    · exact NetEq.refl _
    · exact gpadR_netEq hm nL hL hR

end Octo.Join
