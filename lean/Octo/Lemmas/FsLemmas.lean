import Octo.Model.Fs
/-!
  What each primitive file-system step does to `get`, and what `children`/`readDir` return in terms of `get`.
  Everything the crash-safety proofs (C27) need about the file-system model is here, phrased through `get` only.
-/
namespace Octo.Fs

theorem isPre_iff {p q : Path} : isPre p q = true ↔ ∃ t, q = p ++ t := by
  simp only [isPre, List.isPrefixOf_iff_prefix]
  constructor
  · rintro ⟨t, rfl⟩; exact ⟨t, rfl⟩
  · rintro ⟨t, rfl⟩; exact ⟨t, rfl⟩

theorem isPre_refl (p : Path) : isPre p p = true := isPre_iff.2 ⟨[], by simp⟩

theorem isPre_append (p t : Path) : isPre p (p ++ t) = true := isPre_iff.2 ⟨t, rfl⟩

theorem isPre_trans {p q r : Path} (h1 : isPre p q = true) (h2 : isPre q r = true) : isPre p r = true := by
  obtain ⟨t, rfl⟩ := isPre_iff.1 h1
  obtain ⟨u, rfl⟩ := isPre_iff.1 h2
  exact isPre_iff.2 ⟨t ++ u, by simp⟩

/-! ### get -/

theorem get_cons (q : Path) (n : Node) (fs : Fs) (p : Path) :
    get ((q, n) :: fs) p = if q = p then some n else get fs p := rfl

theorem get_set (p : Path) (n : Node) (fs : Fs) (q : Path) :
    get (set p n fs) q = if p = q then some n else get fs q := rfl

theorem get_filter (k : Path → Bool) (fs : Fs) (q : Path) :
    get (fs.filter (fun e => k e.1)) q = if k q = true then get fs q else none := by
  induction fs with
  | nil => simp [get]
  | cons e rest ih =>
    obtain ⟨p, n⟩ := e
    simp only [List.filter_cons]
    by_cases hk : k p = true
    · simp only [hk, if_true, get_cons]
      by_cases hpq : p = q
      · subst hpq; simp [hk]
      · simp [hpq, ih]
    · simp only [hk, get_cons]
      by_cases hpq : p = q
      · subst hpq; simp [hk, ih]
      · simp [hpq, ih]

theorem get_erase (p : Path) (fs : Fs) (q : Path) : get (erase p fs) q = if q = p then none else get fs q := by
  have := get_filter (fun x => !decide (x = p)) fs q
  simp only [erase]
  rw [this]
  by_cases h : q = p <;> simp [h]

theorem get_removeAll (p : Path) (fs : Fs) (q : Path) :
    get (removeAll p fs) q = if isPre p q = true then none else get fs q := by
  have := get_filter (fun x => !isPre p x) fs q
  simp only [removeAll]
  rw [this]
  by_cases h : isPre p q = true <;> simp [h]

theorem get_isSome_iff {fs : Fs} {q : Path} : (get fs q).isSome = true ↔ ∃ e ∈ fs, e.1 = q := by
  induction fs with
  | nil => simp [get]
  | cons e rest ih =>
    obtain ⟨p, n⟩ := e
    simp only [get_cons]
    by_cases hpq : p = q
    · subst hpq; simp
    · simp only [hpq, if_false, ih, List.mem_cons]
      constructor
      · rintro ⟨e, he, rfl⟩; exact ⟨e, Or.inr he, rfl⟩
      · rintro ⟨e, he | he, h⟩
        · subst he; exact absurd h hpq
        · exact ⟨e, he, h⟩

theorem get_eq_none_iff {fs : Fs} {q : Path} : get fs q = none ↔ ∀ e ∈ fs, e.1 ≠ q := by
  have := @get_isSome_iff fs q
  cases h : get fs q with
  | none =>
    simp only [h, Option.isSome_none, Bool.false_eq_true, false_iff, not_exists, not_and] at this
    simpa using this
  | some n =>
    simp only [h, Option.isSome_some, true_iff] at this
    obtain ⟨e, he, hq⟩ := this
    simp only [reduceCtorEq, false_iff]
    intro hall
    exact hall e he hq

/-! ### rename of a subtree -/

theorem reroot_fst_of_pre {a b : Path} {e : Path × Node} (h : isPre a e.1 = true) :
    (reroot a b e).1 = b ++ e.1.drop a.length := by simp [reroot, h]

theorem reroot_of_not_pre {a b : Path} {e : Path × Node} (h : isPre a e.1 = false) : reroot a b e = e := by
  simp [reroot, h]

/-- after moving the subtree at `a` to the free place `b` (neither below the other) -/
theorem get_map_reroot {a b : Path} {fs : Fs} (hab : isPre a b = false) (hba : isPre b a = false)
    (hfree : ∀ e ∈ fs, isPre b e.1 = false) (q : Path) :
    get (fs.map (reroot a b)) q =
      if isPre b q = true then get fs (a ++ q.drop b.length)
      else if isPre a q = true then none else get fs q := by
  induction fs with
  | nil => simp [get]
  | cons e rest ih =>
    have ih' := ih (fun e he => hfree e (List.mem_cons_of_mem _ he))
    have hfe := hfree e (by simp)
    obtain ⟨p, n⟩ := e
    by_cases hap : isPre a p = true
    · -- the entry moves
      obtain ⟨t, rfl⟩ := isPre_iff.1 hap
      have hr : reroot a b (a ++ t, n) = (b ++ t, n) := by simp [reroot, isPre_append]
      rw [List.map_cons, hr]
      simp only [get_cons]
      rw [ih']
      by_cases hbq : isPre b q = true
      · obtain ⟨u, rfl⟩ := isPre_iff.1 hbq
        simp only [isPre_append, if_true, List.drop_left]
        by_cases htu : t = u
        · subst htu; simp
        · have h1 : ¬ (b ++ t = b ++ u) := by simpa using htu
          have h2 : ¬ (a ++ t = a ++ u) := by simpa using htu
          simp [h1, h2]
      · have hne : ¬ (b ++ t = q) := by
          intro h; subst h; simp [isPre_append] at hbq
        simp only [hne, if_false, hbq]
        by_cases haq : isPre a q = true
        · simp [haq]
        · have : ¬ (a ++ t = q) := by intro h; subst h; simp [isPre_append] at haq
          simp [haq, this]
    · -- the entry stays
      have hap' : isPre a p = false := by simpa using hap
      rw [List.map_cons, reroot_of_not_pre (by simpa using hap')]
      simp only [get_cons]
      rw [ih']
      by_cases hbq : isPre b q = true
      · obtain ⟨u, rfl⟩ := isPre_iff.1 hbq
        have h1 : ¬ (p = b ++ u) := by intro h; subst h; simp [isPre_append] at hfe
        have h2 : ¬ (p = a ++ u) := by
          intro h; subst h; simp [isPre_append] at hap'
        simp [h1, h2, isPre_append]
      · simp only [hbq, if_false]
        by_cases hpq : p = q
        · subst hpq; simp [hap']
        · simp [hpq]

/-! ### children / readDir -/

theorem mem_sinsert {x y : FName} {l : List FName} : y ∈ sinsert x l ↔ y = x ∨ y ∈ l := by
  induction l with
  | nil => simp [sinsert]
  | cons z zs ih =>
    simp only [sinsert]
    split
    · next h => subst h; simp
    · split
      · simp
      · simp only [List.mem_cons, ih]
        constructor
        · rintro (h | h | h) <;> simp [h]
        · rintro (h | h | h) <;> simp [h]

theorem mem_foldr_sinsert {y : FName} {l : List FName} : y ∈ l.foldr sinsert [] ↔ y ∈ l := by
  induction l with
  | nil => simp
  | cons z zs ih => simp [mem_sinsert, ih]

theorem childName?_eq_some {p q : Path} {x : FName} : childName? p q = some x ↔ q = p ++ [x] := by
  simp only [childName?]
  constructor
  · intro h
    split at h
    · next hp =>
      obtain ⟨t, rfl⟩ := isPre_iff.1 hp
      simp only [List.drop_left] at h
      match t, h with
      | [y], h => simp at h; subst h; rfl
    · cases h
  · rintro rfl
    simp [isPre_append]

theorem mem_children {fs : Fs} {p : Path} {x : FName} : x ∈ children fs p ↔ (get fs (p ++ [x])).isSome = true := by
  simp only [children, mem_foldr_sinsert, List.mem_filterMap, get_isSome_iff, childName?_eq_some]

theorem readDir_ok_iff {fs : Fs} {p : Path} {ns : List FName} :
    readDir fs p = .ok ns ↔ get fs p = some .dir ∧ ns = children fs p := by
  simp only [readDir]
  split
  · simp_all
  · simp_all
  · next h => simp [h]; constructor <;> (intro h'; exact h'.symm)

theorem readDir_notExist_iff {fs : Fs} {p : Path} : readDir fs p = .error .notExist ↔ get fs p = none := by
  simp only [readDir]
  split <;> simp_all

/-! ### single steps: what changes -/

theorem get_mkdirFrom {pre rest : Path} {fs fs' : Fs} (h : mkdirFrom pre rest fs = .ok fs') (q : Path) :
    get fs' q = get fs q ∨ (get fs q = none ∧ get fs' q = some .dir ∧ isPre q (pre ++ rest) = true ∧ q ≠ []) := by
  induction rest generalizing pre fs with
  | nil => simp only [mkdirFrom] at h; cases h; exact Or.inl rfl
  | cons x rest ih =>
    simp only [mkdirFrom] at h
    have happ : pre ++ x :: rest = (pre ++ [x]) ++ rest := by simp
    split at h
    · cases h
    · rcases ih h with h' | h'
      · exact Or.inl h'
      · exact Or.inr (by rw [happ]; exact h')
    · next hnone =>
      rcases ih h with h' | ⟨h1, h2, h3, h4⟩
      · rw [h', get_set]
        by_cases hq : pre ++ [x] = q
        · subst hq
          refine Or.inr ⟨hnone, by simp, ?_, by simp⟩
          rw [happ]; exact isPre_append _ _
        · simp [hq]
      · rw [get_set] at h1
        by_cases hq : pre ++ [x] = q
        · simp [hq] at h1
        · simp only [hq, if_false] at h1
          exact Or.inr ⟨h1, h2, by rw [happ]; exact h3, h4⟩

theorem get_mkdirAll {p : Path} {fs fs' : Fs} (h : mkdirAll p fs = .ok fs') (q : Path) :
    get fs' q = get fs q ∨ (get fs q = none ∧ get fs' q = some .dir ∧ isPre q p = true ∧ q ≠ []) := by
  have := get_mkdirFrom (pre := []) h q
  simpa using this

theorem get_create {p : Path} {fs fs' : Fs} (h : create p fs = .ok fs') (q : Path) :
    get fs' q = if p = q then some (.file []) else get fs q := by
  simp only [create] at h
  split at h
  · cases h
  · split at h
    · cases h
    · cases h; rfl

theorem get_append {p : Path} {bs : Bytes} {fs fs' : Fs} (h : append p bs fs = .ok fs') (q : Path) :
    q ≠ p → get fs' q = get fs q := by
  intro hq
  simp only [append] at h
  split at h
  · cases h; rw [get_set]; simp [Ne.symm hq]
  · cases h
  · cases h

theorem get_append_self {p : Path} {bs : Bytes} {fs fs' : Fs} (h : append p bs fs = .ok fs') :
    ∃ c, get fs p = some (.file c) ∧ get fs' p = some (.file (c ++ bs)) := by
  simp only [append] at h
  split at h
  · next c hc => cases h; exact ⟨c, hc, by simp [get_set]⟩
  · cases h
  · cases h

theorem get_remove {p : Path} {fs fs' : Fs} (h : remove p fs = .ok fs') (q : Path) :
    get fs' q = if q = p then none else get fs q := by
  simp only [remove] at h
  split at h
  · cases h
  · cases h; exact get_erase p fs q
  · split at h
    · cases h
    · cases h; exact get_erase p fs q

/-- a successful rename: `b` (and below) now holds what `a` (and below) held; `a` is gone; nothing else moved.
    For a file only the two paths themselves are affected. -/
theorem get_rename {a b : Path} {fs fs' : Fs} (h : rename a b fs = .ok fs') (q : Path) :
    (isPre a q = false → isPre b q = false → get fs' q = get fs q) ∧
    (get fs a = some .dir → ∀ t, get fs' (b ++ t) = get fs (a ++ t)) ∧
    (∀ c, get fs a = some (.file c) → get fs' b = some (.file c)) := by
  simp only [rename] at h
  split at h
  · cases h
  · next hpre =>
    simp only [Bool.or_eq_true, not_or, Bool.not_eq_true] at hpre
    split at h
    · cases h
    · split at h
      · cases h
      · next c hc =>
        split at h
        · cases h
        · cases h
          refine ⟨?_, ?_, ?_⟩
          · intro haq hbq
            have h1 : ¬ (b = q) := by intro hh; subst hh; simp [isPre_refl] at hbq
            have h2 : ¬ (q = a) := by intro hh; subst hh; simp [isPre_refl] at haq
            simp [get_set, get_erase, h1, h2]
          · intro hd; rw [hc] at hd; cases hd
          · intro c' hc'; rw [hc] at hc'; cases hc'; simp [get_set]
      · next hd =>
        split at h
        · cases h
        · next hfree =>
          cases h
          have hfree' : ∀ e ∈ fs, isPre b e.1 = false := by
            intro e he
            cases hbe : isPre b e.1 with
            | false => rfl
            | true => exact absurd (List.any_eq_true.2 ⟨e, he, hbe⟩) hfree
          refine ⟨?_, ?_, ?_⟩
          · intro haq hbq
            rw [get_map_reroot hpre.1 hpre.2 hfree']
            simp [haq, hbq]
          · intro _ t
            rw [get_map_reroot hpre.1 hpre.2 hfree']
            simp [isPre_append]
          · intro c hc; rw [hd] at hc; cases hc

/-- after a successful rename nothing is left at or below `a` … for a directory; for a file `a` itself is gone -/
theorem get_rename_src {a b : Path} {fs fs' : Fs} (h : rename a b fs = .ok fs') : get fs' a = none := by
  simp only [rename] at h
  split at h
  · cases h
  · next hpre =>
    simp only [Bool.or_eq_true, not_or, Bool.not_eq_true] at hpre
    split at h
    · cases h
    · split at h
      · cases h
      · split at h
        · cases h
        · cases h
          have : ¬ (b = a) := by intro hh; subst hh; simp [isPre_refl] at hpre
          simp [get_set, get_erase, this]
      · split at h
        · cases h
        · next hfree =>
          cases h
          have hfree' : ∀ e ∈ fs, isPre b e.1 = false := by
            intro e he
            cases hbe : isPre b e.1 with
            | false => rfl
            | true => exact absurd (List.any_eq_true.2 ⟨e, he, hbe⟩) hfree
          rw [get_map_reroot hpre.1 hpre.2 hfree']
          simp [hpre.2, isPre_refl]

theorem rename_src_isSome {a b : Path} {fs fs' : Fs} (h : rename a b fs = .ok fs') : (get fs a).isSome = true := by
  simp only [rename] at h
  split at h
  · cases h
  · split at h
    · cases h
    · split at h
      · cases h
      · next c hc => simp [hc]
      · next hd => simp [hd]

theorem rename_dst_isSome {a b : Path} {fs fs' : Fs} (h : rename a b fs = .ok fs') : (get fs' b).isSome = true := by
  have hsrc := rename_src_isSome h
  obtain ⟨_, hdir, hfile⟩ := get_rename h b
  cases ha : get fs a with
  | none => simp [ha] at hsrc
  | some n =>
    cases n with
    | dir => have := hdir ha []; simp only [List.append_nil] at this; rw [this, ha]; rfl
    | file c => rw [hfile c ha]; rfl

/-- renaming a file touches exactly the two paths -/
theorem get_rename_file {a b : Path} {fs fs' : Fs} {c : Bytes} (h : rename a b fs = .ok fs')
    (ha : get fs a = some (.file c)) (q : Path) :
    get fs' q = if b = q then some (.file c) else if q = a then none else get fs q := by
  simp only [rename] at h
  split at h
  · cases h
  · split at h
    · cases h
    · rw [ha] at h
      simp only at h
      split at h
      · cases h
      · cases h
        simp [get_set, get_erase]

/-! ### runs -/

theorem run_nil (fs : Fs) : run [] fs = fs := rfl

theorem run_cons_ok {p : Prim} {ps : List Prim} {fs fs' : Fs} (h : p.apply fs = .ok fs') :
    run (p :: ps) fs = run ps fs' := by simp [run, h]

theorem run_cons_err {p : Prim} {ps : List Prim} {fs : Fs} {e : FsErr} (h : p.apply fs = .error e) :
    run (p :: ps) fs = fs := by simp [run, h]

/-- an invariant kept by every successful step holds after any run -/
theorem run_invariant {Inv : Fs → Prop} {ps : List Prim} {fs : Fs}
    (hstep : ∀ p ∈ ps, ∀ s s', Inv s → p.apply s = .ok s' → Inv s') (h0 : Inv fs) : Inv (run ps fs) := by
  induction ps generalizing fs with
  | nil => exact h0
  | cons p ps ih =>
    cases hp : p.apply fs with
    | error e => rw [run_cons_err hp]; exact h0
    | ok fs' =>
      rw [run_cons_ok hp]
      exact ih (fun q hq => hstep q (List.mem_cons_of_mem _ hq)) (hstep p (by simp) fs fs' h0 hp)

/-- a run of `xs ++ ys` either stops inside `xs`, or is the run of `ys` from where `xs` ended -/
theorem run_append (xs ys : List Prim) (fs : Fs) :
    run (xs ++ ys) fs = run xs fs ∨ run (xs ++ ys) fs = run ys (run xs fs) := by
  induction xs generalizing fs with
  | nil => exact Or.inr rfl
  | cons p ps ih =>
    cases hp : p.apply fs with
    | error e => left; simp [run, hp]
    | ok fs' =>
      simp only [List.cons_append, run_cons_ok hp]
      exact ih fs'

/-- run the steps, `none` if one of them fails -/
def runAll : List Prim → Fs → Option Fs
  | [], fs => some fs
  | p :: ps, fs =>
    match p.apply fs with
    | .ok fs' => runAll ps fs'
    | .error _ => none

theorem run_of_runAll {xs : List Prim} {fs fs' : Fs} (h : runAll xs fs = some fs') : run xs fs = fs' := by
  induction xs generalizing fs with
  | nil => simp only [runAll] at h; cases h; rfl
  | cons p ps ih =>
    simp only [runAll] at h
    cases hp : p.apply fs with
    | error e => simp [hp] at h
    | ok s => simp only [hp] at h; rw [run_cons_ok hp]; exact ih h

/-- a run of `xs ++ ys` continues with `ys` exactly when every step of `xs` succeeds -/
theorem run_append' (xs ys : List Prim) (fs : Fs) :
    run (xs ++ ys) fs = match runAll xs fs with
      | some fs' => run ys fs'
      | none => run xs fs := by
  induction xs generalizing fs with
  | nil => rfl
  | cons p ps ih =>
    cases hp : p.apply fs with
    | error e => simp [run, runAll, hp]
    | ok s => simp only [List.cons_append, run_cons_ok hp, runAll, hp]; exact ih s

end Octo.Fs
