import Octo.Lemmas.TypingMain
import Octo.Model.TypingTable
/-!
  Octo.Lemmas.TypingKinds — from the RESULT KINDS that the translator extracts from the Go source of every function body
  to the per-descriptor obligation `DescrSound`, and from there to `SigOk` for the generated table.

  `produces k args v`: what a `return` statement of kind `k` can yield on the arguments `args`.
  `RespectsKinds kinds body`: every value `body` returns is produced by one of the kinds (this is what the go/ast pass
  establishes about the real body: the trusted step).
  `kindOk argTys out k` (decidable): values produced by `k` on arguments of types `argTys` match `out`.
-/
namespace Octo.Tc
open Octo Octo.Ty Octo.Gen.FuncTable

/-- the scalar type built by `octosql.NewInt`, `NewFloat`, … -/
def scalarOfId : Nat → Option Ty
  | 1 => some .int | 2 => some .float | 3 => some .bool | 4 => some .str | 5 => some .time | 6 => some .dur
  | _ => none

def produces : Kind → List Value → Value → Prop
  | .ctor tid, _, v => v.rank = tid
  | .null, _, v => v = .null
  | .arg i, args, v => args[i]? = some v
  | .elem i, args, v => ∃ xs, args[i]? = some (.list xs) ∧ v ∈ xs
  | .err, _, _ => False

def RespectsKinds (kinds : List Kind) (body : List Value → Res) : Prop :=
  ∀ args v, body args = .val v → ∃ k ∈ kinds, produces k args v

def kindOk (argTys : List Ty) (out : Ty) : Kind → Bool
  | .ctor tid => match scalarOfId tid with
    | some s => s.is out == .is
    | none => false
  | .null => Ty.null.is out == .is
  | .arg i => match argTys[i]? with
    | some t => t.is out == .is
    | none => true
  | .elem i => match argTys[i]? with
    | some (.list e) => e.is out == .is
    | some .listNil => true
    | some _ => false
    | none => true
  | .err => true

theorem conforms_scalar_of_rank {tid : Nat} {s : Ty} {v : Value} (hs : scalarOfId tid = some s) (hr : v.rank = tid) :
    conforms s v = true := by
  unfold scalarOfId at hs
  split at hs <;> simp at hs <;> subst hs <;> cases v <;> simp [Value.rank] at hr <;> simp [conforms]

theorem conformsZip_length : ∀ (ts : List Ty) (xs : List Value), conformsZip ts xs = true → ts.length = xs.length
  | [], [], _ => rfl
  | [], _ :: _, h => by simp [conformsZip] at h
  | _ :: _, [], h => by simp [conformsZip] at h
  | _ :: ts, _ :: xs, h => by
    simp only [conformsZip, Bool.and_eq_true] at h
    simp [conformsZip_length ts xs h.2]

theorem kindOk_sound {argTys : List Ty} {out : Ty} {k : Kind} {args : List Value} {v : Value}
    (hk : kindOk argTys out k = true) (hc : conformsZip argTys args = true) (hp : produces k args v) :
    conforms out v = true := by
  cases k with
  | ctor tid =>
    simp only [kindOk] at hk
    cases hs : scalarOfId tid with
    | none => simp [hs] at hk
    | some s =>
      simp only [hs, beq_iff_eq] at hk
      exact Ty.is_sound hk v (conforms_scalar_of_rank hs hp)
  | null =>
    simp only [kindOk, beq_iff_eq] at hk
    simp only [produces] at hp; subst hp
    exact Ty.is_sound hk .null (by simp [conforms])
  | arg i =>
    simp only [kindOk] at hk
    simp only [produces] at hp
    cases ht : argTys[i]? with
    | none =>
      have := conformsZip_length _ _ hc
      have h1 : argTys.length ≤ i := by simpa using ht
      have h2 : i < args.length := (List.getElem?_eq_some_iff.mp hp).1
      omega
    | some t =>
      simp only [ht, beq_iff_eq] at hk
      exact Ty.is_sound hk v (conformsZip_get argTys args i t v hc ht hp)
  | elem i =>
    simp only [kindOk] at hk
    obtain ⟨xs, hx, hv⟩ := hp
    cases ht : argTys[i]? with
    | none =>
      have := conformsZip_length _ _ hc
      have h1 : argTys.length ≤ i := by simpa using ht
      have h2 : i < args.length := (List.getElem?_eq_some_iff.mp hx).1
      omega
    | some t =>
      have hcl := conformsZip_get argTys args i t (.list xs) hc ht hx
      cases t <;> simp only [ht] at hk <;> try (cases hk)
      · -- listNil: the list is empty
        simp only [conforms, List.isEmpty_iff] at hcl; subst hcl; cases hv
      · rename_i e
        simp only [beq_iff_eq] at hk
        simp only [conforms, List.all_eq_true] at hcl
        exact Ty.is_sound hk v (hcl v hv)
  | err => cases hp

/-- static descriptors: kinds within the declared types ⇒ the per-descriptor obligation -/
theorem descrSound_of_kinds {d : Descr} {kinds : List Kind} {body : List Value → Res} (htf : d.typeFn = none)
    (hk : ∀ k ∈ kinds, kindOk d.args d.out k = true) (hb : RespectsKinds kinds body) : DescrSound d body := by
  unfold DescrSound
  simp only [htf]
  intro args v hc hv
  obtain ⟨k, hkm, hp⟩ := hb args v hv
  exact kindOk_sound (hk k hkm) hc hp

/-! ### descriptors typed by a `TypeFn` -/

def tyFnKindOk : TyFn → Kind → Bool
  | .cmp, k => k == .ctor 3 || k == .err
  | .lenOf _, k => k == .ctor 1 || k == .err
  | .memberOf _, k => k == .ctor 3 || k == .err
  | .index, k => k == .null || k == .elem 0 || k == .err

theorem id7_cases {l : Ty} (h : l.id = 7) : l = .listNil ∨ ∃ e, l = .list e := by
  cases l <;> simp [Ty.id] at h
  · exact Or.inl rfl
  · exact Or.inr ⟨_, rfl⟩

theorem applyTyFn_cmp {tys : List Ty} {o : Ty} (h : applyTyFn .cmp tys = some (some o)) : o = .bool := by
  rcases tys with _ | ⟨a, _ | ⟨b, _ | ⟨c, rest⟩⟩⟩ <;> simp [applyTyFn] at h
  exact h.2.symm

theorem applyTyFn_lenOf {tid : Nat} {tys : List Ty} {o : Ty} (h : applyTyFn (.lenOf tid) tys = some (some o)) : o = .int := by
  rcases tys with _ | ⟨a, _ | ⟨b, rest⟩⟩ <;> simp [applyTyFn] at h
  exact h.2.symm

theorem applyTyFn_memberOf {tid : Nat} {tys : List Ty} {o : Ty} (h : applyTyFn (.memberOf tid) tys = some (some o)) : o = .bool := by
  rcases tys with _ | ⟨a, _ | ⟨b, _ | ⟨c, rest⟩⟩⟩ <;> simp [applyTyFn] at h
  exact h.2.symm

theorem applyTyFn_index {tys : List Ty} {o : Ty} (h : applyTyFn .index tys = some (some o)) :
    ∃ l i, tys = [l, i] ∧ ((l = .listNil ∧ o = .null) ∨ ∃ e, l = .list e ∧ typeSum .null e = some o) := by
  rcases tys with _ | ⟨l, _ | ⟨i, _ | ⟨c, rest⟩⟩⟩
  · simp [applyTyFn] at h
  · simp [applyTyFn] at h
  · refine ⟨l, i, rfl, ?_⟩
    simp only [applyTyFn] at h
    by_cases h7 : l.id = 7
    · rw [if_neg (by simpa using h7)] at h
      by_cases h1 : i.id = 1
      · rw [if_neg (by simpa using h1)] at h
        rcases id7_cases h7 with rfl | ⟨e, rfl⟩
        · simp only [Option.some.injEq] at h; exact Or.inl ⟨rfl, h.symm⟩
        · simp only at h
          cases hs : typeSum .null e with
          | none => simp [hs] at h
          | some c =>
            simp only [hs, Option.map_some, Option.some.injEq] at h
            subst h
            exact Or.inr ⟨e, rfl, hs⟩
      · rw [if_pos (by simpa using h1)] at h; simp at h
    · rw [if_pos (by simpa using h7)] at h; simp at h
  · simp [applyTyFn] at h

theorem tyFnKind_sound {f : TyFn} {k : Kind} {tys : List Ty} {o : Ty} {args : List Value} {v : Value}
    (hk : tyFnKindOk f k = true) (hf : applyTyFn f tys = some (some o)) (hc : conformsZip tys args = true)
    (hp : produces k args v) : conforms o v = true := by
  have bool_case : ∀ {o : Ty}, o = .bool → (k == Kind.ctor 3 || k == Kind.err) = true → conforms o v = true := by
    intro o ho hk
    subst ho
    simp only [Bool.or_eq_true, beq_iff_eq] at hk
    rcases hk with rfl | rfl
    · simp only [produces] at hp; cases v <;> simp [Value.rank] at hp; simp [conforms]
    · cases hp
  have int_case : ∀ {o : Ty}, o = .int → (k == Kind.ctor 1 || k == Kind.err) = true → conforms o v = true := by
    intro o ho hk
    subst ho
    simp only [Bool.or_eq_true, beq_iff_eq] at hk
    rcases hk with rfl | rfl
    · simp only [produces] at hp; cases v <;> simp [Value.rank] at hp; simp [conforms]
    · cases hp
  cases f with
  | cmp => exact bool_case (applyTyFn_cmp hf) hk
  | lenOf tid => exact int_case (applyTyFn_lenOf hf) hk
  | memberOf tid => exact bool_case (applyTyFn_memberOf hf) hk
  | index =>
    simp only [tyFnKindOk, Bool.or_eq_true, beq_iff_eq] at hk
    obtain ⟨l, i, rfl, hl⟩ := applyTyFn_index hf
    rcases hk with (rfl | rfl) | rfl
    · simp only [produces] at hp; subst hp
      rcases hl with ⟨_, rfl⟩ | ⟨e, _, hs⟩
      · simp [conforms]
      · exact (typeSum_null_l_char hs .null).mpr (Or.inl rfl)
    · obtain ⟨xs, hx, hv⟩ := hp
      have hcl := conformsZip_get _ args 0 l (.list xs) hc (by simp) hx
      rcases hl with ⟨rfl, _⟩ | ⟨e, rfl, hs⟩
      · simp only [conforms, List.isEmpty_iff] at hcl; subst hcl; cases hv
      · simp only [conforms, List.all_eq_true] at hcl
        exact (typeSum_null_l_char hs v).mpr (Or.inr (hcl v hv))
    · cases hp

theorem applyTyFn_wf {f : TyFn} {tys : List Ty} {o : Ty} (hw : ∀ t ∈ tys, wf t = true)
    (hf : applyTyFn f tys = some (some o)) : wf o = true := by
  cases f with
  | cmp => rw [applyTyFn_cmp hf]; simp [wf]
  | lenOf tid => rw [applyTyFn_lenOf hf]; simp [wf]
  | memberOf tid => rw [applyTyFn_memberOf hf]; simp [wf]
  | index =>
    obtain ⟨l, i, rfl, hl⟩ := applyTyFn_index hf
    rcases hl with ⟨_, rfl⟩ | ⟨e, rfl, hs⟩
    · simp [wf]
    · have we : wf e = true := by
        have := hw (.list e) (by simp)
        simpa [wf] using this
      exact typeSum_wf hs (by simp [wf]) we

end Octo.Tc
