import Octo.Lemmas.JoinMachine
/-!
  Event times: which records a bound releases, well-formed buffers, "fresh" inputs (monotone
  watermarks, no late records) and the watermark-consistency predicate on outputs.
-/
namespace Octo.Join
open Octo

/-- the record stays in the buffer when it is emitted up to `b` -/
def lateB (b : Bound) (x : Rec) : Bool :=
  match x.et with
  | none => false
  | some t => !b.releases t

theorem releases_mono {b : Bound} {t t' : Int} (h : b.releases t = false) (ht : t < t') : b.releases t' = false := by
  cases b with
  | top => simp [Bound.releases] at h
  | «at» w =>
    simp only [Bound.releases, Bool.not_eq_false'] at h ⊢
    cases w with
    | none => rfl
    | some w => simp only [after, decide_eq_true_eq] at h ⊢; omega

/-- buckets in increasing time order, every record in the bucket of its event time -/
def BufOK : Buf → Prop
  | [] => True
  | (t, rs) :: rest => (∀ x ∈ rs, x.et = some t) ∧ (∀ p ∈ rest, t < p.1) ∧ BufOK rest

theorem mem_bufAll {x : Rec} : ∀ {b : Buf}, x ∈ bufAll b ↔ ∃ p ∈ b, x ∈ p.2
  | [] => by simp [bufAll]
  | (t, rs) :: rest => by
    simp only [bufAll, List.mem_append, mem_bufAll (b := rest), List.mem_cons]
    constructor
    · rintro (h | ⟨p, hp, hx⟩)
      · exact ⟨(t, rs), Or.inl rfl, h⟩
      · exact ⟨p, Or.inr hp, hx⟩
    · rintro ⟨p, hp | hp, hx⟩
      · subst hp; exact Or.inl hx
      · exact Or.inr ⟨p, hp, hx⟩

theorem mem_add {t : Int} {r : Rec} : ∀ {b : Buf} {p : Int × List Rec}, p ∈ Buf.add t r b → p.1 = t ∨ ∃ q ∈ b, q.1 = p.1
  | [], p, h => by simp [Buf.add] at h; subst h; simp
  | (t', rs) :: rest, p, h => by
    simp only [Buf.add] at h
    by_cases h1 : t < t'
    · simp only [h1, if_true, List.mem_cons] at h
      rcases h with h | h | h
      · subst h; simp
      · subst h; right; exact ⟨(t', rs), by simp, rfl⟩
      · right; exact ⟨p, by simp [h], rfl⟩
    · by_cases h2 : t = t'
      · subst h2
        simp only [Int.lt_irrefl, if_true, if_false, List.mem_cons] at h
        rcases h with h | h
        · subst h; left; rfl
        · right; exact ⟨p, by simp [h], rfl⟩
      · simp only [h1, h2, if_false, List.mem_cons] at h
        rcases h with h | h
        · subst h; right; exact ⟨(t', rs), by simp, rfl⟩
        · rcases mem_add h with h' | ⟨q, hq, hq1⟩
          · exact Or.inl h'
          · exact Or.inr ⟨q, by simp [hq], hq1⟩

theorem bufOK_add {t : Int} {r : Rec} (hr : r.et = some t) : ∀ {b : Buf}, BufOK b → BufOK (Buf.add t r b)
  | [], _ => by
    simp only [Buf.add, BufOK]
    exact ⟨fun x hx => by simp at hx; subst hx; exact hr, by simp, trivial⟩
  | (t', rs) :: rest, hb => by
    obtain ⟨h1, h2, h3⟩ := hb
    simp only [Buf.add]
    by_cases c1 : t < t'
    · simp only [c1, if_true, BufOK]
      refine ⟨fun x hx => by simp at hx; subst hx; exact hr, ?_, h1, h2, h3⟩
      intro p hp
      rcases List.mem_cons.mp hp with hp | hp
      · subst hp; exact c1
      · have := h2 p hp; omega
    · by_cases c2 : t = t'
      · subst c2
        simp only [Int.lt_irrefl, if_false, if_true, BufOK]
        refine ⟨fun x hx => ?_, h2, h3⟩
        rcases List.mem_append.mp hx with hx | hx
        · exact h1 x hx
        · simp at hx; subst hx; exact hr
      · simp only [c1, c2, if_false, BufOK]
        refine ⟨h1, ?_, bufOK_add hr h3⟩
        intro p hp
        rcases mem_add hp with hp | ⟨q, hq, hq1⟩
        · rw [hp]; omega
        · rw [← hq1]; exact h2 q hq

theorem bufOK_emit (bd : Bound) : ∀ {b : Buf}, BufOK b → BufOK (Buf.emit bd b).2
  | [], _ => trivial
  | (t, rs) :: rest, hb => by
    simp only [Buf.emit]
    by_cases h : bd.releases t = true
    · simp only [h, if_true]; exact bufOK_emit bd hb.2.2
    · simp only [h]; exact hb

theorem bufOK_et {x : Rec} {p : Int × List Rec} : ∀ {b : Buf}, BufOK b → p ∈ b → x ∈ p.2 → x.et = some p.1
  | [], _, hp, _ => by simp at hp
  | (t, rs) :: rest, hb, hp, hx => by
    rcases List.mem_cons.mp hp with hp | hp
    · subst hp; exact hb.1 x hx
    · exact bufOK_et hb.2.2 hp hx

theorem filter_eq_nil_of {p : Rec → Bool} {l : List Rec} (h : ∀ x ∈ l, p x = false) : l.filter p = [] := by
  apply List.filter_eq_nil_iff.mpr
  intro x hx; simp [h x hx]
theorem filter_eq_self_of {p : Rec → Bool} {l : List Rec} (h : ∀ x ∈ l, p x = true) : l.filter p = l :=
  List.filter_eq_self.mpr h

/-- after `Emit`, exactly the late records remain -/
theorem emit_snd_filter (bd : Bound) : ∀ {b : Buf}, BufOK b → bufAll (Buf.emit bd b).2 = (bufAll b).filter (lateB bd)
  | [], _ => rfl
  | (t, rs) :: rest, hb => by
    obtain ⟨h1, h2, h3⟩ := hb
    simp only [Buf.emit]
    by_cases h : bd.releases t = true
    · simp only [h, if_true, bufAll, List.filter_append]
      rw [emit_snd_filter bd h3, filter_eq_nil_of (l := rs)]
      · rfl
      · intro x hx; simp [lateB, h1 x hx, h]
    · have h' : bd.releases t = false := by cases hh : bd.releases t <;> simp_all
      simp only [h, bufAll]
      symm
      apply filter_eq_self_of
      intro x hx
      rcases List.mem_append.mp hx with hx | hx
      · simp [lateB, h1 x hx, h']
      · obtain ⟨p, hp, hxp⟩ := mem_bufAll.mp hx
        have hlt := h2 p hp
        have : x.et = some p.1 := bufOK_et h3 hp hxp
        simp [lateB, this, releases_mono h' hlt]

/-- buffers hold exactly the late ones among the received records -/
structure Timely (s : St) (bd : Bound) (RL RR : List Rec) : Prop where
  lateL : List.Perm (bufAll s.bufL) (RL.filter (lateB bd))
  lateR : List.Perm (bufAll s.bufR) (RR.filter (lateB bd))
  okL : BufOK s.bufL
  okR : BufOK s.bufR

/-- moving the bound forward and emitting up to it -/
theorem timely_advance {s s' : St} {bd bd' : Bound} {RL RR : List Rec} (ht : Timely s bd RL RR)
    (hmono : ∀ x, lateB bd' x = true → lateB bd x = true)
    (hL : s'.bufL = (Buf.emit bd' s.bufL).2) (hR : s'.bufR = (Buf.emit bd' s.bufR).2) : Timely s' bd' RL RR := by
  have key : ∀ (R : List Rec), (R.filter (lateB bd)).filter (lateB bd') = R.filter (lateB bd') := by
    intro R
    rw [List.filter_filter]
    apply List.filter_congr
    intro x _
    cases h : lateB bd' x with
    | false => simp
    | true => simp [hmono x h]
  refine ⟨?_, ?_, ?_, ?_⟩
  · rw [hL, emit_snd_filter bd' ht.okL, ← key RL]; exact ht.lateL.filter _
  · rw [hR, emit_snd_filter bd' ht.okR, ← key RR]; exact ht.lateR.filter _
  · rw [hL]; exact bufOK_emit bd' ht.okL
  · rw [hR]; exact bufOK_emit bd' ht.okR

/-- the processed records are exactly the early ones among the received records -/
theorem processed_perm {P buf R : List Rec} {p : Rec → Bool} (h1 : List.Perm (P ++ buf) R) (h2 : List.Perm buf (R.filter p)) :
    List.Perm P (R.filter (fun x => !p x)) := by
  have h3 : List.Perm (R.filter p ++ R.filter (fun x => !p x)) R := List.filter_append_perm p R
  have h4 : List.Perm (P ++ buf) (R.filter (fun x => !p x) ++ buf) := by
    refine h1.trans (h3.symm.trans ?_)
    exact (List.perm_append_comm).trans (List.Perm.append_left _ h2.symm)
  exact (List.perm_append_right_iff buf).mp h4

theorem etLe_eq_not_late (m : Int) (x : Rec) : etLe m x = !lateB (.at (some m)) x := by
  unfold etLe lateB
  cases x.et with
  | none => rfl
  | some t =>
    simp only [Bound.releases, after, Bool.not_not]
    by_cases h : t ≤ m
    · have : ¬ m < t := by omega
      simp [h, this]
    · have : m < t := by omega
      simp [h, this]

/-! ### fresh inputs -/
/-- the remaining messages of an input whose last watermark was `cur`: watermarks do not go back and
    every record has an event time after the last watermark before it -/
def Fresh : T → List Msg → Prop
  | _, [] => True
  | cur, .data r :: ms => after r.et cur = true ∧ Fresh cur ms
  | cur, .wm w :: ms => after cur (some w) = false ∧ Fresh (some w) ms

theorem fresh_late : ∀ {ms : List Msg} {cur B : T}, Fresh cur ms → after B cur = false →
    ∀ x ∈ recs ms, lateB (.at B) x = true
  | [], _, _, _, _, x, hx => by simp [recs] at hx
  | .data r :: ms, cur, B, hf, hB, x, hx => by
    simp only [recs, List.mem_cons] at hx
    rcases hx with hx | hx
    · subst hx
      have := after_of_after_of_not_after hf.1 hB
      cases hr : x.et with
      | none => rw [hr] at this; simp [after] at this
      | some t => rw [hr] at this; simp [lateB, hr, Bound.releases, this]
    · exact fresh_late hf.2 hB x hx
  | .wm w :: ms, cur, B, hf, hB, x, hx => by
    simp only [recs] at hx
    exact fresh_late hf.2 (not_after_trans hB hf.1) x hx

/-! ### watermark consistency of an output -/
/-- `pre` has been emitted; every watermark `w` in the rest comes after an output prefix that is the
    specification of the inputs up to `w` -/
def wmOK (W : List Rec → List Rec → Row → Int) (ls rs : List Rec) : List Msg → List Msg → Prop
  | _, [] => True
  | pre, .data r :: rest => wmOK W ls rs (pre ++ [.data r]) rest
  | pre, .wm w :: rest => (∀ row, net (recs pre) row = W (upTo w ls) (upTo w rs) row) ∧ wmOK W ls rs (pre ++ [.wm w]) rest

theorem wmOK_append (W : List Rec → List Rec → Row → Int) (ls rs : List Rec) : ∀ (a b pre : List Msg),
    wmOK W ls rs pre (a ++ b) ↔ wmOK W ls rs pre a ∧ wmOK W ls rs (pre ++ a) b
  | [], b, pre => by simp [wmOK]
  | .data r :: a, b, pre => by
    simp only [List.cons_append, wmOK]
    rw [wmOK_append W ls rs a b]
    simp [List.append_assoc]
  | .wm w :: a, b, pre => by
    simp only [List.cons_append, wmOK]
    rw [wmOK_append W ls rs a b]
    simp [List.append_assoc, and_assoc]

theorem wmOK_data (W : List Rec → List Rec → Row → Int) (ls rs : List Rec) : ∀ (em : List Rec) (pre : List Msg),
    wmOK W ls rs pre (dataMsgs em)
  | [], _ => trivial
  | r :: em, pre => by
    simp only [dataMsgs, List.map_cons, wmOK]
    exact wmOK_data W ls rs em _

theorem wmOK_split {W : List Rec → List Rec → Row → Int} {ls rs : List Rec} {pre post : List Msg} {w : Int}
    (h : wmOK W ls rs [] (pre ++ Msg.wm w :: post)) : ∀ row, net (recs pre) row = W (upTo w ls) (upTo w rs) row := by
  have := (wmOK_append W ls rs pre (Msg.wm w :: post) []).mp h
  simpa using this.2.1

end Octo.Join
