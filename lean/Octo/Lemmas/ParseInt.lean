import Octo.Spec.NumFuncs
import Octo.Lemmas.Int64
/-!
  Octo.Lemmas.ParseInt — Go's `strconv.ParseInt(s, 10, 64)` (digit loop with the `cutoff` overflow test on a
  wrapping uint64 accumulator) accepts exactly `[+-]?[0-9]+` within the Int64 range, and `FormatInt` round-trips.
-/
namespace Octo.Num
open Octo.Spec13

/-- the digit fold from an arbitrary accumulator -/
def accDigits (n : Nat) (s : List UInt8) : Nat := s.foldl (fun acc c => acc * 10 + (c.toNat - 48)) n

theorem digitsVal_eq (s : List UInt8) : digitsVal s = accDigits 0 s := by
  unfold digitsVal accDigits; rfl

theorem accDigits_nil (n : Nat) : accDigits n [] = n := rfl
theorem accDigits_cons (n : Nat) (c : UInt8) (cs : List UInt8) :
    accDigits n (c :: cs) = accDigits (n * 10 + (c.toNat - 48)) cs := by
  unfold accDigits; rw [List.foldl_cons]

theorem accDigits_ge (s : List UInt8) : ∀ n, n ≤ accDigits n s := by
  induction s with
  | nil => intro n; exact Nat.le_refl _
  | cons c cs ih =>
    intro n
    rw [accDigits_cons]
    have := ih (n * 10 + (c.toNat - 48))
    omega

theorem accDigits_append (n : Nat) (xs : List UInt8) (c : UInt8) :
    accDigits n (xs ++ [c]) = accDigits n xs * 10 + (c.toNat - 48) := by
  unfold accDigits; rw [List.foldl_append]; rfl

def optOf : Except PErr Nat → Option Nat
  | .ok n => some n
  | .error _ => none

/-- the loop of `ParseUint`: succeeds exactly on all-digit input whose value fits a uint64 -/
theorem parseUintLoop_spec (s : List UInt8) : ∀ n, n < 2 ^ 64 →
    optOf (parseUintLoop n s) =
      if s.all isDigit = true ∧ accDigits n s < 2 ^ 64 then some (accDigits n s) else none := by
  induction s with
  | nil => intro n hn; simp [parseUintLoop, optOf, accDigits_nil, hn]
  | cons c cs ih =>
    intro n hn
    unfold parseUintLoop
    by_cases hd : 48 ≤ c.toNat ∧ c.toNat ≤ 57
    · have hdig : isDigit c = true := by simp [isDigit, hd.1, hd.2]
      rw [if_pos hd]
      simp only [List.all_cons, hdig, Bool.true_and, accDigits_cons]
      have hmono := accDigits_ge cs (n * 10 + (c.toNat - 48))
      by_cases hc : n ≥ cutoffU
      · rw [if_pos hc]
        unfold cutoffU at hc
        have : ¬ accDigits (n * 10 + (c.toNat - 48)) cs < 2 ^ 64 := by omega
        simp [optOf, this]
      · rw [if_neg hc]
        unfold cutoffU at hc
        by_cases hov : (n * 10 + (c.toNat - 48)) % 2 ^ 64 < n * 10 ∨ (n * 10 + (c.toNat - 48)) % 2 ^ 64 > maxU64
        · rw [if_pos hov]
          unfold maxU64 at hov
          have : ¬ accDigits (n * 10 + (c.toNat - 48)) cs < 2 ^ 64 := by omega
          simp [optOf, this]
        · rw [if_neg hov]
          unfold maxU64 at hov
          have hlt : n * 10 + (c.toNat - 48) < 2 ^ 64 := by omega
          have heq : (n * 10 + (c.toNat - 48)) % 2 ^ 64 = n * 10 + (c.toNat - 48) := Nat.mod_eq_of_lt hlt
          rw [heq]
          exact ih _ hlt
    · rw [if_neg hd]
      have hdig : isDigit c = false := by
        simp only [isDigit, Bool.and_eq_false_iff, decide_eq_false_iff_not]
        omega
      simp [optOf, hdig]

theorem parseUint_spec (s : List UInt8) :
    optOf (parseUint s) =
      if s ≠ [] ∧ s.all isDigit = true ∧ digitsVal s < 2 ^ 64 then some (digitsVal s) else none := by
  cases s with
  | nil => simp [parseUint, optOf]
  | cons c cs =>
    unfold parseUint
    rw [parseUintLoop_spec _ 0 (by decide), digitsVal_eq]
    simp

theorem parseIntBody_spec (neg : Bool) (body : List UInt8) :
    parseIntBody neg body =
      if body.isEmpty ∨ body.all isDigit = false then none
      else
        let v : Int := if neg then -(digitsVal body : Int) else (digitsVal body : Int)
        if minI64 ≤ v ∧ v ≤ maxI64 then some v else none := by
  have h := parseUint_spec body
  unfold parseIntBody
  cases hp : parseUint body with
  | error e =>
    rw [hp] at h
    simp only [optOf] at h
    have hcond : ¬ (body ≠ [] ∧ body.all isDigit = true ∧ digitsVal body < 2 ^ 64) := by
      intro hc; rw [if_pos hc] at h; cases h
    cases e <;> simp only []
    all_goals
      by_cases h1 : body.isEmpty ∨ body.all isDigit = false
      · rw [if_pos h1]
      · rw [if_neg h1]
        have hne : body ≠ [] := by
          intro hb; apply h1; left; simp [hb]
        have hall : body.all isDigit = true := by
          cases hb : body.all isDigit
          · exact absurd (Or.inr hb) h1
          · rfl
        have hbig : ¬ digitsVal body < 2 ^ 64 := fun hlt => hcond ⟨hne, hall, hlt⟩
        unfold minI64 maxI64
        cases neg <;> simp only [if_true, if_false, Bool.false_eq_true] <;> rw [if_neg] <;> omega
  | ok un =>
    rw [hp] at h
    simp only [optOf] at h
    by_cases hc : body ≠ [] ∧ body.all isDigit = true ∧ digitsVal body < 2 ^ 64
    · rw [if_pos hc] at h
      have hun : un = digitsVal body := by injection h
      have h1 : ¬ (body.isEmpty ∨ body.all isDigit = false) := by
        intro ho
        cases ho with
        | inl he => apply hc.1; simpa using he
        | inr hf => rw [hc.2.1] at hf; cases hf
      rw [if_neg h1]
      simp only []
      subst hun
      unfold minI64 maxI64
      cases neg
      · simp only [Bool.not_false, true_and, Bool.false_eq_true, false_and, if_false]
        by_cases hb : digitsVal body ≥ 2 ^ 63
        · rw [if_pos hb, if_neg]; omega
        · rw [if_neg hb, if_pos]; omega
      · simp only [Bool.not_true, Bool.false_eq_true, false_and, if_false, true_and, if_true]
        by_cases hb : digitsVal body > 2 ^ 63
        · rw [if_pos hb, if_neg]; omega
        · rw [if_neg hb, if_pos]; omega
    · rw [if_neg hc] at h; cases h

/-- **`int(String)` accepts exactly the decimal integers of the Int64 range** -/
theorem parseInt_eq_spec (s : List UInt8) : parseInt s = parseIntSpec s := by
  unfold parseIntSpec
  rw [← parseIntBody_spec]
  cases s with
  | nil => simp [parseInt, signBody, parseIntBody, parseUint]
  | cons c rest =>
    unfold parseInt signBody
    by_cases h45 : c = 45
    · subst h45; simp
    · by_cases h43 : c = 43
      · subst h43; simp
      · have e45 : (c == 45) = false := by simp [h45]
        have e43 : (c == 43) = false := by simp [h43]
        simp [e45, e43, h45, h43]

/-! ### FormatInt -/

theorem digit_toNat (k : Nat) (h : k < 10) : (UInt8.ofNat (48 + k)).toNat = 48 + k := by
  rw [UInt8.toNat_ofNat']; omega

theorem natDigitsF_spec : ∀ fuel n, n < fuel →
    (natDigitsF fuel n).all isDigit = true ∧ accDigits 0 (natDigitsF fuel n) = n ∧ natDigitsF fuel n ≠ [] := by
  intro fuel
  induction fuel with
  | zero => intro n h; omega
  | succ f ih =>
    intro n hn
    unfold natDigitsF
    by_cases h10 : n < 10
    · rw [if_pos h10]
      have := digit_toNat n h10
      refine ⟨?_, ?_, by simp⟩
      · simp [isDigit]; omega
      · simp [accDigits]; omega
    · rw [if_neg h10]
      have hlt : n / 10 < f := by omega
      obtain ⟨h1, h2, h3⟩ := ih (n / 10) hlt
      have hd := digit_toNat (n % 10) (by omega)
      refine ⟨?_, ?_, by simp⟩
      · rw [List.all_append, h1]; simp [isDigit]; omega
      · rw [accDigits_append, h2, hd]; omega

theorem natDigits_spec (n : Nat) :
    (natDigits n).all isDigit = true ∧ digitsVal (natDigits n) = n ∧ natDigits n ≠ [] :=
  natDigitsF_spec (n + 1) n (Nat.lt_succ_self n)

/-- a digit string does not start with a sign -/
theorem signBody_of_digits (s : List UInt8) (h : s.all isDigit = true) : signBody s = (false, s) := by
  cases s with
  | nil => rfl
  | cons c r =>
    simp only [List.all_cons, Bool.and_eq_true, isDigit, decide_eq_true_eq] at h
    have h45 : c ≠ 45 := by intro e; subst e; have := h.1.1; simp at this
    have h43 : c ≠ 43 := by intro e; subst e; have := h.1.1; simp at this
    simp [signBody, h45, h43]

/-- **`int(string(i)) = i`: parsing the decimal rendering of an int64 gives it back** -/
theorem parseInt_formatInt (i : Int) (h : InI64 i) : parseInt (formatInt i) = some i := by
  rw [parseInt_eq_spec]
  rw [inI64_iff] at h
  obtain ⟨hall, hval, hne⟩ := natDigits_spec i.natAbs
  unfold parseIntSpec formatInt
  by_cases hneg : i < 0
  · rw [if_pos hneg]
    have hsb : signBody (45 :: natDigits i.natAbs) = (true, natDigits i.natAbs) := by simp [signBody]
    rw [hsb]
    simp only []
    have h1 : ¬ ((natDigits i.natAbs).isEmpty ∨ (natDigits i.natAbs).all isDigit = false) := by
      intro ho
      cases ho with
      | inl he => apply hne; simpa using he
      | inr hf => rw [hall] at hf; cases hf
    rw [if_neg h1, hval]
    unfold minI64 maxI64
    simp only [if_true]
    rw [if_pos (by omega)]
    congr 1; omega
  · rw [if_neg hneg]
    rw [signBody_of_digits _ hall]
    simp only []
    have h1 : ¬ ((natDigits i.natAbs).isEmpty ∨ (natDigits i.natAbs).all isDigit = false) := by
      intro ho
      cases ho with
      | inl he => apply hne; simpa using he
      | inr hf => rw [hall] at hf; cases hf
    rw [if_neg h1, hval]
    unfold minI64 maxI64
    simp only [Bool.false_eq_true, if_false]
    rw [if_pos (by omega)]
    congr 1; omega

end Octo.Num
