import Octo.Model.ConsistentOutput
import Octo.Lemmas.CmpLaws
/-! Helper lemmas for C22: the cancellation loop of `sendPendingLessOrEqualWatermark` preserves the consolidated
    view and only produces records it was given; the invariant of `Run`. -/
set_option linter.unusedSimpArgs false
namespace Octo.ICW
open Octo

/-! ### rows, weights, consolidated view -/

theorem cmpList_eq_cmp (xs ys : List Value) : cmpList xs ys = cmp (.list xs) (.list ys) := by
  simp [cmpWith]

theorem cmpList_symm0 {xs ys : List Value} (h : cmpList xs ys = 0) : cmpList ys xs = 0 := by
  rw [cmpList_eq_cmp] at *
  have : cmp (.list xs) (.list ys) = - cmp (.list ys) (.list xs) := cmpWith_antisymm cmpFloatFixed_laws _ _
  omega

theorem cmpList_trans0 {xs ys zs : List Value} (h1 : cmpList xs ys = 0) (h2 : cmpList ys zs = 0) : cmpList xs zs = 0 := by
  rw [cmpList_eq_cmp] at *
  exact cmpWith_eq_trans cmpFloatFixed_laws _ _ _ h1 h2

/-- rows that compare equal are the same row for `net` -/
theorem rowEq_congr {a b : Row} (h : cmpList a b = 0) (row : Row) : rowEq a row = rowEq b row := by
  unfold rowEq
  by_cases h1 : cmpList a row = 0
  · have := cmpList_trans0 (cmpList_symm0 h) h1; simp [h1, this]
  · have h2 : cmpList b row ≠ 0 := fun h2 => h1 (cmpList_trans0 h h2)
    have e1 : (cmpList a row == 0) = false := by simpa using h1
    have e2 : (cmpList b row == 0) = false := by simpa using h2
    rw [e1, e2]

/-- an addition and a retraction of the same row cancel -/
theorem weight_cancel {a b : Rec} (ha : a.retr = false) (hb : b.retr = true) (h : cmpList a.vals b.vals = 0) (row : Row) :
    a.weight row + b.weight row = 0 := by
  unfold Rec.weight
  rw [rowEq_congr h row, ha, hb]
  by_cases hr : rowEq b.vals row <;> simp [hr]

theorem net_perm {l1 l2 : List Rec} (h : l1.Perm l2) (row : Row) : net l1 row = net l2 row := by
  induction h with
  | nil => rfl
  | cons x _ ih => simp [net, ih]
  | swap x y l => simp [net]; omega
  | trans _ _ ih1 ih2 => omega

theorem net_filter_add (p : Rec → Bool) (l : List Rec) (row : Row) :
    net (l.filter p) row + net (l.filter (fun r => !p r)) row = net l row := by
  induction l with
  | nil => rfl
  | cons x xs ih => by_cases h : p x <;> simp [List.filter, h, net] <;> omega

/-! ### the value loop -/

theorem valsMatch_eq : ∀ (xs ys : List Value), xs.length = ys.length → valsMatch xs ys = some (cmpList xs ys == 0)
  | [], [], _ => by simp [valsMatch, cmpListWith]
  | [], _ :: _, h => by simp at h
  | _ :: _, [], h => by simp at h
  | x :: xs, y :: ys, h => by
    have ih := valsMatch_eq xs ys (by simpa using h)
    simp only [valsMatch, cmpListWith]
    by_cases hc : cmp x y = 0
    · simp [hc, ih]
    · simp [hc]

/-! ### crossed-out bookkeeping -/

/-- the entries of `pending[i:]` that are not crossed out -/
def uncrossed : List Rec → List Bool → List Rec
  | [], _ => []
  | a :: rest, [] => a :: uncrossed rest []
  | a :: rest, c :: cs => if c then uncrossed rest cs else a :: uncrossed rest cs

theorem uncrossed_map (p : Rec → Bool) : ∀ l : List Rec, uncrossed l (l.map p) = l.filter (fun r => !p r)
  | [] => rfl
  | a :: rest => by
    have ih := uncrossed_map p rest
    by_cases h : p a <;> simp [uncrossed, h, ih]

def SameArity (k : Nat) (l : List Rec) : Prop := ∀ r ∈ l, r.vals.length = k

/-- `findRetractionLoop` (repaired): never panics on records of one arity; when it finds an entry, that entry
    was not crossed out, is a retraction of the same row, and is the only one newly crossed out -/
theorem findRetr_spec (a : Rec) (k : Nat) (hak : a.vals.length = k) :
    ∀ (rest : List Rec) (cs : List Bool), cs.length = rest.length → SameArity k rest →
      (findRetr true a rest cs = .ok none) ∨
      (∃ cs' b, findRetr true a rest cs = .ok (some cs') ∧ cs'.length = rest.length ∧
        b.retr = true ∧ cmpList a.vals b.vals = 0 ∧ (b :: uncrossed rest cs').Perm (uncrossed rest cs))
  | [], cs, _, _ => by cases cs <;> simp [findRetr]
  | b :: rest, [], h, _ => by simp at h
  | b :: rest, c :: cs, hlen, har => by
    have hlen' : cs.length = rest.length := by simpa using hlen
    have har' : SameArity k rest := fun r hr => har r (List.mem_cons_of_mem _ hr)
    have ih := findRetr_spec a k hak rest cs hlen' har'
    -- what recursion into the tail gives, whatever `c` is
    have tail : (match findRetr true a rest cs with
          | .error e => (.error e : Except Fail (Option (List Bool)))
          | .ok none => .ok none
          | .ok (some cs') => .ok (some (c :: cs'))) = .ok none ∨
        ∃ cs' b', (match findRetr true a rest cs with
          | .error e => (.error e : Except Fail (Option (List Bool)))
          | .ok none => .ok none
          | .ok (some cs') => .ok (some (c :: cs'))) = .ok (some cs') ∧ cs'.length = (b :: rest).length ∧
          b'.retr = true ∧ cmpList a.vals b'.vals = 0 ∧ (b' :: uncrossed (b :: rest) cs').Perm (uncrossed (b :: rest) (c :: cs)) := by
      rcases ih with h0 | ⟨cs', b', h1, h2, h3, h4, h5⟩
      · left; rw [h0]
      · right; refine ⟨c :: cs', b', by rw [h1], by simp [h2], h3, h4, ?_⟩
        cases c with
        | true => simpa [uncrossed] using h5
        | false =>
          simp only [uncrossed, Bool.false_eq_true, if_false]
          exact (List.Perm.swap b b' _).trans (List.Perm.cons b h5)
    unfold findRetr
    by_cases hskip : (!b.retr || (true && c)) = true
    · rw [if_pos hskip]; exact tail
    · rw [if_neg hskip]
      have hb : b.retr = true := by cases hbr : b.retr <;> simp [hbr] at hskip ⊢
      have hc : c = false := by
        cases c with
        | false => rfl
        | true => simp at hskip
      have hlenv : a.vals.length = b.vals.length := by rw [hak, har b List.mem_cons_self]
      rw [valsMatch_eq _ _ hlenv]
      by_cases hm : cmpList a.vals b.vals = 0
      · right
        refine ⟨true :: cs, b, by simp [hm], by simp [hlen'], hb, hm, ?_⟩
        subst hc
        simp [uncrossed]
      · have : (cmpList a.vals b.vals == 0) = false := by simp [hm]
        rw [this]; exact tail

/-- `pendingLoop` (repaired) on records of one arity: no panic; what is produced, together with pairs that cancel,
    is a permutation of the entries that were not crossed out -/
theorem pendingLoop_spec (k : Nat) :
    ∀ (rest : List Rec) (cs : List Bool), cs.length = rest.length → SameArity k rest →
      ∃ out c, pendingLoop true rest cs = .ok out ∧ (out ++ c).Perm (uncrossed rest cs) ∧ ∀ row, net c row = 0
  | [], cs, _, _ => ⟨[], [], by simp [pendingLoop], by simp [uncrossed], fun _ => rfl⟩
  | a :: rest, [], h, _ => by simp at h
  | a :: rest, c :: cs, hlen, har => by
    have hlen' : cs.length = rest.length := by simpa using hlen
    have har' : SameArity k rest := fun r hr => har r (List.mem_cons_of_mem _ hr)
    have hak : a.vals.length = k := har a List.mem_cons_self
    cases c with
    | true =>
      obtain ⟨out, cc, h1, h2, h3⟩ := pendingLoop_spec k rest cs hlen' har'
      exact ⟨out, cc, by simp [pendingLoop, h1], by simpa [uncrossed] using h2, h3⟩
    | false =>
      by_cases hr : a.retr = true
      · obtain ⟨out, cc, h1, h2, h3⟩ := pendingLoop_spec k rest cs hlen' har'
        refine ⟨a :: out, cc, by simp [pendingLoop, hr, h1], ?_, h3⟩
        simpa [uncrossed] using h2
      · have hr' : a.retr = false := by simpa using hr
        rcases findRetr_spec a k hak rest cs hlen' har' with h0 | ⟨cs', b, f1, f2, f3, f4, f5⟩
        · obtain ⟨out, cc, h1, h2, h3⟩ := pendingLoop_spec k rest cs hlen' har'
          refine ⟨a :: out, cc, by simp [pendingLoop, hr', h0, h1], ?_, h3⟩
          simpa [uncrossed] using h2
        · obtain ⟨out, cc, h1, h2, h3⟩ := pendingLoop_spec k rest cs' f2 har'
          refine ⟨out, a :: b :: cc, by simp [pendingLoop, hr', f1, h1], ?_, ?_⟩
          · simp only [uncrossed, Bool.false_eq_true, if_false]
            -- out ++ a :: b :: cc ~ a :: b :: (out ++ cc) ~ a :: b :: uncrossed rest cs' ~ a :: uncrossed rest cs
            have p1 : (out ++ a :: b :: cc).Perm (a :: b :: (out ++ cc)) := by
              have := (List.perm_middle (a := a) (l₁ := out) (l₂ := b :: cc))
              refine this.trans (List.Perm.cons a ?_)
              exact List.perm_middle
            exact p1.trans (List.Perm.cons a ((List.Perm.cons b h2).trans f5))
          · intro row
            have := weight_cancel hr' f3 f4 row
            simp only [net_cons, h3 row]; omega

/-- `sendPendingLessOrEqualWatermark` (repaired) on records of one arity -/
theorem flush_spec (k : Nat) (W : Int) (P : List Rec) (har : SameArity k P) :
    ∃ out c, flush fixed W P = .ok (out, P.filter (after W)) ∧
      (out ++ c).Perm (P.filter (fun r => !after W r)) ∧ ∀ row, net c row = 0 := by
  obtain ⟨out, c, h1, h2, h3⟩ := pendingLoop_spec k P (P.map (after W)) (by simp) har
  refine ⟨out, c, ?_, ?_, h3⟩
  · simp [flush, fixed, h1]
  · rw [uncrossed_map] at h2; exact h2

/-! ### watermark sequences -/

theorem mono_cons {a : Int} {l : List Int} (h : Mono (a :: l)) : Mono l := by
  cases l with
  | nil => trivial
  | cons b rest => exact h.2

theorem mono_append_left : ∀ {a b : List Int}, Mono (a ++ b) → Mono a
  | [], _, _ => trivial
  | [_], _, _ => trivial
  | x :: y :: rest, b, h => by
    have h' : x ≤ y ∧ Mono (y :: (rest ++ b)) := h
    exact ⟨h'.1, mono_append_left (a := y :: rest) h'.2⟩

theorem mono_snoc_last : ∀ {l : List Int} {w x : Int}, Mono (l ++ [w]) → l.getLast? = some x → x ≤ w
  | [], _, _, _, h => by simp at h
  | [y], w, x, hm, h => by
    simp at h; subst h
    exact (show y ≤ w ∧ Mono [w] from hm).1
  | y :: z :: rest, w, x, hm, h => by
    have hm' : y ≤ z ∧ Mono (z :: (rest ++ [w])) := hm
    have h' : (z :: rest).getLast? = some x := by simpa [List.getLast?_cons_cons] using h
    exact mono_snoc_last (l := z :: rest) hm'.2 h'

theorem wms_append (a b : List Msg) : wms (a ++ b) = wms a ++ wms b := by
  induction a with
  | nil => rfl
  | cons m ms ih => cases m <;> simp [wms, ih]

theorem recs_map_data (l : List Rec) : recs (l.map .data) = l := by
  induction l with
  | nil => rfl
  | cons x xs ih => simp [recs, ih]

theorem wms_map_data (l : List Rec) : wms (l.map .data) = [] := by
  induction l with
  | nil => rfl
  | cons x xs ih => simp [wms, ih]

/-! ### the invariant of `Run` -/

/-- above the last watermark (`none`: no watermark yet — everything counts) -/
def afterO : Option Int → Rec → Bool
  | none, _ => true
  | some W, r => after W r

/-- what holds after the source delivered `inp` -/
structure Inv (k : Nat) (inp : List Msg) (s : St) : Prop where
  arity : SameArity k s.pending
  wmsOut : wms s.out = wms inp
  /-- conservation: emitted ++ pending ++ (pairs that cancelled) is a rearrangement of the input records -/
  cons : ∃ C, (recs s.out ++ s.pending ++ C).Perm (recs inp) ∧ ∀ row, net C row = 0
  /-- with non-decreasing watermarks, every input record above the last watermark is still pending, in order -/
  above : Mono (wms inp) →
    s.pending.filter (afterO (wms inp).getLast?) = (recs inp).filter (afterO (wms inp).getLast?)

theorem inv_init (k : Nat) : Inv k [] St.init :=
  ⟨fun _ h => (by cases h), rfl, ⟨[], (by simp [St.init, recs]), fun _ => rfl⟩, fun _ => (by simp [St.init, recs])⟩

theorem after_mono {W0 W : Int} (h : W0 ≤ W) (r : Rec) : (after W r && after W0 r) = after W r := by
  unfold after
  cases r.et with
  | none => rfl
  | some t => by_cases h1 : W < t <;> simp [h1]; omega

theorem filter_after_of_afterO (L : Option Int) (W : Int) (hL : ∀ x, L = some x → x ≤ W) (l : List Rec) :
    (l.filter (afterO L)).filter (after W) = l.filter (after W) := by
  rw [List.filter_filter]
  congr 1; funext r
  cases L with
  | none => simp [afterO]
  | some x => simpa [afterO] using after_mono (hL x rfl) r

/-- the state right after a watermark: conservation, and the at-watermark equation -/
theorem step_wm (k : Nat) (pre : List Msg) (s : St) (W : Int) (hinv : Inv k pre s) :
    ∃ s', step fixed s (.wm W) = .ok s' ∧ Inv k (pre ++ [.wm W]) s' ∧
      (∃ o : List Rec, s'.out = s.out ++ o.map .data ++ [.wm W]) ∧
      (Mono (wms (pre ++ [.wm W])) → ∀ row,
        net (recs s'.out) row = net ((recs pre).filter (fun r => !after W r)) row) := by
  obtain ⟨o, c, hf, hperm, hc⟩ := flush_spec k W s.pending hinv.arity
  obtain ⟨C, hC, hC0⟩ := hinv.cons
  refine ⟨⟨s.out ++ o.map .data ++ [.wm W], s.pending.filter (after W)⟩, by simp [step, hf], ?_, ⟨o, rfl⟩, ?_⟩
  · refine ⟨fun r hr => hinv.arity r (List.mem_filter.mp hr).1, ?_, ?_, ?_⟩
    · simp [wms_append, wms_map_data, hinv.wmsOut, wms]
    · refine ⟨c ++ C, ?_, fun row => by rw [net_append, hc row, hC0 row]; rfl⟩
      simp only [recs_append, recs_map_data, recs, List.append_nil]
      -- recs s.out ++ o ++ filter after ++ (c ++ C) ~ recs s.out ++ pending ++ C ~ recs pre
      refine List.Perm.trans ?_ hC
      have hp : (o ++ s.pending.filter (after W) ++ c).Perm s.pending := by
        have h1 : (o ++ s.pending.filter (after W) ++ c).Perm ((o ++ c) ++ s.pending.filter (after W)) := by
          simp only [List.append_assoc]
          exact List.Perm.append_left o List.perm_append_comm
        refine h1.trans ((List.Perm.append_right _ hperm).trans ?_)
        have := List.filter_append_perm (fun r => !after W r) s.pending
        simpa using this
      have : (recs s.out ++ o ++ s.pending.filter (after W) ++ (c ++ C)) =
          recs s.out ++ ((o ++ s.pending.filter (after W) ++ c) ++ C) := by simp [List.append_assoc]
      rw [this]
      simp only [List.append_assoc]
      exact List.Perm.append_left _ (by simpa [List.append_assoc] using List.Perm.append_right C hp)
    · intro hm
      have hm' : Mono (wms pre ++ [W]) := by simpa [wms_append, wms] using hm
      have hpre := hinv.above (mono_append_left hm')
      have hL : ∀ x, (wms pre).getLast? = some x → x ≤ W := fun x hx => mono_snoc_last hm' hx
      simp only [wms_append, wms, recs_append, recs, List.append_nil, List.getLast?_append, List.getLast?_singleton,
        Option.some_or, afterO, List.filter_filter, Bool.and_self]
      rw [← filter_after_of_afterO _ W hL s.pending, hpre, filter_after_of_afterO _ W hL]
      rfl
  · intro hm row
    have hm' : Mono (wms pre ++ [W]) := by simpa [wms_append, wms] using hm
    have hpre := hinv.above (mono_append_left hm')
    have hL : ∀ x, (wms pre).getLast? = some x → x ≤ W := fun x hx => mono_snoc_last hm' hx
    have hkeep : s.pending.filter (after W) = (recs pre).filter (after W) := by
      rw [← filter_after_of_afterO _ W hL s.pending, hpre, filter_after_of_afterO _ W hL]
    have e1 := net_perm hC row
    have e2 := net_perm hperm row
    have e3 := net_filter_add (after W) s.pending row
    have e4 := net_filter_add (after W) (recs pre) row
    simp only [net_append, hc row, hC0 row] at e1 e2
    simp only [recs_append, recs_map_data, recs, List.append_nil, net_append]
    rw [hkeep] at e3
    omega

theorem step_data (k : Nat) (pre : List Msg) (s : St) (r : Rec) (hinv : Inv k pre s) (hr : r.vals.length = k) :
    ∃ s', step fixed s (.data r) = .ok s' ∧ Inv k (pre ++ [.data r]) s' ∧ s'.out = s.out := by
  obtain ⟨C, hC, hC0⟩ := hinv.cons
  refine ⟨{ s with pending := s.pending ++ [r] }, rfl, ⟨?_, ?_, ⟨C, ?_, hC0⟩, ?_⟩, rfl⟩
  · intro x hx
    rcases List.mem_append.mp hx with h | h
    · exact hinv.arity x h
    · simp at h; subst h; exact hr
  · simp [wms_append, wms, hinv.wmsOut]
  · simp only [recs_append, recs]
    -- recs out ++ (P ++ [r]) ++ C ~ (recs out ++ P ++ C) ++ [r]
    have h1 : (recs s.out ++ (s.pending ++ [r]) ++ C).Perm ((recs s.out ++ s.pending ++ C) ++ [r]) := by
      simp only [List.append_assoc]
      exact List.Perm.append_left _ (List.Perm.append_left _ List.perm_append_comm)
    exact h1.trans (List.Perm.append_right _ hC)
  · intro hm
    have hm' : Mono (wms pre) := by simpa [wms_append, wms] using hm
    have := hinv.above hm'
    simp only [wms_append, wms, List.append_nil, recs_append, recs, List.filter_append, this]

/-- the output only grows -/
theorem steps_out_prefix (v : Version) : ∀ (ms : List Msg) (s s' : St), steps v s ms = .ok s' → ∃ o, s'.out = s.out ++ o
  | [], s, s', h => by simp [steps] at h; subst h; exact ⟨[], by simp⟩
  | m :: ms, s, s', h => by
    simp only [steps] at h
    cases hs : step v s m with
    | error e => rw [hs] at h; cases h
    | ok s1 =>
      rw [hs] at h
      obtain ⟨o, ho⟩ := steps_out_prefix v ms s1 s' h
      cases m with
      | data r => simp [step] at hs; subst hs; exact ⟨o, ho⟩
      | wm W =>
        simp only [step] at hs
        cases hf : flush v W s.pending with
        | error e => rw [hf] at hs; cases hs
        | ok p =>
          rw [hf] at hs; simp at hs; subst hs
          exact ⟨p.1.map .data ++ .wm W :: o, by rw [ho]; simp [List.append_assoc]⟩

theorem steps_append (v : Version) : ∀ (a b : List Msg) (s : St),
    steps v s (a ++ b) = match steps v s a with
      | .error e => .error e
      | .ok s1 => steps v s1 b
  | [], b, s => by simp [steps]
  | m :: ms, b, s => by
    simp only [List.cons_append, steps]
    cases step v s m with
    | error e => rfl
    | ok s1 => exact steps_append v ms b s1

/-- the invariant is kept by every run of the callbacks over records of one arity (no panic) -/
theorem steps_inv (k : Nat) : ∀ (ms pre : List Msg) (s : St), Inv k pre s → SameArity k (recs ms) →
    ∃ s', steps fixed s ms = .ok s' ∧ Inv k (pre ++ ms) s'
  | [], pre, s, hinv, _ => ⟨s, rfl, by simpa using hinv⟩
  | m :: ms, pre, s, hinv, har => by
    cases m with
    | data r =>
      obtain ⟨s1, h1, hinv1, _⟩ := step_data k pre s r hinv (har r (by simp [recs]))
      obtain ⟨s', h2, hinv2⟩ := steps_inv k ms (pre ++ [.data r]) s1 hinv1 (fun x hx => har x (by simp [recs, hx]))
      exact ⟨s', by simp only [steps, h1, h2], by simpa [List.append_assoc] using hinv2⟩
    | wm W =>
      obtain ⟨s1, h1, hinv1, _, _⟩ := step_wm k pre s W hinv
      obtain ⟨s', h2, hinv2⟩ := steps_inv k ms (pre ++ [.wm W]) s1 hinv1 (fun x hx => har x (by simpa [recs] using hx))
      exact ⟨s', by simp only [steps, h1, h2], by simpa [List.append_assoc] using hinv2⟩

end Octo.ICW
