import Octo.Lemmas.OpsGroup
/-!
  Octo.Lemmas.OpsExamples — decidable validity (for the closed witnesses of the refutation theorems
  and the non-vacuity examples) and a concrete aggregate satisfying the C14 contract.
-/
namespace Octo.Ops
open Octo

/-- the executable validity check is sound -/
theorem validLog_of_validLogB (log : List Rec) (h : validLogB log = true) : ValidLog log := by
  intro n y
  by_cases hex : ∃ r ∈ log, rowEq r.vals y = true
  · obtain ⟨r, hr, hry⟩ := hex
    simp only [validLogB, List.all_eq_true, List.mem_range, decide_eq_true_eq] at h
    by_cases hn : n < log.length + 1
    · rw [← net_congr_row _ hry]; exact h n hn r hr
    · rw [List.take_of_length_le (by omega)]
      have := h log.length (by omega) r hr
      rw [List.take_length] at this
      rw [← net_congr_row _ hry]; exact this
  · -- no record of the log is in the class of `y`
    have : ∀ l : List Rec, (∀ r ∈ l, rowEq r.vals y = false) → net l y = 0 := by
      intro l hl
      induction l with
      | nil => rfl
      | cons r rs ih =>
        simp [net, weight_eq, hl r List.mem_cons_self, ih (fun q hq => hl q (List.mem_cons_of_mem _ hq))]
    rw [this]
    · exact Int.le_refl 0
    · intro r hr
      cases hry : rowEq r.vals y
      · rfl
      · exact absurd ⟨r, List.mem_of_mem_take hr, hry⟩ hex

/-! ### COUNT(*) as a `GAgg`: the C14 contract is satisfiable -/
def countAgg : GAgg Int where
  init := 0
  add s retr _ := if retr then s - 1 else s + 1
  trig s := some [.int s]

def countSpec (rows : List Row) : Row := [.int rows.length]

theorem foldl_count (h : List Rec) : ∀ s : Int,
    h.foldl (fun s r => if r.retr then s - 1 else s + 1) s = s + wsum (fun _ => 1) h := by
  induction h with
  | nil => intro s; simp [wsum]
  | cons r rs ih =>
    intro s
    simp only [List.foldl_cons, ih, wsum, sgn]
    cases r.retr <;> simp <;> omega

theorem sumOver_one (rows : List Row) : sumOver (fun _ => 1) rows = rows.length := by
  induction rows with
  | nil => rfl
  | cons x xs ih => simp only [sumOver, ih, List.length_cons]; omega

theorem countAgg_ok : GAggOK countAgg countSpec := by
  intro h rows _ hc
  refine ⟨[.int rows.length], ?_, rowEq_refl _⟩
  have h1 : foldH countAgg h = (0 : Int) + wsum (fun _ => 1) h := foldl_count h 0
  rw [wsum_of_consolidates (fun _ => 1) (fun _ _ _ => rfl) hc, sumOver_one] at h1
  show some [Value.int (foldH countAgg h)] = _
  rw [h1]; simp

end Octo.Ops
