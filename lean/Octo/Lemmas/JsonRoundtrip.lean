import Octo.Lemmas.JsonString
import Octo.Lemmas.JsonNumber
/-!
  Lemmas for C25, part 3: `ValueToJson` (model: `encJson`) read back by the RFC 8259 reader.
-/
namespace Octo.OutFmt
open Octo Octo.Spec

/-! ### one step of the reader, case by case -/
theorem skipWs_cons (c : Nat) (r : Bytes) (h : Json.isWs c = false) : Json.skipWs (c :: r) = c :: r := by
  simp [Json.skipWs, h]

theorem pValue_str (f : Nat) (r : Bytes) :
    Json.pValue (f + 1) (34 :: r) = (Json.pStr r).map fun (s, r') => (.str s, r') := by
  rw [Json.pValue]; simp [Json.skipWs, Json.isWs]

theorem pValue_arr_empty (f : Nat) (rest : Bytes) :
    Json.pValue (f + 1) (91 :: 93 :: rest) = some (.arr [], rest) := by
  rw [Json.pValue]; simp [Json.skipWs, Json.isWs]

theorem pValue_arr (f c2 : Nat) (r2 : Bytes) (h1 : Json.isWs c2 = false) (h2 : c2 ≠ 93) :
    Json.pValue (f + 1) (91 :: c2 :: r2) = (Json.pElems f (c2 :: r2)).map fun (xs, r') => (.arr xs, r') := by
  rw [Json.pValue, skipWs_cons 91 _ (by decide)]
  simp only [skipWs_cons c2 r2 h1]
  simp [h2]

theorem pValue_obj_empty (f : Nat) (rest : Bytes) :
    Json.pValue (f + 1) (123 :: 125 :: rest) = some (.obj [] [], rest) := by
  rw [Json.pValue]; simp [Json.skipWs, Json.isWs]

theorem pValue_obj (f c2 : Nat) (r2 : Bytes) (h1 : Json.isWs c2 = false) (h2 : c2 ≠ 125) :
    Json.pValue (f + 1) (123 :: c2 :: r2) = (Json.pMembers f (c2 :: r2)).map fun (ks, vs, r') => (.obj ks vs, r') := by
  rw [Json.pValue, skipWs_cons 123 _ (by decide)]
  simp only [skipWs_cons c2 r2 h1]
  simp [h2]

theorem pValue_null (f : Nat) (rest : Bytes) : Json.pValue (f + 1) (nullLit ++ rest) = some (.null, rest) := by
  rw [Json.pValue]; simp [nullLit, Json.skipWs, Json.isWs, Json.stripPrefix]
theorem pValue_true (f : Nat) (rest : Bytes) : Json.pValue (f + 1) (trueLit ++ rest) = some (.bool true, rest) := by
  rw [Json.pValue]; simp [trueLit, Json.skipWs, Json.isWs, Json.stripPrefix]
theorem pValue_false (f : Nat) (rest : Bytes) : Json.pValue (f + 1) (falseLit ++ rest) = some (.bool false, rest) := by
  rw [Json.pValue]; simp [falseLit, Json.skipWs, Json.isWs, Json.stripPrefix]

theorem pValue_num (f : Nat) (lit rest : Bytes) (hv : Json.validNumber lit = true) (hr : Term rest) :
    Json.pValue (f + 1) (lit ++ rest) = some (.num lit, rest) := by
  obtain ⟨c, r, e, hc⟩ := validNumber_head lit hv
  have hp := pNum_append lit rest hv hr
  subst e
  have hws : Json.isWs c = false := by simp [Json.isWs]; omega
  rw [Json.pValue]
  simp only [List.cons_append, Json.skipWs, hws] at hp ⊢
  have : c ≠ 34 ∧ c ≠ 91 ∧ c ≠ 123 ∧ c ≠ 110 ∧ c ≠ 116 ∧ c ≠ 102 := by omega
  simp [this, hp]

/-- what `pElems` does after a value: `,` continues, `]` ends -/
def contElems (f : Nat) (v : JVal) (r : Bytes) : Option (List JVal × Bytes) :=
  match Json.skipWs r with
  | [] => none
  | c :: r' =>
    if c = 44 then (Json.pElems f r').map fun (vs, r'') => (v :: vs, r'')
    else if c = 93 then some ([v], r')
    else none

theorem pElems_succ (f : Nat) (inp : Bytes) :
    Json.pElems (f + 1) inp = match Json.pValue f inp with
      | none => none
      | some (v, r) => contElems f v r := by
  rw [Json.pElems]; rfl

theorem contElems_comma (f : Nat) (v : JVal) (r : Bytes) :
    contElems f v (44 :: r) = (Json.pElems f r).map fun (vs, r'') => (v :: vs, r'') := by
  simp [contElems, Json.skipWs, Json.isWs]
theorem contElems_close (f : Nat) (v : JVal) (r : Bytes) : contElems f v (93 :: r) = some ([v], r) := by
  simp [contElems, Json.skipWs, Json.isWs]

/-- what `pMembers` does after a member: `,` continues, `}` ends -/
def contMembers (f : Nat) (k : Bytes) (v : JVal) (r : Bytes) : Option (List Bytes × List JVal × Bytes) :=
  match Json.skipWs r with
  | [] => none
  | c :: r' =>
    if c = 44 then (Json.pMembers f r').map fun (ks, vs, r'') => (k :: ks, v :: vs, r'')
    else if c = 125 then some ([k], [v], r')
    else none

theorem contMembers_comma (f : Nat) (k : Bytes) (v : JVal) (r : Bytes) :
    contMembers f k v (44 :: r) = (Json.pMembers f r).map fun (ks, vs, r'') => (k :: ks, v :: vs, r'') := by
  simp [contMembers, Json.skipWs, Json.isWs]
theorem contMembers_close (f : Nat) (k : Bytes) (v : JVal) (r : Bytes) :
    contMembers f k v (125 :: r) = some ([k], [v], r) := by
  simp [contMembers, Json.skipWs, Json.isWs]

theorem pMembers_key (f : Nat) (k r : Bytes) :
    Json.pMembers (f + 1) (jsonString k ++ 58 :: r) = match Json.pValue f r with
      | none => none
      | some (v, r3) => contMembers f k v r3 := by
  rw [Json.pMembers]
  simp only [jsonString, List.cons_append, List.append_assoc, Json.skipWs]
  have : Json.isWs 34 = false := by decide
  simp only [this]
  simp [pStr_escBody, Json.skipWs, Json.isWs]
  rfl

end Octo.OutFmt

namespace Octo.OutFmt
open Octo Octo.Spec

/-! ### the document a value denotes -/
mutual
/-- the JSON document that `ValueToJson` writes for `v` (as a tree, not as text) -/
def erase (L : Lib) (τ : Ty) (v : Value) : JVal :=
  match pick τ v.rank with
  | none => .null
  | some t =>
    match v with
    | .null => .null
    | .int i => .num (fmtInt i)
    | .float b => if finite b then .num (L.fmtFloatG b) else .null
    | .bool b => .bool b
    | .str s => .str (strBytes s)
    | .time ns loc => .str (L.fmtTime ns loc)
    | .dur ns => .str (L.fmtDur ns)
    | .list xs =>
      match elemTy t with
      | some e => .arr (eraseAll L e xs)
      | none => .arr []
    | .struct xs => .obj ((fieldNames t).map nameBytes) (eraseEach L (fieldTys t) xs)
    | .tuple xs => .arr (eraseEach L (tupleTys t) xs)
def eraseAll (L : Lib) (e : Ty) : List Value → List JVal
  | [] => []
  | x :: xs => erase L e x :: eraseAll L e xs
def eraseEach (L : Lib) : List Ty → List Value → List JVal
  | t :: ts, x :: xs => erase L t x :: eraseEach L ts xs
  | _, _ => []
end

/-- the library prints finite floats in the JSON number grammar -/
def FloatSyntax (L : Lib) : Prop := ∀ b, finite b = true → Json.validNumber (L.fmtFloatG b) = true

/-- first byte of any JSON value the formatter writes -/
def Head (c : Nat) : Prop :=
  c = 110 ∨ c = 116 ∨ c = 102 ∨ c = 34 ∨ c = 91 ∨ c = 123 ∨ c = 45 ∨ (48 ≤ c ∧ c ≤ 57)

theorem head_validNumber (s : Bytes) (h : Json.validNumber s = true) : ∃ c r, s = c :: r ∧ Head c := by
  obtain ⟨c, r, e, hc⟩ := validNumber_head s h
  exact ⟨c, r, e, by unfold Head; omega⟩

theorem encJson_head (L : Lib) (hL : FloatSyntax L) (τ : Ty) (v : Value) (bs : Bytes)
    (h : encJson L τ v = some bs) : ∃ c r, bs = c :: r ∧ Head c := by
  unfold encJson at h
  cases hp : pick τ v.rank with
  | none =>
    simp only [hp] at h
    exact ⟨110, [117, 108, 108], by simpa [nullLit] using h.symm, by simp [Head]⟩
  | some t =>
    simp only [hp] at h
    cases v with
    | null => exact ⟨110, [117, 108, 108], by simpa [nullLit] using h.symm, by simp [Head]⟩
    | int i =>
      simp only [Option.some.injEq] at h; subst h
      exact head_validNumber _ (validNumber_fmtInt i)
    | float b =>
      simp only [Option.some.injEq] at h; subst h
      by_cases hb : finite b = true
      · simp only [hb, if_true]; exact head_validNumber _ (hL b hb)
      · simp only [hb]; exact ⟨110, [117, 108, 108], rfl, by simp [Head]⟩
    | bool b =>
      simp only [Option.some.injEq] at h; subst h
      cases b
      · exact ⟨102, [97, 108, 115, 101], rfl, by simp [Head]⟩
      · exact ⟨116, [114, 117, 101], rfl, by simp [Head]⟩
    | str s => simp only [Option.some.injEq] at h; subst h; exact ⟨34, _, rfl, by simp [Head]⟩
    | time ns loc => simp only [Option.some.injEq] at h; subst h; exact ⟨34, _, rfl, by simp [Head]⟩
    | dur ns => simp only [Option.some.injEq] at h; subst h; exact ⟨34, _, rfl, by simp [Head]⟩
    | list xs =>
      simp only [Option.map_eq_some_iff] at h
      obtain ⟨b, _, e⟩ := h; subst e; exact ⟨91, _, rfl, by simp [Head]⟩
    | struct xs =>
      simp only [Option.map_eq_some_iff] at h
      obtain ⟨b, _, e⟩ := h; subst e; exact ⟨123, _, rfl, by simp [Head]⟩
    | tuple xs =>
      simp only [Option.map_eq_some_iff] at h
      obtain ⟨b, _, e⟩ := h; subst e; exact ⟨91, _, rfl, by simp [Head]⟩

theorem Head.notWs {c : Nat} (h : Head c) : Json.isWs c = false := by
  unfold Head at h; simp [Json.isWs]; omega
theorem Head.ne93 {c : Nat} (h : Head c) : c ≠ 93 := by unfold Head at h; omega
theorem Head.ne125 {c : Nat} (h : Head c) : c ≠ 125 := by unfold Head at h; omega

/-- text that starts with `,` `]` `}` or a line feed ends a number -/
theorem term_of_sep (c : Nat) (r : Bytes) (h : c = 44 ∨ c = 93 ∨ c = 125 ∨ c = 10) : Term (c :: r) := by
  intro c' r' e
  simp only [List.cons.injEq] at e
  obtain ⟨e1, _⟩ := e; subst e1
  simp [Json.isNumChar, Json.isDigit]; omega

end Octo.OutFmt
