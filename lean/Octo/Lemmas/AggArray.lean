import Octo.Lemmas.AggTree
/-!
  `array_agg`: the in-order expansion of the counted tree is *the* sorted arrangement of the
  multiset — two sorted lists representing the same multiset are pointwise `cmp`-equal.
-/
namespace Octo.Agg
open Octo

theorem cnt_append (A B : List Value) (v : Value) : cnt (A ++ B) v = cnt A v + cnt B v := by
  induction A with
  | nil => simp [cnt]
  | cons x r ih => simp only [List.cons_append, cnt_cons, ih]; omega

theorem cnt_replicate (n : Nat) (k v : Value) :
    cnt (List.replicate n k) v = if cmp k v = 0 then (n : Int) else 0 := by
  induction n with
  | zero => simp [cnt]
  | succ n ih =>
    simp only [List.replicate_succ, cnt_cons, ih]
    split <;> simp <;> omega

theorem cnt_expand : ∀ (t : CList), KeysSorted t → AllPos t → ∀ v, cnt (expand t) v = clookup t v
  | [], _, _, _ => rfl
  | (k, c) :: rest, hs, hp, v => by
    obtain ⟨h1, h2⟩ := keysSorted_cons.mp hs
    have hc : 0 < c := hp (k, c) List.mem_cons_self
    have ih := cnt_expand rest h2 (fun e he => hp e (List.mem_cons_of_mem _ he)) v
    simp only [expand, cnt_append, cnt_replicate, clookup, ih]
    by_cases hk : cmp k v = 0
    · have := clookup_eq_zero (t := rest) (v := k) h1 hk
      simp only [hk, if_true, this]; omega
    · simp [hk]

def WSorted (l : List Value) : Prop := l.Pairwise (fun a b => cmp a b ≤ 0)

theorem mem_expand : ∀ (t : CList) (x : Value), x ∈ expand t → ∃ e ∈ t, e.1 = x
  | [], x, h => by simp [expand] at h
  | (k, c) :: rest, x, h => by
    simp only [expand, List.mem_append] at h
    rcases h with h | h
    · exact ⟨(k, c), List.mem_cons_self, (List.eq_of_mem_replicate h).symm⟩
    · obtain ⟨e, he, hx⟩ := mem_expand rest x h
      exact ⟨e, List.mem_cons_of_mem _ he, hx⟩

theorem expand_sorted : ∀ (t : CList), KeysSorted t → WSorted (expand t)
  | [], _ => by simp [expand, WSorted]
  | (k, c) :: rest, hs => by
    obtain ⟨h1, h2⟩ := keysSorted_cons.mp hs
    simp only [expand, WSorted, List.pairwise_append]
    refine ⟨?_, expand_sorted rest h2, ?_⟩
    · rw [List.pairwise_replicate]
      exact Or.inr (by rw [crefl]; omega)
    · intro a ha b hb
      rw [List.eq_of_mem_replicate ha]
      obtain ⟨e, he, hx⟩ := mem_expand rest b hb
      rw [← hx]; have := h1 e he; omega

theorem mem_insertSorted (x : Value) : ∀ (l : List Value) (y : Value), y ∈ insertSorted x l ↔ y = x ∨ y ∈ l
  | [], y => by simp [insertSorted]
  | z :: r, y => by
    simp only [insertSorted]
    split
    · simp
    · simp only [List.mem_cons, mem_insertSorted x r y]
      constructor
      · rintro (h | h | h) <;> simp [h]
      · rintro (h | h | h) <;> simp [h]

theorem cnt_insertSorted (x : Value) : ∀ (l : List Value) (v : Value),
    cnt (insertSorted x l) v = (if cmp x v = 0 then 1 else 0) + cnt l v
  | [], v => by simp [insertSorted, cnt]
  | z :: r, v => by
    simp only [insertSorted]
    split
    · simp only [cnt_cons]
    · simp only [cnt_cons, cnt_insertSorted x r v]; omega

theorem insertSorted_sorted (x : Value) : ∀ (l : List Value), WSorted l → WSorted (insertSorted x l)
  | [], _ => by simp [insertSorted, WSorted]
  | z :: r, hs => by
    have hs' := hs
    simp only [WSorted, List.pairwise_cons] at hs'
    obtain ⟨h1, h2⟩ := hs'
    simp only [insertSorted]
    split
    · rename_i hle
      simp only [WSorted, List.pairwise_cons]
      refine ⟨fun y hy => ?_, h1, h2⟩
      rcases List.mem_cons.mp hy with rfl | hy'
      · exact hle
      · exact ctrans _ _ _ hle (h1 y hy')
    · rename_i hgt
      simp only [WSorted, List.pairwise_cons]
      refine ⟨fun y hy => ?_, insertSorted_sorted x r h2⟩
      rcases (mem_insertSorted x r y).mp hy with rfl | hy'
      · have := casym z y; omega
      · exact h1 y hy'

theorem sortSpec_sorted : ∀ (M : List Value), WSorted (sortSpec M)
  | [] => by simp [sortSpec, WSorted]
  | x :: r => by
    simp only [sortSpec, List.foldr_cons]
    exact insertSorted_sorted x _ (sortSpec_sorted r)

theorem cnt_sortSpec : ∀ (M : List Value) (v : Value), cnt (sortSpec M) v = cnt M v
  | [], _ => rfl
  | x :: r, v => by
    simp only [sortSpec, List.foldr_cons, cnt_cons]
    rw [cnt_insertSorted]
    have := cnt_sortSpec r v
    simp only [sortSpec] at this
    rw [this]

/-- two sorted arrangements of the same multiset are pointwise `cmp`-equal -/
theorem sorted_unique : ∀ (A B : List Value), WSorted A → WSorted B → CntEq A B → cmpList A B = 0
  | [], B, _, _, h => by rw [CntEq.nil_right h.symm]; simp [cmpListWith]
  | a :: A', [], _, _, h => absurd (CntEq.nil_right h) (by simp)
  | a :: A', b :: B', hA, hB, h => by
    have hA' := hA; have hB' := hB
    simp only [WSorted, List.pairwise_cons] at hA' hB'
    have hab : cmp a b = 0 := by
      -- a occurs in B, so b ≤ a; b occurs in A, so a ≤ b
      have ha : 0 < cnt (b :: B') a := by rw [← h a]; exact cnt_pos_of_mem List.mem_cons_self
      have hb : 0 < cnt (a :: A') b := by rw [h b]; exact cnt_pos_of_mem List.mem_cons_self
      obtain ⟨y, hy, hya⟩ := exists_mem_of_cnt_pos ha
      obtain ⟨x, hx, hxb⟩ := exists_mem_of_cnt_pos hb
      have h1 : cmp b a ≤ 0 := by
        rcases List.mem_cons.mp hy with rfl | hy'
        · omega
        · exact ctrans _ _ _ (hB'.1 y hy') (by omega)
      have h2 : cmp a b ≤ 0 := by
        rcases List.mem_cons.mp hx with rfl | hx'
        · omega
        · exact ctrans _ _ _ (hA'.1 x hx') (by omega)
      have := casym a b; omega
    have ht : CntEq A' B' := by
      intro v
      have := h v
      simp only [cnt_cons] at this
      rw [ind_congr_left hab v] at this
      omega
    have ih := sorted_unique A' B' hA'.2 hB'.2 ht
    simp only [cmpList] at ih ⊢
    simp only [cmpListWith, bne_iff_ne, ne_eq, ite_not]
    simp only [cmp] at hab
    simp [hab, ih]

theorem cmp_list (a b : List Value) : cmp (.list a) (.list b) = cmpList a b := by
  simp [cmp, cmpList, cmpWith]

def arrayProof : AggProof arrayAgg (fun _ => True) specArray where
  Inv := TreeInv
  init := tree_init
  step := fun e hi _ _ hv => tree_step e hi hv
  result := by
    intro t L hi _ _
    obtain ⟨hs, hp, hl⟩ := hi
    refine ⟨.list (expand t), rfl, ?_⟩
    rw [specArray, cmp_list]
    apply sorted_unique _ _ (expand_sorted t hs) (sortSpec_sorted L)
    intro v
    rw [cnt_expand t hs hp v, hl v, cnt_sortSpec]
  congr := by
    intro L M _ _ h
    rw [specArray, specArray, cmp_list]
    apply sorted_unique _ _ (sortSpec_sorted L) (sortSpec_sorted M)
    intro v
    rw [cnt_sortSpec, cnt_sortSpec, h v]
  P_congr := fun _ _ => trivial

end Octo.Agg
