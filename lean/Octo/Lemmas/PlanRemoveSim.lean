import Octo.Lemmas.PlanRemoveOps
import Octo.Lemmas.PlanPush
/-!
  One removal step is sound: `rmPlan f p` computes the records of `p` with the field `f` erased, and stays well-formed.
-/
namespace Octo.Plan
open Octo

/-- where an unused field may be removed without being noticed: it must not be a field of a
    table valued function, an ORDER BY / LIMIT node (its tie-break reads every column), an outer join, a key of a
    group-by, or the source side of a lookup join (a DISTINCT over the field counts as a use, so nothing is asked there) -/
def Removable (f : String) : Plan → Prop
  | .leaf _ (.ds _ _ _ _ _) => True
  | .leaf s _ => f ∉ s.fields
  | .un s k src => Removable f src ∧
      (match k with
       | .map _ => True
       | .filter _ => True
       | .unnest _ => True
       | .distinct => True
       | .groupBy _ _ key _ _ =>
         f ∈ s.fields → f ∉ src.fields ∧ f ∉ s.fields.take key.length
       | _ => f ∉ s.fields)
  | .bin s k l r => Removable f l ∧ Removable f r ∧
      (match k with
       | .sjoin _ _ => True
       | .ljoin => f ∉ l.fields
       | .ojoin _ _ _ _ => True)

structure RmOK (db : Db) (f : String) (outer : List String) (p p' : Plan) : Prop where
  good : Good db p' outer
  schema : p'.schema = rmSchema f p.schema
  sim : ∀ ctx, Binds outer ctx → denote db p' ctx = (denote db p ctx).map (List.map (eraseKey f))

theorem RmOK.fields {db : Db} {f : String} {outer : List String} {p p' : Plan} (h : RmOK db f outer p p')
    (hnd : p.fields.Nodup) : p'.fields = eraseField f p.fields := by
  simp only [Plan.fields, h.schema]
  exact rmSchema_fields hnd

theorem denote_map_erase_id {db : Db} {f : String} {p : Plan} {ctx : Ctx} (hf : f ∉ p.fields) :
    (denote db p ctx).map (List.map (eraseKey f)) = denote db p ctx := by
  cases hd : denote db p ctx with
  | none => rfl
  | some rows =>
    simp only [Option.map_some]
    rw [map_eraseKey_id (fun r hr => by rw [denote_names hd r hr]; exact hf)]

theorem RmOK.of_step {db : Db} {f : String} {outer : List String} {p p' : Plan}
    (h : StepOK db outer p p') (hf : f ∉ p.fields) : RmOK db f outer p p' :=
  ⟨h.1, by rw [h.2.1, rmSchema_id hf], fun ctx hb => by rw [h.2.2 ctx hb, denote_map_erase_id hf]⟩

theorem RmOK.toStep {db : Db} {f : String} {outer : List String} {p p' : Plan}
    (h : RmOK db f outer p p') (hf : f ∉ p.fields) : StepOK db outer p p' :=
  ⟨h.good, by rw [h.schema, rmSchema_id hf], fun ctx hb => by rw [h.sim ctx hb, denote_map_erase_id hf]⟩

theorem un_congr {db : Db} {outer : List String} {s : Schema} {k : Un} {src src' : Plan}
    (hg : Good db (.un s k src) outer) (h : StepOK db outer src src') :
    StepOK db outer (.un s k src) (.un s k src') := by
  obtain ⟨hs1, hs2, hs3⟩ := h
  simp only [Good] at hg
  refine ⟨?_, rfl, ?_⟩
  · simp only [Good]
    exact ⟨hg.1, hs1, by rw [hs2]; exact hg.2.2⟩
  · intro ctx hb
    simp only [denote, hs3 ctx hb, hs2]

theorem exprOK_erase {f : String} {fs outer : List String} {e : PExpr} (h : ExprOK (fs ++ outer) e)
    (hf : f ∉ varsUsed e) : ExprOK (eraseField f fs ++ outer) e := by
  refine ⟨?_, h.safe⟩
  intro x hx
  have := h.inScope x hx
  simp only [List.mem_append] at this ⊢
  rcases this with h1 | h1
  · exact Or.inl (mem_eraseField.mpr ⟨h1, fun e' => hf (e' ▸ hx)⟩)
  · exact Or.inr h1

theorem exprsOK_erase {f : String} {fs outer : List String} {es : List PExpr} (h : ExprsOK (fs ++ outer) es)
    (hf : f ∉ varsUsedL es) : ExprsOK (eraseField f fs ++ outer) es :=
  fun e he => exprOK_erase (h e he) (fun hm => hf (mem_varsUsedL.mpr ⟨e, he, hm⟩))

theorem any_eraseField {f g : String} (hgf : g ≠ f) (fs : List String) :
    (eraseField f fs).any (· == g) = fs.any (· == g) := by
  induction fs with
  | nil => rfl
  | cons x fs ih =>
    simp only [eraseField, List.filter_cons] at ih ⊢
    by_cases hx : x = f
    · subst hx
      have : (x == g) = false := by
        simp only [beq_eq_false_iff_ne, ne_eq]
        exact fun e => hgf e.symm
      simp [this, ih]
    · have : (x != f) = true := by simpa using hx
      simp [this, ih]

theorem mem_eraseIdx_of {α : Type} {l : List α} {i : Nat} {x : α} (h : x ∈ l.eraseIdx i) : x ∈ l :=
  List.mem_of_mem_eraseIdx h

theorem varsUsedL_eraseIdx {x : String} {es : List PExpr} {i : Nat} (h : x ∈ varsUsedL (es.eraseIdx i)) :
    x ∈ varsUsedL es := by
  obtain ⟨e, he, hx⟩ := mem_varsUsedL.mp h
  exact mem_varsUsedL.mpr ⟨e, mem_eraseIdx_of he, hx⟩

/-- rows that carry the declared names of a well-formed un-node pass its check -/
theorem checked_id_of_names {f : String} {s : Schema} {o : Option (List Row)} (hf : f ∉ s.fields)
    (hn : ∀ out, o = some out → ∀ r ∈ out, Row.names r = s.fields) :
    (checked s o).map (List.map (eraseKey f)) = checked s o := by
  cases o with
  | none => rfl
  | some out =>
    rw [checked_pass (hn out rfl)]
    simp only [Option.map_some]
    rw [map_eraseKey_id (fun r hr => by rw [hn out rfl r hr]; exact hf)]

theorem rm_sim (db : Db) (f : String) : ∀ (p : Plan) (outer : List String) (p' : Plan),
    Good db p outer → usedBelow f p = false → Removable f p → rmPlan f p = some p' → RmOK db f outer p p' := by
  intro p
  induction p with
  | leaf s k =>
    intro outer p' hg hu hr h
    simp only [rmPlan, Option.some.injEq] at h
    subst h
    cases k with
    | ds name alias pol preds mapping =>
      simp only [Good, LeafGood] at hg
      obtain ⟨hnds, hpreds, htab⟩ := hg
      simp only [usedBelow, usedAtNode, nodeExprs, Bool.or_eq_false_iff] at hu
      have hfp : f ∉ varsUsedL preds := not_uses_of_L hu.1
      have hfields := rmSchema_fields (f := f) hnds
      refine ⟨?_, rfl, ?_⟩
      · simp only [Good, LeafGood, hfields]
        refine ⟨nodup_eraseField hnds, exprsOK_erase hpreds hfp, ?_⟩
        intro trows hdb
        have := htab trows hdb
        cases ht : tableRows mapping s.fields trows with
        | none => rw [ht] at this; cases this
        | some rows => rw [tableRows_erase ht]; rfl
      · intro ctx hb
        simp only [denote, leafRows, dsRows, hfields]
        cases hdb : db name with
        | none => rfl
        | some trows =>
          simp only
          have := htab trows hdb
          cases ht : tableRows mapping s.fields trows with
          | none => rw [ht] at this; cases this
          | some rows =>
            have hn := tableRows_names ht
            rw [tableRows_erase ht]
            simp only
            rw [andAll_erase hfp]
            apply checked_erase hfields
            intro out ho
            rw [andAll_good hn hb hpreds] at ho
            simp only [Option.some.injEq] at ho
            subst ho
            exact names_of_filter hn
    | mem n =>
      simp only [Removable] at hr
      rw [rmSchema_id hr]
      exact RmOK.of_step (StepOK.refl hg) hr
    | tvf name args =>
      simp only [Removable] at hr
      rw [rmSchema_id hr]
      exact RmOK.of_step (StepOK.refl hg) hr
  | un s k src ih =>
    intro outer p' hg hu hr h
    simp only [usedBelow, Bool.or_eq_false_iff] at hu
    obtain ⟨husrc, hunode⟩ := hu
    simp only [Removable] at hr
    obtain ⟨hrsrc, hrk⟩ := hr
    simp only [rmPlan] at h
    cases hsrc' : rmPlan f src with
    | none => simp [hsrc'] at h
    | some src' =>
      simp only [hsrc'] at h
      have hgsrc : Good db src outer := by simp only [Good] at hg; exact hg.2.1
      have hnds : s.fields.Nodup := by simp only [Good] at hg; exact hg.1
      have hug : UnGood outer s src.schema k := by simp only [Good] at hg; exact hg.2.2
      have IH := ih outer src' hgsrc husrc hrsrc hsrc'
      have hsf : src'.fields = eraseField f src.fields := IH.fields hgsrc.nodup
      have hsn : src'.schema.noRetr = src.schema.noRetr := by rw [IH.schema, rmSchema_noRetr]
      simp only [usedAtNode, Bool.or_eq_false_iff] at hunode
      obtain ⟨huex, hukind⟩ := hunode
      cases k with
      | map es =>
        simp only [nodeExprs] at huex
        have hfes : f ∉ varsUsedL es := not_uses_of_L huex
        simp only [UnGood] at hug
        obtain ⟨hes, hlen⟩ := hug
        cases hi : lastIndexOf f s.fields with
        | none =>
          simp only [hi, Option.some.injEq] at h
          subst h
          have hfs : f ∉ s.fields := fun hm => by
            obtain ⟨j, hj, _⟩ := lastIndexOf_some hnds hm
            rw [hi] at hj
            cases hj
          have hrs : rmSchema f s = s := rmSchema_id hfs
          rw [hrs]
          refine ⟨?_, hrs.symm, ?_⟩
          · simp only [Good, UnGood]
            refine ⟨hnds, IH.good, ?_, hlen⟩
            show ExprsOK (src'.fields ++ outer) es
            rw [hsf]
            exact exprsOK_erase hes hfes
          · intro ctx hb
            simp only [denote, unRows, IH.sim ctx hb]
            cases hd : denote db src ctx with
            | none => rfl
            | some rows =>
              simp only [Option.map_some]
              rw [mapRows_erase_src hfes]
              exact (checked_id_of_names hfs (fun out ho => mapRows_names ho)).symm
        | some i =>
          simp only [hi] at h
          cases hea : eraseAt es i with
          | none => simp [hea] at h
          | some es' =>
            simp only [hea, Option.some.injEq] at h
            subst h
            obtain ⟨j, hj, hjlt, hjf, hje⟩ := lastIndexOf_some hnds (mem_of_lastIndexOf hi)
            rw [hi] at hj
            simp only [Option.some.injEq] at hj
            subst hj
            have hes' : es' = es.eraseIdx i := by
              unfold eraseAt at hea
              split at hea
              · simpa using hea.symm
              · cases hea
            have hilt : i < es.length := by rw [hlen]; exact hjlt
            have hfields' : (eraseSchemaField s i).fields = eraseField f s.fields := by
              simp only [eraseSchemaField, hje]
            have hfes' : f ∉ varsUsedL es' := by
              rw [hes']
              exact fun hm => hfes (varsUsedL_eraseIdx hm)
            refine ⟨?_, by simp only [schema_un, rmSchema, hi], ?_⟩
            · simp only [Good, UnGood]
              refine ⟨by rw [hfields']; exact nodup_eraseField hnds, IH.good, ?_, ?_⟩
              · show ExprsOK (src'.fields ++ outer) es'
                rw [hsf, hes']
                exact fun e he => exprOK_erase (hes e (mem_eraseIdx_of he))
                  (fun hm => hfes (mem_varsUsedL.mpr ⟨e, mem_eraseIdx_of he, hm⟩))
              · rw [hes', List.length_eraseIdx, hfields', ← hje, List.length_eraseIdx, hlen]
            · intro ctx hb
              simp only [denote, unRows, IH.sim ctx hb]
              cases hd : denote db src ctx with
              | none => rfl
              | some rows =>
                have hn := denote_names hd
                simp only [Option.map_some]
                rw [mapRows_erase_src hfes']
                have hsome := mapRows_isSome (fs := s.fields) hes hlen hb hn
                cases hm : mapRows ctx s.fields es rows with
                | none => rw [hm] at hsome; cases hsome
                | some out =>
                  have hdrop := mapRows_drop (f := f) hnds hjf hm
                  simp only [eraseSchemaField, hes', hdrop]
                  have hno := mapRows_names hm
                  rw [checked_pass hno]
                  simp only [Option.map_some]
                  apply checked_pass
                  intro r hr
                  simp only [List.mem_map] at hr
                  obtain ⟨r0, hr0, rfl⟩ := hr
                  rw [names_eraseKey, hno r0 hr0, hje]
      | filter e =>
        simp only [nodeExprs, exprUsesVarL, Bool.or_false] at huex
        have hfe : f ∉ varsUsed e := fun hm => by
          rw [← exprUsesVar_iff] at hm
          rw [huex] at hm
          cases hm
        simp only [UnGood] at hug
        obtain ⟨hs, he⟩ := hug
        subst hs
        have h' : some (Plan.un (rmSchema f src.schema) (.filter e) src') = some p' := by
          cases hi : lastIndexOf f src.schema.fields <;> simpa [hi] using h
        simp only [Option.some.injEq] at h'
        subst h'
        refine ⟨?_, rfl, ?_⟩
        · simp only [Good, UnGood]
          refine ⟨by rw [rmSchema_fields hnds]; exact nodup_eraseField hnds, IH.good, IH.schema.symm, ?_⟩
          show ExprOK (src'.fields ++ outer) e
          rw [hsf]
          exact exprOK_erase he hfe
        · intro ctx hb
          simp only [denote, unRows, IH.sim ctx hb]
          cases hd : denote db src ctx with
          | none => rfl
          | some rows =>
            have hn := denote_names hd
            simp only [Option.map_some]
            rw [filterRows_erase hfe]
            apply checked_erase (rmSchema_fields hnds)
            intro out ho
            rw [filterRows_good hn hb he] at ho
            simp only [Option.some.injEq] at ho
            subst ho
            exact names_of_filter hn
      | unnest g =>
        have hgf : g ≠ f := by
          intro e
          subst e
          simp at hukind
        simp only [UnGood] at hug
        have h' : some (Plan.un (rmSchema f s) (.unnest g) src') = some p' := by
          cases hi : lastIndexOf f s.fields <;> simpa [hi] using h
        simp only [Option.some.injEq] at h'
        subst h'
        refine ⟨?_, rfl, ?_⟩
        · simp only [Good, UnGood]
          refine ⟨by rw [rmSchema_fields hnds]; exact nodup_eraseField hnds, IH.good, ?_⟩
          rw [rmSchema_fields hnds, hug]
          exact hsf.symm
        · intro ctx hb
          simp only [denote, unRows, IH.sim ctx hb]
          cases hd : denote db src ctx with
          | none => rfl
          | some rows =>
            have hn := denote_names hd
            simp only [Option.map_some]
            rw [rmSchema_fields hnds, any_eraseField hgf]
            split
            · rw [unnestRows_erase hgf]
              apply checked_erase (rmSchema_fields hnds)
              intro out ho
              rw [hug]
              exact unnestRows_names hn ho
            · rfl
      | groupBy aggs aggExprs key kti trig =>
        simp only [nodeExprs] at huex
        have hfall : f ∉ varsUsedL (aggExprs ++ key) := not_uses_of_L huex
        have hfa : f ∉ varsUsedL aggExprs := fun hm => hfall (by
          obtain ⟨e, he, hx⟩ := mem_varsUsedL.mp hm
          exact mem_varsUsedL.mpr ⟨e, List.mem_append_left _ he, hx⟩)
        have hfk : f ∉ varsUsedL key := fun hm => hfall (by
          obtain ⟨e, he, hx⟩ := mem_varsUsedL.mp hm
          exact mem_varsUsedL.mpr ⟨e, List.mem_append_right _ he, hx⟩)
        simp only [UnGood] at hug
        obtain ⟨hes, hl1, hl2, htot⟩ := hug
        cases hi : lastIndexOf f s.fields with
        | none =>
          have hfs : f ∉ s.fields := fun hm => by
            obtain ⟨j, hj, _⟩ := lastIndexOf_some hnds hm
            rw [hi] at hj
            cases hj
          have hrs : rmSchema f s = s := rmSchema_id hfs
          simp only [hi, Option.some.injEq] at h
          subst h
          rw [hrs]
          refine ⟨?_, hrs.symm, ?_⟩
          · simp only [Good, UnGood]
            refine ⟨hnds, IH.good, ?_, hl1, hl2, ?_⟩
            · show ExprsOK (src'.fields ++ outer) (aggExprs ++ key)
              rw [hsf]
              exact exprsOK_erase hes hfall
            · intro ctx rows hb
              show (groupByRows ctx s.fields aggs aggExprs key rows).isSome = true
              have hb' : ∀ r ∈ rows, Binds (src.fields ++ outer) (r :: (ctx ++ [[(f, Value.null)]])) := by
                intro r hr
                have := binds_snoc_erase (f := f) (fs := src.fields) Value.null (c := r :: ctx) (by
                  have := hb r hr
                  simp only [Plan.fields] at hsf
                  rw [hsf] at this
                  exact this)
                simpa using this
              have := htot (ctx ++ [[(f, Value.null)]]) rows hb'
              simp only [groupByRows, keyInputs_snoc hfk hfa] at this
              simpa only [groupByRows] using this
          · intro ctx hb
            simp only [denote, unRows, IH.sim ctx hb]
            cases hd : denote db src ctx with
            | none => rfl
            | some rows =>
              simp only [Option.map_some]
              split
              · simp only [groupByRows, keyInputs_erase hfk hfa]
                refine (checked_id_of_names hfs ?_).symm
                intro out ho
                cases hk : keyInputs ctx key aggExprs rows with
                | none => simp [hk] at ho
                | some pairs =>
                  simp only [hk] at ho
                  exact groupOut_names ho
              · rfl
        | some i =>
          have hfin : f ∈ s.fields := mem_of_lastIndexOf hi
          obtain ⟨hfsrc, hkey⟩ := hrk hfin
          obtain ⟨j, hj, hjlt, hjf, hje⟩ := lastIndexOf_some hnds hfin
          rw [hi] at hj
          simp only [Option.some.injEq] at hj
          subst hj
          have hki : key.length ≤ i := by
            rcases Nat.lt_or_ge i key.length with h' | h'
            · exact absurd (mem_take_of_getElem? hjf h') hkey
            · exact h'
          simp only [hi] at h
          cases hea : eraseAt aggExprs ((i : Int) - key.length) with
          | none => simp [hea] at h
          | some aggExprs' =>
            cases heb : eraseAt aggs ((i : Int) - key.length) with
            | none => simp [hea, heb] at h
            | some aggs' =>
              simp only [hea, heb, Option.some.injEq] at h
              subst h
              have hidx : ((i : Int) - key.length).toNat = i - key.length := by omega
              have hae : aggExprs' = aggExprs.eraseIdx (i - key.length) := by
                unfold eraseAt at hea
                split at hea
                · rw [hidx] at hea; simpa using hea.symm
                · cases hea
              have hag : aggs' = aggs.eraseIdx (i - key.length) := by
                unfold eraseAt at heb
                split at heb
                · rw [hidx] at heb; simpa using heb.symm
                · cases heb
              have hjlen : i - key.length < aggs.length := by
                unfold eraseAt at heb
                split at heb
                · rename_i hc; rw [hidx] at hc; exact hc.2
                · cases heb
              have hieq : key.length + (i - key.length) = i := by omega
              have hsrcstep := IH.toStep hfsrc
              have hsf' : src'.fields = src.fields := by simp only [Plan.fields, hsrcstep.2.1]
              have hfields' : (eraseSchemaField s i).fields = eraseField f s.fields := by
                simp only [eraseSchemaField, hje]
              have hfall' : ExprsOK (src'.fields ++ outer) (aggExprs' ++ key) := by
                rw [hsf', hae]
                intro e he
                rcases List.mem_append.mp he with he | he
                · exact hes e (List.mem_append_left _ (mem_eraseIdx_of he))
                · exact hes e (List.mem_append_right _ he)
              have hdrop : ∀ ctx rows out, groupByRows ctx s.fields aggs aggExprs key rows = some out →
                  groupByRows ctx (eraseSchemaField s i).fields aggs' aggExprs' key rows = some (out.map (eraseKey f)) := by
                intro ctx rows out ho
                have := groupByRows_dropAgg (f := f) (j := i - key.length) hnds (by rw [hieq]; exact hjf) ho
                rw [hieq] at this
                simpa only [eraseSchemaField, hae, hag] using this
              refine ⟨?_, by simp only [schema_un, rmSchema, hi], ?_⟩
              · simp only [Good, UnGood]
                refine ⟨by rw [hfields']; exact nodup_eraseField hnds, IH.good, hfall', ?_, ?_, ?_⟩
                · rw [hae, hag, List.length_eraseIdx, List.length_eraseIdx, hl1]
                · have h1 : i < key.length + aggs.length := by rw [← hl2]; exact hjlt
                  rw [hag, List.length_eraseIdx, hfields', ← hje, List.length_eraseIdx, hl2]
                  simp only [h1, hjlen, if_true]
                  omega
                · intro ctx rows hb
                  have hb' : ∀ r ∈ rows, Binds (src.fields ++ outer) (r :: ctx) := by
                    intro r hr
                    have := hb r hr
                    simp only [Plan.fields] at hsf'
                    rw [hsf'] at this
                    exact this
                  have := htot ctx rows hb'
                  cases ho : groupByRows ctx s.fields aggs aggExprs key rows with
                  | none => rw [ho] at this; cases this
                  | some out => rw [hdrop ctx rows out ho]; rfl
              · intro ctx hb
                simp only [denote, unRows, hsrcstep.2.2 ctx hb]
                cases hd : denote db src ctx with
                | none => rfl
                | some rows =>
                  have hn := denote_names hd
                  simp only
                  split
                  · have hsome := htot ctx rows (fun r hr => binds_cons (hn r hr) hb)
                    cases ho : groupByRows ctx s.fields aggs aggExprs key rows with
                    | none => rw [ho] at hsome; cases hsome
                    | some out =>
                      rw [hdrop ctx rows out ho]
                      have hno : ∀ r ∈ out, Row.names r = s.fields := by
                        unfold groupByRows at ho
                        cases hk : keyInputs ctx key aggExprs rows with
                        | none => simp [hk] at ho
                        | some pairs =>
                          simp only [hk] at ho
                          exact groupOut_names ho
                      rw [checked_pass hno]
                      simp only [Option.map_some]
                      apply checked_pass
                      intro r hr
                      simp only [List.mem_map] at hr
                      obtain ⟨r0, hr0, rfl⟩ := hr
                      rw [names_eraseKey, hno r0 hr0, hfields']
                  · rfl
      | distinct =>
        have hfs : f ∉ s.fields := by
          intro hm
          have : (s.fields.any fun x => x == f) = true := List.any_eq_true.mpr ⟨f, hm, by simp⟩
          simp only at hukind
          rw [this] at hukind
          cases hukind
        simp only [UnGood] at hug
        have hfsrc : f ∉ src.fields := fun hm => hfs (by rw [hug]; exact hm)
        have h' : some (Plan.un s .distinct src') = some p' := by
          rw [← rmSchema_id hfs]
          cases hi : lastIndexOf f s.fields <;> simpa [hi] using h
        simp only [Option.some.injEq] at h'
        subst h'
        exact RmOK.of_step (un_congr hg (IH.toStep hfsrc)) hfs
      | ost keys mults limit =>
        have hfs : f ∉ s.fields := hrk
        simp only [UnGood] at hug
        have hfsrc : f ∉ src.fields := fun hm => hfs (by rw [hug.1]; exact hm)
        have h' : some (Plan.un s (.ost keys mults limit) src') = some p' := by
          rw [← rmSchema_id hfs]
          cases hi : lastIndexOf f s.fields <;> simpa [hi] using h
        simp only [Option.some.injEq] at h'
        subst h'
        exact RmOK.of_step (un_congr hg (IH.toStep hfsrc)) hfs
      | tvf name args tname =>
        have hfs : f ∉ s.fields := hrk
        have hrs : rmSchema f s = s := rmSchema_id hfs
        have h' : some (Plan.un s (.tvf name args tname) src') = some p' := by
          rw [← hrs]
          cases hi : lastIndexOf f s.fields <;> simpa [hi, hrs] using h
        simp only [Option.some.injEq] at h'
        subst h'
        simp only [UnGood] at hug
        by_cases hname : name = "max_diff_watermark"
        · have hfsrc : f ∉ src.fields := fun hm => hfs (by rw [hug hname]; exact hm)
          exact RmOK.of_step (un_congr hg (IH.toStep hfsrc)) hfs
        · have hne : (name == "max_diff_watermark") = false := by simpa using hname
          refine ⟨?_, hrs.symm, ?_⟩
          · simp only [Good, UnGood]
            exact ⟨hnds, IH.good, fun h => absurd h hname⟩
          · intro ctx hb
            simp only [denote, unRows, hne, Bool.false_eq_true, if_false, IH.sim ctx hb]
            cases denote db src ctx <;> rfl
  | bin s k l r ihl ihr =>
    intro outer p' hg hu hr h
    simp only [usedBelow, Bool.or_eq_false_iff] at hu
    obtain ⟨⟨hul, hur⟩, hunode⟩ := hu
    simp only [Removable] at hr
    obtain ⟨hrl, hrr, hrk⟩ := hr
    simp only [rmPlan] at h
    cases hl' : rmPlan f l with
    | none => simp [hl'] at h
    | some l' =>
      cases hr' : rmPlan f r with
      | none => simp [hl', hr'] at h
      | some r' =>
        simp only [hl', hr', Option.some.injEq] at h
        subst h
        simp only [usedAtNode, Bool.or_eq_false_iff] at hunode
        obtain ⟨huex, _⟩ := hunode
        cases k with
        | sjoin lk rk =>
          simp only [Good, BinGood] at hg
          obtain ⟨hnds, hgl, hgr, hs2, hlk, hrk', hlen⟩ := hg
          have IHl := ihl outer l' hgl hul hrl hl'
          have IHr := ihr outer r' hgr hur hrr hr'
          have hlf := IHl.fields hgl.nodup
          have hrf := IHr.fields hgr.nodup
          simp only [nodeExprs] at huex
          have hfall : f ∉ varsUsedL (lk ++ rk) := not_uses_of_L huex
          have hfl : f ∉ varsUsedL lk := fun hm => hfall (by
            obtain ⟨e, he, hx⟩ := mem_varsUsedL.mp hm
            exact mem_varsUsedL.mpr ⟨e, List.mem_append_left _ he, hx⟩)
          have hfr : f ∉ varsUsedL rk := fun hm => hfall (by
            obtain ⟨e, he, hx⟩ := mem_varsUsedL.mp hm
            exact mem_varsUsedL.mpr ⟨e, List.mem_append_right _ he, hx⟩)
          refine ⟨?_, rfl, ?_⟩
          · simp only [Good, BinGood, hlf, hrf]
            refine ⟨by rw [rmSchema_fields hnds]; exact nodup_eraseField hnds, IHl.good, IHr.good, ?_,
              exprsOK_erase hlk hfl, exprsOK_erase hrk' hfr, hlen⟩
            rw [rmSchema_fields hnds, hs2, eraseField_append]
          · intro ctx hb
            simp only [denote, binRows, IHl.sim ctx hb, IHr.sim ctx hb]
            cases hdl : denote db l ctx with
            | none => rfl
            | some ls =>
              cases hdr : denote db r ctx with
              | none => rfl
              | some rs =>
                simp only [Option.map_some]
                rw [joinRows_erase hfl hfr]
                apply checked_erase (rmSchema_fields hnds)
                intro out ho
                rw [joinRows_good (denote_names hdl) (denote_names hdr) hb hlk hrk'] at ho
                simp only [Option.some.injEq] at ho
                subst ho
                rw [hs2]
                exact names_of_join (denote_names hdl) (denote_names hdr)
        | ljoin =>
          simp only [Good, BinGood] at hg
          obtain ⟨hnds, hgl, hgr, ⟨hs2, hdisj⟩, htot⟩ := hg
          have hfl : f ∉ l.fields := hrk
          have IHl := ihl outer l' hgl hul hrl hl'
          have IHr := ihr (l.fields ++ outer) r' hgr hur hrr hr'
          have hlstep := IHl.toStep hfl
          have hlf : l'.fields = l.fields := by simp only [Plan.fields, hlstep.2.1]
          have hrf := IHr.fields hgr.nodup
          refine ⟨?_, rfl, ?_⟩
          · simp only [Good, BinGood, hlf, hrf]
            refine ⟨by rw [rmSchema_fields hnds]; exact nodup_eraseField hnds, hlstep.1, IHr.good, ⟨?_, ?_⟩, ?_⟩
            · rw [rmSchema_fields hnds, hs2, eraseField_append, eraseField_id hfl]
            · intro x hx hm
              exact hdisj x hx (mem_eraseField.mp hm).1
            · intro ctx hb
              rw [IHr.sim ctx hb]
              have := htot ctx hb
              cases hd : denote db r ctx with
              | none => rw [hd] at this; cases this
              | some rows => rfl
          · intro ctx hb
            simp only [denote, hlstep.2.2 ctx hb]
            cases hdl : denote db l ctx with
            | none => rfl
            | some ls =>
              have hnl := denote_names hdl
              have hbl : ∀ x ∈ ls, Binds (l.fields ++ outer) (x :: ctx) := fun x hx => binds_cons (hnl x hx) hb
              have htotl : ∀ x ∈ ls, (denote db r (x :: ctx)).isSome = true := fun x hx => htot _ (hbl x hx)
              have htotl' : ∀ x ∈ ls, (denote db r' (x :: ctx)).isSome = true := by
                intro x hx
                rw [IHr.sim _ (hbl x hx)]
                have := htotl x hx
                cases hd : denote db r (x :: ctx) with
                | none => rw [hd] at this; cases this
                | some rows => rfl
              simp only
              rw [lookupJoinRows_some htotl, lookupJoinRows_some htotl']
              have hflat : (ls.flatMap fun x => ((denote db r' (x :: ctx)).getD []).map fun j => x ++ j) =
                  (ls.flatMap fun x => ((denote db r (x :: ctx)).getD []).map fun j => x ++ j).map (eraseKey f) := by
                rw [List.map_flatMap]
                apply flatMap_congr'
                intro x hx
                rw [IHr.sim _ (hbl x hx)]
                have hx' : f ∉ Row.names x := by rw [hnl x hx]; exact hfl
                cases denote db r (x :: ctx) with
                | none => rfl
                | some rows =>
                  simp only [Option.map_some, Option.getD_some, List.map_map]
                  apply List.map_congr_left
                  intro j _
                  simp only [Function.comp, eraseKey_append, eraseKey_id hx']
              rw [hflat]
              have := checked_erase (f := f) (s := s) (s' := rmSchema f s) (rmSchema_fields hnds)
                (o := some (ls.flatMap fun x => ((denote db r (x :: ctx)).getD []).map fun j => x ++ j)) (by
                  intro out ho
                  simp only [Option.some.injEq] at ho
                  subst ho
                  intro x hx
                  simp only [List.mem_flatMap, List.mem_map] at hx
                  obtain ⟨a, ha, j, hj, rfl⟩ := hx
                  cases hd : denote db r (a :: ctx) with
                  | none => rw [hd] at hj; simp at hj
                  | some rows =>
                    rw [hd] at hj
                    rw [names_append, hnl a ha, denote_names hd j hj, hs2])
              simpa using this
        | ojoin il ir lk rk =>
          simp only [Good, BinGood] at hg
          obtain ⟨hnds, hgl, hgr, hs2, hlk, hrk'⟩ := hg
          have IHl := ihl outer l' hgl hul hrl hl'
          have IHr := ihr outer r' hgr hur hrr hr'
          have hlf := IHl.fields hgl.nodup
          have hrf := IHr.fields hgr.nodup
          simp only [nodeExprs] at huex
          have hfall : f ∉ varsUsedL (lk ++ rk) := not_uses_of_L huex
          have hfl : f ∉ varsUsedL lk := fun hm => hfall (by
            obtain ⟨e, he, hx⟩ := mem_varsUsedL.mp hm
            exact mem_varsUsedL.mpr ⟨e, List.mem_append_left _ he, hx⟩)
          have hfr : f ∉ varsUsedL rk := fun hm => hfall (by
            obtain ⟨e, he, hx⟩ := mem_varsUsedL.mp hm
            exact mem_varsUsedL.mpr ⟨e, List.mem_append_right _ he, hx⟩)
          refine ⟨?_, rfl, ?_⟩
          · simp only [Good, BinGood, hlf, hrf]
            refine ⟨by rw [rmSchema_fields hnds]; exact nodup_eraseField hnds, IHl.good, IHr.good, ?_,
              exprsOK_erase hlk hfl, exprsOK_erase hrk' hfr⟩
            rw [rmSchema_fields hnds, hs2, eraseField_append]
          · intro ctx hb
            simp only [denote, binRows, IHl.sim ctx hb, IHr.sim ctx hb, hlf, hrf]
            cases hdl : denote db l ctx with
            | none => rfl
            | some ls =>
              cases hdr : denote db r ctx with
              | none => rfl
              | some rs =>
                simp only [Option.map_some]
                rw [outerJoinRows_erase hfl hfr]
                apply checked_erase (rmSchema_fields hnds)
                intro out ho
                rw [hs2]
                exact outerJoinRows_names (denote_names hdl) (denote_names hdr) ho

end Octo.Plan
