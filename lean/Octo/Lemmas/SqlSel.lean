import Octo.Lemmas.SqlTbl
/-!
# Round trip of select statements, and the induction over the nesting depth (C30)
-/
set_option linter.unusedSimpArgs false
namespace Octo.SqlSyn

/-- the next token starts one of the clauses `ks`, closes a parenthesis, or the input ends -/
def startsIn (ks : List Kw) : List Tok → Bool
  | [] => true
  | t :: _ => t == Tok.kw .RPAREN || ks.any (fun k => t == Tok.kw k)

def clauseKw : Kw → Bool
  | .WHERE => true | .GROUP => true | .HAVING => true | .TRIGGER => true | .ORDER => true | .LIMIT => true
  | _ => false

theorem startsIn_cons {ks : List Kw} {rest : List Tok} (k : Kw) (h : startsIn ks rest = true) :
    startsIn (k :: ks) rest = true := by
  cases rest with
  | nil => rfl
  | cons t ts =>
    simp [startsIn] at h ⊢
    rcases h with h | h
    · exact Or.inl h
    · exact Or.inr (Or.inr h)

theorem startsIn_head {ks : List Kw} {t : Tok} {ts : List Tok} (h : startsIn ks (t :: ts) = true) :
    t = Tok.kw .RPAREN ∨ ∃ k ∈ ks, t = Tok.kw k := by
  simp [startsIn] at h
  rcases h with h | ⟨k, hk, h⟩
  · exact Or.inl h
  · exact Or.inr ⟨k, hk, h⟩

/-- a token that starts a clause (or `)`) stops every expression, table reference and item -/
theorem startsIn_props {ks : List Kw} (hks : ∀ k ∈ ks, clauseKw k = true) {rest : List Tok}
    (h : startsIn ks rest = true) :
    follow 1 rest = true ∧ followT rest = true ∧ headIs .ON rest = false ∧ headIs .USING rest = false ∧
      headIs .COMMA rest = false ∧ headIs .ASC rest = false ∧ headIs .DESC rest = false ∧
      headIs .OFFSET rest = false ∧ (∀ k, clauseKw k = true → k ∉ ks → headIs k rest = false) ∧
      headIs .JSON_EXPLODE_OP rest = false := by
  cases rest with
  | nil => simp [follow, followT, headIs_nil]
  | cons t ts =>
    rcases startsIn_head h with rfl | ⟨k, hk, rfl⟩
    · simp [follow, tokLevel, followT, stopT, headIs_cons]
      intro k hk _ h; subst h; simp [clauseKw] at hk
    · have hc := hks k hk
      refine ⟨?_, ?_, ?_, ?_, ?_, ?_, ?_, ?_, ?_, ?_⟩
      case refine_9 => intro k' hk' hnot; simp [headIs_cons]; intro h; subst h; exact hnot hk
      all_goals (cases k <;> simp [clauseKw] at hc <;> simp [follow, tokLevel, followT, stopT, headIs_cons])

theorem okOrders_mem {es : List Expr} (h : okOrders es = true) : ∀ x ∈ es, okOrder x = true := by
  induction es with
  | nil => simp
  | cons e es ih =>
    simp [okOrders] at h
    intro x hx
    simp at hx
    rcases hx with rfl | hx
    · exact h.1
    · exact ih h.2 x hx
theorem okTrigs_mem {es : List Expr} (h : okTrigs es = true) : ∀ x ∈ es, okTrig x = true := by
  induction es with
  | nil => simp
  | cons e es ih =>
    simp [okTrigs] at h
    intro x hx
    simp at hx
    rcases hx with rfl | hx
    · exact h.1
    · exact ih h.2 x hx

section level
variable {prev : Parsers} {d : Nat} (hp : PrevOK prev d)
include hp

/-- WHERE / HAVING -/
theorem whereOpt_rt (k : Kw) (w : Option Expr) (hok : okOE w = true) (hd : depthOE w ≤ d) (ks : List Kw)
    (hks : ∀ k ∈ ks, clauseKw k = true) (hck : clauseKw k = true) (hk : k ∉ ks) (tl : List Tok)
    (hf : startsIn ks tl = true) :
    parseWhereOpt prev k (printWhereK k w ++ tl) = some (w, tl) := by
  obtain ⟨h1, _, _, _, _, _, _, _, h9, _⟩ := startsIn_props hks hf
  cases w with
  | none => simp [printWhereK, parseWhereOpt, h9 k hck hk]
  | some e =>
    simp [okOE] at hok
    simp [depthOE] at hd
    simp [printWhereK, parseWhereOpt, headIs_cons, rt1 hp e hok.1 hok.2 hd tl h1]

/-- a comma separated list of expressions followed by the start of a later clause -/
theorem exprList_rt (x : Expr) (xs : List Expr) (hok : okEs (x :: xs) = true) (hd : depthEs (x :: xs) ≤ d)
    (ks : List Kw) (hks : ∀ k ∈ ks, clauseKw k = true) (tl : List Tok) (hf : startsIn ks tl = true) :
    sepBy1 (parseExpr prev) (printE x ++ (ListFmt.items [Tok.kw .COMMA] (printEs xs) ++ tl)) = some (x :: xs, tl) := by
  rw [printEs_eq_map]
  exact sepBy1_rt (parseExpr prev) printE (fun e => okE e = true ∧ 1 ≤ e.lvl ∧ depthE e ≤ d)
    (fun r => startsIn ks r = true)
    (by
      intro e ⟨h1, h2, h3⟩ r hr
      apply rt1 hp e h1 h2 h3
      rcases hr with hr | ⟨ts, rfl⟩
      · exact (startsIn_props hks hr).1
      · simp [follow, tokLevel])
    (by
      intro t ts h hc; subst hc
      have := (startsIn_props hks h).2.2.2.2.1
      simp [headIs_cons] at this)
    x xs
    (by intro y hy; exact ⟨(okEs_mem hok y hy).1, (okEs_mem hok y hy).2, depthEs_mem hd y hy⟩)
    tl hf

theorem groupBy_rt (g : List Expr) (hok : okEs g = true) (hd : depthEs g ≤ d) (ks : List Kw)
    (hks : ∀ k ∈ ks, clauseKw k = true) (hk : Kw.GROUP ∉ ks) (tl : List Tok) (hf : startsIn ks tl = true) :
    parseGroupByOpt prev (Gen.list_GroupBy.run (printEs g) ++ tl) = some (g, tl) := by
  cases g with
  | nil =>
    have := (startsIn_props hks hf).2.2.2.2.2.2.2.2.1 .GROUP rfl hk
    simp [printEs, run_GroupBy_nil, parseGroupByOpt, this]
  | cons x xs =>
    have := exprList_rt hp x xs hok hd ks hks tl hf
    simp [printEs, run_GroupBy_cons, parseGroupByOpt, headIs_cons] at this ⊢
    exact this

/-- one trigger -/
theorem trigger_rt (t : Expr) (hok : okTrig t = true) (hd : depthE t ≤ d) (rest : List Tok)
    (hf : follow 1 rest = true) : parseTrigger prev (printE t ++ rest) = some (t, rest) := by
  cases t with
  | trigWm => simp [printE_trigWm, parseTrigger]
  | trigEos => simp [printE_trigEos, parseTrigger]
  | trigCount e =>
    simp [okTrig] at hok
    simp [depthE] at hd
    simp [printE_trigCount, parseTrigger, rt1 hp e hok.1 hok.2 hd rest hf]
  | trigDelay e =>
    simp [okTrig] at hok
    simp [depthE] at hd
    simp [printE_trigDelay, parseTrigger, rt1 hp e hok.1 hok.2 hd rest hf]
  | _ => simp [okTrig] at hok

theorem triggers_rt (g : List Expr) (hok : okTrigs g = true) (hd : depthEs g ≤ d) (ks : List Kw)
    (hks : ∀ k ∈ ks, clauseKw k = true) (hk : Kw.TRIGGER ∉ ks) (tl : List Tok) (hf : startsIn ks tl = true) :
    parseTriggerOpt prev (Gen.list_Triggers.run (printEs g) ++ tl) = some (g, tl) := by
  cases g with
  | nil =>
    have := (startsIn_props hks hf).2.2.2.2.2.2.2.2.1 .TRIGGER rfl hk
    simp [printEs, run_Triggers_nil, parseTriggerOpt, this]
  | cons x xs =>
    have := sepBy1_rt (parseTrigger prev) printE (fun e => okTrig e = true ∧ depthE e ≤ d)
      (fun r => startsIn ks r = true)
      (by
        intro e ⟨h1, h3⟩ r hr
        apply trigger_rt hp e h1 h3
        rcases hr with hr | ⟨ts, rfl⟩
        · exact (startsIn_props hks hr).1
        · simp [follow, tokLevel])
      (by
        intro t ts h hc; subst hc
        have := (startsIn_props hks h).2.2.2.2.1
        simp [headIs_cons] at this)
      x xs
      (by intro y hy; exact ⟨okTrigs_mem hok y hy, depthEs_mem hd y hy⟩)
      tl hf
    rw [← printEs_eq_map] at this
    simp [printEs, run_Triggers_cons, parseTriggerOpt, headIs_cons] at this ⊢
    exact this

/-- one ORDER BY item -/
theorem order_rt (o : Expr) (hok : okOrder o = true) (hd : depthE o ≤ d) (rest : List Tok)
    (hf : follow 1 rest = true) (hasc : headIs .ASC rest = false) (hdesc : headIs .DESC rest = false) :
    parseOrder prev (printE o ++ rest) = some (o, rest) := by
  cases o with
  | order e desc =>
    simp [okOrder] at hok
    simp [depthE] at hd
    cases desc with
    | true =>
      have := rt1 hp e hok.1 hok.2 hd (Tok.kw .DESC :: rest) (by simp [follow, tokLevel])
      simp [printE_order_desc, parseOrder, this, headIs_cons]
    | false =>
      rcases printE_order_asc e with h | h
      · have := rt1 hp e hok.1 hok.2 hd (Tok.kw .ASC :: rest) (by simp [follow, tokLevel])
        simp [h, parseOrder, this, headIs_cons]
      · have := rt1 hp e hok.1 hok.2 hd rest hf
        simp [h, parseOrder, this, hasc, hdesc]
  | _ => simp [okOrder] at hok

theorem orderBy_rt (g : List Expr) (hok : okOrders g = true) (hd : depthEs g ≤ d) (ks : List Kw)
    (hks : ∀ k ∈ ks, clauseKw k = true) (hk : Kw.ORDER ∉ ks) (tl : List Tok) (hf : startsIn ks tl = true) :
    parseOrderByOpt prev (Gen.list_OrderBy.run (printEs g) ++ tl) = some (g, tl) := by
  cases g with
  | nil =>
    have := (startsIn_props hks hf).2.2.2.2.2.2.2.2.1 .ORDER rfl hk
    simp [printEs, run_OrderBy_nil, parseOrderByOpt, this]
  | cons x xs =>
    have := sepBy1_rt (parseOrder prev) printE (fun e => okOrder e = true ∧ depthE e ≤ d)
      (fun r => startsIn ks r = true)
      (by
        intro e ⟨h1, h3⟩ r hr
        rcases hr with hr | ⟨ts, rfl⟩
        · have hh := startsIn_props hks hr
          exact order_rt hp e h1 h3 r hh.1 hh.2.2.2.2.2.1 hh.2.2.2.2.2.2.1
        · exact order_rt hp e h1 h3 _ (by simp [follow, tokLevel]) (by simp [headIs_cons]) (by simp [headIs_cons]))
      (by
        intro t ts h hc; subst hc
        have := (startsIn_props hks h).2.2.2.2.1
        simp [headIs_cons] at this)
      x xs
      (by intro y hy; exact ⟨okOrders_mem hok y hy, depthEs_mem hd y hy⟩)
      tl hf
    rw [← printEs_eq_map] at this
    simp [printEs, run_OrderBy_cons, parseOrderByOpt, headIs_cons] at this ⊢
    exact this

/-- LIMIT -/
theorem limit_rt (lo lc : Option Expr) (hlo : okOE lo = true) (hlc : okOE lc = true)
    (hboth : lo.isNone = true ∨ lc.isSome = true) (hdo : depthOE lo ≤ d) (hdc : depthOE lc ≤ d) (rest : List Tok)
    (hf : followS rest = true) :
    parseLimitOpt prev (printLimit lo lc ++ rest) = some ((lo, lc), rest) := by
  have hs : startsIn [] rest = true := by
    cases rest with
    | nil => rfl
    | cons t ts => simpa [startsIn, followS] using hf
  obtain ⟨h1, _, _, _, h5, _, _, h8, h9, _⟩ := startsIn_props (ks := []) (by simp) hs
  cases lc with
  | none =>
    have : lo = none := by cases lo <;> simp at hboth ⊢
    subst this
    simp [printLimit, parseLimitOpt, h9 .LIMIT rfl (by simp)]
  | some c =>
    simp [okOE] at hlc
    simp [depthOE] at hdc
    have hc := rt1 hp c hlc.1 hlc.2 hdc rest h1
    cases lo with
    | none => simp [printLimit, parseLimitOpt, headIs_cons, hc, h5, h8]
    | some o =>
      simp [okOE] at hlo
      simp [depthOE] at hdo
      have ho := rt1 hp o hlo.1 hlo.2 hdo (Tok.kw .COMMA :: (printE c ++ rest)) (by simp [follow, tokLevel])
      simp [printLimit, parseLimitOpt, headIs_cons, ho, hc]

omit hp in
theorem startsIn_app (k : Kw) (ks : List Kw) (pre tl : List Tok)
    (hpre : pre = [] ∨ ∃ ts, pre = Tok.kw k :: ts) (h : startsIn ks tl = true) : startsIn (k :: ks) (pre ++ tl) = true := by
  rcases hpre with rfl | ⟨ts, rfl⟩
  · simpa using startsIn_cons k h
  · simp [startsIn]

omit hp in
theorem printWhereK_pre (k : Kw) (w : Option Expr) : printWhereK k w = [] ∨ ∃ ts, printWhereK k w = Tok.kw k :: ts := by
  cases w <;> simp [printWhereK]
omit hp in
theorem groupBy_pre (g : List Expr) :
    Gen.list_GroupBy.run (printEs g) = [] ∨ ∃ ts, Gen.list_GroupBy.run (printEs g) = Tok.kw .GROUP :: ts := by
  cases g <;> simp [printEs, run_GroupBy_nil, run_GroupBy_cons]
omit hp in
theorem triggers_pre (g : List Expr) :
    Gen.list_Triggers.run (printEs g) = [] ∨ ∃ ts, Gen.list_Triggers.run (printEs g) = Tok.kw .TRIGGER :: ts := by
  cases g <;> simp [printEs, run_Triggers_nil, run_Triggers_cons]
omit hp in
theorem orderBy_pre (g : List Expr) :
    Gen.list_OrderBy.run (printEs g) = [] ∨ ∃ ts, Gen.list_OrderBy.run (printEs g) = Tok.kw .ORDER :: ts := by
  cases g <;> simp [printEs, run_OrderBy_nil, run_OrderBy_cons]
omit hp in
theorem limit_pre (lo lc : Option Expr) : printLimit lo lc = [] ∨ ∃ ts, printLimit lo lc = Tok.kw .LIMIT :: ts := by
  cases lc <;> simp [printLimit]

/-- FROM table_references -/
theorem from_rt (x : Tbl) (xs : List Tbl) (hok : okTs (x :: xs) = true) (hd : depthTs (x :: xs) ≤ d) (ks : List Kw)
    (hks : ∀ k ∈ ks, clauseKw k = true) (tl : List Tok) (hf : startsIn ks tl = true) :
    parseFromOpt prev (Tok.kw .FROM :: (Gen.list_TableExprs.run (printTs (x :: xs)) ++ tl)) = some (x :: xs, tl) := by
  have := sepBy1_rt (parseTableRef prev) printT (fun t => okT t = true ∧ depthT t ≤ d)
    (fun r => startsIn ks r = true)
    (by
      intro t ⟨h1, h3⟩ r hr
      rcases hr with hr | ⟨ts, rfl⟩
      · have hh := startsIn_props hks hr
        exact tblRef_rt hp t h1 h3 r hh.2.1 (fun _ => ⟨hh.2.2.1, hh.2.2.2.1⟩)
      · exact tblRef_rt hp t h1 h3 _ (by simp [followT, stopT]) (fun _ => by simp [headIs_cons]))
    (by
      intro t ts h hc; subst hc
      have := (startsIn_props hks h).2.2.2.2.1
      simp [headIs_cons] at this)
    x xs
    (by intro y hy; exact ⟨okTs_mem hok y hy, depthTs_mem hd y hy⟩)
    tl hf
  rw [← printTs_eq_map] at this
  simp [printTs, run_TableExprs_cons, parseFromOpt, headIs_cons] at this ⊢
  exact this

/-- the select list, up to FROM -/
theorem items_rt (x : Expr) (xs : List Expr) (hok : okItems (x :: xs) = true) (hd : depthEs (x :: xs) ≤ d)
    (tl : List Tok) :
    sepBy1 (parseItemWith (parseExpr prev))
      (printE x ++ (ListFmt.items [Tok.kw .COMMA] (printEs xs) ++ Tok.kw .FROM :: tl)) =
      some (x :: xs, Tok.kw .FROM :: tl) := by
  rw [printEs_eq_map]
  exact sepBy1_rt (parseItemWith (parseExpr prev)) printE (fun e => okItem e = true ∧ depthE e ≤ d)
    (fun r => ∃ ts, r = Tok.kw .FROM :: ts)
    (by
      intro e ⟨h1, h3⟩ r hr
      apply item_rt (parseExpr prev) d (fun e a b c => rt1 hp e a b c) (star1_here hp) (star2_here hp) e h1 h3
      rcases hr with ⟨ts, rfl⟩ | ⟨ts, rfl⟩ <;> simp [followItem])
    (by intro t ts ⟨ts', h⟩; cases h; simp)
    x xs
    (by intro y hy; exact ⟨okItems_mem hok y hy, depthEs_mem hd y hy⟩)
    (Tok.kw .FROM :: tl) ⟨tl, rfl⟩

/-- `base_select order_by_opt limit_opt` -/
theorem select_rt (distinct : Bool) (exprs : List Expr) (from_ : List Tbl) (where_ : Option Expr)
    (groupBy : List Expr) (having : Option Expr) (trig orderBy : List Expr) (limOff limCnt : Option Expr)
    (hok : okS (.select distinct exprs from_ where_ groupBy having trig orderBy limOff limCnt) = true)
    (hd : depthS (.select distinct exprs from_ where_ groupBy having trig orderBy limOff limCnt) ≤ d)
    (rest : List Tok) (hf : followS rest = true) :
    parseSelect prev (printS (.select distinct exprs from_ where_ groupBy having trig orderBy limOff limCnt) ++ rest) =
      some (.select distinct exprs from_ where_ groupBy having trig orderBy limOff limCnt, rest) := by
  simp [okS] at hok
  simp [depthS] at hd
  obtain ⟨⟨⟨⟨⟨⟨⟨⟨⟨⟨⟨hitems, hine⟩, hfrom⟩, hfne⟩, hwhere⟩, hgroup⟩, hhaving⟩, htrig⟩, horder⟩, hlo⟩, hlc⟩, hboth⟩ := hok
  match exprs, hitems, hine, hd with
  | x :: xs, hitems, _, hd =>
  match from_, hfrom, hfne, hd with
  | f :: fs, hfrom, _, hd =>
  have s6 : startsIn [] rest = true := by
    cases rest with
    | nil => rfl
    | cons t ts => simpa [startsIn, followS] using hf
  have s5 := startsIn_app .LIMIT [] _ rest (limit_pre limOff limCnt) s6
  have s4 := startsIn_app .ORDER _ _ _ (orderBy_pre orderBy) s5
  have s3 := startsIn_app .TRIGGER _ _ _ (triggers_pre trig) s4
  have s2 := startsIn_app .HAVING _ _ _ (printWhereK_pre .HAVING having) s3
  have s1 := startsIn_app .GROUP _ _ _ (groupBy_pre groupBy) s2
  have s0 := startsIn_app .WHERE _ _ _ (printWhereK_pre .WHERE where_) s1
  have k5 : ∀ k ∈ [Kw.LIMIT], clauseKw k = true := by simp [clauseKw]
  have k4 : ∀ k ∈ [Kw.ORDER, Kw.LIMIT], clauseKw k = true := by simp [clauseKw]
  have k3 : ∀ k ∈ [Kw.TRIGGER, Kw.ORDER, Kw.LIMIT], clauseKw k = true := by simp [clauseKw]
  have k2 : ∀ k ∈ [Kw.HAVING, Kw.TRIGGER, Kw.ORDER, Kw.LIMIT], clauseKw k = true := by simp [clauseKw]
  have k1 : ∀ k ∈ [Kw.GROUP, Kw.HAVING, Kw.TRIGGER, Kw.ORDER, Kw.LIMIT], clauseKw k = true := by simp [clauseKw]
  have k0 : ∀ k ∈ [Kw.WHERE, Kw.GROUP, Kw.HAVING, Kw.TRIGGER, Kw.ORDER, Kw.LIMIT], clauseKw k = true := by
    simp [clauseKw]
  have e_items := items_rt hp x xs hitems (by omega)
  have e_from := from_rt hp f fs hfrom (by omega) _ k0 _ s0
  have e_where := whereOpt_rt hp .WHERE where_ hwhere (by omega) _ k1 rfl (by simp) _ s1
  have e_group := groupBy_rt hp groupBy hgroup (by omega) _ k2 (by simp) _ s2
  have e_having := whereOpt_rt hp .HAVING having hhaving (by omega) _ k3 rfl (by simp) _ s3
  have e_trig := triggers_rt hp trig htrig (by omega) _ k4 (by simp) _ s4
  have e_order := orderBy_rt hp orderBy horder (by omega) _ k5 (by simp) _ s5
  have hdl : depthOE limOff ≤ d ∧ depthOE limCnt ≤ d := by
    cases limCnt with
    | none =>
      have : limOff = none := by cases limOff <;> simp at hboth ⊢
      subst this; simp [depthOE]
    | some c => simp at hd; omega
  have e_limit := limit_rt hp limOff limCnt hlo hlc (by
    rcases hboth with h | h
    · left; simpa using h
    · right; simpa using h) hdl.1 hdl.2 rest hf
  obtain ⟨t, ts, hh, _, hnd, _⟩ := item_head x (okItems_mem hitems x (by simp))
  have hdist : ∀ tl, headIs .DISTINCT (printE x ++ tl) = false := by
    intro tl; rw [hh]; simp [headIs_cons, hnd]
  cases distinct <;>
    simp [printS_select, printEs, run_SelectExprs_cons, parseSelect, headIs_cons, hdist, e_items, e_from, e_where, e_group,
      e_having, e_trig, e_order, e_limit]

omit hp in
theorem okCtes_mem {cs : List Sel} (h : okCtes cs = true) : ∀ x ∈ cs, okCte x = true := by
  induction cs with
  | nil => simp
  | cons e es ih =>
    simp [okCtes] at h
    intro x hx
    simp at hx
    rcases hx with rfl | hx
    · exact h.1
    · exact ih h.2 x hx
omit hp in
theorem depthSs_mem {cs : List Sel} {d : Nat} (h : depthSs cs ≤ d) : ∀ x ∈ cs, depthS x ≤ d := by
  induction cs with
  | nil => simp
  | cons e es ih =>
    simp [depthSs] at h
    intro x hx
    simp at hx
    rcases hx with rfl | hx
    · omega
    · exact ih (by omega) x hx

/-- one element of a WITH list -/
theorem cte_rt (c : Sel) (hok : okCte c = true) (hd : depthS c ≤ d) (rest : List Tok) :
    parseCte prev (printS c ++ rest) = some (c, rest) ∧ startsSelect (printS c ++ rest) = false := by
  cases c with
  | cte name s =>
    simp [okCte] at hok
    simp [depthS] at hd
    have hb := subqueryBody_rt hp s hok.1.2 hok.2 hd rest
    simp [printS_cte name s hok.1.1, parseCte, aliasOf, hb, startsSelect]
  | _ => simp [okCte] at hok

theorem cteTail_rt : ∀ cs : List Sel, okCtes cs = true → depthSs cs ≤ d → ∀ tl, startsSelect tl = true →
    ∀ m, cs.length < m →
      cteTail prev m (ListFmt.items [Tok.kw .COMMA] (cs.map printS) ++ tl) = some (cs, tl) := by
  intro cs
  induction cs with
  | nil =>
    intro _ _ tl htl m hm
    obtain ⟨m', rfl⟩ : ∃ m', m = m' + 1 := ⟨m - 1, by simp at hm; omega⟩
    cases tl with
    | nil => simp [startsSelect] at htl
    | cons t ts =>
      have : t ≠ Tok.kw .COMMA := by
        intro h; subst h; simp [startsSelect] at htl
      simp [cteTail, ListFmt.items, this]
  | cons c cs ih =>
    intro hok hd tl htl m hm
    obtain ⟨m', rfl⟩ : ∃ m', m = m' + 1 := ⟨m - 1, by simp at hm; omega⟩
    simp [okCtes] at hok
    simp [depthSs] at hd
    obtain ⟨h1, h2⟩ := cte_rt hp c hok.1 (by omega) (ListFmt.items [Tok.kw .COMMA] (cs.map printS) ++ tl)
    have h3 := ih hok.2 (by omega) tl htl m' (by simp at hm; omega)
    simp [cteTail, ListFmt.items, h1, h2, h3]

omit hp in
theorem items_len_sel (cs : List Sel) : cs.length ≤ (ListFmt.items [Tok.kw .COMMA] (cs.map printS)).length := by
  have := items_length (cs.map printS)
  simpa using this

/-- `select_statement` -/
theorem selStmt_rt (s : Sel) (hok : okS s = true) (hs : s.isStmt = true) (hd : depthS s ≤ d) (rest : List Tok)
    (hf : followS rest = true) : parseSelStmt prev (printS s ++ rest) = some (s, rest) := by
  cases s with
  | select distinct exprs from_ where_ groupBy having trig orderBy limOff limCnt =>
    have h := select_rt hp distinct exprs from_ where_ groupBy having trig orderBy limOff limCnt hok hd rest hf
    have hw : headIs .WITH (printS (.select distinct exprs from_ where_ groupBy having trig orderBy limOff limCnt) ++ rest) =
        false := by
      simp [printS_select, headIs_cons]
    simp [parseSelStmt, hw, h]
  | with_ ctes s' =>
    simp [okS] at hok
    simp [depthS] at hd
    match ctes, hok, hd with
    | c :: cs, hok, hd =>
      simp [okCtes, depthSs] at hok hd
      have hss := startsSelect_printS hp s' hok.2 rest
      obtain ⟨h1, _⟩ := cte_rt hp c hok.1.1.1 (by omega)
        (ListFmt.items [Tok.kw .COMMA] (cs.map printS) ++ (printS s' ++ rest))
      have hlen : cs.length < (Tok.kw .WITH :: (printS c ++ (ListFmt.items [Tok.kw .COMMA] (cs.map printS) ++
          (printS s' ++ rest)))).length + 1 := by
        have := items_len_sel cs
        simp only [List.length_cons, List.length_append]
        omega
      have h2 := cteTail_rt hp cs hok.1.1.2 (by omega) (printS s' ++ rest) hss _ hlen
      have h3 := hp.sel s' hok.1.2 hok.2 (by omega) rest hf
      simp [printS_with, printSs, printSs_eq_map, run_Ctes_cons, parseSelStmt, headIs_cons, h1] at h2 ⊢
      simp [h2, h3]
  | cte _ _ => simp [Sel.isStmt] at hs

end level

/-- every nesting level of `parsers` round-trips everything of smaller nesting depth -/
theorem prevOK_all : ∀ n, PrevOK (parsers n) n := by
  intro n
  induction n with
  | zero =>
    exact {
      expr := fun _ _ _ h => absurd h (Nat.not_lt_zero _)
      val := fun _ _ _ h => absurd h (Nat.not_lt_zero _)
      sel := fun _ _ _ h => absurd h (Nat.not_lt_zero _)
      tbl := fun _ _ h => absurd h (Nat.not_lt_zero _)
      star1 := fun _ _ _ => rfl
      star2 := fun _ _ _ _ _ => rfl }
  | succ n ih =>
    exact {
      expr := fun e h1 h2 h3 rest hf => rt1 ih e h1 h2 (by omega) rest hf
      val := fun e h1 h2 h3 rest hf => rt6 ih e h1 h2 (by omega) rest hf
      sel := fun s h1 h2 h3 rest hf => selStmt_rt ih s h1 h2 (by omega) rest hf
      tbl := fun t h1 h3 rest hf ho => tblRef_rt ih t h1 (by omega) rest hf ho
      star1 := fun t rest h => star1_here ih t rest h
      star2 := fun t1 t2 rest h1 h2 => star2_here ih t1 t2 rest h1 h2 }

/-- **round trip with explicit nesting fuel** -/
theorem roundtrip_fuel (s : Sel) (hok : okS s = true) (hs : s.isStmt = true) (n : Nat) (hn : depthS s < n) :
    parseStmtFuel n (printS s) = some s := by
  have h := (prevOK_all n).sel s hok hs hn [] rfl
  simp at h
  simp [parseStmtFuel, h]

end Octo.SqlSyn
