import Octo.Lemmas.Int64
/-!
  Octo.Lemmas.TimeLemmas — `time.Unix`, `Time.Unix`, `Time.Add` on the (ext, nsec) representation.
-/
namespace Octo.Num

theorem tdiv_1e9 (d : Int) :
    d.tdiv 1000000000 = if 0 ≤ d then d / 1000000000 else -((-d) / 1000000000) := by
  rw [Int.tdiv_cases]; simp

theorem tmod_1e9 (d : Int) : d.tmod 1000000000 = d - 1000000000 * d.tdiv 1000000000 := Int.tmod_def d _

/-- the (ext, nsec) split is faithful -/
theorem mkTime_ext_nsec (ns : Int) : mkTime (timeExt ns) (timeNsec ns) = ns := by
  unfold mkTime timeExt timeNsec nsPerSec unixToInternal; omega

theorem timeExt_mkTime (e n : Int) (h0 : 0 ≤ n) (h1 : n < 1000000000) : timeExt (mkTime e n) = e := by
  unfold mkTime timeExt nsPerSec unixToInternal; omega

theorem timeNsec_mkTime (e n : Int) (h0 : 0 ≤ n) (h1 : n < 1000000000) : timeNsec (mkTime e n) = n := by
  unfold mkTime timeNsec nsPerSec unixToInternal; omega

/-- `time.Unix(sec, nsec)` always builds a representable time -/
theorem validTime_timeUnix (sec n : Int) (h0 : 0 ≤ n) (h1 : n < 1000000000) : ValidTime (timeUnix sec n) := by
  unfold ValidTime timeUnix
  rw [timeExt_mkTime _ _ h0 h1, addI64_eq]
  exact inI64_wrap64 _

/-- `Time.Unix()` of `time.Unix(sec, nsec)` is `sec`, for EVERY int64 `sec` (both additions wrap, and cancel) -/
theorem timeToUnix_timeUnix (sec n : Int) (hs : InI64 sec) (h0 : 0 ≤ n) (h1 : n < 1000000000) :
    timeToUnix (timeUnix sec n) = sec := by
  unfold timeToUnix timeUnix
  rw [timeExt_mkTime _ _ h0 h1, addI64_eq, addI64_eq]
  have : wrap64 (wrap64 (sec + unixToInternal) + -unixToInternal) = wrap64 sec := by
    unfold wrap64
    rw [Int.bmod_add_bmod, Int.add_neg_cancel_right]
  rw [this, wrap64_of_inI64 hs]

/-- within the representable range `time.Unix(sec, 0)` is the instant `sec` seconds after the epoch -/
theorem timeUnix_exact (sec : Int) (h : InI64 (sec + unixToInternal)) : timeUnix sec 0 = sec * nsPerSec := by
  unfold timeUnix mkTime
  rw [addI64_eq, wrap64_of_inI64 h, Int.add_sub_cancel, Int.add_zero]

/-- `Time.Unix()` is the floor of the instant in seconds (wrapped into int64) -/
theorem timeToUnix_eq (ns : Int) : timeToUnix ns = wrap64 (ns / nsPerSec) := by
  unfold timeToUnix timeExt
  rw [addI64_eq]
  congr 1; omega

theorem gt_iff_pos (e k : Int) : (decide (e + k > e) == decide (k > 0)) = true := by
  by_cases h : k > 0
  · have : e + k > e := by omega
    simp [h, this]
  · have : ¬ e + k > e := by omega
    simp [h, this]

/-- `Time.Add` is exact whenever the result is representable (no saturation) -/
theorem timeAdd_exact (t d : Int) (h : InI64 (timeExt (t + d))) : timeAdd t d = t + d := by
  unfold timeAdd
  simp only []
  have hd := tdiv_1e9 d
  have hm := tmod_1e9 d
  rw [inI64_iff] at h
  unfold timeExt nsPerSec unixToInternal at h
  unfold mkTime timeNsec timeExt nsPerSec unixToInternal
  -- name the carried seconds
  generalize hds : (if t % 1000000000 + d.tmod 1000000000 ≥ 1000000000 then d.tdiv 1000000000 + 1
      else if t % 1000000000 + d.tmod 1000000000 < 0 then d.tdiv 1000000000 - 1 else d.tdiv 1000000000) = dsec
  generalize hns : (if t % 1000000000 + d.tmod 1000000000 ≥ 1000000000 then t % 1000000000 + d.tmod 1000000000 - 1000000000
      else if t % 1000000000 + d.tmod 1000000000 < 0 then t % 1000000000 + d.tmod 1000000000 + 1000000000
      else t % 1000000000 + d.tmod 1000000000) = nsec
  have key : t / 1000000000 + dsec = (t + d) / 1000000000 ∧ nsec = (t + d) % 1000000000 := by
    rw [← hds, ← hns]
    split at hd <;> (repeat' split) <;> omega
  have hin : InI64 (t / 1000000000 + 62135596800 + dsec) := by
    rw [inI64_iff]; omega
  rw [addI64_eq, wrap64_of_inI64 hin, gt_iff_pos]
  simp only [if_true]
  omega

end Octo.Num
