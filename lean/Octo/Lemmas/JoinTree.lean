import Octo.Lemmas.JoinBasics
/-!
  The two-level record trees of the joins: ordered association lists keyed by `cmpList`,
  the measure `M g subs = Σ (row, times) ∈ subs, |times| · g row`, and what `store`, `joinRows`,
  `nullRows` do to it.
-/
namespace Octo.Join
open Octo

variable {β : Type}

def Sorted (l : SAL β) : Prop := l.Pairwise (fun a b => cmpList a.1 b.1 < 0)

theorem sorted_nil : Sorted ([] : SAL β) := List.Pairwise.nil

/-! ### get / put / del -/
section unfold
variable (k k0 : Row) (v v0 : β) (rest : SAL β)
theorem get_cons_lt (h : cmpList k k0 < 0) : SAL.get k ((k0, v0) :: rest) = none := by simp [SAL.get, h]
theorem get_cons_eq (h : cmpList k k0 = 0) : SAL.get k ((k0, v0) :: rest) = some (k0, v0) := by simp [SAL.get, h]
theorem get_cons_gt (h : 0 < cmpList k k0) : SAL.get k ((k0, v0) :: rest) = SAL.get k rest := by
  have h1 : ¬ cmpList k k0 < 0 := by omega
  have h2 : ¬ cmpList k k0 = 0 := by omega
  simp [SAL.get, h1, h2]
theorem put_cons_lt (h : cmpList k k0 < 0) : SAL.put k v ((k0, v0) :: rest) = (k, v) :: (k0, v0) :: rest := by
  simp [SAL.put, h]
theorem put_cons_eq (h : cmpList k k0 = 0) : SAL.put k v ((k0, v0) :: rest) = (k0, v) :: rest := by
  simp [SAL.put, h]
theorem put_cons_gt (h : 0 < cmpList k k0) : SAL.put k v ((k0, v0) :: rest) = (k0, v0) :: SAL.put k v rest := by
  have h1 : ¬ cmpList k k0 < 0 := by omega
  have h2 : ¬ cmpList k k0 = 0 := by omega
  simp [SAL.put, h1, h2]
theorem del_cons_lt (h : cmpList k k0 < 0) : SAL.del k ((k0, v0) :: rest) = (k0, v0) :: rest := by
  simp [SAL.del, h]
theorem del_cons_eq (h : cmpList k k0 = 0) : SAL.del k ((k0, v0) :: rest) = rest := by
  simp [SAL.del, h]
theorem del_cons_gt (h : 0 < cmpList k k0) : SAL.del k ((k0, v0) :: rest) = (k0, v0) :: SAL.del k rest := by
  have h1 : ¬ cmpList k k0 < 0 := by omega
  have h2 : ¬ cmpList k k0 = 0 := by omega
  simp [SAL.del, h1, h2]
end unfold

theorem tri (a : Int) : a < 0 ∨ a = 0 ∨ 0 < a := by omega

theorem get_congr {k1 k2 : Row} (h : cmpList k1 k2 = 0) : ∀ l : SAL β, SAL.get k1 l = SAL.get k2 l
  | [] => rfl
  | (k', v) :: rest => by
    have c := cmpList_congr_left h k'
    rcases tri (cmpList k1 k') with h1 | h1 | h1
    · rw [get_cons_lt _ _ _ _ h1, get_cons_lt _ _ _ _ (c.1.mp h1)]
    · rw [get_cons_eq _ _ _ _ h1, get_cons_eq _ _ _ _ (c.2.mp h1)]
    · have : 0 < cmpList k2 k' := by
        rcases tri (cmpList k2 k') with h2 | h2 | h2
        · have := c.1.mpr h2; omega
        · have := c.2.mpr h2; omega
        · exact h2
      rw [get_cons_gt _ _ _ _ h1, get_cons_gt _ _ _ _ this, get_congr h rest]

theorem get_mem {k : Row} : ∀ {l : SAL β} {p : Row × β}, SAL.get k l = some p → p ∈ l ∧ cmpList k p.1 = 0
  | [], _, h => by simp [SAL.get] at h
  | (k', v) :: rest, p, h => by
    rcases tri (cmpList k k') with h1 | h1 | h1
    · rw [get_cons_lt _ _ _ _ h1] at h; simp at h
    · rw [get_cons_eq _ _ _ _ h1] at h
      have := Option.some.inj h; subst this
      exact ⟨by simp, h1⟩
    · rw [get_cons_gt _ _ _ _ h1] at h
      have := get_mem h
      exact ⟨by simp [this.1], this.2⟩

theorem get_put_self (k : Row) (v : β) : ∀ l : SAL β, ∃ k0, SAL.get k (SAL.put k v l) = some (k0, v)
  | [] => ⟨k, by simp [SAL.put, SAL.get, cmpList_refl]⟩
  | (k', v') :: rest => by
    rcases tri (cmpList k k') with h1 | h1 | h1
    · exact ⟨k, by rw [put_cons_lt _ _ _ _ _ h1, get_cons_eq _ _ _ _ (cmpList_refl k)]⟩
    · exact ⟨k', by rw [put_cons_eq _ _ _ _ _ h1, get_cons_eq _ _ _ _ h1]⟩
    · obtain ⟨k0, ih⟩ := get_put_self k v rest
      exact ⟨k0, by rw [put_cons_gt _ _ _ _ _ h1, get_cons_gt _ _ _ _ h1, ih]⟩

theorem get_put_other {k k' : Row} (v : β) (hne : cmpList k k' ≠ 0) :
    ∀ l : SAL β, SAL.get k' (SAL.put k v l) = SAL.get k' l
  | [] => by
    have := cmpList_antisymm k k'
    show SAL.get k' [(k, v)] = none
    rcases tri (cmpList k' k) with h1 | h1 | h1
    · rw [get_cons_lt _ _ _ _ h1]
    · omega
    · rw [get_cons_gt _ _ _ _ h1]; rfl
  | (k0, v0) :: rest => by
    have a1 := cmpList_antisymm k k'
    rcases tri (cmpList k k0) with h1 | h1 | h1
    · rw [put_cons_lt _ _ _ _ _ h1]
      rcases tri (cmpList k' k) with d1 | d1 | d1
      · have : cmpList k' k0 < 0 := cmpList_lt_trans d1 (by omega)
        rw [get_cons_lt _ _ _ _ d1, get_cons_lt _ _ _ _ this]
      · omega
      · rw [get_cons_gt _ _ _ _ d1]
    · rw [put_cons_eq _ _ _ _ _ h1]
      rcases tri (cmpList k' k0) with e1 | e1 | e1
      · rw [get_cons_lt _ _ _ _ e1, get_cons_lt _ _ _ _ e1]
      · exact absurd (cmpList_eq_trans h1 (cmpList_eq_symm e1)) hne
      · rw [get_cons_gt _ _ _ _ e1, get_cons_gt _ _ _ _ e1]
    · rw [put_cons_gt _ _ _ _ _ h1]
      rcases tri (cmpList k' k0) with e1 | e1 | e1
      · rw [get_cons_lt _ _ _ _ e1, get_cons_lt _ _ _ _ e1]
      · rw [get_cons_eq _ _ _ _ e1, get_cons_eq _ _ _ _ e1]
      · rw [get_cons_gt _ _ _ _ e1, get_cons_gt _ _ _ _ e1, get_put_other v hne rest]

theorem get_none_of_sorted_lt {k : Row} : ∀ {l : SAL β}, (∀ p ∈ l, cmpList k p.1 < 0) → SAL.get k l = none
  | [], _ => rfl
  | (k0, v0) :: rest, h => get_cons_lt _ _ _ _ (h (k0, v0) (by simp))

theorem sorted_cons {k0 : Row} {v0 : β} {rest : SAL β} (hs : Sorted ((k0, v0) :: rest)) :
    (∀ p ∈ rest, cmpList k0 p.1 < 0) ∧ Sorted rest := List.pairwise_cons.mp hs

theorem get_del_self {k k' : Row} (h : cmpList k k' = 0) : ∀ {l : SAL β}, Sorted l → SAL.get k' (SAL.del k l) = none
  | [], _ => rfl
  | (k0, v0) :: rest, hs => by
    have hs' := sorted_cons hs
    have hk' := cmpList_congr_left h k0
    rcases tri (cmpList k k0) with h1 | h1 | h1
    · rw [del_cons_lt _ _ _ _ h1]
      exact get_cons_lt _ _ _ _ (hk'.1.mp h1)
    · rw [del_cons_eq _ _ _ _ h1]
      apply get_none_of_sorted_lt
      intro p hp
      have := hs'.1 p hp
      exact cmpList_le_lt_trans (by have := hk'.2.mp h1; omega) this
    · rw [del_cons_gt _ _ _ _ h1]
      have : 0 < cmpList k' k0 := by
        rcases tri (cmpList k' k0) with h2 | h2 | h2
        · have := hk'.1.mpr h2; omega
        · have := hk'.2.mpr h2; omega
        · exact h2
      rw [get_cons_gt _ _ _ _ this, get_del_self h hs'.2]

theorem get_del_other {k k' : Row} (hne : cmpList k k' ≠ 0) : ∀ {l : SAL β}, Sorted l →
    SAL.get k' (SAL.del k l) = SAL.get k' l
  | [], _ => rfl
  | (k0, v0) :: rest, hs => by
    have hs' := sorted_cons hs
    rcases tri (cmpList k k0) with h1 | h1 | h1
    · rw [del_cons_lt _ _ _ _ h1]
    · rw [del_cons_eq _ _ _ _ h1]
      rcases tri (cmpList k' k0) with e1 | e1 | e1
      · rw [get_cons_lt _ _ _ _ e1]
        apply get_none_of_sorted_lt
        intro p hp
        exact cmpList_lt_trans e1 (by have := hs'.1 p hp; omega)
      · exact absurd (cmpList_eq_trans h1 (cmpList_eq_symm e1)) hne
      · rw [get_cons_gt _ _ _ _ e1]
    · rw [del_cons_gt _ _ _ _ h1]
      rcases tri (cmpList k' k0) with e1 | e1 | e1
      · rw [get_cons_lt _ _ _ _ e1, get_cons_lt _ _ _ _ e1]
      · rw [get_cons_eq _ _ _ _ e1, get_cons_eq _ _ _ _ e1]
      · rw [get_cons_gt _ _ _ _ e1, get_cons_gt _ _ _ _ e1, get_del_other hne hs'.2]

theorem mem_put {k : Row} {v : β} : ∀ {l : SAL β} {p : Row × β}, p ∈ SAL.put k v l →
    p ∈ l ∨ (p.2 = v ∧ (p.1 = k ∨ ∃ q ∈ l, q.1 = p.1 ∧ cmpList k q.1 = 0))
  | [], p, h => by simp [SAL.put] at h; subst h; simp
  | (k0, v0) :: rest, p, h => by
    rcases tri (cmpList k k0) with h1 | h1 | h1
    · rw [put_cons_lt _ _ _ _ _ h1] at h
      rcases List.mem_cons.mp h with h | h
      · subst h; simp
      · left; exact h
    · rw [put_cons_eq _ _ _ _ _ h1] at h
      rcases List.mem_cons.mp h with h | h
      · subst h; right; exact ⟨rfl, Or.inr ⟨(k0, v0), by simp, rfl, h1⟩⟩
      · left; simp [h]
    · rw [put_cons_gt _ _ _ _ _ h1] at h
      rcases List.mem_cons.mp h with h | h
      · subst h; simp
      · rcases mem_put h with h' | ⟨hv, h'⟩
        · left; simp [h']
        · right; refine ⟨hv, ?_⟩
          rcases h' with h' | ⟨q, hq, hq1, hq2⟩
          · exact Or.inl h'
          · exact Or.inr ⟨q, by simp [hq], hq1, hq2⟩

theorem mem_del {k : Row} : ∀ {l : SAL β} {p : Row × β}, p ∈ SAL.del k l → p ∈ l
  | [], _, h => by simp [SAL.del] at h
  | (k0, v0) :: rest, p, h => by
    rcases tri (cmpList k k0) with h1 | h1 | h1
    · rw [del_cons_lt _ _ _ _ h1] at h; exact h
    · rw [del_cons_eq _ _ _ _ h1] at h; simp [h]
    · rw [del_cons_gt _ _ _ _ h1] at h
      rcases List.mem_cons.mp h with h | h
      · subst h; simp
      · simp [mem_del h]

theorem sorted_del {k : Row} : ∀ {l : SAL β}, Sorted l → Sorted (SAL.del k l)
  | [], _ => sorted_nil
  | (k0, v0) :: rest, hs => by
    have hs' := sorted_cons hs
    rcases tri (cmpList k k0) with h1 | h1 | h1
    · rw [del_cons_lt _ _ _ _ h1]; exact hs
    · rw [del_cons_eq _ _ _ _ h1]; exact hs'.2
    · rw [del_cons_gt _ _ _ _ h1]
      exact List.pairwise_cons.mpr ⟨fun p hp => hs'.1 p (mem_del hp), sorted_del hs'.2⟩

theorem sorted_put {k : Row} {v : β} : ∀ {l : SAL β}, Sorted l → Sorted (SAL.put k v l)
  | [], _ => by simp [SAL.put, Sorted]
  | (k0, v0) :: rest, hs => by
    have hs' := sorted_cons hs
    rcases tri (cmpList k k0) with h1 | h1 | h1
    · rw [put_cons_lt _ _ _ _ _ h1]
      refine List.pairwise_cons.mpr ⟨?_, hs⟩
      intro p hp
      rcases List.mem_cons.mp hp with hp | hp
      · subst hp; exact h1
      · exact cmpList_lt_trans h1 (by have := hs'.1 p hp; omega)
    · rw [put_cons_eq _ _ _ _ _ h1]
      exact List.pairwise_cons.mpr ⟨hs'.1, hs'.2⟩
    · rw [put_cons_gt _ _ _ _ _ h1]
      refine List.pairwise_cons.mpr ⟨?_, sorted_put hs'.2⟩
      intro p hp
      have a1 := cmpList_antisymm k k0
      rcases mem_put hp with hp | ⟨_, hp | ⟨q, hq, hq1, _⟩⟩
      · exact hs'.1 p hp
      · show cmpList k0 p.1 < 0
        rw [hp]; omega
      · show cmpList k0 p.1 < 0
        rw [← hq1]; exact hs'.1 q hq

/-! ### the measure -/
/-- `Σ (row, times) ∈ subs, |times| · g row` -/
def M (g : Row → Int) : Subs → Int
  | [] => 0
  | (x, ts) :: rest => (ts.length : Int) * g x + M g rest

theorem M_nil (g : Row → Int) : M g [] = 0 := rfl

theorem timesOf_nil (x : Row) : timesOf x [] = [] := rfl
theorem timesOf_cons_lt {x x0 : Row} (ts0 : List T) (rest : Subs) (h : cmpList x x0 < 0) :
    timesOf x ((x0, ts0) :: rest) = [] := by simp [timesOf, get_cons_lt _ _ _ _ h]
theorem timesOf_cons_eq {x x0 : Row} (ts0 : List T) (rest : Subs) (h : cmpList x x0 = 0) :
    timesOf x ((x0, ts0) :: rest) = ts0 := by simp [timesOf, get_cons_eq _ _ _ _ h]
theorem timesOf_cons_gt {x x0 : Row} (ts0 : List T) (rest : Subs) (h : 0 < cmpList x x0) :
    timesOf x ((x0, ts0) :: rest) = timesOf x rest := by simp [timesOf, get_cons_gt _ _ _ _ h]

theorem M_put {g : Row → Int} (hg : Congr g) (x : Row) (ts : List T) : ∀ s : Subs,
    M g (SAL.put x ts s) = M g s - ((timesOf x s).length : Int) * g x + (ts.length : Int) * g x
  | [] => by simp [SAL.put, M, timesOf, SAL.get]
  | (x0, ts0) :: rest => by
    rcases tri (cmpList x x0) with h1 | h1 | h1
    · rw [put_cons_lt _ _ _ _ _ h1, timesOf_cons_lt _ _ h1]
      simp only [M, List.length_nil]; omega
    · rw [put_cons_eq _ _ _ _ _ h1, timesOf_cons_eq _ _ h1]
      have := hg x x0 h1
      simp only [M, this]; omega
    · rw [put_cons_gt _ _ _ _ _ h1, timesOf_cons_gt _ _ h1]
      simp only [M, M_put hg x ts rest]; omega

theorem M_del {g : Row → Int} (hg : Congr g) (x : Row) : ∀ s : Subs,
    M g (SAL.del x s) = M g s - ((timesOf x s).length : Int) * g x
  | [] => by simp [SAL.del, M, timesOf, SAL.get]
  | (x0, ts0) :: rest => by
    rcases tri (cmpList x x0) with h1 | h1 | h1
    · rw [del_cons_lt _ _ _ _ h1, timesOf_cons_lt _ _ h1]
      simp only [M, List.length_nil]; omega
    · rw [del_cons_eq _ _ _ _ h1, timesOf_cons_eq _ _ h1]
      have := hg x x0 h1
      simp only [M, this]; omega
    · rw [del_cons_gt _ _ _ _ h1, timesOf_cons_gt _ _ h1]
      simp only [M, M_del hg x rest]; omega

theorem congr_one : Congr (fun _ => 1) := fun _ _ _ => rfl

/-- all stored event-time lists are non-empty -/
def SubsWF (s : Subs) : Prop := ∀ q ∈ s, q.2 ≠ []

theorem M_one_nonneg : ∀ s : Subs, 0 ≤ M (fun _ => 1) s
  | [] => by simp [M]
  | (x, ts) :: rest => by have := M_one_nonneg rest; simp only [M]; omega

theorem M_one_pos : ∀ {s : Subs}, SubsWF s → s ≠ [] → 0 < M (fun _ => 1) s
  | [], _, h => absurd rfl h
  | (x, ts) :: rest, wf, _ => by
    have h1 : ts ≠ [] := wf (x, ts) (by simp)
    have : 0 < ts.length := List.length_pos_iff.mpr h1
    have := M_one_nonneg rest
    simp only [M]; omega

theorem M_one_eq_zero_iff {s : Subs} (wf : SubsWF s) : M (fun _ => 1) s = 0 ↔ s = [] := by
  constructor
  · intro h
    by_cases hs : s = []
    · exact hs
    · have := M_one_pos wf hs; omega
  · intro h; subst h; rfl

/-- well-formed tree: ordered by key, no empty item, no empty event-time list, items ordered by row -/
def TreeWF (t : Tree) : Prop := Sorted t ∧ ∀ p ∈ t, p.2 ≠ [] ∧ SubsWF p.2 ∧ Sorted p.2

theorem treeWF_nil : TreeWF [] := ⟨sorted_nil, by simp⟩

theorem subsOf_wf {t : Tree} (wf : TreeWF t) (k : Row) : SubsWF (subsOf k t) := by
  unfold subsOf
  cases h : SAL.get k t with
  | none => intro q hq; simp at hq
  | some p => exact (wf.2 p (get_mem h).1).2.1

theorem subsOf_sorted {t : Tree} (wf : TreeWF t) (k : Row) : Sorted (subsOf k t) := by
  unfold subsOf
  cases h : SAL.get k t with
  | none => exact sorted_nil
  | some p => exact (wf.2 p (get_mem h).1).2.2

theorem get_isNone_iff {t : Tree} (wf : TreeWF t) (k : Row) :
    (SAL.get k t).isNone = decide (M (fun _ => 1) (subsOf k t) = 0) := by
  unfold subsOf
  cases h : SAL.get k t with
  | none => simp [M]
  | some p =>
    have := wf.2 p (get_mem h).1
    have := M_one_pos this.2.1 this.1
    simp; omega

theorem subsOf_congr {k1 k2 : Row} (h : cmpList k1 k2 = 0) (t : Tree) : subsOf k1 t = subsOf k2 t := by
  simp only [subsOf, get_congr h t]

theorem updSubs_wf {x : Row} {ts : List T} {s : Subs} (wf : SubsWF s) : SubsWF (updSubs x ts s) := by
  unfold updSubs
  by_cases h : ts.isEmpty
  · simp only [h, if_true]
    intro q hq; exact wf q (mem_del hq)
  · simp only [h]
    intro q hq
    rcases mem_put hq with hq | ⟨hv, _⟩
    · exact wf q hq
    · rw [hv]; intro h'; subst h'; simp at h

theorem updSubs_sorted {x : Row} {ts : List T} {s : Subs} (hs : Sorted s) : Sorted (updSubs x ts s) := by
  unfold updSubs
  by_cases h : ts.isEmpty
  · simp only [h, if_true]; exact sorted_del hs
  · simp only [h]; exact sorted_put hs

theorem M_updSubs {g : Row → Int} (hg : Congr g) (x : Row) (ts : List T) (s : Subs) :
    M g (updSubs x ts s) = M g s - ((timesOf x s).length : Int) * g x + (ts.length : Int) * g x := by
  unfold updSubs
  by_cases h : ts.isEmpty
  · have : ts = [] := List.isEmpty_iff.mp h
    subst this
    simp [M_del hg]
  · simp [h, M_put hg]

theorem newTimes_length {times ts : List T} {r : Rec} (h : newTimes times r = some ts) :
    (ts.length : Int) = (times.length : Int) + sgn r := by
  unfold newTimes at h
  unfold sgn
  by_cases hr : r.retr = true
  · rw [if_pos hr] at h
    rw [if_pos hr]
    cases times with
    | nil => simp at h
    | cons t rest =>
      have := Option.some.inj h
      subst this
      simp only [List.length_cons]; push_cast; omega
  · rw [if_neg hr] at h
    rw [if_neg hr]
    have := Option.some.inj h
    subst this
    simp only [List.length_append, List.length_cons, List.length_nil]; push_cast; omega

theorem subsOf_put_self {key k' : Row} (U : Subs) (t : Tree) (h : cmpList key k' = 0) :
    subsOf k' (SAL.put key U t) = U := by
  obtain ⟨k0, hk0⟩ := get_put_self key U t
  unfold subsOf
  rw [← get_congr h, hk0]
theorem subsOf_put_other {key k' : Row} (U : Subs) (t : Tree) (h : cmpList key k' ≠ 0) :
    subsOf k' (SAL.put key U t) = subsOf k' t := by
  unfold subsOf
  rw [get_put_other U h]
theorem subsOf_del_self {key k' : Row} {t : Tree} (hs : Sorted t) (h : cmpList key k' = 0) :
    subsOf k' (SAL.del key t) = [] := by
  unfold subsOf
  rw [get_del_self h hs]
theorem subsOf_del_other {key k' : Row} {t : Tree} (hs : Sorted t) (h : cmpList key k' ≠ 0) :
    subsOf k' (SAL.del key t) = subsOf k' t := by
  unfold subsOf
  rw [get_del_other h hs]

/-- what `store` does, in terms of the measure -/
theorem store_spec {t : Tree} (wf : TreeWF t) (key : Row) (r : Rec) {res : StoreRes}
    (h : store t key r = some res) :
    TreeWF res.tree ∧
    (∀ k' g, Congr g → M g (subsOf k' res.tree) =
        M g (subsOf k' t) + (if cmpList key k' = 0 then sgn r * g r.vals else 0)) ∧
    res.first = decide (M (fun _ => 1) (subsOf key t) = 0) ∧
    res.last = decide (M (fun _ => 1) (subsOf key res.tree) = 0) := by
  unfold store at h
  cases hn : newTimes (timesOf r.vals (subsOf key t)) r with
  | none => simp [hn] at h
  | some ts =>
    rw [hn] at h
    have hlen := newTimes_length hn
    have hres := Option.some.inj h
    clear h
    have swf : SubsWF (updSubs r.vals ts (subsOf key t)) := updSubs_wf (subsOf_wf wf key)
    have ssorted : Sorted (updSubs r.vals ts (subsOf key t)) := updSubs_sorted (subsOf_sorted wf key)
    have hMU : ∀ g, Congr g → M g (updSubs r.vals ts (subsOf key t)) = M g (subsOf key t) + sgn r * g r.vals := by
      intro g hg
      rw [M_updSubs hg, hlen, Int.add_mul]; omega
    generalize updSubs r.vals ts (subsOf key t) = U at hres swf hMU ssorted
    subst hres
    -- the subs found under any key of the new tree
    have hsubs : ∀ k', subsOf k' (if U.isEmpty then SAL.del key t else SAL.put key U t) =
        if cmpList key k' = 0 then U else subsOf k' t := by
      intro k'
      by_cases he : U.isEmpty = true
      · have hnil : U = [] := List.isEmpty_iff.mp he
        rw [if_pos he]
        by_cases hk : cmpList key k' = 0
        · rw [if_pos hk, subsOf_del_self wf.1 hk, hnil]
        · rw [if_neg hk, subsOf_del_other wf.1 hk]
      · rw [if_neg he]
        by_cases hk : cmpList key k' = 0
        · rw [if_pos hk, subsOf_put_self U t hk]
        · rw [if_neg hk, subsOf_put_other U t hk]
    have hwf : TreeWF (if U.isEmpty then SAL.del key t else SAL.put key U t) := by
      by_cases he : U.isEmpty = true
      · rw [if_pos he]
        exact ⟨sorted_del wf.1, fun p hp => wf.2 p (mem_del hp)⟩
      · rw [if_neg he]
        refine ⟨sorted_put wf.1, fun p hp => ?_⟩
        rcases mem_put hp with hp | ⟨hv, _⟩
        · exact wf.2 p hp
        · rw [hv]
          exact ⟨fun h' => he (by simp [h']), swf, ssorted⟩
    refine ⟨hwf, ?_, ?_, ?_⟩
    · intro k' g hg
      show M g (subsOf k' (if U.isEmpty then SAL.del key t else SAL.put key U t)) = _
      rw [hsubs k']
      by_cases hk : cmpList key k' = 0
      · rw [if_pos hk, if_pos hk, hMU g hg, subsOf_congr hk t]
      · rw [if_neg hk, if_neg hk]; omega
    · exact get_isNone_iff wf key
    · show U.isEmpty = decide (M (fun _ => 1) (subsOf key (if U.isEmpty then SAL.del key t else SAL.put key U t)) = 0)
      rw [hsubs key, if_pos (cmpList_refl key)]
      have := M_one_eq_zero_iff swf
      by_cases he : U.isEmpty = true
      · have hnil : U = [] := List.isEmpty_iff.mp he
        simp [hnil, M]
      · have hne : U ≠ [] := fun h' => he (by simp [h'])
        have : M (fun _ => 1) U ≠ 0 := fun h' => hne (this.mp h')
        simp [he, this]

/-! ### the stored count of one row -/
/-- the indicator "stored row equals `x`" -/
def gEq (x : Row) (y : Row) : Int := if rowEq y x then 1 else 0

theorem congr_gEq (x : Row) : Congr (gEq x) := by
  intro a b h
  unfold gEq
  rw [rowEq_congr_left h x]

theorem M_gEq_zero {x : Row} : ∀ {s : Subs}, (∀ p ∈ s, cmpList x p.1 < 0) → M (gEq x) s = 0
  | [], _ => rfl
  | (y, ts) :: rest, h => by
    have h1 : cmpList x y < 0 := h (y, ts) (by simp)
    have h2 : rowEq y x = false := by
      have := cmpList_antisymm x y
      simp only [rowEq]
      have : cmpList y x ≠ 0 := by omega
      simp [this]
    have ih := M_gEq_zero (s := rest) (fun p hp => h p (by simp [hp]))
    have hg : gEq x y = 0 := by simp [gEq, h2]
    simp only [M, hg, ih]; omega

/-- in an ordered item the `EventTimes` found for `x` are all the stored occurrences of `x` -/
theorem timesOf_length {x : Row} : ∀ {s : Subs}, Sorted s → ((timesOf x s).length : Int) = M (gEq x) s
  | [], _ => rfl
  | (y, ts) :: rest, hs => by
    have hs' := sorted_cons hs
    have a1 := cmpList_antisymm x y
    rcases tri (cmpList x y) with h1 | h1 | h1
    · rw [timesOf_cons_lt _ _ h1]
      have : M (gEq x) ((y, ts) :: rest) = 0 := by
        apply M_gEq_zero
        intro p hp
        rcases List.mem_cons.mp hp with hp | hp
        · subst hp; exact h1
        · exact cmpList_lt_trans h1 (by have := hs'.1 p hp; omega)
      rw [this]; rfl
    · rw [timesOf_cons_eq _ _ h1]
      have h2 : rowEq y x = true := by simp only [rowEq]; have : cmpList y x = 0 := by omega
                                       simp [this]
      have h3 : M (gEq x) rest = 0 := by
        apply M_gEq_zero
        intro p hp
        exact cmpList_le_lt_trans (by omega) (hs'.1 p hp)
      have hg : gEq x y = 1 := by simp [gEq, h2]
      simp only [M, hg, h3]; omega
    · rw [timesOf_cons_gt _ _ h1]
      have h2 : rowEq y x = false := by
        simp only [rowEq]
        have : cmpList y x ≠ 0 := by omega
        simp [this]
      rw [timesOf_length hs'.2]
      have hg : gEq x y = 0 := by simp [gEq, h2]
      simp only [M, hg]; omega

/-! ### what the Scans emit -/
theorem net_map_times (v : Row) (b : Bool) (etf : T → T) (row : Row) : ∀ ts : List T,
    net (ts.map fun t => ({ vals := v, retr := b, et := etf t } : Rec)) row =
      (ts.length : Int) * (if rowEq v row then (if b then -1 else 1) else 0)
  | [] => by simp [net]
  | t :: ts => by
    simp only [List.map, net, net_map_times v b etf row ts, Rec.weight, List.length_cons]
    push_cast
    rw [Int.add_mul]; omega

theorem net_joinRows (amLeft : Bool) (r : Rec) (row : Row) : ∀ s : Subs,
    net (joinRows amLeft r s) row =
      sgn r * M (fun x => if rowEq (if amLeft then r.vals ++ x else x ++ r.vals) row then 1 else 0) s
  | [] => by simp [joinRows, net, M]
  | (x, ts) :: rest => by
    simp only [joinRows, net_append, net_joinRows amLeft r row rest, M]
    rw [net_map_times (if amLeft then r.vals ++ x else x ++ r.vals) r.retr (fun t => maxT r.et t) row ts]
    unfold sgn
    by_cases h1 : rowEq (if amLeft then r.vals ++ x else x ++ r.vals) row <;> by_cases h2 : r.retr <;>
      simp [h1, h2, Int.mul_add] <;> omega

theorem net_nullRows (amLeft : Bool) (r : Rec) (retr : Bool) (row : Row) : ∀ s : Subs,
    net (nullRows amLeft r retr s) row =
      (if retr then -1 else 1) *
        M (fun x => if rowEq (if amLeft then List.replicate r.vals.length Value.null ++ x
                              else x ++ List.replicate r.vals.length Value.null) row then 1 else 0) s
  | [] => by simp [nullRows, net, M]
  | (x, ts) :: rest => by
    simp only [nullRows, net_append, net_nullRows amLeft r retr row rest, M]
    rw [net_map_times _ retr (fun t => t) row ts]
    by_cases h1 : rowEq (if amLeft then List.replicate r.vals.length Value.null ++ x
                              else x ++ List.replicate r.vals.length Value.null) row <;> by_cases h2 : retr <;>
      simp [h1, h2, Int.mul_add] <;> omega

theorem congr_pairLeft (a : Row) (row : Row) : Congr (fun x => if rowEq (a ++ x) row then 1 else 0) := by
  intro x y h
  have : cmpList (a ++ x) (a ++ y) = 0 := by rw [cmpList_append_left]; exact h
  simp only [rowEq_congr_left this row]
theorem congr_pairRight (a : Row) (row : Row) : Congr (fun x => if rowEq (x ++ a) row then 1 else 0) := by
  intro x y h
  have : cmpList (x ++ a) (y ++ a) = 0 := cmpList_append_eq a a h (cmpList_refl a)
  simp only [rowEq_congr_left this row]

end Octo.Join
