import Octo.Lemmas.TrigSpec
/-!
  `EventTimeBuffer` only reorders: what it hands to the group-by has the same net multiplicities as what it
  received (`net_buffer`), provided every event time is a representable instant (at most `WatermarkMaxValue`,
  which holds of every `time.Time` built from an int64 of nanoseconds).
-/
namespace Octo.Trig
open Octo Octo.TMap

/-! ### sums over a tree -/
section Sum
variable {α β : Type} {lt : α → α → Bool}

def sumOf (f : α × β → Int) (m : List (α × β)) : Int := (m.map f).sum

theorem sumOf_insSorted (f : α × β → Int) (x : α × β) (m : List (α × β)) :
    sumOf f (insSorted lt x m) = f x + sumOf f m := by
  induction m with
  | nil => simp [insSorted, sumOf]
  | cons e es ih =>
    simp only [insSorted]
    split
    · simp [sumOf]
    · simp only [sumOf, List.map_cons, List.sum_cons] at ih ⊢
      rw [ih]; omega

theorem erase_eq_self_of_none (k : α) (m : List (α × β)) (h : ∀ e ∈ m, eqv lt k e.1 = false) :
    erase lt k m = m := by
  simp only [erase]
  rw [List.filter_eq_self]
  intro e he; simp [h e he]

theorem sumOf_erase (E : EqvLaws lt) (f : α × β → Int) (k : α) (m : List (α × β)) (hn : NoDup lt m) :
    sumOf f (erase lt k m) = sumOf f m - (match find lt k m with | some e => f e | none => 0) := by
  induction m with
  | nil => simp [erase, sumOf, find]
  | cons e es ih =>
    simp only [NoDup, List.pairwise_cons] at hn
    by_cases he : eqv lt k e.1 = true
    · have hrest : ∀ x ∈ es, eqv lt k x.1 = false := by
        intro x hx
        cases hq : eqv lt k x.1
        · rfl
        · have := E.trans e.1 k x.1 (E.symm he) hq
          rw [hn.1 x hx] at this; cases this
      have h1 : erase lt k (e :: es) = es := by
        simp only [erase, List.filter_cons, he, Bool.not_true, Bool.false_eq_true, if_false]
        exact erase_eq_self_of_none k es hrest
      rw [h1]
      simp only [find, he, if_true, sumOf, List.map_cons, List.sum_cons]
      omega
    · have he' : eqv lt k e.1 = false := by simpa using he
      have h1 : erase lt k (e :: es) = e :: erase lt k es := by
        simp [erase, List.filter_cons, he']
      rw [h1]
      have := ih hn.2
      simp only [find, he', Bool.false_eq_true, if_false, sumOf, List.map_cons, List.sum_cons] at this ⊢
      rw [this]; omega

theorem sumOf_insert (E : EqvLaws lt) (f : α × β → Int) (k : α) (v : β) (m : List (α × β)) (hn : NoDup lt m) :
    sumOf f (insert lt k v m) = f (k, v) + sumOf f m - (match find lt k m with | some e => f e | none => 0) := by
  simp only [TMap.insert, sumOf_insSorted, sumOf_erase E f k m hn]
  omega

end Sum

/-! ### the buffer's tree -/
theorem eqv_intLess (a b : Int) : eqv intLess a b = decide (a = b) := by
  simp only [eqv, intLess]
  by_cases h : a = b
  · subst h; simp
  · have : a < b ∨ b < a := by omega
    rcases this with h1 | h1 <;> simp [h, h1] <;> omega

theorem intLaws : EqvLaws intLess where
  refl a := by simp [eqv_intLess]
  trans a b c := by simp only [eqv_intLess, decide_eq_true_eq]; intro h1 h2; rw [h1, h2]

def netBuf (b : Buf) (row : Row) : Int := sumOf (fun e => net e.2 row) b

theorem net_flatMap (l : Buf) (row : Row) : net (l.flatMap (·.2)) row = netBuf l row := by
  induction l with
  | nil => rfl
  | cons e es ih => simp only [List.flatMap_cons, net_append, ih, netBuf, sumOf, List.map_cons, List.sum_cons]

theorem netBuf_append (a b : Buf) (row : Row) : netBuf (a ++ b) row = netBuf a row + netBuf b row := by
  simp only [netBuf, sumOf, List.map_append, List.sum_append_int]

structure BufInv (b : Buf) : Prop where
  nodup : NoDup intLess b
  range : ∀ e ∈ b, e.1 ≤ maxNs

theorem bufAdd_inv (t : Int) (r : Rec) (b : Buf) (ht : t ≤ maxNs) (h : BufInv b) (row : Row) :
    BufInv (bufAdd t r b) ∧ netBuf (bufAdd t r b) row = netBuf b row + r.weight row := by
  simp only [bufAdd]
  cases hf : find intLess t b with
  | none =>
    refine ⟨⟨nodup_insert _ _ h.nodup, fun e he => ?_⟩, ?_⟩
    · rcases mem_insert.mp he with h1 | h1
      · rw [h1]; exact ht
      · exact h.range e h1.1
    · simp only [netBuf, sumOf_insert intLaws _ t [r] b h.nodup, hf, net]
      omega
  | some e =>
    have hm := find_some_mem hf
    have heq : t = e.1 := by
      have := hm.2
      rw [eqv_intLess] at this
      simpa using this
    have hf' : find intLess e.1 b = some e := by rw [← heq]; exact hf
    refine ⟨⟨nodup_insert _ _ h.nodup, fun x hx => ?_⟩, ?_⟩
    · rcases mem_insert.mp hx with h1 | h1
      · rw [h1]; exact h.range e hm.1
      · exact h.range x h1.1
    · simp only [netBuf, sumOf_insert intLaws _ e.1 (e.2 ++ [r]) b h.nodup, hf', net_append, net]
      omega

theorem bufEmit_inv (w : Int) (b : Buf) (h : BufInv b) (row : Row) :
    BufInv (bufEmit w b).2 ∧ net (bufEmit w b).1 row + netBuf (bufEmit w b).2 row = netBuf b row := by
  simp only [bufEmit]
  refine ⟨⟨h.nodup.sublist (List.dropWhile_sublist _), fun e he => h.range e ((List.dropWhile_sublist _).subset he)⟩, ?_⟩
  rw [net_flatMap, ← netBuf_append, List.takeWhile_append_dropWhile]

theorem dropWhile_all {α : Type} (p : α → Bool) (l : List α) (h : ∀ e ∈ l, p e = true) : l.dropWhile p = [] := by
  induction l with
  | nil => rfl
  | cons x xs ih =>
    have hx : p x = true := h x (by simp)
    simp only [List.dropWhile_cons, hx, if_true]
    exact ih (fun e he => h e (by simp [he]))

theorem recs_map_data (rs : List Rec) : recs (rs.map Msg.data) = rs := by
  induction rs with
  | nil => rfl
  | cons r rs ih => simp [recs, ih]

/-- every event time is a representable instant -/
def EtInRange (s : List Msg) : Prop := ∀ r ∈ recs s, ∀ t, r.et = some t → t ≤ maxNs

theorem bufFold_inv (b : Buf) (s : List Msg) (h : BufInv b) (hs : EtInRange s) (row : Row) :
    BufInv (bufFold b s).1 ∧
    net (recs (bufFold b s).2) row + netBuf (bufFold b s).1 row = netBuf b row + net (recs s) row := by
  induction s generalizing b with
  | nil => exact ⟨h, by simp [bufFold, recs, net]⟩
  | cons m ms ih =>
    have hs' : EtInRange ms := by
      intro r hr t ht
      cases m with
      | data r0 => exact hs r (by simp [recs, hr]) t ht
      | wm w => exact hs r (by simpa [recs] using hr) t ht
    cases m with
    | data r =>
      cases het : r.et with
      | none =>
        have := ih b h hs'
        simp only [bufFold, bufStep, het, recs_append, net_append, recs, net] at this ⊢
        exact ⟨this.1, by omega⟩
      | some t =>
        have ht : t ≤ maxNs := hs r (by simp [recs]) t het
        have h1 := bufAdd_inv t r b ht h row
        have := ih _ h1.1 hs'
        simp only [bufFold, bufStep, het, recs_append, net_append, recs, net] at this ⊢
        exact ⟨this.1, by omega⟩
    | wm w =>
      have h1 := bufEmit_inv w b h row
      have := ih _ h1.1 hs'
      simp only [bufFold, bufStep, recs_append, net_append, recs, net, recs_map_data] at this ⊢
      exact ⟨this.1, by omega⟩

/-- **the event-time buffer only reorders** -/
theorem net_buffer (s : List Msg) (hs : EtInRange s) (row : Row) : net (recs (buffer s)) row = net (recs s) row := by
  have h0 : BufInv ([] : Buf) := ⟨List.Pairwise.nil, fun e he => by cases he⟩
  have h := bufFold_inv [] s h0 hs row
  have he := bufEmit_inv maxNs _ h.1 row
  have hdrop : (bufEmit maxNs (bufFold [] s).1).2 = [] := by
    simp only [bufEmit]
    apply dropWhile_all
    intro e he
    simpa using h.1.range e he
  simp only [buffer, recs_append, net_append, recs_map_data]
  rw [hdrop] at he
  simp only [netBuf, sumOf, List.map_nil, List.sum_nil] at he h
  omega

end Octo.Trig
