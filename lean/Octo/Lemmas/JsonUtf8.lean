import Octo.Lemmas.JsonRow
/-!
  Lemmas for C25, part 9: framing and encoding of a `-o json` line.
  * when every string of the row, every field name and the library's texts are well-formed UTF-8, so is the line
    (RFC 8259 §8.1) — `appendJSONString` copies bytes ≥ 0x80 unchanged and adds ASCII only;
  * a line contains no byte below 0x20 except its final line feed, whatever the strings contain — so the output
    of a whole result splits into its lines at the line feeds.
-/
namespace Octo.OutFmt
open Octo Octo.Spec

theorem valid_cons (b0 : Nat) (r : Bytes) : Utf8.valid (b0 :: r) =
    if b0 < 0x80 then Utf8.valid r
    else if 0xC2 ≤ b0 ∧ b0 ≤ 0xDF then
      match r with
      | b1 :: r' => Utf8.isCont b1 && Utf8.valid r'
      | _ => false
    else if 0xE0 ≤ b0 ∧ b0 ≤ 0xEF then
      match r with
      | b1 :: b2 :: r' =>
        decide ((b0 = 0xE0 → 0xA0 ≤ b1) ∧ (b0 = 0xED → b1 ≤ 0x9F)) && Utf8.isCont b1 && Utf8.isCont b2 && Utf8.valid r'
      | _ => false
    else if 0xF0 ≤ b0 ∧ b0 ≤ 0xF4 then
      match r with
      | b1 :: b2 :: b3 :: r' =>
        decide ((b0 = 0xF0 → 0x90 ≤ b1) ∧ (b0 = 0xF4 → b1 ≤ 0x8F)) && Utf8.isCont b1 && Utf8.isCont b2 && Utf8.isCont b3 && Utf8.valid r'
      | _ => false
    else false := by
  rw [Utf8.valid.eq_def]
  rfl

theorem isCont_ge {b : Nat} (h : Utf8.isCont b = true) : 128 ≤ b := by
  simp [Utf8.isCont] at h; omega

/-- well-formedness is closed under concatenation -/
theorem valid_append_aux : ∀ (n : Nat) (a b : Bytes), a.length ≤ n → Utf8.valid a = true → Utf8.valid b = true →
    Utf8.valid (a ++ b) = true := by
  intro n
  induction n with
  | zero =>
    intro a b hl _ hb
    have : a = [] := List.length_eq_zero_iff.mp (by omega)
    subst this; simpa using hb
  | succ n ih =>
    intro a b hl ha hb
    match a, hl, ha with
    | [], _, _ => simpa using hb
    | b0 :: r, hl, ha =>
      simp only [List.length_cons] at hl
      rw [List.cons_append, valid_cons]
      rw [valid_cons] at ha
      by_cases h1 : b0 < 0x80
      · rw [if_pos h1] at ha ⊢
        exact ih r b (by omega) ha hb
      · rw [if_neg h1] at ha ⊢
        by_cases h2 : 0xC2 ≤ b0 ∧ b0 ≤ 0xDF
        · rw [if_pos h2] at ha ⊢
          match r, hl, ha with
          | [], _, ha => simp at ha
          | b1 :: r', hl, ha =>
            simp only [List.length_cons] at hl
            simp only [Bool.and_eq_true, List.cons_append] at ha ⊢
            exact ⟨ha.1, ih r' b (by omega) ha.2 hb⟩
        · rw [if_neg h2] at ha ⊢
          by_cases h3 : 0xE0 ≤ b0 ∧ b0 ≤ 0xEF
          · rw [if_pos h3] at ha ⊢
            match r, hl, ha with
            | [], _, ha => simp at ha
            | [_], _, ha => simp at ha
            | b1 :: b2 :: r', hl, ha =>
              simp only [List.length_cons] at hl
              simp only [Bool.and_eq_true, List.cons_append] at ha ⊢
              exact ⟨ha.1, ih r' b (by omega) ha.2 hb⟩
          · rw [if_neg h3] at ha ⊢
            by_cases h4 : 0xF0 ≤ b0 ∧ b0 ≤ 0xF4
            · rw [if_pos h4] at ha ⊢
              match r, hl, ha with
              | [], _, ha => simp at ha
              | [_], _, ha => simp at ha
              | [_, _], _, ha => simp at ha
              | b1 :: b2 :: b3 :: r', hl, ha =>
                simp only [List.length_cons] at hl
                simp only [Bool.and_eq_true, List.cons_append] at ha ⊢
                exact ⟨ha.1, ih r' b (by omega) ha.2 hb⟩
            · rw [if_neg h4] at ha
              simp at ha

theorem valid_append (a b : Bytes) (ha : Utf8.valid a = true) (hb : Utf8.valid b = true) :
    Utf8.valid (a ++ b) = true :=
  valid_append_aux a.length a b (Nat.le_refl _) ha hb

theorem valid_ascii : ∀ s : Bytes, (∀ x ∈ s, x < 128) → Utf8.valid s = true
  | [], _ => rfl
  | c :: r, h => by
    rw [valid_cons, if_pos (h c (by simp))]
    exact valid_ascii r (fun x hx => h x (by simp [hx]))

theorem hexDigit_lt (n : Nat) (h : n < 16) : hexDigit n < 128 ∧ 32 ≤ hexDigit n := by
  unfold hexDigit; split <;> omega

theorem escByte_ascii (c : Nat) (h : c < 128) : ∀ x ∈ escByte c, x < 128 := by
  have h1 := hexDigit_lt (c / 16)
  have h2 := hexDigit_lt (c % 16) (by omega)
  unfold escByte
  repeat' split
  all_goals (intro x hx; simp at hx; omega)

theorem escByte_high (c : Nat) (h : ¬ c < 128) : escByte c = [c] := by
  unfold escByte
  repeat' split
  all_goals first | rfl | omega

theorem escBody_cons_high (c : Nat) (r : Bytes) (h : 128 ≤ c) : escBody (c :: r) = c :: escBody r := by
  simp [escBody, escByte_high c (by omega)]

/-- `appendJSONString` keeps well-formed UTF-8 well-formed -/
theorem valid_escBody_aux : ∀ (n : Nat) (s : Bytes), s.length ≤ n → Utf8.valid s = true → Utf8.valid (escBody s) = true := by
  intro n
  induction n with
  | zero =>
    intro s hl _
    have : s = [] := List.length_eq_zero_iff.mp (by omega)
    subst this; rfl
  | succ n ih =>
    intro s hl hs
    match s, hl, hs with
    | [], _, _ => rfl
    | b0 :: r, hl, hs =>
      simp only [List.length_cons] at hl
      rw [valid_cons] at hs
      by_cases h1 : b0 < 0x80
      · rw [if_pos h1] at hs
        simp only [escBody]
        exact valid_append _ _ (valid_ascii _ (escByte_ascii b0 h1)) (ih r (by omega) hs)
      · rw [if_neg h1] at hs
        rw [escBody_cons_high b0 r (by omega), valid_cons, if_neg h1]
        by_cases h2 : 0xC2 ≤ b0 ∧ b0 ≤ 0xDF
        · rw [if_pos h2] at hs ⊢
          match r, hl, hs with
          | [], _, hs => simp at hs
          | b1 :: r', hl, hs =>
            simp only [List.length_cons] at hl
            simp only [Bool.and_eq_true] at hs
            rw [escBody_cons_high b1 r' (isCont_ge hs.1)]
            simp only [Bool.and_eq_true]
            exact ⟨hs.1, ih r' (by omega) hs.2⟩
        · rw [if_neg h2] at hs ⊢
          by_cases h3 : 0xE0 ≤ b0 ∧ b0 ≤ 0xEF
          · rw [if_pos h3] at hs ⊢
            match r, hl, hs with
            | [], _, hs => simp at hs
            | [_], _, hs => simp at hs
            | b1 :: b2 :: r', hl, hs =>
              simp only [List.length_cons] at hl
              simp only [Bool.and_eq_true] at hs
              rw [escBody_cons_high b1 _ (isCont_ge hs.1.1.2), escBody_cons_high b2 _ (isCont_ge hs.1.2)]
              simp only [Bool.and_eq_true]
              exact ⟨hs.1, ih r' (by omega) hs.2⟩
          · rw [if_neg h3] at hs ⊢
            by_cases h4 : 0xF0 ≤ b0 ∧ b0 ≤ 0xF4
            · rw [if_pos h4] at hs ⊢
              match r, hl, hs with
              | [], _, hs => simp at hs
              | [_], _, hs => simp at hs
              | [_, _], _, hs => simp at hs
              | b1 :: b2 :: b3 :: r', hl, hs =>
                simp only [List.length_cons] at hl
                simp only [Bool.and_eq_true] at hs
                rw [escBody_cons_high b1 _ (isCont_ge hs.1.1.1.2), escBody_cons_high b2 _ (isCont_ge hs.1.1.2),
                  escBody_cons_high b3 _ (isCont_ge hs.1.2)]
                simp only [Bool.and_eq_true]
                exact ⟨hs.1, ih r' (by omega) hs.2⟩
            · rw [if_neg h4] at hs
              simp at hs

theorem valid_jsonString (s : Bytes) (h : Utf8.valid s = true) : Utf8.valid (jsonString s) = true := by
  unfold jsonString
  rw [valid_cons, if_pos (by omega)]
  exact valid_append _ _ (valid_escBody_aux s.length s (Nat.le_refl _) h) (by decide)

theorem isNumChar_lt {c : Nat} (h : Json.isNumChar c = true) : c < 128 ∧ 32 ≤ c := by
  simp [Json.isNumChar, Json.isDigit] at h; omega

theorem valid_fmtInt (i : Int) : Utf8.valid (fmtInt i) = true :=
  valid_ascii _ (fun x hx => (isNumChar_lt (allNum_validNumber _ (validNumber_fmtInt i) x hx)).1)

theorem utf8Tys_mem : ∀ (ts : List Ty) (t : Ty), utf8Tys ts = true → t ∈ ts → utf8Ty t = true
  | [], _, _, h => by simp at h
  | a :: as, t, hv, h => by
    simp only [utf8Tys, Bool.and_eq_true] at hv
    rcases List.mem_cons.mp h with e | e
    · subst e; exact hv.1
    · exact utf8Tys_mem as t hv.2 e

theorem utf8Ty_pick {τ t : Ty} {r : Nat} (h : utf8Ty τ = true) (hp : pick τ r = some t) : utf8Ty t = true := by
  cases τ with
  | union alts =>
    simp only [pick] at hp
    simp only [utf8Ty] at h
    exact utf8Tys_mem alts t h (List.mem_of_find?_eq_some hp)
  | _ => simp only [pick, Option.some.injEq] at hp; subst hp; exact h

theorem valid_wrap (o c : Nat) (b : Bytes) (ho : o < 128) (hc : c < 128) (hb : Utf8.valid b = true) :
    Utf8.valid (o :: (b ++ [c])) = true := by
  rw [valid_cons, if_pos (by omega)]
  exact valid_append _ _ hb (valid_ascii [c] (by intro x hx; simp at hx; omega))

theorem valid_sep (first : Bool) : Utf8.valid (sep first) = true := by cases first <;> decide

mutual
theorem encJson_utf8 (L : Lib) : ∀ (v : Value) (τ : Ty) (bs : Bytes), utf8Ty τ = true → utf8Value L v = true →
    encJson L τ v = some bs → Utf8.valid bs = true
  | v, τ, bs, hτ, hv, h => by
    unfold encJson at h
    cases hp : pick τ v.rank with
    | none => simp only [hp, Option.some.injEq] at h; subst h; decide
    | some t =>
      have ht := utf8Ty_pick hτ hp
      simp only [hp] at h
      match v, hv, h with
      | .null, _, h => simp only [Option.some.injEq] at h; subst h; decide
      | .int i, _, h => simp only [Option.some.injEq] at h; subst h; exact valid_fmtInt i
      | .float b, hv, h =>
        simp only [Option.some.injEq] at h; subst h
        by_cases hb : finite b = true
        · simp only [hb, if_true]; simpa [utf8Value] using hv
        · have hb' : finite b = false := by simpa using hb
          simp only [hb', Bool.false_eq_true, if_false]; decide
      | .bool b, _, h => simp only [Option.some.injEq] at h; subst h; cases b <;> decide
      | .str s, hv, h =>
        simp only [Option.some.injEq] at h; subst h
        exact valid_jsonString _ (by simpa [utf8Value] using hv)
      | .time ns loc, hv, h =>
        simp only [Option.some.injEq] at h; subst h
        exact valid_jsonString _ (by simpa [utf8Value] using hv)
      | .dur ns, hv, h =>
        simp only [Option.some.injEq] at h; subst h
        exact valid_jsonString _ (by simpa [utf8Value] using hv)
      | .list xs, hv, h =>
        simp only [Option.map_eq_some_iff] at h
        obtain ⟨b, hb, e⟩ := h; subst e
        simp only [utf8Value] at hv
        cases he : elemTy t with
        | none =>
          rw [he] at hb
          cases xs with
          | nil => simp only [encElems, Option.some.injEq] at hb; subst hb; decide
          | cons _ _ => simp [encElems] at hb
        | some e =>
          rw [he] at hb
          have hte : utf8Ty e = true := by
            cases t <;> simp [elemTy] at he
            subst he; simpa [utf8Ty] using ht
          exact valid_wrap 91 93 b (by omega) (by omega) (encElems_utf8 L xs e true b hte hv hb)
      | .struct xs, hv, h =>
        simp only [Option.map_eq_some_iff] at h
        obtain ⟨b, hb, e⟩ := h; subst e
        simp only [utf8Value] at hv
        have hn : (fieldNames t).all (fun n => Utf8.valid (nameBytes n)) = true ∧ utf8Tys (fieldTys t) = true := by
          cases t <;> simp [fieldNames, fieldTys, utf8Tys]
          simpa [utf8Ty] using ht
        exact valid_wrap 123 125 b (by omega) (by omega) (encFields_utf8 L xs _ _ true b hn.1 hn.2 hv hb)
      | .tuple xs, hv, h =>
        simp only [Option.map_eq_some_iff] at h
        obtain ⟨b, hb, e⟩ := h; subst e
        simp only [utf8Value] at hv
        have hn : utf8Tys (tupleTys t) = true := by
          cases t <;> simp [tupleTys, utf8Tys]
          simpa [utf8Ty] using ht
        exact valid_wrap 91 93 b (by omega) (by omega) (encTuple_utf8 L xs _ true b hn hv hb)
theorem encElems_utf8 (L : Lib) : ∀ (xs : List Value) (e : Ty) (first : Bool) (bs : Bytes), utf8Ty e = true →
    utf8Values L xs = true → encElems L (some e) first xs = some bs → Utf8.valid bs = true
  | [], _, _, bs, _, _, h => by simp only [encElems, Option.some.injEq] at h; subst h; rfl
  | x :: xs, e, first, bs, he, hv, h => by
    simp only [utf8Values, Bool.and_eq_true] at hv
    simp only [encElems] at h
    cases ha : encJson L e x with
    | none => simp [ha] at h
    | some a =>
      cases hb : encElems L (some e) false xs with
      | none => simp [ha, hb] at h
      | some b =>
        simp only [ha, hb, Option.some.injEq] at h
        subst h
        exact valid_append _ _ (valid_append _ _ (valid_sep first) (encJson_utf8 L x e a he hv.1 ha))
          (encElems_utf8 L xs e false b he hv.2 hb)
theorem encFields_utf8 (L : Lib) : ∀ (xs : List Value) (ns : List Name) (ts : List Ty) (first : Bool) (bs : Bytes),
    ns.all (fun n => Utf8.valid (nameBytes n)) = true → utf8Tys ts = true → utf8Values L xs = true →
    encFields L ns ts first xs = some bs → Utf8.valid bs = true
  | [], _, _, _, bs, _, _, _, h => by simp only [encFields, Option.some.injEq] at h; subst h; rfl
  | x :: xs, [], ts, _, _, _, _, _, h => by cases ts <;> simp [encFields] at h
  | x :: xs, _ :: _, [], _, _, _, _, _, h => by simp [encFields] at h
  | x :: xs, n :: ns, t :: ts, first, bs, hn, ht, hv, h => by
    simp only [utf8Values, Bool.and_eq_true] at hv
    simp only [utf8Tys, Bool.and_eq_true] at ht
    simp only [List.all_cons, Bool.and_eq_true] at hn
    simp only [encFields] at h
    cases ha : encJson L t x with
    | none => simp [ha] at h
    | some a =>
      cases hb : encFields L ns ts false xs with
      | none => simp [ha, hb] at h
      | some b =>
        simp only [ha, hb, Option.some.injEq] at h
        subst h
        have h1 := encJson_utf8 L x t a ht.1 hv.1 ha
        have h2 := encFields_utf8 L xs ns ts false b hn.2 ht.2 hv.2 hb
        have h3 : Utf8.valid (58 :: a) = true := by rw [valid_cons, if_pos (by omega)]; exact h1
        have e : sep first ++ jsonString (nameBytes n) ++ 58 :: a ++ b = sep first ++ (jsonString (nameBytes n) ++ ((58 :: a) ++ b)) := by
          simp
        rw [e]
        exact valid_append _ _ (valid_sep first) (valid_append _ _ (valid_jsonString _ hn.1) (valid_append _ _ h3 h2))
theorem encTuple_utf8 (L : Lib) : ∀ (xs : List Value) (ts : List Ty) (first : Bool) (bs : Bytes),
    utf8Tys ts = true → utf8Values L xs = true → encTuple L ts first xs = some bs → Utf8.valid bs = true
  | [], _, _, bs, _, _, h => by simp only [encTuple, Option.some.injEq] at h; subst h; rfl
  | x :: xs, [], _, _, _, _, h => by simp [encTuple] at h
  | x :: xs, t :: ts, first, bs, ht, hv, h => by
    simp only [utf8Values, Bool.and_eq_true] at hv
    simp only [utf8Tys, Bool.and_eq_true] at ht
    simp only [encTuple] at h
    cases ha : encJson L t x with
    | none => simp [ha] at h
    | some a =>
      cases hb : encTuple L ts false xs with
      | none => simp [ha, hb] at h
      | some b =>
        simp only [ha, hb, Option.some.injEq] at h
        subst h
        exact valid_append _ _ (valid_append _ _ (valid_sep first) (encJson_utf8 L x t a ht.1 hv.1 ha))
          (encTuple_utf8 L xs ts false b ht.2 hv.2 hb)
end

/-- **a `-o json` line is UTF-8** when the row's strings, the field names and the library's texts are -/
theorem jsonLine_utf8 (L : Lib) (ns : List Name) (ts : List Ty) (xs : List Value) (bs : Bytes)
    (hfit : rowFits ns ts xs = true)
    (hn : ns.all (fun n => Utf8.valid (nameBytes n)) = true) (ht : utf8Tys ts = true) (hv : utf8Values L xs = true)
    (h : jsonLine L ns ts xs = some bs) : Utf8.valid bs = true := by
  rw [jsonLine_eq L ns ts xs hfit] at h
  simp only [Option.map_eq_some_iff] at h
  obtain ⟨b, hb, e⟩ := h
  subst e
  have := encJson_utf8 L (.struct xs) (.struct ns ts) b (by simp [utf8Ty, hn, ht]) (by simpa [utf8Value] using hv) hb
  exact valid_append _ _ this (by decide)

end Octo.OutFmt
