import Octo.Lemmas.JoinTree
/-!
  `receiveRecord` against the specification: the specification as weighted sums (`joinW`, `padW`,
  `outerW`), the representation invariant `Rep` between a record tree and the list of records
  processed so far, and the step lemmas: processing one more record changes the output by exactly
  the change of the specification (`sjRecv_store`, `sjRecv_osr`, `ojRecv_store`).
  Everything here is about the code as it is now (`nullMatch = false`).
-/
namespace Octo.Join
open Octo

/-! ### the specification as sums -/
/-- the ON condition seen from side `left`: `x` is a record of that side, `o` of the other -/
def sideMatch (cfg : Cfg) (left : Bool) (x o : Rec) : Bool := if left then sqlMatch cfg x o else sqlMatch cfg o x

theorem sideMatch_flip (cfg : Cfg) (left : Bool) (x o : Rec) : sideMatch cfg (!left) o x = sideMatch cfg left x o := by
  cases left <;> rfl

/-- joined row of `x` (side `left`) and `o` -/
def sideRow (left : Bool) (x o : Row) : Row := if left then x ++ o else o ++ x

def pairTerm (cfg : Cfg) (row : Row) (l r : Rec) : Int :=
  if sqlMatch cfg l r && rowEq (l.vals ++ r.vals) row then sgn l * sgn r else 0

def joinW (cfg : Cfg) (L R : List Rec) (row : Row) : Int :=
  wsum (fun l => wsum (fun r => pairTerm cfg row l r) R) L

theorem weight_eq (v : Row) (b : Bool) (e : T) (row : Row) :
    Rec.weight { vals := v, retr := b, et := e } row = if rowEq v row then (if b then -1 else 1) else 0 := rfl

theorem net_map_filter (p : Rec → Bool) (f : Rec → Rec) (row : Row) : ∀ l : List Rec,
    net ((l.filter p).map f) row = wsum (fun x => if p x then (f x).weight row else 0) l
  | [] => rfl
  | x :: l => by
    rw [List.filter_cons, wsum_cons, ← net_map_filter p f row l]
    by_cases h : p x = true
    · rw [if_pos h, if_pos h, List.map_cons, net_cons]
    · rw [if_neg h, if_neg h]; omega

theorem net_joinRecs (cfg : Cfg) (L R : List Rec) (row : Row) : net (joinRecs cfg L R) row = joinW cfg L R row := by
  unfold joinRecs joinW
  induction L with
  | nil => rfl
  | cons l L ih =>
    rw [List.flatMap_cons, net_append, ih, wsum_cons, net_map_filter]
    congr 1
    apply wsum_congr
    intro r _
    unfold pairTerm pairRec sgn
    rw [weight_eq]
    cases sqlMatch cfg l r <;> cases l.retr <;> cases r.retr <;> cases rowEq (l.vals ++ r.vals) row <;> simp

theorem joinW_append_left (cfg : Cfg) (L R : List Rec) (l : Rec) (row : Row) :
    joinW cfg (L ++ [l]) R row = joinW cfg L R row + wsum (fun r => pairTerm cfg row l r) R := by
  unfold joinW; rw [wsum_append, wsum_single]

theorem joinW_append_right (cfg : Cfg) (L R : List Rec) (r : Rec) (row : Row) :
    joinW cfg L (R ++ [r]) row = joinW cfg L R row + wsum (fun l => pairTerm cfg row l r) L := by
  unfold joinW
  rw [← wsum_add]
  apply wsum_congr
  intro l _
  rw [wsum_append, wsum_single]

theorem joinW_perm_left {cfg : Cfg} {L L' : List Rec} (h : List.Perm L L') (R : List Rec) (row : Row) :
    joinW cfg L R row = joinW cfg L' R row := wsum_perm h
theorem joinW_perm_right {cfg : Cfg} (L : List Rec) {R R' : List Rec} (h : List.Perm R R') (row : Row) :
    joinW cfg L R row = joinW cfg L R' row := by
  unfold joinW; apply wsum_congr; intro l _; exact wsum_perm h

/-- signed number of records of `other` that match `x` (a record of side `left`) -/
def partners (cfg : Cfg) (left : Bool) (x : Rec) (other : List Rec) : Int :=
  wsum (fun o => if sideMatch cfg left x o then sgn o else 0) other

/-- the NULL-padded row of a record of side `left` -/
def padSpec (cfg : Cfg) (left : Bool) (v : Row) : Row := if left then v ++ nulls cfg.nR else nulls cfg.nL ++ v

def padTerm (cfg : Cfg) (left : Bool) (other : List Rec) (row : Row) (x : Rec) : Int :=
  if partners cfg left x other == 0 && rowEq (padSpec cfg left x.vals) row then sgn x else 0

/-- consolidated NULL-padded rows of the unmatched records of side `left` -/
def padW (cfg : Cfg) (left : Bool) (my other : List Rec) (row : Row) : Int :=
  wsum (padTerm cfg left other row) my

def outerW (cfg : Cfg) (L R : List Rec) (row : Row) : Int :=
  joinW cfg L R row + (if cfg.outerL then padW cfg true L R row else 0) + (if cfg.outerR then padW cfg false R L row else 0)

/-- the specification of the node of `cfg`, as a sum -/
def specW (cfg : Cfg) (L R : List Rec) (row : Row) : Int :=
  if cfg.outer then outerW cfg L R row else joinW cfg L R row

theorem foldr_sgn_eq_wsum (l : List Rec) : l.foldr (fun r acc => sgn r + acc) 0 = wsum sgn l := by
  induction l with
  | nil => rfl
  | cons r rs ih => simp [List.foldr, wsum, ih]

theorem partnersL_eq (cfg : Cfg) (l : Rec) (R : List Rec) : partnersL cfg l R = partners cfg true l R := by
  unfold partnersL partners sideMatch
  rw [foldr_sgn_eq_wsum, wsum_filter]; rfl
theorem partnersR_eq (cfg : Cfg) (L : List Rec) (r : Rec) : partnersR cfg L r = partners cfg false r L := by
  unfold partnersR partners sideMatch
  rw [foldr_sgn_eq_wsum, wsum_filter]; rfl

theorem net_padLeftRecs (cfg : Cfg) (L R : List Rec) (row : Row) :
    net (padLeftRecs cfg L R) row = padW cfg true L R row := by
  unfold padLeftRecs padW
  rw [net_map_filter]
  apply wsum_congr
  intro l _
  simp only [padTerm, padSpec, sgn, ← partnersL_eq, weight_eq, ↓reduceIte]
  cases (partnersL cfg l R == 0) <;> cases l.retr <;> cases rowEq (l.vals ++ nulls cfg.nR) row <;> simp

theorem net_padRightRecs (cfg : Cfg) (L R : List Rec) (row : Row) :
    net (padRightRecs cfg L R) row = padW cfg false R L row := by
  unfold padRightRecs padW
  rw [net_map_filter]
  apply wsum_congr
  intro r _
  simp only [padTerm, padSpec, sgn, ← partnersR_eq, weight_eq, Bool.false_eq_true, ↓reduceIte]
  cases (partnersR cfg L r == 0) <;> cases r.retr <;> cases rowEq (nulls cfg.nL ++ r.vals) row <;> simp

theorem net_specRecs (cfg : Cfg) (L R : List Rec) (row : Row) : net (specRecs cfg L R) row = specW cfg L R row := by
  unfold specRecs specW outerRecs outerW
  by_cases ho : cfg.outer = true
  · rw [if_pos ho, if_pos ho, net_append, net_append, net_joinRecs]
    congr 1
    · congr 1
      by_cases h : cfg.outerL = true
      · rw [if_pos h, if_pos h, net_padLeftRecs]
      · rw [if_neg h, if_neg h]; rfl
    · by_cases h : cfg.outerR = true
      · rw [if_pos h, if_pos h, net_padRightRecs]
      · rw [if_neg h, if_neg h]; rfl
  · rw [if_neg ho, if_neg ho, net_joinRecs]

/-! ### the representation invariant -/
/-- the key under which a processed record of side `left` sits in its tree; `none` if the key has a NULL -/
def storedKey (cfg : Cfg) (left : Bool) (p : Rec) : Option Row :=
  match keyOf (if left then cfg.keysL else cfg.keysR) p.vals with
  | some k => if hasNull k then none else some k
  | none => none

def repTerm (cfg : Cfg) (left : Bool) (k : Row) (g : Row → Int) (p : Rec) : Int :=
  match storedKey cfg left p with
  | some kp => if cmpList kp k = 0 then sgn p * g p.vals else 0
  | none => 0

/-- tree `t` holds exactly the consolidated records `P` of side `left` -/
def Rep (cfg : Cfg) (left : Bool) (t : Tree) (P : List Rec) : Prop :=
  TreeWF t ∧ ∀ k g, Congr g → M g (subsOf k t) = wsum (repTerm cfg left k g) P

theorem rep_nil (cfg : Cfg) (left : Bool) : Rep cfg left [] [] :=
  ⟨treeWF_nil, fun _ _ _ => rfl⟩

theorem rep_perm {cfg : Cfg} {left : Bool} {t : Tree} {P P' : List Rec} (h : List.Perm P P') (hr : Rep cfg left t P) :
    Rep cfg left t P' :=
  ⟨hr.1, fun k g hg => by rw [hr.2 k g hg]; exact wsum_perm h⟩

/-- a record whose key has a NULL is not stored -/
theorem rep_skip {cfg : Cfg} {left : Bool} {t : Tree} {P : List Rec} {x : Rec} (hr : Rep cfg left t P)
    (hx : storedKey cfg left x = none) : Rep cfg left t (P ++ [x]) := by
  refine ⟨hr.1, fun k g hg => ?_⟩
  rw [hr.2 k g hg, wsum_append, wsum_single]
  simp only [repTerm, hx]; omega

theorem rep_store {cfg : Cfg} {left : Bool} {t : Tree} {P : List Rec} {x : Rec} {key : Row} {res : StoreRes}
    (hr : Rep cfg left t P) (hx : storedKey cfg left x = some key) (hs : store t key x = some res) :
    Rep cfg left res.tree (P ++ [x]) := by
  have sp := store_spec hr.1 key x hs
  refine ⟨sp.1, fun k g hg => ?_⟩
  rw [sp.2.1 k g hg, hr.2 k g hg, wsum_append, wsum_single]
  simp only [repTerm, hx]

/-! ### pair terms against the other side's tree -/
/-- `pairTerm` seen from side `left` -/
def sidePair (cfg : Cfg) (left : Bool) (row : Row) (x o : Rec) : Int :=
  if left then pairTerm cfg row x o else pairTerm cfg row o x

/-- the indicator "joined row of `x` and stored row `y` equals `row`" -/
def gJoin (left : Bool) (xv : Row) (row : Row) (y : Row) : Int :=
  if rowEq (if left then xv ++ y else y ++ xv) row then 1 else 0

theorem congr_gJoin (left : Bool) (xv row : Row) : Congr (gJoin left xv row) := by
  cases left
  · exact congr_pairRight xv row
  · exact congr_pairLeft xv row

theorem keyOf_storedKey {cfg : Cfg} {left : Bool} {x : Rec} {key : Row}
    (hk : keyOf (if left then cfg.keysL else cfg.keysR) x.vals = some key) (hn : hasNull key = false) :
    storedKey cfg left x = some key := by
  unfold storedKey; rw [hk]; simp [hn]

theorem keyOf_storedKey_null {cfg : Cfg} {left : Bool} {x : Rec} {key : Row}
    (hk : keyOf (if left then cfg.keysL else cfg.keysR) x.vals = some key) (hn : hasNull key = true) :
    storedKey cfg left x = none := by
  unfold storedKey; rw [hk]; simp [hn]

/-- `sideMatch` in terms of stored keys -/
theorem sideMatch_eq {cfg : Cfg} {left : Bool} {x : Rec} {key : Row}
    (hk : keyOf (if left then cfg.keysL else cfg.keysR) x.vals = some key) (hn : hasNull key = false) (o : Rec) :
    sideMatch cfg left x o = (match storedKey cfg (!left) o with
      | some ko => decide (cmpList ko key = 0)
      | none => false) := by
  unfold sideMatch sqlMatch storedKey
  cases left
  · -- x is a right record, o a left one
    simp only [Bool.false_eq_true, if_false, Bool.not_false, if_true] at hk ⊢
    rw [hk]
    cases hko : keyOf cfg.keysL o.vals with
    | none => rfl
    | some ko =>
      simp only
      by_cases hno : hasNull ko = true
      · have : rowEq ko key = false := by
          cases hre : rowEq ko key with
          | false => rfl
          | true => have := hasNull_congr (rowEq_iff.mp hre); rw [hno, hn] at this; cases this
        simp [hno, this]
      · by_cases h0 : cmpList ko key = 0 <;> simp [hno, rowEq, h0]
  · simp only [if_true, Bool.not_true, Bool.false_eq_true, if_false] at hk ⊢
    rw [hk]
    cases hko : keyOf cfg.keysR o.vals with
    | none => rfl
    | some ko =>
      simp only
      by_cases hno : hasNull ko = true
      · have : rowEq key ko = false := by
          cases hre : rowEq key ko with
          | false => rfl
          | true => have := hasNull_congr (rowEq_iff.mp hre); rw [hno, hn] at this; cases this
        simp [hno, hn, this]
      · have := cmpList_antisymm key ko
        simp only [hno, hn, rowEq]
        by_cases h0 : cmpList ko key = 0
        · have : cmpList key ko = 0 := by omega
          simp [h0, this]
        · have : cmpList key ko ≠ 0 := by omega
          simp [h0, this]

theorem sideMatch_null {cfg : Cfg} {left : Bool} {x : Rec} {key : Row}
    (hk : keyOf (if left then cfg.keysL else cfg.keysR) x.vals = some key) (hn : hasNull key = true) (o : Rec) :
    sideMatch cfg left x o = false := by
  unfold sideMatch sqlMatch
  cases left
  · simp only [Bool.false_eq_true, if_false] at hk ⊢
    rw [hk]
    cases hko : keyOf cfg.keysL o.vals with
    | none => rfl
    | some ko =>
      simp only
      by_cases hno : hasNull ko = true
      · simp [hno]
      · cases hre : rowEq ko key with
        | false => simp
        | true => have := hasNull_congr (rowEq_iff.mp hre); rw [hn] at this; exact absurd this hno
  · simp only [if_true] at hk ⊢
    rw [hk]
    cases keyOf cfg.keysR o.vals <;> simp [hn]

theorem sidePair_eq (cfg : Cfg) (left : Bool) (row : Row) (x o : Rec) :
    sidePair cfg left row x o =
      if sideMatch cfg left x o && rowEq (sideRow left x.vals o.vals) row then sgn x * sgn o else 0 := by
  cases left
  · simp only [sidePair, pairTerm, sideMatch, sideRow, Bool.false_eq_true, if_false]
    rw [Int.mul_comm]
  · rfl

/-- the pair terms of `x` against the other side are the measure of the other side's tree -/
theorem sidePair_sum {cfg : Cfg} {left : Bool} {x : Rec} {key : Row} {to : Tree} {Po : List Rec}
    (hk : keyOf (if left then cfg.keysL else cfg.keysR) x.vals = some key) (hn : hasNull key = false)
    (ho : Rep cfg (!left) to Po) (row : Row) :
    wsum (sidePair cfg left row x) Po = sgn x * M (gJoin left x.vals row) (subsOf key to) := by
  rw [ho.2 key _ (congr_gJoin left x.vals row), ← wsum_mul_left]
  apply wsum_congr
  intro o _
  rw [sidePair_eq, sideMatch_eq hk hn o]
  unfold repTerm gJoin sideRow
  cases storedKey cfg (!left) o with
  | none => simp
  | some ko =>
    simp only
    by_cases h0 : cmpList ko key = 0
    · by_cases h1 : rowEq (if left = true then x.vals ++ o.vals else o.vals ++ x.vals) row = true
      · simp [h0, h1]
      · simp [h0, h1]
    · simp [h0]

theorem sidePair_sum_null {cfg : Cfg} {left : Bool} {x : Rec} {key : Row}
    (hk : keyOf (if left then cfg.keysL else cfg.keysR) x.vals = some key) (hn : hasNull key = true)
    (Po : List Rec) (row : Row) : wsum (sidePair cfg left row x) Po = 0 := by
  rw [← wsum_zero Po]
  apply wsum_congr
  intro o _
  rw [sidePair_eq, sideMatch_null hk hn o]; simp

/-- the specification of a side-generic join -/
def sideW (W : List Rec → List Rec → Row → Int) (left : Bool) (my other : List Rec) (row : Row) : Int :=
  if left then W my other row else W other my row

theorem sideJoin_append (cfg : Cfg) (left : Bool) (my other : List Rec) (x : Rec) (row : Row) :
    sideW (joinW cfg) left (my ++ [x]) other row = sideW (joinW cfg) left my other row + wsum (sidePair cfg left row x) other := by
  cases left
  · show joinW cfg other (my ++ [x]) row = joinW cfg other my row + wsum (sidePair cfg false row x) other
    rw [joinW_append_right]; rfl
  · show joinW cfg (my ++ [x]) other row = joinW cfg my other row + wsum (sidePair cfg true row x) other
    rw [joinW_append_left]; rfl

theorem net_joinRows' (left : Bool) (x : Rec) (row : Row) (s : Subs) :
    net (joinRows left x s) row = sgn x * M (gJoin left x.vals row) s := net_joinRows left x row s

/-! ### StreamJoin.receiveRecord -/
theorem sjRecv_store {cfg : Cfg} (hc : cfg.nullMatch = false) {left : Bool} {tm to : Tree} {Pm Po : List Rec} {x : Rec}
    {my' : Option Tree} {em : List Rec}
    (hm : Rep cfg left tm Pm) (ho : Rep cfg (!left) to Po)
    (h : sjRecv cfg (some tm) (some to) left x false = some (my', em)) :
    ∃ tm', my' = some tm' ∧ Rep cfg left tm' (Pm ++ [x]) ∧
      ∀ row, net em row = sideW (joinW cfg) left (Pm ++ [x]) Po row - sideW (joinW cfg) left Pm Po row := by
  unfold sjRecv at h
  cases hk : keyOf (if left then cfg.keysL else cfg.keysR) x.vals with
  | none => rw [hk] at h; simp at h
  | some key =>
    rw [hk] at h
    simp only [hc, Bool.not_false, Bool.true_and] at h
    by_cases hn : hasNull key = true
    · rw [if_pos hn] at h
      have h := Option.some.inj h
      have h1 : my' = some tm := (congrArg Prod.fst h).symm
      have h2 : em = [] := (congrArg Prod.snd h).symm
      subst h1 h2
      refine ⟨tm, rfl, rep_skip hm (keyOf_storedKey_null hk hn), fun row => ?_⟩
      rw [sideJoin_append, sidePair_sum_null hk hn]; simp [net]
    · have hn' : hasNull key = false := by cases hh : hasNull key <;> simp_all
      rw [if_neg hn] at h
      simp only [Bool.false_eq_true, if_false] at h
      cases hs : store tm key x with
      | none => rw [hs] at h; simp at h
      | some res =>
        rw [hs] at h
        simp only [Option.map_some] at h
        have h := Option.some.inj h
        have h1 : my' = some res.tree := (congrArg Prod.fst h).symm
        have h2 : em = joinRows left x (subsOf key to) := (congrArg Prod.snd h).symm
        subst h1 h2
        refine ⟨res.tree, rfl, rep_store hm (keyOf_storedKey hk hn') hs, fun row => ?_⟩
        rw [sideJoin_append, sidePair_sum hk hn' ho, net_joinRows']; omega

theorem sjRecv_osr {cfg : Cfg} (hc : cfg.nullMatch = false) {left : Bool} {to : Tree} (Pm : List Rec) {Po : List Rec} {x : Rec}
    {my' : Option Tree} {em : List Rec}
    (ho : Rep cfg (!left) to Po)
    (h : sjRecv cfg none (some to) left x true = some (my', em)) :
    my' = none ∧
      ∀ row, net em row = sideW (joinW cfg) left (Pm ++ [x]) Po row - sideW (joinW cfg) left Pm Po row := by
  unfold sjRecv at h
  cases hk : keyOf (if left then cfg.keysL else cfg.keysR) x.vals with
  | none => rw [hk] at h; simp at h
  | some key =>
    rw [hk] at h
    simp only [hc, Bool.not_false, Bool.true_and] at h
    by_cases hn : hasNull key = true
    · rw [if_pos hn] at h
      have h := Option.some.inj h
      have h1 : my' = none := (congrArg Prod.fst h).symm
      have h2 : em = [] := (congrArg Prod.snd h).symm
      subst h1 h2
      refine ⟨rfl, fun row => ?_⟩
      rw [sideJoin_append, sidePair_sum_null hk hn]; simp [net]
    · have hn' : hasNull key = false := by cases hh : hasNull key <;> simp_all
      rw [if_neg hn] at h
      simp only [if_true] at h
      have h := Option.some.inj h
      have h1 : my' = none := (congrArg Prod.fst h).symm
      have h2 : em = joinRows left x (subsOf key to) := (congrArg Prod.snd h).symm
      subst h1 h2
      refine ⟨rfl, fun row => ?_⟩
      rw [sideJoin_append, sidePair_sum hk hn' ho, net_joinRows']; omega

end Octo.Join
