import Octo.Lemmas.TrigBuffer
/-!
  `SimpleGroupBy` emits the table once: its consolidated output is `tableOf` of the same `aggregates`
  structure the custom-trigger node maintains, hence (C16) the two nodes agree on every valid input.
-/
namespace Octo.Trig
open Octo Octo.TMap

/-- the tree has no two entries of one group and every stored key has the configured length -/
structure AggsWF (nk : Nat) (aggs : List (Key × AggItem)) : Prop where
  nodup : NoDup keyLess aggs
  len : ∀ e ∈ aggs, e.1.length = nk

theorem aggsWF_ite (nk : Nat) (aggs : List (Key × AggItem)) (h : AggsWF nk aggs) (c : Bool) (k0 : Key)
    (item : AggItem) (hk : k0.length = nk) :
    AggsWF nk (if c = true then erase keyLess k0 aggs else insert keyLess k0 item aggs) := by
  cases c
  · simp only [Bool.false_eq_true, if_false]
    refine ⟨nodup_insert _ _ h.nodup, fun e he => ?_⟩
    rcases mem_insert.mp he with h1 | h1
    · rw [h1]; exact hk
    · exact h.len e h1.1
  · simp only [if_true]
    exact ⟨nodup_erase _ h.nodup, fun e he => h.len e (mem_erase.mp he).1⟩

theorem aggsWF_step (C : GBConf) (nk : Nat) (hK : KeyLen C nk) (r : Rec) (aggs : List (Key × AggItem))
    (h : AggsWF nk aggs) : AggsWF nk (updAggs C r aggs) := by
  simp only [updAggs]
  cases hf : find keyLess (C.keyOf r.vals) aggs with
  | none => exact aggsWF_ite nk aggs h _ _ _ (hK r.vals)
  | some k0 => exact aggsWF_ite nk aggs h _ _ _ (h.len k0 (find_some_mem hf).1)

theorem aggsWF_after (C : GBConf) (nk : Nat) (hK : KeyLen C nk) (rs : List Rec) : AggsWF nk (aggsAfter C rs) := by
  have : ∀ (aggs : List (Key × AggItem)), AggsWF nk aggs → AggsWF nk (rs.foldl (fun a r => updAggs C r a) aggs) := by
    induction rs with
    | nil => intro aggs h; exact h
    | cons r rs ih => intro aggs h; exact ih _ (aggsWF_step C nk hK r aggs h)
  exact this [] ⟨List.Pairwise.nil, fun e he => by cases he⟩

/-- summing "is this entry's row the given row" over a duplicate-free tree is a single lookup -/
theorem net_rows_eq_tableOf (C : GBConf) (nk : Nat) (aggs : List (Key × AggItem)) (h : AggsWF nk aggs) (row : Row) :
    net (aggs.map fun e => (⟨e.1 ++ results C.aggs e.2.cells, false, none⟩ : Rec)) row = tableOf C nk aggs row := by
  simp only [tableOf, curRow_eq]
  induction aggs with
  | nil => simp [net, find]
  | cons e es ih =>
    have hn := h.nodup
    simp only [NoDup, List.pairwise_cons] at hn
    have hes : AggsWF nk es := ⟨hn.2, fun x hx => h.len x (by simp [hx])⟩
    have hle := h.len e (by simp)
    simp only [List.map_cons, net, weight_eq, Bool.false_eq_true, if_false, find]
    by_cases hq : eqv keyLess (row.take nk) e.1 = true
    · -- this entry is the row's group; no other entry is
      have hk : keq e.1 (row.take nk) = true := by rw [← eqv_keyLess, eqv_comm]; exact hq
      have hrest : net (es.map fun e => (⟨e.1 ++ results C.aggs e.2.cells, false, none⟩ : Rec)) row = 0 := by
        have : ∀ x ∈ es, rowEq (x.1 ++ results C.aggs x.2.cells) row = false := by
          intro x hx
          cases hr : rowEq (x.1 ++ results C.aggs x.2.cells) row
          · rfl
          · have h1 := keq_take (h.len x (by simp [hx])) hr
            have h2 : eqv keyLess e.1 x.1 = true := by rw [eqv_keyLess]; exact keq_trans hk (keq_symm h1)
            rw [hn.1 x hx] at h2; cases h2
        clear ih hes hn h
        induction es with
        | nil => rfl
        | cons y ys ihy =>
          simp only [List.map_cons, net, weight_eq, this y (by simp), Bool.false_eq_true, if_false]
          rw [ihy (fun x hx => this x (by simp [hx]))]; rfl
      have hcg : rowEq (e.1 ++ results C.aggs e.2.cells) row =
          rowEq (row.take nk ++ results C.aggs e.2.cells) row := by
        rw [rowEq_eq_keq, rowEq_eq_keq]; exact keq_congr_left (keq_append_right _ hk) row
      simp only [hq, if_true, Option.map_some, hrest, hcg]
      omega
    · have hq' : eqv keyLess (row.take nk) e.1 = false := by simpa using hq
      have hthis : rowEq (e.1 ++ results C.aggs e.2.cells) row = false := by
        cases hr : rowEq (e.1 ++ results C.aggs e.2.cells) row
        · rfl
        · have h1 := keq_take hle hr
          rw [eqv_keyLess, keq_comm, h1] at hq'; cases hq'
      simp only [hq', Bool.false_eq_true, if_false, hthis]
      rw [ih hes]; omega

theorem recs_map_wm (ws : List Int) : recs (ws.map Msg.wm) = [] := by
  induction ws with
  | nil => rfl
  | cons w ws ih => simpa [recs] using ih

theorem recs_map_data' {α : Type} (f : α → Rec) (l : List α) : recs (l.map fun e => Msg.data (f e)) = l.map f := by
  induction l with
  | nil => rfl
  | cons x xs ih => simp [recs, ih]

/-- the consolidated output of `SimpleGroupBy` is the table -/
theorem simple_eq_table (C : GBConf) (nk : Nat) (hK : KeyLen C nk) (s : List Msg) (row : Row) :
    net (recs (simpleRun C s)) row = tableOf C nk (aggsAfter C (recs s)) row := by
  simp only [simpleRun, recs_append, recs_map_wm, List.nil_append]
  rw [recs_map_data' (fun e : Key × AggItem => (⟨e.1 ++ results C.aggs e.2.cells, false, none⟩ : Rec))]
  exact net_rows_eq_tableOf C nk _ (aggsWF_after C nk hK _) row

end Octo.Trig
