import Octo.Lemmas.OpsBufferProps
/-!
  Octo.Lemmas.OpsBufferValid — the event-time buffer keeps a changelog valid when the event time is a
  function of the row (`EtByRow`): then all records of one row share a bucket (or all bypass the
  buffer), so the buffer does not reorder them relative to each other.
-/
namespace Octo.Ops
open Octo

/-- the records of the class of `y` -/
def cls (y : Row) (l : List Rec) : List Rec := l.filter fun r => rowEq r.vals y

theorem net_cls (y : Row) (l : List Rec) : net (cls y l) y = net l y := by
  induction l with
  | nil => rfl
  | cons r rs ih =>
    simp only [cls, List.filter_cons] at *
    cases h : rowEq r.vals y
    · simp [net, weight_eq, h, ih]
    · simp [net, weight_eq, h, ih]

theorem cls_append (y : Row) (a b : List Rec) : cls y (a ++ b) = cls y a ++ cls y b := by
  simp [cls, List.filter_append]

/-- a prefix of the output, restricted to a class, is a prefix of the restriction -/
theorem cls_take (y : Row) (l : List Rec) (n : Nat) : ∃ m, cls y (l.take n) = (cls y l).take m := by
  induction l generalizing n with
  | nil => exact ⟨0, by simp [cls]⟩
  | cons r rs ih =>
    cases n with
    | zero => exact ⟨0, by simp [cls]⟩
    | succ n =>
      obtain ⟨m, hm⟩ := ih n
      simp only [List.take_succ_cons, cls, List.filter_cons] at *
      cases h : rowEq r.vals y
      · exact ⟨m, by simpa [h] using hm⟩
      · exact ⟨m + 1, by simp [h, hm]⟩

/-- a prefix of the restriction is the restriction of a prefix -/
theorem take_cls (y : Row) (l : List Rec) (m : Nat) : ∃ n, (cls y l).take m = cls y (l.take n) := by
  induction l generalizing m with
  | nil => exact ⟨0, by simp [cls]⟩
  | cons r rs ih =>
    cases m with
    | zero => exact ⟨0, by simp [cls]⟩
    | succ m =>
      simp only [cls, List.filter_cons]
      cases h : rowEq r.vals y
      · obtain ⟨n, hn⟩ := ih (m + 1)
        exact ⟨n + 1, by simpa [cls, h, List.filter_cons] using hn⟩
      · obtain ⟨n, hn⟩ := ih m
        refine ⟨n + 1, ?_⟩
        simp only [↓reduceIte, List.take_succ_cons, List.filter_cons, h]
        simp only [cls] at hn; rw [hn]

/-- reordering that keeps every class in order keeps validity -/
theorem validLog_of_cls_eq {l l' : List Rec} (hv : ValidLog l) (h : ∀ y, cls y l' = cls y l) : ValidLog l' := by
  intro n y
  obtain ⟨m, hm⟩ := cls_take y l' n
  obtain ⟨n', hn'⟩ := take_cls y l m
  rw [← net_cls, hm, h y, hn', net_cls]
  exact hv n' y

/-! ### the classes through the buffer specification -/
def snds (p : List (Int × Rec)) : List Rec := p.map (·.2)

theorem cls_snds_filter (y : Row) (p : List (Int × Rec)) (Q : Int × Rec → Bool) :
    cls y (snds (p.filter Q)) = snds ((p.filter Q).filter fun q => rowEq q.2.vals y) := by
  simp only [cls, snds, List.filter_map, Function.comp_def]

theorem cls_snds (y : Row) (p : List (Int × Rec)) :
    cls y (snds p) = snds (p.filter fun q => rowEq q.2.vals y) := by
  simp only [cls, snds, List.filter_map, Function.comp_def]

/-- the stable sort does not reorder a class whose records all carry the same event time -/
theorem sortByEt_filter_class (p : List (Int × Rec)) (Q : Int × Rec → Bool) (t : Int)
    (hQ : ∀ q ∈ p, Q q = true → q.1 = t) :
    (sortByEt p).filter Q = p.filter Q := by
  have e1 : (sortByEt p).filter Q = ((sortByEt p).filter fun a => a.1 == t).filter Q := by
    rw [List.filter_filter]
    apply List.filter_congr
    intro q hq
    cases hqq : Q q
    · simp
    · have := hQ q ((mem_sortByEt p q).mp hq) hqq
      simp [this]
  have e2 : p.filter Q = (p.filter fun a => a.1 == t).filter Q := by
    rw [List.filter_filter]
    apply List.filter_congr
    intro q hq
    cases hqq : Q q
    · simp
    · have := hQ q hq hqq
      simp [this]
  rw [e1, e2, sortByEt_stable]

theorem filter_inrange (p : List (Int × Rec)) (hp : ∀ q ∈ p, q.1 ≤ maxWm) :
    (sortByEt p).filter (fun q => decide (q.1 ≤ maxWm)) = sortByEt p := by
  apply List.filter_eq_self.mpr
  intro q hq
  have := hp q ((mem_sortByEt p q).mp hq)
  simpa using this

theorem filter_class_nil (p : List (Int × Rec)) (y : Row) (h : ∀ q ∈ p, rowEq q.2.vals y = false) :
    p.filter (fun q => rowEq q.2.vals y) = [] := by
  apply List.filter_eq_nil_iff.mpr
  intro q hq
  simp [h q hq]

theorem cls_bufSpec (y : Row) (ms : List Msg) : ∀ (p : List (Int × Rec)) (e : Option Int),
    (∀ q ∈ p, q.2.et = some q.1 ∧ q.1 ≤ maxWm) → InRange ms →
    (∀ r ∈ snds p ++ recs ms, rowEq r.vals y = true → r.et = e) →
    cls y (recs (bufSpec p ms)) = cls y (snds p) ++ cls y (recs ms) := by
  induction ms with
  | nil =>
    intro p e hp _ hcl
    have h1 : recs (bufSpec p []) = snds (sortByEt p) := by
      simp only [bufSpec, recs_dataOf, filter_inrange p (fun q hq => (hp q hq).2), snds]
    rw [h1]
    simp only [recs, cls_append]
    rw [show cls y ([] : List Rec) = [] from rfl, List.append_nil, cls_snds, cls_snds]
    cases e with
    | none =>
      -- no pending record belongs to the class
      have hnone : ∀ q ∈ p, (rowEq q.2.vals y) = false := by
        intro q hq
        cases hqy : rowEq q.2.vals y
        · rfl
        · have := hcl q.2 (by simp [snds]; exact Or.inl ⟨q.1, hq⟩) hqy
          rw [(hp q hq).1] at this; cases this
      rw [filter_class_nil _ y (fun q hq => hnone q ((mem_sortByEt p q).mp hq)), filter_class_nil _ y hnone]
    | some t =>
      rw [sortByEt_filter_class p _ t]
      intro q hq hqy
      have := hcl q.2 (by simp [snds]; exact Or.inl ⟨q.1, hq⟩) hqy
      rw [(hp q hq).1] at this
      exact Option.some.inj this
  | cons m ms ih =>
    intro p e hp hr hcl
    cases m with
    | data r =>
      have hr' : InRange ms := fun q hq => hr q (by simp [recs, hq])
      have hcl' : ∀ q ∈ snds p ++ recs ms, rowEq q.vals y = true → q.et = e := by
        intro q hq
        apply hcl q
        rcases List.mem_append.mp hq with h | h
        · exact List.mem_append.mpr (Or.inl h)
        · exact List.mem_append.mpr (Or.inr (by simp [recs, h]))
      cases het : r.et with
      | none =>
        simp only [bufSpec, het, recs]
        rw [show (r :: recs (bufSpec p ms)) = [r] ++ recs (bufSpec p ms) from rfl, cls_append, ih p e hp hr' hcl',
          show (r :: recs ms) = [r] ++ recs ms from rfl, cls_append]
        cases hry : rowEq r.vals y
        · simp [cls, hry]
        · -- the class bypasses the buffer: nothing of it is pending
          have he : e = none := by
            have := hcl r (by simp [recs]) hry; rw [het] at this; exact this.symm
          have hnone : cls y (snds p) = [] := by
            rw [cls_snds, filter_class_nil _ y]
            · rfl
            · intro q hq
              cases hqy : rowEq q.2.vals y
              · rfl
              · have := hcl q.2 (by simp [snds]; exact Or.inl ⟨q.1, hq⟩) hqy
                rw [(hp q hq).1, he] at this; cases this
          rw [hnone]; simp
      | some t =>
        simp only [bufSpec, het, recs]
        have := ih (p ++ [(t, r)]) e
          (by
            intro q hq
            rcases List.mem_append.mp hq with h | h
            · exact hp q h
            · simp only [List.mem_singleton] at h; subst h
              exact ⟨het, hr r (by simp [recs]) t het⟩)
          hr'
          (by
            intro q hq
            apply hcl q
            simp only [snds, List.map_append, List.map_cons, List.map_nil, List.append_assoc, List.cons_append,
              List.nil_append, recs] at hq ⊢
            exact hq)
        rw [this]
        simp only [snds, List.map_append, List.map_cons, List.map_nil, cls_append, List.append_assoc]
        congr 1
        rw [show (r :: recs ms) = [r] ++ recs ms from rfl, cls_append]
    | wm w =>
      have hr' : InRange ms := fun q hq => hr q (by simpa [recs] using hq)
      simp only [bufSpec, recs_append, recs_dataOf, recs, List.append_nil, cls_append]
      have hp' : ∀ q ∈ p.filter (fun q => !decide (q.1 ≤ w)), q.2.et = some q.1 ∧ q.1 ≤ maxWm :=
        fun q hq => hp q (List.mem_filter.mp hq).1
      rw [ih (p.filter fun q => !decide (q.1 ≤ w)) e hp' hr' (by
        intro q hq
        apply hcl q
        rcases List.mem_append.mp hq with h | h
        · simp only [snds, List.mem_map, List.mem_filter] at h
          obtain ⟨a, ⟨ha, _⟩, rfl⟩ := h
          exact List.mem_append.mpr (Or.inl (by simp [snds]; exact ⟨a.1, ha⟩))
        · exact List.mem_append.mpr (Or.inr (by simpa [recs] using h)))]
      rw [← List.append_assoc]
      congr 1
      -- released part ++ kept part = everything, class-wise
      show cls y (snds ((sortByEt p).filter fun q => decide (q.1 ≤ w))) ++ cls y (snds (p.filter fun q => !decide (q.1 ≤ w)))
        = cls y (snds p)
      rw [cls_snds_filter, cls_snds_filter, cls_snds]
      cases e with
      | none =>
        have hnone : ∀ q ∈ p, (rowEq q.2.vals y) = false := by
          intro q hq
          cases hqy : rowEq q.2.vals y
          · rfl
          · have := hcl q.2 (by simp [snds]; exact Or.inl ⟨q.1, hq⟩) hqy
            rw [(hp q hq).1] at this; cases this
        rw [filter_class_nil _ y (fun q hq => hnone q ((mem_sortByEt p q).mp (List.mem_filter.mp hq).1)),
          filter_class_nil _ y (fun q hq => hnone q (List.mem_filter.mp hq).1), filter_class_nil _ y hnone]
        rfl
      | some t =>
        have hkey : ∀ q ∈ p, rowEq q.2.vals y = true → q.1 = t := by
          intro q hq hqy
          have := hcl q.2 (by simp [snds]; exact Or.inl ⟨q.1, hq⟩) hqy
          rw [(hp q hq).1] at this
          exact Option.some.inj this
        rw [List.filter_filter, List.filter_filter]
        by_cases htw : t ≤ w
        · -- the whole class is released now
          have e1 : (sortByEt p).filter (fun a => (rowEq a.2.vals y) && decide (a.1 ≤ w)) =
              (sortByEt p).filter (fun a => rowEq a.2.vals y) := by
            apply List.filter_congr
            intro q hq
            cases hqy : rowEq q.2.vals y
            · simp
            · have := hkey q ((mem_sortByEt p q).mp hq) hqy
              simp [this, htw]
          have e2 : p.filter (fun a => (rowEq a.2.vals y) && !decide (a.1 ≤ w)) = [] := by
            apply List.filter_eq_nil_iff.mpr
            intro q hq
            cases hqy : rowEq q.2.vals y
            · simp
            · have := hkey q hq hqy
              simp [this, htw]
          rw [e1, e2, sortByEt_filter_class p _ t hkey]; simp [snds]
        · have e1 : (sortByEt p).filter (fun a => (rowEq a.2.vals y) && decide (a.1 ≤ w)) = [] := by
            apply List.filter_eq_nil_iff.mpr
            intro q hq
            cases hqy : rowEq q.2.vals y
            · simp
            · have := hkey q ((mem_sortByEt p q).mp hq) hqy
              simp [this, htw]
          have e2 : p.filter (fun a => (rowEq a.2.vals y) && !decide (a.1 ≤ w)) =
              p.filter (fun a => rowEq a.2.vals y) := by
            apply List.filter_congr
            intro q hq
            cases hqy : rowEq q.2.vals y
            · simp
            · have := hkey q hq hqy
              simp [this, htw]
          rw [e1, e2]; simp [snds]

/-- event time is a function of the row -/
def EtByRow (log : List Rec) : Prop := ∀ a ∈ log, ∀ b ∈ log, rowEq a.vals b.vals = true → a.et = b.et

end Octo.Ops
