import Octo.Model.Plan
/-!
  Lemmas about expression evaluation in `Octo.Plan`: an expression only sees the variables it uses
  (`eval_congr`), conjunction splitting (`SplitByAnd`) preserves "is TRUE", hereditary safety (`HSafe`).
-/
namespace Octo.Plan
open Octo

/-! ### lookups -/

theorem lookupRow_append (x : String) (a b : Row) :
    lookupRow x (a ++ b) = match lookupRow x a with | some v => some v | none => lookupRow x b := by
  induction a with
  | nil => simp [lookupRow]
  | cons p a ih =>
    obtain ⟨k, v⟩ := p
    by_cases h : (k == x) = true
    · simp [lookupRow, h]
    · simp [lookupRow, h, ih]

theorem lookupRow_none_of_not_mem {x : String} {a : Row} (h : x ∉ Row.names a) : lookupRow x a = none := by
  induction a with
  | nil => simp [lookupRow]
  | cons p a ih =>
    obtain ⟨k, v⟩ := p
    simp only [Row.names, List.map_cons, List.mem_cons, not_or] at h
    have hk : (k == x) = false := by
      simp only [beq_eq_false_iff_ne, ne_eq]
      exact fun e => h.1 e.symm
    simp only [lookupRow, hk]
    exact ih h.2

theorem lookupRow_isSome_of_mem {x : String} {a : Row} (h : x ∈ Row.names a) : (lookupRow x a).isSome = true := by
  induction a with
  | nil => simp [Row.names] at h
  | cons p a ih =>
    obtain ⟨k, v⟩ := p
    by_cases hk : (k == x) = true
    · simp [lookupRow, hk]
    · simp only [Row.names, List.map_cons, List.mem_cons] at h
      have : x ∈ Row.names a := by
        rcases h with h | h
        · exact absurd (by simp [h]) hk
        · exact h
      simp only [lookupRow, hk]
      exact ih this

theorem lookupRow_mem_of_isSome {x : String} {a : Row} (h : (lookupRow x a).isSome = true) : x ∈ Row.names a := by
  by_cases hm : x ∈ Row.names a
  · exact hm
  · rw [lookupRow_none_of_not_mem hm] at h; simp at h

/-! ### an expression sees only the variables it uses -/

mutual
theorem eval_congr (c1 c2 : Ctx) : ∀ e : PExpr,
    (∀ x ∈ varsUsed e, lookupVar x c1 = lookupVar x c2) → eval c1 e = eval c2 e
  | .var x _, h => by simp only [eval]; exact h x (by simp [varsUsed])
  | .const _, _ => by simp [eval]
  | .nary k args, h => by
    simp only [eval]
    rw [evalL_congr c1 c2 args (by simpa [varsUsed] using h)]
  | .unary k e, h => by
    simp only [eval]
    rw [eval_congr c1 c2 e (by simpa [varsUsed] using h)]
theorem evalL_congr (c1 c2 : Ctx) : ∀ es : List PExpr,
    (∀ x ∈ varsUsedL es, lookupVar x c1 = lookupVar x c2) → evalL c1 es = evalL c2 es
  | [], _ => by simp [evalL]
  | e :: es, h => by
    simp only [evalL]
    rw [eval_congr c1 c2 e (fun x hx => h x (by simp [varsUsedL, hx])),
        evalL_congr c1 c2 es (fun x hx => h x (by simp [varsUsedL, hx]))]
end

theorem mem_varsUsedL {x : String} : ∀ {es : List PExpr}, x ∈ varsUsedL es ↔ ∃ e ∈ es, x ∈ varsUsed e
  | [] => by simp [varsUsedL]
  | e :: es => by
    simp only [varsUsedL, List.mem_append, List.mem_cons, exists_eq_or_imp, mem_varsUsedL (es := es)]

/-- the current record is `l ++ r` and the expression uses no field of `r`: it could as well be `l` -/
theorem eval_append_left (l r : Row) (ctx : Ctx) (e : PExpr) (h : ∀ x ∈ varsUsed e, x ∉ Row.names r) :
    eval ((l ++ r) :: ctx) e = eval (l :: ctx) e := by
  apply eval_congr
  intro x hx
  simp only [lookupVar, lookupRow_append, lookupRow_none_of_not_mem (h x hx)]
  cases lookupRow x l <;> rfl

/-- the current record is `l ++ r` and the expression uses no field of `l`: it could as well be `r` -/
theorem eval_append_right (l r : Row) (ctx : Ctx) (e : PExpr) (h : ∀ x ∈ varsUsed e, x ∉ Row.names l) :
    eval ((l ++ r) :: ctx) e = eval (r :: ctx) e := by
  apply eval_congr
  intro x hx
  simp only [lookupVar, lookupRow_append, lookupRow_none_of_not_mem (h x hx)]

theorem evalL_append (ctx : Ctx) : ∀ a b : List PExpr, evalL ctx (a ++ b) = evalL ctx a ++ evalL ctx b
  | [], b => by simp [evalL]
  | e :: a, b => by simp [evalL, evalL_append ctx a b]

theorem evalArgs_append_left (l r : Row) (ctx : Ctx) (es : List PExpr) (h : ∀ x ∈ varsUsedL es, x ∉ Row.names r) :
    evalArgs ((l ++ r) :: ctx) es = evalArgs (l :: ctx) es := by
  unfold evalArgs
  congr 1
  apply evalL_congr
  intro x hx
  simp only [lookupVar, lookupRow_append, lookupRow_none_of_not_mem (h x hx)]
  cases lookupRow x l <;> rfl

/-! ### `UsesVariablesFromSchema` -/

theorem nameMatchesField_self (x : String) : nameMatchesField x x = true := by
  simp [nameMatchesField]

theorem not_mem_of_not_uses {fields vars : List String} (h : usesVariablesFromSchema fields vars = false) :
    ∀ x ∈ vars, x ∉ fields := by
  intro x hx hf
  have : usesVariablesFromSchema fields vars = true := by
    simp only [usesVariablesFromSchema, List.any_eq_true]
    exact ⟨x, hx, x, hf, nameMatchesField_self x⟩
  rw [h] at this
  cases this

/-! ### "is the Boolean TRUE" and conjunctions -/

def isTrueV : Option Value → Bool
  | some (.bool true) => true
  | _ => false

theorem andLoop_true (ns : Bool) : ∀ rs : List (Option Value),
    isTrueV (andLoop ns rs) = (!ns && rs.all isTrueV)
  | [] => by cases ns <;> simp [andLoop, isTrueV]
  | none :: rs => by simp [andLoop, isTrueV]
  | some v :: rs => by
    cases v with
    | null =>
      have h : andLoop ns (some Value.null :: rs) = andLoop true rs := by simp [andLoop]
      rw [h, andLoop_true true rs]
      simp [isTrueV]
    | bool b =>
      cases b
      · simp [andLoop, isTrueV]
      · have h : andLoop ns (some (Value.bool true) :: rs) = andLoop ns rs := by simp [andLoop]
        rw [h, andLoop_true ns rs]
        simp [isTrueV]
    | _ => simp [andLoop, isTrueV]

theorem isTrue_and (ctx : Ctx) (args : List PExpr) :
    isTrueV (eval ctx (.nary .and args)) = (evalL ctx args).all isTrueV := by
  simp [eval, combineN, andLoop_true]

mutual
theorem isTrue_split (ctx : Ctx) : ∀ e : PExpr,
    isTrueV (eval ctx e) = (evalL ctx (splitByAnd e)).all isTrueV
  | .nary .and args => by
    rw [isTrue_and, splitByAnd, isTrue_splitL ctx args]
  | .nary (.call _) _ => by simp [splitByAnd, evalL]
  | .nary .or _ => by simp [splitByAnd, evalL]
  | .nary .coalesce _ => by simp [splitByAnd, evalL]
  | .nary .tuple _ => by simp [splitByAnd, evalL]
  | .var _ _ => by simp [splitByAnd, evalL]
  | .const _ => by simp [splitByAnd, evalL]
  | .unary _ _ => by simp [splitByAnd, evalL]
theorem isTrue_splitL (ctx : Ctx) : ∀ es : List PExpr,
    (evalL ctx es).all isTrueV = (evalL ctx (splitByAndL es)).all isTrueV
  | [] => by simp [splitByAndL, evalL]
  | e :: es => by
    simp only [splitByAndL, evalL, evalL_append, List.all_cons, List.all_append]
    rw [isTrue_split ctx e, isTrue_splitL ctx es]
end

theorem all_evalL (ctx : Ctx) (f : Option Value → Bool) : ∀ es : List PExpr,
    (evalL ctx es).all f = es.all fun e => f (eval ctx e)
  | [] => by simp [evalL]
  | e :: es => by simp [evalL, all_evalL ctx f es]

/-- a predicate is TRUE iff every one of its conjuncts is -/
theorem isTrue_iff_split (ctx : Ctx) (e : PExpr) :
    isTrueV (eval ctx e) = (splitByAnd e).all fun c => isTrueV (eval ctx c) := by
  rw [isTrue_split, all_evalL]

theorem isTrue_and_list (ctx : Ctx) (cs : List PExpr) :
    isTrueV (eval ctx (.nary .and cs)) = cs.all fun c => isTrueV (eval ctx c) := by
  rw [isTrue_and, all_evalL]

/-! ### the variables of the conjuncts are variables of the predicate -/

mutual
theorem vars_split : ∀ (e : PExpr) (x : String), x ∈ varsUsedL (splitByAnd e) → x ∈ varsUsed e
  | .nary .and args, x, h => by
    simp only [splitByAnd] at h
    simpa [varsUsed] using vars_splitL args x h
  | .nary (.call _) _, x, h => by simpa [splitByAnd, varsUsedL] using h
  | .nary .or _, x, h => by simpa [splitByAnd, varsUsedL] using h
  | .nary .coalesce _, x, h => by simpa [splitByAnd, varsUsedL] using h
  | .nary .tuple _, x, h => by simpa [splitByAnd, varsUsedL] using h
  | .var _ _, x, h => by simpa [splitByAnd, varsUsedL] using h
  | .const _, x, h => by simpa [splitByAnd, varsUsedL] using h
  | .unary _ _, x, h => by simpa [splitByAnd, varsUsedL] using h
theorem vars_splitL : ∀ (es : List PExpr) (x : String), x ∈ varsUsedL (splitByAndL es) → x ∈ varsUsedL es
  | [], x, h => by simpa [splitByAndL] using h
  | e :: es, x, h => by
    simp only [splitByAndL] at h
    rw [mem_varsUsedL] at h
    obtain ⟨c, hc, hx⟩ := h
    simp only [varsUsedL, List.mem_append]
    rcases List.mem_append.mp hc with hc | hc
    · exact Or.inl (vars_split e x (mem_varsUsedL.mpr ⟨c, hc, hx⟩))
    · exact Or.inr (vars_splitL es x (mem_varsUsedL.mpr ⟨c, hc, hx⟩))
end

theorem vars_of_conjunct {e c : PExpr} (hc : c ∈ splitByAnd e) {x : String} (hx : x ∈ varsUsed c) : x ∈ varsUsed e :=
  vars_split e x (mem_varsUsedL.mpr ⟨c, hc, hx⟩)

/-! ### safety: an expression whose variables are bound evaluates -/

/-- every name of `scope` resolves in the record chain -/
def Binds (scope : List String) (cx : Ctx) : Prop := ∀ x ∈ scope, (lookupVar x cx).isSome = true

/-- no runtime error: whenever its variables are bound, the expression has a value -/
def SafeE (e : PExpr) : Prop :=
  ∀ cx : Ctx, (∀ x ∈ varsUsed e, (lookupVar x cx).isSome = true) → (eval cx e).isSome = true

/-- `=` has the two arguments its descriptor declares (the join-key rule reads `Arguments[0]` and `Arguments[1]`) -/
def ArityOK : NK → List PExpr → Prop
  | .call fn, args => fn = "=" → args.length = 2
  | _, _ => True

mutual
/-- hereditarily safe: the expression and all its subexpressions cannot fail (and are well-formed calls) -/
def HSafe : PExpr → Prop
  | .var _ _ => True
  | .const _ => True
  | .nary k args => SafeE (.nary k args) ∧ ArityOK k args ∧ HSafeL args
  | .unary k e => SafeE (.unary k e) ∧ HSafe e
def HSafeL : List PExpr → Prop
  | [] => True
  | e :: es => HSafe e ∧ HSafeL es
end

theorem hsafeL_iff : ∀ {es : List PExpr}, HSafeL es ↔ ∀ e ∈ es, HSafe e
  | [] => by simp [HSafeL]
  | e :: es => by simp [HSafeL, hsafeL_iff (es := es)]

theorem HSafe.safe : ∀ {e : PExpr}, HSafe e → SafeE e
  | .var x _, _ => by
    intro cx h
    simp only [eval]
    exact h x (by simp [varsUsed])
  | .const _, _ => by intro cx _; simp [eval]
  | .nary _ _, h => h.1
  | .unary _ _, h => h.1

theorem andLoop_isSome (ns : Bool) : ∀ rs : List (Option Value), (∀ r ∈ rs, r.isSome = true) → (andLoop ns rs).isSome = true
  | [], _ => by simp [andLoop]
  | none :: _, h => by simpa using h none (by simp)
  | some v :: rs, h => by
    have ih := fun ns => andLoop_isSome ns rs (fun r hr => h r (by simp [hr]))
    cases v with
    | null => simpa [andLoop] using ih true
    | bool b =>
      cases b
      · simp [andLoop]
      · simpa [andLoop] using ih ns
    | _ => simp [andLoop]

theorem mem_evalL {ctx : Ctx} {r : Option Value} : ∀ {es : List PExpr}, r ∈ evalL ctx es → ∃ e ∈ es, r = eval ctx e
  | [], h => by simp [evalL] at h
  | e :: es, h => by
    simp only [evalL, List.mem_cons] at h
    rcases h with h | h
    · exact ⟨e, by simp, h⟩
    · obtain ⟨e', he', hr⟩ := mem_evalL h
      exact ⟨e', by simp [he'], hr⟩

/-- a conjunction of safe expressions is safe -/
theorem hsafe_and {cs : List PExpr} (h : HSafeL cs) : HSafe (.nary .and cs) := by
  refine ⟨?_, trivial, h⟩
  intro cx hb
  simp only [eval, combineN]
  apply andLoop_isSome
  intro r hr
  obtain ⟨e, he, rfl⟩ := mem_evalL hr
  exact (hsafeL_iff.mp h e he).safe cx (fun x hx => hb x (by
    simp only [varsUsed]
    exact mem_varsUsedL.mpr ⟨e, he, hx⟩))

mutual
theorem hsafe_split : ∀ {e : PExpr}, HSafe e → HSafeL (splitByAnd e)
  | .nary .and args, h => by
    simp only [splitByAnd]
    exact hsafe_splitL h.2.2
  | .nary (.call _) _, h => by simpa [splitByAnd, HSafeL] using h
  | .nary .or _, h => by simpa [splitByAnd, HSafeL] using h
  | .nary .coalesce _, h => by simpa [splitByAnd, HSafeL] using h
  | .nary .tuple _, h => by simpa [splitByAnd, HSafeL] using h
  | .var _ _, _ => by simp [splitByAnd, HSafeL, HSafe]
  | .const _, _ => by simp [splitByAnd, HSafeL, HSafe]
  | .unary _ _, h => by simpa [splitByAnd, HSafeL] using h
theorem hsafe_splitL : ∀ {es : List PExpr}, HSafeL es → HSafeL (splitByAndL es)
  | [], _ => by simp [splitByAndL, HSafeL]
  | e :: es, h => by
    simp only [splitByAndL]
    rw [hsafeL_iff]
    intro c hc
    rcases List.mem_append.mp hc with hc | hc
    · exact hsafeL_iff.mp (hsafe_split h.1) c hc
    · exact hsafeL_iff.mp (hsafe_splitL h.2) c hc
end

/-- a safe expression whose variables are all in a bound scope has a value -/
theorem eval_isSome {scope : List String} {cx : Ctx} {e : PExpr}
    (hs : HSafe e) (hsc : ∀ x ∈ varsUsed e, x ∈ scope) (hb : Binds scope cx) : (eval cx e).isSome = true :=
  hs.safe cx (fun x hx => hb x (hsc x hx))

theorem binds_cons {fs outer : List String} {r : Row} {ctx : Ctx} (hn : Row.names r = fs) (hc : Binds outer ctx) :
    Binds (fs ++ outer) (r :: ctx) := by
  intro x hx
  simp only [lookupVar]
  rcases List.mem_append.mp hx with hx | hx
  · have := lookupRow_isSome_of_mem (x := x) (a := r) (by rw [hn]; exact hx)
    cases h : lookupRow x r with
    | none => rw [h] at this; cases this
    | some v => rfl
  · cases h : lookupRow x r with
    | none => exact hc x hx
    | some v => rfl

end Octo.Plan
