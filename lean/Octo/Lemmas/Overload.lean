import Octo.Model.Overload
/-!
  Octo.Lemmas.Overload — the repaired overload resolution wraps every argument in at most one `TypeAssertion`.
-/
namespace Octo.Ovl
open Octo

theorem exactPass_asserts (ds : List (Descr × Nat)) (argTys : List Ty) :
    ∀ (acc : Option Resolved), (∀ r, acc = some r → ∀ a, a ∈ r.asserts → a = []) →
    ∀ r, ds.foldl (fun (acc : Option Resolved) (di : Descr × Nat) =>
      let d := di.1
      let ats := viewArgs d argTys
      match d.typeFn with
      | some f =>
        match applyTypeFn f ats with
        | some o => some { idx := di.2, descr := d, out := o, asserts := argTys.map fun _ => [] }
        | none => acc
      | none =>
        if ats.length != d.args.length then acc
        else if (ats.zip d.args).all (fun p => tyIs p.1 p.2 == .is) then
          some { idx := di.2, descr := d, out := d.out, asserts := argTys.map fun _ => [] }
        else acc) acc = some r → ∀ a, a ∈ r.asserts → a = [] := by
  induction ds with
  | nil => intro acc hacc r hr; exact hacc r hr
  | cons di rest ih =>
    intro acc hacc r hr
    rw [List.foldl_cons] at hr
    refine ih _ ?_ r hr
    intro r' hr' a ha
    have hnew : ∀ (i : Nat) (d : Descr) (o : Ty), ∀ a, a ∈ ({ idx := i, descr := d, out := o, asserts := argTys.map fun _ => [] } : Resolved).asserts → a = [] := by
      intro i d o a ha
      simp only [List.mem_map] at ha
      obtain ⟨_, _, h⟩ := ha
      exact h.symm
    simp only [] at hr'
    split at hr'
    · split at hr'
      · injection hr' with hr'; subst hr'; exact hnew _ _ _ a ha
      · exact hacc r' hr' a ha
    · split at hr'
      · exact hacc r' hr' a ha
      · split at hr'
        · injection hr' with hr'; subst hr'; exact hnew _ _ _ a ha
        · exact hacc r' hr' a ha

theorem maybePass_asserts (ds : List (Descr × Nat)) (argTys : List Ty) (r : Resolved)
    (h : maybePass ds argTys = some r) : ∀ a, a ∈ r.asserts → a.length ≤ 1 := by
  induction ds with
  | nil => simp [maybePass] at h
  | cons di rest ih =>
    obtain ⟨d, i⟩ := di
    unfold maybePass at h
    split at h
    · injection h with h; subst h
      intro a ha
      simp only [List.mem_map] at ha
      obtain ⟨t, _, ht⟩ := ha
      subst ht
      cases t <;> simp
    · exact ih h

/-- **after the repair every argument is wrapped in at most one run-time type assertion** -/
theorem resolve_asserts_le_one (name : String) (argTys : List Ty) (r : Resolved)
    (h : resolve name argTys = some r) : ∀ a, a ∈ r.asserts → a.length ≤ 1 := by
  unfold resolve at h
  split at h
  · rename_i r' he
    injection h with h; subst h
    intro a ha
    unfold exactPass at he
    have := exactPass_asserts _ argTys none (by intro r h; cases h) r' he a ha
    simp [this]
  · exact maybePass_asserts _ argTys r h

end Octo.Ovl
