import Octo.Lemmas.AggTree
/-!
  `distinct.go`: the hashmap value → count in front of a wrapped aggregate. The wrapped aggregate is
  fed a *valid* history whose net multiset is the support of the outer one; hence any aggregate that
  is correct (`AggProof`) stays correct behind the wrapper, for the support.
-/
namespace Octo.Agg
open Octo

def NoDupKeys (m : CList) : Prop := m.Pairwise (fun a b => cmp a.1 b.1 ≠ 0)

theorem hget_cons (v k : Value) (c : Int) (rest : CList) :
    hget v ((k, c) :: rest) = if cmp v k = 0 then some c else hget v rest := by
  simp [hget]

theorem hset_cons (v k : Value) (n c : Int) (rest : CList) :
    hset v n ((k, c) :: rest) = if cmp v k = 0 then (k, n) :: rest else (k, c) :: hset v n rest := by
  simp [hset]

theorem hdel_cons (v k : Value) (c : Int) (rest : CList) :
    hdel v ((k, c) :: rest) = if cmp v k = 0 then rest else (k, c) :: hdel v rest := by
  simp [hdel]

theorem hget_hset (v : Value) (n : Int) : ∀ (m : CList) (w : Value),
    hget w (hset v n m) = if cmp v w = 0 then some n else hget w m
  | [], w => by
    have := casym v w
    simp only [hset, hget_cons, hget]
    by_cases h : cmp v w = 0
    · have : cmp w v = 0 := by omega
      simp [h, this]
    · have : cmp w v ≠ 0 := by omega
      simp [h, this]
  | (k, c) :: rest, w => by
    rw [hset_cons]
    by_cases hvk : cmp v k = 0
    · simp only [hvk, if_true, hget_cons]
      have : cmp w k = cmp w v := ccongr_right (csymm hvk) w
      have := casym v w
      by_cases hw : cmp v w = 0
      · have : cmp w k = 0 := by omega
        simp [hw, this]
      · have : cmp w k ≠ 0 := by omega
        simp [hw, this]
    · simp only [hvk, if_false, hget_cons, hget_hset v n rest w]
      by_cases hwk : cmp w k = 0
      · have : cmp v w ≠ 0 := by
          intro h0; exact hvk (ceq_trans h0 hwk)
        simp [hwk, this]
      · simp [hwk]

theorem hdel_hset (v : Value) (n : Int) : ∀ (m : CList), hdel v (hset v n m) = hdel v m
  | [] => by simp [hset, hdel, crefl]
  | (k, c) :: rest => by
    rw [hset_cons]
    by_cases hvk : cmp v k = 0
    · simp [hvk, hdel_cons]
    · simp [hvk, hdel_cons, hdel_hset v n rest]

theorem hdel_sublist (v : Value) : ∀ (m : CList), (hdel v m).Sublist m
  | [] => by simp [hdel]
  | (k, c) :: rest => by
    rw [hdel_cons]
    split
    · exact List.sublist_cons_self _ _
    · exact (hdel_sublist v rest).cons_cons _

theorem noDup_cons {k : Value} {c : Int} {rest : CList} :
    NoDupKeys ((k, c) :: rest) ↔ (∀ e ∈ rest, cmp k e.1 ≠ 0) ∧ NoDupKeys rest := by
  simp [NoDupKeys, List.pairwise_cons]

theorem hget_none_of_noKey {m : CList} {w : Value} (h : ∀ e ∈ m, cmp w e.1 ≠ 0) : hget w m = none := by
  induction m with
  | nil => rfl
  | cons e r ih =>
    obtain ⟨k, c⟩ := e
    have := h (k, c) List.mem_cons_self
    simp only [hget_cons, this, if_false]
    exact ih (fun e he => h e (List.mem_cons_of_mem _ he))

theorem hget_hdel (v : Value) : ∀ (m : CList), NoDupKeys m → ∀ w,
    hget w (hdel v m) = if cmp v w = 0 then none else hget w m
  | [], _, w => by simp [hdel, hget]
  | (k, c) :: rest, hn, w => by
    obtain ⟨h1, h2⟩ := noDup_cons.mp hn
    rw [hdel_cons]
    by_cases hvk : cmp v k = 0
    · simp only [hvk, if_true, hget_cons]
      have e1 : cmp w k = cmp w v := ccongr_right (csymm hvk) w
      have := casym v w
      by_cases hw : cmp v w = 0
      · simp only [hw, if_true]
        apply hget_none_of_noKey
        intro e he
        have hk : cmp w k = 0 := by omega
        have := ccongr_left hk e.1   -- cmp w e.1 = cmp k e.1
        have := h1 e he
        omega
      · have : cmp w k ≠ 0 := by omega
        simp [hw, this]
    · simp only [hvk, if_false, hget_cons, hget_hdel v rest h2 w]
      by_cases hwk : cmp w k = 0
      · have : cmp v w ≠ 0 := by
          intro h0; exact hvk (ceq_trans h0 hwk)
        simp [hwk, this]
      · simp [hwk]

theorem key_mem_hset (v : Value) (n : Int) : ∀ (m : CList) (e : Value × Int), e ∈ hset v n m →
    (e.1 = v ∨ ∃ e' ∈ m, e'.1 = e.1) ∧ (e.2 = n ∨ e ∈ m)
  | [], e, h => by simp [hset] at h; subst h; simp
  | (k, c) :: rest, e, h => by
    rw [hset_cons] at h
    split at h
    · rcases List.mem_cons.mp h with rfl | h'
      · exact ⟨Or.inr ⟨(k, c), List.mem_cons_self, rfl⟩, Or.inl rfl⟩
      · exact ⟨Or.inr ⟨e, List.mem_cons_of_mem _ h', rfl⟩, Or.inr (List.mem_cons_of_mem _ h')⟩
    · rcases List.mem_cons.mp h with rfl | h'
      · exact ⟨Or.inr ⟨(k, c), List.mem_cons_self, rfl⟩, Or.inr List.mem_cons_self⟩
      · obtain ⟨a, b⟩ := key_mem_hset v n rest e h'
        refine ⟨?_, ?_⟩
        · rcases a with a | ⟨e', a1, a2⟩
          · exact Or.inl a
          · exact Or.inr ⟨e', List.mem_cons_of_mem _ a1, a2⟩
        · rcases b with b | b
          · exact Or.inl b
          · exact Or.inr (List.mem_cons_of_mem _ b)

theorem noDup_hset (v : Value) (n : Int) : ∀ (m : CList), NoDupKeys m → NoDupKeys (hset v n m)
  | [], _ => by simp [hset, NoDupKeys]
  | (k, c) :: rest, hn => by
    obtain ⟨h1, h2⟩ := noDup_cons.mp hn
    rw [hset_cons]
    split
    · exact noDup_cons.mpr ⟨h1, h2⟩
    · rename_i hvk
      refine noDup_cons.mpr ⟨fun e he => ?_, noDup_hset v n rest h2⟩
      rcases (key_mem_hset v n rest e he).1 with h | ⟨e', he', h⟩
      · rw [h]; have := casym v k; omega
      · rw [← h]; exact h1 e' he'

/-- the hashmap represents the multiset `L` -/
def HInv (m : CList) (L : List Value) : Prop :=
  NoDupKeys m ∧ (∀ e ∈ m, 0 < e.2) ∧ ∀ v, hcount m v = cnt L v

theorem hinv_empty {m : CList} {L : List Value} (h : HInv m L) : m.isEmpty = L.isEmpty := by
  obtain ⟨_, hp, hl⟩ := h
  cases m with
  | nil =>
    have : L = [] := eq_nil_of_cnt_zero (fun v => by rw [← hl v]; rfl)
    subst this; rfl
  | cons e r =>
    obtain ⟨k, c⟩ := e
    have hc : 0 < c := hp (k, c) List.mem_cons_self
    have : 0 < cnt L k := by rw [← hl k]; simp [hcount, hget_cons, crefl]; exact hc
    cases L with
    | nil => simp [cnt] at this
    | cons _ _ => rfl

/-- the map after one valid step: the count of `x` moves by ±1 and the entry is dropped at zero -/
theorem hinv_step {m : CList} {L : List Value} (r : Bool) (x : Value) (hi : HInv m L)
    (hv : r = true → 0 < cnt L x) :
    let c' := hcount m x + delta r
    (0 ≤ c') ∧ (c' ≠ 0 → HInv (hset x c' m) (bagStep L (r, x))) ∧
      (c' = 0 → HInv (hdel x (hset x c' m)) (bagStep L (r, x))) := by
  obtain ⟨hn, hp, hl⟩ := hi
  intro c'
  have hc : hcount m x = cnt L x := hl x
  have hnn := cnt_nonneg L x
  have hc0 : 0 ≤ c' := by
    show 0 ≤ hcount m x + delta r
    cases r with
    | false => simp [delta]; omega
    | true => have := hv rfl; simp [delta]; omega
  have hcnt : ∀ w, cnt (bagStep L (r, x)) w = cnt L w + (if cmp x w = 0 then delta r else 0) := by
    intro w
    rw [cnt_bagStep (e := (r, x)) hv w]
    simp only [weight, delta]; cases r <;> simp
  refine ⟨hc0, fun hne => ⟨noDup_hset x c' m hn, ?_, ?_⟩, fun hz => ⟨?_, ?_, ?_⟩⟩
  · intro e he
    rcases (key_mem_hset x c' m e he).2 with h | h
    · rw [h]; omega
    · exact hp e h
  · intro w
    rw [hcnt w]
    simp only [hcount, hget_hset]
    by_cases hw : cmp x w = 0
    · simp only [hw, if_true]
      show hcount m x + delta r = _
      rw [hc, cnt_congr L hw]
    · simp only [hw, if_false]
      have := hl w; simp only [hcount] at this; omega
  · rw [hdel_hset]
    exact hn.sublist (hdel_sublist x m)
  · rw [hdel_hset]
    intro e he
    exact hp e ((hdel_sublist x m).mem he)
  · intro w
    rw [hcnt w, hdel_hset]
    simp only [hcount, hget_hdel x m hn w]
    by_cases hw : cmp x w = 0
    · simp only [hw, if_true]
      have : hcount m x + delta r = 0 := hz
      rw [← cnt_congr L hw]; omega
    · simp only [hw, if_false]
      have := hl w; simp only [hcount] at this; omega

/-- `[0 < n]` -/
def ind (n : Int) : Int := if 0 < n then 1 else 0

theorem cnt_support : ∀ (L : List Value) (v : Value), cnt (support L) v = ind (cnt L v)
  | [], _ => rfl
  | x :: r, v => by
    have ih := cnt_support r v
    have hnn := cnt_nonneg r v
    simp only [support]
    split
    · rename_i hpos
      rw [ih, cnt_cons]
      by_cases hx : cmp x v = 0
      · have := cnt_congr r hx
        simp only [ind, hx, if_true]
        split <;> split <;> omega
      · simp [hx]
    · rename_i hz
      rw [cnt_cons, cnt_cons, ih]
      by_cases hx : cmp x v = 0
      · have := cnt_congr r hx
        simp only [ind, hx, if_true]
        split <;> split <;> omega
      · simp [hx]

theorem mem_support : ∀ (L : List Value) (x : Value), x ∈ support L → x ∈ L
  | [], _, h => by simp [support] at h
  | y :: r, x, h => by
    simp only [support] at h
    split at h
    · exact List.mem_cons_of_mem _ (mem_support r x h)
    · rcases List.mem_cons.mp h with rfl | h'
      · exact List.mem_cons_self
      · exact List.mem_cons_of_mem _ (mem_support r x h')

variable {A : Agg} {P : Value → Prop} {spec : List Value → Value}

/-- the state of the wrapper: the map represents `L`, the wrapped aggregate represents some `L'`
    holding each class of `L` exactly once -/
def DInv (pf : AggProof A P spec) (s : CList × A.σ) (L : List Value) : Prop :=
  HInv s.1 L ∧ ∃ L', pf.Inv s.2 L' ∧ (∀ x ∈ L', P x) ∧ ∀ v, cnt L' v = ind (cnt L v)

theorem distinct_step (pf : AggProof A P spec) {s : CList × A.σ} {L : List Value} (e : Bool × Value)
    (hi : DInv pf s L) (hP : P e.2) (hv : e.1 = true → 0 < cnt L e.2) :
    DInv pf (distinctAdd A s e.1 e.2).1 (bagStep L e) ∧
      (distinctAdd A s e.1 e.2).2 = (bagStep L e).isEmpty := by
  obtain ⟨r, x⟩ := e
  obtain ⟨hm, L', hinv, hLP, hL'⟩ := hi
  obtain ⟨hc0, hne, hz⟩ := hinv_step r x hm hv
  have hcx : hcount s.1 x = cnt L x := hm.2.2 x
  have hnn := cnt_nonneg L x
  have hcnt : ∀ w, cnt (bagStep L (r, x)) w = cnt L w + (if cmp x w = 0 then delta r else 0) := by
    intro w
    rw [cnt_bagStep (e := (r, x)) hv w]
    simp only [weight, delta]; cases r <;> simp
  have hd : (if (!r) = true then hcount s.1 x + 1 else hcount s.1 x - 1) = hcount s.1 x + delta r := by
    cases r <;> simp [delta] <;> omega
  simp only [distinctAdd]
  rw [hd]
  cases r with
  | false =>
    simp only [delta, Bool.not_false, if_true, Bool.and_true] at *
    by_cases h1 : hcount s.1 x + 1 = 1
    · -- 0 → 1: forwarded as an addition
      have hmap := hne (by omega)
      obtain ⟨i1, _⟩ := pf.step (false, x) hinv hLP hP (by simp)
      simp only [h1, beq_self_eq_true, if_true]
      rw [h1] at hmap
      refine ⟨⟨hmap, x :: L', i1, all_bagStep (e := (false, x)) hLP hP, fun v => ?_⟩, hinv_empty hmap⟩
      rw [hcnt v, cnt_cons, hL' v]
      have hnv := cnt_nonneg L v
      by_cases hx : cmp x v = 0
      · have := cnt_congr L hx
        simp only [ind, hx, if_true]; split <;> split <;> omega
      · simp only [ind, hx, if_false]; omega
    · have h1' : ((hcount s.1 x + 1 == 1) = false) := by simp [h1]
      have h0 : ((hcount s.1 x + 1 == 0) = false) := by simp; omega
      have hmap := hne (by omega)
      simp only [h1', h0, Bool.false_eq_true, if_false]
      refine ⟨⟨hmap, L', hinv, hLP, fun v => ?_⟩, hinv_empty hmap⟩
      rw [hcnt v, hL' v]
      have hnv := cnt_nonneg L v
      by_cases hx : cmp x v = 0
      · have := cnt_congr L hx
        simp only [ind, hx, if_true]; split <;> split <;> omega
      · simp only [ind, hx, if_false]; omega
  | true =>
    have hpos := hv rfl
    simp only [delta, Bool.not_true, Bool.false_eq_true, if_false, Bool.and_false] at *
    by_cases h0 : hcount s.1 x + -1 = 0
    · -- 1 → 0: forwarded as a retraction
      have hmap := hz h0
      have hx1 : 0 < cnt L' x := by rw [hL' x]; simp only [ind]; split <;> omega
      obtain ⟨i1, _⟩ := pf.step (true, x) hinv hLP hP (fun _ => hx1)
      simp only [h0, beq_self_eq_true, if_true]
      rw [h0] at hmap
      refine ⟨⟨hmap, eraseEq x L', i1, all_bagStep (e := (true, x)) hLP hP, fun v => ?_⟩, hinv_empty hmap⟩
      rw [hcnt v, cnt_eraseEq hx1 v, hL' v]
      have hnv := cnt_nonneg L v
      by_cases hx : cmp x v = 0
      · have := cnt_congr L hx
        simp only [ind, hx, if_true]; split <;> split <;> omega
      · simp only [ind, hx, if_false]; omega
    · have h0' : ((hcount s.1 x + -1 == 0) = false) := by simp [h0]
      have hmap := hne h0
      simp only [h0', Bool.false_eq_true, if_false]
      refine ⟨⟨hmap, L', hinv, hLP, fun v => ?_⟩, hinv_empty hmap⟩
      rw [hcnt v, hL' v]
      have hnv := cnt_nonneg L v
      by_cases hx : cmp x v = 0
      · have := cnt_congr L hx
        simp only [ind, hx, if_true]; split <;> split <;> omega
      · simp only [ind, hx, if_false]; omega

/-- **the DISTINCT wrapper**: a correct aggregate behind `Distinct` reports the aggregate of the
    support of the net multiset -/
def distinctProof (pf : AggProof A P spec) : AggProof (distinctAgg A) P (fun M => spec (support M)) where
  Inv := DInv pf
  init := ⟨⟨(List.Pairwise.nil : NoDupKeys []), (by intro e he; cases he), fun _ => rfl⟩, [], pf.init, (by simp), fun _ => rfl⟩
  step := fun e hi _ hP hv => distinct_step pf e hi hP hv
  result := by
    intro s L hi hLP hne
    obtain ⟨_, L', hinv, hL'P, hL'⟩ := hi
    have hc : CntEq L' (support L) := fun v => by rw [hL' v, cnt_support]
    have hne' : L' ≠ [] := by
      intro h0
      cases L with
      | nil => exact hne rfl
      | cons x r =>
        have h1 : cnt L' x = ind (cnt (x :: r) x) := hL' x
        have hp := cnt_pos_of_mem (L := x :: r) (x := x) List.mem_cons_self
        rw [h0, cnt_nil] at h1
        unfold ind at h1; split at h1 <;> omega
    obtain ⟨r, hr, hrs⟩ := pf.result hinv hL'P hne'
    exact ⟨r, hr, ceq_trans hrs (pf.congr hL'P (fun x hx => hLP x (mem_support L x hx)) hc)⟩
  congr := by
    intro L M hL hM h
    apply pf.congr (fun x hx => hL x (mem_support L x hx)) (fun x hx => hM x (mem_support M x hx))
    intro v
    rw [cnt_support, cnt_support, h v]
  P_congr := pf.P_congr

end Octo.Agg
