import Octo.Model.NumFuncs
/-!
  Octo.Lemmas.Int64 — the `BitVec 64` operators of the model against mathematical integers:
  every operator equals the exact result wrapped into the Int64 range (`wrap64`), and is exact when
  the exact result fits.
-/
namespace Octo.Num

theorem two_pow_64 : (2 : Nat) ^ 64 = 18446744073709551616 := by decide

theorem wrap64_def (x : Int) : wrap64 x = x.bmod 18446744073709551616 := by
  unfold wrap64; rw [two_pow_64]

theorem inI64_iff (x : Int) : InI64 x ↔ (-9223372036854775808 ≤ x ∧ x ≤ 9223372036854775807) := by
  unfold InI64 minI64 maxI64; exact Iff.rfl

/-- wrapping lands in the Int64 range -/
theorem inI64_wrap64 (x : Int) : InI64 (wrap64 x) := by
  rw [inI64_iff, wrap64_def]
  have h1 := @Int.le_bmod x 18446744073709551616 (by decide)
  have h2 := @Int.bmod_lt x 18446744073709551616 (by decide)
  omega

/-- wrapping is the identity on the Int64 range -/
theorem wrap64_of_inI64 {x : Int} (h : InI64 x) : wrap64 x = x := by
  rw [inI64_iff] at h
  rw [wrap64_def]
  apply Int.bmod_eq_of_le <;> omega

theorem wrap64_wrap64 (x : Int) : wrap64 (wrap64 x) = wrap64 x := wrap64_of_inI64 (inI64_wrap64 x)

theorem toInt_bv (x : Int) : (bv x).toInt = wrap64 x := by
  unfold bv wrap64; exact BitVec.toInt_ofInt x

theorem toInt_bv_of_inI64 {x : Int} (h : InI64 x) : (bv x).toInt = x := by
  rw [toInt_bv, wrap64_of_inI64 h]

theorem addI64_eq (a b : Int) : addI64 a b = wrap64 (a + b) := by
  unfold addI64
  rw [BitVec.toInt_add, toInt_bv, toInt_bv]
  unfold wrap64
  exact Int.bmod_add_bmod.trans (by rw [Int.add_bmod_bmod])

theorem subI64_eq (a b : Int) : subI64 a b = wrap64 (a - b) := by
  unfold subI64
  rw [BitVec.toInt_sub, toInt_bv, toInt_bv]
  unfold wrap64
  rw [Int.bmod_sub_bmod, Int.sub_bmod_bmod]

theorem mulI64_eq (a b : Int) : mulI64 a b = wrap64 (a * b) := by
  unfold mulI64
  rw [BitVec.toInt_mul, toInt_bv, toInt_bv]
  unfold wrap64
  rw [Int.bmod_mul_bmod, Int.mul_bmod_bmod]

theorem negI64_eq (a : Int) : negI64 a = wrap64 (-a) := by
  unfold negI64
  rw [BitVec.toInt_neg, toInt_bv]
  unfold wrap64
  rw [Int.bmod_neg_bmod]

theorem quoI64_eq {a b : Int} (ha : InI64 a) (hb : InI64 b) : quoI64 a b = wrap64 (Int.tdiv a b) := by
  unfold quoI64
  rw [BitVec.toInt_sdiv, toInt_bv_of_inI64 ha, toInt_bv_of_inI64 hb]
  rfl

end Octo.Num
