import Octo.Lemmas.OpsGroupFinal
import Octo.Lemmas.OpsBufferValid
/-!
  Octo.Lemmas.OpsCtgb — CustomTriggerGroupBy with the end-of-stream trigger: the group state obeys the
  same invariant as SimpleGroupBy (`GInv`); the trigger's key tree is sorted, duplicate-free and
  holds a representative of every stored group; the end-of-stream flush therefore emits each group once.
-/
namespace Octo.Ops
open Octo

/-! ### the trigger's key tree -/
def KeysSorted (keys : List Row) : Prop := keys.Pairwise fun a b => cmpList a b < 0

theorem mem_keyInsert (k : Row) (keys : List Row) (q : Row) (h : q ∈ keyInsert k keys) : q = k ∨ q ∈ keys := by
  induction keys with
  | nil => simp [keyInsert] at h; exact Or.inl h
  | cons x xs ih =>
    simp only [keyInsert] at h
    split at h
    · rcases List.mem_cons.mp h with h' | h'
      · exact Or.inl h'
      · exact Or.inr h'
    · split at h
      · rcases List.mem_cons.mp h with h' | h'
        · exact Or.inr (h' ▸ List.mem_cons_self)
        · rcases ih h' with h'' | h''
          · exact Or.inl h''
          · exact Or.inr (List.mem_cons_of_mem _ h'')
      · rcases List.mem_cons.mp h with h' | h'
        · exact Or.inl h'
        · exact Or.inr (List.mem_cons_of_mem _ h')

theorem cmpList_lt_trans {a b c : Row} (h1 : cmpList a b < 0) (h2 : cmpList b c < 0) : cmpList a c < 0 := by
  have t := cmpList_trans a b c (by omega) (by omega)
  have t2 := cmpList_trans c a b
  have a1 := cmpList_antisymm a c; have a2 := cmpList_antisymm b c
  omega

theorem cmpList_lt_of_eq_left {a b c : Row} (h0 : cmpList a b = 0) (h : cmpList b c < 0) : cmpList a c < 0 := by
  have t := cmpList_trans a b c (by omega) (by omega)
  have t2 := cmpList_trans c a b
  have a1 := cmpList_antisymm a c; have a2 := cmpList_antisymm b c
  omega

theorem keyInsert_sorted (k : Row) (keys : List Row) (hs : KeysSorted keys) : KeysSorted (keyInsert k keys) := by
  induction keys with
  | nil => simp [keyInsert, KeysSorted]
  | cons x xs ih =>
    have hs' := List.pairwise_cons.mp hs
    simp only [keyInsert]
    by_cases h1 : cmpList k x < 0
    · simp only [h1, ↓reduceIte]
      refine List.pairwise_cons.mpr ⟨?_, hs⟩
      intro b hb
      rcases List.mem_cons.mp hb with h | h
      · rw [h]; exact h1
      · exact cmpList_lt_trans h1 (hs'.1 b h)
    · simp only [h1, ↓reduceIte]
      by_cases h2 : cmpList x k < 0
      · simp only [h2, ↓reduceIte]
        refine List.pairwise_cons.mpr ⟨?_, ih hs'.2⟩
        intro b hb
        rcases mem_keyInsert k xs b hb with h | h
        · rw [h]; exact h2
        · exact hs'.1 b h
      · simp only [h2, ↓reduceIte]
        have h0 : cmpList k x = 0 := by have := cmpList_antisymm k x; omega
        refine List.pairwise_cons.mpr ⟨?_, hs'.2⟩
        intro b hb
        exact cmpList_lt_of_eq_left h0 (hs'.1 b hb)

theorem self_mem_keyInsert (k : Row) (keys : List Row) : k ∈ keyInsert k keys := by
  induction keys with
  | nil => simp [keyInsert]
  | cons x xs ih =>
    simp only [keyInsert]
    split
    · exact List.mem_cons_self
    · split
      · exact List.mem_cons_of_mem _ ih
      · exact List.mem_cons_self

/-- every key keeps a representative -/
theorem keyInsert_keeps (k : Row) (keys : List Row) (q : Row) (hq : q ∈ keys) :
    ∃ q' ∈ keyInsert k keys, rowEq q' q = true := by
  induction keys with
  | nil => simp at hq
  | cons x xs ih =>
    simp only [keyInsert]
    split
    · exact ⟨q, List.mem_cons_of_mem _ hq, rowEq_refl q⟩
    · split
      · rcases List.mem_cons.mp hq with h | h
        · exact ⟨q, h ▸ List.mem_cons_self, rowEq_refl q⟩
        · obtain ⟨q', h1, h2⟩ := ih h
          exact ⟨q', List.mem_cons_of_mem _ h1, h2⟩
      · rename_i h1 h2
        rcases List.mem_cons.mp hq with h | h
        · subst h
          refine ⟨k, List.mem_cons_self, ?_⟩
          rw [rowEq_iff]; have := cmpList_antisymm k q; omega
        · exact ⟨q, List.mem_cons_of_mem _ h, rowEq_refl q⟩

theorem keysSorted_nodup (keys : List Row) (hs : KeysSorted keys) : keys.Pairwise fun a b => rowEq a b = false := by
  refine List.Pairwise.imp ?_ hs
  intro a b h
  cases hr : rowEq a b
  · rfl
  · rw [rowEq_iff] at hr; omega

theorem aget_gUpdate_other (agg : GAgg α) (groups : List (Row × GItem α)) (key k : Row) (retr : Bool) (ins : Row)
    (h : rowEq key k = false) : aget (gUpdate agg groups key retr ins) k = aget groups k := by
  have hkey0 : rowEq (gEntry agg groups key).1 key = true := by
    simp only [gEntry]
    cases hg : aget groups key with
    | none => exact rowEq_refl _
    | some p => exact aget_key _ _ _ hg
  have he0 : rowEq (gEntry agg groups key).1 k = false := by
    rw [rowEq_congr_left hkey0 k]; exact h
  let e0 := gEntry agg groups key
  let it : GItem α := { count := if retr then e0.2.count - 1 else e0.2.count + 1, st := agg.add e0.2.st retr ins }
  have hdef : gUpdate agg groups key retr ins = if it.count == 0 then aremove groups key else aput groups e0.1 it := rfl
  rw [hdef]
  by_cases hz : (it.count == 0) = true
  · rw [if_pos hz, aget_aremove, h]; rfl
  · rw [if_neg hz, aget_aput, he0]; rfl

/-! ### the state invariant -/
structure CInv (agg : GAgg α) (kf inf : Row → Row) (s : CtgbState α) (done : List Rec) : Prop where
  ginv : GInv agg kf inf s.groups done
  sorted : KeysSorted s.keys
  covers : ∀ k e, aget s.groups k = some e → ∃ k' ∈ s.keys, rowEq k' k = true
  isKey : ∀ k ∈ s.keys, ∃ x, k = kf x

theorem cinv_init (agg : GAgg α) (kf inf : Row → Row) : CInv agg kf inf ⟨[], []⟩ [] :=
  ⟨ginv_init agg kf inf, List.Pairwise.nil, by intro k e h; simp [aget] at h, by simp⟩

theorem cinv_step (agg : GAgg α) (kf inf : Row → Row) (hk : RowCongr kf) (hi : RowCongr inf)
    (s : CtgbState α) (done : List Rec) (r : Rec) (inv : CInv agg kf inf s done) (hv : ValidLog (done ++ [r])) :
    CInv agg kf inf ⟨gUpdate agg s.groups (kf r.vals) r.retr (inf r.vals), keyInsert (kf r.vals) s.keys⟩ (done ++ [r]) := by
  refine ⟨ginv_step agg kf inf hk hi s.groups done r inv.ginv hv, keyInsert_sorted _ _ inv.sorted, ?_, ?_⟩
  · intro k e hke
    simp only at hke ⊢
    by_cases hkk : rowEq (kf r.vals) k = true
    · exact ⟨kf r.vals, self_mem_keyInsert _ _, hkk⟩
    · -- an untouched key: it was stored before
      have hkk' : rowEq (kf r.vals) k = false := by simpa using hkk
      have hold : aget s.groups k = some e := by
        rw [← aget_gUpdate_other agg s.groups (kf r.vals) k r.retr (inf r.vals) hkk']; exact hke
      obtain ⟨k', hk', hkk''⟩ := inv.covers k e hold
      obtain ⟨q, hq1, hq2⟩ := keyInsert_keeps (kf r.vals) s.keys k' hk'
      exact ⟨q, hq1, rowEq_trans hq2 hkk''⟩
  · intro k hkm
    rcases mem_keyInsert _ _ _ hkm with h | h
    · exact ⟨r.vals, h⟩
    · exact inv.isKey k h

/-! ### the end-of-stream flush -/
/-- the keys of the trigger that still have a group -/
def presentKeys (groups : List (Row × GItem α)) (keys : List Row) : List Row :=
  keys.filter fun k => (aget groups k).isSome

/-- the row emitted for a triggered key -/
def cOutRow (agg : GAgg α) (groups : List (Row × GItem α)) (k : Row) : Row :=
  match aget groups k with
  | some e => k ++ (agg.trig e.2.st).getD []
  | none => []

theorem ctgbFlush_ok (agg : GAgg α) (etIdx : Option Nat) (groups : List (Row × GItem α)) (keys : List Row)
    (htrig : ∀ k ∈ keys, ∀ e, aget groups k = some e → ∃ out, agg.trig e.2.st = some out)
    (het : ∀ k ∈ keys, ∀ out, ∃ et, ctgbEventTime etIdx (k ++ out) = .ok et) :
    ∃ l : List Rec, ctgbFlush agg etIdx groups keys = .ok (l.map .data) ∧
      l.map (·.vals) = (presentKeys groups keys).map (cOutRow agg groups) ∧ ∀ q ∈ l, q.retr = false := by
  induction keys with
  | nil => exact ⟨[], rfl, rfl, by simp⟩
  | cons k ks ih =>
    obtain ⟨l, h1, h2, h3⟩ := ih (fun q hq => htrig q (List.mem_cons_of_mem _ hq)) (fun q hq => het q (List.mem_cons_of_mem _ hq))
    cases hg : aget groups k with
    | none =>
      refine ⟨l, ?_, ?_, h3⟩
      · simp only [ctgbFlush, hg]; exact h1
      · simp only [presentKeys, List.filter_cons, hg, Option.isSome_none, Bool.false_eq_true, ↓reduceIte]; exact h2
    | some e =>
      obtain ⟨out, ho⟩ := htrig k List.mem_cons_self e hg
      obtain ⟨et, he⟩ := het k List.mem_cons_self out
      obtain ⟨k0, it⟩ := e
      simp only at ho
      refine ⟨{ vals := k ++ out, retr := false, et := et } :: l, ?_, ?_, ?_⟩
      · simp only [ctgbFlush, hg, gRow, ho, Option.map_some, he, h1, List.map_cons]
      · simp only [presentKeys, List.filter_cons, hg, Option.isSome_some, ↓reduceIte, List.map_cons, cOutRow, ho,
          Option.getD_some, List.cons.injEq, true_and]
        exact h2
      · intro q hq
        rcases List.mem_cons.mp hq with h | h
        · subst h; rfl
        · exact h3 q h

/-- the flush emits the batch GROUP BY of the consolidated input -/
theorem cinv_result (agg : GAgg α) (spec : List Row → Row) (hagg : GAggOK agg spec) (kf inf : Row → Row)
    (hk : RowCongr kf) (hi : RowCongr inf) (log : List Rec) (s : CtgbState α)
    (inv : CInv agg kf inf s log) (rows : List Row) (hc : Consolidates rows log) :
    (∀ k ∈ s.keys, ∀ e, aget s.groups k = some e → ∃ out, agg.trig e.2.st = some out) ∧
    ∀ y, cnt ((presentKeys s.groups s.keys).map (cOutRow agg s.groups)) y = cnt (groupB spec kf inf rows) y := by
  have htrig := ginv_trig agg spec hagg kf inf hk hi log s.groups inv.ginv rows hc
  refine ⟨fun k _ e he => (htrig e (mem_of_aget _ _ _ he)).imp fun _ h => h.1, ?_⟩
  intro y
  let l1 : List (Row × Row) := (presentKeys s.groups s.keys).map fun k => (k, cOutRow agg s.groups k)
  let l2 : List (Row × Row) := (dedupRows (rows.map kf)).map fun k =>
    (k, k ++ spec ((rows.filter fun x => rowEq (kf x) k).map inf))
  have e1 : (presentKeys s.groups s.keys).map (cOutRow agg s.groups) = l1.map (·.2) := by
    simp [l1, List.map_map, Function.comp_def]
  have e2 : groupB spec kf inf rows = l2.map (·.2) := by simp [l2, groupB, List.map_map, Function.comp_def]
  rw [e1, e2]
  apply cnt_equiv l1 l2
  · simp only [KeysNodup, l1, List.pairwise_map, presentKeys]
    exact List.Pairwise.filter _ (keysSorted_nodup _ inv.sorted)
  · simp only [KeysNodup, l2, List.pairwise_map]; exact dedupRows_nodup _
  · intro a ha
    simp only [l1, List.mem_map, presentKeys, List.mem_filter] at ha
    obtain ⟨k, ⟨_, hsome⟩, rfl⟩ := ha
    obtain ⟨e, he⟩ := Option.isSome_iff_exists.mp hsome
    obtain ⟨hcount, hne, _⟩ := inv.ginv.present k e he
    rw [keyCount_of_consolidates kf hk k hc] at hcount
    have hpos : 0 < cnt (rows.map kf) k := by
      have := cnt_nonneg (rows.map kf) k; omega
    obtain ⟨k2, hk1, hk2⟩ := exists_dedupRows _ _ hpos
    exact ⟨(k2, _), List.mem_map.mpr ⟨k2, hk1, rfl⟩, by rw [rowEq_symm]; exact hk2⟩
  · intro b hb
    simp only [l2, List.mem_map] at hb
    obtain ⟨k, hkm, rfl⟩ := hb
    have hpos := cnt_pos_of_mem _ _ (mem_dedupRows_sub _ _ hkm)
    cases hg : aget s.groups k with
    | none =>
      have := inv.ginv.absent k hg
      rw [keyCount_of_consolidates kf hk k hc] at this; omega
    | some e =>
      obtain ⟨k', hk', hkk⟩ := inv.covers k e hg
      refine ⟨(k', cOutRow agg s.groups k'), ?_, hkk⟩
      simp only [l1, List.mem_map, presentKeys, List.mem_filter]
      exact ⟨k', ⟨hk', by rw [aget_congr s.groups hkk, hg]; rfl⟩, rfl⟩
  · intro a ha b hb hab
    simp only [l1, List.mem_map, presentKeys, List.mem_filter] at ha
    obtain ⟨k', ⟨_, hsome⟩, rfl⟩ := ha
    simp only [l2, List.mem_map] at hb
    obtain ⟨k, _, rfl⟩ := hb
    obtain ⟨e, he⟩ := Option.isSome_iff_exists.mp hsome
    obtain ⟨out, ho, hr⟩ := htrig e (mem_of_aget _ _ _ he)
    simp only at hab
    simp only [cOutRow, he, ho, Option.getD_some]
    apply rowEq_append hab
    have hek : rowEq e.1 k = true := rowEq_trans (aget_key _ _ _ he) hab
    have : (rows.filter fun x => rowEq (kf x) e.1) = (rows.filter fun x => rowEq (kf x) k) := by
      apply List.filter_congr; intro x _; exact rowEq_congr_right hek _
    rw [← this]; exact hr

theorem ctgb_runFrom (agg : GAgg α) (kf inf : Row → Row) (hk : RowCongr kf) (hi : RowCongr inf) (etIdx : Option Nat)
    (ms : List Msg) :
    ∀ (s : CtgbState α) (done : List Rec), CInv agg kf inf s done → ValidLog (done ++ recs ms) →
      ∃ s', CInv agg kf inf s' (done ++ recs ms) ∧
        (ctgbOp agg (fun x => .ok (kf x)) (fun x => .ok (inf x)) etIdx).runFrom s ms false =
          (wmMsgs ms ++ ((ctgbOp agg (fun x => .ok (kf x)) (fun x => .ok (inf x)) etIdx).onEnd s').1,
           ((ctgbOp agg (fun x => .ok (kf x)) (fun x => .ok (inf x)) etIdx).onEnd s').2) := by
  induction ms with
  | nil =>
    intro s done inv _
    exact ⟨s, by simpa [recs] using inv, by simp [Op.runFrom, wmMsgs, wms]⟩
  | cons m ms ih =>
    intro s done inv hv
    cases m with
    | wm t =>
      obtain ⟨s', hs', hrun⟩ := ih s done inv (by simpa [recs] using hv)
      refine ⟨s', by simpa [recs] using hs', ?_⟩
      have hstep : (ctgbOp agg (fun x => .ok (kf x)) (fun x => .ok (inf x)) etIdx).onMsg s (.wm t) =
          (s, [.wm t], none) := rfl
      simp only [Op.runFrom, hstep, hrun, wmMsgs, wms, List.map_cons, List.cons_append, List.nil_append]
    | data r =>
      have hv' : ValidLog ((done ++ [r]) ++ recs ms) := by simpa [recs, List.append_assoc] using hv
      have inv' := cinv_step agg kf inf hk hi s done r inv (validLog_prefix hv')
      obtain ⟨s', hs', hrun⟩ := ih _ (done ++ [r]) inv' hv'
      refine ⟨s', by simpa [recs, List.append_assoc] using hs', ?_⟩
      have hstep : (ctgbOp agg (fun x => .ok (kf x)) (fun x => .ok (inf x)) etIdx).onMsg s (.data r) =
          (⟨gUpdate agg s.groups (kf r.vals) r.retr (inf r.vals), keyInsert (kf r.vals) s.keys⟩, [], none) := rfl
      simp only [Op.runFrom, hstep, hrun, wmMsgs, wms, List.nil_append]

end Octo.Ops
