import Octo.Lemmas.SqlTree
/-! insertion into the ordered multiset: bag, length, sortedness, pruning -/
namespace Octo.Sql
open Octo

theorem itemCmp_zero_vals (m : List Int) (a b : Item) (h : itemCmp m a b = 0) : rowEq a.vals b.vals = true := by
  simp only [itemCmp, bne_iff_ne, ne_eq, ite_not] at h
  split at h
  · simp [rowEq, h]
  · contradiction

theorem itemCmp_zero_key (m : List Int) (a b : Item) (h : itemCmp m a b = 0) : keyCmp m a.key b.key = 0 := by
  simp only [itemCmp, bne_iff_ne, ne_eq, ite_not] at h
  split at h
  · assumption
  · contradiction

theorem itemCmp_neg_key (m : List Int) (a b : Item) (h : itemCmp m a b ≤ 0) : keyCmp m a.key b.key ≤ 0 := by
  simp only [itemCmp, bne_iff_ne, ne_eq, ite_not] at h
  split at h
  · omega
  · assumption

/-! #### the bag of rows -/

theorem flatten_length_insert (m : List Int) (x : Item) (t : List Item) :
    (flatten (insertItem m x t)).length = (flatten t).length + x.count := by
  induction t with
  | nil => simp [insertItem, flatten]
  | cons y ys ih =>
    simp only [insertItem]
    split
    · simp [flatten]; omega
    · split
      · simp [flatten]; omega
      · simp [flatten, ih]; omega

theorem flatten_count_insert (m : List Int) (x : Item) (t : List Item) (r : Row) :
    countRow r (flatten (insertItem m x t)) = countRow r (flatten t) + (if rowEq r x.vals then x.count else 0) := by
  induction t with
  | nil => simp [insertItem, flatten, countRow_append, countRow_replicate, countRow]
  | cons y ys ih =>
    simp only [insertItem]
    split
    · simp [flatten, countRow_append, countRow_replicate]; omega
    · split
      · rename_i h0
        have hz : itemCmp m x y = 0 := by simpa using h0
        have hv := itemCmp_zero_vals m x y hz
        simp only [flatten, countRow_append, countRow_replicate, rowEq_congr hv r]
        split <;> omega
      · simp only [flatten, countRow_append, ih]; omega

/-! #### sortedness -/

def ItemsSorted (m : List Int) : List Item → Prop
  | [] => True
  | a :: rest => (∀ b ∈ rest, itemCmp m a b < 0) ∧ ItemsSorted m rest

theorem mem_insertItem (m : List Int) (x : Item) (t : List Item) (b : Item) (hb : b ∈ insertItem m x t) :
    b ∈ t ∨ b = x ∨ (∃ y ∈ t, itemCmp m x y = 0 ∧ b = { y with count := y.count + x.count }) := by
  induction t with
  | nil => simp [insertItem] at hb; simp [hb]
  | cons y ys ih =>
    simp only [insertItem] at hb
    split at hb
    · simp only [List.mem_cons] at hb
      rcases hb with rfl | rfl | h
      · simp
      · simp
      · simp [h]
    · split at hb
      · rename_i h0
        have hz : itemCmp m x y = 0 := by simpa using h0
        simp only [List.mem_cons] at hb
        rcases hb with rfl | h
        · right; right; exact ⟨y, by simp, hz, rfl⟩
        · simp [h]
      · simp only [List.mem_cons] at hb
        rcases hb with rfl | h
        · simp
        · rcases ih h with h | h | ⟨z, hz, hc, he⟩
          · simp [h]
          · simp [h]
          · right; right; exact ⟨z, by simp [hz], hc, he⟩

theorem itemCmp_count_irrel_left (m : List Int) (y : Item) (c : Nat) (b : Item) :
    itemCmp m { y with count := c } b = itemCmp m y b := rfl
theorem itemCmp_count_irrel_right (m : List Int) (y : Item) (c : Nat) (a : Item) :
    itemCmp m a { y with count := c } = itemCmp m a y := rfl

theorem insertItem_sorted (m : List Int) (hm : MultsOk m) (n : Nat) (x : Item) (t : List Item)
    (hx : KeyLen n x) (ht : ∀ y ∈ t, KeyLen n y) (hs : ItemsSorted m t) :
    ItemsSorted m (insertItem m x t) := by
  induction t with
  | nil => simp [insertItem, ItemsSorted]
  | cons y ys ih =>
    have hy : KeyLen n y := ht y (by simp)
    have hys : ∀ z ∈ ys, KeyLen n z := fun z hz => ht z (by simp [hz])
    simp only [insertItem]
    split
    · rename_i hlt
      refine ⟨?_, hs⟩
      intro b hb
      simp only [List.mem_cons] at hb
      rcases hb with rfl | hb
      · exact hlt
      · have h1 := hs.1 b hb
        have t1 := itemCmp_trans m hm n x y b hx hy (hys b hb) (by omega) (by omega)
        have t2 := itemCmp_trans m hm n b x y (hys b hb) hx hy
        have a1 := itemCmp_antisymm m x b
        have a2 := itemCmp_antisymm m y b
        omega
    · split
      · exact ⟨fun b hb => by rw [itemCmp_count_irrel_left]; exact hs.1 b hb, hs.2⟩
      · rename_i h1 h2
        have hgt : itemCmp m x y > 0 := by
          have : ¬ itemCmp m x y = 0 := by simpa using h2
          omega
        refine ⟨?_, ih hys hs.2⟩
        intro b hb
        rcases mem_insertItem m x ys b hb with h | h | ⟨z, hz, _, h⟩
        · exact hs.1 b h
        · rw [h]; have := itemCmp_antisymm m x y; omega
        · rw [h, itemCmp_count_irrel_right]; exact hs.1 z hz

/-! #### pruning -/

theorem take_cons_take (k : Nat) (y : Item) (ys : List Item) :
    (y :: ys.take k).take k = (y :: ys).take k := by
  cases k with
  | zero => rfl
  | succ j => simp [List.take_take]

theorem insert_take (m : List Int) (x : Item) (t : List Item) (n : Nat) :
    (insertItem m x (t.take n)).take n = (insertItem m x t).take n := by
  induction t generalizing n with
  | nil => simp
  | cons y ys ih =>
    cases n with
    | zero => simp
    | succ k =>
      simp only [List.take_succ_cons, insertItem]
      split
      · simp only [List.take_succ_cons]; rw [take_cons_take]
      · split
        · simp [List.take_take]
        · simp [ih k]

theorem insertItem_length_le (m : List Int) (x : Item) (t : List Item) :
    (insertItem m x t).length ≤ t.length + 1 := by
  induction t with
  | nil => simp [insertItem]
  | cons y ys ih =>
    simp only [insertItem]
    repeat' split
    all_goals simp
    omega

theorem dropLast_eq_take (l : List Item) (n : Nat) (h : l.length = n + 1) : l.dropLast = l.take n := by
  rw [List.dropLast_eq_take]; simp [h]

theorem prune_eq_take (n : Nat) (t : List Item) (h : t.length ≤ n + 1) : prune (some n) t = t.take n := by
  simp only [prune]
  split
  · exact dropLast_eq_take t n (by omega)
  · rw [List.take_of_length_le (by omega)]

theorem flatten_take_take (t : List Item) (hc : ∀ it ∈ t, it.count ≥ 1) (n : Nat) :
    (flatten (t.take n)).take n = (flatten t).take n := by
  induction t generalizing n with
  | nil => simp
  | cons it rest ih =>
    cases n with
    | zero => simp
    | succ k =>
      have hc1 : it.count ≥ 1 := hc it (by simp)
      have ih' := ih (fun i hi => hc i (by simp [hi])) k
      simp only [List.take_succ_cons, flatten, List.take_append, List.length_replicate]
      congr 1
      -- k + 1 - count ≤ k: both sides are determined by the first k rows
      have hle : k + 1 - it.count ≤ k := by omega
      have e1 : (flatten (rest.take k)).take (k + 1 - it.count) = ((flatten (rest.take k)).take k).take (k + 1 - it.count) := by
        rw [List.take_take]; congr 1; omega
      have e2 : (flatten rest).take (k + 1 - it.count) = ((flatten rest).take k).take (k + 1 - it.count) := by
        rw [List.take_take]; congr 1; omega
      rw [e1, e2, ih']

end Octo.Sql
