import Octo.Lemmas.PlanSem
/-!
  Soundness of the local rewrites of the filter rules (`MergeFilters`, `PushDownFilterPredicatesIntoStreamJoinBranch`,
  `PushDownFilterPredicatesIntoStreamJoinKey`, …) on well-formed nodes.
-/
namespace Octo.Plan
open Octo

/-- a well-formed filter over records with the right names keeps exactly the records on which it is TRUE -/
theorem filterRows_good {fs outer : List String} {ctx : Ctx} {e : PExpr} {rows : List Row}
    (hrows : ∀ r ∈ rows, Row.names r = fs) (hb : Binds outer ctx) (he : ExprOK (fs ++ outer) e) :
    filterRows ctx e rows = some (rows.filter (keep ctx e)) :=
  filterRows_eq (fun r hr => eval_isSome he.safe he.inScope (binds_cons (hrows r hr) hb))

theorem names_of_filter {fs : List String} {rows : List Row} {p : Row → Bool}
    (hrows : ∀ r ∈ rows, Row.names r = fs) : ∀ r ∈ rows.filter p, Row.names r = fs :=
  fun r hr => hrows r (List.mem_filter.mp hr).1

theorem exprOK_and {scope : List String} {cs : List PExpr} (h : ∀ c ∈ cs, ExprOK scope c) :
    ExprOK scope (.nary .and cs) := by
  refine ⟨?_, hsafe_and (hsafeL_iff.mpr fun c hc => (h c hc).safe)⟩
  intro x hx
  simp only [varsUsed] at hx
  obtain ⟨c, hc, hxc⟩ := mem_varsUsedL.mp hx
  exact (h c hc).inScope x hxc

theorem exprOK_conjunct {scope : List String} {e c : PExpr} (he : ExprOK scope e) (hc : c ∈ splitByAnd e) :
    ExprOK scope c :=
  ⟨fun _ hx => he.inScope _ (vars_of_conjunct hc hx), hsafeL_iff.mp (hsafe_split he.safe) c hc⟩

theorem keep_and (ctx : Ctx) (cs : List PExpr) (r : Row) :
    keep ctx (.nary .and cs) r = cs.all fun c => keep ctx c r := by
  simp only [keep, isTrue_and_list]

theorem keep_split (ctx : Ctx) (e : PExpr) (r : Row) :
    keep ctx e r = (splitByAnd e).all fun c => keep ctx c r := by
  simp only [keep, isTrue_iff_split (r :: ctx) e]

/-! ### MergeFilters -/

theorem mergeFilters_local (db : Db) : LocalOK db mergeFiltersLocal := by
  intro outer q q' c hg h
  unfold mergeFiltersLocal at h
  split at h
  · rename_i s e s2 e2 src
    simp only [Option.some.injEq, Prod.mk.injEq] at h
    obtain ⟨rfl, _⟩ := h
    simp only [Good, UnGood, schema_un] at hg
    obtain ⟨hnd, ⟨_, hsrc, hs2, he2⟩, hs, he⟩ := hg
    subst hs
    subst hs2
    have hand : ExprOK (src.schema.fields ++ outer) (.nary .and (splitByAnd e ++ splitByAnd e2)) :=
      exprOK_and fun c hc => by
        rcases List.mem_append.mp hc with hc | hc
        · exact exprOK_conjunct he hc
        · exact exprOK_conjunct he2 hc
    refine ⟨?_, rfl, ?_⟩
    · simp only [Good, UnGood, true_and]
      exact ⟨hnd, hsrc, hand⟩
    · intro ctx hb
      simp only [denote, unRows]
      cases hd : denote db src ctx with
      | none => rfl
      | some rows =>
        have hn := denote_names hd
        simp only
        rw [filterRows_good hn hb hand, filterRows_good hn hb he2, checked_pass (names_of_filter hn),
            checked_pass (names_of_filter hn)]
        simp only
        rw [filterRows_good (names_of_filter hn) hb he, checked_pass (names_of_filter (names_of_filter hn))]
        congr 1
        rw [List.filter_filter]
        apply List.filter_congr
        intro r _
        rw [keep_and, List.all_append, ← keep_split, ← keep_split, Bool.and_comm]
  · simp only [Option.some.injEq, Prod.mk.injEq] at h
    obtain ⟨rfl, _⟩ := h
    exact StepOK.refl hg

theorem mergeFilters_ok (db : Db) : RuleOK db mergeFilters := rule_of_local (mergeFilters_local db)

/-! ### an optional filter node (`if len(pushed) > 0 { … }`) -/

/-- `if len(cs) > 0 { Filter(And(cs), p) } else { p }` -/
def optFilter (cs : List PExpr) (p : Plan) : Plan :=
  if cs.length > 0 then .un p.schema (.filter (.nary .and cs)) p else p

theorem optFilter_ok {db : Db} {outer : List String} {cs : List PExpr} {p : Plan}
    (hg : Good db p outer) (hcs : ∀ c ∈ cs, ExprOK (p.fields ++ outer) c) :
    Good db (optFilter cs p) outer ∧ (optFilter cs p).schema = p.schema ∧
      ∀ ctx, Binds outer ctx →
        denote db (optFilter cs p) ctx = (denote db p ctx).map fun rows => rows.filter fun r => cs.all fun c => keep ctx c r := by
  unfold optFilter
  split
  · refine ⟨?_, rfl, ?_⟩
    · simp only [Good, UnGood, true_and]
      exact ⟨hg.nodup, hg, exprOK_and hcs⟩
    · intro ctx hb
      simp only [denote, unRows]
      cases hd : denote db p ctx with
      | none => rfl
      | some rows =>
        have hn := denote_names hd
        simp only [Option.map_some]
        rw [filterRows_good hn hb (exprOK_and hcs), checked_pass (names_of_filter hn)]
        congr 1
        apply List.filter_congr
        intro r _
        rw [keep_and]
  · rename_i hlen
    have : cs = [] := by
      cases cs with
      | nil => rfl
      | cons c cs => simp at hlen
    subst this
    refine ⟨hg, rfl, ?_⟩
    intro ctx _
    cases denote db p ctx with
    | none => rfl
    | some rows =>
      simp only [Option.map_some, List.all_nil]
      rw [List.filter_eq_self.mpr (fun _ _ => rfl)]

/-! ### stream join: keys always evaluate on well-formed plans -/

theorem sequence_isSome : ∀ {rs : List (Option Value)}, (∀ r ∈ rs, r.isSome = true) → (sequence rs).isSome = true
  | [], _ => by simp [sequence]
  | none :: _, h => by simpa using h none (by simp)
  | some v :: rs, h => by
    have ih := sequence_isSome (rs := rs) (fun r hr => h r (by simp [hr]))
    cases hs : sequence rs with
    | none => rw [hs] at ih; cases ih
    | some vs => simp [sequence, hs]

theorem evalArgs_isSome {scope : List String} {cx : Ctx} {es : List PExpr}
    (hes : ExprsOK scope es) (hb : Binds scope cx) : (evalArgs cx es).isSome = true := by
  unfold evalArgs
  apply sequence_isSome
  intro r hr
  obtain ⟨e, he, rfl⟩ := mem_evalL hr
  exact eval_isSome (hes e he).safe (hes e he).inScope hb

theorem keysOk_good {fs outer : List String} {ctx : Ctx} {ks : List PExpr} {rows : List Row}
    (hrows : ∀ r ∈ rows, Row.names r = fs) (hb : Binds outer ctx) (hk : ExprsOK (fs ++ outer) ks) :
    keysOk ctx ks rows = true := by
  simp only [keysOk, List.all_eq_true]
  intro r hr
  exact evalArgs_isSome hk (binds_cons (hrows r hr) hb)

theorem names_append {l r : Row} : Row.names (l ++ r) = Row.names l ++ Row.names r := by
  simp [Row.names]

theorem joinRows_good {lf rf outer : List String} {ctx : Ctx} {lk rk : List PExpr} {ls rs : List Row}
    (hl : ∀ r ∈ ls, Row.names r = lf) (hr : ∀ r ∈ rs, Row.names r = rf) (hb : Binds outer ctx)
    (hlk : ExprsOK (lf ++ outer) lk) (hrk : ExprsOK (rf ++ outer) rk) :
    joinRows ctx lk rk ls rs =
      some (ls.flatMap fun l => (rs.filter fun r => keyMatch ctx lk rk l r).map fun r => l ++ r) := by
  simp [joinRows, keysOk_good hl hb hlk, keysOk_good hr hb hrk]

theorem names_of_join {lf rf : List String} {ls rs : List Row} {m : Row → Row → Bool}
    (hl : ∀ r ∈ ls, Row.names r = lf) (hr : ∀ r ∈ rs, Row.names r = rf) :
    ∀ x ∈ (ls.flatMap fun l => (rs.filter fun r => m l r).map fun r => l ++ r), Row.names x = lf ++ rf := by
  intro x hx
  simp only [List.mem_flatMap, List.mem_map, List.mem_filter] at hx
  obtain ⟨l, hl', r, ⟨hr', _⟩, rfl⟩ := hx
  rw [names_append, hl l hl', hr r hr']

/-! ### pushing a filter below a nested-loop join -/

theorem join_filter_inner (l : Row) (km : Row → Bool) (P kS kR : Row → Bool) (kl : Bool) (rs : List Row)
    (h : ∀ r ∈ rs, P (l ++ r) = (kl && kR r && kS (l ++ r))) :
    ((rs.filter km).map (fun r => l ++ r)).filter P =
      if kl then (((rs.filter kR).filter km).map (fun r => l ++ r)).filter kS else [] := by
  rw [List.filter_map, List.filter_filter]
  cases kl with
  | false =>
    simp only [Bool.false_eq_true, if_false, List.map_eq_nil_iff, List.filter_eq_nil_iff]
    intro r hr
    have := h r hr
    simp only [Bool.false_and] at this
    simp [this]
  | true =>
    simp only [if_true, List.filter_map, List.filter_filter]
    congr 1
    apply List.filter_congr
    intro r hr
    have := h r hr
    simp only [Bool.true_and] at this
    simp only [Function.comp, this]
    cases km r <;> cases kR r <;> cases kS (l ++ r) <;> rfl

theorem join_filter_push (km : Row → Row → Bool) (P kS kL kR : Row → Bool) (rs : List Row) : ∀ (ls : List Row),
    (∀ l ∈ ls, ∀ r ∈ rs, P (l ++ r) = (kL l && kR r && kS (l ++ r))) →
    (ls.flatMap fun l => (rs.filter (km l)).map fun r => l ++ r).filter P =
      ((ls.filter kL).flatMap fun l => ((rs.filter kR).filter (km l)).map fun r => l ++ r).filter kS
  | [], _ => by simp
  | l :: ls, h => by
    have ih := join_filter_push km P kS kL kR rs ls (fun x hx => h x (by simp [hx]))
    have hin := join_filter_inner l (km l) P kS kR (kL l) rs (h l (by simp))
    rw [List.flatMap_cons, List.filter_append, ih, hin, List.filter_cons]
    cases kL l
    · simp
    · simp only [if_true, List.flatMap_cons, List.filter_append]

/-- a conjunction over a list splits along any cover of the list by three classes -/
theorem all_cover {α : Type} (K a b c : α → Bool) : ∀ (l : List α), (∀ x ∈ l, a x || b x || c x) →
    l.all K = ((l.filter a).all K && (l.filter b).all K && (l.filter c).all K)
  | [], _ => by simp
  | x :: l, h => by
    have ih := all_cover K a b c l (fun y hy => h y (by simp [hy]))
    have hx := h x (by simp)
    simp only [List.all_cons, List.filter_cons, ih]
    cases ha : a x <;> cases hb : b x <;> cases hc : c x <;> cases hK : K x <;> simp_all

theorem all_filter_congr {α : Type} (K K' p : α → Bool) : ∀ (l : List α), (∀ x ∈ l, p x = true → K x = K' x) →
    (l.filter p).all K = (l.filter p).all K'
  | [], _ => by simp
  | x :: l, h => by
    have ih := all_filter_congr K K' p l (fun y hy => h y (by simp [hy]))
    rw [List.filter_cons]
    cases hp : p x
    · simpa using ih
    · simp only [if_true, List.all_cons, ih, h x (by simp) hp]

/-! ### PushDownFilterPredicatesIntoStreamJoinBranch -/

/-- the classification of one conjunct is what decides where it may be evaluated -/
theorem keep_left_of_not_uses {ctx : Ctx} {c : PExpr} {l r : Row} {rf : List String}
    (hr : Row.names r = rf) (hu : usesVariablesFromSchema rf (varsUsed c) = false) :
    keep ctx c (l ++ r) = keep ctx c l := by
  simp only [keep]
  rw [eval_append_left]
  intro x hx
  rw [hr]
  exact not_mem_of_not_uses hu x hx

theorem keep_right_of_not_uses {ctx : Ctx} {c : PExpr} {l r : Row} {lf : List String}
    (hl : Row.names l = lf) (hu : usesVariablesFromSchema lf (varsUsed c) = false) :
    keep ctx c (l ++ r) = keep ctx c r := by
  simp only [keep]
  rw [eval_append_right]
  intro x hx
  rw [hl]
  exact not_mem_of_not_uses hu x hx

theorem scope_drop_right {lf rf outer : List String} {c : PExpr}
    (hc : ExprOK ((lf ++ rf) ++ outer) c) (hu : usesVariablesFromSchema rf (varsUsed c) = false) :
    ExprOK (lf ++ outer) c := by
  refine ⟨?_, hc.safe⟩
  intro x hx
  have := hc.inScope x hx
  simp only [List.mem_append] at this ⊢
  rcases this with (h | h) | h
  · exact Or.inl h
  · exact absurd h (not_mem_of_not_uses hu x hx)
  · exact Or.inr h

theorem scope_drop_left {lf rf outer : List String} {c : PExpr}
    (hc : ExprOK ((lf ++ rf) ++ outer) c) (hu : usesVariablesFromSchema lf (varsUsed c) = false) :
    ExprOK (rf ++ outer) c := by
  refine ⟨?_, hc.safe⟩
  intro x hx
  have := hc.inScope x hx
  simp only [List.mem_append] at this ⊢
  rcases this with (h | h) | h
  · exact absurd h (not_mem_of_not_uses hu x hx)
  · exact Or.inl h
  · exact Or.inr h

theorem pushIntoStreamJoinBranch_local (db : Db) : LocalOK db pushIntoStreamJoinBranchLocal := by
  intro outer q q' c hg h
  unfold pushIntoStreamJoinBranchLocal at h
  split at h
  · rename_i s e s2 lk rk l r
    simp only at h
    split at h
    · simp only [Option.some.injEq, Prod.mk.injEq] at h
      obtain ⟨rfl, _⟩ := h
      exact StepOK.refl hg
    · simp only [Option.some.injEq, Prod.mk.injEq] at h
      obtain ⟨rfl, _⟩ := h
      simp only [Good, UnGood, BinGood, schema_bin] at hg
      obtain ⟨hnd, ⟨_, hgl, hgr, hs2, hlk, hrk, hlen⟩, hs, he⟩ := hg
      subst hs
      rw [hs2] at he
      -- the three classes of conjuncts
      let usesL := fun c => usesVariablesFromSchema l.fields (varsUsed c)
      let usesR := fun c => usesVariablesFromSchema r.fields (varsUsed c)
      let fp := splitByAnd e
      let pL := fp.filter fun c => !usesR c
      let pR := fp.filter fun c => !usesL c
      let st := fp.filter fun c => usesL c && usesR c
      have hfp : ∀ c ∈ fp, ExprOK ((l.fields ++ r.fields) ++ outer) c := fun c hc => exprOK_conjunct he hc
      have hpL : ∀ c ∈ pL, ExprOK (l.fields ++ outer) c := by
        intro c hc
        obtain ⟨hc1, hc2⟩ := List.mem_filter.mp hc
        exact scope_drop_right (hfp c hc1) (by simpa using hc2)
      have hpR : ∀ c ∈ pR, ExprOK (r.fields ++ outer) c := by
        intro c hc
        obtain ⟨hc1, hc2⟩ := List.mem_filter.mp hc
        exact scope_drop_left (hfp c hc1) (by simpa using hc2)
      obtain ⟨hl1, hl2, hl3⟩ := optFilter_ok (cs := pL) hgl hpL
      obtain ⟨hr1, hr2, hr3⟩ := optFilter_ok (cs := pR) hgr hpR
      have hlf : (optFilter pL l).fields = l.fields := by simp only [Plan.fields, hl2]
      have hrf : (optFilter pR r).fields = r.fields := by simp only [Plan.fields, hr2]
      have hgout : Good db (.bin s (.sjoin lk rk) (optFilter pL l) (optFilter pR r)) outer := by
        simp only [Good, BinGood, hlf, hrf]
        exact ⟨hnd, hl1, hr1, hs2, hlk, hrk, hlen⟩
      have hst : ∀ c ∈ st, ExprOK ((Plan.bin s (.sjoin lk rk) (optFilter pL l) (optFilter pR r)).fields ++ outer) c := by
        intro c hc
        simp only [fields_bin, hs2]
        exact hfp c (List.mem_filter.mp hc).1
      obtain ⟨ho1, ho2, ho3⟩ := optFilter_ok (cs := st) hgout hst
      show StepOK db outer _ (optFilter st (Plan.bin s (.sjoin lk rk) (optFilter pL l) (optFilter pR r)))
      refine ⟨ho1, ho2, ?_⟩
      intro ctx hb
      rw [ho3 ctx hb]
      simp only [denote, binRows, unRows, hl3 ctx hb, hr3 ctx hb, hlf, hrf]
      cases hdl : denote db l ctx with
      | none => rfl
      | some ls =>
        cases hdr : denote db r ctx with
        | none => rfl
        | some rs =>
          have hnl := denote_names hdl
          have hnr := denote_names hdr
          simp only [Option.map_some]
          rw [joinRows_good (names_of_filter hnl) (names_of_filter hnr) hb hlk hrk,
              joinRows_good hnl hnr hb hlk hrk]
          have hnJ := names_of_join (m := keyMatch ctx lk rk) hnl hnr
          have hnJ' := names_of_join (m := keyMatch ctx lk rk) (names_of_filter (p := fun r => pL.all fun c => keep ctx c r) hnl)
            (names_of_filter (p := fun r => pR.all fun c => keep ctx c r) hnr)
          rw [checked_pass (by rw [hs2]; exact hnJ'), checked_pass (by rw [hs2]; exact hnJ)]
          simp only [Option.map_some]
          rw [filterRows_good (fs := l.fields ++ r.fields) hnJ hb he,
              checked_pass (by rw [hs2]; exact names_of_filter hnJ)]
          congr 1
          symm
          apply join_filter_push (keyMatch ctx lk rk) (keep ctx e) (fun x => st.all fun c => keep ctx c x)
            (fun x => pL.all fun c => keep ctx c x) (fun x => pR.all fun c => keep ctx c x) rs ls
          intro lrow hlrow rrow hrrow
          rw [keep_split]
          rw [all_cover (fun c => keep ctx c (lrow ++ rrow)) (fun c => !usesR c) (fun c => !usesL c)
            (fun c => usesL c && usesR c) fp (by intro c _; cases usesL c <;> cases usesR c <;> rfl)]
          rw [all_filter_congr (fun c => keep ctx c (lrow ++ rrow)) (fun c => keep ctx c lrow) (fun c => !usesR c) fp
            (fun c _ hc => keep_left_of_not_uses (hnr rrow hrrow) (by simpa using hc))]
          rw [all_filter_congr (fun c => keep ctx c (lrow ++ rrow)) (fun c => keep ctx c rrow) (fun c => !usesL c) fp
            (fun c _ hc => keep_right_of_not_uses (hnl lrow hlrow) (by simpa using hc))]
  · simp only [Option.some.injEq, Prod.mk.injEq] at h
    obtain ⟨rfl, _⟩ := h
    exact StepOK.refl hg

theorem pushIntoStreamJoinBranch_ok (db : Db) : RuleOK db pushDownFilterPredicatesIntoStreamJoinBranch :=
  rule_of_local (pushIntoStreamJoinBranch_local db)

end Octo.Plan
