import Octo.Lemmas.JoinProgress
/-!
  The induction over the schedule for absence of panics.
-/
namespace Octo.Join
open Octo

variable {cfg : Cfg} {W : List Rec → List Rec → Row → Int}

/-- buffers hold timed records only; the untimed records are processed in arrival order -/
structure PInv (s : St) (RL RR PL PR : List Rec) : Prop where
  bufL : ∀ x ∈ bufAll s.bufL, untimed x = false
  bufR : ∀ x ∈ bufAll s.bufR, untimed x = false
  uL : PL.filter untimed = RL.filter untimed
  uR : PR.filter untimed = RR.filter untimed

def GoalP (cfg : Cfg) (W : List Rec → List Rec → Row → Int) (ls rs : List Rec) (σ : List Ev) : Prop :=
  ∀ (s : St) (ph : Phase) (el er : List Ev) (restL restR : List Msg) (RL RR PL PR : List Rec),
    Merge el er σ → PhaseEv ph el er restL restR →
    ls = RL ++ recs restL → rs = RR ++ recs restR →
    Inv cfg W s (dropOf ph) RL RR PL PR → PhaseD cfg ph → PInv s RL RR PL PR →
    ∃ out, runFrom cfg s ph σ = .ok out

theorem untimed_of_none {x : Rec} (h : x.et = none) : untimed x = true := by simp [untimed, h]
theorem untimed_of_some {x : Rec} {t : Int} (h : x.et = some t) : untimed x = false := by simp [untimed, h]

theorem mem_add_buf {t : Int} {r x : Rec} {b : Buf} (h : x ∈ bufAll (Buf.add t r b)) : x ∈ bufAll b ∨ x = r := by
  have := (bufAll_add t r b).mem_iff.mp h
  simpa using this

section steps
variable (ok : RecvOK cfg W) (hc : cfg.nullMatch = false) (hsw : cfg.switchOsr = false) (ls rs : List Rec)
  (hshL : ∀ x ∈ ls, Shape cfg true x) (hshR : ∀ x ∈ rs, Shape cfg false x)
  (hkL : ∀ x ∈ ls, KeysOK cfg true x) (hkR : ∀ x ∈ rs, KeysOK cfg false x)
  (htL : ∀ x ∈ ls, untimed x = false → x.retr = false) (htR : ∀ x ∈ rs, untimed x = false → x.retr = false)
  (hvL : ValidLog (ls.filter untimed)) (hvR : ValidLog (rs.filter untimed))
include ok hc hsw hshL hshR hkL hkR htL htR hvL hvR

omit ok hc hsw hshL hshR hvL hvR in
theorem bufSafe_of {s : St} {drop : Option Bool} {RL RR PL PR : List Rec} {restL restR : List Msg}
    (hls : ls = RL ++ recs restL) (hrs : rs = RR ++ recs restR)
    (hi : Inv cfg W s drop RL RR PL PR) (hp : PInv s RL RR PL PR) : BufSafe cfg s := by
  constructor
  · intro x hx
    have h1 : x ∈ ls := by rw [hls]; exact List.mem_append_left _ ((hi.permL.mem_iff).mp (by simp [hx]))
    exact ⟨htL x h1 (hp.bufL x hx), hkL x h1⟩
  · intro x hx
    have h1 : x ∈ rs := by rw [hrs]; exact List.mem_append_left _ ((hi.permR.mem_iff).mp (by simp [hx]))
    exact ⟨htR x h1 (hp.bufR x hx), hkR x h1⟩

omit ok hc hsw hshL hshR hkL hkR htR hvL hvR in
theorem plTimed {s : St} {drop : Option Bool} {RL RR PL PR : List Rec} {restL : List Msg}
    (hls : ls = RL ++ recs restL) (hi : Inv cfg W s drop RL RR PL PR) :
    ∀ p ∈ PL, untimed p = false → p.retr = false := by
  intro p hp hu
  exact htL p (by rw [hls]; exact List.mem_append_left _ ((hi.permL.mem_iff).mp (by simp [hp]))) hu

omit ok hc hsw hshL hshR hkL hkR htL hvL hvR in
theorem prTimed {s : St} {drop : Option Bool} {RL RR PL PR : List Rec} {restR : List Msg}
    (hrs : rs = RR ++ recs restR) (hi : Inv cfg W s drop RL RR PL PR) :
    ∀ p ∈ PR, untimed p = false → p.retr = false := by
  intro p hp hu
  exact htR p (by rw [hrs]; exact List.mem_append_left _ ((hi.permR.mem_iff).mp (by simp [hp]))) hu

theorem p_both_left {σ : List Ev} (IH : GoalP cfg W ls rs σ)
    {s : St} {el' er : List Ev} {restL restR : List Msg} {RL RR PL PR : List Rec} {e : Ev}
    (hm : Merge el' er σ) (hel : evsOf true restL = e :: el') (her : er = evsOf false restR)
    (hls : ls = RL ++ recs restL) (hrs : rs = RR ++ recs restR)
    (hi : Inv cfg W s none RL RR PL PR) (hp : PInv s RL RR PL PR) :
    ∃ out, runFrom cfg s .both (e :: σ) = .ok out := by
  have hRL : ∀ x ∈ RL, Shape cfg true x := fun x hx => hshL x (by rw [hls]; simp [hx])
  have hRR : ∀ x ∈ RR, Shape cfg false x := fun x hx => hshR x (by rw [hrs]; simp [hx])
  have hbs := bufSafe_of ls rs hkL hkR htL htR hls hrs hi hp
  cases restL with
  | nil =>
    rw [evsOf_nil] at hel
    have h1 := (List.cons.inj hel).1
    have h2 := (List.cons.inj hel).2
    subst h1; subst h2
    obtain ⟨p, hoc⟩ := onFirstClose_progress ok hc hsw true hi hRL hbs
    obtain ⟨s', osr⟩ := p
    obtain ⟨PL', PR', drop', hi', rl, rr, hosr, hdr, hdo, b1, b2, _⟩ := onFirstClose_step ok hsw hi hRL hRR hoc
    simp only [runFrom, hoc]
    exact IH s' (.one true osr) [] er [] restR RL RR PL' PR' hm ⟨rfl, rfl, her⟩ hls hrs
      (by rw [dropOf_one true osr hosr hdr]; exact hi') (phaseD_of hosr hdo)
      ⟨fun x hx => hp.bufL x (by rw [b1] at hx; exact mem_emit_snd hx),
       fun x hx => hp.bufR x (by rw [b2] at hx; exact mem_emit_snd hx),
       filter_untimed_released rl hp.bufL hp.uL, filter_untimed_released rr hp.bufR hp.uR⟩
  | cons m restL' =>
    rw [evsOf_cons] at hel
    have h1 := (List.cons.inj hel).1
    have h2 := (List.cons.inj hel).2
    subst h1; subst h2
    cases m with
    | data r =>
      have hrmem : r ∈ ls := by rw [hls]; simp [recs]
      obtain ⟨tl0, tr0, hl0, hr0, repl, repr⟩ := hi.core.trees
      have hsafe : r.et = none → ∀ tl, s.treeL = some tl → SafeStore cfg true tl r := by
        intro het tl htl
        rw [hl0] at htl
        have := Option.some.inj htl; subst this
        refine safe_of_valid repl (plTimed ls htL hls hi) hp.uL ?_
        apply validLog_prefix (V := (recs restL').filter untimed)
        have : ls.filter untimed = RL.filter untimed ++ r :: (recs restL').filter untimed := by
          rw [hls]; simp [recs, List.filter_append, List.filter_cons, untimed_of_none het]
        rw [← this]; exact hvL
      obtain ⟨s', hoc⟩ := onRec_left_progress hc (drop := none) (by simp) (by simp) hi (hkL r hrmem) hsafe
      obtain ⟨PL', hi', _, _, _, _, fbufR, fT, fU⟩ := onRec_left ok (drop := none) (by simp) (by simp) hi (hshL r hrmem) hoc
      have hoc' : onRec cfg s true r false = .ok s' := hoc
      simp only [runFrom, hoc']
      refine IH s' .both (evsOf true restL') er restL' restR (RL ++ [r]) RR PL' PR hm ⟨rfl, her⟩
        (by rw [hls]; simp [recs]) hrs hi' trivial ?_
      cases het : r.et with
      | none =>
        obtain ⟨e1, e2⟩ := fU het
        refine ⟨by rw [e1]; exact hp.bufL, by rw [fbufR]; exact hp.bufR, ?_, hp.uR⟩
        rw [e2, List.filter_append, List.filter_append, hp.uL]
      | some t =>
        obtain ⟨e1, e2⟩ := fT t het
        refine ⟨?_, by rw [fbufR]; exact hp.bufR, ?_, hp.uR⟩
        · intro x hx
          rw [e1] at hx
          rcases mem_add_buf hx with hx | hx
          · exact hp.bufL x hx
          · subst hx; exact untimed_of_some het
        · rw [e2, List.filter_append, hp.uL]
          simp [untimed_of_some het]
    | wm w =>
      obtain ⟨s', hoc⟩ := onWm_progress ok hc true w hi hRL hbs
      obtain ⟨PL', PR', hi', rl, rr, _, _, hcase⟩ := onWm_step ok hi hRL hRR hoc
      simp only [runFrom, hoc]
      refine IH s' .both (evsOf true restL') er restL' restR RL RR PL' PR' hm ⟨rfl, her⟩
        (by rw [hls]; simp [recs]) hrs hi' trivial ?_
      refine ⟨?_, ?_, filter_untimed_released rl hp.bufL hp.uL, filter_untimed_released rr hp.bufR hp.uR⟩
      · rcases hcase with ⟨_, c2, _, _, _⟩ | ⟨m, em, _, _, _, c2, _, _⟩
        · rw [c2]; exact hp.bufL
        · intro x hx; rw [c2] at hx; exact hp.bufL x (mem_emit_snd hx)
      · rcases hcase with ⟨_, _, c3, _, _⟩ | ⟨m, em, _, _, _, _, c3, _⟩
        · rw [c3]; exact hp.bufR
        · intro x hx; rw [c3] at hx; exact hp.bufR x (mem_emit_snd hx)

theorem p_both_right {σ : List Ev} (IH : GoalP cfg W ls rs σ)
    {s : St} {el er' : List Ev} {restL restR : List Msg} {RL RR PL PR : List Rec} {e : Ev}
    (hm : Merge el er' σ) (hel : el = evsOf true restL) (her : evsOf false restR = e :: er')
    (hls : ls = RL ++ recs restL) (hrs : rs = RR ++ recs restR)
    (hi : Inv cfg W s none RL RR PL PR) (hp : PInv s RL RR PL PR) :
    ∃ out, runFrom cfg s .both (e :: σ) = .ok out := by
  have hRL : ∀ x ∈ RL, Shape cfg true x := fun x hx => hshL x (by rw [hls]; simp [hx])
  have hRR : ∀ x ∈ RR, Shape cfg false x := fun x hx => hshR x (by rw [hrs]; simp [hx])
  have hbs := bufSafe_of ls rs hkL hkR htL htR hls hrs hi hp
  cases restR with
  | nil =>
    rw [evsOf_nil] at her
    have h1 := (List.cons.inj her).1
    have h2 := (List.cons.inj her).2
    subst h1; subst h2
    obtain ⟨p, hoc⟩ := onFirstClose_progress ok hc hsw false hi hRL hbs
    obtain ⟨s', osr⟩ := p
    obtain ⟨PL', PR', drop', hi', rl, rr, hosr, hdr, hdo, b1, b2, _⟩ := onFirstClose_step ok hsw hi hRL hRR hoc
    simp only [runFrom, hoc]
    exact IH s' (.one false osr) el [] restL [] RL RR PL' PR' hm ⟨rfl, rfl, hel⟩ hls hrs
      (by rw [dropOf_one false osr hosr hdr]; exact hi') (phaseD_of hosr hdo)
      ⟨fun x hx => hp.bufL x (by rw [b1] at hx; exact mem_emit_snd hx),
       fun x hx => hp.bufR x (by rw [b2] at hx; exact mem_emit_snd hx),
       filter_untimed_released rl hp.bufL hp.uL, filter_untimed_released rr hp.bufR hp.uR⟩
  | cons m restR' =>
    rw [evsOf_cons] at her
    have h1 := (List.cons.inj her).1
    have h2 := (List.cons.inj her).2
    subst h1; subst h2
    cases m with
    | data r =>
      have hrmem : r ∈ rs := by rw [hrs]; simp [recs]
      obtain ⟨tl0, tr0, hl0, hr0, repl, repr⟩ := hi.core.trees
      have hsafe : r.et = none → ∀ tr, s.treeR = some tr → SafeStore cfg false tr r := by
        intro het tr htr
        rw [hr0] at htr
        have := Option.some.inj htr; subst this
        refine safe_of_valid repr (prTimed rs htR hrs hi) hp.uR ?_
        apply validLog_prefix (V := (recs restR').filter untimed)
        have : rs.filter untimed = RR.filter untimed ++ r :: (recs restR').filter untimed := by
          rw [hrs]; simp [recs, List.filter_append, List.filter_cons, untimed_of_none het]
        rw [← this]; exact hvR
      obtain ⟨s', hoc⟩ := onRec_right_progress hc (drop := none) (by simp) (by simp) hi (hkR r hrmem) hsafe
      obtain ⟨PR', hi', _, _, _, _, fbufL, fT, fU⟩ := onRec_right ok (drop := none) (by simp) (by simp) hi (hshR r hrmem) hoc
      have hoc' : onRec cfg s false r false = .ok s' := hoc
      simp only [runFrom, hoc']
      refine IH s' .both el (evsOf false restR') restL restR' RL (RR ++ [r]) PL PR' hm ⟨hel, rfl⟩
        hls (by rw [hrs]; simp [recs]) hi' trivial ?_
      cases het : r.et with
      | none =>
        obtain ⟨e1, e2⟩ := fU het
        refine ⟨by rw [fbufL]; exact hp.bufL, by rw [e1]; exact hp.bufR, hp.uL, ?_⟩
        rw [e2, List.filter_append, List.filter_append, hp.uR]
      | some t =>
        obtain ⟨e1, e2⟩ := fT t het
        refine ⟨by rw [fbufL]; exact hp.bufL, ?_, hp.uL, ?_⟩
        · intro x hx
          rw [e1] at hx
          rcases mem_add_buf hx with hx | hx
          · exact hp.bufR x hx
          · subst hx; exact untimed_of_some het
        · rw [e2, List.filter_append, hp.uR]
          simp [untimed_of_some het]
    | wm w =>
      obtain ⟨s', hoc⟩ := onWm_progress ok hc false w hi hRL hbs
      obtain ⟨PL', PR', hi', rl, rr, _, _, hcase⟩ := onWm_step ok hi hRL hRR hoc
      simp only [runFrom, hoc]
      refine IH s' .both el (evsOf false restR') restL restR' RL RR PL' PR' hm ⟨hel, rfl⟩
        hls (by rw [hrs]; simp [recs]) hi' trivial ?_
      refine ⟨?_, ?_, filter_untimed_released rl hp.bufL hp.uL, filter_untimed_released rr hp.bufR hp.uR⟩
      · rcases hcase with ⟨_, c2, _, _, _⟩ | ⟨m, em, _, _, _, c2, _, _⟩
        · rw [c2]; exact hp.bufL
        · intro x hx; rw [c2] at hx; exact hp.bufL x (mem_emit_snd hx)
      · rcases hcase with ⟨_, _, c3, _, _⟩ | ⟨m, em, _, _, _, _, c3, _⟩
        · rw [c3]; exact hp.bufR
        · intro x hx; rw [c3] at hx; exact hp.bufR x (mem_emit_snd hx)

theorem p_one_right {σ : List Ev} (IH : GoalP cfg W ls rs σ)
    {s : St} {osr : Bool} {er' : List Ev} {restR : List Msg} {RL RR PL PR : List Rec} {e : Ev}
    (hm : Merge [] er' σ) (her : evsOf false restR = e :: er')
    (hls : ls = RL ++ recs []) (hrs : rs = RR ++ recs restR)
    (hi : Inv cfg W s (dropOf (.one true osr)) RL RR PL PR) (hD : PhaseD cfg (.one true osr))
    (hp : PInv s RL RR PL PR) :
    ∃ out, runFrom cfg s (.one true osr) (e :: σ) = .ok out := by
  have hRL : ∀ x ∈ RL, Shape cfg true x := fun x hx => hshL x (by rw [hls]; simp [hx])
  have hRR : ∀ x ∈ RR, Shape cfg false x := fun x hx => hshR x (by rw [hrs]; simp [hx])
  have hbs := bufSafe_of ls rs hkL hkR htL htR hls hrs hi hp
  have hd := phaseD_drop hD
  have hopen : dropOf (.one true osr) ≠ some true := by cases osr <;> simp [dropOf]
  cases restR with
  | nil =>
    rw [evsOf_nil] at her
    have h1 := (List.cons.inj her).1
    have h2 := (List.cons.inj her).2
    subst h1; subst h2
    have hσ : σ = [] := merge_nil_left hm
    subst hσ
    obtain ⟨s', hoc⟩ := onSecondClose_progress ok hc hd hi hRL hbs
    rw [dropOf_isSome true osr] at hoc
    simp only [runFrom, Bool.false_eq_true, beq_iff_eq, if_false, hoc]
    exact ⟨_, rfl⟩
  | cons m restR' =>
    rw [evsOf_cons] at her
    have h1 := (List.cons.inj her).1
    have h2 := (List.cons.inj her).2
    subst h1; subst h2
    cases m with
    | data r =>
      have hrmem : r ∈ rs := by rw [hrs]; simp [recs]
      have hsafe : r.et = none → ∀ tr, s.treeR = some tr → SafeStore cfg false tr r := by
        intro het tr htr
        cases osr with
        | true =>
          obtain ⟨hr0, _⟩ := hi.core.trees
          rw [hr0] at htr; cases htr
        | false =>
          obtain ⟨tl0, tr0, hl0, hr0, repl, repr⟩ := hi.core.trees
          rw [hr0] at htr
          have := Option.some.inj htr; subst this
          refine safe_of_valid repr (prTimed rs htR hrs hi) hp.uR ?_
          apply validLog_prefix (V := (recs restR').filter untimed)
          have : rs.filter untimed = RR.filter untimed ++ r :: (recs restR').filter untimed := by
            rw [hrs]; simp [recs, List.filter_append, List.filter_cons, untimed_of_none het]
          rw [← this]; exact hvR
      obtain ⟨s', hoc⟩ := onRec_right_progress hc hd hopen hi (hkR r hrmem) hsafe
      obtain ⟨PR', hi', _, _, _, _, fbufL, fT, fU⟩ := onRec_right ok hd hopen hi (hshR r hrmem) hoc
      rw [dropOf_isSome true osr] at hoc
      simp only [runFrom, Bool.false_eq_true, beq_iff_eq, if_false, hoc]
      refine IH s' (.one true osr) [] (evsOf false restR') [] restR' RL (RR ++ [r]) PL PR' hm ⟨rfl, rfl, rfl⟩
        hls (by rw [hrs]; simp [recs]) hi' hD ?_
      cases het : r.et with
      | none =>
        obtain ⟨e1, e2⟩ := fU het
        refine ⟨by rw [fbufL]; exact hp.bufL, by rw [e1]; exact hp.bufR, hp.uL, ?_⟩
        rw [e2, List.filter_append, List.filter_append, hp.uR]
      | some t =>
        obtain ⟨e1, e2⟩ := fT t het
        refine ⟨by rw [fbufL]; exact hp.bufL, ?_, hp.uL, ?_⟩
        · intro x hx
          rw [e1] at hx
          rcases mem_add_buf hx with hx | hx
          · exact hp.bufR x hx
          · subst hx; exact untimed_of_some het
        · rw [e2, List.filter_append, hp.uR]
          simp [untimed_of_some het]
    | wm w =>
      obtain ⟨p, hoc⟩ := onWmOne_progress ok hc true w hd hi hRL hbs
      obtain ⟨s', osr'⟩ := p
      obtain ⟨PL', PR', drop', hi', rl, rr, hosr, hdr, hdo, b1, b2, _⟩ :=
        onWmOne_step ok (dropOf_cases true osr) hd hi hRL hRR hoc
      rw [dropOf_isSome true osr] at hoc
      simp only [runFrom, Bool.false_eq_true, beq_iff_eq, if_false, hoc]
      exact IH s' (.one true osr') [] (evsOf false restR') [] restR' RL RR PL' PR' hm ⟨rfl, rfl, rfl⟩
        hls (by rw [hrs]; simp [recs]) (by rw [dropOf_one true osr' hosr hdr]; exact hi') (phaseD_of hosr hdo)
        ⟨fun x hx => hp.bufL x (by rw [b1] at hx; exact mem_emit_snd hx),
         fun x hx => hp.bufR x (by rw [b2] at hx; exact mem_emit_snd hx),
         filter_untimed_released rl hp.bufL hp.uL, filter_untimed_released rr hp.bufR hp.uR⟩

theorem p_one_left {σ : List Ev} (IH : GoalP cfg W ls rs σ)
    {s : St} {osr : Bool} {el' : List Ev} {restL : List Msg} {RL RR PL PR : List Rec} {e : Ev}
    (hm : Merge el' [] σ) (hel : evsOf true restL = e :: el')
    (hls : ls = RL ++ recs restL) (hrs : rs = RR ++ recs [])
    (hi : Inv cfg W s (dropOf (.one false osr)) RL RR PL PR) (hD : PhaseD cfg (.one false osr))
    (hp : PInv s RL RR PL PR) :
    ∃ out, runFrom cfg s (.one false osr) (e :: σ) = .ok out := by
  have hRL : ∀ x ∈ RL, Shape cfg true x := fun x hx => hshL x (by rw [hls]; simp [hx])
  have hRR : ∀ x ∈ RR, Shape cfg false x := fun x hx => hshR x (by rw [hrs]; simp [hx])
  have hbs := bufSafe_of ls rs hkL hkR htL htR hls hrs hi hp
  have hd := phaseD_drop hD
  have hopen : dropOf (.one false osr) ≠ some false := by cases osr <;> simp [dropOf]
  cases restL with
  | nil =>
    rw [evsOf_nil] at hel
    have h1 := (List.cons.inj hel).1
    have h2 := (List.cons.inj hel).2
    subst h1; subst h2
    have hσ : σ = [] := merge_nil_right hm
    subst hσ
    obtain ⟨s', hoc⟩ := onSecondClose_progress ok hc hd hi hRL hbs
    rw [dropOf_isSome false osr] at hoc
    simp only [runFrom, beq_iff_eq, if_false, hoc]
    exact ⟨_, rfl⟩
  | cons m restL' =>
    rw [evsOf_cons] at hel
    have h1 := (List.cons.inj hel).1
    have h2 := (List.cons.inj hel).2
    subst h1; subst h2
    cases m with
    | data r =>
      have hrmem : r ∈ ls := by rw [hls]; simp [recs]
      have hsafe : r.et = none → ∀ tl, s.treeL = some tl → SafeStore cfg true tl r := by
        intro het tl htl
        cases osr with
        | true =>
          obtain ⟨hl0, _⟩ := hi.core.trees
          rw [hl0] at htl; cases htl
        | false =>
          obtain ⟨tl0, tr0, hl0, hr0, repl, repr⟩ := hi.core.trees
          rw [hl0] at htl
          have := Option.some.inj htl; subst this
          refine safe_of_valid repl (plTimed ls htL hls hi) hp.uL ?_
          apply validLog_prefix (V := (recs restL').filter untimed)
          have : ls.filter untimed = RL.filter untimed ++ r :: (recs restL').filter untimed := by
            rw [hls]; simp [recs, List.filter_append, List.filter_cons, untimed_of_none het]
          rw [← this]; exact hvL
      obtain ⟨s', hoc⟩ := onRec_left_progress hc hd hopen hi (hkL r hrmem) hsafe
      obtain ⟨PL', hi', _, _, _, _, fbufR, fT, fU⟩ := onRec_left ok hd hopen hi (hshL r hrmem) hoc
      rw [dropOf_isSome false osr] at hoc
      simp only [runFrom, beq_iff_eq, if_false, hoc]
      refine IH s' (.one false osr) (evsOf true restL') [] restL' [] (RL ++ [r]) RR PL' PR hm ⟨rfl, rfl, rfl⟩
        (by rw [hls]; simp [recs]) hrs hi' hD ?_
      cases het : r.et with
      | none =>
        obtain ⟨e1, e2⟩ := fU het
        refine ⟨by rw [e1]; exact hp.bufL, by rw [fbufR]; exact hp.bufR, ?_, hp.uR⟩
        rw [e2, List.filter_append, List.filter_append, hp.uL]
      | some t =>
        obtain ⟨e1, e2⟩ := fT t het
        refine ⟨?_, by rw [fbufR]; exact hp.bufR, ?_, hp.uR⟩
        · intro x hx
          rw [e1] at hx
          rcases mem_add_buf hx with hx | hx
          · exact hp.bufL x hx
          · subst hx; exact untimed_of_some het
        · rw [e2, List.filter_append, hp.uL]
          simp [untimed_of_some het]
    | wm w =>
      obtain ⟨p, hoc⟩ := onWmOne_progress ok hc false w hd hi hRL hbs
      obtain ⟨s', osr'⟩ := p
      obtain ⟨PL', PR', drop', hi', rl, rr, hosr, hdr, hdo, b1, b2, _⟩ :=
        onWmOne_step ok (dropOf_cases false osr) hd hi hRL hRR hoc
      rw [dropOf_isSome false osr] at hoc
      simp only [runFrom, beq_iff_eq, if_false, hoc]
      exact IH s' (.one false osr') (evsOf true restL') [] restL' [] RL RR PL' PR' hm ⟨rfl, rfl, rfl⟩
        (by rw [hls]; simp [recs]) hrs (by rw [dropOf_one false osr' hosr hdr]; exact hi') (phaseD_of hosr hdo)
        ⟨fun x hx => hp.bufL x (by rw [b1] at hx; exact mem_emit_snd hx),
         fun x hx => hp.bufR x (by rw [b2] at hx; exact mem_emit_snd hx),
         filter_untimed_released rl hp.bufL hp.uL, filter_untimed_released rr hp.bufR hp.uR⟩

/-- the induction over the schedule -/
theorem goalP_all : ∀ σ : List Ev, GoalP cfg W ls rs σ
  | [] => by
    intro s ph el er restL restR RL RR PL PR hm hph _ _ _ _ _
    obtain ⟨h1, h2⟩ := merge_nil_inv hm
    cases ph with
    | both => exact absurd (hph.1 ▸ h1) (evsOf_ne_nil _ _)
    | one ld osr =>
      cases ld with
      | true => exact absurd (hph.2.2 ▸ h2) (evsOf_ne_nil _ _)
      | false => exact absurd (hph.2.2 ▸ h1) (evsOf_ne_nil _ _)
    | done => exact absurd hph id
  | e :: σ => by
    have IH := goalP_all σ
    intro s ph el er restL restR RL RR PL PR hm hph hls hrs hi hD hp
    cases ph with
    | both =>
      obtain ⟨hel, her⟩ := hph
      rcases merge_cons_inv hm with ⟨el', h1, hm'⟩ | ⟨er', h1, hm'⟩
      · exact p_both_left ok hc hsw ls rs hshL hshR hkL hkR htL htR hvL hvR IH hm' (hel ▸ h1) her hls hrs hi hp
      · exact p_both_right ok hc hsw ls rs hshL hshR hkL hkR htL htR hvL hvR IH hm' hel (her ▸ h1) hls hrs hi hp
    | one ld osr =>
      cases ld with
      | true =>
        obtain ⟨hel, hrl, her⟩ := hph
        subst hel; subst hrl
        rcases merge_cons_inv hm with ⟨el', h1, _⟩ | ⟨er', h1, hm'⟩
        · cases h1
        · exact p_one_right ok hc hsw ls rs hshL hshR hkL hkR htL htR hvL hvR IH hm' (her ▸ h1) hls hrs hi hD hp
      | false =>
        obtain ⟨her, hrr, hel⟩ := hph
        subst her; subst hrr
        rcases merge_cons_inv hm with ⟨el', h1, hm'⟩ | ⟨er', h1, _⟩
        · exact p_one_left ok hc hsw ls rs hshL hshR hkL hkR htL htR hvL hvR IH hm' (hel ▸ h1) hls hrs hi hD hp
        · cases h1
    | done => exact absurd hph id

end steps

/-- **no panic**: if every record has its key columns, records with an event time are insertions and
    the records without event time of each input are, in arrival order, a valid changelog, then under
    every schedule the node finishes without panicking. -/
theorem run_ok {cfg : Cfg} {W : List Rec → List Rec → Row → Int} (ok : RecvOK cfg W) (hc : cfg.nullMatch = false)
    (hsw : cfg.switchOsr = false) {ls rs : List Msg} {σ : List Ev}
    (hshL : ∀ x ∈ recs ls, Shape cfg true x) (hshR : ∀ x ∈ recs rs, Shape cfg false x)
    (hkL : ∀ x ∈ recs ls, KeysOK cfg true x) (hkR : ∀ x ∈ recs rs, KeysOK cfg false x)
    (htL : ∀ x ∈ recs ls, untimed x = false → x.retr = false) (htR : ∀ x ∈ recs rs, untimed x = false → x.retr = false)
    (hvL : ValidLog ((recs ls).filter untimed)) (hvR : ValidLog ((recs rs).filter untimed))
    (hI : Interleave ls rs σ) : ∃ out, run cfg σ = .ok out :=
  goalP_all ok hc hsw (recs ls) (recs rs) hshL hshR hkL hkR htL htR hvL hvR σ St.init .both
    (evsOf true ls) (evsOf false rs) ls rs [] [] [] [] hI ⟨rfl, rfl⟩ (by simp) (by simp)
    (inv_init ok) trivial ⟨by simp [St.init, bufAll], by simp [St.init, bufAll], rfl, rfl⟩

end Octo.Join
