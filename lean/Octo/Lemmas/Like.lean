import Octo.Model.Like
import Octo.Lemmas.Regex
import Octo.Lemmas.Utf8
/-!
  LIKE: the translation loop emits, token by token, a regexp text that `parseRegex` reads back as the
  regular expression whose language is exactly `tokMatch`.
-/
namespace Octo.Like
open Octo.Utf8 Octo.Rx

open Lean.Parser.Tactic in
/-- `simp` with the rune constants unfolded to literals -/
syntax "csimp" (" [" (simpStar <|> simpErase <|> simpLemma),* "]")? (location)? : tactic
macro_rules
  | `(tactic| csimp [$ls,*] $[$loc]?) => `(tactic| simp [cNL, cDollar, cPercent, cLParen, cRParen, cStar, cPlus, cDot, cQuest, cLBrack, cBackslash, cRBrack, cCaret, cUnderscore, cLBrace, cPipe, cRBrace, $ls,*] $[$loc]?)
  | `(tactic| csimp $[$loc]?) => `(tactic| simp [cNL, cDollar, cPercent, cLParen, cRParen, cStar, cPlus, cDot, cQuest, cLBrack, cBackslash, cRBrack, cCaret, cUnderscore, cLBrace, cPipe, cRBrace] $[$loc]?)

/-- the regexp text one pattern element is turned into -/
def emit : Tok → List Rune
  | .lit c => if c == cBackslash || needsEscaping c then [cBackslash, c] else [c]
  | .one => [cDot]
  | .many => [cDot, cStar]

/-- the regular expression of one pattern element -/
def pieceRe : Tok → Re
  | .lit c => .sym (.one c)
  | .one => .sym (.any true)
  | .many => Re.anyStar

def bodyRe : List Tok → Re
  | [] => .eps
  | t :: ts => .cat (pieceRe t) (bodyRe ts)

/-! ### the loop against the token reading -/

theorem likeTokens_plain (c : Rune) (rest : List Rune) (h : (c == cBackslash) = false) :
    likeTokens (c :: rest) =
      if c == cUnderscore then (likeTokens rest).map (.one :: ·)
      else if c == cPercent then (likeTokens rest).map (.many :: ·)
      else (likeTokens rest).map (.lit c :: ·) := by
  cases rest <;> simp [likeTokens, h]

theorem likeLoop_tokens : ∀ (n : Nat) (p : List Rune), p.length ≤ n → ∀ (sb : List Rune),
    (∀ toks, likeTokens p = some toks →
      likeLoop needsEscaping false sb p = .ok (false, sb ++ toks.flatMap emit)) ∧
    (likeTokens p = none →
      (∃ e, likeLoop needsEscaping false sb p = .error e) ∨ (∃ sb', likeLoop needsEscaping false sb p = .ok (true, sb'))) := by
  intro n
  induction n with
  | zero =>
    intro p hp sb
    have : p = [] := by cases p <;> simp_all
    subst this
    simp [likeTokens, likeLoop]
  | succ n ih =>
    intro p hp sb
    cases p with
    | nil => simp [likeTokens, likeLoop]
    | cons c rest =>
      by_cases hc : c = cBackslash
      · subst hc
        cases rest with
        | nil => simp [likeTokens, likeLoop]
        | cons d rest' =>
          have hl : rest'.length ≤ n := by simp at hp; omega
          by_cases hd : (d == cUnderscore || d == cPercent || d == cBackslash) = true
          · -- legal escape
            have hd' : (d != cUnderscore && d != cPercent && d != cBackslash) = false := by
              simp only [Bool.or_eq_true, beq_iff_eq] at hd
              rcases hd with (h | h) | h <;> simp [h]
            by_cases hb : d = cBackslash
            · subst hb
              have ih' := ih rest' hl (sb ++ [cBackslash, cBackslash])
              constructor
              · intro toks ht
                simp [likeTokens] at ht
                obtain ⟨ts, hts, rfl⟩ := ht
                simp [likeLoop, ih'.1 ts hts, emit]
              · intro hn
                simp [likeTokens] at hn
                simpa [likeLoop] using ih'.2 hn
            · have ih' := ih rest' hl (sb ++ [d])
              have hbe : (d == cBackslash) = false := by simpa using hb
              have hne : needsEscaping d = false := by
                simp only [Bool.or_eq_true, beq_iff_eq] at hd
                rcases hd with (h | h) | h
                · subst h; decide
                · subst h; decide
                · exact absurd h hb
              constructor
              · intro toks ht
                simp [likeTokens, hd] at ht
                obtain ⟨ts, hts, rfl⟩ := ht
                simp [likeLoop, hd', hbe, ih'.1 ts hts, emit, hne]
              · intro hn
                simp [likeTokens, hd] at hn
                simpa [likeLoop, hd', hbe] using ih'.2 hn
          · -- illegal escape
            have hd' : (d != cUnderscore && d != cPercent && d != cBackslash) = true := by
              simp only [Bool.or_eq_true, beq_iff_eq, not_or] at hd
              simp [hd.1.1, hd.1.2, hd.2]
            constructor
            · intro toks ht
              simp [likeTokens, hd] at ht
            · intro _
              left
              simp [likeLoop, hd']
      · have hl : rest.length ≤ n := by simp at hp; omega
        have hcb : (c == cBackslash) = false := by simpa using hc
        rw [likeTokens_plain c rest hcb]
        by_cases hu : c = cUnderscore
        · subst hu
          have ih' := ih rest hl (sb ++ [cDot])
          constructor
          · intro toks ht
            csimp at ht
            obtain ⟨ts, hts, rfl⟩ := ht
            csimp [likeLoop, ih'.1 ts hts, emit]
          · intro hn
            csimp at hn
            have := ih'.2 hn
            csimp [likeLoop]
            exact this
        · have hcu : (c == cUnderscore) = false := by simpa using hu
          by_cases hp' : c = cPercent
          · subst hp'
            have ih' := ih rest hl (sb ++ [cDot, cStar])
            constructor
            · intro toks ht
              csimp at ht
              obtain ⟨ts, hts, rfl⟩ := ht
              csimp [likeLoop, ih'.1 ts hts, emit]
            · intro hn
              csimp at hn
              have := ih'.2 hn
              csimp [likeLoop]
              exact this
          · have hcp : (c == cPercent) = false := by simpa using hp'
            cases hne : needsEscaping c with
            | true =>
              have ih' := ih rest hl (sb ++ [cBackslash, c])
              constructor
              · intro toks ht
                simp [hcu, hcp] at ht
                obtain ⟨ts, hts, rfl⟩ := ht
                simp [likeLoop, hcb, hcu, hcp, hne, ih'.1 ts hts, emit]
              · intro hn
                simp [hcu, hcp] at hn
                simpa [likeLoop, hcb, hcu, hcp, hne] using ih'.2 hn
            | false =>
              have ih' := ih rest hl (sb ++ [c])
              constructor
              · intro toks ht
                simp [hcu, hcp] at ht
                obtain ⟨ts, hts, rfl⟩ := ht
                simp [likeLoop, hcb, hcu, hcp, hne, ih'.1 ts hts, emit]
              · intro hn
                simp [hcu, hcp] at hn
                simpa [likeLoop, hcb, hcu, hcp, hne] using ih'.2 hn

/-- well-formed pattern: the regexp text is `(?s)^`, the elements' texts, `$` -/
theorem likeRegex_of_tokens {p : List Rune} {toks : List Tok} (h : likeTokens p = some toks) :
    likeRegex p = .ok (prefixFixed ++ toks.flatMap emit ++ [cDollar]) := by
  have := (likeLoop_tokens p.length p (Nat.le_refl _) prefixFixed).1 toks h
  simp [likeRegex, likeRegexWith, this]

/-- malformed pattern: an error -/
theorem likeRegex_of_malformed {p : List Rune} (h : likeTokens p = none) : ∃ e, likeRegex p = .error e := by
  rcases (likeLoop_tokens p.length p (Nat.le_refl _) prefixFixed).2 h with ⟨e, he⟩ | ⟨sb', he⟩
  · exact ⟨e, by simp [likeRegex, likeRegexWith, he]⟩
  · exact ⟨.trailingEscape, by simp [likeRegex, likeRegexWith, he]⟩

/-! ### reading the emitted text back -/

def flagsS : Flags := ⟨true, false⟩
@[simp] theorem flagsS_dotAll : flagsS.dotAll = true := rfl
@[simp] theorem flagsS_foldCase : flagsS.foldCase = false := rfl

/-- facts about a rune that the translation escapes -/
theorem escaped_facts {c : Rune} (h : (c == cBackslash || needsEscaping c) = true) : isPunct c = true := by
  csimp [needsEscaping, isPunct] at *
  omega

/-- facts about a rune that the translation writes as it is -/
theorem plain_facts {c : Rune} (h : (c == cBackslash || needsEscaping c) = false) :
    isMeta c = false ∧ (c == cPipe) = false ∧ (c == cDollar) = false ∧ (c == cDot) = false ∧
      (c == cBackslash) = false ∧ isRep c = false := by
  csimp [needsEscaping, isMeta, isRep] at *
  simp_all

/-- the emitted text (followed by `$`) never starts with a repetition operator -/
theorem emitted_head (ts : List Tok) :
    ∃ h t, ts.flatMap emit ++ [cDollar] = h :: t ∧ isRep h = false := by
  cases ts with
  | nil => exact ⟨cDollar, [], rfl, by decide⟩
  | cons t ts =>
    cases t with
    | one => exact ⟨cDot, _, rfl, by decide⟩
    | many => exact ⟨cDot, _, rfl, by decide⟩
    | lit c =>
      by_cases hc : (c == cBackslash || needsEscaping c) = true
      · exact ⟨cBackslash, c :: (ts.flatMap emit ++ [cDollar]), by simp [emit, hc], by decide⟩
      · have hc' : (c == cBackslash || needsEscaping c) = false := by simpa using hc
        exact ⟨c, ts.flatMap emit ++ [cDollar], by simp [emit, hc'], (plain_facts hc').2.2.2.2.2⟩

theorem afterAtom_emitted (a : Re) (ts : List Tok) :
    afterAtom a (ts.flatMap emit ++ [cDollar]) = some (a, ts.flatMap emit ++ [cDollar]) := by
  obtain ⟨h, t, e, hr⟩ := emitted_head ts
  rw [e]; simp only [afterAtom, hr]; rfl

theorem afterAtom_star_emitted (a : Re) (ts : List Tok) :
    afterAtom a (cStar :: (ts.flatMap emit ++ [cDollar])) = some (.star a, ts.flatMap emit ++ [cDollar]) := by
  obtain ⟨h, t, e, hr⟩ := emitted_head ts
  rw [e]
  have h1 : isRep cStar = true := by decide
  simp only [afterAtom, h1, hr, if_true]
  rfl

theorem parsePieces_emitted : ∀ (ts : List Tok) (fuel : Nat),
    (ts.flatMap emit ++ [cDollar]).length < fuel →
    parsePieces flagsS fuel (ts.flatMap emit ++ [cDollar]) = some (bodyRe ts, true, none) := by
  intro ts
  induction ts with
  | nil =>
    intro fuel hf
    cases fuel with
    | zero => simp at hf
    | succ fuel => csimp [parsePieces, bodyRe]
  | cons t ts ih =>
    intro fuel hf
    cases fuel with
    | zero => simp at hf
    | succ fuel =>
      cases t with
      | one =>
        have hf' : (ts.flatMap emit ++ [cDollar]).length < fuel := by
          simp [emit] at hf ⊢; omega
        have := ih fuel hf'
        simp only [List.flatMap_cons, emit, List.cons_append, List.nil_append]
        csimp [parsePieces, afterAtom_emitted, bodyRe, pieceRe]
        csimp at this
        rw [this]
      | many =>
        have hf' : (ts.flatMap emit ++ [cDollar]).length < fuel := by
          simp [emit] at hf ⊢; omega
        have := ih fuel hf'
        have ha := afterAtom_star_emitted (.sym (.any true)) ts
        simp only [List.flatMap_cons, emit, List.cons_append, List.nil_append]
        csimp at this ha
        csimp [parsePieces, ha, this, bodyRe, pieceRe, Re.anyStar]
      | lit c =>
        by_cases hc : (c == cBackslash || needsEscaping c) = true
        · have hp := escaped_facts hc
          have hf' : (ts.flatMap emit ++ [cDollar]).length < fuel := by
            simp [emit, hc] at hf ⊢; omega
          have := ih fuel hf'
          have ha := afterAtom_emitted (.sym (.one c)) ts
          simp only [List.flatMap_cons, emit, hc, if_true, List.cons_append, List.nil_append]
          csimp at this ha
          csimp [parsePieces, escCls, hp, ha, this, bodyRe, pieceRe]
        · have hc' : (c == cBackslash || needsEscaping c) = false := by simpa using hc
          obtain ⟨hm, h1, h2, h3, h4, _⟩ := plain_facts hc'
          have hf' : (ts.flatMap emit ++ [cDollar]).length < fuel := by
            simp [emit, hc'] at hf ⊢; omega
          have := ih fuel hf'
          have ha := afterAtom_emitted (.sym (.one c)) ts
          simp only [List.flatMap_cons, emit, hc']
          csimp at this ha h1 h2 h3 h4
          csimp [parsePieces, h1, h2, h3, h4, hm, litCls, ha, this, bodyRe, pieceRe]

/-- the text built for a well-formed pattern is read as the single alternative `^ body $` -/
theorem parseRegex_emitted (ts : List Tok) :
    parseRegex (prefixFixed ++ ts.flatMap emit ++ [cDollar]) = some [⟨true, bodyRe ts, true⟩] := by
  have h := parsePieces_emitted ts ((ts.flatMap emit ++ [cDollar]).length + 1) (Nat.lt_succ_self _)
  simp only [parseRegex, prefixFixed, List.cons_append, List.nil_append, parseFlags]
  simp only [parseAlts]
  simp [flagsS] at h
  simp [h]

/-! ### the regular expression against the direct matcher -/

theorem anySuffix_iff (f : List Rune → Bool) (s : List Rune) :
    anySuffix f s = true ↔ ∃ s1 s2, s = s1 ++ s2 ∧ f s2 = true := by
  induction s with
  | nil =>
    simp only [anySuffix]
    constructor
    · intro h; exact ⟨[], [], rfl, h⟩
    · intro ⟨s1, s2, hs, hf⟩
      obtain ⟨_, h2⟩ := List.append_eq_nil_iff.1 hs.symm
      subst h2; exact hf
  | cons c s ih =>
    simp only [anySuffix, Bool.or_eq_true, ih]
    constructor
    · intro h
      cases h with
      | inl h => exact ⟨[], c :: s, rfl, h⟩
      | inr h =>
        obtain ⟨s1, s2, hs, hf⟩ := h
        exact ⟨c :: s1, s2, by simp [hs], hf⟩
    · intro ⟨s1, s2, hs, hf⟩
      cases s1 with
      | nil => simp at hs; subst hs; exact .inl hf
      | cons d s1' =>
        simp at hs
        exact .inr ⟨s1', s2, hs.2, hf⟩

theorem accepts_bodyRe (ts : List Tok) : ∀ s, Re.accepts (bodyRe ts) s = tokMatch ts s := by
  induction ts with
  | nil => intro s; simp [bodyRe, tokMatch, Re.accepts_eps]
  | cons t ts ih =>
    intro s
    cases t with
    | lit c =>
      simp only [bodyRe, pieceRe, Re.accepts_cat_sym, tokMatch]
      cases s with
      | nil => rfl
      | cons d s' => simp [Cls.test, ih]
    | one =>
      simp only [bodyRe, pieceRe, Re.accepts_cat_sym, tokMatch]
      cases s with
      | nil => rfl
      | cons d s' => simp [Cls.test, ih]
    | many =>
      simp only [bodyRe, pieceRe, tokMatch]
      rw [Bool.eq_iff_iff, Re.accepts_iff, Re.lang_cat_anyStar, anySuffix_iff]
      constructor
      · intro ⟨s1, s2, hs, h⟩
        exact ⟨s1, s2, hs, by rw [← ih]; exact (Re.accepts_iff _ _).2 h⟩
      · intro ⟨s1, s2, hs, h⟩
        exact ⟨s1, s2, hs, (Re.accepts_iff _ _).1 (by rw [ih]; exact h)⟩

/-- `MatchString` of `^ body $` is whole-string acceptance by `body` -/
theorem search_anchored (body : Re) (s : List Rune) :
    Pat.search [⟨true, body, true⟩] s = Re.accepts body s := by
  simp [Pat.search, Branch.search, Re.accepts_cat_eps_left, Re.accepts_cat_eps_right]

/-! ### what the direct matcher means -/

/-- declarative reading of a LIKE pattern: the string splits into one piece per pattern element -/
inductive Matches : List Tok → List Rune → Prop
  | nil : Matches [] []
  | lit {c : Rune} {p : List Tok} {s : List Rune} : Matches p s → Matches (.lit c :: p) (c :: s)
  | one {d : Rune} {p : List Tok} {s : List Rune} : Matches p s → Matches (.one :: p) (d :: s)
  | many {p : List Tok} {s1 s2 : List Rune} : Matches p s2 → Matches (.many :: p) (s1 ++ s2)

theorem tokMatch_iff (p : List Tok) : ∀ s, tokMatch p s = true ↔ Matches p s := by
  induction p with
  | nil =>
    intro s
    cases s with
    | nil => simp [tokMatch]; exact .nil
    | cons c s => simp [tokMatch]; intro h; cases h
  | cons t p ih =>
    intro s
    cases t with
    | lit c =>
      cases s with
      | nil => simp [tokMatch]; intro h; cases h
      | cons d s =>
        simp only [tokMatch, Bool.and_eq_true, beq_iff_eq, ih]
        constructor
        · intro ⟨h1, h2⟩; subst h1; exact .lit h2
        · intro h; cases h with
          | lit h => exact ⟨rfl, h⟩
    | one =>
      cases s with
      | nil => simp [tokMatch]; intro h; cases h
      | cons d s =>
        simp only [tokMatch, ih]
        constructor
        · intro h; exact .one h
        · intro h; cases h with
          | one h => exact h
    | many =>
      simp only [tokMatch, anySuffix_iff]
      constructor
      · intro ⟨s1, s2, hs, h⟩; subst hs; exact .many ((ih s2).1 h)
      · intro h
        generalize hp : Tok.many :: p = q at h
        cases h with
        | nil => cases hp
        | lit _ => cases hp
        | one _ => cases hp
        | @many p' s1 s2 h => cases hp; exact ⟨s1, s2, rfl, (ih s2).2 h⟩

/-! ### corollaries of the specification -/

def lits (cs : List Nat) : List Tok := cs.map Tok.lit

theorem tokMatch_lits (cs s : List Nat) : tokMatch (lits cs) s = (cs == s) := by
  induction cs generalizing s with
  | nil => cases s <;> simp [lits, tokMatch]
  | cons c cs ih =>
    cases s with
    | nil => simp [lits, tokMatch]
    | cons d s =>
      have := ih s
      simp only [lits] at this
      simp [lits, tokMatch, this]

theorem tokMatch_many_all (s : List Nat) : tokMatch [.many] s = true := by
  rw [tokMatch_iff]
  have := Matches.many (p := []) (s1 := s) (s2 := []) .nil
  simpa using this

theorem tokMatch_prefix (cs s : List Nat) : tokMatch (lits cs ++ [.many]) s = cs.isPrefixOf s := by
  induction cs generalizing s with
  | nil => simp [lits, tokMatch_many_all]
  | cons c cs ih =>
    cases s with
    | nil => simp [lits, tokMatch]
    | cons d s =>
      have := ih s
      simp only [lits] at this
      simp [lits, tokMatch, this, List.isPrefixOf]

/-- a pattern without `%`, `_`, `\` is read as literals -/
theorem likeTokens_plain_all (p : List Nat) (h : ∀ c ∈ p, c ≠ cBackslash ∧ c ≠ cUnderscore ∧ c ≠ cPercent) :
    likeTokens p = some (lits p) := by
  induction p with
  | nil => rfl
  | cons c rest ih =>
    obtain ⟨h1, h2, h3⟩ := h c (by simp)
    rw [likeTokens_plain c rest (by simpa using h1)]
    rw [ih (fun x hx => h x (by simp [hx]))]
    simp [h2, h3, lits]

/-- `MatchString` of an unanchored alternative: some substring is in the language -/
theorem search_unanchored_iff (body : Re) (s : List Nat) :
    Pat.search [⟨false, body, false⟩] s = true ↔ ∃ s1 m s2, s = s1 ++ m ++ s2 ∧ Re.Lang body m := by
  simp only [Pat.search, List.any_cons, List.any_nil, Bool.or_false, Branch.search]
  rw [Re.accepts_iff]
  constructor
  · intro h
    obtain ⟨s1, t, hs, _, h2⟩ := Re.cat_inv h
    obtain ⟨m, s2, ht, hm, _⟩ := Re.cat_inv h2
    exact ⟨s1, m, s2, by rw [hs, ht, List.append_assoc], hm⟩
  · intro ⟨s1, m, s2, hs, hm⟩
    rw [hs, List.append_assoc]
    exact Re.Lang.cat (Re.lang_anyStar s1) (Re.Lang.cat hm (Re.lang_anyStar s2))


/-! ### the text is valid UTF-8, so `regexp.Compile` sees exactly the runes written -/

theorem likeTokens_lits : ∀ (n : Nat) (p : List Rune), p.length ≤ n → ∀ toks, likeTokens p = some toks →
    ∀ c, Tok.lit c ∈ toks → c ∈ p := by
  intro n
  induction n with
  | zero =>
    intro p hp toks ht c hc
    have : p = [] := by cases p <;> simp_all
    subst this
    simp [likeTokens] at ht; subst ht; simp at hc
  | succ n ih =>
    intro p hp toks ht c hc
    cases p with
    | nil => simp [likeTokens] at ht; subst ht; simp at hc
    | cons a rest =>
      by_cases ha : (a == cBackslash) = true
      · cases rest with
        | nil => simp [likeTokens, ha] at ht
        | cons d rest' =>
          simp only [likeTokens, ha, if_true] at ht
          split at ht
          · cases hr : likeTokens rest' with
            | none => simp [hr] at ht
            | some ts =>
              simp [hr] at ht; subst ht
              simp only [List.mem_cons] at hc
              cases hc with
              | inl h => cases h; simp
              | inr h =>
                have := ih rest' (by simp at hp; omega) ts hr c h
                simp [this]
          · cases ht
      · have ha' : (a == cBackslash) = false := by simpa using ha
        rw [likeTokens_plain a rest ha'] at ht
        cases hr : likeTokens rest with
        | none => simp [hr] at ht
        | some ts =>
          have hrec : ∀ c, Tok.lit c ∈ ts → c ∈ rest := ih rest (by simp at hp; omega) ts hr
          simp only [hr, Option.map_some] at ht
          split at ht
          · cases ht; simp only [List.mem_cons] at hc
            cases hc with
            | inl h => cases h
            | inr h => simp [hrec c h]
          · split at ht
            · cases ht; simp only [List.mem_cons] at hc
              cases hc with
              | inl h => cases h
              | inr h => simp [hrec c h]
            · cases ht; simp only [List.mem_cons] at hc
              cases hc with
              | inl h => cases h; simp
              | inr h => simp [hrec c h]

theorem emitted_valid (toks : List Tok) (h : ∀ c, Tok.lit c ∈ toks → validRune c = true) :
    ∀ r ∈ prefixFixed ++ toks.flatMap emit ++ [cDollar], validRune r = true := by
  intro r hr
  simp only [List.mem_append, List.mem_flatMap, List.mem_singleton] at hr
  rcases hr with (hr | ⟨t, ht, hr⟩) | hr
  · simp [prefixFixed] at hr
    rcases hr with h | h | h | h | h <;> (subst h; decide)
  · cases t with
    | one => simp [emit] at hr; subst hr; decide
    | many => simp [emit] at hr; rcases hr with h | h <;> (subst h; decide)
    | lit c =>
      have hv := h c ht
      simp only [emit] at hr
      split at hr
      · simp at hr; rcases hr with h | h
        · subst h; decide
        · subst h; exact hv
      · simp at hr; subst hr; exact hv
  · subst hr; decide

/-- **LIKE, end to end on Go strings**, with the regexp engine replaced by the mini semantics -/
theorem like_eq_spec (s p : Bytes) :
    like s p = match likeSpec s p with
      | none => .err
      | some b => .ok b := by
  unfold like likeWith likeRegexText likeSpec likeSpecRunes
  cases ht : likeTokens (decodeAll p) with
  | none =>
    obtain ⟨e, he⟩ := likeRegex_of_malformed ht
    simp [he, Except.map]
  | some toks =>
    have hrx := likeRegex_of_tokens ht
    have hvalid : ∀ r ∈ prefixFixed ++ toks.flatMap emit ++ [cDollar], validRune r = true :=
      emitted_valid toks (fun c hc =>
        decodeAll_valid p c (likeTokens_lits _ _ (Nat.le_refl _) toks ht c hc))
    have hdec := decodeAll_encodeAll _ hvalid
    simp only [hrx, Except.map, Option.map_some]
    simp only [miniEngine, validUtf8, hdec, beq_self_eq_true, Bool.not_true, Bool.false_eq_true, if_false,
      parseRegex_emitted, search_anchored, accepts_bodyRe]

end Octo.Like
