import Octo.Lemmas.JsonPipeFrame
/-! Every action changes at most one pipe, and changes it by one of the `PipeStep`s. Invariants that speak about a
single pipe are proved against `PipeStep` (see `local_invariant`). -/
namespace Octo.JsonPipe

/-- what one action can do to pipe number `p` -/
inductive PipeStep (p : Nat) (P : Pipe) : Pipe → Prop
  | rTok (h1 : P.rpc = .sel) (h2 : P.tokens < tokCap) : PipeStep p P { P with rpc := .hold, tokens := P.tokens + 1 }
  | rStop (h1 : P.rpc = .sel) (h2 : P.cancelled = true) : PipeStep p P { P with rpc := .exit }
  | rSub (h1 : P.rpc = .hold) :
      PipeStep p P { P with rpc := .write, sub := P.sub ++ [⟨p, P.nextLine, P.cur⟩] }
  | rWrite (h1 : P.rpc = .write) :
      PipeStep p P { P with linesRead := P.linesRead + P.cur, nextLine := P.nextLine + P.cur, unread := P.unread - P.cur,
                            rpc := if P.unread - P.cur = 0 then .fin else .sel }
  | rDone (h1 : P.rpc = .fin) : PipeStep p P { P with rpc := .exit, done := some P.scanErr }
  | wSend (j : Job) (h1 : P.out.length < outCap) : PipeStep p P { P with out := P.out ++ [j] }
  | cRecv (k : Nat) (j : Job) (rest : List Job) (h1 : P.cpc = .sel) (h2 : takeAt P.out k = some (j, rest)) :
      PipeStep p P { P with out := rest, cpc := .tok j }
  | cTok (j : Job) (h1 : P.cpc = .tok j) (h2 : 0 < P.tokens) : PipeStep p P { P with tokens := P.tokens - 1, cpc := .proc j }
  | cProc (j : Job) (h1 : P.cpc = .proc j) : PipeStep p P (procBatch P j)
  | cDoneErr (h1 : P.cpc = .sel) (h2 : P.doneNil = false) (h3 : P.done = some true) :
      PipeStep p P { P with done := none, doneNil := true, cpc := .ret, ret := .scanErr }
  | cDoneOk (h1 : P.cpc = .sel) (h2 : P.doneNil = false) (h3 : P.done = some false) :
      PipeStep p P (if P.startIndex = P.linesRead
        then { P with done := none, doneNil := true, readerDone := true, cpc := .ret, ret := .ok }
        else { P with done := none, doneNil := true, readerDone := true })
  | cCtx (h1 : P.cpc = .sel) (h2 : P.parentCancelled = true) : PipeStep p P { P with cpc := .ret, ret := .ctx }
  | cCancel (h1 : P.cpc = .ret) : PipeStep p P { P with cpc := .exit, localCancelled := true }
  | pCancel (h1 : P.parentCancelled = false) : PipeStep p P { P with parentCancelled := true }
  | rTrunc (u : Nat) (h1 : P.localCancelled = true) (h2 : u < P.unread)
      (h3 : P.rpc = .sel ∨ ((P.rpc = .hold ∨ P.rpc = .write) ∧ P.cur ≤ u)) :
      PipeStep p P { P with unread := u, scanErr := true, rpc := if P.rpc = .sel ∧ u = 0 then .fin else P.rpc }

theorem step_np {s s' : State} {a : Action} (hs : step s a = some s') : s'.np = s.np ∧ s'.nw = s.nw := by
  cases a <;> simp only [step] at hs <;> (repeat' split at hs) <;>
    first
    | contradiction
    | (injection hs with hs; subst hs; exact ⟨rfl, rfl⟩)

/-- an action leaves every pipe alone except possibly one, which makes a `PipeStep` -/
theorem step_pipe {s s' : State} {a : Action} (hs : step s a = some s') (q : Nat) :
    s'.pipe q = s.pipe q ∨ PipeStep q (s.pipe q) (s'.pipe q) := by
  cases a with
  | rTok p =>
    simp only [step] at hs
    split at hs
    · rename_i hg; injection hs with hs; subst hs
      by_cases hqp : q = p
      · subst hqp; right; rw [setPipe_pipe_same]; exact .rTok hg.2.1 hg.2.2
      · left; exact setPipe_pipe_ne s _ hqp
    · contradiction
  | rStop p =>
    simp only [step] at hs
    split at hs
    · rename_i hg; injection hs with hs; subst hs
      by_cases hqp : q = p
      · subst hqp; right; rw [setPipe_pipe_same]; exact .rStop hg.2.1 hg.2.2
      · left; exact setPipe_pipe_ne s _ hqp
    · contradiction
  | rSub p =>
    simp only [step] at hs
    split at hs
    · rename_i hg; injection hs with hs; subst hs
      by_cases hqp : q = p
      · subst hqp; right; simpa using PipeStep.rSub (p := q) hg.2.1
      · left; exact setPipe_pipe_ne s _ hqp
    · contradiction
  | rWrite p =>
    simp only [step] at hs
    split at hs
    · rename_i hg; injection hs with hs; subst hs
      by_cases hqp : q = p
      · subst hqp; right; rw [setPipe_pipe_same]; exact .rWrite hg.2
      · left; exact setPipe_pipe_ne s _ hqp
    · contradiction
  | rDone p =>
    simp only [step] at hs
    split at hs
    · rename_i hg; injection hs with hs; subst hs
      by_cases hqp : q = p
      · subst hqp; right; rw [setPipe_pipe_same]; exact .rDone hg.2
      · left; exact setPipe_pipe_ne s _ hqp
    · contradiction
  | wTake w k =>
    simp only [step] at hs
    split at hs
    · split at hs
      · injection hs with hs; subst hs; left; rfl
      · contradiction
    · contradiction
  | wSend w =>
    simp only [step] at hs
    split at hs
    · rename_i j hj
      split at hs
      · rename_i hg; injection hs with hs; subst hs
        by_cases hqp : q = j.pipe
        · subst hqp; right; rw [setPipe_pipe_same]; exact .wSend j hg.2
        · left; rw [setPipe_pipe_ne _ _ hqp]; rfl
      · contradiction
    · contradiction
  | wDrop w =>
    simp only [step] at hs
    split at hs
    · split at hs
      · injection hs with hs; subst hs; left; rfl
      · contradiction
    · contradiction
  | cRecv p k =>
    simp only [step] at hs
    split at hs
    · rename_i hg
      split at hs
      · rename_i j rest hta; injection hs with hs; subst hs
        by_cases hqp : q = p
        · subst hqp; right; rw [setPipe_pipe_same]; exact .cRecv k j rest hg.2 hta
        · left; exact setPipe_pipe_ne s _ hqp
      · contradiction
    · contradiction
  | cTok p =>
    simp only [step] at hs
    split at hs
    · rename_i j hj
      split at hs
      · rename_i hg; injection hs with hs; subst hs
        by_cases hqp : q = p
        · subst hqp; right; rw [setPipe_pipe_same]; exact .cTok j hj hg.2
        · left; exact setPipe_pipe_ne s _ hqp
      · contradiction
    · contradiction
  | cProc p =>
    simp only [step] at hs
    split at hs
    · rename_i j hj
      split at hs
      · rename_i hg; injection hs with hs; subst hs
        by_cases hqp : q = p
        · subst hqp; right; rw [setPipe_pipe_same]; exact .cProc j hj
        · left; exact setPipe_pipe_ne s _ hqp
      · contradiction
    · contradiction
  | cDone p =>
    simp only [step] at hs
    split at hs
    · rename_i hg
      split at hs
      · rename_i hd; injection hs with hs; subst hs
        by_cases hqp : q = p
        · subst hqp; right; rw [setPipe_pipe_same]; exact .cDoneErr hg.2.1 hg.2.2 hd
        · left; exact setPipe_pipe_ne s _ hqp
      · rename_i hd; injection hs with hs; subst hs
        by_cases hqp : q = p
        · subst hqp; right; rw [setPipe_pipe_same]; exact .cDoneOk hg.2.1 hg.2.2 hd
        · left; exact setPipe_pipe_ne s _ hqp
      · contradiction
    · contradiction
  | cCtx p =>
    simp only [step] at hs
    split at hs
    · rename_i hg; injection hs with hs; subst hs
      by_cases hqp : q = p
      · subst hqp; right; rw [setPipe_pipe_same]; exact .cCtx hg.2.1 hg.2.2
      · left; exact setPipe_pipe_ne s _ hqp
    · contradiction
  | cCancel p =>
    simp only [step] at hs
    split at hs
    · rename_i hg; injection hs with hs; subst hs
      by_cases hqp : q = p
      · subst hqp; right; rw [setPipe_pipe_same]; exact .cCancel hg.2
      · left; exact setPipe_pipe_ne s _ hqp
    · contradiction
  | pCancel p =>
    simp only [step] at hs
    split at hs
    · rename_i hg; injection hs with hs; subst hs
      by_cases hqp : q = p
      · subst hqp; right; rw [setPipe_pipe_same]; exact .pCancel hg.2
      · left; exact setPipe_pipe_ne s _ hqp
    · contradiction
  | rTrunc p u =>
    simp only [step] at hs
    split at hs
    · rename_i hg; injection hs with hs; subst hs
      by_cases hqp : q = p
      · subst hqp; right; rw [setPipe_pipe_same]; exact .rTrunc u hg.2.1 hg.2.2.1 hg.2.2.2
      · left; exact setPipe_pipe_ne s _ hqp
    · contradiction

end Octo.JsonPipe
