import Octo.Model.JoinProto
/-! Lemmas about the join's goroutine protocol (`Octo.JoinProto`). -/
namespace Octo.JoinProto

theorem cap_pos : 0 < cap := by decide

@[simp] theorem setProd_prod_same (s : State) (sd : Side) (p : Prod) : (s.setProd sd p).prod sd = p := by
  cases sd <;> rfl

theorem setProd_prod_other (s : State) (sd : Side) (p : Prod) : (s.setProd sd p).prod sd.other = s.prod sd.other := by
  cases sd <;> rfl

@[simp] theorem setProd_cpc (s : State) (sd : Side) (p : Prod) : (s.setProd sd p).cpc = s.cpc := by
  cases sd <;> rfl

@[simp] theorem setProd_fixed (s : State) (sd : Side) (p : Prod) : (s.setProd sd p).fixed = s.fixed := by
  cases sd <;> rfl

theorem measure_setProd (s : State) (sd : Side) (p : Prod) :
    measure (s.setProd sd p) + prodMeasure (s.prod sd) = measure s + prodMeasure p := by
  cases sd <;> simp only [measure, State.setProd, State.prod] <;> omega

/-- every action strictly decreases the measure -/
theorem step_measure {s s' : State} {a : Action} (hs : step s a = some s') : measure s' < measure s := by
  cases a with
  | pSend sd =>
    simp only [step] at hs
    split at hs
    · rename_i hg; injection hs with hs; subst hs
      have := measure_setProd s sd { s.prod sd with rem := (s.prod sd).rem - 1, q := (s.prod sd).q + 1 }
      simp only [prodMeasure] at this
      omega
    · contradiction
  | pAbort sd =>
    simp only [step] at hs
    split at hs
    · rename_i hg; injection hs with hs; subst hs
      have := measure_setProd s sd { s.prod sd with aborted := true }
      simp only [prodMeasure, hg.2.1, unset] at this
      omega
    · contradiction
  | pClose sd =>
    simp only [step] at hs
    split at hs
    · rename_i hg; injection hs with hs; subst hs
      have := measure_setProd s sd { s.prod sd with closed := true }
      simp only [prodMeasure, hg.2, unset] at this
      omega
    · contradiction
  | cRecv sd stop =>
    simp only [step] at hs
    split at hs
    · rename_i hg; injection hs with hs; subst hs
      obtain ⟨_, hq⟩ := hg
      cases sd <;> cases stop <;>
        simp only [measure, State.setProd, State.prod, prodMeasure, cpcMeasure, if_true, if_false, Bool.false_eq_true] at * <;>
        (try cases hc : s.cpc <;> simp only [cpcMeasure]) <;> omega
    · contradiction
  | cSeeClosed sd =>
    simp only [step] at hs
    split at hs
    · rename_i hg; injection hs with hs; subst hs
      simp only [measure]
      cases hc : s.cpc with
      | both => simp [cpcMeasure]
      | only x => simp [cpcMeasure]
      | ret => simp [hc, listens] at hg
    · contradiction

theorem run_length {s t : State} {sched : List Action} (hr : run s sched = some t) : sched.length + measure t ≤ measure s := by
  induction sched generalizing s with
  | nil => simp only [run, Option.some.injEq] at hr; subst hr; simp
  | cons a as ih =>
    simp only [run] at hr
    cases hsa : step s a with
    | none => simp [hsa] at hr
    | some s' =>
      simp only [hsa] at hr
      have := ih hr
      have := step_measure hsa
      simp only [List.length_cons]; omega

/-- what can be done for side `sd` while its channel is still to be drained or closed -/
theorem side_progress (s : State) (sd : Side) (hl : listens s.cpc sd = true) :
    ∃ a, (step s a).isSome = true := by
  by_cases hq : 0 < (s.prod sd).q
  · exact ⟨.cRecv sd false, by simp [step, hl, hq]⟩
  · have hq0 : (s.prod sd).q = 0 := by omega
    by_cases hc : (s.prod sd).closed = true
    · exact ⟨.cSeeClosed sd, by simp [step, hl, hq0, hc]⟩
    · have hc' : (s.prod sd).closed = false := by simpa using hc
      by_cases hr : (s.prod sd).rem = 0 ∨ (s.prod sd).aborted = true
      · exact ⟨.pClose sd, by simp [step, hr, hc']⟩
      · have h1 : 0 < (s.prod sd).rem := by omega
        have h2 : (s.prod sd).aborted = false := by
          cases h : (s.prod sd).aborted with
          | false => rfl
          | true => exact absurd (Or.inr h) hr
        have := cap_pos
        exact ⟨.pSend sd, by simp [step, h1, h2, hc', hq0, this]⟩

/-- **the node itself never deadlocks**: as long as `Run` has not returned, some goroutine can move -/
theorem consumer_progress (s : State) (h : s.cpc ≠ .ret) : ∃ a, (step s a).isSome = true := by
  cases hc : s.cpc with
  | both => exact side_progress s .L (by simp [hc, listens])
  | only x => exact side_progress s x (by simp [hc, listens])
  | ret => exact absurd hc h

/-- with the fixed code a producer goroutine can always move until it has closed its channel, even after the
node returned -/
theorem producer_progress_fixed (s : State) (hf : s.fixed = true) (hret : s.cpc = .ret) (sd : Side)
    (hc : (s.prod sd).closed = false) : ∃ a, (step s a).isSome = true := by
  by_cases hr : (s.prod sd).rem = 0 ∨ (s.prod sd).aborted = true
  · exact ⟨.pClose sd, by simp [step, hr, hc]⟩
  · have h1 : 0 < (s.prod sd).rem := by omega
    have h2 : (s.prod sd).aborted = false := by
      cases h : (s.prod sd).aborted with
      | false => rfl
      | true => exact absurd (Or.inr h) hr
    exact ⟨.pAbort sd, by simp [step, h1, h2, hc, State.cancelled, hf, hret]⟩

theorem step_fixed {s s' : State} {a : Action} (hs : step s a = some s') : s'.fixed = s.fixed := by
  cases a <;> simp only [step] at hs <;> split at hs <;>
    first
    | contradiction
    | (injection hs with hs; subst hs; simp)

theorem run_fixed {s t : State} {sched : List Action} (hr : run s sched = some t) : t.fixed = s.fixed := by
  induction sched generalizing s with
  | nil => simp only [run, Option.some.injEq] at hr; subst hr; rfl
  | cons a as ih =>
    simp only [run] at hr
    cases hsa : step s a with
    | none => simp [hsa] at hr
    | some s' => simp only [hsa] at hr; rw [ih hr, step_fixed hsa]

theorem run_append {s : State} {as bs : List Action} :
    run s (as ++ bs) = (run s as).bind (fun t => run t bs) := by
  induction as generalizing s with
  | nil => simp [run]
  | cons a as ih =>
    simp only [List.cons_append, run]
    cases step s a with
    | none => simp
    | some s' => simpa using ih

/-- `k` sends in a row -/
theorem run_sends (s : State) (k : Nat) (h1 : k ≤ s.l.rem) (h2 : s.l.q + k ≤ cap) (h3 : s.l.aborted = false)
    (h4 : s.l.closed = false) :
    run s (List.replicate k (.pSend .L)) = some { s with l := { s.l with rem := s.l.rem - k, q := s.l.q + k } } := by
  induction k generalizing s with
  | zero => simp [run]
  | succ k ih =>
    have hq : s.l.q < cap := by omega
    have hr : 0 < s.l.rem := by omega
    simp only [List.replicate_succ, run]
    have hstep : step s (.pSend .L) = some (s.setProd .L { s.l with rem := s.l.rem - 1, q := s.l.q + 1 }) := by
      simp [step, State.prod, hr, h3, h4, hq]
    rw [hstep]
    show run (s.setProd .L { s.l with rem := s.l.rem - 1, q := s.l.q + 1 }) (List.replicate k (.pSend .L)) = _
    have := ih (s.setProd .L { s.l with rem := s.l.rem - 1, q := s.l.q + 1 })
      (by simp only [State.setProd]; omega) (by simp only [State.setProd]; omega) (by simpa [State.setProd] using h3)
      (by simpa [State.setProd] using h4)
    rw [this]
    simp only [State.setProd, Option.some.injEq]
    congr 2
    · omega
    · omega

end Octo.JoinProto
