import Octo.Model.SqlOk
/-!
# The printer in explicit form (C30)

For every node: what `printE/printT/printS` produces once the generated template (`Octo.SqlSyn.Gen.fmt_*`) has been
interpreted.  Each lemma is proved by evaluating the interpreter on the template **as extracted from the current
ast.go** — a changed format string makes the corresponding lemma (and the round-trip theorem built on it) fail.
-/
namespace Octo.SqlSyn
open Gen

attribute [local simp] Fmt.run runSteps runPieces evalConds lookup ListFmt.run

/-! ### list templates -/
theorem run_Exprs_nil : list_Exprs.run [] = [] := by simp [list_Exprs]
theorem run_Exprs_cons (x : List Tok) (xs) : list_Exprs.run (x :: xs) = x ++ ListFmt.items [Tok.kw .COMMA] xs := by
  simp [list_Exprs]
theorem run_SelectExprs_nil : list_SelectExprs.run [] = [] := by simp [list_SelectExprs]
theorem run_SelectExprs_cons (x : List Tok) (xs) :
    list_SelectExprs.run (x :: xs) = x ++ ListFmt.items [Tok.kw .COMMA] xs := by simp [list_SelectExprs]
theorem run_TableExprs_cons (x : List Tok) (xs) :
    list_TableExprs.run (x :: xs) = x ++ ListFmt.items [Tok.kw .COMMA] xs := by simp [list_TableExprs]
theorem run_TvfArgs_nil : list_TableValuedFunctionArguments.run [] = [] := by simp [list_TableValuedFunctionArguments]
theorem run_TvfArgs_cons (x : List Tok) (xs) :
    list_TableValuedFunctionArguments.run (x :: xs) = x ++ ListFmt.items [Tok.kw .COMMA] xs := by
  simp [list_TableValuedFunctionArguments]
theorem run_Ctes_cons (x : List Tok) (xs) :
    list_CommonTableExpressions.run (x :: xs) = x ++ ListFmt.items [Tok.kw .COMMA] xs := by
  simp [list_CommonTableExpressions]
theorem run_GroupBy_nil : list_GroupBy.run [] = [] := by simp [list_GroupBy]
theorem run_GroupBy_cons (x : List Tok) (xs) :
    list_GroupBy.run (x :: xs) = Tok.kw .GROUP :: Tok.kw .BY :: (x ++ ListFmt.items [Tok.kw .COMMA] xs) := by
  simp [list_GroupBy]
theorem run_OrderBy_nil : list_OrderBy.run [] = [] := by simp [list_OrderBy]
theorem run_OrderBy_cons (x : List Tok) (xs) :
    list_OrderBy.run (x :: xs) = Tok.kw .ORDER :: Tok.kw .BY :: (x ++ ListFmt.items [Tok.kw .COMMA] xs) := by
  simp [list_OrderBy]
theorem run_Triggers_nil : list_Triggers.run [] = [] := by simp [list_Triggers]
theorem run_Triggers_cons (x : List Tok) (xs) :
    list_Triggers.run (x :: xs) = Tok.kw .TRIGGER :: (x ++ ListFmt.items [Tok.kw .COMMA] xs) := by
  simp [list_Triggers]
theorem run_Columns_cons (x : List Tok) (xs) :
    list_Columns.run (x :: xs) = Tok.kw .LPAREN :: (x ++ (ListFmt.items [Tok.kw .COMMA] xs ++ [Tok.kw .RPAREN])) := by
  simp [list_Columns]

theorem printEs_eq_map (es : List Expr) : printEs es = es.map printE := by
  induction es with
  | nil => simp [printEs]
  | cons e es ih => simp [printEs, ih]
theorem printTs_eq_map (ts : List Tbl) : printTs ts = ts.map printT := by
  induction ts with
  | nil => simp [printTs]
  | cons e es ih => simp [printTs, ih]
theorem printSs_eq_map (ss : List Sel) : printSs ss = ss.map printS := by
  induction ss with
  | nil => simp [printSs]
  | cons e es ih => simp [printSs, ih]

/-! ### operators print as one token (two or three for IS / NOT IN / joins) -/
def BinOp.tok : BinOp → Tok
  | .bitOr => .kw .PIPE | .bitAnd => .kw .AMP | .shl => .kw .SHIFT_LEFT | .shr => .kw .SHIFT_RIGHT
  | .plus => .kw .PLUS | .minus => .kw .MINUS | .mult => .kw .STAR | .div => .kw .SLASH
  | .intDiv => .kw .DIV | .mod => .kw .PERCENT | .bitXor => .kw .CARET
theorem BinOp.toks_eq (op : BinOp) : op.toks = [op.tok] := by cases op <;> rfl

def UnOp.tok : UnOp → Tok
  | .plus => .kw .PLUS | .minus => .kw .MINUS | .tilde => .kw .TILDE | .bang => .kw .BANG
theorem UnOp.toks_eq (op : UnOp) : op.toks = [op.tok] := by cases op <;> rfl

/-! ### expressions -/
theorem printE_and (l r : Expr) : printE (.and l r) = printE l ++ Tok.kw .AND :: printE r := by
  simp [printE, fmt_AndExpr]
theorem printE_or (l r : Expr) : printE (.or l r) = printE l ++ Tok.kw .OR :: printE r := by
  simp [printE, fmt_OrExpr]
theorem printE_not (e : Expr) : printE (.not e) = Tok.kw .NOT :: printE e := by
  simp [printE, fmt_NotExpr]
theorem printE_paren (e : Expr) : printE (.paren e) = Tok.kw .LPAREN :: (printE e ++ [Tok.kw .RPAREN]) := by
  simp [printE, fmt_ParenExpr]
theorem printE_cmp (op : CmpOp) (l r : Expr) : printE (.cmp op l r) = printE l ++ (op.toks ++ printE r) := by
  simp [printE, fmt_ComparisonExpr]
theorem printE_is (op : IsOp) (e : Expr) : printE (.is op e) = printE e ++ op.toks := by
  simp [printE, fmt_IsExpr]
theorem printE_exists (s : Sel) :
    printE (.exists_ s) = Tok.kw .EXISTS :: Tok.kw .LPAREN :: (printS s ++ [Tok.kw .RPAREN]) := by
  simp [printE, fmt_ExistsExpr, fmt_Subquery]
theorem printE_val (ty : ValTy) (neg : Bool) (s : String) : printE (.val ty neg s) = printVal ty neg s := by
  simp [printE]
theorem printE_null : printE .null = [Tok.kw .NULL] := by simp [printE, fmt_NullVal]
theorem printE_bool (b : Bool) : printE (.bool b) = [if b then Tok.kw .TRUE else Tok.kw .FALSE] := by
  cases b <;> simp [printE, fmt_BoolVal]
theorem printE_tuple (es : List Expr) :
    printE (.tuple es) = Tok.kw .LPAREN :: (list_Exprs.run (printEs es) ++ [Tok.kw .RPAREN]) := by
  simp [printE, fmt_ValTuple]
theorem printE_subq (s : Sel) : printE (.subq s) = Tok.kw .LPAREN :: (printS s ++ [Tok.kw .RPAREN]) := by
  simp [printE, fmt_Subquery]
theorem printE_bin (op : BinOp) (l r : Expr) : printE (.bin op l r) = printE l ++ op.tok :: printE r := by
  simp [printE, fmt_BinaryExpr, BinOp.toks_eq]
theorem printE_index (l i : Expr) :
    printE (.index l i) = printE l ++ Tok.kw .LBRACK :: (printE i ++ [Tok.kw .RBRACK]) := by
  simp [printE, fmt_BinaryExpr]
theorem printE_un (op : UnOp) (e : Expr) : printE (.un op e) = op.tok :: printE e := by
  cases h : e.isUnary <;> simp [printE, fmt_UnaryExpr, UnOp.toks_eq, h]
theorem printE_interval (e : Expr) (unit : String) :
    printE (.interval e unit) = Tok.kw .INTERVAL :: (printE e ++ rawWord unit) := by
  simp [printE, fmt_IntervalExpr]
theorem printE_func_unqual (name : String) (distinct : Bool) (args : List Expr) :
    printE (.func "" name distinct args) =
      rawWord name ++ Tok.kw .LPAREN :: ((if distinct then [Tok.kw .DISTINCT] else []) ++
        (list_SelectExprs.run (printEs args) ++ [Tok.kw .RPAREN])) := by
  cases distinct <;> simp [printE, fmt_FuncExpr]
theorem printE_func_qual (qual name : String) (h : qual ≠ "") (args : List Expr) :
    printE (.func qual name false args) =
      Tok.id qual :: Tok.kw .DOT :: (rawWord name ++ Tok.kw .LPAREN ::
        (list_SelectExprs.run (printEs args) ++ [Tok.kw .RPAREN])) := by
  simp [printE, fmt_FuncExpr, printId, h]
theorem printE_convert (e : Expr) (t : ConvTy) :
    printE (.convert e t) =
      Tok.kw .CONVERT :: Tok.kw .LPAREN :: (printE e ++ Tok.kw .COMMA :: (printConvTy t ++ [Tok.kw .RPAREN])) := by
  simp [printE, fmt_ConvertExpr]
theorem printConvTy_simple (n : String) : printConvTy (.simple n) = rawWord n := by
  simp [printConvTy, fmt_ConvertTypeSimple]
theorem printConvTy_list : printConvTy .list = [Tok.kw .LIST_TYPE] := by simp [printConvTy, fmt_ConvertTypeList]
theorem printConvTy_object : printConvTy .object = [Tok.kw .OBJECT_TYPE] := by
  simp [printConvTy, fmt_ConvertTypeObject]
theorem printE_field (e : Expr) (name : String) (h : name ≠ "") :
    printE (.field e name) = printE e ++ [Tok.kw .JSON_EXTRACT_OP, Tok.id name] := by
  simp [printE, fmt_ObjectFieldAccess, printId, h]

theorem printTableName_1 (n : String) (h : n ≠ "") : printTableName "" n = [Tok.id n] := by
  simp [printTableName, fmt_TableName, printId, h]
theorem printTableName_2 (q n : String) (hq : q ≠ "") (h : n ≠ "") :
    printTableName q n = [Tok.id q, Tok.kw .DOT, Tok.id n] := by
  simp [printTableName, fmt_TableName, printId, h, hq]

theorem printColName_1 (name : String) (h : name ≠ "") : printColName "" "" name = [Tok.id name] := by
  simp [printColName, fmt_ColName, printId, h]
theorem printColName_2 (q1 name : String) (h1 : q1 ≠ "") (h : name ≠ "") :
    printColName "" q1 name = [Tok.id q1, Tok.kw .DOT, Tok.id name] := by
  simp [printColName, fmt_ColName, printId, h, h1, printTableName_1]
theorem printColName_3 (q2 q1 name : String) (h2 : q2 ≠ "") (h1 : q1 ≠ "") (h : name ≠ "") :
    printColName q2 q1 name = [Tok.id q2, Tok.kw .DOT, Tok.id q1, Tok.kw .DOT, Tok.id name] := by
  simp [printColName, fmt_ColName, printId, h, h1, printTableName_2 q2 q1 h2 h1]

theorem printE_col (q2 q1 name : String) : printE (.col q2 q1 name) = printColName q2 q1 name := by simp [printE]

/-! ### select expressions, triggers, order -/
theorem printE_star_0 : printE (.star "" "") = [Tok.kw .STAR] := by simp [printE, fmt_StarExpr]
theorem printE_star_1 (q1 : String) (h1 : q1 ≠ "") : printE (.star "" q1) = [Tok.id q1, Tok.kw .DOT, Tok.kw .STAR] := by
  simp [printE, fmt_StarExpr, h1, printTableName_1]
theorem printE_star_2 (q2 q1 : String) (h2 : q2 ≠ "") (h1 : q1 ≠ "") :
    printE (.star q2 q1) = [Tok.id q2, Tok.kw .DOT, Tok.id q1, Tok.kw .DOT, Tok.kw .STAR] := by
  simp [printE, fmt_StarExpr, h1, printTableName_2 q2 q1 h2 h1]
theorem printE_aliased_none (e : Expr) : printE (.aliased e "") = printE e := by
  simp [printE, fmt_AliasedExpr]
theorem printE_aliased_some (e : Expr) (a : String) (h : a ≠ "") :
    printE (.aliased e a) = printE e ++ [Tok.kw .AS, Tok.id a] := by
  simp [printE, fmt_AliasedExpr, printId, h]
theorem printE_explode (e : Expr) : printE (.explode e) = printE e ++ [Tok.kw .JSON_EXPLODE_OP] := by
  simp [printE, fmt_ObjectExplode]
theorem printE_trigCount (e : Expr) : printE (.trigCount e) = Tok.kw .COUNTING :: printE e := by
  simp [printE, fmt_CountingTrigger]
theorem printE_trigWm : printE .trigWm = [Tok.kw .ON, Tok.kw .WATERMARK] := by simp [printE, fmt_WatermarkTrigger]
theorem printE_trigEos : printE .trigEos = [Tok.kw .ON, Tok.kw .END, Tok.kw .OF, Tok.kw .STREAM] := by
  simp [printE, fmt_EndOfStreamTrigger]
theorem printE_trigDelay (e : Expr) : printE (.trigDelay e) = Tok.kw .AFTER :: Tok.kw .DELAY :: printE e := by
  simp [printE, fmt_DelayTrigger]
theorem printE_order_desc (e : Expr) : printE (.order e true) = printE e ++ [Tok.kw .DESC] := by
  simp [printE, fmt_Order, c_DescScr]
/-- ascending: `e asc`, or just `e` for `null` / `rand()` -/
theorem printE_order_asc (e : Expr) :
    printE (.order e false) = printE e ++ [Tok.kw .ASC] ∨ printE (.order e false) = printE e := by
  cases h1 : e.isNullVal <;> cases h2 : e.isFunc <;> cases h3 : e.isRandFunc <;>
    simp [printE, fmt_Order, c_AscScr, h1, h2, h3]

/-! ### table expressions -/
def printAliasOpt (a : String) : List Tok := if a = "" then [] else [Tok.kw .AS, Tok.id a]

theorem printT_table (q name as_ : String) :
    printT (.table q name as_) = printTableName q name ++ printAliasOpt as_ := by
  by_cases h : as_ = "" <;> simp [printT, fmt_AliasedTableExpr, printAliasOpt, printId, h]
theorem printT_sub (s : Sel) (as_ : String) (h : as_ ≠ "") :
    printT (.sub s as_) = Tok.kw .LPAREN :: (printS s ++ [Tok.kw .RPAREN, Tok.kw .AS, Tok.id as_]) := by
  simp [printT, fmt_AliasedTableExpr, fmt_Subquery, printId, h]
theorem printT_paren (ts : List Tbl) :
    printT (.paren ts) = Tok.kw .LPAREN :: (list_TableExprs.run (printTs ts) ++ [Tok.kw .RPAREN]) := by
  simp [printT, fmt_ParenTableExpr]

def joinToks (strat : Strategy) (kind : JoinKind) : List Tok :=
  (if strat.isLookupOrStream then strat.toks else []) ++ kind.toks
def printJoinCond (on : Option Expr) (us : List String) : List Tok :=
  (match on with
   | some e => Tok.kw .ON :: printE e
   | none => []) ++ (if us.isEmpty then [] else Tok.kw .USING :: list_Columns.run (us.map printId))

theorem printT_join (l : Tbl) (strat : Strategy) (kind : JoinKind) (r : Tbl) (on : Option Expr) (us : List String) :
    printT (.join l strat kind r on us) = printT l ++ (joinToks strat kind ++ (printT r ++ printJoinCond on us)) := by
  cases h : strat.isLookupOrStream <;> cases on <;> cases hu : us.isEmpty <;>
    simp [printT, fmt_JoinTableExpr, fmt_JoinCondition, joinToks, printJoinCond, printOE, optToks, h, hu]
theorem printT_tvf (name : String) (args : List Tbl) (as_ : String) (h1 : name ≠ "") (h2 : as_ ≠ "") :
    printT (.tvf name args as_) = Tok.id name :: Tok.kw .LPAREN ::
      (list_TableValuedFunctionArguments.run (printTs args) ++ [Tok.kw .RPAREN, Tok.kw .AS, Tok.id as_]) := by
  simp [printT, fmt_TableValuedFunction, printId, h1, h2]
theorem printT_argE (name : String) (e : Expr) (h : name ≠ "") :
    printT (.argE name e) = Tok.id name :: Tok.kw .RIGHTARROW :: printE e := by
  simp [printT, fmt_TableValuedFunctionArgument, fmt_ExprTableValuedFunctionArgumentValue, printId, h]
theorem printT_argT (name : String) (t : Tbl) (h : name ≠ "") :
    printT (.argT name t) = Tok.id name :: Tok.kw .RIGHTARROW :: Tok.kw .TABLE :: Tok.kw .LPAREN ::
      (printT t ++ [Tok.kw .RPAREN]) := by
  simp [printT, fmt_TableValuedFunctionArgument, fmt_TableDescriptorTableValuedFunctionArgumentValue, printId, h]
theorem printT_argD (name q2 q1 c : String) (h : name ≠ "") :
    printT (.argD name q2 q1 c) = Tok.id name :: Tok.kw .RIGHTARROW :: Tok.kw .DESCRIPTOR :: Tok.kw .LPAREN ::
      (printColName q2 q1 c ++ [Tok.kw .RPAREN]) := by
  simp [printT, fmt_TableValuedFunctionArgument, fmt_FieldDescriptorTableValuedFunctionArgumentValue, printId, h]

/-! ### select statements -/
def printWhereK (k : Kw) : Option Expr → List Tok
  | none => []
  | some e => Tok.kw k :: printE e
def printLimit (off cnt : Option Expr) : List Tok :=
  match cnt with
  | none => []
  | some c => Tok.kw .LIMIT :: ((match off with
      | none => []
      | some o => printE o ++ [Tok.kw .COMMA]) ++ printE c)

theorem printS_select (distinct : Bool) (exprs : List Expr) (from_ : List Tbl) (where_ : Option Expr)
    (groupBy : List Expr) (having : Option Expr) (trig orderBy : List Expr) (limOff limCnt : Option Expr) :
    printS (.select distinct exprs from_ where_ groupBy having trig orderBy limOff limCnt) =
      Tok.kw .SELECT :: ((if distinct then [Tok.kw .DISTINCT] else []) ++ (list_SelectExprs.run (printEs exprs) ++
        Tok.kw .FROM :: (list_TableExprs.run (printTs from_) ++ (printWhereK .WHERE where_ ++
          (list_GroupBy.run (printEs groupBy) ++ (printWhereK .HAVING having ++ (list_Triggers.run (printEs trig) ++
            (list_OrderBy.run (printEs orderBy) ++ printLimit limOff limCnt)))))))) := by
  cases distinct <;> cases where_ <;> cases having <;> cases limOff <;> cases limCnt <;>
    simp [printS, fmt_Select, fmt_Where, fmt_Limit, printWhereK, printLimit, printOE, optToks, c_DistinctStr, c_WhereStr,
      c_HavingStr]

theorem printS_with (ctes : List Sel) (s : Sel) :
    printS (.with_ ctes s) = Tok.kw .WITH :: (list_CommonTableExpressions.run (printSs ctes) ++ printS s) := by
  simp [printS, fmt_With]

theorem printS_cte (name : String) (s : Sel) (h : name ≠ "") :
    printS (.cte name s) = Tok.id name :: Tok.kw .AS :: Tok.kw .LPAREN :: (printS s ++ [Tok.kw .RPAREN]) := by
  simp [printS, fmt_CommonTableExpression, printId, h]

theorem printS_head (s : Sel) (h : s.isStmt = true) :
    ∃ ts, printS s = Tok.kw .SELECT :: ts ∨ printS s = Tok.kw .WITH :: ts := by
  cases s with
  | select => exact ⟨_, Or.inl (printS_select ..)⟩
  | with_ ctes s => exact ⟨_, Or.inr (printS_with ctes s)⟩
  | cte => simp [Sel.isStmt] at h

end Octo.SqlSyn
