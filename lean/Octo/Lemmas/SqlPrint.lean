import Octo.Model.Sql
/-!
# The printer in explicit form (C30)

For every node: what `printE/printT/printS` produces once the generated template (`Octo.Sql.Gen.fmt_*`) has been
interpreted.  Each lemma is proved by evaluating the interpreter on the template **as extracted from the current
ast.go** — a changed format string makes the corresponding lemma (and the round-trip theorem built on it) fail.
-/
namespace Octo.Sql
open Gen

attribute [local simp] Fmt.run runSteps runPieces evalConds lookup ListFmt.run

theorem printE_and (l r : Expr) : printE (.and l r) = printE l ++ Tok.kw .AND :: printE r := by
  simp [printE, fmt_AndExpr]

theorem printE_or (l r : Expr) : printE (.or l r) = printE l ++ Tok.kw .OR :: printE r := by
  simp [printE, fmt_OrExpr]

theorem printE_not (e : Expr) : printE (.not e) = Tok.kw .NOT :: printE e := by
  simp [printE, fmt_NotExpr]

theorem printE_paren (e : Expr) : printE (.paren e) = Tok.kw .LPAREN :: (printE e ++ [Tok.kw .RPAREN]) := by
  simp [printE, fmt_ParenExpr]

theorem printE_cmp (op : CmpOp) (l r : Expr) : printE (.cmp op l r) = printE l ++ (op.toks ++ printE r) := by
  simp [printE, fmt_ComparisonExpr]

theorem printE_bin (op : BinOp) (l r : Expr) : printE (.bin op l r) = printE l ++ (op.toks ++ printE r) := by
  simp [printE, fmt_BinaryExpr]
