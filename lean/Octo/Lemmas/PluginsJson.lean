import Octo.Model.PluginsJson
/-!
  The canonical JSON codec of the extension registry round-trips: what `registerExtensions` writes is accepted by
  `decodeHandlers`. This discharges the hypothesis `JobOk.handlers` of C27 for the concrete codec the driver uses
  (the real `encoding/json` stays trusted), for names without characters that need escaping.
-/
namespace Octo.Plugins.Json
open Octo.Fs Octo.Plugins

/-- a string json.Marshal writes verbatim -/
def PlainStr (s : FName) : Prop := ∀ c ∈ s, plainChar c = true

theorem plainChar_lt {c : Char} (h : plainChar c = true) : c.toNat < 256 ∧ c ≠ '"' := by
  simp only [plainChar, Bool.and_eq_true, decide_eq_true_eq, bne_iff_ne, ne_eq] at h
  exact ⟨by omega, h.1.1.1.1.2⟩

theorem roundChar {c : Char} (h : c.toNat < 256) : Char.ofNat (UInt8.ofNat c.toNat).toNat = c := by
  simp [Nat.mod_eq_of_lt h]

theorem bytes_chars {cs : List Char} (h : ∀ c ∈ cs, c.toNat < 256) : bytesToChars (charsToBytes cs) = cs := by
  induction cs with
  | nil => rfl
  | cons c cs ih =>
    simp only [bytesToChars, charsToBytes, List.map_cons, List.map_map] at ih ⊢
    rw [roundChar (h c (by simp))]
    congr 1
    exact ih (fun d hd => h d (List.mem_cons_of_mem _ hd))

theorem takeStr_append {s : FName} (hs : PlainStr s) (r : List Char) : takeStr (s ++ '"' :: r) = some (s, r) := by
  induction s with
  | nil => simp [takeStr]
  | cons c cs ih =>
    have hc := hs c (by simp)
    have hne := (plainChar_lt hc).2
    simp only [List.cons_append, takeStr, hne, if_false, hc, if_true]
    rw [ih (fun d hd => hs d (List.mem_cons_of_mem _ hd))]

theorem parseStr_enc {s : FName} (hs : PlainStr s) (r : List Char) : parseStr (encStr s ++ r) = some (s, r) := by
  simp only [encStr, List.cons_append, parseStr, List.append_assoc, List.singleton_append]
  exact takeStr_append hs r

/-- the decoder only ever returns plain strings -/
theorem takeStr_plain {cs : List Char} {s : FName} {r : List Char} (h : takeStr cs = some (s, r)) : PlainStr s := by
  induction cs generalizing s r with
  | nil => simp [takeStr] at h
  | cons c cs ih =>
    simp only [takeStr] at h
    split at h
    · cases h; intro d hd; simp at hd
    · split at h
      · next hp =>
        cases ht : takeStr cs with
        | none => simp [ht] at h
        | some p =>
          obtain ⟨s', r'⟩ := p
          simp only [ht, Option.some.injEq, Prod.mk.injEq] at h
          obtain ⟨rfl, rfl⟩ := h
          intro d hd
          rcases List.mem_cons.1 hd with rfl | hd
          · exact hp
          · exact ih ht d hd
      · cases h

def PlainMap (m : List (FName × FName)) : Prop := ∀ kv ∈ m, PlainStr kv.1 ∧ PlainStr kv.2

theorem parsePairs_enc {m : List (FName × FName)} (hm : PlainMap m) (hne : m ≠ []) (fuel : Nat) (hf : m.length ≤ fuel) :
    parsePairs fuel (encPairs m ++ ['}']) = some m := by
  induction m generalizing fuel with
  | nil => exact absurd rfl hne
  | cons kv rest ih =>
    obtain ⟨k, v⟩ := kv
    obtain ⟨hk, hv⟩ := hm (k, v) (by simp)
    cases fuel with
    | zero => simp at hf
    | succ fuel =>
      cases rest with
      | nil =>
        simp only [encPairs, parsePairs, List.append_assoc, List.cons_append]
        rw [parseStr_enc hk]
        simp only []
        rw [parseStr_enc hv]
        rfl
      | cons kv' rest' =>
        have hrest : PlainMap (kv' :: rest') := fun x hx => hm x (List.mem_cons_of_mem _ hx)
        have := ih hrest (by simp) fuel (by simp at hf ⊢; omega)
        simp only [encPairs, parsePairs, List.append_assoc, List.cons_append]
        rw [parseStr_enc hk]
        simp only []
        rw [parseStr_enc hv]
        simp [this]

def ascii (l : List Char) : Bool := l.all (fun c => decide (c.toNat < 256))

theorem ascii_iff {l : List Char} : ascii l = true ↔ ∀ c ∈ l, c.toNat < 256 := by
  simp [ascii]

theorem ascii_append (a b : List Char) : ascii (a ++ b) = (ascii a && ascii b) := by simp [ascii]
theorem ascii_cons (c : Char) (l : List Char) : ascii (c :: l) = (decide (c.toNat < 256) && ascii l) := by simp [ascii]

theorem ascii_of_plain {s : FName} (hs : PlainStr s) : ascii s = true :=
  ascii_iff.2 (fun c hc => (plainChar_lt (hs c hc)).1)

theorem encStr_ascii {s : FName} (hs : PlainStr s) : ascii (encStr s) = true := by
  simp only [encStr, ascii_cons, ascii_append, ascii_of_plain hs]
  decide

theorem encPairs_ascii {m : List (FName × FName)} (hm : PlainMap m) : ascii (encPairs m) = true := by
  induction m with
  | nil => rfl
  | cons kv rest ih =>
    obtain ⟨k, v⟩ := kv
    obtain ⟨hk, hv⟩ := hm (k, v) (by simp)
    have hrest : PlainMap rest := fun x hx => hm x (List.mem_cons_of_mem _ hx)
    cases rest with
    | nil =>
      simp only [encPairs, ascii_cons, ascii_append, encStr_ascii hk, encStr_ascii hv]
      decide
    | cons kv' rest' =>
      simp only [encPairs, ascii_cons, ascii_append, encStr_ascii hk, encStr_ascii hv, ih hrest]
      decide

/-- decode ∘ encode = id on maps of plain strings -/
theorem decode_encode {m : List (FName × FName)} (hm : PlainMap m) : decodeHandlers (encodeHandlers m) = some m := by
  simp only [decodeHandlers, encodeHandlers]
  rw [bytes_chars]
  · cases m with
    | nil => simp [encPairs]
    | cons kv rest =>
      have h := parsePairs_enc hm (by simp) ((encPairs (kv :: rest) ++ ['}']).length + 1)
        (by
          -- every pair contributes at least one character
          have : ∀ m : List (FName × FName), m.length ≤ (encPairs m).length := by
            intro m
            induction m with
            | nil => simp
            | cons a as ih =>
              obtain ⟨k, v⟩ := a
              cases as with
              | nil => simp [encPairs, encStr]
              | cons b bs => simp only [encPairs, List.length_append, List.length_cons] at ih ⊢; omega
          have := this (kv :: rest)
          simp only [List.length_append] at *
          omega)
      obtain ⟨k, v⟩ := kv
      cases rest with
      | nil =>
        simp only [encPairs, encStr, List.cons_append, List.append_assoc] at h ⊢
        exact h
      | cons kv' rest' =>
        simp only [encPairs, encStr, List.cons_append, List.append_assoc] at h ⊢
        exact h
  · apply ascii_iff.1
    simp only [ascii_cons, ascii_append, encPairs_ascii hm]
    decide

theorem putKey_plain {k v : FName} {m : List (FName × FName)} (hk : PlainStr k) (hv : PlainStr v) (hm : PlainMap m) :
    PlainMap (putKey k v m) := by
  induction m with
  | nil => intro x hx; simp [putKey] at hx; subst hx; exact ⟨hk, hv⟩
  | cons a as ih =>
    obtain ⟨k', v'⟩ := a
    have hrest : PlainMap as := fun x hx => hm x (List.mem_cons_of_mem _ hx)
    simp only [putKey]
    split
    · intro x hx
      rcases List.mem_cons.1 hx with rfl | hx
      · exact ⟨hk, hv⟩
      · exact hrest x hx
    · split
      · intro x hx
        rcases List.mem_cons.1 hx with rfl | hx
        · exact ⟨hk, hv⟩
        · exact hm x hx
      · intro x hx
        rcases List.mem_cons.1 hx with rfl | hx
        · exact hm _ (by simp)
        · exact ih hrest x hx

theorem parsePairs_plain {fuel : Nat} {cs : List Char} {m : List (FName × FName)} (h : parsePairs fuel cs = some m) :
    PlainMap m := by
  induction fuel generalizing cs m with
  | zero => simp [parsePairs] at h
  | succ fuel ih =>
    simp only [parsePairs] at h
    cases h1 : parseStr cs with
    | none => simp [h1] at h
    | some p1 =>
      obtain ⟨k, r1⟩ := p1
      have hk : PlainStr k := by
        cases cs with
        | nil => simp [parseStr] at h1
        | cons c cs' =>
          simp only [parseStr] at h1
          split at h1
          · exact takeStr_plain h1
          · cases h1
      simp only [h1] at h
      cases r1 with
      | nil => simp at h
      | cons c1 r1' =>
        by_cases hc1 : c1 = ':'
        · subst hc1
          simp only [] at h
          cases h2 : parseStr r1' with
          | none => simp [h2] at h
          | some p2 =>
            obtain ⟨v, r2⟩ := p2
            have hv : PlainStr v := by
              cases r1' with
              | nil => simp [parseStr] at h2
              | cons c cs' =>
                simp only [parseStr] at h2
                split at h2
                · exact takeStr_plain h2
                · cases h2
            simp only [h2] at h
            split at h
            · cases h; intro x hx; simp at hx; subst hx; exact ⟨hk, hv⟩
            · next r3 =>
              cases h3 : parsePairs fuel r3 with
              | none => simp [h3] at h
              | some rest =>
                simp only [h3, Option.some.injEq] at h
                subst h
                intro x hx
                rcases List.mem_cons.1 hx with rfl | hx
                · exact ⟨hk, hv⟩
                · exact ih h3 x hx
            · cases h
        · simp [hc1] at h

theorem decodeHandlers_plain {bs : Bytes} {m : List (FName × FName)} (h : decodeHandlers bs = some m) : PlainMap m := by
  simp only [decodeHandlers] at h
  split at h
  · cases h; intro x hx; simp at hx
  · exact parsePairs_plain h
  · cases h

/-- what `registerFileExtensions` writes decodes again (plugin name and extensions without characters that need escaping) -/
theorem registerExtensions_decodes {fs : Fs} {plugin : FName} {exts : List FName} {data : Bytes}
    (hp : PlainStr plugin) (he : ∀ e ∈ exts, PlainStr e) (h : registerExtensions fs plugin exts = some data) :
    (decodeHandlers data).isSome = true := by
  simp only [registerExtensions] at h
  have fold : ∀ (exts : List FName) (m : List (FName × FName)), (∀ e ∈ exts, PlainStr e) → PlainMap m →
      PlainMap (exts.foldl (fun m e => putKey e plugin m) m) := by
    intro exts
    induction exts with
    | nil => intro m _ hm; exact hm
    | cons e es ih =>
      intro m he hm
      exact ih _ (fun x hx => he x (List.mem_cons_of_mem _ hx)) (putKey_plain (he e (by simp)) hp hm)
  split at h
  · cases h
  · next m hm =>
    cases h
    have hplain : PlainMap m := by
      split at hm
      · cases hm; intro x hx; simp at hx
      · cases hm
      · exact decodeHandlers_plain hm
    rw [decode_encode (fold exts m he hplain)]
    rfl

end Octo.Plugins.Json
