import Octo.Lemmas.JsonUtf8
/-!
  Lemmas for C25, part 10: a `-o json` line contains no byte below 0x20 other than its final line feed —
  whatever bytes the strings and names contain.  Hence the output of a whole result is cut into its lines at
  the line feeds, and no line contains a raw control character (RFC 8259 §7).
-/
namespace Octo.OutFmt
open Octo Octo.Spec

def NoCtl (s : Bytes) : Prop := ∀ x ∈ s, 32 ≤ x

theorem NoCtl.nil : NoCtl [] := by intro x h; simp at h
theorem NoCtl.cons {c : Nat} {s : Bytes} (hc : 32 ≤ c) (hs : NoCtl s) : NoCtl (c :: s) := by
  intro x hx; rcases List.mem_cons.mp hx with e | e
  · omega
  · exact hs x e
theorem NoCtl.append {a b : Bytes} (ha : NoCtl a) (hb : NoCtl b) : NoCtl (a ++ b) := by
  intro x hx; rcases List.mem_append.mp hx with e | e
  · exact ha x e
  · exact hb x e

theorem noCtl_escByte (c : Nat) : NoCtl (escByte c) := by
  have h1 := hexDigit_lt (c / 16)
  have h2 := hexDigit_lt (c % 16) (by omega)
  unfold escByte
  repeat' split
  all_goals (intro x hx; simp at hx; omega)

theorem noCtl_escBody : ∀ s : Bytes, NoCtl (escBody s)
  | [] => NoCtl.nil
  | c :: r => by simp only [escBody]; exact (noCtl_escByte c).append (noCtl_escBody r)

theorem noCtl_jsonString (s : Bytes) : NoCtl (jsonString s) := by
  unfold jsonString
  exact NoCtl.cons (by omega) ((noCtl_escBody s).append (NoCtl.cons (by omega) NoCtl.nil))

theorem noCtl_validNumber (s : Bytes) (h : Json.validNumber s = true) : NoCtl s :=
  fun x hx => (isNumChar_lt (allNum_validNumber s h x hx)).2

theorem noCtl_sep (first : Bool) : NoCtl (sep first) := by
  cases first <;> intro x hx <;> simp [sep] at hx; omega

theorem noCtl_wrap (o c : Nat) (b : Bytes) (ho : 32 ≤ o) (hc : 32 ≤ c) (hb : NoCtl b) : NoCtl (o :: (b ++ [c])) :=
  NoCtl.cons ho (hb.append (NoCtl.cons hc NoCtl.nil))

theorem noCtl_lit : NoCtl nullLit ∧ NoCtl trueLit ∧ NoCtl falseLit := by
  refine ⟨?_, ?_, ?_⟩ <;> intro x hx <;> simp [nullLit, trueLit, falseLit] at hx <;> omega

mutual
theorem encJson_noCtl (L : Lib) (hL : FloatSyntax L) : ∀ (v : Value) (τ : Ty) (bs : Bytes),
    encJson L τ v = some bs → NoCtl bs
  | v, τ, bs, h => by
    unfold encJson at h
    cases hp : pick τ v.rank with
    | none => simp only [hp, Option.some.injEq] at h; subst h; exact noCtl_lit.1
    | some t =>
      simp only [hp] at h
      match v, h with
      | .null, h => simp only [Option.some.injEq] at h; subst h; exact noCtl_lit.1
      | .int i, h => simp only [Option.some.injEq] at h; subst h; exact noCtl_validNumber _ (validNumber_fmtInt i)
      | .float b, h =>
        simp only [Option.some.injEq] at h; subst h
        by_cases hb : finite b = true
        · simp only [hb, if_true]; exact noCtl_validNumber _ (hL b hb)
        · have hb' : finite b = false := by simpa using hb
          simp only [hb', Bool.false_eq_true, if_false]; exact noCtl_lit.1
      | .bool b, h =>
        simp only [Option.some.injEq] at h; subst h
        cases b
        · exact noCtl_lit.2.2
        · exact noCtl_lit.2.1
      | .str s, h => simp only [Option.some.injEq] at h; subst h; exact noCtl_jsonString _
      | .time ns loc, h => simp only [Option.some.injEq] at h; subst h; exact noCtl_jsonString _
      | .dur ns, h => simp only [Option.some.injEq] at h; subst h; exact noCtl_jsonString _
      | .list xs, h =>
        simp only [Option.map_eq_some_iff] at h
        obtain ⟨b, hb, e⟩ := h; subst e
        exact noCtl_wrap 91 93 b (by omega) (by omega) (encElems_noCtl L hL xs _ true b hb)
      | .struct xs, h =>
        simp only [Option.map_eq_some_iff] at h
        obtain ⟨b, hb, e⟩ := h; subst e
        exact noCtl_wrap 123 125 b (by omega) (by omega) (encFields_noCtl L hL xs _ _ true b hb)
      | .tuple xs, h =>
        simp only [Option.map_eq_some_iff] at h
        obtain ⟨b, hb, e⟩ := h; subst e
        exact noCtl_wrap 91 93 b (by omega) (by omega) (encTuple_noCtl L hL xs _ true b hb)
theorem encElems_noCtl (L : Lib) (hL : FloatSyntax L) : ∀ (xs : List Value) (et : Option Ty) (first : Bool) (bs : Bytes),
    encElems L et first xs = some bs → NoCtl bs
  | [], _, _, bs, h => by simp only [encElems, Option.some.injEq] at h; subst h; exact NoCtl.nil
  | x :: xs, none, _, _, h => by simp [encElems] at h
  | x :: xs, some e, first, bs, h => by
    simp only [encElems] at h
    cases ha : encJson L e x with
    | none => simp [ha] at h
    | some a =>
      cases hb : encElems L (some e) false xs with
      | none => simp [ha, hb] at h
      | some b =>
        simp only [ha, hb, Option.some.injEq] at h
        subst h
        exact ((noCtl_sep first).append (encJson_noCtl L hL x e a ha)).append (encElems_noCtl L hL xs (some e) false b hb)
theorem encFields_noCtl (L : Lib) (hL : FloatSyntax L) : ∀ (xs : List Value) (ns : List Name) (ts : List Ty) (first : Bool) (bs : Bytes),
    encFields L ns ts first xs = some bs → NoCtl bs
  | [], _, _, _, bs, h => by simp only [encFields, Option.some.injEq] at h; subst h; exact NoCtl.nil
  | x :: xs, [], ts, _, _, h => by cases ts <;> simp [encFields] at h
  | x :: xs, _ :: _, [], _, _, h => by simp [encFields] at h
  | x :: xs, n :: ns, t :: ts, first, bs, h => by
    simp only [encFields] at h
    cases ha : encJson L t x with
    | none => simp [ha] at h
    | some a =>
      cases hb : encFields L ns ts false xs with
      | none => simp [ha, hb] at h
      | some b =>
        simp only [ha, hb, Option.some.injEq] at h
        subst h
        have h1 := encJson_noCtl L hL x t a ha
        have h2 := encFields_noCtl L hL xs ns ts false b hb
        have e : sep first ++ jsonString (nameBytes n) ++ 58 :: a ++ b = sep first ++ (jsonString (nameBytes n) ++ ((58 :: a) ++ b)) := by
          simp
        rw [e]
        exact (noCtl_sep first).append ((noCtl_jsonString _).append ((NoCtl.cons (by omega) h1).append h2))
theorem encTuple_noCtl (L : Lib) (hL : FloatSyntax L) : ∀ (xs : List Value) (ts : List Ty) (first : Bool) (bs : Bytes),
    encTuple L ts first xs = some bs → NoCtl bs
  | [], _, _, bs, h => by simp only [encTuple, Option.some.injEq] at h; subst h; exact NoCtl.nil
  | x :: xs, [], _, _, h => by simp [encTuple] at h
  | x :: xs, t :: ts, first, bs, h => by
    simp only [encTuple] at h
    cases ha : encJson L t x with
    | none => simp [ha] at h
    | some a =>
      cases hb : encTuple L ts false xs with
      | none => simp [ha, hb] at h
      | some b =>
        simp only [ha, hb, Option.some.injEq] at h
        subst h
        exact ((noCtl_sep first).append (encJson_noCtl L hL x t a ha)).append (encTuple_noCtl L hL xs ts false b hb)
end

/-- **framing**: a line is some text without any byte below 0x20, followed by one line feed -/
theorem jsonLine_framing (L : Lib) (hL : FloatSyntax L) (ns : List Name) (ts : List Ty) (xs : List Value) (bs : Bytes)
    (hfit : rowFits ns ts xs = true) (h : jsonLine L ns ts xs = some bs) :
    ∃ b, bs = b ++ [10] ∧ NoCtl b := by
  rw [jsonLine_eq L ns ts xs hfit] at h
  simp only [Option.map_eq_some_iff] at h
  obtain ⟨b, hb, e⟩ := h
  exact ⟨b, e.symm, encJson_noCtl L hL _ _ b hb⟩

end Octo.OutFmt

namespace Octo.OutFmt
open Octo Octo.Spec

/-- reading a chunk without line feeds followed by a line feed yields that line and continues -/
theorem splitLines_line (b rest cur : Bytes) (hb : ∀ x ∈ b, x ≠ 10) :
    Json.splitLines (b ++ 10 :: rest) cur = (cur.reverse ++ b ++ [10]) :: Json.splitLines rest [] := by
  induction b generalizing cur with
  | nil => simp [Json.splitLines]
  | cons c cs ih =>
    have hc : c ≠ 10 := hb c (by simp)
    have := ih (c :: cur) (fun x hx => hb x (by simp [hx]))
    simp [Json.splitLines, hc, this]

def concatLines : List Bytes → Bytes
  | [] => []
  | l :: ls => l ++ concatLines ls

/-- **the output of a result is cut into its lines at the line feeds** -/
theorem splitLines_concat : ∀ lines : List Bytes, (∀ l ∈ lines, ∃ b, l = b ++ [10] ∧ ∀ x ∈ b, x ≠ 10) →
    Json.splitLines (concatLines lines) [] = lines
  | [], _ => by simp [concatLines, Json.splitLines]
  | l :: ls, h => by
    obtain ⟨b, e, hb⟩ := h l (by simp)
    have ih := splitLines_concat ls (fun x hx => h x (by simp [hx]))
    subst e
    simp only [concatLines, List.append_assoc, List.singleton_append]
    rw [splitLines_line b _ [] hb, ih]
    simp

end Octo.OutFmt
