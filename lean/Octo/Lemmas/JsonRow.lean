import Octo.Lemmas.JsonLength
/-!
  Lemmas for C25, part 6: the document `erase L τ v` *is* the value (`matchesV`), and a whole `-o json`
  line decodes to the row.
-/
namespace Octo.OutFmt
open Octo Octo.Spec

/-- the library's texts read back exactly: the shortest float text as the same float, the RFC 3339 text as the
    same instant, the duration text as the same number of nanoseconds -/
structure TextExact (L : Lib) : Prop where
  float : ∀ b, finite b = true → Num.litToF64 (L.fmtFloatG b) = b
  time : ∀ ns loc, TimeText.parseRfc3339 (L.fmtTime ns loc) = some ns
  dur : ∀ ns, TimeText.parseDuration (L.fmtDur ns) = some ns

mutual
theorem erase_matches (L : Lib) (hE : TextExact L) : ∀ (v : Value) (τ : Ty), fits τ v = true →
    matchesV τ v (erase L τ v) = true
  | .null, τ, h => by
    obtain ⟨t, hp⟩ := fits_pick h
    have e : erase L τ .null = .null := by simp [erase, hp]
    rw [e]; simp [matchesV, hp]
  | .int i, τ, h => by
    obtain ⟨t, hp⟩ := fits_pick h
    have e : erase L τ (.int i) = .num (fmtInt i) := by simp [erase, hp]
    rw [e]; simp [matchesV, hp, denotesInt_fmtInt]
  | .float b, τ, h => by
    obtain ⟨t, hp⟩ := fits_pick h
    by_cases hb : finite b = true
    · have e : erase L τ (.float b) = .num (L.fmtFloatG b) := by simp [erase, hp, hb]
      rw [e]; simp [matchesV, hp, hb, hE.float b hb]
    · have e : erase L τ (.float b) = .null := by simp [erase, hp, hb]
      rw [e]; simp [matchesV, hp, hb]
  | .bool b, τ, h => by
    obtain ⟨t, hp⟩ := fits_pick h
    have e : erase L τ (.bool b) = .bool b := by simp [erase, hp]
    rw [e]; simp [matchesV, hp]
  | .str s, τ, h => by
    obtain ⟨t, hp⟩ := fits_pick h
    have e : erase L τ (.str s) = .str (strBytes s) := by simp [erase, hp]
    rw [e]; simp [matchesV, hp]
  | .time ns loc, τ, h => by
    obtain ⟨t, hp⟩ := fits_pick h
    have e : erase L τ (.time ns loc) = .str (L.fmtTime ns loc) := by simp [erase, hp]
    rw [e]; simp [matchesV, hp, hE.time ns loc]
  | .dur ns, τ, h => by
    obtain ⟨t, hp⟩ := fits_pick h
    have e : erase L τ (.dur ns) = .str (L.fmtDur ns) := by simp [erase, hp]
    rw [e]; simp [matchesV, hp, hE.dur ns]
  | .list xs, τ, h => by
    obtain ⟨t, hp⟩ := fits_pick h
    unfold fits at h
    simp only [hp] at h
    cases he : elemTy t with
    | none =>
      simp only [he, List.isEmpty_iff] at h
      subst h
      have e : erase L τ (.list []) = .arr [] := by simp [erase, hp, he]
      rw [e]; simp [matchesV, hp, he]
    | some e =>
      simp only [he] at h
      have e' : erase L τ (.list xs) = .arr (eraseAll L e xs) := by simp [erase, hp, he]
      rw [e']; simp [matchesV, hp, he, eraseAll_matches L hE xs e h]
  | .struct xs, τ, h => by
    obtain ⟨t, hp⟩ := fits_pick h
    unfold fits at h
    simp only [hp, Bool.and_eq_true] at h
    have e : erase L τ (.struct xs) = .obj ((fieldNames t).map nameBytes) (eraseEach L (fieldTys t) xs) := by
      simp [erase, hp]
    rw [e]; simp [matchesV, hp, eraseEach_matches L hE xs _ h.2]
  | .tuple xs, τ, h => by
    obtain ⟨t, hp⟩ := fits_pick h
    unfold fits at h
    simp only [hp] at h
    have e : erase L τ (.tuple xs) = .arr (eraseEach L (tupleTys t) xs) := by simp [erase, hp]
    rw [e]; simp [matchesV, hp, eraseEach_matches L hE xs _ h]
theorem eraseAll_matches (L : Lib) (hE : TextExact L) : ∀ (xs : List Value) (e : Ty), fitsAll e xs = true →
    matchesAll e xs (eraseAll L e xs) = true
  | [], _, _ => by simp [matchesAll, eraseAll]
  | x :: xs, e, h => by
    simp only [fitsAll, Bool.and_eq_true] at h
    simp [matchesAll, eraseAll, erase_matches L hE x e h.1, eraseAll_matches L hE xs e h.2]
theorem eraseEach_matches (L : Lib) (hE : TextExact L) : ∀ (xs : List Value) (ts : List Ty), fitsEach ts xs = true →
    matchesEach ts xs (eraseEach L ts xs) = true
  | [], [], _ => by simp [matchesEach, eraseEach]
  | [], _ :: _, h => by simp [fitsEach] at h
  | _ :: _, [], h => by simp [fitsEach] at h
  | x :: xs, t :: ts, h => by
    simp only [fitsEach, Bool.and_eq_true] at h
    simp [matchesEach, eraseEach, erase_matches L hE x t h.1, eraseEach_matches L hE xs ts h.2]
end

theorem fitsEach_length : ∀ (ts : List Ty) (xs : List Value), fitsEach ts xs = true → ts.length = xs.length
  | [], [], _ => rfl
  | [], _ :: _, h => by simp [fitsEach] at h
  | _ :: _, [], h => by simp [fitsEach] at h
  | t :: ts, x :: xs, h => by
    simp only [fitsEach, Bool.and_eq_true] at h
    simp [fitsEach_length ts xs h.2]

/-- with one value per field, the loop of `JSONFormatter.Write` is the loop of the Struct case -/
theorem encRowFields_eq (L : Lib) : ∀ (ns : List Name) (ts : List Ty) (xs : List Value) (first : Bool),
    ns.length = ts.length → ts.length = xs.length → encRowFields L ns ts first xs = encFields L ns ts first xs
  | [], [], [], _, _, _ => by simp [encRowFields, encFields]
  | [], [], _ :: _, _, _, h => by simp at h
  | [], _ :: _, _, _, h, _ => by simp at h
  | _ :: _, [], _, _, h, _ => by simp at h
  | _ :: _, _ :: _, [], _, _, h => by simp at h
  | n :: ns, t :: ts, x :: xs, first, h1, h2 => by
    simp only [List.length_cons, Nat.add_right_cancel_iff] at h1 h2
    simp [encRowFields, encFields, encRowFields_eq L ns ts xs false h1 h2]

/-- one `-o json` line is the JSON text of the row seen as an object, followed by a line feed -/
theorem jsonLine_eq (L : Lib) (ns : List Name) (ts : List Ty) (xs : List Value) (h : rowFits ns ts xs = true) :
    jsonLine L ns ts xs = (encJson L (.struct ns ts) (.struct xs)).map (· ++ [10]) := by
  simp only [rowFits, Bool.and_eq_true, decide_eq_true_eq] at h
  have hl := fitsEach_length ts xs h.2
  simp only [jsonLine, encJson, pick, Value.rank, fieldNames, fieldTys, encRowFields_eq L ns ts xs true h.1 hl]
  cases encFields L ns ts true xs <;> simp

theorem rowFits_fits (ns : List Name) (ts : List Ty) (xs : List Value) (h : rowFits ns ts xs = true) :
    fits (.struct ns ts) (.struct xs) = true := by
  simp only [rowFits, Bool.and_eq_true, decide_eq_true_eq] at h
  simp [fits, pick, fieldNames, fieldTys, h.1, h.2]

theorem erase_row (L : Lib) (ns : List Name) (ts : List Ty) (xs : List Value) :
    erase L (.struct ns ts) (.struct xs) = .obj (ns.map nameBytes) (eraseEach L ts xs) := by
  simp [erase, pick, Value.rank, fieldNames, fieldTys]

/-- **a line decodes to the row's document** -/
theorem jsonLine_decode (L : Lib) (hL : FloatSyntax L) (ns : List Name) (ts : List Ty) (xs : List Value)
    (h : rowFits ns ts xs = true) :
    ∃ bs, jsonLine L ns ts xs = some bs ∧
      Json.decode bs = some (.obj (ns.map nameBytes) (eraseEach L ts xs)) := by
  have hf := rowFits_fits ns ts xs h
  obtain ⟨b0, hb0, hdec⟩ := encJson_dec L hL (.struct xs) (.struct ns ts) hf
  have hlen := encJson_len L hL (.struct xs) (.struct ns ts) b0 hf hb0
  refine ⟨b0 ++ [10], by rw [jsonLine_eq L ns ts xs h, hb0]; rfl, ?_⟩
  have hd := hdec (2 * (b0 ++ [10]).length + 2) [10] (term_of_sep 10 [] (by omega))
    (by simp only [List.length_append, List.length_cons, List.length_nil]; omega)
  unfold Json.decode
  rw [hd, erase_row]
  simp [Json.skipWs, Json.isWs]

end Octo.OutFmt
