import Octo.Lemmas.TrigNet
/-!
  The table the node holds is the batch grouping of the records it received (`table_eq_spec`), for valid
  changelogs and aggregates satisfying the C14 contract; and the batch grouping depends on the records only
  through their net multiplicities (`groupSpec_congr`), which is what makes the reordering done by the
  event-time buffer harmless.
-/
namespace Octo.Trig
open Octo Octo.TMap

/-! ### congruences of `Compare == 0` -/
theorem isNull_congr {a b : Value} (h : cmp a b = 0) : isNull a = isNull b := by
  have hr := cmpWith_zero_rank a b h
  cases a <;> cases b <;> simp_all [isNull, Value.rank]

theorem cmp_symm {a b : Value} (h : cmp a b = 0) : cmp b a = 0 := by
  have := cmpWith_antisymm cmpFloatFixed_laws a b
  show cmpWith cmpFloatFixed b a = 0
  have h' : cmpWith cmpFloatFixed a b = 0 := h
  omega

theorem cmp_zero_congr {a b : Value} (h : cmp a b = 0) (v : Value) : (cmp a v == 0) = (cmp b v == 0) := by
  cases h1 : (cmp a v == 0) <;> cases h2 : (cmp b v == 0) <;> try rfl
  · simp only [beq_iff_eq] at h2
    have := cmpWith_eq_trans cmpFloatFixed_laws a b v h h2
    simp_all
  · simp only [beq_iff_eq] at h1
    have := cmpWith_eq_trans cmpFloatFixed_laws b a v (cmp_symm h) h1
    simp_all

theorem cmpList_append_left (k : List Value) {a a' : List Value} (h : cmpList a a' = 0) :
    cmpList (k ++ a) (k ++ a') = 0 := by
  induction k with
  | nil => simpa using h
  | cons x xs ih =>
    simp only [List.cons_append, cmpListWith]
    have : cmp x x = 0 := cmpWith_refl cmpFloatFixed_laws x
    simp [this, ih]

/-! ### histories as filtered changelogs -/
theorem histSize_nil : histSize [] = 0 := rfl
theorem histSize_append (a b : Hist) : histSize (a ++ b) = histSize a + histSize b := by
  induction a with
  | nil => simp [histSize]
  | cons x xs ih => simp only [histSize, List.cons_append, List.map_cons, List.sum_cons] at *; omega

theorem histOf_append (a : AggSpec) (g₁ g₂ : List Rec) : histOf a (g₁ ++ g₂) = histOf a g₁ ++ histOf a g₂ := by
  simp [histOf]

theorem histSize_histOf (a : AggSpec) (g : List Rec) :
    histSize (histOf a g) = countOf (g.filter fun r => !isNull (a.arg r.vals)) := by
  induction g with
  | nil => rfl
  | cons r rs ih =>
    simp only [histOf, histSize, List.filter_cons] at *
    cases isNull (a.arg r.vals)
    · simp only [Bool.not_false, if_true, List.map_cons, List.sum_cons, countOf_cons, ih, sign]
    · simpa using ih

theorem netH_histOf (a : AggSpec) (g : List Rec) (v : Value) :
    netH (histOf a g) v =
      countOf (g.filter fun r => !isNull (a.arg r.vals) && (cmp (a.arg r.vals) v == 0)) := by
  induction g with
  | nil => rfl
  | cons r rs ih =>
    simp only [histOf, netH, List.filter_cons] at *
    cases isNull (a.arg r.vals)
    · simp only [Bool.not_false, if_true, List.map_cons, List.sum_cons, Bool.true_and]
      cases hc : (cmp (a.arg r.vals) v == 0)
      · simp only [Bool.false_eq_true, if_false, ih]; omega
      · simp only [if_true, countOf_cons, ih, sign]
    · simpa using ih

/-- what C16 needs of one aggregate: the C14 contract and an argument expression that respects row equality -/
def AggGood (x : AggSpec) : Prop :=
  AggOK x.f ∧ ∀ a b : Row, rowEq a b = true → cmp (x.arg a) (x.arg b) = 0

theorem congr_nonnull (x : AggSpec) (hx : AggGood x) : RowCongr fun row => !isNull (x.arg row) := by
  intro a b h
  show (!isNull (x.arg a)) = (!isNull (x.arg b))
  rw [isNull_congr (hx.2 a b h)]

theorem congr_value (x : AggSpec) (hx : AggGood x) (v : Value) :
    RowCongr fun row => !isNull (x.arg row) && (cmp (x.arg row) v == 0) := by
  intro a b h
  show (!isNull (x.arg a) && (cmp (x.arg a) v == 0)) = (!isNull (x.arg b) && (cmp (x.arg b) v == 0))
  rw [isNull_congr (hx.2 a b h), cmp_zero_congr (hx.2 a b h)]

theorem validHist_histOf (x : AggSpec) (hx : AggGood x) (g : List Rec) (hv : ValidLog g) :
    ValidHist (histOf x g) := by
  intro n v
  obtain ⟨m, hm⟩ := take_filter_exists (fun r : Rec => !isNull (x.arg r.vals)) g n
  have h1 : (histOf x g).take n = histOf x (g.take m) := by
    unfold histOf
    rw [← List.map_take, hm]
  rw [h1, netH_histOf]
  apply countOf_nonneg
  intro row
  rw [net_filter _ (congr_value x hx v)]
  split
  · exact hv _ row
  · exact Int.le_refl 0

/-- the aggregate columns of a group depend (up to `Compare == 0`) only on the group's net multiplicities -/
theorem specResults_congr (aggs : List AggSpec) (hA : ∀ x ∈ aggs, AggGood x) (g₁ g₂ : List Rec)
    (hnet : ∀ row, net g₁ row = net g₂ row) (hv₁ : ValidLog g₁) (hv₂ : ValidLog g₂) :
    cmpList (specResults aggs g₁) (specResults aggs g₂) = 0 := by
  induction aggs with
  | nil => simp [specResults, cmpListWith]
  | cons x xs ih =>
    have hx := hA x (by simp)
    have hsize : histSize (histOf x g₁) = histSize (histOf x g₂) := by
      rw [histSize_histOf, histSize_histOf]
      apply count_eq_of_net_eq
      intro row
      rw [net_filter _ (congr_nonnull x hx), net_filter _ (congr_nonnull x hx), hnet row]
    have hhead : cmp (if histSize (histOf x g₁) > 0 then x.f (histOf x g₁) else .null)
        (if histSize (histOf x g₂) > 0 then x.f (histOf x g₂) else .null) = 0 := by
      rw [hsize]
      split
      · apply hx.1 _ _ (validHist_histOf x hx g₁ hv₁) (validHist_histOf x hx g₂ hv₂)
        intro v
        rw [netH_histOf, netH_histOf]
        apply count_eq_of_net_eq
        intro row
        rw [net_filter _ (congr_value x hx v), net_filter _ (congr_value x hx v), hnet row]
      · rfl
    have htail := ih (fun y hy => hA y (by simp [hy]))
    simp only [specResults, List.map_cons, cmpListWith] at htail ⊢
    simp [hhead, htail]

/-! ### the records of a group since its count was last zero -/
def liveStep (acc : List Rec) (r : Rec) : List Rec := if countOf (acc ++ [r]) == 0 then [] else acc ++ [r]
def live (g : List Rec) : List Rec := g.foldl liveStep []

theorem live_snoc (g : List Rec) (r : Rec) : live (g ++ [r]) = liveStep (live g) r := by
  simp [live, List.foldl_append]

theorem foldl_live_split (g acc d₀ : List Rec) (hd : countOf d₀ = 0) :
    ∃ d, d₀ ++ acc ++ g = d ++ g.foldl liveStep acc ∧ countOf d = 0 := by
  induction g generalizing acc d₀ with
  | nil => exact ⟨d₀, by simp, hd⟩
  | cons r rs ih =>
    simp only [List.foldl_cons, liveStep]
    by_cases hc : countOf (acc ++ [r]) = 0
    · have hb : (countOf (acc ++ [r]) == 0) = true := by simpa using hc
      simp only [hb, if_true]
      obtain ⟨d, h1, h2⟩ := ih [] (d₀ ++ (acc ++ [r])) (by rw [countOf_append]; omega)
      exact ⟨d, by simpa using h1, h2⟩
    · have hb : (countOf (acc ++ [r]) == 0) = false := by simpa using hc
      simp only [hb, Bool.false_eq_true, if_false]
      obtain ⟨d, h1, h2⟩ := ih (acc ++ [r]) d₀ hd
      exact ⟨d, by simpa using h1, h2⟩

/-- a group's records are a prefix that cancels out followed by the live records -/
theorem live_split (g : List Rec) : ∃ d, g = d ++ live g ∧ countOf d = 0 := by
  obtain ⟨d, h1, h2⟩ := foldl_live_split g [] [] rfl
  exact ⟨d, by simpa [live] using h1, h2⟩

theorem foldl_live_nonzero (g acc : List Rec) (h : acc = [] ∨ countOf acc ≠ 0) :
    g.foldl liveStep acc = [] ∨ countOf (g.foldl liveStep acc) ≠ 0 := by
  induction g generalizing acc with
  | nil => exact h
  | cons r rs ih =>
    simp only [List.foldl_cons]
    apply ih
    simp only [liveStep]
    by_cases hc : countOf (acc ++ [r]) = 0
    · left; simp [hc]
    · right
      have hb : (countOf (acc ++ [r]) == 0) = false := by simpa using hc
      simp only [hb, Bool.false_eq_true, if_false]; exact hc

theorem live_nonzero (g : List Rec) : live g = [] ∨ countOf (live g) ≠ 0 :=
  foldl_live_nonzero g [] (Or.inl rfl)

theorem countOf_live (g : List Rec) : countOf (live g) = countOf g := by
  obtain ⟨d, h1, h2⟩ := live_split g
  have : countOf g = countOf d + countOf (live g) := by
    have := congrArg countOf h1
    rw [countOf_append] at this; exact this
  omega

/-! ### the `aggregates` tree in terms of the live records -/
def cellsOf (aggs : List AggSpec) (g : List Rec) : List (Hist × Int) :=
  aggs.map fun a => (histOf a g, histSize (histOf a g))

theorem results_cellsOf (aggs : List AggSpec) (g : List Rec) : results aggs (cellsOf aggs g) = specResults aggs g := by
  induction aggs with
  | nil => rfl
  | cons a as ih => simp only [cellsOf, List.map_cons, results, specResults] at *; rw [ih]

theorem updCells_cellsOf (aggs : List AggSpec) (g : List Rec) (r : Rec) :
    updCells r.retr r.vals aggs (cellsOf aggs g) = cellsOf aggs (g ++ [r]) := by
  induction aggs with
  | nil => rfl
  | cons a as ih =>
    simp only [cellsOf, List.map_cons, updCells] at *
    rw [ih]
    congr 1
    simp only [histOf_append, histSize_append]
    cases hn : isNull (a.arg r.vals)
    · simp only [Bool.false_eq_true, if_false, histOf, List.filter_cons, hn, Bool.not_false, if_true,
        List.filter_nil, List.map_cons, List.map_nil, histSize, List.sum_cons, List.sum_nil]
      cases r.retr <;> simp <;> omega
    · simp [histOf, hn, histSize]

theorem freshItem_cells (aggs : List AggSpec) : (freshItem aggs).cells = cellsOf aggs [] := by
  simp [freshItem, cellsOf, histOf, histSize]

/-- per group: absent from the tree when there are no live records, otherwise the histories, set sizes and
    record count of the live records -/
def AggsInv (C : GBConf) (aggs : List (Key × AggItem)) (rs : List Rec) : Prop :=
  ∀ k, (find keyLess k aggs).map (fun ki => (ki.2.cells, ki.2.count)) =
    if (live (ofKey C k rs)).isEmpty then none
    else some (cellsOf C.aggs (live (ofKey C k rs)), countOf (live (ofKey C k rs)))

theorem ofKey_snoc (C : GBConf) (k : Key) (rs : List Rec) (r : Rec) :
    ofKey C k (rs ++ [r]) = if keq (C.keyOf r.vals) k then ofKey C k rs ++ [r] else ofKey C k rs := by
  simp only [ofKey, List.filter_append, List.filter_cons, List.filter_nil]
  show _ = if (cmpList (C.keyOf r.vals) k == 0) = true then _ else _
  split <;> simp

theorem aggsInv_step (C : GBConf) (aggs : List (Key × AggItem)) (rs : List Rec) (r : Rec)
    (h : AggsInv C aggs rs) : AggsInv C (updAggs C r aggs) (rs ++ [r]) := by
  intro k
  rw [ofKey_snoc]
  by_cases hq : keq (C.keyOf r.vals) k = true
  · -- the record's own group
    have hfk : find keyLess (C.keyOf r.vals) aggs = find keyLess k aggs := find_key_congr hq aggs
    have hk := h k
    simp only [hq, if_true, live_snoc, liveStep]
    simp only [updAggs, hfk]
    have hsign : ∀ c : Int, (if r.retr then c - 1 else c + 1) = c + countOf [r] := by
      intro c; simp only [countOf, List.map_cons, List.map_nil, List.sum_cons, List.sum_nil, sign]
      cases r.retr <;> simp <;> omega
    cases hf : find keyLess k aggs with
    | none =>
      rw [hf] at hk
      simp only [Option.map_none] at hk
      have hl : live (ofKey C k rs) = [] := by
        cases hl : live (ofKey C k rs) with
        | nil => rfl
        | cons x xs => rw [hl] at hk; simp at hk
      have he : eqv keyLess (C.keyOf r.vals) k = true := by rw [eqv_keyLess]; exact hq
      simp only [hl, List.nil_append, freshItem_cells, updCells_cellsOf, hsign]
      have hc0 : (freshItem C.aggs).count = 0 := rfl
      rw [hc0]
      have hne : countOf [r] ≠ 0 := by
        simp only [countOf, List.map_cons, List.map_nil, List.sum_cons, List.sum_nil]
        rcases sign_ne_zero r with h1 | h1 <;> rw [h1] <;> decide
      have hb : ((0 : Int) + countOf [r] == 0) = false := by simp; exact hne
      have hb2 : (countOf [r] == 0) = false := by simp; exact hne
      simp only [hb, hb2, Bool.false_eq_true, if_false, find_insert keyLaws, he, if_true, Option.map_some,
        List.isEmpty_cons]
      simp
    | some ki =>
      rw [hf] at hk
      simp only [Option.map_some] at hk
      have hne : (live (ofKey C k rs)).isEmpty = false := by
        cases hl : (live (ofKey C k rs)).isEmpty
        · rfl
        · rw [hl] at hk; simp at hk
      rw [hne] at hk
      simp only [Bool.false_eq_true, if_false, Option.some.injEq, Prod.mk.injEq] at hk
      have hq2 := (find_some_mem hf).2
      have he : eqv keyLess ki.1 k = true := by rw [eqv_comm]; exact hq2
      simp only [hk.1, hk.2, updCells_cellsOf, hsign, ← countOf_append]
      by_cases hc : countOf (live (ofKey C k rs) ++ [r]) = 0
      · have hb : (countOf (live (ofKey C k rs) ++ [r]) == 0) = true := by simpa using hc
        simp only [hb, if_true, find_erase keyLaws, he, Option.map_none, List.isEmpty_nil]
      · have hb : (countOf (live (ofKey C k rs) ++ [r]) == 0) = false := by simpa using hc
        simp only [hb, Bool.false_eq_true, if_false, find_insert keyLaws, he, if_true, Option.map_some]
        have : (live (ofKey C k rs) ++ [r]).isEmpty = false := by simp
        simp [this]
  · -- another group: untouched
    have hq' : keq (C.keyOf r.vals) k = false := by simpa using hq
    simp only [hq', Bool.false_eq_true, if_false, find_updAggs_other r aggs k hq']
    exact h k

theorem aggsInv_fold (C : GBConf) (aggs : List (Key × AggItem)) (rs₀ rs : List Rec) (h : AggsInv C aggs rs₀) :
    AggsInv C (rs.foldl (fun a r => updAggs C r a) aggs) (rs₀ ++ rs) := by
  induction rs generalizing aggs rs₀ with
  | nil => simpa using h
  | cons r rs ih =>
    have := ih _ (rs₀ ++ [r]) (aggsInv_step C aggs rs₀ r h)
    simpa using this

theorem aggsInv_after (C : GBConf) (rs : List Rec) : AggsInv C (aggsAfter C rs) rs := by
  have := aggsInv_fold C [] [] rs (fun k => by simp [find, ofKey, live])
  simpa [aggsAfter] using this

/-! ### the table is the batch grouping -/
/-- the requirements on the node's expressions and aggregates -/
structure ConfGood (C : GBConf) (nk : Nat) : Prop where
  keyLen : KeyLen C nk
  keyCongr : ∀ a b : Row, rowEq a b = true → keq (C.keyOf a) (C.keyOf b) = true
  aggs : ∀ x ∈ C.aggs, AggGood x

theorem congr_ofKey (C : GBConf) (nk : Nat) (hC : ConfGood C nk) (k : Key) :
    RowCongr fun row => cmpList (C.keyOf row) k == 0 := by
  intro a b h
  exact keq_congr_left (hC.keyCongr a b h) k

theorem validLog_ofKey (C : GBConf) (nk : Nat) (hC : ConfGood C nk) (k : Key) (rs : List Rec) (hv : ValidLog rs) :
    ValidLog (ofKey C k rs) :=
  validLog_filter _ (congr_ofKey C nk hC k) rs hv

theorem validLog_live (g : List Rec) (hv : ValidLog g) :
    ValidLog (live g) ∧ ∀ row, net (live g) row = net g row := by
  obtain ⟨d, h1, h2⟩ := live_split g
  have hd : ∀ row, net d row = 0 := by
    intro row
    apply net_zero_of_count_zero d _ h2
    intro row'
    have := hv d.length row'
    rw [h1, List.take_append_length] at this
    exact this
  have hnet : ∀ row, net (live g) row = net g row := by
    intro row
    have := congrArg (fun l => net l row) h1
    simp only [net_append] at this
    rw [hd row] at this
    omega
  refine ⟨fun n row => ?_, hnet⟩
  have := hv (d.length + n) row
  rw [h1, List.take_length_add_append, net_append, hd row] at this
  omega

theorem table_eq_spec (C : GBConf) (nk : Nat) (hC : ConfGood C nk) (rs : List Rec) (hv : ValidLog rs) (row : Row) :
    tableOf C nk (aggsAfter C rs) row = groupSpec C nk rs row := by
  have hinv := aggsInv_after C rs (row.take nk)
  have hvg := validLog_ofKey C nk hC (row.take nk) rs hv
  obtain ⟨hvl, hnet⟩ := validLog_live _ hvg
  simp only [tableOf, curRow_eq, groupSpec]
  rw [← countOf_live]
  cases hf : find keyLess (row.take nk) (aggsAfter C rs) with
  | none =>
    rw [hf] at hinv
    simp only [Option.map_none] at hinv
    have hl : live (ofKey C (row.take nk) rs) = [] := by
      cases hl : live (ofKey C (row.take nk) rs) with
      | nil => rfl
      | cons x xs => rw [hl] at hinv; simp at hinv
    simp [hl, countOf]
  | some ki =>
    rw [hf] at hinv
    simp only [Option.map_some] at hinv
    have hne : (live (ofKey C (row.take nk) rs)).isEmpty = false := by
      cases hl : (live (ofKey C (row.take nk) rs)).isEmpty
      · rfl
      · rw [hl] at hinv; simp at hinv
    rw [hne] at hinv
    simp only [Bool.false_eq_true, if_false, Option.some.injEq, Prod.mk.injEq] at hinv
    have hcnt : countOf (live (ofKey C (row.take nk) rs)) ≠ 0 := by
      rcases live_nonzero (ofKey C (row.take nk) rs) with h1 | h1
      · rw [h1] at hne; simp at hne
      · exact h1
    have hres := specResults_congr C.aggs hC.aggs _ _ hnet hvl hvg
    have hrow : rowEq (row.take nk ++ results C.aggs ki.2.cells) row =
        rowEq (row.take nk ++ specResults C.aggs (ofKey C (row.take nk) rs)) row := by
      rw [hinv.1, results_cellsOf, rowEq_eq_keq, rowEq_eq_keq]
      exact keq_congr_left (keq_iff.mpr (cmpList_append_left _ hres)) row
    simp only [Option.map_some, hrow]
    have hb : (countOf (live (ofKey C (row.take nk) rs)) != 0) = true := by simpa using hcnt
    simp [hb]

/-- the batch grouping depends on the records only through their net multiplicities -/
theorem groupSpec_congr (C : GBConf) (nk : Nat) (hC : ConfGood C nk) (rs₁ rs₂ : List Rec)
    (hnet : ∀ row, net rs₁ row = net rs₂ row) (hv₁ : ValidLog rs₁) (hv₂ : ValidLog rs₂) (row : Row) :
    groupSpec C nk rs₁ row = groupSpec C nk rs₂ row := by
  have hg : ∀ row', net (ofKey C (row.take nk) rs₁) row' = net (ofKey C (row.take nk) rs₂) row' := by
    intro row'
    simp only [ofKey]
    rw [net_filter _ (congr_ofKey C nk hC _), net_filter _ (congr_ofKey C nk hC _), hnet row']
  have hcnt := count_eq_of_net_eq _ _ hg
  have hres := specResults_congr C.aggs hC.aggs _ _ hg (validLog_ofKey C nk hC _ rs₁ hv₁) (validLog_ofKey C nk hC _ rs₂ hv₂)
  simp only [groupSpec, hcnt]
  have : rowEq (row.take nk ++ specResults C.aggs (ofKey C (row.take nk) rs₁)) row =
      rowEq (row.take nk ++ specResults C.aggs (ofKey C (row.take nk) rs₂)) row := by
    rw [rowEq_eq_keq, rowEq_eq_keq]
    exact keq_congr_left (keq_iff.mpr (cmpList_append_left _ hres)) row
  rw [this]

end Octo.Trig
