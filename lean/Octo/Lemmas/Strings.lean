import Octo.Model.Strings
import Octo.Lemmas.Utf8
/-!
  Lemmas about `indexOf` (strings.Index), the `strings.Replace` loop, `substr` and `reverse`.
-/
namespace Octo.Str
open Octo.Utf8

/-! ### Index -/

theorem isPrefixOf_iff (a b : Bytes) : a.isPrefixOf b = true ↔ a <+: b := List.isPrefixOf_iff_prefix

theorem indexOf_some {sub : Bytes} : ∀ {s : Bytes} {i : Nat}, indexOf sub s = some i →
    i ≤ s.length ∧ sub <+: s.drop i ∧ ∀ j, j < i → ¬ sub <+: s.drop j := by
  intro s
  induction s with
  | nil =>
    intro i h
    simp only [indexOf] at h
    split at h
    · rename_i he
      cases h
      have : sub = [] := by simpa using he
      subst this
      simp
    · cases h
  | cons b rest ih =>
    intro i h
    simp only [indexOf] at h
    split at h
    · rename_i hp
      cases h
      exact ⟨Nat.zero_le _, by simpa using (isPrefixOf_iff _ _).1 hp, fun j hj => absurd hj (Nat.not_lt_zero _)⟩
    · rename_i hp
      cases hr : indexOf sub rest with
      | none => simp [hr] at h
      | some i' =>
        simp [hr] at h
        subst h
        obtain ⟨h1, h2, h3⟩ := ih hr
        refine ⟨by simp; omega, by simpa using h2, ?_⟩
        intro j hj
        cases j with
        | zero => simpa using fun hx => hp ((isPrefixOf_iff _ _).2 hx)
        | succ j' => simpa using h3 j' (by omega)

theorem indexOf_none {sub : Bytes} : ∀ {s : Bytes}, indexOf sub s = none → ∀ j, ¬ sub <+: s.drop j := by
  intro s
  induction s with
  | nil =>
    intro h j
    simp only [indexOf] at h
    split at h
    · cases h
    · rename_i he
      simp only [List.drop_nil, List.prefix_nil]
      intro hx; subst hx; simp at he
  | cons b rest ih =>
    intro h j
    simp only [indexOf] at h
    split at h
    · cases h
    · rename_i hp
      cases hr : indexOf sub rest with
      | some i' => simp [hr] at h
      | none =>
        cases j with
        | zero => simpa using fun hx => hp ((isPrefixOf_iff _ _).2 hx)
        | succ j' => simpa using ih hr j'

/-- a needle that occurs somewhere is found -/
theorem indexOf_isSome_of_occurs {sub s : Bytes} {j : Nat} (h : sub <+: s.drop j) : (indexOf sub s).isSome = true := by
  cases hi : indexOf sub s with
  | some i => rfl
  | none => exact absurd h (indexOf_none hi j)

/-! ### Replace -/

/-- `out` is `s` with every occurrence of `old` replaced by `new`, scanning left to right, occurrences not
    overlapping: either `old` does not occur in `s` and `out = s`, or `s = pre ++ old ++ rest` where this
    occurrence is the first one (none starts before `pre.length`), and `out = pre ++ new ++ out'` with
    `out'` the replacement of `rest`. -/
inductive Replaced (old new : Bytes) : Bytes → Bytes → Prop
  | done {s : Bytes} : (∀ j, ¬ old <+: s.drop j) → Replaced old new s s
  | step {pre rest out : Bytes} :
      (∀ j, j < pre.length → ¬ old <+: (pre ++ old ++ rest).drop j) →
      Replaced old new rest out → Replaced old new (pre ++ old ++ rest) (pre ++ new ++ out)

theorem split_at_occurrence {old s : Bytes} {j : Nat} (hj : j ≤ s.length) (h : old <+: s.drop j) :
    s = s.take j ++ old ++ s.drop (j + old.length) ∧ (s.take j).length = j := by
  obtain ⟨t, ht⟩ := h
  have h1 : s = s.take j ++ s.drop j := (List.take_append_drop j s).symm
  have h2 : s.drop (j + old.length) = t := by
    rw [← List.drop_drop, ← ht]; simp
  refine ⟨?_, by simp; omega⟩
  rw [h2, List.append_assoc, ht]; exact h1

theorem replaceLoop_spec (old new : Bytes) (hold : old ≠ []) :
    ∀ (fuel : Nat) (s : Bytes), s.length < fuel → Replaced old new s (replaceLoop old new fuel s) := by
  intro fuel
  induction fuel with
  | zero => intro s h; exact absurd h (Nat.not_lt_zero _)
  | succ fuel ih =>
    intro s hs
    simp only [replaceLoop]
    cases hi : indexOf old s with
    | none => exact .done (indexOf_none hi)
    | some j =>
      obtain ⟨h1, h2, h3⟩ := indexOf_some hi
      obtain ⟨e, hl⟩ := split_at_occurrence h1 h2
      have hpos : 0 < old.length := List.length_pos_iff.2 hold
      have hle : old.length ≤ s.length - j := by simpa using h2.length_le
      have hr : (s.drop (j + old.length)).length < fuel := by
        rw [List.length_drop]; omega
      have := Replaced.step (old := old) (new := new) (pre := s.take j) (rest := s.drop (j + old.length))
        (by rw [← e, hl]; exact h3) (ih _ hr)
      rw [← e] at this
      exact this

/-- the specification determines the result -/
theorem Replaced.unique {old new : Bytes} {s o1 : Bytes} (h1 : Replaced old new s o1) :
    ∀ {o2}, Replaced old new s o2 → o1 = o2 := by
  induction h1 with
  | done hno =>
    intro o2 h2
    cases h2 with
    | done _ => rfl
    | @step pre rest out _ _ =>
      exfalso
      apply hno pre.length
      simp
  | @step pre rest out hfirst _ ih =>
    intro o2 h2
    generalize hs : pre ++ old ++ rest = s at h2
    cases h2 with
    | done hno =>
      exfalso
      apply hno pre.length
      rw [← hs]; simp
    | @step pre2 rest2 out2 hfirst2 hrest2 =>
      have occ1 : old <+: (pre ++ old ++ rest).drop pre.length := by simp
      have occ2 : old <+: (pre2 ++ old ++ rest2).drop pre2.length := by simp
      have hlen : pre.length = pre2.length := by
        rcases Nat.lt_trichotomy pre.length pre2.length with h | h | h
        · exact absurd (hs ▸ occ1) (hfirst2 _ h)
        · exact h
        · exact absurd (hs ▸ occ2) (hfirst _ h)
      have hs' : pre ++ (old ++ rest) = pre2 ++ (old ++ rest2) := by simpa using hs
      obtain ⟨e1, e2⟩ := List.append_inj hs' hlen
      have e3 : rest = rest2 := List.append_cancel_left e2
      subst e1; subst e3
      rw [ih hrest2]

/-- nothing to replace: the string is returned unchanged -/
theorem Replaced.of_no_occurrence {old new s out : Bytes} (h : Replaced old new s out)
    (hno : ∀ j, ¬ old <+: s.drop j) : out = s :=
  (Replaced.unique h (.done hno))

/-! ### the single-scan formulation (the oracle `judge` evaluates) meets the same specification -/

theorem replaceScan_skip (old new : Bytes) : ∀ (k : Nat) (s : Bytes), k ≤ s.length →
    replaceScan old new k s = replaceScan old new 0 (s.drop k) := by
  intro k
  induction k with
  | zero => intro s _; rfl
  | succ k ih =>
    intro s hk
    cases s with
    | nil => simp at hk
    | cons b rest =>
      simp only [replaceScan, List.drop_succ_cons]
      exact ih rest (by simpa using hk)

theorem Replaced.cons {old new : Bytes} {b : UInt8} {rest out : Bytes} (hb : ¬ old <+: b :: rest)
    (h : Replaced old new rest out) : Replaced old new (b :: rest) (b :: out) := by
  cases h with
  | done hno =>
    refine .done ?_
    intro j
    cases j with
    | zero => simpa using hb
    | succ j => simpa using hno j
  | @step pre rest' out' hfirst hrest =>
    have := Replaced.step (old := old) (new := new) (pre := b :: pre) (rest := rest') (out := out') (by
      intro j hj
      cases j with
      | zero => simpa using hb
      | succ j => simpa using hfirst j (by simpa using hj)) hrest
    simpa using this

theorem replaceScan_spec (old new : Bytes) (hold : old ≠ []) :
    ∀ (n : Nat) (s : Bytes), s.length ≤ n → Replaced old new s (replaceScan old new 0 s) := by
  intro n
  induction n with
  | zero =>
    intro s hs
    have : s = [] := by cases s <;> simp_all
    subst this
    simp only [replaceScan]
    refine .done ?_
    intro j hj
    simp at hj
    exact hold hj
  | succ n ih =>
    intro s hs
    cases s with
    | nil =>
      simp only [replaceScan]
      refine .done ?_
      intro j hj
      simp at hj
      exact hold hj
    | cons b rest =>
      simp only [replaceScan]
      split
      · rename_i hp
        have hpre : old <+: b :: rest := (isPrefixOf_iff _ _).1 hp
        obtain ⟨t, ht⟩ := hpre
        have hpos : 0 < old.length := List.length_pos_iff.2 hold
        have hlen : old.length - 1 ≤ rest.length := by
          have := congrArg List.length ht
          simp at this; omega
        rw [replaceScan_skip old new _ rest hlen]
        have hd : rest.drop (old.length - 1) = t := by
          have h1 : (b :: rest).drop old.length = t := by rw [← ht]; simp
          have h2 : old.length = (old.length - 1) + 1 := by omega
          rw [h2, List.drop_succ_cons] at h1
          exact h1
        rw [hd]
        have ht_len : t.length ≤ n := by
          have := congrArg List.length ht
          simp at this hs; omega
        have := Replaced.step (old := old) (new := new) (pre := []) (rest := t) (out := replaceScan old new 0 t)
          (by intro j hj; simp at hj) (ih t ht_len)
        simp only [List.nil_append] at this
        rw [ht] at this
        exact this
      · rename_i hp
        exact Replaced.cons (fun hx => hp ((isPrefixOf_iff _ _).2 hx)) (ih rest (by simpa using hs))

/-! ### Replace with an empty `old` -/

theorem replaceEmptySkip_skip (new xs t : Bytes) :
    replaceEmptySkip new xs.length (xs ++ t) = xs ++ replaceEmptySkip new 0 t := by
  induction xs with
  | nil => rfl
  | cons x xs ih =>
    cases h : xs ++ t with
    | nil =>
      have := List.append_eq_nil_iff.1 h
      simp [this.1, this.2, replaceEmptySkip]
    | cons y ys =>
      simp only [List.length_cons, List.cons_append, h, replaceEmptySkip]
      rw [← h, ih]

theorem replaceEmpty_encodeRune (new : Bytes) (r : Nat) (hv : validRune r = true) (t : Bytes) :
    replaceEmptySkip new 0 (encodeRune r ++ t) = new ++ encodeRune r ++ replaceEmptySkip new 0 t := by
  have hd := decodeRune_encodeRune r hv t
  have hp := encodeRune_length_pos r
  cases he : encodeRune r with
  | nil => simp [he] at hp
  | cons b xs =>
    rw [he] at hd
    simp only [List.cons_append] at hd ⊢
    simp only [replaceEmptySkip, hd, List.length_cons, Nat.add_sub_cancel]
    rw [replaceEmptySkip_skip]
    simp

theorem replace_empty_spec (rs : List Nat) (hv : ∀ r ∈ rs, validRune r = true) (new : Bytes) :
    replace (encodeAll rs) [] new = new ++ rs.flatMap (fun r => encodeRune r ++ new) := by
  simp only [replace, List.isEmpty_nil, if_true]
  induction rs with
  | nil => simp [encodeAll, replaceEmptySkip]
  | cons r rs ih =>
    simp only [encodeAll, List.flatMap_cons]
    rw [replaceEmpty_encodeRune new r (hv r (by simp))]
    have := ih (fun x hx => hv x (by simp [hx]))
    simp only [encodeAll] at this
    rw [this]
    simp

/-! ### substr -/

theorem substr3_ok (s : Bytes) (start len : Int) (h1 : 0 ≤ start) (h2 : 0 ≤ len) :
    substr3 s start len = .ok ((s.drop start.toNat).take len.toNat) := by
  unfold substr3
  rw [if_neg (by omega), if_neg (by omega)]
  by_cases h3 : (s.length : Int) ≤ start
  · rw [if_pos h3]
    have : s.drop start.toNat = [] := List.drop_eq_nil_of_le (by omega)
    simp [this]
  · rw [if_neg h3]
    simp only [slice]
    by_cases h4 : len < (s.length : Int) - start
    · rw [if_pos h4]
      have : (start + len).toNat - start.toNat = len.toNat := by omega
      rw [this]
    · rw [if_neg h4]
      have e1 : ((s.length : Int)).toNat - start.toNat = (s.drop start.toNat).length := by simp
      rw [e1, List.take_length]
      rw [List.take_of_length_le]
      simp; omega

theorem substr2_ok (s : Bytes) (start : Int) (h1 : 0 ≤ start) :
    substr2 s start = .ok (s.drop start.toNat) := by
  unfold substr2
  rw [if_neg (by omega)]
  by_cases h3 : (s.length : Int) ≤ start
  · rw [if_pos h3]
    have : s.drop start.toNat = [] := List.drop_eq_nil_of_le (by omega)
    rw [this]
  · rw [if_neg h3]

/-! ### reverse -/

theorem decodeAll_reverse (s : Bytes) : decodeAll (reverse s) = (decodeAll s).reverse := by
  unfold reverse
  apply decodeAll_encodeAll
  intro r hr
  exact decodeAll_valid s r (by simpa using hr)

theorem reverse_encodeAll (rs : List Nat) (hv : ∀ r ∈ rs, validRune r = true) :
    reverse (encodeAll rs) = encodeAll rs.reverse := by
  unfold reverse
  rw [decodeAll_encodeAll rs hv]

theorem reverse_reverse_of_valid (s : Bytes) (h : validUtf8 s = true) : reverse (reverse s) = s := by
  have hs : encodeAll (decodeAll s) = s := by simpa [validUtf8] using h
  have : reverse (reverse s) = encodeAll (decodeAll (reverse s)).reverse := rfl
  rw [this, decodeAll_reverse, List.reverse_reverse, hs]

end Octo.Str
