import Octo.Lemmas.PlanRemoveRule
/-!
  The side conditions of the removal rules (`Removable` for every Map / datasource field, no group-by) survive every
  rewrite of the optimizer: `Sub q q'` says that `q'` is no harder to prune than `q`.
-/
namespace Octo.Plan
open Octo

def allMapFields : Plan → List String
  | .un s (.map _) _ => s.fields
  | _ => []

def allDsFields : Plan → List String
  | .leaf s (.ds _ _ _ _ _) => s.fields
  | _ => []

/-- the aggregate (non-key) fields of a group-by node -/
def allGbFields : Plan → List String
  | .un s (.groupBy _ _ key _ _) _ => s.fields.drop key.length
  | _ => []

/-- every field a removal rule may pick can be removed without being noticed (and belongs to one kind of node only) -/
structure Prunable (p : Plan) : Prop where
  maps : ∀ f ∈ collectFields allMapFields p, Removable f p ∧ NoGroupByHas f p
  dss : ∀ f ∈ collectFields allDsFields p, Removable f p ∧ NoMapHas f p ∧ NoGroupByHas f p
  gbs : ∀ f ∈ collectFields allGbFields p, Removable f p ∧ NoMapHas f p

/-- `q'` is no harder to prune than `q` -/
structure Sub (q q' : Plan) : Prop where
  rem : ∀ f, Removable f q → Removable f q'
  nomap : ∀ f, NoMapHas f q → NoMapHas f q'
  mapf : ∀ f, f ∈ collectFields allMapFields q' → f ∈ collectFields allMapFields q
  dsf : ∀ f, f ∈ collectFields allDsFields q' → f ∈ collectFields allDsFields q
  nogbh : ∀ f, NoGroupByHas f q → NoGroupByHas f q'
  gbf : ∀ f, f ∈ collectFields allGbFields q' → f ∈ collectFields allGbFields q

theorem Sub.refl (q : Plan) : Sub q q := ⟨fun _ h => h, fun _ h => h, fun _ h => h, fun _ h => h, fun _ h => h, fun _ h => h⟩

theorem Sub.trans {a b c : Plan} (h1 : Sub a b) (h2 : Sub b c) : Sub a c :=
  ⟨fun f h => h2.rem f (h1.rem f h), fun f h => h2.nomap f (h1.nomap f h), fun f h => h1.mapf f (h2.mapf f h),
   fun f h => h1.dsf f (h2.dsf f h), fun f h => h2.nogbh f (h1.nogbh f h), fun f h => h1.gbf f (h2.gbf f h)⟩

theorem Prunable.of_sub {q q' : Plan} (hp : Prunable q) (hs : Sub q q') : Prunable q' :=
  ⟨fun f hf => ⟨hs.rem f (hp.maps f (hs.mapf f hf)).1, hs.nogbh f (hp.maps f (hs.mapf f hf)).2⟩,
   fun f hf => ⟨hs.rem f (hp.dss f (hs.dsf f hf)).1, hs.nomap f (hp.dss f (hs.dsf f hf)).2.1,
     hs.nogbh f (hp.dss f (hs.dsf f hf)).2.2⟩,
   fun f hf => ⟨hs.rem f (hp.gbs f (hs.gbf f hf)).1, hs.nomap f (hp.gbs f (hs.gbf f hf)).2⟩⟩

/-! ### compositionality -/

theorem Sub.un {s : Schema} {k : Un} {src src' : Plan} (h : Sub src src') (hsf : src'.fields = src.fields) :
    Sub (.un s k src) (.un s k src') := by
  refine ⟨?_, ?_, ?_, ?_, ?_, ?_⟩
  · intro f hr
    simp only [Removable] at hr ⊢
    refine ⟨h.rem f hr.1, ?_⟩
    cases k <;> first | exact hr.2 | (simpa only [hsf] using hr.2)
  · intro f hn
    cases k <;> simp only [NoMapHas] at hn ⊢ <;> first | exact ⟨hn.1, h.nomap f hn.2⟩ | exact h.nomap f hn
  · intro f hf
    simp only [collectFields, List.mem_append] at hf ⊢
    rcases hf with hf | hf
    · exact Or.inl (h.mapf f hf)
    · refine Or.inr ?_
      cases k <;> exact hf
  · intro f hf
    simp only [collectFields, List.mem_append] at hf ⊢
    rcases hf with hf | hf
    · exact Or.inl (h.dsf f hf)
    · refine Or.inr ?_
      cases k <;> exact hf
  · intro f hn
    cases k <;> simp only [NoGroupByHas] at hn ⊢ <;> first | exact ⟨hn.1, h.nogbh f hn.2⟩ | exact h.nogbh f hn
  · intro f hf
    simp only [collectFields, List.mem_append] at hf ⊢
    rcases hf with hf | hf
    · exact Or.inl (h.gbf f hf)
    · refine Or.inr ?_
      cases k <;> exact hf

theorem Sub.bin {s : Schema} {k : Bin} {l l' r r' : Plan} (hl : Sub l l') (hr : Sub r r') (hlf : l'.fields = l.fields) :
    Sub (.bin s k l r) (.bin s k l' r') := by
  refine ⟨?_, ?_, ?_, ?_, ?_, ?_⟩
  · intro f h
    simp only [Removable] at h ⊢
    refine ⟨hl.rem f h.1, hr.rem f h.2.1, ?_⟩
    cases k with
    | sjoin lk rk => trivial
    | ljoin => simpa [hlf] using h.2.2
    | ojoin a b c d => trivial
  · intro f h
    simp only [NoMapHas] at h ⊢
    exact ⟨hl.nomap f h.1, hr.nomap f h.2⟩
  · intro f hf
    simp only [collectFields, List.mem_append] at hf ⊢
    rcases hf with (hf | hf) | hf
    · exact Or.inl (Or.inl (hl.mapf f hf))
    · exact Or.inl (Or.inr (hr.mapf f hf))
    · exact Or.inr hf
  · intro f hf
    simp only [collectFields, List.mem_append] at hf ⊢
    rcases hf with (hf | hf) | hf
    · exact Or.inl (Or.inl (hl.dsf f hf))
    · exact Or.inl (Or.inr (hr.dsf f hf))
    · exact Or.inr hf
  · intro f h
    simp only [NoGroupByHas] at h ⊢
    exact ⟨hl.nogbh f h.1, hr.nogbh f h.2⟩
  · intro f hf
    simp only [collectFields, List.mem_append] at hf ⊢
    rcases hf with (hf | hf) | hf
    · exact Or.inl (Or.inl (hl.gbf f hf))
    · exact Or.inl (Or.inr (hr.gbf f hf))
    · exact Or.inr hf

/-- putting a filter on top changes nothing for the removal rules -/
theorem Sub.addFilter (s : Schema) (e : PExpr) (p : Plan) : Sub p (.un s (.filter e) p) := by
  refine ⟨?_, ?_, ?_, ?_, ?_, ?_⟩
  · intro f h
    simp only [Removable]
    exact ⟨h, trivial⟩
  · intro f h
    simpa only [NoMapHas] using h
  · intro f hf
    simpa [collectFields, allMapFields] using hf
  · intro f hf
    simpa [collectFields, allDsFields] using hf
  · intro f h
    simpa only [NoGroupByHas] using h
  · intro f hf
    simpa [collectFields, allGbFields] using hf

/-- … and so does taking it away -/
theorem Sub.dropFilter (s : Schema) (e : PExpr) (p : Plan) : Sub (.un s (.filter e) p) p := by
  refine ⟨?_, ?_, ?_, ?_, ?_, ?_⟩
  · intro f h
    simp only [Removable] at h
    exact h.1
  · intro f h
    simpa only [NoMapHas] using h
  · intro f hf
    simpa [collectFields, allMapFields] using hf
  · intro f hf
    simpa [collectFields, allDsFields] using hf
  · intro f h
    simpa only [NoGroupByHas] using h
  · intro f hf
    simpa [collectFields, allGbFields] using hf

theorem Sub.optFilter (cs : List PExpr) (p : Plan) : Sub p (optFilter cs p) := by
  unfold Octo.Plan.optFilter
  split
  · exact Sub.addFilter _ _ p
  · exact Sub.refl p

theorem Sub.optFilterNL (fs : List String) (cs : List PExpr) (p : Plan) : Sub p (optFilterNL fs cs p) := by
  unfold Octo.Plan.optFilterNL
  split
  · exact Sub.addFilter _ _ p
  · exact Sub.refl p

theorem optFilter_fields (cs : List PExpr) (p : Plan) : (Octo.Plan.optFilter cs p).fields = p.fields := by
  unfold Octo.Plan.optFilter
  split <;> rfl

/-! ### the local rewrites -/

theorem mergeFilters_sub : ∀ (q q' : Plan) (c : Bool), mergeFiltersLocal q = some (q', c) → Sub q q' := by
  intro q q' c h
  unfold mergeFiltersLocal at h
  split at h
  · rename_i s e s2 e2 src
    simp only [Option.some.injEq, Prod.mk.injEq] at h
    obtain ⟨rfl, _⟩ := h
    exact ((Sub.dropFilter s e _).trans (Sub.dropFilter s2 e2 src)).trans (Sub.addFilter _ _ src)
  · simp only [Option.some.injEq, Prod.mk.injEq] at h
    obtain ⟨rfl, _⟩ := h
    exact Sub.refl _

theorem sjoin_keys_sub (s : Schema) (lk rk lk' rk' : List PExpr) (l r : Plan) :
    Sub (.bin s (.sjoin lk rk) l r) (.bin s (.sjoin lk' rk') l r) := by
  refine ⟨?_, ?_, ?_, ?_, ?_, ?_⟩
  · intro f h
    simpa only [Removable] using h
  · intro f h
    simpa only [NoMapHas] using h
  · intro f hf
    simpa [collectFields, allMapFields] using hf
  · intro f hf
    simpa [collectFields, allDsFields] using hf
  · intro f h
    simpa only [NoGroupByHas] using h
  · intro f hf
    simpa [collectFields, allGbFields] using hf

theorem pushIntoStreamJoinBranch_sub : ∀ (q q' : Plan) (c : Bool),
    pushIntoStreamJoinBranchLocal q = some (q', c) → Sub q q' := by
  intro q q' c h
  unfold pushIntoStreamJoinBranchLocal at h
  split at h
  · rename_i s e s2 lk rk l r
    simp only at h
    split at h
    · simp only [Option.some.injEq, Prod.mk.injEq] at h
      obtain ⟨rfl, _⟩ := h
      exact Sub.refl _
    · simp only [Option.some.injEq, Prod.mk.injEq] at h
      obtain ⟨rfl, _⟩ := h
      let usesL := fun c => usesVariablesFromSchema l.fields (varsUsed c)
      let usesR := fun c => usesVariablesFromSchema r.fields (varsUsed c)
      let pL := (splitByAnd e).filter fun c => !usesR c
      let pR := (splitByAnd e).filter fun c => !usesL c
      let st := (splitByAnd e).filter fun c => usesL c && usesR c
      show Sub _ (Octo.Plan.optFilter st (Plan.bin s2 (.sjoin lk rk) (Octo.Plan.optFilter pL l) (Octo.Plan.optFilter pR r)))
      refine (Sub.dropFilter s e _).trans ?_
      exact (Sub.bin (Sub.optFilter pL l) (Sub.optFilter pR r) (optFilter_fields pL l)).trans (Sub.optFilter st _)
  · simp only [Option.some.injEq, Prod.mk.injEq] at h
    obtain ⟨rfl, _⟩ := h
    exact Sub.refl _

theorem pushIntoStreamJoinKey_sub : ∀ (q q' : Plan) (c : Bool),
    pushIntoStreamJoinKeyLocal q = some (q', c) → Sub q q' := by
  intro q q' c h
  unfold pushIntoStreamJoinKeyLocal at h
  split at h
  · rename_i s e s2 lk rk l r
    simp only at h
    split at h
    · cases h
    · rename_i cls hcls
      split at h
      · simp only [Option.some.injEq, Prod.mk.injEq] at h
        obtain ⟨rfl, _⟩ := h
        exact Sub.refl _
      · simp only [Option.some.injEq, Prod.mk.injEq] at h
        obtain ⟨rfl, _⟩ := h
        show Sub _ (Octo.Plan.optFilter (stays cls) (Plan.bin s2 (.sjoin (lk ++ leftKeys cls) (rk ++ rightKeys cls)) l r))
        refine (Sub.dropFilter s e _).trans ?_
        exact (sjoin_keys_sub s2 lk rk _ _ l r).trans (Sub.optFilter (stays cls) _)
  · simp only [Option.some.injEq, Prod.mk.injEq] at h
    obtain ⟨rfl, _⟩ := h
    exact Sub.refl _

theorem pushIntoLookupJoin_sub : ∀ (q q' : Plan) (c : Bool),
    pushIntoLookupJoinLocal q = some (q', c) → Sub q q' := by
  intro q q' c h
  unfold pushIntoLookupJoinLocal at h
  split at h
  · rename_i s e s2 src joined
    simp only [Option.some.injEq, Prod.mk.injEq] at h
    obtain ⟨rfl, _⟩ := h
    let usesJ := fun c => usesVariablesFromSchema joined.fields (varsUsed c)
    let pS := (splitByAnd e).filter fun c => !usesJ c
    let pJ := (splitByAnd e).filter fun c => usesJ c
    show Sub _ (Plan.bin s2 .ljoin (Octo.Plan.optFilter pS src) (Octo.Plan.optFilterNL src.fields pJ joined))
    refine (Sub.dropFilter s e _).trans ?_
    exact Sub.bin (Sub.optFilter pS src) (Sub.optFilterNL src.fields pJ joined) (optFilter_fields pS src)
  · simp only [Option.some.injEq, Prod.mk.injEq] at h
    obtain ⟨rfl, _⟩ := h
    exact Sub.refl _

theorem ds_preds_sub (s : Schema) (name alias pol : String) (preds preds' : List PExpr) (m : List (String × String)) :
    Sub (.leaf s (.ds name alias pol preds m)) (.leaf s (.ds name alias pol preds' m)) := by
  refine ⟨?_, ?_, ?_, ?_, ?_, ?_⟩
  · intro f _; trivial
  · intro f _; trivial
  · intro f hf
    simpa [collectFields, allMapFields] using hf
  · intro f hf
    simpa [collectFields, allDsFields] using hf
  · intro f _; trivial
  · intro f hf
    simpa [collectFields, allGbFields] using hf

theorem pushToDatasource_sub : ∀ (q q' : Plan) (c : Bool), pushToDatasourceLocal q = some (q', c) → Sub q q' := by
  intro q q' c h
  unfold pushToDatasourceLocal at h
  split at h
  · rename_i s e s2 name alias pol preds mapping
    split at h
    · cases h
    · rename_i rejected pushedDown changed heq
      split at h
      · simp only [Option.some.injEq, Prod.mk.injEq] at h
        obtain ⟨rfl, _⟩ := h
        exact Sub.refl _
      · simp only [Option.some.injEq, Prod.mk.injEq] at h
        obtain ⟨rfl, _⟩ := h
        refine (Sub.dropFilter s e _).trans ?_
        refine (ds_preds_sub s2 name alias pol preds pushedDown mapping).trans ?_
        split
        · exact Sub.addFilter _ _ _
        · exact Sub.refl _
  · simp only [Option.some.injEq, Prod.mk.injEq] at h
    obtain ⟨rfl, _⟩ := h
    exact Sub.refl _

/-! ### lifting through `TransformNode` and `finish` -/

theorem transformNode_sub {db : Db} {f : Plan → Option (Plan × Bool)} (hf : LocalOK db f)
    (hs : ∀ (q q' : Plan) (c : Bool), f q = some (q', c) → Sub q q') :
    ∀ (p : Plan) (outer : List String) (p' : Plan) (c : Bool), Good db p outer → transformNode f p = some (p', c) → Sub p p' := by
  intro p
  induction p with
  | leaf s k =>
    intro outer p' c _ h
    simp only [transformNode] at h
    exact hs _ p' c h
  | un s k src ih =>
    intro outer p' c hg h
    simp only [transformNode] at h
    cases hsrc : transformNode f src with
    | none => simp [hsrc] at h
    | some pr =>
      obtain ⟨src', c1⟩ := pr
      simp only [hsrc] at h
      cases hn : f (.un s k src') with
      | none => simp [hn] at h
      | some pr2 =>
        obtain ⟨out, c2⟩ := pr2
        simp only [hn, Option.some.injEq, Prod.mk.injEq] at h
        obtain ⟨rfl, _⟩ := h
        have hgsrc : Good db src outer := by simp only [Good] at hg; exact hg.2.1
        have hsstep := transformNode_ok hf outer src src' c1 hgsrc hsrc
        have hsf : src'.fields = src.fields := by simp only [Plan.fields, hsstep.2.1]
        exact (Sub.un (ih outer src' c1 hgsrc hsrc) hsf).trans (hs _ out c2 hn)
  | bin s k l r ihl ihr =>
    intro outer p' c hg h
    simp only [transformNode] at h
    cases hl : transformNode f l with
    | none => simp [hl] at h
    | some pl =>
      obtain ⟨l', c1⟩ := pl
      simp only [hl] at h
      cases hr : transformNode f r with
      | none => simp [hr] at h
      | some pr =>
        obtain ⟨r', c2⟩ := pr
        simp only [hr] at h
        cases hn : f (.bin s k l' r') with
        | none => simp [hn] at h
        | some pr2 =>
          obtain ⟨out, c3⟩ := pr2
          simp only [hn, Option.some.injEq, Prod.mk.injEq] at h
          obtain ⟨rfl, _⟩ := h
          have hgl : Good db l outer := by cases k <;> (simp only [Good] at hg; exact hg.2.1)
          have hlstep := transformNode_ok hf outer l l' c1 hgl hl
          have hlf : l'.fields = l.fields := by simp only [Plan.fields, hlstep.2.1]
          have hsl := ihl outer l' c1 hgl hl
          have hsr : Sub r r' := by
            cases k with
            | ljoin =>
              have hgr : Good db r (l.fields ++ outer) := by simp only [Good] at hg; exact hg.2.2.1
              exact ihr (l.fields ++ outer) r' c2 hgr hr
            | sjoin lk rk =>
              have hgr : Good db r outer := by simp only [Good] at hg; exact hg.2.2.1
              exact ihr outer r' c2 hgr hr
            | ojoin a b c' d =>
              have hgr : Good db r outer := by simp only [Good] at hg; exact hg.2.2.1
              exact ihr outer r' c2 hgr hr
          exact (Sub.bin hsl hsr hlf).trans (hs _ out c3 hn)

/-- a rule is sound and keeps the plan prunable -/
def RuleInv (db : Db) (r : Rule) : Prop :=
  ∀ (outer : List String) (p p' : Plan) (c : Bool), Good db p outer → Prunable p → r p = some (p', c) →
    StepOK db outer p p' ∧ Prunable p'

theorem ruleInv_of_local {db : Db} {f : Plan → Option (Plan × Bool)} (hf : LocalOK db f)
    (hs : ∀ (q q' : Plan) (c : Bool), f q = some (q', c) → Sub q q') :
    RuleInv db (fun p => finish p (transformNode f p)) := by
  intro outer p p' c hg hp h
  refine ⟨rule_of_local hf outer p p' c hg h, ?_⟩
  cases ht : transformNode f p with
  | none => simp [ht, finish] at h
  | some pr =>
    obtain ⟨out, ch⟩ := pr
    cases ch with
    | true =>
      simp only [ht, finish, Option.some.injEq, Prod.mk.injEq] at h
      obtain ⟨rfl, _⟩ := h
      exact hp.of_sub (transformNode_sub hf hs p outer out true hg ht)
    | false =>
      simp only [ht, finish, Option.some.injEq, Prod.mk.injEq] at h
      obtain ⟨rfl, _⟩ := h
      exact hp

/-! ### the removal steps -/

theorem mem_candidateFields {s : Schema} {skip : Nat} {x : String} (h : x ∈ candidateFields s skip) : x ∈ s.fields := by
  unfold candidateFields at h
  have key : ∀ (fs : List String) (i : Nat), x ∈ candidateFields.go s skip i fs → x ∈ fs := by
    intro fs
    induction fs with
    | nil => intro i h; simp [candidateFields.go] at h
    | cons f fs ih =>
      intro i h
      simp only [candidateFields.go, List.mem_append] at h
      rcases h with h | h
      · split at h
        · cases h
        · simp only [List.mem_singleton] at h
          simp [h]
      · exact List.mem_cons_of_mem _ (ih (i + 1) h)
  exact key s.fields 0 h

theorem collectFields_mono {pick pick' : Plan → List String} (h : ∀ n x, x ∈ pick n → x ∈ pick' n) :
    ∀ (p : Plan) (x : String), x ∈ collectFields pick p → x ∈ collectFields pick' p
  | .leaf s k, x, hx => h _ x hx
  | .un s k src, x, hx => by
    simp only [collectFields, List.mem_append] at hx ⊢
    rcases hx with hx | hx
    · exact Or.inl (collectFields_mono h src x hx)
    · exact Or.inr (h _ x hx)
  | .bin s k l r, x, hx => by
    simp only [collectFields, List.mem_append] at hx ⊢
    rcases hx with (hx | hx) | hx
    · exact Or.inl (Or.inl (collectFields_mono h l x hx))
    · exact Or.inl (Or.inr (collectFields_mono h r x hx))
    · exact Or.inr (h _ x hx)

theorem pickMap_sub_all (n : Plan) (x : String) (h : x ∈ pickMap n) : x ∈ allMapFields n := by
  unfold pickMap at h
  split at h
  · exact mem_candidateFields h
  · cases h

theorem pickDatasource_sub_all (n : Plan) (x : String) (h : x ∈ pickDatasource n) : x ∈ allDsFields n := by
  unfold pickDatasource at h
  split at h
  · exact mem_candidateFields h
  · cases h

theorem mem_drop_succ {α : Type} {x : α} : ∀ (l : List α) (n : Nat), x ∈ l.drop (n + 1) → x ∈ l.drop n
  | [], _, h => by simpa using h
  | a :: l, 0, h => by
    simp only [List.drop_succ_cons, List.drop_zero] at h ⊢
    exact List.mem_cons_of_mem _ h
  | a :: l, n + 1, h => by
    simp only [List.drop_succ_cons] at h ⊢
    exact mem_drop_succ l n h

theorem mem_drop_eraseIdx {α : Type} {x : α} : ∀ (l : List α) (i n : Nat), x ∈ (l.eraseIdx i).drop n → x ∈ l.drop n
  | [], _, _, h => by simpa using h
  | a :: l, 0, 0, h => by
    simp only [List.eraseIdx_cons_zero, List.drop_zero] at h ⊢
    exact List.mem_cons_of_mem _ h
  | a :: l, 0, n + 1, h => by
    simp only [List.eraseIdx_cons_zero, List.drop_succ_cons] at h ⊢
    exact mem_drop_succ l n h
  | a :: l, i + 1, 0, h => by
    simp only [List.eraseIdx_cons_succ, List.drop_zero] at h ⊢
    rcases List.mem_cons.mp h with h | h
    · exact List.mem_cons.mpr (Or.inl h)
    · exact List.mem_cons_of_mem _ (List.mem_of_mem_eraseIdx h)
  | a :: l, i + 1, n + 1, h => by
    simp only [List.eraseIdx_cons_succ, List.drop_succ_cons] at h ⊢
    exact mem_drop_eraseIdx l i n h

theorem mem_drop_rmSchema {f x : String} {s : Schema} (n : Nat) (h : x ∈ (rmSchema f s).fields.drop n) :
    x ∈ s.fields.drop n := by
  unfold rmSchema at h
  cases hi : lastIndexOf f s.fields with
  | none => simpa [hi] using h
  | some i =>
    simp only [hi, eraseSchemaField] at h
    exact mem_drop_eraseIdx _ _ _ h

/-- how `rmPlan` may change the kind of a node -/
inductive KindRel : Un → Un → Prop
  | same (k : Un) : KindRel k k
  | map (es es' : List PExpr) : KindRel (.map es) (.map es')
  | groupBy (a a' : List String) (b b' c : List PExpr) (d : Int) (e : String) :
      KindRel (.groupBy a b c d e) (.groupBy a' b' c d e)

theorem rmPlan_un {f : String} {s : Schema} {k : Un} {src p' : Plan} (h : rmPlan f (.un s k src) = some p') :
    ∃ k' src', p' = .un (rmSchema f s) k' src' ∧ rmPlan f src = some src' ∧ KindRel k k' := by
  simp only [rmPlan] at h
  cases hs : rmPlan f src with
  | none => simp [hs] at h
  | some src' =>
    simp only [hs] at h
    cases k with
    | map es =>
      cases hi : lastIndexOf f s.fields with
      | none =>
        simp only [hi, Option.some.injEq] at h
        exact ⟨_, src', h.symm, rfl, KindRel.same _⟩
      | some i =>
        simp only [hi] at h
        cases he : eraseAt es i with
        | none => simp [he] at h
        | some es' =>
          simp only [he, Option.some.injEq] at h
          refine ⟨.map es', src', ?_, rfl, KindRel.map _ _⟩
          rw [← h]
          simp only [rmSchema, hi]
    | groupBy a b c d e =>
      cases hi : lastIndexOf f s.fields with
      | none =>
        simp only [hi, Option.some.injEq] at h
        exact ⟨_, src', h.symm, rfl, KindRel.same _⟩
      | some i =>
        simp only [hi] at h
        cases h1 : eraseAt b ((i : Int) - c.length) with
        | none => simp [h1] at h
        | some b' =>
          cases h2 : eraseAt a ((i : Int) - c.length) with
          | none => simp [h1, h2] at h
          | some a' =>
            simp only [h1, h2, Option.some.injEq] at h
            refine ⟨.groupBy a' b' c d e, src', ?_, rfl, KindRel.groupBy _ _ _ _ _ _ _⟩
            rw [← h]
            simp only [rmSchema, hi]
    | distinct =>
      cases hi : lastIndexOf f s.fields <;>
        (simp only [hi, Option.some.injEq] at h; exact ⟨_, src', h.symm, rfl, KindRel.same _⟩)
    | filter e =>
      cases hi : lastIndexOf f s.fields <;>
        (simp only [hi, Option.some.injEq] at h; exact ⟨_, src', h.symm, rfl, KindRel.same _⟩)
    | unnest u =>
      cases hi : lastIndexOf f s.fields <;>
        (simp only [hi, Option.some.injEq] at h; exact ⟨_, src', h.symm, rfl, KindRel.same _⟩)
    | ost a b c =>
      cases hi : lastIndexOf f s.fields <;>
        (simp only [hi, Option.some.injEq] at h; exact ⟨_, src', h.symm, rfl, KindRel.same _⟩)
    | tvf a b c =>
      cases hi : lastIndexOf f s.fields <;>
        (simp only [hi, Option.some.injEq] at h; exact ⟨_, src', h.symm, rfl, KindRel.same _⟩)

theorem rmPlan_bin {f : String} {s : Schema} {k : Bin} {l r p' : Plan} (h : rmPlan f (.bin s k l r) = some p') :
    ∃ l' r', p' = .bin (rmSchema f s) k l' r' ∧ rmPlan f l = some l' ∧ rmPlan f r = some r' := by
  simp only [rmPlan] at h
  cases hl : rmPlan f l with
  | none => simp [hl] at h
  | some l' =>
    cases hr : rmPlan f r with
    | none => simp [hl, hr] at h
    | some r' =>
      simp only [hl, hr, Option.some.injEq] at h
      exact ⟨l', r', h.symm, rfl, rfl⟩

/-- a field collector whose picks only shrink under `rmPlan` collects no new field afterwards -/
theorem collectFields_rm {f : String} {pick : Plan → List String}
    (hleaf : ∀ s k x, x ∈ pick (.leaf (rmSchema f s) k) → x ∈ pick (.leaf s k))
    (hun : ∀ s k k' src src' x, KindRel k k' → x ∈ pick (.un (rmSchema f s) k' src') → x ∈ pick (.un s k src))
    (hbin : ∀ s k l r l' r' x, x ∈ pick (.bin (rmSchema f s) k l' r') → x ∈ pick (.bin s k l r)) :
    ∀ {p p' : Plan}, rmPlan f p = some p' → ∀ x, x ∈ collectFields pick p' → x ∈ collectFields pick p
  | .leaf s k, p', h, x, hx => by
    simp only [rmPlan, Option.some.injEq] at h
    subst h
    exact hleaf s k x hx
  | .un s k src, p', h, x, hx => by
    obtain ⟨k', src', rfl, hs, hk⟩ := rmPlan_un h
    simp only [collectFields, List.mem_append] at hx ⊢
    rcases hx with hx | hx
    · exact Or.inl (collectFields_rm hleaf hun hbin hs x hx)
    · exact Or.inr (hun s k k' src src' x hk hx)
  | .bin s k l r, p', h, x, hx => by
    obtain ⟨l', r', rfl, hl, hr⟩ := rmPlan_bin h
    simp only [collectFields, List.mem_append] at hx ⊢
    rcases hx with (hx | hx) | hx
    · exact Or.inl (Or.inl (collectFields_rm hleaf hun hbin hl x hx))
    · exact Or.inl (Or.inr (collectFields_rm hleaf hun hbin hr x hx))
    · exact Or.inr (hbin s k l r l' r' x hx)

theorem allMapFields_rm {f : String} {p p' : Plan} (h : rmPlan f p = some p') :
    ∀ x, x ∈ collectFields allMapFields p' → x ∈ collectFields allMapFields p :=
  collectFields_rm (fun _ _ _ hx => hx)
    (fun s k k' src src' x hk hx => by
      cases hk with
      | same k => cases k <;> first | exact mem_rmSchema_fields hx | exact hx
      | map es es' => exact mem_rmSchema_fields hx
      | groupBy a a' b b' c d e => exact hx)
    (fun _ _ _ _ _ _ _ hx => hx) h

theorem allDsFields_rm {f : String} {p p' : Plan} (h : rmPlan f p = some p') :
    ∀ x, x ∈ collectFields allDsFields p' → x ∈ collectFields allDsFields p :=
  collectFields_rm (fun s k x hx => by cases k <;> first | exact mem_rmSchema_fields hx | exact hx)
    (fun s k k' src src' x hk hx => by
      cases hk with
      | same k => cases k <;> exact hx
      | map es es' => exact hx
      | groupBy a a' b b' c d e => exact hx)
    (fun _ _ _ _ _ _ _ hx => hx) h

theorem allGbFields_rm {f : String} {p p' : Plan} (h : rmPlan f p = some p') :
    ∀ x, x ∈ collectFields allGbFields p' → x ∈ collectFields allGbFields p :=
  collectFields_rm (fun _ _ _ hx => hx)
    (fun s k k' src src' x hk hx => by
      cases hk with
      | same k => cases k <;> first | exact mem_drop_rmSchema _ hx | exact hx
      | map es es' => exact hx
      | groupBy a a' b b' c d e => exact mem_drop_rmSchema _ hx)
    (fun _ _ _ _ _ _ _ hx => hx) h

theorem sub_rm {f : String} {p p' : Plan} (h : rmPlan f p = some p') : Sub p p' :=
  ⟨fun _ hr => removable_rm hr h, fun _ hn => noMapHas_rm hn h, allMapFields_rm h, allDsFields_rm h,
   fun _ hn => noGroupByHas_rm hn h, allGbFields_rm h⟩

/-- the removal loop keeps the plan prunable -/
theorem removeLoop_sub (loc : String → Plan → Option Plan) (Q : String → Plan → Prop)
    (htp : ∀ f p, AllNodup p → Q f p →
      (match mapNodes (loc f) p with
       | some p1 => removeFieldFromPassers f p1
       | none => none) = rmPlan f p)
    (hQ : ∀ f g p p', Q g p → rmPlan f p = some p' → Q g p') {db : Db} :
    ∀ (fields : List String) (p : Plan) (outer : List String) (c : Bool) (p' : Plan) (c' : Bool),
    Good db p outer → (∀ f ∈ fields, Removable f p ∧ Q f p) →
    removeLoop loc fields p c = some (p', c') → Sub p p'
  | [], p, outer, c, p', c', _, _, h => by
    simp only [removeLoop, Option.some.injEq, Prod.mk.injEq] at h
    obtain ⟨rfl, _⟩ := h
    exact Sub.refl _
  | f :: fs, p, outer, c, p', c', hg, hr, h => by
    simp only [removeLoop] at h
    cases hu : isUsed f p with
    | true =>
      simp only [hu, Bool.not_true, Bool.false_eq_true, if_false] at h
      exact removeLoop_sub loc Q htp hQ fs p outer c p' c' hg (fun g hg' => hr g (by simp [hg'])) h
    | false =>
      simp only [hu, Bool.not_false, if_true] at h
      have htp' := htp f p hg.allNodup (hr f (by simp)).2
      cases h1 : mapNodes (loc f) p with
      | none => simp [h1] at h
      | some n1 =>
        simp only [h1] at h htp'
        cases h2 : removeFieldFromPassers f n1 with
        | none => simp [h2] at h
        | some n2 =>
          simp only [h2] at h htp'
          have hstep := rm_step hg hu (hr f (by simp)).1 htp'.symm
          have hrest : ∀ g ∈ fs, Removable g n2 ∧ Q g n2 := fun g hg' =>
            ⟨removable_rm (hr g (by simp [hg'])).1 htp'.symm, hQ f g p n2 (hr g (by simp [hg'])).2 htp'.symm⟩
          exact (sub_rm htp'.symm).trans (removeLoop_sub loc Q htp hQ fs n2 outer true p' c' hstep.1 hrest h)

theorem mem_candidateFields_drop {s : Schema} {skip : Nat} {x : String} (h : x ∈ candidateFields s skip) :
    x ∈ s.fields.drop skip := by
  unfold candidateFields at h
  have key : ∀ (fs : List String) (i : Nat), x ∈ candidateFields.go s skip i fs → x ∈ fs.drop (skip - i) := by
    intro fs
    induction fs with
    | nil => intro i h; simp [candidateFields.go] at h
    | cons f fs ih =>
      intro i h
      simp only [candidateFields.go, List.mem_append] at h
      rcases h with h | h
      · split at h
        · cases h
        · rename_i hc
          simp only [List.mem_singleton] at h
          have : skip - i = 0 := by
            simp only [Bool.or_eq_true, decide_eq_true_eq, not_or, Nat.not_lt] at hc
            omega
          rw [this]
          simp [h]
      · have := ih (i + 1) h
        by_cases hsi : skip - i = 0
        · rw [hsi]
          have h0 : skip - (i + 1) = 0 := by omega
          rw [h0] at this
          exact List.mem_cons_of_mem _ this
        · have h1 : skip - i = (skip - (i + 1)) + 1 := by omega
          rw [h1, List.drop_succ_cons]
          exact this
  simpa using key s.fields 0 h

theorem pickGroupBy_sub_all (n : Plan) (x : String) (h : x ∈ pickGroupBy n) : x ∈ allGbFields n := by
  unfold pickGroupBy at h
  split at h
  · exact mem_candidateFields_drop h
  · cases h

theorem removeUnusedMapFields_inv (db : Db) : RuleInv db removeUnusedMapFields := by
  intro outer p p' c hg hp h
  have hr : ∀ f ∈ collectFields pickMap p, Removable f p ∧ NoGroupByHas f p := fun f hf =>
    hp.maps f (collectFields_mono pickMap_sub_all p f hf)
  refine ⟨removeUnusedMapFields_ok db outer p p' c hg hr h, ?_⟩
  exact hp.of_sub (removeLoop_sub removeMapFieldLocal NoGroupByHas (fun f p hn hq => twoPass f p hn hq)
    (fun _ _ _ _ hq h => noGroupByHas_rm hq h) (collectFields pickMap p) p outer false p' c hg hr h)

theorem removeUnusedDatasourceFields_inv (db : Db) : RuleInv db removeUnusedDatasourceFields := by
  intro outer p p' c hg hp h
  have hr : ∀ f ∈ collectFields pickDatasource p, Removable f p ∧ NoMapHas f p ∧ NoGroupByHas f p := fun f hf =>
    hp.dss f (collectFields_mono pickDatasource_sub_all p f hf)
  refine ⟨removeUnusedDatasourceFields_ok db outer p p' c hg hr h, ?_⟩
  exact hp.of_sub (removeLoop_sub removeDatasourceFieldLocal (fun f p => NoMapHas f p ∧ NoGroupByHas f p)
    (fun f p hn hq => twoPassD f p hn hq.1 hq.2) (fun _ _ _ _ hq h => ⟨noMapHas_rm hq.1 h, noGroupByHas_rm hq.2 h⟩)
    (collectFields pickDatasource p) p outer false p' c hg hr h)

theorem removeUnusedGroupByNonKeyFields_inv (db : Db) : RuleInv db removeUnusedGroupByNonKeyFields := by
  intro outer p p' c hg hp h
  have hr : ∀ f ∈ collectFields pickGroupBy p, Removable f p ∧ NoMapHas f p := fun f hf =>
    hp.gbs f (collectFields_mono pickGroupBy_sub_all p f hf)
  refine ⟨removeUnusedGroupByNonKeyFields_ok db outer p p' c hg hr h, ?_⟩
  exact hp.of_sub (removeLoop_sub removeGroupByFieldLocal NoMapHas (fun f p hn hq => twoPassG f p hn hq)
    (fun _ _ _ _ hq h => noMapHas_rm hq h) (collectFields pickGroupBy p) p outer false p' c hg hr h)

/-! ### the fixpoint with the invariant -/

theorem runRules_inv {db : Db} : ∀ {rules : List Rule}, (∀ r ∈ rules, RuleInv db r) →
    ∀ (outer : List String) (p p' : Plan) (c c' : Bool), Good db p outer → Prunable p →
      runRules rules p c = some (p', c') → StepOK db outer p p' ∧ Prunable p'
  | [], _, outer, p, p', c, c', hg, hp, h => by
    simp only [runRules, Option.some.injEq, Prod.mk.injEq] at h
    obtain ⟨rfl, _⟩ := h
    exact ⟨StepOK.refl hg, hp⟩
  | r :: rs, hr, outer, p, p', c, c', hg, hp, h => by
    simp only [runRules] at h
    cases hrp : r p with
    | none => simp [hrp] at h
    | some pr =>
      obtain ⟨out, ch⟩ := pr
      simp only [hrp] at h
      have hrest : ∀ r' ∈ rs, RuleInv db r' := fun r' h' => hr r' (by simp [h'])
      cases ch with
      | true =>
        simp only [if_true] at h
        obtain ⟨h1, h1p⟩ := hr r (by simp) outer p out true hg hp hrp
        obtain ⟨h2, h2p⟩ := runRules_inv hrest outer out p' true c' h1.1 h1p h
        exact ⟨h1.trans h2, h2p⟩
      | false =>
        simp only [Bool.false_eq_true, if_false] at h
        exact runRules_inv hrest outer p p' c c' hg hp h

theorem optimizeWith_inv {db : Db} {rules : List Rule} (hr : ∀ r ∈ rules, RuleInv db r) :
    ∀ (fuel : Nat) (outer : List String) (p p' : Plan), Good db p outer → Prunable p →
      optimizeWith rules fuel p = .ok p' → StepOK db outer p p' ∧ Prunable p'
  | 0, _, _, _, _, _, h => by simp [optimizeWith] at h
  | n + 1, outer, p, p', hg, hp, h => by
    simp only [optimizeWith] at h
    cases hrr : runRules rules p false with
    | none => simp [hrr] at h
    | some pr =>
      obtain ⟨out, ch⟩ := pr
      obtain ⟨h1, h1p⟩ := runRules_inv hr outer p out false ch hg hp hrr
      cases ch with
      | true =>
        simp only [hrr] at h
        obtain ⟨h2, h2p⟩ := optimizeWith_inv hr n outer out p' h1.1 h1p h
        exact ⟨h1.trans h2, h2p⟩
      | false =>
        simp only [hrr, OptRes.ok.injEq] at h
        subst h
        exact ⟨h1, h1p⟩

/-- every rule of the real list keeps the invariant -/
theorem defaultRules_inv (db : Db) : ∀ rs, defaultRules = some rs → ∀ r ∈ rs, RuleInv db r := by
  intro rs h r hr
  have : defaultRules = some [pushDownFilterPredicatesToDatasource, pushDownFilterPredicatesIntoLookupJoinBranch,
      pushDownFilterPredicatesIntoStreamJoinBranch, pushDownFilterPredicatesIntoStreamJoinKey, removeUnusedMapFields,
      removeUnusedGroupByNonKeyFields, removeUnusedDatasourceFields, mergeFilters] := by rfl
  rw [this] at h
  simp only [Option.some.injEq] at h
  subst h
  simp only [List.mem_cons, List.not_mem_nil, or_false] at hr
  rcases hr with rfl | rfl | rfl | rfl | rfl | rfl | rfl | rfl
  · exact ruleInv_of_local (pushToDatasource_local db) pushToDatasource_sub
  · exact ruleInv_of_local (pushIntoLookupJoin_local db) pushIntoLookupJoin_sub
  · exact ruleInv_of_local (pushIntoStreamJoinBranch_local db) pushIntoStreamJoinBranch_sub
  · exact ruleInv_of_local (pushIntoStreamJoinKey_local db) pushIntoStreamJoinKey_sub
  · exact removeUnusedMapFields_inv db
  · exact removeUnusedGroupByNonKeyFields_inv db
  · exact removeUnusedDatasourceFields_inv db
  · exact ruleInv_of_local (mergeFilters_local db) mergeFilters_sub

/-- `optimizer.Optimize` with the real rule list never changes the result of a well-formed, prunable plan -/
theorem optimize_ok (db : Db) (fuel : Nat) (outer : List String) (p p' : Plan) (hg : Good db p outer) (hp : Prunable p)
    (h : optimize fuel p = .ok p') : StepOK db outer p p' ∧ Prunable p' := by
  unfold optimize at h
  cases hd : defaultRules with
  | none => simp [hd] at h
  | some rs =>
    simp only [hd] at h
    exact optimizeWith_inv (defaultRules_inv db rs hd) fuel outer p p' hg hp h

end Octo.Plan
