import Octo.Spec.OutputSpec
/-!
  Lemmas for C25, part 2: numbers.  `strconv.AppendInt` (model: `fmtInt`) produces a literal of the RFC 8259
  number grammar whose exact value is the integer; every literal of the grammar consists of number
  characters only, so the maximal-munch reader `Json.pNum` returns it unchanged.
-/
namespace Octo.OutFmt
open Octo Octo.Spec

/-! ### `natDigits` by its recursion equations -/
theorem digitsAux_eq : ∀ f n acc, n < f → digitsAux f n acc = digitsAux (n + 1) n [] ++ acc := by
  intro f
  induction f using Nat.strongRecOn with
  | _ f ih =>
    intro n acc h
    cases f with
    | zero => omega
    | succ f =>
      by_cases hn : n < 10
      · simp [digitsAux, hn]
      · have h1 : digitsAux (f + 1) n acc = digitsAux f (n / 10) ((48 + n % 10) :: acc) := by
          simp [digitsAux, hn]
        have h2 : digitsAux (n + 1) n [] = digitsAux n (n / 10) [48 + n % 10] := by
          simp [digitsAux, hn]
        rw [h1, h2, ih f (by omega) (n / 10) _ (by omega), ih n (by omega) (n / 10) _ (by omega)]
        simp

theorem natDigits_lt (n : Nat) (h : n < 10) : natDigits n = [48 + n] := by
  simp [natDigits, digitsAux, h]

theorem natDigits_ge (n : Nat) (h : ¬ n < 10) : natDigits n = natDigits (n / 10) ++ [48 + n % 10] := by
  have h2 : digitsAux (n + 1) n [] = digitsAux n (n / 10) [48 + n % 10] := by
    simp [digitsAux, h]
  unfold natDigits
  rw [h2, digitsAux_eq n (n / 10) _ (by omega)]

theorem allDigits_append (a b : Bytes) : Json.allDigits (a ++ b) = (Json.allDigits a && Json.allDigits b) := by
  induction a with
  | nil => simp [Json.allDigits]
  | cons c cs ih => simp [Json.allDigits, ih, Bool.and_assoc]

/-- shape of `natDigits n`: digits only, non-empty, no leading zero unless it is `0` itself -/
theorem natDigits_shape (n : Nat) :
    ∃ d ds, natDigits n = d :: ds ∧ Json.allDigits (d :: ds) = true ∧ ((d = 48 ∧ ds = []) ∨ (49 ≤ d ∧ d ≤ 57)) := by
  induction n using Nat.strongRecOn with
  | _ n ih =>
    by_cases h : n < 10
    · refine ⟨48 + n, [], natDigits_lt n h, ?_, ?_⟩
      · simp [Json.allDigits, Json.isDigit]; omega
      · by_cases h0 : n = 0
        · left; exact ⟨by omega, rfl⟩
        · right; omega
    · obtain ⟨d, ds, e, ha, hd⟩ := ih (n / 10) (by omega)
      refine ⟨d, ds ++ [48 + n % 10], ?_, ?_, ?_⟩
      · rw [natDigits_ge n h, e]; rfl
      · have : Json.allDigits [48 + n % 10] = true := by simp [Json.allDigits, Json.isDigit]; omega
        rw [← List.cons_append, allDigits_append, ha, this]; rfl
      · rcases hd with ⟨h1, h2⟩ | h1
        · -- leading zero would mean n / 10 = 0
          exfalso
          have : natDigits (n / 10) = [48] := by rw [e, h1, h2]
          by_cases h3 : n / 10 < 10
          · rw [natDigits_lt _ h3] at this
            simp at this; omega
          · rw [natDigits_ge _ h3] at this
            have hl := congrArg List.length this
            obtain ⟨d', ds', e', _, _⟩ := ih (n / 10 / 10) (by omega)
            rw [e'] at hl; simp at hl
        · exact Or.inr h1

theorem digitsVal_append (acc : Nat) (xs : Bytes) (d : Nat) :
    Num.digitsVal acc (xs ++ [d]) = Num.digitsVal acc xs * 10 + (d - 48) := by
  simp [Num.digitsVal, List.foldl_append]

theorem digitsVal_natDigits (n : Nat) : Num.digitsVal 0 (natDigits n) = n := by
  induction n using Nat.strongRecOn with
  | _ n ih =>
    by_cases h : n < 10
    · rw [natDigits_lt n h]; simp [Num.digitsVal]
    · rw [natDigits_ge n h, digitsVal_append, ih (n / 10) (by omega)]; omega

/-! ### the number grammar -/
theorem intTail_allDigits : ∀ ds : Bytes, Json.allDigits ds = true → Json.intTail ds = true
  | [], _ => by simp [Json.intTail]
  | c :: r, h => by
    simp only [Json.allDigits, Bool.and_eq_true] at h
    simp [Json.intTail, h.1, intTail_allDigits r h.2]

theorem validNumber_natDigits (n : Nat) : Json.validNumber (natDigits n) = true := by
  obtain ⟨d, ds, e, ha, hd⟩ := natDigits_shape n
  rw [e]
  simp only [Json.allDigits, Bool.and_eq_true] at ha
  have hd45 : d ≠ 45 := by
    have := ha.1; simp [Json.isDigit] at this; omega
  rcases hd with ⟨h1, h2⟩ | h1
  · subst h1; subst h2; decide
  · have : d ≠ 48 := by omega
    simp [Json.validNumber, Json.unsignedNumber, hd45, this, h1, intTail_allDigits ds ha.2]

theorem validNumber_fmtInt (i : Int) : Json.validNumber (fmtInt i) = true := by
  unfold fmtInt
  split
  · have := validNumber_natDigits i.natAbs
    obtain ⟨d, ds, e, ha, _⟩ := natDigits_shape i.natAbs
    rw [e] at this ⊢
    simp only [Json.allDigits, Bool.and_eq_true] at ha
    have hd45 : d ≠ 45 := by
      have := ha.1; simp [Json.isDigit] at this; omega
    simpa [Json.validNumber, hd45] using this
  · exact validNumber_natDigits _

/-! every literal of the grammar consists of number characters -/
def allNum (s : Bytes) : Prop := ∀ c ∈ s, Json.isNumChar c = true

theorem allNum_nil : allNum [] := by intro c h; simp at h
theorem allNum_cons {c : Nat} {r : Bytes} (h1 : Json.isNumChar c = true) (h2 : allNum r) : allNum (c :: r) := by
  intro x hx; rcases List.mem_cons.mp hx with h | h
  · subst h; exact h1
  · exact h2 x h

theorem isNumChar_of_digit {c : Nat} (h : Json.isDigit c = true) : Json.isNumChar c = true := by
  simp [Json.isNumChar, h]

theorem allNum_allDigits : ∀ s : Bytes, Json.allDigits s = true → allNum s
  | [], _ => allNum_nil
  | c :: r, h => by
    simp only [Json.allDigits, Bool.and_eq_true] at h
    exact allNum_cons (isNumChar_of_digit h.1) (allNum_allDigits r h.2)

theorem allNum_digits1 (s : Bytes) (h : Json.digits1 s = true) : allNum s := by
  simp only [Json.digits1, Bool.and_eq_true] at h
  exact allNum_allDigits s h.2

theorem allNum_expPart : ∀ s : Bytes, Json.expPart s = true → allNum s
  | [], _ => allNum_nil
  | c :: r, h => by
    simp only [Json.expPart] at h
    split at h
    · rename_i hc
      have hcn : Json.isNumChar c = true := by
        rcases hc with hc | hc <;> subst hc <;> decide
      cases r with
      | nil => simp at h
      | cons s r' =>
        simp only at h
        split at h
        · rename_i hs
          have hsn : Json.isNumChar s = true := by
            rcases hs with hs | hs <;> subst hs <;> decide
          exact allNum_cons hcn (allNum_cons hsn (allNum_digits1 _ h))
        · exact allNum_cons hcn (allNum_digits1 _ h)
    · simp at h

theorem allNum_fracDigits : ∀ (s : Bytes) (seen : Bool), Json.fracDigits seen s = true → allNum s
  | [], _, _ => allNum_nil
  | c :: r, seen, h => by
    simp only [Json.fracDigits] at h
    split at h
    · rename_i hc
      exact allNum_cons (isNumChar_of_digit hc) (allNum_fracDigits r true h)
    · simp only [Bool.and_eq_true] at h
      exact allNum_expPart _ h.2

theorem allNum_fracExp : ∀ s : Bytes, Json.fracExp s = true → allNum s
  | [], _ => allNum_nil
  | c :: r, h => by
    simp only [Json.fracExp] at h
    split at h
    · rename_i hc; subst hc
      exact allNum_cons (by decide) (allNum_fracDigits r false h)
    · exact allNum_expPart _ h

theorem allNum_intTail : ∀ s : Bytes, Json.intTail s = true → allNum s
  | [], _ => allNum_nil
  | c :: r, h => by
    simp only [Json.intTail] at h
    split at h
    · rename_i hc
      exact allNum_cons (isNumChar_of_digit hc) (allNum_intTail r h)
    · exact allNum_fracExp _ h

theorem allNum_unsigned : ∀ s : Bytes, Json.unsignedNumber s = true → allNum s
  | [], h => by simp [Json.unsignedNumber] at h
  | c :: r, h => by
    simp only [Json.unsignedNumber] at h
    split at h
    · rename_i hc; subst hc
      exact allNum_cons (by decide) (allNum_fracExp r h)
    · split at h
      · rename_i hc
        exact allNum_cons (by simp [Json.isNumChar, Json.isDigit]; omega) (allNum_intTail r h)
      · simp at h

theorem allNum_validNumber (s : Bytes) (h : Json.validNumber s = true) : allNum s := by
  cases s with
  | nil => simp [Json.validNumber] at h
  | cons c r =>
    simp only [Json.validNumber] at h
    split at h
    · rename_i hc; subst hc
      exact allNum_cons (by decide) (allNum_unsigned r h)
    · exact allNum_unsigned _ h

/-- a literal of the grammar starts with `-` or a digit -/
theorem validNumber_head (s : Bytes) (h : Json.validNumber s = true) :
    ∃ c r, s = c :: r ∧ (c = 45 ∨ (48 ≤ c ∧ c ≤ 57)) := by
  cases s with
  | nil => simp [Json.validNumber] at h
  | cons c r =>
    refine ⟨c, r, rfl, ?_⟩
    simp only [Json.validNumber] at h
    split at h
    · left; assumption
    · right
      simp only [Json.unsignedNumber] at h
      split at h
      · omega
      · split at h
        · omega
        · simp at h

/-- the text after a number does not continue it -/
def Term (rest : Bytes) : Prop := ∀ c r, rest = c :: r → Json.isNumChar c = false

theorem spanNum_append (s rest : Bytes) (hs : allNum s) (hr : Term rest) : Json.spanNum (s ++ rest) = (s, rest) := by
  induction s with
  | nil =>
    cases rest with
    | nil => simp [Json.spanNum]
    | cons c r => simp [Json.spanNum, hr c r rfl]
  | cons c cs ih =>
    have hc := hs c (by simp)
    have := ih (fun x hx => hs x (by simp [hx]))
    simp [Json.spanNum, hc, this]

theorem pNum_append (s rest : Bytes) (hv : Json.validNumber s = true) (hr : Term rest) :
    Json.pNum (s ++ rest) = some (s, rest) := by
  simp [Json.pNum, spanNum_append s rest (allNum_validNumber s hv) hr, hv]

/-! ### the value of an integer literal -/
theorem takeDigits_all : ∀ ds : Bytes, Json.allDigits ds = true → Num.takeDigits ds = (ds, [])
  | [], _ => by simp [Num.takeDigits]
  | c :: r, h => by
    simp only [Json.allDigits, Bool.and_eq_true] at h
    simp [Num.takeDigits, h.1, takeDigits_all r h.2]

theorem parseDec_digits (d : Nat) (ds : Bytes) (h : Json.allDigits (d :: ds) = true) :
    Num.parseDec (d :: ds) = { neg := false, mant := Num.digitsVal 0 (d :: ds), exp10 := 0 } := by
  have hd : d ≠ 45 := by
    simp only [Json.allDigits, Bool.and_eq_true] at h
    have := h.1; simp [Json.isDigit] at this; omega
  unfold Num.parseDec
  simp [hd, takeDigits_all _ h]

theorem parseDec_neg_digits (d : Nat) (ds : Bytes) (h : Json.allDigits (d :: ds) = true) :
    Num.parseDec (45 :: d :: ds) = { neg := true, mant := Num.digitsVal 0 (d :: ds), exp10 := 0 } := by
  unfold Num.parseDec
  simp [takeDigits_all _ h]

theorem denotesInt_fmtInt (i : Int) : Num.denotesInt (fmtInt i) i = true := by
  obtain ⟨d, ds, e, ha, _⟩ := natDigits_shape i.natAbs
  have hv := digitsVal_natDigits i.natAbs
  unfold fmtInt
  split
  · rw [e] at hv ⊢
    unfold Num.denotesInt
    rw [parseDec_neg_digits d ds ha]
    simp [hv]; omega
  · rw [e] at hv ⊢
    unfold Num.denotesInt
    rw [parseDec_digits d ds ha]
    simp [hv]; omega

theorem intLit_fmtInt (i : Int) : Num.intLit (fmtInt i) = some i := by
  obtain ⟨d, ds, e, ha, _⟩ := natDigits_shape i.natAbs
  have hv := digitsVal_natDigits i.natAbs
  have hd : d ≠ 45 := by
    simp only [Json.allDigits, Bool.and_eq_true] at ha
    have := ha.1; simp [Json.isDigit] at this; omega
  unfold fmtInt
  split
  · rw [e] at hv ⊢
    simp [Num.intLit, Json.digits1, ha, hv]; omega
  · rw [e] at hv ⊢
    simp [Num.intLit, Json.digits1, ha, hv, hd]; omega

end Octo.OutFmt
