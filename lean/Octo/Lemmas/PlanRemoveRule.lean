import Octo.Lemmas.PlanRemoveSim
/-!
  `RemoveUnusedMapFields` as a whole: the loop over the collected Map fields.
-/
namespace Octo.Plan
open Octo

theorem mem_rmSchema_fields {f x : String} {s : Schema} (h : x ∈ (rmSchema f s).fields) : x ∈ s.fields := by
  unfold rmSchema at h
  cases hi : lastIndexOf f s.fields with
  | none => simpa [hi] using h
  | some i =>
    simp only [hi, eraseSchemaField] at h
    exact List.mem_of_mem_eraseIdx h

theorem rmPlan_schema {f : String} : ∀ {p p' : Plan}, rmPlan f p = some p' → p'.schema = rmSchema f p.schema
  | .leaf s k, p', h => by
    simp only [rmPlan, Option.some.injEq] at h
    subst h
    rfl
  | .un s k src, p', h => by
    simp only [rmPlan] at h
    cases hs : rmPlan f src with
    | none => simp [hs] at h
    | some src' =>
      simp only [hs] at h
      cases k with
      | map es =>
        cases hi : lastIndexOf f s.fields with
        | none =>
          simp only [hi, Option.some.injEq] at h
          subst h
          rfl
        | some i =>
          simp only [hi] at h
          cases he : eraseAt es i with
          | none => simp [he] at h
          | some es' =>
            simp only [he, Option.some.injEq] at h
            subst h
            simp only [schema_un, rmSchema, hi]
      | distinct => cases hi : lastIndexOf f s.fields <;> (simp only [hi, Option.some.injEq] at h; subst h; rfl)
      | filter e => cases hi : lastIndexOf f s.fields <;> (simp only [hi, Option.some.injEq] at h; subst h; rfl)
      | groupBy a b c d e => cases hi : lastIndexOf f s.fields <;> (simp only [hi, Option.some.injEq] at h; subst h; rfl)
      | unnest g => cases hi : lastIndexOf f s.fields <;> (simp only [hi, Option.some.injEq] at h; subst h; rfl)
      | ost a b c => cases hi : lastIndexOf f s.fields <;> (simp only [hi, Option.some.injEq] at h; subst h; rfl)
      | tvf a b c => cases hi : lastIndexOf f s.fields <;> (simp only [hi, Option.some.injEq] at h; subst h; rfl)
  | .bin s k l r, p', h => by
    simp only [rmPlan] at h
    cases hl : rmPlan f l with
    | none => simp [hl] at h
    | some l' =>
      cases hr : rmPlan f r with
      | none => simp [hl, hr] at h
      | some r' =>
        simp only [hl, hr, Option.some.injEq] at h
        subst h
        rfl

/-- the fields that were removable stay removable after another field has been removed -/
theorem removable_rm {f g : String} : ∀ {p p' : Plan}, Removable g p → rmPlan f p = some p' → Removable g p'
  | .leaf s k, p', hr, h => by
    simp only [rmPlan, Option.some.injEq] at h
    subst h
    simp only [Removable] at hr ⊢
    exact fun hm => hr (mem_rmSchema_fields hm)
  | .un s k src, p', hr, h => by
    have hsch := rmPlan_schema h
    simp only [rmPlan] at h
    simp only [Removable] at hr
    cases hs : rmPlan f src with
    | none => simp [hs] at h
    | some src' =>
      simp only [hs] at h
      have ih := removable_rm hr.1 hs
      have hsub : ∀ {s' : Schema}, s' = rmSchema f s → g ∉ s.fields → g ∉ s'.fields := by
        intro s' e hn hm
        subst e
        exact hn (mem_rmSchema_fields hm)
      cases k with
      | map es =>
        cases hi : lastIndexOf f s.fields with
        | none =>
          simp only [hi, Option.some.injEq] at h
          subst h
          simp only [Removable]
          exact ⟨ih, trivial⟩
        | some i =>
          simp only [hi] at h
          cases he : eraseAt es i with
          | none => simp [he] at h
          | some es' =>
            simp only [he, Option.some.injEq] at h
            subst h
            simp only [Removable]
            exact ⟨ih, trivial⟩
      | filter e =>
        cases hi : lastIndexOf f s.fields <;>
          (simp only [hi, Option.some.injEq] at h; subst h; simp only [Removable]; exact ⟨ih, trivial⟩)
      | unnest u =>
        cases hi : lastIndexOf f s.fields <;>
          (simp only [hi, Option.some.injEq] at h; subst h; simp only [Removable]; exact ⟨ih, trivial⟩)
      | distinct =>
        cases hi : lastIndexOf f s.fields <;>
          (simp only [hi, Option.some.injEq] at h; subst h; simp only [Removable]; exact ⟨ih, trivial⟩)
      | groupBy a b c d e =>
        cases hi : lastIndexOf f s.fields <;>
          (simp only [hi, Option.some.injEq] at h; subst h; simp only [Removable]
           exact ⟨ih, fun hm => hr.2 (mem_rmSchema_fields hm)⟩)
      | ost a b c =>
        cases hi : lastIndexOf f s.fields <;>
          (simp only [hi, Option.some.injEq] at h; subst h; simp only [Removable]
           exact ⟨ih, fun hm => hr.2 (mem_rmSchema_fields hm)⟩)
      | tvf a b c =>
        cases hi : lastIndexOf f s.fields <;>
          (simp only [hi, Option.some.injEq] at h; subst h; simp only [Removable]
           exact ⟨ih, fun hm => hr.2 (mem_rmSchema_fields hm)⟩)
  | .bin s k l r, p', hr, h => by
    simp only [rmPlan] at h
    simp only [Removable] at hr
    cases hl : rmPlan f l with
    | none => simp [hl] at h
    | some l' =>
      cases hr' : rmPlan f r with
      | none => simp [hl, hr'] at h
      | some r' =>
        simp only [hl, hr', Option.some.injEq] at h
        subst h
        have ihl := removable_rm hr.1 hl
        have ihr := removable_rm hr.2.1 hr'
        simp only [Removable]
        refine ⟨ihl, ihr, ?_⟩
        cases k with
        | sjoin lk rk => trivial
        | ljoin =>
          have := rmPlan_schema hl
          intro hm
          apply hr.2.2
          simp only [Plan.fields, this] at hm
          exact mem_rmSchema_fields hm
        | ojoin a b c d => exact fun hm => hr.2.2 (mem_rmSchema_fields hm)

/-- one iteration of the loop body -/
theorem rm_step {db : Db} {f : String} {p p1 : Plan} {outer : List String}
    (hg : Good db p outer) (hu : isUsed f p = false) (hr : Removable f p) (h : rmPlan f p = some p1) :
    StepOK db outer p p1 := by
  simp only [isUsed, Bool.or_eq_false_iff] at hu
  have hf : f ∉ p.fields := by
    intro hm
    have : (p.fields.any fun x => x == f) = true := List.any_eq_true.mpr ⟨f, hm, by simp⟩
    rw [this] at hu
    cases hu.1
  exact (rm_sim db f p outer p1 hg hu.2 hr h).toStep hf

theorem removeLoop_map_ok (db : Db) : ∀ (fields : List String) (p : Plan) (outer : List String) (c : Bool)
    (p' : Plan) (c' : Bool), Good db p outer → (∀ f ∈ fields, Removable f p) →
    removeLoop removeMapFieldLocal fields p c = some (p', c') → StepOK db outer p p'
  | [], p, outer, c, p', c', hg, _, h => by
    simp only [removeLoop, Option.some.injEq, Prod.mk.injEq] at h
    obtain ⟨rfl, _⟩ := h
    exact StepOK.refl hg
  | f :: fs, p, outer, c, p', c', hg, hr, h => by
    simp only [removeLoop] at h
    cases hu : isUsed f p with
    | true =>
      simp only [hu, Bool.not_true, Bool.false_eq_true, if_false] at h
      exact removeLoop_map_ok db fs p outer c p' c' hg (fun g hg' => hr g (by simp [hg'])) h
    | false =>
      simp only [hu, Bool.not_false, if_true] at h
      have htp := twoPass f p hg.allNodup
      cases h1 : mapNodes (removeMapFieldLocal f) p with
      | none => simp [h1] at h
      | some n1 =>
        simp only [h1] at h htp
        cases h2 : removeFieldFromPassers f n1 with
        | none => simp [h2] at h
        | some n2 =>
          simp only [h2] at h htp
          have hstep := rm_step hg hu (hr f (by simp)) htp.symm
          have hrest : ∀ g ∈ fs, Removable g n2 := fun g hg' => removable_rm (hr g (by simp [hg'])) htp.symm
          exact hstep.trans (removeLoop_map_ok db fs n2 outer true p' c' hstep.1 hrest h)

/-- every field of every Map node could be removed without being noticed, should it turn out to be unused -/
def MapRemovable (p : Plan) : Prop := ∀ f ∈ collectFields pickMap p, Removable f p

/-- `RemoveUnusedMapFields` is sound on well-formed plans whose Map fields are removable -/
theorem removeUnusedMapFields_ok (db : Db) (outer : List String) (p p' : Plan) (c : Bool)
    (hg : Good db p outer) (hr : MapRemovable p) (h : removeUnusedMapFields p = some (p', c)) :
    StepOK db outer p p' :=
  removeLoop_map_ok db (collectFields pickMap p) p outer false p' c hg hr h

end Octo.Plan
