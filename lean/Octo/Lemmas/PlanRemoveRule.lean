import Octo.Lemmas.PlanRemoveSim
/-!
  `RemoveUnusedMapFields` as a whole: the loop over the collected Map fields.
-/
namespace Octo.Plan
open Octo

theorem mem_rmSchema_fields {f x : String} {s : Schema} (h : x ∈ (rmSchema f s).fields) : x ∈ s.fields := by
  unfold rmSchema at h
  cases hi : lastIndexOf f s.fields with
  | none => simpa [hi] using h
  | some i =>
    simp only [hi, eraseSchemaField] at h
    exact List.mem_of_mem_eraseIdx h

theorem rmPlan_schema {f : String} : ∀ {p p' : Plan}, rmPlan f p = some p' → p'.schema = rmSchema f p.schema
  | .leaf s k, p', h => by
    simp only [rmPlan, Option.some.injEq] at h
    subst h
    rfl
  | .un s k src, p', h => by
    simp only [rmPlan] at h
    cases hs : rmPlan f src with
    | none => simp [hs] at h
    | some src' =>
      simp only [hs] at h
      cases k with
      | map es =>
        cases hi : lastIndexOf f s.fields with
        | none =>
          simp only [hi, Option.some.injEq] at h
          subst h
          rfl
        | some i =>
          simp only [hi] at h
          cases he : eraseAt es i with
          | none => simp [he] at h
          | some es' =>
            simp only [he, Option.some.injEq] at h
            subst h
            simp only [schema_un, rmSchema, hi]
      | distinct => cases hi : lastIndexOf f s.fields <;> (simp only [hi, Option.some.injEq] at h; subst h; rfl)
      | filter e => cases hi : lastIndexOf f s.fields <;> (simp only [hi, Option.some.injEq] at h; subst h; rfl)
      | groupBy a b c d e =>
        cases hi : lastIndexOf f s.fields with
        | none =>
          simp only [hi, Option.some.injEq] at h
          subst h
          rfl
        | some i =>
          simp only [hi] at h
          cases h1 : eraseAt b ((i : Int) - c.length) with
          | none => simp [h1] at h
          | some b' =>
            cases h2 : eraseAt a ((i : Int) - c.length) with
            | none => simp [h1, h2] at h
            | some a' =>
              simp only [h1, h2, Option.some.injEq] at h
              subst h
              simp only [schema_un, rmSchema, hi]
      | unnest g => cases hi : lastIndexOf f s.fields <;> (simp only [hi, Option.some.injEq] at h; subst h; rfl)
      | ost a b c => cases hi : lastIndexOf f s.fields <;> (simp only [hi, Option.some.injEq] at h; subst h; rfl)
      | tvf a b c => cases hi : lastIndexOf f s.fields <;> (simp only [hi, Option.some.injEq] at h; subst h; rfl)
  | .bin s k l r, p', h => by
    simp only [rmPlan] at h
    cases hl : rmPlan f l with
    | none => simp [hl] at h
    | some l' =>
      cases hr : rmPlan f r with
      | none => simp [hl, hr] at h
      | some r' =>
        simp only [hl, hr, Option.some.injEq] at h
        subst h
        rfl

/-- the fields that were removable stay removable after another field has been removed -/
theorem removable_rm {f g : String} : ∀ {p p' : Plan}, Removable g p → rmPlan f p = some p' → Removable g p'
  | .leaf s k, p', hr, h => by
    simp only [rmPlan, Option.some.injEq] at h
    subst h
    cases k with
    | ds a b c d e => trivial
    | mem n =>
      simp only [Removable] at hr ⊢
      exact fun hm => hr (mem_rmSchema_fields hm)
    | tvf a b =>
      simp only [Removable] at hr ⊢
      exact fun hm => hr (mem_rmSchema_fields hm)
  | .un s k src, p', hr, h => by
    have hsch := rmPlan_schema h
    simp only [rmPlan] at h
    simp only [Removable] at hr
    cases hs : rmPlan f src with
    | none => simp [hs] at h
    | some src' =>
      simp only [hs] at h
      have ih := removable_rm hr.1 hs
      have hsub : ∀ {s' : Schema}, s' = rmSchema f s → g ∉ s.fields → g ∉ s'.fields := by
        intro s' e hn hm
        subst e
        exact hn (mem_rmSchema_fields hm)
      cases k with
      | map es =>
        cases hi : lastIndexOf f s.fields with
        | none =>
          simp only [hi, Option.some.injEq] at h
          subst h
          simp only [Removable]
          exact ⟨ih, trivial⟩
        | some i =>
          simp only [hi] at h
          cases he : eraseAt es i with
          | none => simp [he] at h
          | some es' =>
            simp only [he, Option.some.injEq] at h
            subst h
            simp only [Removable]
            exact ⟨ih, trivial⟩
      | filter e =>
        cases hi : lastIndexOf f s.fields <;>
          (simp only [hi, Option.some.injEq] at h; subst h; simp only [Removable]; exact ⟨ih, trivial⟩)
      | unnest u =>
        cases hi : lastIndexOf f s.fields <;>
          (simp only [hi, Option.some.injEq] at h; subst h; simp only [Removable]; exact ⟨ih, trivial⟩)
      | distinct =>
        cases hi : lastIndexOf f s.fields <;>
          (simp only [hi, Option.some.injEq] at h; subst h; simp only [Removable]; exact ⟨ih, trivial⟩)
      | groupBy a b c d e =>
        have hsrcf : ∀ {x : String}, x ∈ src'.fields → x ∈ src.fields := by
          intro x hx
          have := rmPlan_schema hs
          simp only [Plan.fields, this] at hx
          exact mem_rmSchema_fields hx
        cases hi : lastIndexOf f s.fields with
        | none =>
          simp only [hi, Option.some.injEq] at h
          subst h
          simp only [Removable]
          refine ⟨ih, ?_⟩
          intro hm
          have hrs : rmSchema f s = s := by simp only [rmSchema, hi]
          rw [hrs] at hm ⊢
          obtain ⟨h1, h2⟩ := hr.2 hm
          exact ⟨fun hx => h1 (hsrcf hx), h2⟩
        | some i =>
          simp only [hi] at h
          cases h1 : eraseAt b ((i : Int) - c.length) with
          | none => simp [h1] at h
          | some b' =>
            cases h2 : eraseAt a ((i : Int) - c.length) with
            | none => simp [h1, h2] at h
            | some a' =>
              simp only [h1, h2, Option.some.injEq] at h
              subst h
              simp only [Removable]
              refine ⟨ih, ?_⟩
              intro hm
              have hm0 : g ∈ s.fields := by
                simp only [eraseSchemaField] at hm
                exact List.mem_of_mem_eraseIdx hm
              obtain ⟨h3, h4⟩ := hr.2 hm0
              refine ⟨fun hx => h3 (hsrcf hx), ?_⟩
              have hci : c.length ≤ i := by
                unfold eraseAt at h1
                split at h1
                · rename_i hc; omega
                · cases h1
              simp only [eraseSchemaField]
              rw [take_eraseIdx_of_le _ _ _ hci]
              exact h4
      | ost a b c =>
        cases hi : lastIndexOf f s.fields <;>
          (simp only [hi, Option.some.injEq] at h; subst h; simp only [Removable]
           exact ⟨ih, fun hm => hr.2 (mem_rmSchema_fields hm)⟩)
      | tvf a b c =>
        cases hi : lastIndexOf f s.fields <;>
          (simp only [hi, Option.some.injEq] at h; subst h; simp only [Removable]
           exact ⟨ih, fun hm => hr.2 (mem_rmSchema_fields hm)⟩)
  | .bin s k l r, p', hr, h => by
    simp only [rmPlan] at h
    simp only [Removable] at hr
    cases hl : rmPlan f l with
    | none => simp [hl] at h
    | some l' =>
      cases hr' : rmPlan f r with
      | none => simp [hl, hr'] at h
      | some r' =>
        simp only [hl, hr', Option.some.injEq] at h
        subst h
        have ihl := removable_rm hr.1 hl
        have ihr := removable_rm hr.2.1 hr'
        simp only [Removable]
        refine ⟨ihl, ihr, ?_⟩
        cases k with
        | sjoin lk rk => trivial
        | ljoin =>
          have := rmPlan_schema hl
          intro hm
          apply hr.2.2
          simp only [Plan.fields, this] at hm
          exact mem_rmSchema_fields hm
        | ojoin a b c d => trivial

/-- one iteration of the loop body -/
theorem rm_step {db : Db} {f : String} {p p1 : Plan} {outer : List String}
    (hg : Good db p outer) (hu : isUsed f p = false) (hr : Removable f p) (h : rmPlan f p = some p1) :
    StepOK db outer p p1 := by
  simp only [isUsed, Bool.or_eq_false_iff] at hu
  have hf : f ∉ p.fields := by
    intro hm
    have : (p.fields.any fun x => x == f) = true := List.any_eq_true.mpr ⟨f, hm, by simp⟩
    rw [this] at hu
    cases hu.1
  exact (rm_sim db f p outer p1 hg hu.2 hr h).toStep hf

/-- the loop of a removal rule whose two passes compute `rmPlan` (under a side condition `Q` that survives removals) -/
theorem removeLoop_ok (db : Db) (loc : String → Plan → Option Plan) (Q : String → Plan → Prop)
    (htp : ∀ f p, AllNodup p → Q f p →
      (match mapNodes (loc f) p with
       | some p1 => removeFieldFromPassers f p1
       | none => none) = rmPlan f p)
    (hQ : ∀ f g p p', Q g p → rmPlan f p = some p' → Q g p') :
    ∀ (fields : List String) (p : Plan) (outer : List String) (c : Bool) (p' : Plan) (c' : Bool),
    Good db p outer → (∀ f ∈ fields, Removable f p ∧ Q f p) →
    removeLoop loc fields p c = some (p', c') → StepOK db outer p p'
  | [], p, outer, c, p', c', hg, _, h => by
    simp only [removeLoop, Option.some.injEq, Prod.mk.injEq] at h
    obtain ⟨rfl, _⟩ := h
    exact StepOK.refl hg
  | f :: fs, p, outer, c, p', c', hg, hr, h => by
    simp only [removeLoop] at h
    cases hu : isUsed f p with
    | true =>
      simp only [hu, Bool.not_true, Bool.false_eq_true, if_false] at h
      exact removeLoop_ok db loc Q htp hQ fs p outer c p' c' hg (fun g hg' => hr g (by simp [hg'])) h
    | false =>
      simp only [hu, Bool.not_false, if_true] at h
      have htp' := htp f p hg.allNodup (hr f (by simp)).2
      cases h1 : mapNodes (loc f) p with
      | none => simp [h1] at h
      | some n1 =>
        simp only [h1] at h htp'
        cases h2 : removeFieldFromPassers f n1 with
        | none => simp [h2] at h
        | some n2 =>
          simp only [h2] at h htp'
          have hstep := rm_step hg hu (hr f (by simp)).1 htp'.symm
          have hrest : ∀ g ∈ fs, Removable g n2 ∧ Q g n2 := fun g hg' =>
            ⟨removable_rm (hr g (by simp [hg'])).1 htp'.symm, hQ f g p n2 (hr g (by simp [hg'])).2 htp'.symm⟩
          exact hstep.trans (removeLoop_ok db loc Q htp hQ fs n2 outer true p' c' hstep.1 hrest h)

theorem noGroupByHas_rm {f g : String} : ∀ {p p' : Plan}, NoGroupByHas g p → rmPlan f p = some p' → NoGroupByHas g p'
  | .leaf s k, p', _, h => by
    simp only [rmPlan, Option.some.injEq] at h
    subst h
    trivial
  | .un s k src, p', hn, h => by
    simp only [rmPlan] at h
    cases hs : rmPlan f src with
    | none => simp [hs] at h
    | some src' =>
      simp only [hs] at h
      cases k with
      | groupBy a b c d e =>
        simp only [NoGroupByHas] at hn
        have ih := noGroupByHas_rm hn.2 hs
        cases hi : lastIndexOf f s.fields with
        | none =>
          simp only [hi, Option.some.injEq] at h
          subst h
          simp only [NoGroupByHas]
          exact ⟨fun hm => hn.1 (mem_rmSchema_fields hm), ih⟩
        | some i =>
          simp only [hi] at h
          cases h1 : eraseAt b ((i : Int) - c.length) with
          | none => simp [h1] at h
          | some b' =>
            cases h2 : eraseAt a ((i : Int) - c.length) with
            | none => simp [h1, h2] at h
            | some a' =>
              simp only [h1, h2, Option.some.injEq] at h
              subst h
              simp only [NoGroupByHas]
              refine ⟨fun hm => hn.1 ?_, ih⟩
              simp only [eraseSchemaField] at hm
              exact List.mem_of_mem_eraseIdx hm
      | map es =>
        simp only [NoGroupByHas] at hn
        have ih := noGroupByHas_rm hn hs
        cases hi : lastIndexOf f s.fields with
        | none =>
          simp only [hi, Option.some.injEq] at h
          subst h
          simpa only [NoGroupByHas] using ih
        | some i =>
          simp only [hi] at h
          cases he : eraseAt es i with
          | none => simp [he] at h
          | some es' =>
            simp only [he, Option.some.injEq] at h
            subst h
            simpa only [NoGroupByHas] using ih
      | distinct =>
        simp only [NoGroupByHas] at hn
        cases hi : lastIndexOf f s.fields <;>
          (simp only [hi, Option.some.injEq] at h; subst h; simp only [NoGroupByHas]; exact noGroupByHas_rm hn hs)
      | filter e =>
        simp only [NoGroupByHas] at hn
        cases hi : lastIndexOf f s.fields <;>
          (simp only [hi, Option.some.injEq] at h; subst h; simp only [NoGroupByHas]; exact noGroupByHas_rm hn hs)
      | unnest u =>
        simp only [NoGroupByHas] at hn
        cases hi : lastIndexOf f s.fields <;>
          (simp only [hi, Option.some.injEq] at h; subst h; simp only [NoGroupByHas]; exact noGroupByHas_rm hn hs)
      | ost a b c =>
        simp only [NoGroupByHas] at hn
        cases hi : lastIndexOf f s.fields <;>
          (simp only [hi, Option.some.injEq] at h; subst h; simp only [NoGroupByHas]; exact noGroupByHas_rm hn hs)
      | tvf a b c =>
        simp only [NoGroupByHas] at hn
        cases hi : lastIndexOf f s.fields <;>
          (simp only [hi, Option.some.injEq] at h; subst h; simp only [NoGroupByHas]; exact noGroupByHas_rm hn hs)
  | .bin s k l r, p', hn, h => by
    simp only [rmPlan] at h
    simp only [NoGroupByHas] at hn
    cases hl : rmPlan f l with
    | none => simp [hl] at h
    | some l' =>
      cases hr : rmPlan f r with
      | none => simp [hl, hr] at h
      | some r' =>
        simp only [hl, hr, Option.some.injEq] at h
        subst h
        simp only [NoGroupByHas]
        exact ⟨noGroupByHas_rm hn.1 hl, noGroupByHas_rm hn.2 hr⟩

/-- every field of every Map node could be removed without being noticed, should it turn out to be unused -/
def MapRemovable (p : Plan) : Prop := ∀ f ∈ collectFields pickMap p, Removable f p ∧ NoGroupByHas f p

/-- `RemoveUnusedMapFields` is sound on well-formed plans whose Map fields are removable -/
theorem removeUnusedMapFields_ok (db : Db) (outer : List String) (p p' : Plan) (c : Bool)
    (hg : Good db p outer) (hr : MapRemovable p) (h : removeUnusedMapFields p = some (p', c)) :
    StepOK db outer p p' :=
  removeLoop_ok db removeMapFieldLocal NoGroupByHas (fun f p hn hq => twoPass f p hn hq)
    (fun _ _ _ _ hq h => noGroupByHas_rm hq h) (collectFields pickMap p) p outer false p' c hg hr h

/-! ### RemoveUnusedDatasourceFields -/

/-- no Map node declares the field (a datasource's field names are its own) -/
def NoMapHas (f : String) : Plan → Prop
  | .leaf _ _ => True
  | .un s (.map _) src => f ∉ s.fields ∧ NoMapHas f src
  | .un _ _ src => NoMapHas f src
  | .bin _ _ l r => NoMapHas f l ∧ NoMapHas f r

theorem noMapHas_rm {f g : String} : ∀ {p p' : Plan}, NoMapHas g p → rmPlan f p = some p' → NoMapHas g p'
  | .leaf s k, p', _, h => by
    simp only [rmPlan, Option.some.injEq] at h
    subst h
    trivial
  | .un s k src, p', hn, h => by
    simp only [rmPlan] at h
    cases hs : rmPlan f src with
    | none => simp [hs] at h
    | some src' =>
      simp only [hs] at h
      cases k with
      | map es =>
        simp only [NoMapHas] at hn
        have ih := noMapHas_rm hn.2 hs
        cases hi : lastIndexOf f s.fields with
        | none =>
          simp only [hi, Option.some.injEq] at h
          subst h
          simp only [NoMapHas]
          exact ⟨fun hm => hn.1 (mem_rmSchema_fields hm), ih⟩
        | some i =>
          simp only [hi] at h
          cases he : eraseAt es i with
          | none => simp [he] at h
          | some es' =>
            simp only [he, Option.some.injEq] at h
            subst h
            simp only [NoMapHas]
            refine ⟨fun hm => hn.1 ?_, ih⟩
            simp only [eraseSchemaField] at hm
            exact List.mem_of_mem_eraseIdx hm
      | distinct =>
        simp only [NoMapHas] at hn
        cases hi : lastIndexOf f s.fields <;>
          (simp only [hi, Option.some.injEq] at h; subst h; simp only [NoMapHas]; exact noMapHas_rm hn hs)
      | filter e =>
        simp only [NoMapHas] at hn
        cases hi : lastIndexOf f s.fields <;>
          (simp only [hi, Option.some.injEq] at h; subst h; simp only [NoMapHas]; exact noMapHas_rm hn hs)
      | groupBy a b c d e =>
        simp only [NoMapHas] at hn
        cases hi : lastIndexOf f s.fields with
        | none =>
          simp only [hi, Option.some.injEq] at h
          subst h
          simp only [NoMapHas]
          exact noMapHas_rm hn hs
        | some i =>
          simp only [hi] at h
          cases h1 : eraseAt b ((i : Int) - c.length) with
          | none => simp [h1] at h
          | some b' =>
            cases h2 : eraseAt a ((i : Int) - c.length) with
            | none => simp [h1, h2] at h
            | some a' =>
              simp only [h1, h2, Option.some.injEq] at h
              subst h
              simp only [NoMapHas]
              exact noMapHas_rm hn hs
      | unnest u =>
        simp only [NoMapHas] at hn
        cases hi : lastIndexOf f s.fields <;>
          (simp only [hi, Option.some.injEq] at h; subst h; simp only [NoMapHas]; exact noMapHas_rm hn hs)
      | ost a b c =>
        simp only [NoMapHas] at hn
        cases hi : lastIndexOf f s.fields <;>
          (simp only [hi, Option.some.injEq] at h; subst h; simp only [NoMapHas]; exact noMapHas_rm hn hs)
      | tvf a b c =>
        simp only [NoMapHas] at hn
        cases hi : lastIndexOf f s.fields <;>
          (simp only [hi, Option.some.injEq] at h; subst h; simp only [NoMapHas]; exact noMapHas_rm hn hs)
  | .bin s k l r, p', hn, h => by
    simp only [rmPlan] at h
    simp only [NoMapHas] at hn
    cases hl : rmPlan f l with
    | none => simp [hl] at h
    | some l' =>
      cases hr : rmPlan f r with
      | none => simp [hl, hr] at h
      | some r' =>
        simp only [hl, hr, Option.some.injEq] at h
        subst h
        simp only [NoMapHas]
        exact ⟨noMapHas_rm hn.1 hl, noMapHas_rm hn.2 hr⟩

theorem rmSchema_idem {f : String} {s : Schema} (hnd : s.fields.Nodup) : rmSchema f (rmSchema f s) = rmSchema f s := by
  apply rmSchema_id
  rw [rmSchema_fields hnd]
  exact not_mem_eraseField f _

/-- the two passes of one `RemoveUnusedDatasourceFields` step are `rmPlan` when no Map node declares the field -/
theorem twoPassD (f : String) : ∀ (p : Plan), AllNodup p → NoMapHas f p → NoGroupByHas f p →
    (match mapNodes (removeDatasourceFieldLocal f) p with
     | some p1 => removeFieldFromPassers f p1
     | none => none) = rmPlan f p
  | .leaf s k, hn, _, _ => by
    cases k with
    | ds a b c d e =>
      simp only [mapNodes, removeDatasourceFieldLocal, rmPlan]
      cases hi : lastIndexOf f s.fields with
      | none =>
        simp only [removeFieldFromPassers, mapNodes, passersLocal_eq, schema_leaf, Plan.withSchema]
      | some i =>
        simp only [removeFieldFromPassers, mapNodes, passersLocal_eq, schema_leaf, Plan.withSchema]
        have : eraseSchemaField s i = rmSchema f s := by simp only [rmSchema, hi]
        rw [this, rmSchema_idem hn]
    | mem n => simp only [mapNodes, removeDatasourceFieldLocal, removeFieldFromPassers, passersLocal_eq, rmPlan]; rfl
    | tvf a b => simp only [mapNodes, removeDatasourceFieldLocal, removeFieldFromPassers, passersLocal_eq, rmPlan]; rfl
  | .un s k src, h, hm, hgb => by
    have hmsrc : NoMapHas f src := by
      cases k <;> simp only [NoMapHas] at hm <;> first | exact hm.2 | exact hm
    have hgbsrc : NoGroupByHas f src := by
      cases k <;> simp only [NoGroupByHas] at hgb <;> first | exact hgb.2 | exact hgb
    have ih := twoPassD f src h.2 hmsrc hgbsrc
    simp only [mapNodes, rmPlan]
    cases h1 : mapNodes (removeDatasourceFieldLocal f) src with
    | none =>
      simp only [h1] at ih
      simp only [← ih]
    | some src1 =>
      simp only [h1] at ih
      simp only [removeFieldFromPassers] at ih
      cases hk : k with
      | map es =>
        subst hk
        simp only [NoMapHas] at hm
        have hi : lastIndexOf f s.fields = none := lastIndexOf_none hm.1
        simp only [removeDatasourceFieldLocal, removeFieldFromPassers, mapNodes, ih, hi]
        cases rmPlan f src with
        | none => rfl
        | some src' => simp only [passersLocal_eq, schema_un, Plan.withSchema]
      | distinct =>
        simp only [removeDatasourceFieldLocal, removeFieldFromPassers, mapNodes, ih]
        cases rmPlan f src with
        | none => rfl
        | some src' => simp only [passersLocal_eq, schema_un, Plan.withSchema]
      | filter e =>
        simp only [removeDatasourceFieldLocal, removeFieldFromPassers, mapNodes, ih]
        cases rmPlan f src with
        | none => rfl
        | some src' => simp only [passersLocal_eq, schema_un, Plan.withSchema]
      | groupBy a b c d e =>
        subst hk
        simp only [NoGroupByHas] at hgb
        have hi : lastIndexOf f s.fields = none := lastIndexOf_none hgb.1
        simp only [removeDatasourceFieldLocal, removeFieldFromPassers, mapNodes, ih, hi]
        cases rmPlan f src with
        | none => rfl
        | some src' => simp only [passersLocal_eq, schema_un, Plan.withSchema]
      | unnest g =>
        simp only [removeDatasourceFieldLocal, removeFieldFromPassers, mapNodes, ih]
        cases rmPlan f src with
        | none => rfl
        | some src' => simp only [passersLocal_eq, schema_un, Plan.withSchema]
      | ost a b c =>
        simp only [removeDatasourceFieldLocal, removeFieldFromPassers, mapNodes, ih]
        cases rmPlan f src with
        | none => rfl
        | some src' => simp only [passersLocal_eq, schema_un, Plan.withSchema]
      | tvf a b c =>
        simp only [removeDatasourceFieldLocal, removeFieldFromPassers, mapNodes, ih]
        cases rmPlan f src with
        | none => rfl
        | some src' => simp only [passersLocal_eq, schema_un, Plan.withSchema]
  | .bin s k l r, h, hm, hgb => by
    simp only [NoMapHas] at hm
    simp only [NoGroupByHas] at hgb
    have ihl := twoPassD f l h.2.1 hm.1 hgb.1
    have ihr := twoPassD f r h.2.2 hm.2 hgb.2
    simp only [mapNodes, rmPlan]
    cases h1 : mapNodes (removeDatasourceFieldLocal f) l with
    | none =>
      simp only [h1] at ihl
      simp only [← ihl]
    | some l1 =>
      simp only [h1] at ihl
      cases h2 : mapNodes (removeDatasourceFieldLocal f) r with
      | none =>
        simp only [h2] at ihr
        simp only [← ihr]
        cases rmPlan f l <;> rfl
      | some r1 =>
        simp only [h2] at ihr
        simp only [removeFieldFromPassers] at ihl ihr
        simp only [removeDatasourceFieldLocal, removeFieldFromPassers, mapNodes, ihl, ihr]
        cases rmPlan f l with
        | none => rfl
        | some l' =>
          cases rmPlan f r with
          | none => rfl
          | some r' => simp only [passersLocal_eq, schema_bin, Plan.withSchema]

/-- every datasource field could be removed without being noticed, should it turn out to be unused -/
def DatasourceRemovable (p : Plan) : Prop :=
  ∀ f ∈ collectFields pickDatasource p, Removable f p ∧ NoMapHas f p ∧ NoGroupByHas f p

/-- `RemoveUnusedDatasourceFields` is sound on well-formed plans whose datasource fields are removable -/
theorem removeUnusedDatasourceFields_ok (db : Db) (outer : List String) (p p' : Plan) (c : Bool)
    (hg : Good db p outer) (hr : DatasourceRemovable p) (h : removeUnusedDatasourceFields p = some (p', c)) :
    StepOK db outer p p' :=
  removeLoop_ok db removeDatasourceFieldLocal (fun f p => NoMapHas f p ∧ NoGroupByHas f p)
    (fun f p hn hq => twoPassD f p hn hq.1 hq.2)
    (fun _ _ _ _ hq h => ⟨noMapHas_rm hq.1 h, noGroupByHas_rm hq.2 h⟩) (collectFields pickDatasource p) p outer false p' c hg hr h

/-! ### RemoveUnusedGroupByNonKeyFields -/

/-- the two passes of one `RemoveUnusedGroupByNonKeyFields` step are `rmPlan` when no Map node declares the field -/
theorem twoPassG (f : String) : ∀ (p : Plan), AllNodup p → NoMapHas f p →
    (match mapNodes (removeGroupByFieldLocal f) p with
     | some p1 => removeFieldFromPassers f p1
     | none => none) = rmPlan f p
  | .leaf s k, _, _ => by
    simp only [mapNodes, removeGroupByFieldLocal, removeFieldFromPassers, passersLocal_eq, rmPlan]
    rfl
  | .un s k src, h, hm => by
    have hmsrc : NoMapHas f src := by
      cases k <;> simp only [NoMapHas] at hm <;> first | exact hm.2 | exact hm
    have ih := twoPassG f src h.2 hmsrc
    simp only [mapNodes, rmPlan]
    cases h1 : mapNodes (removeGroupByFieldLocal f) src with
    | none =>
      simp only [h1] at ih
      simp only [← ih]
    | some src1 =>
      simp only [h1] at ih
      simp only [removeFieldFromPassers] at ih
      cases hk : k with
      | map es =>
        subst hk
        simp only [NoMapHas] at hm
        have hi : lastIndexOf f s.fields = none := lastIndexOf_none hm.1
        simp only [removeGroupByFieldLocal, removeFieldFromPassers, mapNodes, ih, hi]
        cases rmPlan f src with
        | none => rfl
        | some src' => simp only [passersLocal_eq, schema_un, Plan.withSchema]
      | groupBy a b c d e =>
        simp only [removeGroupByFieldLocal]
        cases hi : lastIndexOf f s.fields with
        | none =>
          simp only [removeFieldFromPassers, mapNodes, ih]
          cases rmPlan f src with
          | none => rfl
          | some src' => simp only [passersLocal_eq, schema_un, Plan.withSchema]
        | some i =>
          simp only
          cases hb : eraseAt b ((i : Int) - c.length) with
          | none =>
            simp only
            cases rmPlan f src <;> rfl
          | some b' =>
            cases ha : eraseAt a ((i : Int) - c.length) with
            | none =>
              simp only
              cases rmPlan f src <;> rfl
            | some a' =>
              simp only [removeFieldFromPassers, mapNodes, ih]
              cases rmPlan f src with
              | none => rfl
              | some src' =>
                simp only [passersLocal_eq, schema_un, Plan.withSchema]
                have : rmSchema f (eraseSchemaField s i) = eraseSchemaField s i := by
                  unfold rmSchema
                  rw [lastIndexOf_erased h.1 hi]
                rw [this]
      | distinct =>
        simp only [removeGroupByFieldLocal, removeFieldFromPassers, mapNodes, ih]
        cases rmPlan f src with
        | none => rfl
        | some src' => simp only [passersLocal_eq, schema_un, Plan.withSchema]
      | filter e =>
        simp only [removeGroupByFieldLocal, removeFieldFromPassers, mapNodes, ih]
        cases rmPlan f src with
        | none => rfl
        | some src' => simp only [passersLocal_eq, schema_un, Plan.withSchema]
      | unnest g =>
        simp only [removeGroupByFieldLocal, removeFieldFromPassers, mapNodes, ih]
        cases rmPlan f src with
        | none => rfl
        | some src' => simp only [passersLocal_eq, schema_un, Plan.withSchema]
      | ost a b c =>
        simp only [removeGroupByFieldLocal, removeFieldFromPassers, mapNodes, ih]
        cases rmPlan f src with
        | none => rfl
        | some src' => simp only [passersLocal_eq, schema_un, Plan.withSchema]
      | tvf a b c =>
        simp only [removeGroupByFieldLocal, removeFieldFromPassers, mapNodes, ih]
        cases rmPlan f src with
        | none => rfl
        | some src' => simp only [passersLocal_eq, schema_un, Plan.withSchema]
  | .bin s k l r, h, hm => by
    simp only [NoMapHas] at hm
    have ihl := twoPassG f l h.2.1 hm.1
    have ihr := twoPassG f r h.2.2 hm.2
    simp only [mapNodes, rmPlan]
    cases h1 : mapNodes (removeGroupByFieldLocal f) l with
    | none =>
      simp only [h1] at ihl
      simp only [← ihl]
    | some l1 =>
      simp only [h1] at ihl
      cases h2 : mapNodes (removeGroupByFieldLocal f) r with
      | none =>
        simp only [h2] at ihr
        simp only [← ihr]
        cases rmPlan f l <;> rfl
      | some r1 =>
        simp only [h2] at ihr
        simp only [removeFieldFromPassers] at ihl ihr
        simp only [removeGroupByFieldLocal, removeFieldFromPassers, mapNodes, ihl, ihr]
        cases rmPlan f l with
        | none => rfl
        | some l' =>
          cases rmPlan f r with
          | none => rfl
          | some r' => simp only [passersLocal_eq, schema_bin, Plan.withSchema]

/-- every aggregate of every group-by node could be removed without being noticed, should it turn out to be unused -/
def GroupByRemovable (p : Plan) : Prop := ∀ f ∈ collectFields pickGroupBy p, Removable f p ∧ NoMapHas f p

/-- `RemoveUnusedGroupByNonKeyFields` is sound on well-formed plans whose aggregate fields are removable -/
theorem removeUnusedGroupByNonKeyFields_ok (db : Db) (outer : List String) (p p' : Plan) (c : Bool)
    (hg : Good db p outer) (hr : GroupByRemovable p) (h : removeUnusedGroupByNonKeyFields p = some (p', c)) :
    StepOK db outer p p' :=
  removeLoop_ok db removeGroupByFieldLocal NoMapHas (fun f p hn hq => twoPassG f p hn hq)
    (fun _ _ _ _ hq h => noMapHas_rm hq h) (collectFields pickGroupBy p) p outer false p' c hg hr h

end Octo.Plan
