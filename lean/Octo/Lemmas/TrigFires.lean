import Octo.Lemmas.TrigFlat
/-!
  When the primitive triggers fire (C17), on the trigger machines driven the way the group-by node drives
  them: `Poll` right after every `KeyReceived` / `WatermarkReceived` (`Leaf.stepEv`, `Leaf.drive`).
-/
namespace Octo.Trig
open Octo Octo.TMap

/-! ### structural invariants of the stored trees -/
namespace Leaf
variable {wl : WKey → WKey → Bool}

/-- no key is stored twice, and nothing is left in `toTrigger` between the node's calls -/
def nodup (wl : WKey → WKey → Bool) : Leaf → Prop
  | .counting _ counts _ tt => NoDup keyLess counts ∧ tt = []
  | .watermark _ tks _ _ => NoDup wl tks
  | .eos ks _ => NoDup keyLess ks

/-- the watermark trigger's entries ascend by instant -/
def sorted : Leaf → Prop
  | .watermark _ tks _ _ => tks.Pairwise fun a b => a.1.t.ns ≤ b.1.t.ns
  | _ => True

theorem pairwise_foldl_erase {α β γ : Type} {lt : α → α → Bool} {R : α × β → α × β → Prop} (f : γ → α)
    (ps : List γ) (m : List (α × β)) (h : m.Pairwise R) :
    (ps.foldl (fun m q => erase lt (f q) m) m).Pairwise R := by
  induction ps generalizing m with
  | nil => exact h
  | cons q qs ih => exact ih _ (pairwise_erase _ h)

theorem sorted_keyReceived (W : WLaws wl) (l : Leaf) (k : Key) (h : l.sorted) : (l.keyReceived wl k).sorted := by
  cases l with
  | counting n counts e tt => simp only [keyReceived]; split <;> split <;> trivial
  | watermark idx tks e wm =>
    simp only [keyReceived, sorted, TMap.insert] at *
    exact sorted_insSorted (fun x => x.1.t.ns) _ (fun e he => W.time_mono _ _ he) (fun e he => W.not_lt_time _ _ he)
      (pairwise_erase _ h)
  | eos ks e => trivial

theorem sorted_watermarkReceived (l : Leaf) (w : Int) (h : l.sorted) : (l.watermarkReceived w).sorted := by
  cases l <;> first | trivial | exact h
theorem sorted_endOfStream (l : Leaf) (h : l.sorted) : l.endOfStream.sorted := by
  cases l <;> first | trivial | exact h
theorem sorted_poll (l : Leaf) (h : l.sorted) : (l.poll wl).2.sorted := by
  cases l with
  | counting n counts e tt => trivial
  | watermark idx tks e wm =>
    simp only [poll, sorted] at *
    exact pairwise_foldl_erase (fun q : Key => (⟨timeAt idx q, q⟩ : WKey)) _ _ h
  | eos ks e => trivial

theorem sorted_init (l : Leaf) (h : l.isInit) : l.sorted := by
  cases l <;> simp_all [isInit, sorted]

theorem nodup_init (l : Leaf) (h : l.isInit) : l.nodup wl := by
  cases l <;> simp_all [isInit, nodup, NoDup]

/-- one node step (`KeyReceived`/`WatermarkReceived` then `Poll`) keeps the trees duplicate-free -/
theorem nodup_stepEv (l : Leaf) (e : TEv) (h : l.nodup wl) : (l.stepEv wl e).2.nodup wl := by
  cases e with
  | key k =>
    cases l with
    | counting n counts e tt =>
      simp only [nodup] at h
      simp only [stepEv, keyReceived]
      split <;> split <;> simp only [poll, nodup, and_true]
      · exact nodup_erase _ h.1
      · exact nodup_insert _ _ h.1
      · exact nodup_erase _ h.1
      · exact nodup_insert _ _ h.1
    | watermark idx tks e wm =>
      simp only [nodup] at h
      simp only [stepEv, keyReceived, poll, nodup]
      exact pairwise_foldl_erase (fun q : Key => (⟨timeAt idx q, q⟩ : WKey)) _ _ (nodup_insert _ _ h)
    | eos ks e =>
      simp only [nodup] at h
      simp only [stepEv, keyReceived, poll, nodup]
      exact nodup_insert _ _ h
  | wm w =>
    cases l with
    | counting n counts e tt =>
      simp only [nodup] at h
      simp only [stepEv, watermarkReceived, poll, nodup, and_true]
      exact h.1
    | watermark idx tks e wm =>
      simp only [nodup] at h
      simp only [stepEv, watermarkReceived, poll, nodup]
      exact pairwise_foldl_erase (fun q : Key => (⟨timeAt idx q, q⟩ : WKey)) _ _ h
    | eos ks e => simpa [stepEv, watermarkReceived, poll, nodup] using h

theorem wf_stepEv (l : Leaf) (e : TEv) (h : l.wf) : (l.stepEv wl e).2.wf := by
  cases e with
  | key k => exact wf_poll _ (wf_keyReceived l k h)
  | wm w => exact wf_poll _ (wf_watermarkReceived l w h)

theorem sorted_stepEv (W : WLaws wl) (l : Leaf) (e : TEv) (h : l.sorted) : (l.stepEv wl e).2.sorted := by
  cases e with
  | key k => exact sorted_poll _ (sorted_keyReceived W l k h)
  | wm w => exact sorted_poll _ (sorted_watermarkReceived l w h)

/-- everything the node can do to a trigger before the end of the stream keeps the three invariants -/
theorem drive_inv (W : WLaws wl) (l : Leaf) (es : List TEv) (h : l.nodup wl ∧ l.wf ∧ l.sorted) :
    (l.drive wl es).nodup wl ∧ (l.drive wl es).wf ∧ (l.drive wl es).sorted := by
  induction es generalizing l with
  | nil => exact h
  | cons e es ih => exact ih _ ⟨nodup_stepEv l e h.1, wf_stepEv l e h.2.1, sorted_stepEv W l e h.2.2⟩

/-! ### ON END OF STREAM / end of stream for every trigger: every pending key exactly once -/
theorem eos_once (W : WLaws wl) (l : Leaf) (hn : l.nodup wl) (hw : l.wf) :
    ((l.endOfStream.poll wl).1.Pairwise fun a b => keq a b = false) ∧
    ∀ k, (l.endOfStream.poll wl).1.any (keq k) = l.pend wl k := by
  cases l with
  | counting n counts e tt =>
    simp only [nodup] at hn
    obtain ⟨hn, rfl⟩ := hn
    simp only [endOfStream, poll, if_true, List.nil_append, pend, List.any_nil, Bool.false_or, keys]
    refine ⟨?_, fun k => ?_⟩
    · rw [List.pairwise_map]
      exact hn.imp (fun h => by rw [← eqv_keyLess]; exact h)
    · simp only [has, List.any_map, eqv_keyLess]; rfl
  | watermark idx tks e wm =>
    simp only [nodup] at hn
    simp only [wf] at hw
    simp only [endOfStream, poll, Bool.not_true, Bool.false_eq_true, if_false, pend]
    refine ⟨?_, fun k => ?_⟩
    · rw [List.pairwise_map]
      refine (List.Pairwise.and_mem.mp hn).imp ?_
      intro a b ⟨ha, hb, hab⟩
      cases hq : keq a.1.key b.1.key
      · rfl
      · have : eqv wl a.1 b.1 = true := by
          rw [W.eqv_iff]
          refine ⟨?_, hq⟩
          rw [hw a ha, hw b hb]; exact timeAt_congr idx (keq_iff.mp hq)
        rw [this] at hab; cases hab
    · simp only [has, List.any_map]
      rw [Bool.eq_iff_iff, List.any_eq_true, List.any_eq_true]
      constructor
      · rintro ⟨x, hx, hq⟩
        refine ⟨x, hx, ?_⟩
        rw [W.eqv_iff]
        simp only [Function.comp] at hq
        exact ⟨by rw [hw x hx]; exact timeAt_congr idx (keq_iff.mp hq), hq⟩
      · rintro ⟨x, hx, hq⟩
        exact ⟨x, hx, ((W.eqv_iff _ _).mp hq).2⟩
  | eos ks e =>
    simp only [nodup] at hn
    simp only [endOfStream, poll, if_true, pend, keys]
    refine ⟨?_, fun k => ?_⟩
    · rw [List.pairwise_map]
      exact hn.imp (fun h => by rw [← eqv_keyLess]; exact h)
    · simp only [has, List.any_map, eqv_keyLess]; rfl

/-! ### ON END OF STREAM never fires before the end -/
theorem eos_silent (ks : List (Key × Unit)) (e : TEv) :
    ((Leaf.eos ks false).stepEv wl e).1 = [] ∧ ∃ ks', ((Leaf.eos ks false).stepEv wl e).2 = .eos ks' false := by
  cases e <;> simp [stepEv, keyReceived, watermarkReceived, poll]

/-! ### ON WATERMARK -/
/-- before the end of the stream a polled key's instant is at or below the watermark -/
theorem watermark_upto (idx : Nat) (tks : List (WKey × Unit)) (wm : Int)
    (hw : (Leaf.watermark idx tks false wm).wf) :
    ∀ k ∈ ((Leaf.watermark idx tks false wm).poll wl).1, (timeAt idx k).ns ≤ wm := by
  intro k hk
  simp only [poll, Bool.not_false, if_true, List.mem_map] at hk
  obtain ⟨x, hx, rfl⟩ := hk
  have h1 := List.all_eq_true.mp List.all_takeWhile x hx
  simp only [wf] at hw
  rw [← hw x (List.takeWhile_subset _ hx)]
  simpa using h1

/-- … and every pending key whose instant is at or below the watermark is polled -/
theorem watermark_all (W : WLaws wl) (idx : Nat) (tks : List (WKey × Unit)) (wm : Int)
    (hs : (Leaf.watermark idx tks false wm).sorted) (k : Key)
    (hp : (Leaf.watermark idx tks false wm).pend wl k = true) (ht : (timeAt idx k).ns ≤ wm) :
    ((Leaf.watermark idx tks false wm).poll wl).1.any (keq k) = true := by
  simp only [pend] at hp
  rw [has_iff] at hp
  obtain ⟨x, hx, hq⟩ := hp
  have hq' := (W.eqv_iff _ _).mp hq
  simp only [sorted] at hs
  simp only [poll, Bool.not_false, if_true, List.any_map]
  rw [List.any_eq_true]
  refine ⟨x, ?_, hq'.2⟩
  have hx' : x.1.t.ns ≤ wm := by rw [← hq'.1]; exact ht
  have := mem_takeWhile_sorted (fun e : WKey × Unit => e.1.t.ns) wm hs hx hx'
  have hfun : (fun x : WKey × Unit => !decide (x.1.t.ns > wm)) = fun e => decide (e.1.t.ns ≤ wm) := by
    funext e
    by_cases h : e.1.t.ns ≤ wm
    · have : ¬ wm < e.1.t.ns := by omega
      simp [h, this]
    · have : wm < e.1.t.ns := by omega
      simp [h, this]
  rw [hfun]; exact this

end Leaf

/-! ### COUNTING n -/
/-- number of records (additions and retractions alike) of group `k` among the events -/
def occ (k : Key) (es : List TEv) : Nat :=
  es.countP fun e => match e with
    | .key k' => keq k k'
    | .wm _ => false

def storedCount (counts : List (Key × Nat)) (k : Key) : Nat :=
  match find keyLess k counts with
  | some e => e.2
  | none => 0

theorem occ_congr {k k' : Key} (h : keq k k' = true) (es : List TEv) : occ k es = occ k' es := by
  simp only [occ]
  congr 1
  funext e
  cases e with
  | key x => exact keq_congr_left' h x
  | wm w => rfl
where
  keq_congr_left' {a a' : Key} (h : keq a a' = true) (c : Key) : keq a c = keq a' c := by
    cases h1 : keq a c <;> cases h2 : keq a' c <;> try rfl
    · rw [keq_trans h h2] at h1; cases h1
    · rw [keq_trans (keq_symm h) h1] at h2; cases h2

theorem succ_mod (a n : Nat) (hn : 0 < n) : (a + 1) % n = if a % n + 1 = n then 0 else a % n + 1 := by
  have hr : a % n < n := Nat.mod_lt a hn
  rw [Nat.add_mod]
  by_cases h1 : n = 1
  · subst h1; simp [Nat.mod_one]
  · have : 1 % n = 1 := Nat.mod_eq_of_lt (by omega)
    rw [this]
    split
    · rename_i h2; rw [h2, Nat.mod_self]
    · exact Nat.mod_eq_of_lt (by omega)

/-- the state of `CountingTrigger` after the node processed `hist`: nothing left to trigger and every key's
    stored count is the number of its records modulo `n` -/
def CountInv (n : Nat) (hist : List TEv) (l : Leaf) : Prop :=
  ∃ counts, l = .counting n counts false [] ∧ ∀ k, storedCount counts k = occ k hist % n

theorem storedCount_erase (k k' : Key) (counts : List (Key × Nat)) :
    storedCount (erase keyLess k counts) k' = if keq k k' then 0 else storedCount counts k' := by
  simp only [storedCount, find_erase keyLaws, eqv_keyLess]
  by_cases h : keq k k' = true <;> simp [h]

theorem storedCount_insert (k k' : Key) (c : Nat) (counts : List (Key × Nat)) :
    storedCount (insert keyLess k c counts) k' = if keq k k' then c else storedCount counts k' := by
  simp only [storedCount, find_insert keyLaws, eqv_keyLess]
  by_cases h : keq k k' = true <;> simp [h]

variable {wl : WKey → WKey → Bool}

/-- one record of group `k'`: `CountingTrigger` fires (exactly the group `k'`, once) iff this is an n-th
    record of the group — and the invariant is kept -/
theorem counting_step (n : Nat) (hn : 0 < n) (hist : List TEv) (l : Leaf) (h : CountInv n hist l) (k' : Key) :
    CountInv n (hist ++ [.key k']) (l.stepEv wl (.key k')).2 ∧
    (∀ k ∈ (l.stepEv wl (.key k')).1, keq k k' = true) ∧
    (l.stepEv wl (.key k')).1.length = if (occ k' hist + 1) % n = 0 then 1 else 0 := by
  obtain ⟨counts, rfl, hc⟩ := h
  have hocc : ∀ k, occ k (hist ++ [.key k']) = occ k hist + if keq k k' then 1 else 0 := by
    intro k; simp only [occ, List.countP_append, List.countP_cons, List.countP_nil]; split <;> simp_all
  -- the stored item (or the fresh one) and its key
  have hkc : ∃ kc : Key × Nat, keq kc.1 k' = true ∧ kc.2 = storedCount counts k' ∧
      (Leaf.counting n counts false []).keyReceived wl k' =
        if kc.2 + 1 == n then .counting n (erase keyLess kc.1 counts) false ([] ++ [kc.1])
        else .counting n (insert keyLess kc.1 (kc.2 + 1) counts) false [] := by
    cases hf : find keyLess k' counts with
    | none => exact ⟨(k', 0), keq_refl _, by simp [storedCount, hf], by simp [Leaf.keyReceived, hf]⟩
    | some kc =>
      have := (find_some_mem hf).2
      rw [eqv_keyLess] at this
      exact ⟨kc, keq_symm this, by simp [storedCount, hf], by simp [Leaf.keyReceived, hf]⟩
  obtain ⟨kc, hkc2, hkc3, hkr⟩ := hkc
  have hsm := succ_mod (occ k' hist) n hn
  simp only [Leaf.stepEv, hkr]
  by_cases hfire : kc.2 + 1 = n
  · -- the count reaches n
    have hb : (kc.2 + 1 == n) = true := by simpa using hfire
    simp only [hb, if_true, Leaf.poll, List.nil_append, Bool.false_eq_true, if_false, List.append_nil]
    rw [hkc3, hc k'] at hfire
    rw [if_pos hfire] at hsm
    refine ⟨⟨_, rfl, fun k => ?_⟩, ?_, ?_⟩
    · rw [storedCount_erase, hocc]
      by_cases hq : keq kc.1 k = true
      · have hq2 : keq k k' = true := keq_trans (keq_symm hq) hkc2
        rw [if_pos hq, if_pos hq2, occ_congr hq2, hsm]
      · have hq' : keq kc.1 k = false := by simpa using hq
        have hq2 : keq k k' = false := by
          cases h3 : keq k k'
          · rfl
          · rw [keq_trans hkc2 (keq_symm h3)] at hq'; cases hq'
        simp [hq', hq2, hc k]
    · intro k hk; simp only [List.mem_singleton] at hk; rw [hk]; exact hkc2
    · simp [hsm]
  · have hb : (kc.2 + 1 == n) = false := by simpa using hfire
    simp only [hb, Bool.false_eq_true, if_false, Leaf.poll, List.nil_append]
    rw [hkc3, hc k'] at hfire
    rw [if_neg hfire] at hsm
    refine ⟨⟨_, rfl, fun k => ?_⟩, ?_, ?_⟩
    · rw [storedCount_insert, hocc]
      by_cases hq : keq kc.1 k = true
      · have hq2 : keq k k' = true := keq_trans (keq_symm hq) hkc2
        rw [if_pos hq, if_pos hq2, occ_congr hq2, hsm, hkc3, hc k']
      · have hq' : keq kc.1 k = false := by simpa using hq
        have hq2 : keq k k' = false := by
          cases h3 : keq k k'
          · rfl
          · rw [keq_trans hkc2 (keq_symm h3)] at hq'; cases hq'
        simp [hq', hq2, hc k]
    · intro k hk; cases hk
    · have : (occ k' hist + 1) % n ≠ 0 := by rw [hsm]; omega
      simp [this]

/-- a watermark never makes `CountingTrigger` fire -/
theorem counting_step_wm (n : Nat) (hist : List TEv) (l : Leaf) (h : CountInv n hist l) (w : Int) :
    CountInv n (hist ++ [.wm w]) (l.stepEv wl (.wm w)).2 ∧ (l.stepEv wl (.wm w)).1 = [] := by
  obtain ⟨counts, rfl, hc⟩ := h
  refine ⟨⟨counts, rfl, fun k => ?_⟩, rfl⟩
  rw [hc k]; simp [occ, List.countP_append]

theorem counting_drive (n : Nat) (hn : 0 < n) (hist : List TEv) (l : Leaf) (h : CountInv n hist l) (es : List TEv) :
    CountInv n (hist ++ es) (l.drive wl es) := by
  induction es generalizing hist l with
  | nil => simpa [Leaf.drive] using h
  | cons e es ih =>
    simp only [Leaf.drive]
    have : hist ++ e :: es = (hist ++ [e]) ++ es := by simp
    rw [this]
    apply ih
    cases e with
    | key k => exact (counting_step n hn hist l h k).1
    | wm w => exact (counting_step_wm n hist l h w).1

theorem countInv_init (n : Nat) : CountInv n [] (.counting n [] false []) :=
  ⟨[], rfl, fun k => by simp [storedCount, find, occ]⟩

end Octo.Trig
