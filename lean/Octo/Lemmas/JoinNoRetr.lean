import Octo.Lemmas.JoinMachine
/-!
  A join node without an outer side (StreamJoin; OuterJoin with `isLeft = isRight = false`) never produces a
  retraction when its inputs contain none — under every schedule.  This is what `Schema.NoRetractions` of
  `logical.StreamJoin` / `logical.OuterJoin` claims, and what lets the csv/json sinks print such a plan's records
  as they arrive.
-/
namespace Octo.Join
open Octo

/-- no record is a retraction -/
def NR (l : List Rec) : Prop := ∀ r ∈ l, r.retr = false

theorem NR.nil : NR [] := fun _ h => by simp at h
theorem NR.append {a b : List Rec} (ha : NR a) (hb : NR b) : NR (a ++ b) := by
  intro r hr
  simp only [List.mem_append] at hr
  rcases hr with h | h
  · exact ha r h
  · exact hb r h
theorem NR.of_append_left {a b : List Rec} (h : NR (a ++ b)) : NR a := fun r hr => h r (by simp [hr])
theorem NR.of_append_right {a b : List Rec} (h : NR (a ++ b)) : NR b := fun r hr => h r (by simp [hr])

def NRB (b : Buf) : Prop := ∀ p ∈ b, NR p.2

theorem joinRows_nr (amLeft : Bool) (r : Rec) (h : r.retr = false) : ∀ (s : Subs), NR (joinRows amLeft r s)
  | [] => NR.nil
  | (x, ts) :: rest => by
    simp only [joinRows]
    apply NR.append
    · intro q hq
      simp only [List.mem_map] at hq
      obtain ⟨t, _, rfl⟩ := hq
      exact h
    · exact joinRows_nr amLeft r h rest

theorem sjRecv_nr {cfg : Cfg} {my other : Option Tree} {amLeft : Bool}
    {r : Rec} {osr : Bool} (hr : r.retr = false) {my' : Option Tree} {em : List Rec}
    (h : sjRecv cfg my other amLeft r osr = some (my', em)) : NR em := by
  unfold sjRecv at h
  cases hk : keyOf (if amLeft then cfg.keysL else cfg.keysR) r.vals with
  | none => simp [hk] at h
  | some key =>
    simp only [hk] at h
    by_cases hn : (!cfg.nullMatch && hasNull key) = true
    · simp only [hn, ↓reduceIte, Option.some.injEq, Prod.mk.injEq] at h
      rw [← h.2]; exact NR.nil
    · simp only [hn, Bool.false_eq_true, ↓reduceIte] at h
      split at h
      · simp only [Option.some.injEq, Prod.mk.injEq] at h; rw [← h.2]; exact joinRows_nr _ _ hr _
      · cases h

theorem ojRecv_nr {cfg : Cfg} (hL : cfg.outerL = false) (hR : cfg.outerR = false) {my other : Option Tree} {amLeft : Bool}
    {r : Rec} (hr : r.retr = false) {my' : Option Tree} {em : List Rec}
    (h : ojRecv cfg my other amLeft r = some (my', em)) : NR em := by
  unfold ojRecv at h
  have e1 : (if amLeft = true then cfg.outerL else cfg.outerR) = false := by cases amLeft <;> simp [hL, hR]
  have e2 : (if amLeft = true then cfg.outerR else cfg.outerL) = false := by cases amLeft <;> simp [hL, hR]
  simp only [e1, e2, Bool.false_eq_true, ↓reduceIte, Bool.and_false, List.nil_append, List.append_nil] at h
  cases hk : keyOf (if amLeft then cfg.keysL else cfg.keysR) r.vals with
  | none => simp [hk] at h
  | some key =>
    simp only [hk] at h
    by_cases hn : (!cfg.nullMatch && hasNull key) = true
    · simp only [hn, ↓reduceIte, Option.some.injEq, Prod.mk.injEq] at h
      rw [← h.2]; exact NR.nil
    · simp only [hn, Bool.false_eq_true, ↓reduceIte] at h
      cases my with
      | none => simp at h
      | some t =>
        cases other with
        | none => simp at h
        | some ot =>
          simp only at h
          cases hs : store t key r with
          | none => simp [hs] at h
          | some sr =>
            simp only [hs] at h
            by_cases hem : (subsOf key ot).isEmpty = true
            · simp only [hem, ↓reduceIte, Option.some.injEq, Prod.mk.injEq] at h
              rw [← h.2]; exact NR.nil
            · simp only [hem, Bool.false_eq_true, ↓reduceIte, Option.some.injEq, Prod.mk.injEq] at h
              rw [← h.2]; exact joinRows_nr _ _ hr _

theorem recv_nr {cfg : Cfg} (hL : cfg.outerL = false) (hR : cfg.outerR = false) {my other : Option Tree} {amLeft : Bool}
    {r : Rec} {osr : Bool} (hr : r.retr = false) {my' : Option Tree} {em : List Rec}
    (h : recv cfg my other amLeft r osr = some (my', em)) : NR em := by
  unfold recv at h
  split at h
  · exact ojRecv_nr hL hR hr h
  · exact sjRecv_nr hr h

theorem procList_nr {cfg : Cfg} (hL : cfg.outerL = false) (hR : cfg.outerR = false) (amLeft osr : Bool) (other : Option Tree) :
    ∀ (rs : List Rec) (my : Option Tree), NR rs → NR (procList cfg amLeft osr other my rs).2.1
  | [], _, _ => NR.nil
  | r :: rs, my, h => by
    simp only [procList]
    cases hrec : recv cfg my other amLeft r osr with
    | none => exact NR.nil
    | some p =>
      obtain ⟨my', em⟩ := p
      simp only
      exact NR.append (recv_nr hL hR (h r (by simp)) hrec) (procList_nr hL hR amLeft osr other rs my' (fun x hx => h x (by simp [hx])))

theorem emit_nr (bd : Bound) : ∀ (b : Buf), NRB b → NR (Buf.emit bd b).1 ∧ NRB (Buf.emit bd b).2
  | [], _ => ⟨NR.nil, fun _ h => by simp [Buf.emit] at h⟩
  | (t, rs) :: rest, h => by
    simp only [Buf.emit]
    split
    · have ih := emit_nr bd rest (fun p hp => h p (by simp [hp]))
      exact ⟨NR.append (h (t, rs) (by simp)) ih.1, ih.2⟩
    · exact ⟨NR.nil, h⟩

theorem add_nr (t : Int) (r : Rec) (hr : r.retr = false) : ∀ (b : Buf), NRB b → NRB (Buf.add t r b)
  | [], _ => by
    intro p hp
    simp only [Buf.add, List.mem_singleton] at hp
    subst hp
    intro q hq
    simp only [List.mem_singleton] at hq
    subst hq; exact hr
  | (t', rs) :: rest, h => by
    simp only [Buf.add]
    split
    · intro p hp
      simp only [List.mem_cons] at hp
      rcases hp with rfl | hp
      · intro q hq; simp only [List.mem_singleton] at hq; subst hq; exact hr
      · exact h p (by simpa using hp)
    · split
      · intro p hp
        simp only [List.mem_cons] at hp
        rcases hp with rfl | hp
        · apply NR.append (h (t', rs) (by simp))
          intro q hq; simp only [List.mem_singleton] at hq; subst hq; exact hr
        · exact h p (by simp [hp])
      · intro p hp
        simp only [List.mem_cons] at hp
        rcases hp with rfl | hp
        · exact h _ (by simp)
        · exact add_nr t r hr rest (fun x hx => h x (by simp [hx])) p hp

structure InvNR (s : St) : Prop where
  out : NR (recs s.out)
  bufL : NRB s.bufL
  bufR : NRB s.bufR

theorem recs_out_append (o : List Msg) (em : List Rec) : recs (o ++ dataMsgs em) = recs o ++ em := by
  rw [recs_append, recs_dataMsgs]

theorem nr_processSide_inv {cfg : Cfg} (hL : cfg.outerL = false) (hR : cfg.outerR = false) (left : Bool) {s s' : St} (b : Bound) (osr : Bool)
    (hi : InvNR s) (h : processSide cfg left s b osr = .ok s') : InvNR s' := by
  unfold processSide at h
  cases left
  · simp only [Bool.false_eq_true, ↓reduceIte] at h
    split at h
    · split at h
      · simp only [Except.ok.injEq] at h
        subst h
        have he := emit_nr b s.bufR hi.bufR
        exact ⟨by simp only [recs_out_append]; exact NR.append hi.out (procList_nr hL hR _ _ _ _ _ he.1), hi.bufL, he.2⟩
      · cases h
    · simp only [Except.ok.injEq] at h; subst h; exact hi
  · simp only [↓reduceIte] at h
    split at h
    · split at h
      · simp only [Except.ok.injEq] at h
        subst h
        have he := emit_nr b s.bufL hi.bufL
        exact ⟨by simp only [recs_out_append]; exact NR.append hi.out (procList_nr hL hR _ _ _ _ _ he.1), he.2, hi.bufR⟩
      · cases h
    · simp only [Except.ok.injEq] at h; subst h; exact hi

theorem nr_processUpTo_inv {cfg : Cfg} (hL : cfg.outerL = false) (hR : cfg.outerR = false) {s s' : St} (b : Bound) (osr : Bool)
    (hi : InvNR s) (h : processUpTo cfg s b osr = .ok s') : InvNR s' := by
  unfold processUpTo at h
  cases h1 : processSide cfg true s b osr with
  | error o => simp [h1] at h
  | ok s1 =>
    simp only [h1] at h
    exact nr_processSide_inv hL hR false b osr (nr_processSide_inv hL hR true b osr hi h1) h

theorem nr_directRecv_inv {cfg : Cfg} (hL : cfg.outerL = false) (hR : cfg.outerR = false) (left : Bool) {s s' : St} {r : Rec} (osr : Bool)
    (hr : r.retr = false) (hi : InvNR s) (h : directRecv cfg left s r osr = .ok s') : InvNR s' := by
  unfold directRecv at h
  cases left
  · simp only [Bool.false_eq_true, ↓reduceIte] at h
    cases hrec : recv cfg s.treeR s.treeL false r osr with
    | none => simp [hrec] at h
    | some p =>
      obtain ⟨my', em⟩ := p
      simp only [hrec, Except.ok.injEq] at h
      subst h
      exact ⟨by simp only [recs_out_append]; exact NR.append hi.out (recv_nr hL hR hr hrec), hi.bufL, hi.bufR⟩
  · simp only [↓reduceIte] at h
    cases hrec : recv cfg s.treeL s.treeR true r osr with
    | none => simp [hrec] at h
    | some p =>
      obtain ⟨my', em⟩ := p
      simp only [hrec, Except.ok.injEq] at h
      subst h
      exact ⟨by simp only [recs_out_append]; exact NR.append hi.out (recv_nr hL hR hr hrec), hi.bufL, hi.bufR⟩

theorem nr_onRec_inv {cfg : Cfg} (hL : cfg.outerL = false) (hR : cfg.outerR = false) (left : Bool) {s s' : St} {r : Rec} (osr : Bool)
    (hr : r.retr = false) (hi : InvNR s) (h : onRec cfg s left r osr = .ok s') : InvNR s' := by
  unfold onRec at h
  split at h
  · exact nr_directRecv_inv hL hR left osr hr hi h
  · simp only [Except.ok.injEq] at h
    subst h
    unfold addBuf
    cases left
    · exact ⟨hi.out, hi.bufL, add_nr _ _ hr _ hi.bufR⟩
    · exact ⟨hi.out, add_nr _ _ hr _ hi.bufL, hi.bufR⟩

theorem recs_snoc_wm' (o : List Msg) (m : Int) : recs (o ++ [Msg.wm m]) = recs o := by
  rw [recs_append]; simp [recs]

theorem nr_onWm_inv {cfg : Cfg} (hL : cfg.outerL = false) (hR : cfg.outerR = false) (left : Bool) {s s' : St} (w : Int)
    (hi : InvNR s) (h : onWm cfg s left w = .ok s') : InvNR s' := by
  unfold onWm at h
  generalize hs1 : (if left = true then { s with lw := some w } else { s with rw := some w }) = s1 at h
  have hi1 : InvNR s1 := by
    subst hs1
    cases left <;> exact ⟨hi.out, hi.bufL, hi.bufR⟩
  simp only at h
  generalize (if left = true then if after s1.lw s1.rw = true then s1.rw else s1.lw
      else if after s1.rw s1.lw = true then s1.lw else s1.rw) = mn at h
  cases mn with
  | none => simp only [Except.ok.injEq] at h; subst h; exact hi1
  | some m =>
    simp only at h
    by_cases ha : after (some m) s1.minW = true
    · simp only [ha, ↓reduceIte] at h
      cases hp : processUpTo cfg { s1 with minW := some m } (.at (some m)) false with
      | error o => simp [hp] at h
      | ok s2 =>
        simp only [hp, Except.ok.injEq] at h
        subst h
        have hi2 := nr_processUpTo_inv hL hR _ _ (s := { s1 with minW := some m }) ⟨hi1.out, hi1.bufL, hi1.bufR⟩ hp
        exact ⟨by simp only [recs_snoc_wm']; exact hi2.out, hi2.bufL, hi2.bufR⟩
    · simp only [ha, Bool.false_eq_true, ↓reduceIte, Except.ok.injEq] at h
      subst h; exact hi1

theorem nr_markIf_inv (cfg : Cfg) (leftDone : Bool) {s : St} (osr : Bool) (hi : InvNR s) : InvNR (markIf cfg leftDone s osr).1 := by
  unfold markIf
  by_cases ho : cfg.outer = true
  · simp only [ho, ↓reduceIte]; exact hi
  · simp only [ho, Bool.false_eq_true, ↓reduceIte]
    cases leftDone
    · simp only [Bool.false_eq_true, ↓reduceIte]
      by_cases he : s.bufR.isEmpty = true
      · simp only [he, ↓reduceIte]; exact ⟨hi.out, hi.bufL, hi.bufR⟩
      · simp only [he, Bool.false_eq_true, ↓reduceIte]; exact hi
    · simp only [↓reduceIte]
      by_cases he : s.bufL.isEmpty = true
      · simp only [he, ↓reduceIte]; exact ⟨hi.out, hi.bufL, hi.bufR⟩
      · simp only [he, Bool.false_eq_true, ↓reduceIte]; exact hi

theorem nr_onFirstClose_inv {cfg : Cfg} (hL : cfg.outerL = false) (hR : cfg.outerR = false) (leftDone : Bool) {s : St} {p : St × Bool}
    (hi : InvNR s) (h : onFirstClose cfg s leftDone = .ok p) : InvNR p.1 := by
  unfold onFirstClose at h
  simp only at h
  cases hp : processUpTo cfg { s with minW := if leftDone = true then s.rw else s.lw }
      (.at (if leftDone = true then s.rw else s.lw)) (!cfg.outer && cfg.switchOsr) with
  | error o => simp [hp] at h
  | ok s2 =>
    simp only [hp, Except.ok.injEq] at h
    subst h
    exact nr_markIf_inv cfg leftDone false (nr_processUpTo_inv hL hR _ _ (s := { s with minW := if leftDone = true then s.rw else s.lw })
      ⟨hi.out, hi.bufL, hi.bufR⟩ hp)

theorem nr_onWmOne_inv {cfg : Cfg} (hL : cfg.outerL = false) (hR : cfg.outerR = false) (leftDone osr : Bool) (w : Int) {s : St} {p : St × Bool}
    (hi : InvNR s) (h : onWmOne cfg s leftDone osr w = .ok p) : InvNR p.1 := by
  unfold onWmOne at h
  cases hp : processUpTo cfg s (.at (some w)) osr with
  | error o => simp [hp] at h
  | ok s2 =>
    simp only [hp, Except.ok.injEq] at h
    subst h
    have hi2 := nr_markIf_inv cfg leftDone osr (nr_processUpTo_inv hL hR _ _ hi hp)
    exact ⟨by simp only [recs_snoc_wm']; exact hi2.out, hi2.bufL, hi2.bufR⟩

theorem runFrom_nr {cfg : Cfg} (hL : cfg.outerL = false) (hR : cfg.outerR = false) :
    ∀ (σ : List Ev) (s : St) (ph : Phase) (out : List Msg), InvNR s →
      (∀ e ∈ σ, ∀ r, e.msg = some (.data r) → r.retr = false) → runFrom cfg s ph σ = .ok out → NR (recs out)
  | [], s, ph, out, hi, _, h => by
    cases ph <;> simp only [runFrom, Outcome.ok.injEq] at h <;> (subst h; exact hi.out)
  | e :: σ, s, .both, out, hi, hσ, h => by
    have hσ' : ∀ e' ∈ σ, ∀ r, e'.msg = some (.data r) → r.retr = false := fun e' he' => hσ e' (by simp [he'])
    simp only [runFrom] at h
    cases hm : e.msg with
    | none =>
      simp only [hm] at h
      cases hc : onFirstClose cfg s e.left with
      | error o => simp [hc] at h
      | ok p =>
        simp only [hc] at h
        exact runFrom_nr hL hR σ p.1 _ out (nr_onFirstClose_inv hL hR e.left hi hc) hσ' h
    | some m =>
      cases m with
      | wm w =>
        simp only [hm] at h
        cases hc : onWm cfg s e.left w with
        | error o => simp [hc] at h
        | ok s' =>
          simp only [hc] at h
          exact runFrom_nr hL hR σ s' _ out (nr_onWm_inv hL hR e.left w hi hc) hσ' h
      | data r =>
        simp only [hm] at h
        cases hc : onRec cfg s e.left r false with
        | error o => simp [hc] at h
        | ok s' =>
          simp only [hc] at h
          exact runFrom_nr hL hR σ s' _ out (nr_onRec_inv hL hR e.left false (hσ e (by simp) r hm) hi hc) hσ' h
  | e :: σ, s, .one leftDone osr, out, hi, hσ, h => by
    have hσ' : ∀ e' ∈ σ, ∀ r, e'.msg = some (.data r) → r.retr = false := fun e' he' => hσ e' (by simp [he'])
    simp only [runFrom] at h
    split at h
    · cases h
    · cases hm : e.msg with
      | none =>
        simp only [hm] at h
        cases hc : onSecondClose cfg s osr with
        | error o => simp [hc] at h
        | ok s' =>
          simp only [hc] at h
          unfold onSecondClose at hc
          exact runFrom_nr hL hR σ s' _ out (nr_processUpTo_inv hL hR _ _ hi hc) hσ' h
      | some m =>
        cases m with
        | wm w =>
          simp only [hm] at h
          cases hc : onWmOne cfg s leftDone osr w with
          | error o => simp [hc] at h
          | ok p =>
            simp only [hc] at h
            exact runFrom_nr hL hR σ p.1 _ out (nr_onWmOne_inv hL hR leftDone osr w hi hc) hσ' h
        | data r =>
          simp only [hm] at h
          cases hc : onRec cfg s e.left r osr with
          | error o => simp [hc] at h
          | ok s' =>
            simp only [hc] at h
            exact runFrom_nr hL hR σ s' _ out (nr_onRec_inv hL hR e.left osr (hσ e (by simp) r hm) hi hc) hσ' h
  | _ :: _, _, .done, _, _, _, h => by simp [runFrom] at h

/-- **no retractions out of retraction-free inputs**, for every schedule -/
theorem run_nr {cfg : Cfg} (hL : cfg.outerL = false) (hR : cfg.outerR = false) {σ : List Ev} {out : List Msg}
    (hσ : ∀ e ∈ σ, ∀ r, e.msg = some (.data r) → r.retr = false) (h : run cfg σ = .ok out) : NR (recs out) :=
  runFrom_nr hL hR σ St.init .both out ⟨NR.nil, fun _ h => by simp [St.init] at h, fun _ h => by simp [St.init] at h⟩ hσ h

end Octo.Join
