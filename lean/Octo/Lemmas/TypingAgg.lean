import Octo.Lemmas.TypingTableOk
/-! Octo.Lemmas.TypingAgg — aggregates: overload choice and output types of `GroupBy.Typecheck`, one group of `SimpleGroupBy`. -/
namespace Octo.Tc
open Octo Octo.Ty Octo.Gen.FuncTable

/-! ### aggregates -/

def aggProduces : AggKind → List Value → Value → Prop
  | .ctor tid, _, v => v.rank = tid
  | .input, xs, v => v ∈ xs
  | .inputs, xs, v => ∃ ys, v = .list ys ∧ ∀ y ∈ ys, y ∈ xs

/-- what the go/ast pass establishes about a `Trigger` method, `xs` being the (non-NULL) values added -/
def AggRespects (k : AggKind) (trigger : List Value → Res) : Prop := ∀ xs v, trigger xs = .val v → aggProduces k xs v

def aggKindOk (arg out : Ty) : AggKind → Bool
  | .ctor tid => match scalarOfId tid with
    | some s => s.is out == .is
    | none => false
  | .input => arg.is out == .is
  | .inputs => false

/-- the per-descriptor obligation for aggregates -/
def AggSound (d : AggDescr) (trigger : List Value → Res) : Prop :=
  match d.typeFn with
  | none => ∀ xs v, (∀ x ∈ xs, conforms d.arg x = true) → trigger xs = .val v → conforms d.out v = true
  | some f => ∀ t o xs v, f t = some o → (∀ x ∈ xs, conforms t x = true) → trigger xs = .val v → conforms o v = true

theorem aggSound_static {d : AggDescr} {k : AggKind} {trigger : List Value → Res} (htf : d.typeFn = none)
    (hk : aggKindOk d.arg d.out k = true) (hr : AggRespects k trigger) : AggSound d trigger := by
  unfold AggSound; simp only [htf]
  intro xs v hx hv
  have hp := hr xs v hv
  cases k with
  | ctor tid =>
    simp only [aggKindOk] at hk
    cases hs : scalarOfId tid with
    | none => simp [hs] at hk
    | some s =>
      simp only [hs, beq_iff_eq] at hk
      exact Ty.is_sound hk v (conforms_scalar_of_rank hs hp)
  | input =>
    simp only [aggKindOk, beq_iff_eq] at hk
    exact Ty.is_sound hk v (hx v hp)
  | inputs => simp [aggKindOk] at hk

theorem aggSound_array {d : AggDescr} {trigger : List Value → Res} (htf : d.typeFn = some aggTyFn)
    (hr : AggRespects .inputs trigger) : AggSound d trigger := by
  unfold AggSound; simp only [htf]
  intro t o xs v hf hx hv
  simp only [aggTyFn, Option.some.injEq] at hf; subst hf
  obtain ⟨ys, rfl, hys⟩ := hr xs v hv
  simp only [conforms, List.all_eq_true]
  intro y hy; exact hx y (hys y hy)

theorem aggLift_spec {t out o : Ty} (h : aggLift t out = .ok o) (wo : wf out = true) :
    wf o = true ∧ (∀ v, conforms out v = true → conforms o v = true) ∧ (admitsNull t = true → conforms o .null = true) := by
  unfold aggLift at h
  by_cases hn : admitsNull t = true
  · simp only [hn, if_true] at h
    cases hs : typeSum out .null with
    | none => simp [hs] at h
    | some s =>
      simp only [hs, Except.ok.injEq] at h; subst h
      exact ⟨typeSum_wf hs wo (by simp [wf]), fun v hv => (typeSum_null_char hs v).mpr (Or.inl hv),
        fun _ => (typeSum_null_char hs .null).mpr (Or.inr rfl)⟩
  · simp only [hn, Bool.false_eq_true, if_false, Except.ok.injEq] at h; subst h
    exact ⟨wo, fun _ hv => hv, fun h' => absurd h' hn⟩

/-- one group: either no non-NULL input (then NULL, and some input WAS NULL unless there was no input at all), or the
    aggregate's `Trigger` over the non-NULL inputs -/
theorem aggRun_spec (trigger : List Value → Res) (T : Ty) : ∀ (rs : List Res) (acc : List Value) (v : Value),
    (∀ r ∈ rs, ∀ w, r = .val w → conforms T w = true) → (∀ x ∈ acc, conforms T x = true ∧ x ≠ .null) →
    aggRun trigger rs acc = .val v →
    (v = .null ∧ acc = [] ∧ (rs = [] ∨ conforms T .null = true)) ∨
    (∃ xs, (∀ x ∈ xs, conforms T x = true ∧ x ≠ .null) ∧ trigger xs = .val v)
  | [], acc, v, _, ha, h => by
    simp only [aggRun] at h
    by_cases he : acc.isEmpty = true
    · simp only [he, if_true, Res.val.injEq] at h; subst h
      exact Or.inl ⟨rfl, by simpa using he, Or.inl rfl⟩
    · simp only [he, Bool.false_eq_true, if_false] at h
      exact Or.inr ⟨acc.reverse, fun x hx => ha x (by simpa using hx), h⟩
  | r :: rest, acc, v, hr, ha, h => by
    cases r with
    | val w =>
      simp only [aggRun] at h
      have hw := hr (.val w) (by simp) w rfl
      have hrest : ∀ r ∈ rest, ∀ w, r = .val w → conforms T w = true := fun r hr' => hr r (by simp [hr'])
      by_cases hn : isNullV w = true
      · simp only [hn, if_true] at h
        have : w = .null := (isNullV_iff w).mp hn
        subst this
        rcases aggRun_spec trigger T rest acc v hrest ha h with ⟨h1, h2, _⟩ | h'
        · exact Or.inl ⟨h1, h2, Or.inr hw⟩
        · exact Or.inr h'
      · simp only [hn, Bool.false_eq_true, if_false] at h
        rcases aggRun_spec trigger T rest (w :: acc) v hrest (by
          intro x hx; simp only [List.mem_cons] at hx
          rcases hx with rfl | hx
          · exact ⟨hw, fun hh => hn ((isNullV_iff _).mpr hh)⟩
          · exact ha x hx) h with ⟨_, h2, _⟩ | h'
        · cases h2
        · exact Or.inr h'
    | err => simp [aggRun] at h
    | panic => simp [aggRun] at h
    | unmodelled => simp [aggRun] at h


theorem plain_is_null {a : Ty} (hu : a.isUnion = false) (ha : a.isAny = false) (hid : a.id ≠ 0) : a.is .null = .isnt := by
  cases a <;> simp [isUnion] at hu <;> simp [isAny] at ha <;> simp [Ty.id] at hid <;> rfl

theorem unionFold_isnt (r : Ty → Rel) : ∀ (l : List Ty) (st : Bool × Bool), (∀ a ∈ l, r a = .isnt) →
    (l.foldl (fun st a => unionStep st (r a)) st).1 = st.1
  | [], st, _ => rfl
  | x :: xs, st, h => by
    simp only [List.foldl]
    rw [unionFold_isnt r xs _ (fun a ha => h a (by simp [ha])), h x (by simp)]
    rfl

/-- the non-NULL part of a well-formed type is never "maybe" NULL (so the maybe pass never picks a `TypeFn` aggregate) -/
theorem nonNullable_is_null_ne_maybe {t : Ty} (w : wf t = true) : (nonNullable t).is .null ≠ .maybe := by
  by_cases hu : t.isUnion = true
  · obtain ⟨alts, rfl⟩ := eq_union_of_isUnion hu
    rw [wf_union] at w
    have hp := (altsPlain_iff _).mp w.1
    have hf : ∀ a ∈ alts.filter (fun a => decide (a.id ≠ 0)), a.is .null = .isnt := by
      intro a ha
      have ⟨hm, hid⟩ := List.mem_filter.mp ha
      exact plain_is_null (hp a hm).1 (hp a hm).2 (by simpa using hid)
    simp only [nonNullable]
    split
    · rename_i x hx
      rw [hf x (by rw [hx]; simp)]; simp
    · rw [is_eq]
      simp only [isStep, isAny, Bool.false_eq_true, if_false]
      unfold unionResult
      rw [unionFold_isnt _ _ _ hf]
      simp only [Bool.false_eq_true, if_false]
      split <;> simp
  · have hu' : t.isUnion = false := by simpa using hu
    rw [nonNullable_of_not_union t hu']
    cases t <;> simp [isUnion] at hu' <;> (rw [is_eq]; simp [isStep, isAny, Ty.id])


/-- what the soundness of the aggregate rule needs of a descriptor list: declared argument types are scalars or `Any`
    (a `TypeFn` descriptor has the zero `ArgumentType`, NULL), output types are well formed -/
def AggTableOk (ds : List AggDescr) : Prop :=
  ∀ d ∈ ds, (d.typeFn = none → paramOk d.arg = true ∧ wf d.out = true) ∧
    (∀ f, d.typeFn = some f → d.arg = .null ∧ ∀ t o, wf t = true → f t = some o → wf o = true)

theorem aggExact_spec (t : Ty) : ∀ (ds : List (AggDescr × Nat)) (i : Nat) (o : Ty), aggExact t ds = .ok (some (i, o)) →
    ∃ d, (d, i) ∈ ds ∧
      ((∃ f o0, d.typeFn = some f ∧ f t = some o0 ∧ aggLift t o0 = .ok o) ∨
       (d.typeFn = none ∧ ∃ an, typeSum d.arg .null = some an ∧ t.is an = .is ∧ aggLift t d.out = .ok o))
  | [], _, _, h => by simp [aggExact] at h
  | (d, j) :: rest, i, o, h => by
    simp only [aggExact] at h
    have next : aggExact t rest = .ok (some (i, o)) →
        ∃ d', (d', i) ∈ (d, j) :: rest ∧
          ((∃ f o0, d'.typeFn = some f ∧ f t = some o0 ∧ aggLift t o0 = .ok o) ∨
           (d'.typeFn = none ∧ ∃ an, typeSum d'.arg .null = some an ∧ t.is an = .is ∧ aggLift t d'.out = .ok o)) := fun h' => by
      obtain ⟨d', hm, hd'⟩ := aggExact_spec t rest i o h'
      exact ⟨d', List.mem_cons_of_mem _ hm, hd'⟩
    cases htf : d.typeFn with
    | some f =>
      simp only [htf] at h
      cases hf : f t with
      | none => simp only [hf] at h; exact next h
      | some o0 =>
        simp only [hf] at h
        cases hl : aggLift t o0 with
        | error e => simp [hl, Except.map] at h
        | ok o' =>
          simp only [hl, Except.map, Except.ok.injEq, Option.some.injEq, Prod.mk.injEq] at h
          obtain ⟨rfl, rfl⟩ := h
          exact ⟨d, by simp, Or.inl ⟨f, o0, htf, hf, hl⟩⟩
    | none =>
      simp only [htf] at h
      cases hs : typeSum d.arg .null with
      | none => simp [hs] at h
      | some an =>
        simp only [hs] at h
        by_cases his : t.is an = .is
        · simp only [his, beq_self_eq_true, if_true] at h
          cases hl : aggLift t d.out with
          | error e => simp [hl, Except.map] at h
          | ok o' =>
            simp only [hl, Except.map, Except.ok.injEq, Option.some.injEq, Prod.mk.injEq] at h
            obtain ⟨rfl, rfl⟩ := h
            exact ⟨d, by simp, Or.inr ⟨htf, an, hs, his, hl⟩⟩
        · have : (t.is an == Rel.is) = false := by simpa using his
          simp only [this, Bool.false_eq_true, if_false] at h
          exact next h

theorem aggMaybe_spec (p : PExpr) : ∀ (ds : List (AggDescr × Nat)) (i : Nat) (p' : PExpr) (o : Ty),
    aggMaybe p ds = .ok (some (i, p', o)) →
    ∃ d, (d, i) ∈ ds ∧ (nonNullable p.ty).is d.arg = .maybe ∧ ∃ target at', typeSum d.arg .null = some target ∧
      typeInter target p.ty = some (some at') ∧ p' = .assert at' target p ∧ aggLift at' d.out = .ok o
  | [], _, _, _, h => by simp [aggMaybe] at h
  | (d, j) :: rest, i, p', o, h => by
    simp only [aggMaybe] at h
    by_cases hm : (nonNullable p.ty).is d.arg = .maybe
    · simp only [hm, beq_self_eq_true, if_true] at h
      cases hs : typeSum d.arg .null with
      | none => simp [hs] at h
      | some target =>
        simp only [hs] at h
        cases hi : typeInter target p.ty with
        | none => simp [hi] at h
        | some oi =>
          cases oi with
          | none => simp [hi] at h
          | some at' =>
            simp only [hi] at h
            cases hl : aggLift at' d.out with
            | error e => simp [hl, Except.map] at h
            | ok o' =>
              simp only [hl, Except.map, Except.ok.injEq, Option.some.injEq, Prod.mk.injEq] at h
              obtain ⟨rfl, rfl, rfl⟩ := h
              exact ⟨d, by simp, hm, target, at', hs, hi, rfl, hl⟩
    · have : ((nonNullable p.ty).is d.arg == Rel.maybe) = false := by simpa using hm
      simp only [this, Bool.false_eq_true, if_false] at h
      obtain ⟨d', hmem, hd'⟩ := aggMaybe_spec p rest i p' o h
      exact ⟨d', List.mem_cons_of_mem _ hmem, hd'⟩

/-- **aggregates (iii)**: the (possibly asserted) argument expression is sound, the reported column type is well formed,
    and whatever one group produces over conforming records matches it — for every `Trigger` that meets the
    per-descriptor obligation `AggSound` -/
theorem agg_sound {S : Sig} {Γ : Ctx} {ds : List AggDescr} {p p' : PExpr} {i : Nat} {o : Ty}
    (hp : Sound S Γ p) (hds : AggTableOk ds) (h : aggTypecheck ds p = .ok (i, p', o)) :
    Sound S Γ p' ∧ wf o = true ∧
    ∃ d, ds[i]? = some d ∧ ∀ trigger, AggSound d trigger → coalesceOk p' = true →
      ∀ (ρs : List (List (List Value))), ρs ≠ [] → (∀ ρ ∈ ρs, EnvConforms Γ ρ) →
        ∀ v, aggRun trigger (ρs.map (fun ρ => eval S Γ ρ p')) [] = .val v → conforms o v = true := by
  -- the common tail: from the typing facts of the chosen descriptor to the statement about one group
  have tail : ∀ (d : AggDescr) (q : PExpr) (o0 : Ty), Sound S Γ q → wf o0 = true → aggLift q.ty o0 = .ok o →
      (∀ trigger, AggSound d trigger → ∀ xs v, (∀ x ∈ xs, conforms q.ty x = true ∧ x ≠ .null) → trigger xs = .val v →
        conforms o0 v = true) →
      wf o = true ∧ ∀ trigger, AggSound d trigger → coalesceOk q = true →
        ∀ (ρs : List (List (List Value))), ρs ≠ [] → (∀ ρ ∈ ρs, EnvConforms Γ ρ) →
          ∀ v, aggRun trigger (ρs.map (fun ρ => eval S Γ ρ q)) [] = .val v → conforms o v = true := by
    intro d q o0 hq wo0 hl hbody
    have ⟨wo, mono, hnull⟩ := aggLift_spec hl wo0
    refine ⟨wo, ?_⟩
    intro trigger hts hpl ρs hne hρ v hv
    have hin : ∀ r ∈ ρs.map (fun ρ => eval S Γ ρ q), ∀ w, r = .val w → conforms q.ty w = true := by
      intro r hr w hw
      simp only [List.mem_map] at hr
      obtain ⟨ρ, hρm, rfl⟩ := hr
      exact hq.2 hpl ρ w (hρ ρ hρm) hw
    rcases aggRun_spec trigger q.ty _ [] v hin (by simp) hv with ⟨rfl, _, hc⟩ | ⟨xs, hxs, htr⟩
    · rcases hc with hc | hc
      · simp only [List.map_eq_nil_iff] at hc; exact absurd hc hne
      · exact hnull (admits_of_conforms_null hq.1 hc)
    · exact mono v (hbody trigger hts xs v hxs htr)
  unfold aggTypecheck at h
  cases he : aggExact p.ty (zipIdx ds) with
  | error e => rw [he] at h; cases h
  | ok r =>
    rw [he] at h
    cases r with
    | some r =>
      obtain ⟨j, o'⟩ := r
      simp only [Except.ok.injEq, Prod.mk.injEq] at h
      obtain ⟨rfl, rfl, rfl⟩ := h
      obtain ⟨d, hmem, hd⟩ := aggExact_spec p.ty _ j o' he
      have ⟨_, hget⟩ := zipIdx_mem _ 0 d j hmem
      simp only [Nat.sub_zero] at hget
      have hdm : d ∈ ds := List.mem_of_getElem? hget
      rcases hd with ⟨f, o0, htf, hf, hl⟩ | ⟨htf, an, hs, his, hl⟩
      · have wo0 := ((hds d hdm).2 f htf).2 p.ty o0 hp.1 hf
        have ⟨wo, ht⟩ := tail d p o0 hp wo0 hl (by
          intro trigger hts xs v hxs htr
          unfold AggSound at hts; simp only [htf] at hts
          exact hts p.ty o0 xs v hf (fun x hx => (hxs x hx).1) htr)
        exact ⟨hp, wo, d, hget, ht⟩
      · have ⟨hpo, wout⟩ := (hds d hdm).1 htf
        have ⟨wo, ht⟩ := tail d p d.out hp wout hl (by
          intro trigger hts xs v hxs htr
          unfold AggSound at hts; simp only [htf] at hts
          refine hts xs v (fun x hx => ?_) htr
          have ⟨hc, hn⟩ := hxs x hx
          rcases (typeSum_null_char hs x).mp (Ty.is_sound his x hc) with h' | h'
          · exact h'
          · exact absurd h' hn)
        exact ⟨hp, wo, d, hget, ht⟩
    | none =>
      simp only at h
      cases hm : aggMaybe p (zipIdx ds) with
      | error e => rw [hm] at h; cases h
      | ok r =>
        rw [hm] at h
        cases r with
        | none => simp at h
        | some r =>
          obtain ⟨j, q, o'⟩ := r
          simp only [Except.ok.injEq, Prod.mk.injEq] at h
          obtain ⟨rfl, rfl, rfl⟩ := h
          obtain ⟨d, hmem, hmaybe, target, at', hs, hi, rfl, hl⟩ := aggMaybe_spec p _ j q o' hm
          have ⟨_, hget⟩ := zipIdx_mem _ 0 d j hmem
          simp only [Nat.sub_zero] at hget
          have hdm : d ∈ ds := List.mem_of_getElem? hget
          -- a `TypeFn` descriptor (ArgumentType NULL) never "maybe" fits
          have htf : d.typeFn = none := by
            cases htf : d.typeFn with
            | none => rfl
            | some f =>
              have := ((hds d hdm).2 f htf).1
              rw [this] at hmaybe
              exact absurd hmaybe (nonNullable_is_null_ne_maybe hp.1)
          have ⟨hpo, wout⟩ := (hds d hdm).1 htf
          have hpa : d.arg.isAny = false := by
            cases hda : d.arg <;> simp [isAny]
            rw [hda] at hmaybe; simp at hmaybe
          have haa : p.ty.isAny = false := by
            cases hta : p.ty <;> simp [isAny]
            rw [hta] at hmaybe
            have : nonNullable .any = .any := by simp [nonNullable]
            rw [this, any_isnt_param hpo hpa] at hmaybe
            cases hmaybe
          have ⟨_, f2, _, w2⟩ := param_flat hpo hpa
          rw [param_scalar_sumNull hpo hpa] at hs
          simp only [Option.some.injEq] at hs; subst hs
          have hq : Sound S Γ (.assert at' (.union [.null, d.arg]) p) := assert_sound hp w2 f2 haa hi
          have ⟨wo, ht⟩ := tail d _ d.out hq wout hl (by
            intro trigger hts xs v hxs htr
            unfold AggSound at hts; simp only [htf] at hts
            refine hts xs v (fun x hx => ?_) htr
            have ⟨hc, hn⟩ := hxs x hx
            have hct := Ty.is_sound (assert_below w2 hp.1 hi) x hc
            rw [conforms_union_iff] at hct
            obtain ⟨a, ha, hav⟩ := hct
            simp only [List.mem_cons, List.not_mem_nil, or_false] at ha
            rcases ha with rfl | rfl
            · exact absurd ((conforms_null_iff_eq x).mp hav) hn
            · exact hav)
          exact ⟨hq, wo, d, hget, ht⟩

end Octo.Tc
