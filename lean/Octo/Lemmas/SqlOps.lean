import Octo.Lemmas.CmpLaws
import Octo.Spec.SqlSem
/-! Lemmas about the batch operators of `Octo.Model.Sql` (for C01 / C05). -/
namespace Octo.Sql
open Octo

/-! ### `cmpList` is a total preorder on rows; `rowEq` an equivalence -/

theorem cmpList_refl (a : Row) : cmpList a a = 0 := cmpListWith_refl cmpFloatFixed_laws a

theorem cmpList_antisymm (a b : Row) : cmpList a b = - cmpList b a :=
  cmpListWith_antisymm_of (cf := cmpFloatFixed) (Value.sizeList a + Value.sizeList b + 1)
    (fun x y _ => cmpWith_antisymm cmpFloatFixed_laws x y) a b (Nat.lt_succ_self _)

theorem cmpList_trans (a b c : Row) : cmpList a b ≤ 0 → cmpList b c ≤ 0 → cmpList a c ≤ 0 :=
  cmpListWith_trans_of cmpFloatFixed_laws (Value.sizeList a + Value.sizeList b + Value.sizeList c + 1)
    (fun x y z _ => cmpWith_trans cmpFloatFixed_laws x y z) a b c (Nat.lt_succ_self _)

theorem cmpList_eq_trans (a b c : Row) (h1 : cmpList a b = 0) (h2 : cmpList b c = 0) : cmpList a c = 0 := by
  have t1 := cmpList_trans a b c (by omega) (by omega)
  have a1 := cmpList_antisymm a b
  have a2 := cmpList_antisymm b c
  have a3 := cmpList_antisymm a c
  have t2 := cmpList_trans c b a (by omega) (by omega)
  omega

theorem rowEq_refl (a : Row) : rowEq a a = true := by simp [rowEq, cmpList_refl]

theorem rowEq_symm {a b : Row} (h : rowEq a b = true) : rowEq b a = true := by
  simp only [rowEq, beq_iff_eq] at *
  have := cmpList_antisymm a b
  omega

theorem rowEq_trans {a b c : Row} (h1 : rowEq a b = true) (h2 : rowEq b c = true) : rowEq a c = true := by
  simp only [rowEq, beq_iff_eq] at *
  exact cmpList_eq_trans a b c h1 h2

/-- rows of one class are indistinguishable for `rowEq` -/
theorem rowEq_congr {a b : Row} (h : rowEq a b = true) (r : Row) : rowEq r a = rowEq r b := by
  cases h1 : rowEq r a <;> cases h2 : rowEq r b <;> try rfl
  · have := rowEq_trans h2 (rowEq_symm h); simp_all
  · have := rowEq_trans h1 h; simp_all

theorem rowEq_congr_left {a b : Row} (h : rowEq a b = true) (r : Row) : rowEq a r = rowEq b r := by
  cases h1 : rowEq a r <;> cases h2 : rowEq b r <;> try rfl
  · have := rowEq_trans h h2; simp_all
  · have := rowEq_trans (rowEq_symm h) h1; simp_all

/-! ### counting -/

theorem countRow_append (r : Row) (a b : List Row) : countRow r (a ++ b) = countRow r a + countRow r b := by
  induction a with
  | nil => simp [countRow]
  | cons x xs ih => simp [countRow, ih]; omega

theorem countRow_replicate (r x : Row) (n : Nat) :
    countRow r (List.replicate n x) = if rowEq r x then n else 0 := by
  induction n with
  | zero => simp [countRow]
  | succ n ih => simp only [List.replicate, countRow, ih]; split <;> omega

theorem countRow_le_length (r : Row) (l : List Row) : countRow r l ≤ l.length := by
  induction l with
  | nil => simp [countRow]
  | cons x xs ih => simp only [countRow, List.length_cons]; split <;> omega

theorem countRow_congr {a b : Row} (h : rowEq a b = true) (l : List Row) : countRow a l = countRow b l := by
  induction l with
  | nil => rfl
  | cons x xs ih => simp only [countRow, ih, rowEq_congr_left h x]

theorem any_rowEq_iff_count (r : Row) (l : List Row) : l.any (rowEq r) = decide (countRow r l > 0) := by
  induction l with
  | nil => simp [countRow]
  | cons x xs ih =>
    simp only [List.any_cons, countRow, ih]
    by_cases h : rowEq r x = true
    · simp [h]; omega
    · have h' : rowEq r x = false := by simpa using h
      simp [h']

/-! ### DISTINCT -/

theorem distinctGo_count (seen rows : List Row) (r : Row) :
    countRow r (distinctGo seen rows) =
      if seen.any (rowEq r) then 0 else if countRow r rows > 0 then 1 else 0 := by
  induction rows generalizing seen with
  | nil => simp [distinctGo, countRow]
  | cons x xs ih =>
    simp only [distinctGo]
    by_cases hx : seen.any (rowEq x) = true
    · simp only [hx, if_true, ih seen]
      by_cases hs : seen.any (rowEq r) = true
      · simp [hs]
      · simp only [hs, countRow]
        -- r is not seen, x is seen, so r is not x
        have hrx : rowEq r x = false := by
          cases h : rowEq r x
          · rfl
          · exfalso
            apply hs
            rw [List.any_eq_true] at hx ⊢
            obtain ⟨s, hs1, hs2⟩ := hx
            exact ⟨s, hs1, rowEq_trans h hs2⟩
        simp [hrx]
    · have hx' : seen.any (rowEq x) = false := by simpa using hx
      simp only [hx', Bool.false_eq_true, if_false, countRow, ih (x :: seen), List.any_cons]
      by_cases hs : seen.any (rowEq r) = true
      · -- r seen but x not seen: r is not x
        have hrx : rowEq r x = false := by
          cases h : rowEq r x
          · rfl
          · exfalso
            apply hx
            rw [List.any_eq_true] at hs ⊢
            obtain ⟨s, hs1, hs2⟩ := hs
            exact ⟨s, hs1, rowEq_trans (rowEq_symm h) hs2⟩
        simp [hs, hrx]
      · have hs' : seen.any (rowEq r) = false := by simpa using hs
        by_cases hrx : rowEq r x = true
        · simp [hs', hrx]
        · have hrx' : rowEq r x = false := by simpa using hrx
          simp [hs', hrx']

theorem distinctOp_isDistinct (rows : List Row) : IsDistinctOf (distinctOp rows) rows := by
  intro r
  simp [distinctOp, distinctGo_count]

end Octo.Sql
