import Octo.Lemmas.OpsWm
/-!
  Octo.Lemmas.OpsBufferProps — what the buffer specification guarantees: the release order is the
  stable sort by event time (sorted, stable, a permutation), nothing is lost or changed.
-/
namespace Octo.Ops
open Octo

theorem insByEt_perm (t : Int) (r : Rec) (l : List (Int × Rec)) : (insByEt t r l).Perm ((t, r) :: l) := by
  induction l with
  | nil => exact List.Perm.refl _
  | cons a as ih =>
    obtain ⟨u, q⟩ := a
    simp only [insByEt]
    split
    · exact List.Perm.refl _
    · exact (List.Perm.cons _ ih).trans (List.Perm.swap _ _ _)

theorem sortByEt_perm (p : List (Int × Rec)) : (sortByEt p).Perm p := by
  have : ∀ acc : List (Int × Rec), (p.foldl (fun acc a => insByEt a.1 a.2 acc) acc).Perm (acc ++ p) := by
    induction p with
    | nil => intro acc; simp
    | cons a as ih =>
      intro acc
      simp only [List.foldl_cons]
      refine (ih _).trans ?_
      refine (List.Perm.append_right as (insByEt_perm a.1 a.2 acc)).trans ?_
      simp only [List.cons_append]
      exact (List.perm_middle (l₁ := acc) (a := a) (l₂ := as)).symm
  simpa [sortByEt] using this []

theorem insByEt_sorted (t : Int) (r : Rec) (l : List (Int × Rec)) (h : l.Pairwise fun a b => a.1 ≤ b.1) :
    (insByEt t r l).Pairwise fun a b => a.1 ≤ b.1 := by
  induction l with
  | nil => simp [insByEt]
  | cons a as ih =>
    obtain ⟨u, q⟩ := a
    have h' := List.pairwise_cons.mp h
    simp only [insByEt]
    split
    · rename_i htu
      refine List.pairwise_cons.mpr ⟨?_, h⟩
      intro b hb
      rcases List.mem_cons.mp hb with hb' | hb'
      · subst hb'; exact Int.le_of_lt htu
      · have := h'.1 b hb'; simp only at this ⊢; omega
    · rename_i htu
      refine List.pairwise_cons.mpr ⟨?_, ih h'.2⟩
      intro b hb
      rcases (mem_insByEt t r as b).mp hb with hb' | hb'
      · subst hb'; simp only; omega
      · exact h'.1 b hb'

/-- released batches are in event-time order … -/
theorem sortByEt_sorted (p : List (Int × Rec)) : (sortByEt p).Pairwise fun a b => a.1 ≤ b.1 := by
  have : ∀ acc : List (Int × Rec), acc.Pairwise (fun a b => a.1 ≤ b.1) →
      (p.foldl (fun acc a => insByEt a.1 a.2 acc) acc).Pairwise fun a b => a.1 ≤ b.1 := by
    induction p with
    | nil => intro acc h; exact h
    | cons a as ih => intro acc h; exact ih _ (insByEt_sorted a.1 a.2 acc h)
  exact this [] List.Pairwise.nil

theorem insByEt_filter_eq (t u : Int) (r : Rec) (l : List (Int × Rec)) (h : l.Pairwise fun a b => a.1 ≤ b.1) :
    (insByEt t r l).filter (fun a => a.1 == u) =
      if t == u then l.filter (fun a => a.1 == u) ++ [(t, r)] else l.filter (fun a => a.1 == u) := by
  induction l with
  | nil => simp only [insByEt, List.filter_cons, List.filter_nil]; split <;> simp_all
  | cons a as ih =>
    obtain ⟨v, q⟩ := a
    have h' := List.pairwise_cons.mp h
    simp only [insByEt]
    by_cases htv : t < v
    · simp only [htv, ↓reduceIte, List.filter_cons]
      by_cases htu : t = u
      · subst htu
        -- every element of v :: as is above t: none of them has key t
        have hnone : ((v, q) :: as).filter (fun a => a.1 == t) = [] := by
          apply List.filter_eq_nil_iff.mpr
          intro b hb
          rcases List.mem_cons.mp hb with hb' | hb'
          · subst hb'; simp; omega
          · have := h'.1 b hb'; simp only at this; simp; omega
        have hvt : (v == t) = false := by simp; omega
        have has : as.filter (fun a => a.1 == t) = [] := by
          simpa [List.filter_cons, hvt] using hnone
        simp [hvt, has]
      · simp [htu]
    · simp only [htv, ↓reduceIte, List.filter_cons, ih h'.2]
      by_cases htu : t = u
      · subst htu; simp only [beq_self_eq_true, ↓reduceIte]; split <;> simp
      · simp [htu]

/-- … and records with the same event time keep their arrival order (the sort is stable) -/
theorem sortByEt_stable (p : List (Int × Rec)) (u : Int) :
    (sortByEt p).filter (fun a => a.1 == u) = p.filter (fun a => a.1 == u) := by
  have : ∀ acc : List (Int × Rec), acc.Pairwise (fun a b => a.1 ≤ b.1) →
      (p.foldl (fun acc a => insByEt a.1 a.2 acc) acc).filter (fun a => a.1 == u) =
        acc.filter (fun a => a.1 == u) ++ p.filter (fun a => a.1 == u) := by
    induction p with
    | nil => intro acc _; simp
    | cons a as ih =>
      intro acc h
      simp only [List.foldl_cons]
      rw [ih _ (insByEt_sorted a.1 a.2 acc h), insByEt_filter_eq a.1 u a.2 acc h, List.filter_cons]
      split <;> simp
  simpa [sortByEt] using this [] List.Pairwise.nil

/-! ### nothing is lost -/
theorem recs_dataOf (l : List (Int × Rec)) : recs (dataOf l) = l.map (·.2) := by
  rw [dataOf_eq]; exact recs_map_data _

/-- every pending record has an event time within the representable range -/
def InRange (ms : List Msg) : Prop := ∀ r ∈ recs ms, ∀ t, r.et = some t → t ≤ maxWm

theorem recs_bufSpec_perm (ms : List Msg) : ∀ p : List (Int × Rec), (∀ q ∈ p, q.1 ≤ maxWm) → InRange ms →
    (recs (bufSpec p ms)).Perm (p.map (·.2) ++ recs ms) := by
  induction ms with
  | nil =>
    intro p hp _
    simp only [bufSpec, recs_dataOf, recs, List.append_nil]
    rw [List.filter_eq_self.mpr]
    · exact (sortByEt_perm p).map _
    · intro q hq; simpa using hp q ((mem_sortByEt p q).mp hq)
  | cons m ms ih =>
    intro p hp hr
    cases m with
    | data r =>
      have hr' : InRange ms := fun q hq => hr q (by simp [recs, hq])
      cases het : r.et with
      | none =>
        simp only [bufSpec, het, recs]
        exact (List.Perm.cons r (ih p hp hr')).trans List.perm_middle.symm
      | some t =>
        simp only [bufSpec, het, recs]
        have := ih (p ++ [(t, r)]) (by
          intro q hq
          rcases List.mem_append.mp hq with h | h
          · exact hp q h
          · simp only [List.mem_singleton] at h; subst h; exact hr r (by simp [recs]) t het) hr'
        simpa [List.map_append] using this
    | wm w =>
      have hr' : InRange ms := fun q hq => hr q (by simpa [recs] using hq)
      simp only [bufSpec, recs_append, recs_dataOf, recs, List.append_nil]
      have ih' := ih (p.filter fun q => !decide (q.1 ≤ w)) (fun q hq => hp q (List.mem_filter.mp hq).1) hr'
      refine (List.Perm.append_left _ ih').trans ?_
      rw [← List.append_assoc]
      refine List.Perm.append_right _ ?_
      rw [← List.map_append]
      refine List.Perm.map _ ?_
      have h1 := (sortByEt_perm p).filter (fun q => decide (q.1 ≤ w))
      exact (List.Perm.append_right _ h1).trans (List.filter_append_perm _ p)

theorem net_perm {l l' : List Rec} (h : l.Perm l') (y : Row) : net l y = net l' y := by
  induction h with
  | nil => rfl
  | cons x _ ih => simp only [net, ih]
  | swap x y' l => simp only [net]; omega
  | trans _ _ ih1 ih2 => rw [ih1, ih2]

end Octo.Ops
