import Octo.Lemmas.JoinTime
/-!
  The events of `Run` (select arms, phase switch, range loop, final flush) against the invariants,
  and the induction over an arbitrary schedule.
-/
namespace Octo.Join
open Octo

variable {cfg : Cfg} {W : List Rec → List Rec → Row → Int}

/-! ### small facts -/
def minT (a b : T) : T := if after a b then b else a

theorem minT_comm (a b : T) : minT a b = minT b a := by
  unfold minT
  cases h1 : after a b <;> cases h2 : after b a <;> simp
  · exact after_total h1 h2
  · have := not_after_of_after h1; rw [h2] at this; cases this

theorem minT_le_left (a b : T) : after (minT a b) a = false := by
  unfold minT
  cases h1 : after a b
  · simp [after_irrefl]
  · simp [not_after_of_after h1]
theorem minT_le_right (a b : T) : after (minT a b) b = false := by
  unfold minT
  cases h1 : after a b
  · simpa using h1
  · simp [after_irrefl]

theorem lateB_at (B : T) (x : Rec) : lateB (.at B) x = after x.et B := by
  unfold lateB
  cases x.et with
  | none => simp [after]
  | some t => simp [Bound.releases]

theorem late_mono {B B' : T} (h : after B B' = false) (x : Rec) : lateB (.at B') x = true → lateB (.at B) x = true := by
  rw [lateB_at, lateB_at]
  intro h1
  exact after_of_after_of_not_after h1 h

theorem late_top (x : Rec) : lateB .top x = false := by
  unfold lateB; cases x.et <;> simp [Bound.releases]

theorem timely_congr {s s' : St} {bd : Bound} {RL RR : List Rec} (ht : Timely s bd RL RR)
    (hL : s'.bufL = s.bufL) (hR : s'.bufR = s.bufR) : Timely s' bd RL RR :=
  ⟨by rw [hL]; exact ht.lateL, by rw [hR]; exact ht.lateR, by rw [hL]; exact ht.okL, by rw [hR]; exact ht.okR⟩

theorem recs_snoc_wm (o : List Msg) (m : Int) : recs (o ++ [Msg.wm m]) = recs o := by
  rw [recs_append]; simp [recs]

theorem upTo_perm {P buf R rest : List Rec} {m : Int} (h1 : List.Perm (P ++ buf) R)
    (h2 : List.Perm buf (R.filter (lateB (.at (some m))))) (h3 : ∀ x ∈ rest, lateB (.at (some m)) x = true) :
    List.Perm P (upTo m (R ++ rest)) := by
  have hp := processed_perm h1 h2
  unfold upTo
  rw [List.filter_append, filter_eq_nil_of (l := rest), List.append_nil]
  · have : R.filter (etLe m) = R.filter (fun x => !lateB (.at (some m)) x) :=
      List.filter_congr (fun x _ => etLe_eq_not_late m x)
    rw [this]; exact hp
  · intro x hx; rw [etLe_eq_not_late, h3 x hx]; rfl

/-- at the moment a watermark `m` is forwarded the processed records are the inputs up to `m` -/
theorem spec_upTo (ok : RecvOK cfg W) {s : St} {drop : Option Bool} {RL RR PL PR restL restR : List Rec} {m : Int}
    (hi : Inv cfg W s drop RL RR PL PR) (ht : Timely s (.at (some m)) RL RR)
    (hL : ∀ x ∈ restL, lateB (.at (some m)) x = true) (hR : ∀ x ∈ restR, lateB (.at (some m)) x = true) (row : Row) :
    W PL PR row = W (upTo m (RL ++ restL)) (upTo m (RR ++ restR)) row := by
  rw [ok.permL PR row (upTo_perm hi.permL ht.lateL hL), ok.permR _ row (upTo_perm hi.permR ht.lateR hR)]

/-! ### markOneStreamRemains -/
/-- the tree that `markIf` may give up is the open side's one -/
theorem markIf_inv {s : St} {drop : Option Bool} {RL RR PL PR : List Rec} (leftDone : Bool)
    (hdrop : drop = none ∨ drop = some (!leftDone)) (hd : drop.isSome = true → cfg.outer = false)
    (hi : Inv cfg W s drop RL RR PL PR) {p : St × Bool} (hp : markIf cfg leftDone s drop.isSome = p) :
    ∃ drop', Inv cfg W p.1 drop' RL RR PL PR ∧
      p.2 = drop'.isSome ∧ (drop' = none ∨ drop' = some (!leftDone)) ∧
      (drop'.isSome = true → cfg.outer = false) ∧
      p.1.bufL = s.bufL ∧ p.1.bufR = s.bufR ∧ p.1.out = s.out := by
  unfold markIf at hp
  by_cases ho : cfg.outer = true
  · rw [if_pos ho] at hp
    subst hp
    exact ⟨drop, hi, rfl, hdrop, hd, rfl, rfl, rfl⟩
  · have ho' : cfg.outer = false := by cases h : cfg.outer <;> simp_all
    rw [if_neg ho] at hp
    by_cases he : (if leftDone = true then s.bufL else s.bufR).isEmpty = true
    · rw [if_pos he] at hp
      subst hp
      refine ⟨some (!leftDone), ?_, rfl, Or.inr rfl, fun _ => ho', ?_, ?_, ?_⟩
      · cases leftDone with
        | true =>
          simp only [if_true] at he ⊢
          have hb : s.bufL = [] := buf_isEmpty he
          refine ⟨⟨hi.core.out, ?_⟩, hi.permL, hi.permR⟩
          show TreesOK cfg _ PL PR (some false)
          rcases hdrop with h | h
          · subst h
            obtain ⟨tl, tr, hl, hr, repl, repr⟩ := hi.core.trees
            exact ⟨rfl, hb, tl, hl, repl⟩
          · subst h
            obtain ⟨hr, hbl, tl, hl, repl⟩ := hi.core.trees
            exact ⟨rfl, hb, tl, hl, repl⟩
        | false =>
          simp only [Bool.false_eq_true, if_false] at he ⊢
          have hb : s.bufR = [] := buf_isEmpty he
          refine ⟨⟨hi.core.out, ?_⟩, hi.permL, hi.permR⟩
          show TreesOK cfg _ PL PR (some true)
          rcases hdrop with h | h
          · subst h
            obtain ⟨tl, tr, hl, hr, repl, repr⟩ := hi.core.trees
            exact ⟨rfl, hb, tr, hr, repr⟩
          · subst h
            obtain ⟨hl, hbr, tr, hr, repr⟩ := hi.core.trees
            exact ⟨rfl, hb, tr, hr, repr⟩
      · cases leftDone <;> rfl
      · cases leftDone <;> rfl
      · cases leftDone <;> rfl
    · rw [if_neg he] at hp
      subst hp
      exact ⟨drop, hi, rfl, hdrop, hd, rfl, rfl, rfl⟩

/-- `P'` extends `P` by records that were in the buffer -/
def Released (P P' : List Rec) (buf : Buf) : Prop := ∃ b, P' = P ++ b ∧ ∀ x ∈ b, x ∈ bufAll buf

theorem released_refl (P : List Rec) (buf : Buf) : Released P P buf := ⟨[], by simp, by simp⟩
theorem released_emit (P : List Rec) (bd : Bound) (buf : Buf) : Released P (P ++ (Buf.emit bd buf).1) buf :=
  ⟨_, rfl, fun _ hx => mem_emit_of hx⟩

/-! ### the select arms while both inputs are open -/
/-- what a watermark arm does to the variables of `Run` -/
def WmStep (s : St) (left : Bool) (w : Int) (s' : St) : Prop :=
  s'.lw = (if left then some w else s.lw) ∧ s'.rw = (if left then s.rw else some w) ∧
  ((s'.minW = s.minW ∧ s'.bufL = s.bufL ∧ s'.bufR = s.bufR ∧ s'.out = s.out ∧ after (minT s'.lw s'.rw) s.minW = false) ∨
   (∃ m em, minT s'.lw s'.rw = some m ∧ after (some m) s.minW = true ∧ s'.minW = some m ∧
      s'.bufL = (Buf.emit (.at (some m)) s.bufL).2 ∧ s'.bufR = (Buf.emit (.at (some m)) s.bufR).2 ∧
      s'.out = s.out ++ dataMsgs em ++ [Msg.wm m]))

theorem onWm_step (ok : RecvOK cfg W) {s s' : St} {RL RR PL PR : List Rec} {left : Bool} {w : Int}
    (hi : Inv cfg W s none RL RR PL PR)
    (hshL : ∀ x ∈ RL, Shape cfg true x) (hshR : ∀ x ∈ RR, Shape cfg false x)
    (h : onWm cfg s left w = .ok s') :
    ∃ PL' PR', Inv cfg W s' none RL RR PL' PR' ∧ Released PL PL' s.bufL ∧ Released PR PR' s.bufR ∧ WmStep s left w s' := by
  unfold onWm at h
  -- the state after recording the watermark
  generalize hs0 : (if left = true then { s with lw := some w } else { s with rw := some w } : St) = s0 at h
  have e1 : s0.lw = (if left then some w else s.lw) := by subst hs0; cases left <;> rfl
  have e2 : s0.rw = (if left then s.rw else some w) := by subst hs0; cases left <;> rfl
  have e3 : s0.minW = s.minW := by subst hs0; cases left <;> rfl
  have e4 : s0.bufL = s.bufL := by subst hs0; cases left <;> rfl
  have e5 : s0.bufR = s.bufR := by subst hs0; cases left <;> rfl
  have e6 : s0.out = s.out := by subst hs0; cases left <;> rfl
  have e7 : s0.treeL = s.treeL := by subst hs0; cases left <;> rfl
  have e8 : s0.treeR = s.treeR := by subst hs0; cases left <;> rfl
  have hi0 : Inv cfg W s0 none RL RR PL PR :=
    ⟨⟨by rw [e6]; exact hi.core.out, by
        obtain ⟨tl, tr, hl, hr, repl, repr⟩ := hi.core.trees
        exact ⟨tl, tr, by rw [e7]; exact hl, by rw [e8]; exact hr, repl, repr⟩⟩,
      by rw [e4]; exact hi.permL, by rw [e5]; exact hi.permR⟩
  have hmn : (if left = true then if after s0.lw s0.rw = true then s0.rw else s0.lw
      else if after s0.rw s0.lw = true then s0.lw else s0.rw) = minT s0.lw s0.rw := by
    cases left
    · simp only [Bool.false_eq_true, if_false]; rw [minT_comm]; rfl
    · rfl
  simp only [] at h
  rw [hmn] at h
  cases hm : minT s0.lw s0.rw with
  | none =>
    rw [hm] at h
    simp only at h
    have h := (Except.ok.inj h).symm
    subst h
    refine ⟨PL, PR, hi0, released_refl _ _, released_refl _ _, e1, e2, Or.inl ⟨e3, e4, e5, e6, ?_⟩⟩
    rw [hm]; exact after_none_left _
  | some m =>
    rw [hm] at h
    simp only at h
    by_cases ha : after (some m) s0.minW = true
    · rw [if_pos ha] at h
      cases hp : processUpTo cfg { s0 with minW := some m } (.at (some m)) false with
      | error o => rw [hp] at h; simp at h
      | ok s1 =>
        rw [hp] at h
        simp only at h
        have h := (Except.ok.inj h).symm
        have hi1 : Inv cfg W { s0 with minW := some m } none RL RR PL PR :=
          ⟨⟨hi0.core.out, hi0.core.trees⟩, hi0.permL, hi0.permR⟩
        obtain ⟨hi2, b1, b2, f⟩ := processUpTo_inv ok (drop := none) (by simp) hi1 hshL hshR hp
        obtain ⟨f1, f2, f3, em, f4⟩ := f
        subst h
        refine ⟨_, _, ⟨⟨?_, hi2.core.trees⟩, hi2.permL, hi2.permR⟩, (by rw [← e4]; exact released_emit _ _ _), (by rw [← e5]; exact released_emit _ _ _), by rw [← e1]; exact f1, by rw [← e2]; exact f2, Or.inr ⟨m, em, ?_, by rw [← e3]; exact ha, f3, ?_, ?_, ?_⟩⟩
        · intro row
          show net (recs (s1.out ++ [Msg.wm m])) row = _
          rw [recs_snoc_wm]; exact hi2.core.out row
        · show minT s1.lw s1.rw = some m
          rw [f1, f2]; exact hm
        · show s1.bufL = _
          rw [b1, ← e4]
        · show s1.bufR = _
          rw [b2, ← e5]
        · show s1.out ++ [Msg.wm m] = _
          rw [f4, ← e6]
    · rw [if_neg ha] at h
      have h := (Except.ok.inj h).symm
      subst h
      refine ⟨PL, PR, hi0, released_refl _ _, released_refl _ _, e1, e2, Or.inl ⟨e3, e4, e5, e6, ?_⟩⟩
      rw [hm, ← e3]
      exact Bool.eq_false_iff.mpr ha

/-! ### the phase switch, the range loop, the final flush -/
theorem onFirstClose_step (ok : RecvOK cfg W) (hsw : cfg.switchOsr = false) {s s' : St} {RL RR PL PR : List Rec}
    {leftDone osr : Bool} (hi : Inv cfg W s none RL RR PL PR)
    (hshL : ∀ x ∈ RL, Shape cfg true x) (hshR : ∀ x ∈ RR, Shape cfg false x)
    (h : onFirstClose cfg s leftDone = .ok (s', osr)) :
    ∃ PL' PR' drop', Inv cfg W s' drop' RL RR PL' PR' ∧ Released PL PL' s.bufL ∧ Released PR PR' s.bufR ∧
      osr = drop'.isSome ∧
      (drop' = none ∨ drop' = some (!leftDone)) ∧ (drop'.isSome = true → cfg.outer = false) ∧
      s'.bufL = (Buf.emit (.at (if leftDone then s.rw else s.lw)) s.bufL).2 ∧
      s'.bufR = (Buf.emit (.at (if leftDone then s.rw else s.lw)) s.bufR).2 ∧
      ∃ em, s'.out = s.out ++ dataMsgs em := by
  unfold onFirstClose at h
  simp only [hsw, Bool.and_false] at h
  cases hp : processUpTo cfg { s with minW := if leftDone = true then s.rw else s.lw }
      (.at (if leftDone = true then s.rw else s.lw)) false with
  | error o => rw [hp] at h; simp at h
  | ok s1 =>
    rw [hp] at h
    simp only at h
    have h := Except.ok.inj h
    have hi1 : Inv cfg W { s with minW := if leftDone = true then s.rw else s.lw } none RL RR PL PR :=
      ⟨⟨hi.core.out, hi.core.trees⟩, hi.permL, hi.permR⟩
    obtain ⟨hi2, b1, b2, f⟩ := processUpTo_inv ok (drop := none) (by simp) hi1 hshL hshR hp
    obtain ⟨f1, f2, f3, em, f4⟩ := f
    obtain ⟨drop', hi3, hosr, hdr, hdo, c1, c2, c3⟩ := markIf_inv (drop := none) leftDone (Or.inl rfl) (by simp) hi2 h
    exact ⟨_, _, drop', hi3, released_emit _ _ _, released_emit _ _ _, hosr, hdr, hdo, by rw [c1, b1], by rw [c2, b2], em, by rw [c3, f4]⟩

theorem onWmOne_step (ok : RecvOK cfg W) {s s' : St} {drop : Option Bool} {RL RR PL PR : List Rec}
    {leftDone osr : Bool} {w : Int}
    (hdrop : drop = none ∨ drop = some (!leftDone)) (hd : drop.isSome = true → cfg.outer = false)
    (hi : Inv cfg W s drop RL RR PL PR)
    (hshL : ∀ x ∈ RL, Shape cfg true x) (hshR : ∀ x ∈ RR, Shape cfg false x)
    (h : onWmOne cfg s leftDone drop.isSome w = .ok (s', osr)) :
    ∃ PL' PR' drop', Inv cfg W s' drop' RL RR PL' PR' ∧ Released PL PL' s.bufL ∧ Released PR PR' s.bufR ∧
      osr = drop'.isSome ∧
      (drop' = none ∨ drop' = some (!leftDone)) ∧ (drop'.isSome = true → cfg.outer = false) ∧
      s'.bufL = (Buf.emit (.at (some w)) s.bufL).2 ∧ s'.bufR = (Buf.emit (.at (some w)) s.bufR).2 ∧
      ∃ em, s'.out = s.out ++ dataMsgs em ++ [Msg.wm w] := by
  unfold onWmOne at h
  cases hp : processUpTo cfg s (.at (some w)) drop.isSome with
  | error o => rw [hp] at h; simp at h
  | ok s1 =>
    rw [hp] at h
    simp only at h
    have h := Except.ok.inj h
    obtain ⟨hi2, b1, b2, f⟩ := processUpTo_inv ok hd hi hshL hshR hp
    obtain ⟨f1, f2, f3, em, f4⟩ := f
    obtain ⟨drop', hi3, hosr, hdr, hdo, c1, c2, c3⟩ := markIf_inv leftDone hdrop hd hi2 (p := markIf cfg leftDone s1 drop.isSome) rfl
    have h1 : s' = { (markIf cfg leftDone s1 drop.isSome).1 with out := (markIf cfg leftDone s1 drop.isSome).1.out ++ [Msg.wm w] } :=
      (congrArg Prod.fst h).symm
    have h2 : osr = (markIf cfg leftDone s1 drop.isSome).2 := (congrArg Prod.snd h).symm
    subst h1
    refine ⟨_, _, drop', ⟨⟨fun row => ?_, ?_⟩, hi3.permL, hi3.permR⟩, released_emit _ _ _, released_emit _ _ _, by rw [h2, hosr], hdr, hdo, by rw [← b1]; exact c1, by rw [← b2]; exact c2, em, ?_⟩
    · show net (recs ((markIf cfg leftDone s1 drop.isSome).1.out ++ [Msg.wm w])) row = _
      rw [recs_snoc_wm]; exact hi3.core.out row
    · have := hi3.core.trees
      cases drop' with
      | none => exact this
      | some side => cases side <;> exact this
    · show (markIf cfg leftDone s1 drop.isSome).1.out ++ [Msg.wm w] = _
      rw [c3, f4]

theorem onSecondClose_step (ok : RecvOK cfg W) {s s' : St} {drop : Option Bool} {RL RR PL PR : List Rec}
    (hd : drop.isSome = true → cfg.outer = false) (hi : Inv cfg W s drop RL RR PL PR)
    (hshL : ∀ x ∈ RL, Shape cfg true x) (hshR : ∀ x ∈ RR, Shape cfg false x)
    (h : onSecondClose cfg s drop.isSome = .ok s') :
    (∀ row, net (recs s'.out) row = W RL RR row) ∧ ∃ em, s'.out = s.out ++ dataMsgs em := by
  unfold onSecondClose at h
  obtain ⟨hi2, b1, b2, f⟩ := processUpTo_inv ok hd hi hshL hshR h
  obtain ⟨f1, f2, f3, em, f4⟩ := f
  refine ⟨fun row => ?_, em, f4⟩
  rw [hi2.core.out row, emit_top, emit_top]
  rw [ok.permL _ row hi.permL, ok.permR _ row hi.permR]

/-- a record arm (either loop) on the left -/
theorem onRec_left (ok : RecvOK cfg W) {s s' : St} {drop : Option Bool} {RL RR PL PR : List Rec} {x : Rec}
    (hd : drop.isSome = true → cfg.outer = false) (hopen : drop ≠ some false)
    (hi : Inv cfg W s drop RL RR PL PR) (hsh : Shape cfg true x)
    (h : onRec cfg s true x drop.isSome = .ok s') :
    ∃ PL', Inv cfg W s' drop (RL ++ [x]) RR PL' PR ∧ (∃ em, s'.out = s.out ++ dataMsgs em) ∧
      s'.lw = s.lw ∧ s'.rw = s.rw ∧ s'.minW = s.minW ∧ s'.bufR = s.bufR ∧
      (∀ t, x.et = some t → s'.bufL = Buf.add t x s.bufL ∧ PL' = PL) ∧
      (x.et = none → s'.bufL = s.bufL ∧ PL' = PL ++ [x]) := by
  unfold onRec at h
  cases het : x.et with
  | none =>
    rw [het] at h
    simp only at h
    obtain ⟨hi', b1, b2, f1, f2, f3, em, f4⟩ := directRecv_left ok hd hopen hi hsh h
    exact ⟨_, hi', ⟨em, f4⟩, f1, f2, f3, b2, (fun t ht => by cases ht), fun _ => ⟨b1, rfl⟩⟩
  | some t =>
    rw [het] at h
    simp only at h
    have h := (Except.ok.inj h).symm
    subst h
    refine ⟨_, addBuf_left x t hopen hi, ⟨[], by simp [addBuf, dataMsgs]⟩, by simp [addBuf], by simp [addBuf], by simp [addBuf], by simp [addBuf], fun t' ht' => ?_, fun h' => by cases h'⟩
    have := Option.some.inj ht'; subst this
    simp [addBuf]

theorem onRec_right (ok : RecvOK cfg W) {s s' : St} {drop : Option Bool} {RL RR PL PR : List Rec} {x : Rec}
    (hd : drop.isSome = true → cfg.outer = false) (hopen : drop ≠ some true)
    (hi : Inv cfg W s drop RL RR PL PR) (hsh : Shape cfg false x)
    (h : onRec cfg s false x drop.isSome = .ok s') :
    ∃ PR', Inv cfg W s' drop RL (RR ++ [x]) PL PR' ∧ (∃ em, s'.out = s.out ++ dataMsgs em) ∧
      s'.lw = s.lw ∧ s'.rw = s.rw ∧ s'.minW = s.minW ∧ s'.bufL = s.bufL ∧
      (∀ t, x.et = some t → s'.bufR = Buf.add t x s.bufR ∧ PR' = PR) ∧
      (x.et = none → s'.bufR = s.bufR ∧ PR' = PR ++ [x]) := by
  unfold onRec at h
  cases het : x.et with
  | none =>
    rw [het] at h
    simp only at h
    obtain ⟨hi', b1, b2, f1, f2, f3, em, f4⟩ := directRecv_right ok hd hopen hi hsh h
    exact ⟨_, hi', ⟨em, f4⟩, f1, f2, f3, b1, (fun t ht => by cases ht), fun _ => ⟨b2, rfl⟩⟩
  | some t =>
    rw [het] at h
    simp only at h
    have h := (Except.ok.inj h).symm
    subst h
    refine ⟨_, addBuf_right x t hopen hi, ⟨[], by simp [addBuf, dataMsgs]⟩, by simp [addBuf], by simp [addBuf], by simp [addBuf], by simp [addBuf], fun t' ht' => ?_, fun h' => by cases h'⟩
    have := Option.some.inj ht'; subst this
    simp [addBuf]

end Octo.Join
