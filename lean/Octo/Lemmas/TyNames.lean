import Octo.Model.TyAlgebra
/-! Field names: laws of `cmpName`, of the sorted key set `sortNames` and of the map lookup `lookupLast`. -/
namespace Octo

theorem cmpName_refl : ∀ a, cmpName a a = 0
  | [] => by simp [cmpName]
  | x :: xs => by simp [cmpName, cmpName_refl xs]

theorem cmpName_eq_zero : ∀ a b, cmpName a b = 0 → a = b
  | [], [], _ => rfl
  | [], _ :: _, h => by simp [cmpName] at h
  | _ :: _, [], h => by simp [cmpName] at h
  | x :: xs, y :: ys, h => by
    simp only [cmpName] at h
    split at h
    · omega
    · split at h
      · omega
      · have : x = y := by omega
        rw [this, cmpName_eq_zero xs ys h]

theorem cmpName_antisymm : ∀ a b, cmpName a b = - cmpName b a
  | [], [] => by simp [cmpName]
  | [], _ :: _ => by simp [cmpName]
  | _ :: _, [] => by simp [cmpName]
  | x :: xs, y :: ys => by
    simp only [cmpName]
    have := cmpName_antisymm xs ys
    repeat' split
    all_goals omega

theorem cmpName_lt_trans : ∀ a b c, cmpName a b < 0 → cmpName b c < 0 → cmpName a c < 0
  | [], [], _, h, _ => by simp [cmpName] at h
  | [], _ :: _, [], _, h => by simp [cmpName] at h
  | [], _ :: _, _ :: _, _, _ => by simp [cmpName]
  | _ :: _, [], _, h, _ => by simp [cmpName] at h
  | _ :: _, _ :: _, [], _, h => by simp [cmpName] at h
  | x :: xs, y :: ys, z :: zs, h1, h2 => by
    simp only [cmpName] at h1 h2 ⊢
    have ih := cmpName_lt_trans xs ys zs
    repeat' split at h1
    all_goals repeat' split at h2
    all_goals repeat' split
    all_goals first | omega | (exact ih h1 h2)

namespace Ty

/-- `x` sorts strictly before every element of `l` -/
def ltAll (x : Name) (l : List Name) : Prop := ∀ y ∈ l, cmpName x y < 0

theorem strictSorted_cons {x : Name} {l : List Name} (h : strictSortedNames (x :: l) = true) :
    ltAll x l ∧ strictSortedNames l = true := by
  induction l generalizing x with
  | nil => simp [ltAll, strictSortedNames]
  | cons y ys ih =>
    simp only [strictSortedNames, Bool.and_eq_true, decide_eq_true_eq] at h
    have ⟨h1, h2⟩ := ih h.2
    refine ⟨?_, h.2⟩
    intro z hz
    cases hz with
    | head => exact h.1
    | tail _ hz => exact cmpName_lt_trans _ _ _ h.1 (h1 z hz)

theorem not_mem_of_ltAll {x : Name} {l : List Name} (h : ltAll x l) : x ∉ l := by
  intro hx
  have := h x hx
  rw [cmpName_refl] at this
  omega

theorem insertName_of_ltAll {x : Name} {l : List Name} (h : ltAll x l) : insertName x l = x :: l := by
  cases l with
  | nil => rfl
  | cons y ys => simp [insertName, h y (by simp)]

theorem insertName_of_mem : ∀ {l : List Name} {x : Name}, strictSortedNames l = true → x ∈ l → insertName x l = l
  | [], _, _, h => by cases h
  | y :: ys, x, hs, hx => by
    have ⟨hlt, hs'⟩ := strictSorted_cons hs
    simp only [insertName]
    cases hx with
    | head => simp [cmpName_refl]
    | tail _ hx =>
      have h1 := hlt x hx
      have h2 := cmpName_antisymm x y
      have n1 : ¬ cmpName x y < 0 := by omega
      have n2 : ¬ cmpName x y = 0 := by omega
      rw [if_neg n1, if_neg n2, insertName_of_mem hs' hx]

theorem sortNames_of_sorted : ∀ {l : List Name}, strictSortedNames l = true → sortNames l = l
  | [], _ => rfl
  | x :: xs, h => by
    have ⟨hlt, hs⟩ := strictSorted_cons h
    have ih := sortNames_of_sorted hs
    unfold sortNames at ih ⊢
    simp only [List.foldr]
    rw [ih]
    exact insertName_of_ltAll hlt

theorem foldr_insert_mem (l : List Name) (hs : strictSortedNames l = true) :
    ∀ (m : List Name), (∀ x ∈ m, x ∈ l) → m.foldr insertName l = l
  | [], _ => rfl
  | x :: xs, h => by
    simp only [List.foldr]
    rw [foldr_insert_mem l hs xs (fun y hy => h y (by simp [hy]))]
    exact insertName_of_mem hs (h x (by simp))

/-- the key set of two maps with the same, strictly sorted keys -/
theorem sortNames_self_append {l : List Name} (hs : strictSortedNames l = true) : sortNames (l ++ l) = l := by
  unfold sortNames
  rw [List.foldr_append]
  have := sortNames_of_sorted hs
  unfold sortNames at this
  rw [this]
  exact foldr_insert_mem l hs l (fun _ h => h)

theorem lookupLast_of_not_mem : ∀ (k : Name) (ns : List Name) (ts : List Ty), k ∉ ns → lookupLast k ns ts = none
  | _, [], _, _ => by simp [lookupLast]
  | _, _ :: _, [], _ => by simp [lookupLast]
  | k, n :: ns, t :: ts, h => by
    simp only [List.mem_cons, not_or] at h
    simp only [lookupLast]
    rw [lookupLast_of_not_mem k ns ts h.2]
    simp [Ne.symm h.1]

/-- pointwise `TypeSum` of two equally long type lists -/
def zipSum (f : Ty → Ty → Option Ty) : List Ty → List Ty → Option (List Ty)
  | a :: as, b :: bs =>
    match f a b, zipSum f as bs with
    | some y, some ys => some (y :: ys)
    | _, _ => none
  | _, _ => some []

theorem optMap_congr {α β} {f g : α → Option β} : ∀ (l : List α), (∀ x ∈ l, f x = g x) → optMap f l = optMap g l
  | [], _ => rfl
  | x :: xs, h => by
    simp only [optMap]
    rw [h x (by simp), optMap_congr xs (fun y hy => h y (by simp [hy]))]

theorem lookupLast_append : ∀ (k : Name) (pn : List Name) (p : List Ty) (ns : List Name) (ts : List Ty),
    pn.length = p.length → k ∉ pn → lookupLast k (pn ++ ns) (p ++ ts) = lookupLast k ns ts
  | _, [], [], _, _, _, _ => rfl
  | _, [], _ :: _, _, _, h, _ => by simp at h
  | _, _ :: _, [], _, _, h, _ => by simp at h
  | k, n :: pn, t :: p, ns, ts, hl, hk => by
    simp only [List.mem_cons, not_or] at hk
    simp only [List.cons_append, lookupLast]
    rw [lookupLast_append k pn p ns ts (by simpa using hl) hk.2]
    cases lookupLast k ns ts <;> simp [Ne.symm hk.1]

theorem lookupLast_head (x : Name) (ns : List Name) (t : Ty) (ts : List Ty) (h : x ∉ ns) :
    lookupLast x (x :: ns) (t :: ts) = some t := by
  simp [lookupLast, lookupLast_of_not_mem x ns ts h]

/-- with the same strictly sorted field names on both sides the struct merge is pointwise -/
theorem structFields_pointwise_aux (f : Ty → Ty → Option Ty) : ∀ (ns : List Name) (ts1 ts2 : List Ty),
    strictSortedNames ns = true → ns.length = ts1.length → ns.length = ts2.length →
    ∀ (pn : List Name) (p1 p2 : List Ty), pn.length = p1.length → pn.length = p2.length → (∀ x ∈ ns, x ∉ pn) →
    optMap (structField f (pn ++ ns) (p1 ++ ts1) (pn ++ ns) (p2 ++ ts2)) ns = zipSum f ts1 ts2
  | [], [], [], _, _, _, _, _, _, _, _, _ => by simp [optMap, zipSum]
  | [], _ :: _, _, _, h, _, _, _, _, _, _, _ => by simp at h
  | [], [], _ :: _, _, _, h, _, _, _, _, _, _ => by simp at h
  | x :: ns, [], _, _, h, _, _, _, _, _, _, _ => by simp at h
  | x :: ns, _ :: _, [], _, _, h, _, _, _, _, _, _ => by simp at h
  | x :: ns, a :: ts1, b :: ts2, hs, h1, h2, pn, p1, p2, l1, l2, hd => by
    have ⟨hlt, hs'⟩ := strictSorted_cons hs
    have hx : x ∉ ns := not_mem_of_ltAll hlt
    simp only [optMap, zipSum]
    have e1 : structField f (pn ++ x :: ns) (p1 ++ a :: ts1) (pn ++ x :: ns) (p2 ++ b :: ts2) x = f a b := by
      unfold structField
      rw [lookupLast_append x pn p1 _ _ l1 (hd x (by simp)), lookupLast_append x pn p2 _ _ l2 (hd x (by simp)),
        lookupLast_head x ns a ts1 hx, lookupLast_head x ns b ts2 hx]
    have e2 := structFields_pointwise_aux f ns ts1 ts2 hs' (by simpa using h1) (by simpa using h2)
      (pn ++ [x]) (p1 ++ [a]) (p2 ++ [b]) (by simp [l1]) (by simp [l2]) (by
        intro y hy
        simp only [List.mem_append, List.mem_singleton, not_or]
        exact ⟨hd y (by simp [hy]), fun e => hx (e ▸ hy)⟩)
    simp only [List.append_assoc, List.singleton_append] at e2
    rw [e1, e2]
    cases f a b <;> cases zipSum f ts1 ts2 <;> rfl

theorem structFields_pointwise (f : Ty → Ty → Option Ty) (ns : List Name) (ts1 ts2 : List Ty)
    (hs : strictSortedNames ns = true) (h1 : ns.length = ts1.length) (h2 : ns.length = ts2.length) :
    optMap (structField f ns ts1 ns ts2) ns = zipSum f ts1 ts2 := by
  simpa using structFields_pointwise_aux f ns ts1 ts2 hs h1 h2 [] [] [] rfl rfl (by simp)

end Ty
end Octo
