import Octo.Model.LineSplit
/-! The lines splitter under the Scanner contract: index lemmas, the unfolding of the specification, and the loop
    invariant `tokens so far ++ spec (window ++ unread) = spec content`. -/
namespace Octo.Files

theorem isPrefix_length : ∀ (sep d : Bytes), isPrefix sep d = true → sep.length ≤ d.length
  | [], _, _ => by simp
  | _ :: _, [], h => by simp [isPrefix] at h
  | s :: ss, d :: ds, h => by
    simp only [isPrefix, Bool.and_eq_true] at h
    have := isPrefix_length ss ds h.2
    simp only [List.length_cons]; omega

/-- whether `sep` starts `w ++ r` is decided inside `w` as soon as `w` is at least as long as `sep` -/
theorem isPrefix_append : ∀ (sep w r : Bytes), sep.length ≤ w.length → isPrefix sep (w ++ r) = isPrefix sep w
  | [], _, _, _ => by simp [isPrefix]
  | _ :: _, [], _, h => by simp at h
  | s :: ss, d :: ds, r, h => by
    simp only [List.length_cons] at h
    simp only [List.cons_append, isPrefix]
    rw [isPrefix_append ss ds r (by omega)]

theorem indexOf_bound (sep : Bytes) : ∀ (d : Bytes) (i : Nat), indexOf sep d = some i → i + sep.length ≤ d.length
  | [], i, h => by
    simp only [indexOf] at h
    split at h
    · next he => cases h; cases sep <;> simp_all
    · cases h
  | d :: ds, i, h => by
    simp only [indexOf] at h
    split at h
    · next hp => cases h; have := isPrefix_length _ _ hp; omega
    · cases hi : indexOf sep ds with
      | none => simp [hi] at h
      | some j =>
        simp only [hi, Option.map_some, Option.some.injEq] at h
        have := indexOf_bound sep ds j hi
        simp only [List.length_cons]; omega

/-- the first occurrence inside the window is the first occurrence in the whole input -/
theorem indexOf_append (sep : Bytes) (hsep : sep ≠ []) : ∀ (w r : Bytes) (i : Nat),
    indexOf sep w = some i → indexOf sep (w ++ r) = some i
  | [], r, i, h => by
    simp only [indexOf] at h
    split at h
    · next he => cases sep <;> simp_all
    · cases h
  | d :: ds, r, i, h => by
    have hb := indexOf_bound sep (d :: ds) i h
    simp only [indexOf] at h
    simp only [List.cons_append, indexOf]
    have hp : isPrefix sep (d :: (ds ++ r)) = isPrefix sep (d :: ds) := by
      have := isPrefix_append sep (d :: ds) r (by omega)
      simpa using this
    rw [hp]
    split at h
    · next hq => simp [hq, h]
    · next hq =>
      simp only [hq]
      cases hi : indexOf sep ds with
      | none => simp [hi] at h
      | some j =>
        simp only [hi, Option.map_some, Option.some.injEq] at h
        rw [indexOf_append sep hsep ds r j hi]
        simp [h]

theorem indexOf_nil (sep : Bytes) (hsep : sep ≠ []) : indexOf sep [] = none := by
  cases sep with
  | nil => exact absurd rfl hsep
  | cons _ _ => simp [indexOf]

/-! ### the specification unfolds along the first occurrence -/

theorem splitOnF_ne_nil (sep : Bytes) : ∀ (f : Nat) (s : Bytes), splitOnF sep f s ≠ []
  | 0, _ => by simp [splitOnF]
  | f + 1, s => by
    simp only [splitOnF]
    split <;> simp

theorem splitOnF_fuel (sep : Bytes) (hsep : sep ≠ []) : ∀ (f1 f2 : Nat) (s : Bytes),
    s.length < f1 → s.length < f2 → splitOnF sep f1 s = splitOnF sep f2 s
  | 0, _, _, h, _ => by omega
  | _ + 1, 0, _, _, h => by omega
  | f1 + 1, f2 + 1, s, h1, h2 => by
    simp only [splitOnF]
    cases hi : indexOf sep s with
    | none => rfl
    | some i =>
      simp only
      have hb := indexOf_bound sep s i hi
      have hl : 0 < sep.length := by cases sep <;> simp_all
      have : (s.drop (i + sep.length)).length < s.length := by simp only [List.length_drop]; omega
      rw [splitOnF_fuel sep hsep f1 f2 _ (by omega) (by omega)]

theorem dropLastEmpty_cons (x : Bytes) (l : List Bytes) (h : l ≠ []) : dropLastEmpty (x :: l) = x :: dropLastEmpty l := by
  cases l with
  | nil => exact absurd rfl h
  | cons y r => rfl

theorem specLines_found (sep : Bytes) (hsep : sep ≠ []) (s : Bytes) (i : Nat) (h : indexOf sep s = some i) :
    specLines sep s = s.take i :: specLines sep (s.drop (i + sep.length)) := by
  have e : splitOnF sep (s.length + 1) s = s.take i :: splitOnF sep s.length (s.drop (i + sep.length)) := by
    simp only [splitOnF, h]
  unfold specLines splitOn
  rw [e, dropLastEmpty_cons _ _ (splitOnF_ne_nil _ _ _)]
  have hb := indexOf_bound sep s i h
  have hl : 0 < sep.length := by cases sep <;> simp_all
  have : (s.drop (i + sep.length)).length < s.length := by simp only [List.length_drop]; omega
  rw [splitOnF_fuel sep hsep s.length ((s.drop (i + sep.length)).length + 1) _ (by omega) (by omega)]

theorem specLines_none (sep s : Bytes) (h : indexOf sep s = none) :
    specLines sep s = if s.isEmpty then [] else [s] := by
  unfold specLines splitOn
  simp only [splitOnF, h, dropLastEmpty]

end Octo.Files

namespace Octo.Files

/-- an occurrence that lies entirely inside the window is an occurrence of the window -/
theorem indexOf_of_append (sep : Bytes) (hsep : sep ≠ []) : ∀ (w r : Bytes) (i : Nat),
    indexOf sep (w ++ r) = some i → i + sep.length ≤ w.length → indexOf sep w = some i
  | [], r, i, _, hb => by
    have : 0 < sep.length := by cases sep <;> simp_all
    simp only [List.length_nil] at hb; omega
  | d :: ds, r, i, h, hb => by
    simp only [List.cons_append, indexOf] at h
    simp only [indexOf]
    have hp : isPrefix sep (d :: (ds ++ r)) = isPrefix sep (d :: ds) := by
      have := isPrefix_append sep (d :: ds) r (by omega)
      simpa using this
    rw [hp] at h
    split at h
    · next hq => simp [hq, h]
    · next hq =>
      simp only [hq]
      cases hi : indexOf sep (ds ++ r) with
      | none => simp [hi] at h
      | some j =>
        simp only [hi, Option.map_some, Option.some.injEq] at h
        subst h
        rw [indexOf_of_append sep hsep ds r j hi (by simp only [List.length_cons] at hb; omega)]
        simp

/-- a window without the separator is shorter than the first piece plus its separator -/
theorem window_lt (sep : Bytes) (hsep : sep ≠ []) (w r : Bytes) (i : Nat) (hw : indexOf sep w = none)
    (h : indexOf sep (w ++ r) = some i) : w.length < i + sep.length := by
  apply Nat.lt_of_not_le
  intro hle
  rw [indexOf_of_append sep hsep w r i h hle] at hw
  cases hw

theorem fitsTokF_fuel (m : Nat) (sep : Bytes) (hsep : sep ≠ []) : ∀ (f1 f2 : Nat) (s : Bytes),
    s.length < f1 → s.length < f2 → fitsTokF m sep f1 s = fitsTokF m sep f2 s
  | 0, _, _, h, _ => by omega
  | _ + 1, 0, _, _, h => by omega
  | f1 + 1, f2 + 1, s, h1, h2 => by
    simp only [fitsTokF]
    cases hi : indexOf sep s with
    | none => rfl
    | some i =>
      simp only
      have hb := indexOf_bound sep s i hi
      have hl : 0 < sep.length := by cases sep <;> simp_all
      have : (s.drop (i + sep.length)).length < s.length := by simp only [List.length_drop]; omega
      rw [fitsTokF_fuel m sep hsep f1 f2 _ (by omega) (by omega)]

theorem fitsTok_found (m : Nat) (sep : Bytes) (hsep : sep ≠ []) (s : Bytes) (i : Nat) (h : indexOf sep s = some i) :
    fitsTok m sep s = (decide (i + sep.length ≤ m) && fitsTok m sep (s.drop (i + sep.length))) := by
  have e : fitsTokF m sep (s.length + 1) s =
      (decide (i + sep.length ≤ m) && fitsTokF m sep s.length (s.drop (i + sep.length))) := by
    simp only [fitsTokF, h]
  unfold fitsTok
  rw [e]
  have hb := indexOf_bound sep s i h
  have hl : 0 < sep.length := by cases sep <;> simp_all
  have : (s.drop (i + sep.length)).length < s.length := by simp only [List.length_drop]; omega
  rw [fitsTokF_fuel m sep hsep s.length ((s.drop (i + sep.length)).length + 1) _ (by omega) (by omega)]

theorem fitsTok_none (m : Nat) (sep s : Bytes) (h : indexOf sep s = none) :
    fitsTok m sep s = decide (s.length < m) := by
  unfold fitsTok
  simp only [fitsTokF, h]

/-- progress measure of the scanner loop -/
def scanMeasure (win rest : Bytes) (eof : Bool) : Nat :=
  2 * win.length + 3 * rest.length + (if eof then 0 else 1)

theorem splitFixed_eq (sep data : Bytes) (atEOF : Bool) :
    splitFixed sep data atEOF =
      if atEOF && data.isEmpty then ⟨0, none⟩
      else match indexOf sep data with
        | some i => ⟨i + sep.length, some (data.take i)⟩
        | none => if atEOF then ⟨data.length, some data⟩ else ⟨0, none⟩ := rfl

/-- the loop invariant: tokens so far ++ spec (window ++ unread) = spec content; the window never fills the buffer
    as long as every piece (with its separator) fits -/
theorem scanLoop_fixed (sep : Bytes) (hsep : sep ≠ []) (m : Nat) : ∀ (fuel : Nat) (win rest : Bytes) (eof : Bool)
    (sched : List Nat) (acc : List Bytes),
    (eof = true → rest = []) → scanMeasure win rest eof < fuel → fitsTok m sep (win ++ rest) = true →
    scanLoop (splitFixed sep) m fuel win rest eof sched acc = .tokens (acc.reverse ++ specLines sep (win ++ rest))
  | 0, _, _, _, _, _, _, h, _ => by omega
  | fuel + 1, win, rest, eof, sched, acc, heof, hm, hfit => by
    have ih := scanLoop_fixed sep hsep m fuel
    -- the "read more" continuation, for a window without a separator
    have readMore : ∀ (r : Bytes), r = rest → indexOf sep win = none → eof = false →
        (if win.length ≥ m then ScanResult.tooLong acc.reverse
         else match r with
          | [] => scanLoop (splitFixed sep) m fuel win [] true sched acc
          | _ :: _ => scanLoop (splitFixed sep) m fuel (win ++ r.take (min (sched.headD 0 + 1) (m - win.length)))
              (r.drop (min (sched.headD 0 + 1) (m - win.length))) false sched.tail acc)
          = .tokens (acc.reverse ++ specLines sep (win ++ rest)) := by
      intro r hrr hw he
      have hlt : win.length < m := by
        cases hi : indexOf sep (win ++ rest) with
        | some i =>
          rw [fitsTok_found m sep hsep _ i hi] at hfit
          simp only [Bool.and_eq_true, decide_eq_true_eq] at hfit
          have := window_lt sep hsep win rest i hw hi
          omega
        | none =>
          rw [fitsTok_none m sep _ hi] at hfit
          simp only [decide_eq_true_eq, List.length_append] at hfit
          omega
      rw [if_neg (by omega)]
      cases r with
      | nil =>
        simp only
        rw [ih win [] true sched acc (fun _ => rfl) (by simp [scanMeasure, he, ← hrr] at hm ⊢; omega) (by rw [← hrr] at hfit; exact hfit)]
        rw [← hrr]
      | cons x xs =>
        simp only
        have hk : 1 ≤ min (sched.headD 0 + 1) (m - win.length) := by omega
        rw [ih _ _ false sched.tail acc (by simp) (by
          simp only [scanMeasure, he, ← hrr, List.length_append, List.length_take, List.length_drop, List.length_cons] at hm ⊢
          simp only [Bool.false_eq_true, if_false] at hm ⊢
          omega) (by rw [← hrr] at hfit; simpa [List.append_assoc, List.take_append_drop] using hfit)]
        rw [← hrr]
        simp [List.append_assoc, List.take_append_drop]
    unfold scanLoop
    simp only []
    by_cases hc : (!win.isEmpty || eof) = true
    · rw [if_pos hc]
      rw [splitFixed_eq]
      by_cases h1 : (eof && win.isEmpty) = true
      · -- at EOF with an empty window: done
        simp only [Bool.and_eq_true] at h1
        have hw : win = [] := by cases win <;> simp_all
        have hr := heof h1.1
        subst hw; subst hr
        simp [h1.1, specLines_none sep [] (indexOf_nil sep hsep)]
      · rw [if_neg h1]
        cases hi : indexOf sep win with
        | some i =>
          have hb := indexOf_bound sep win i hi
          simp only
          rw [if_neg (by omega)]
          have hi' := indexOf_append sep hsep win rest i hi
          have h3 : (win ++ rest).drop (i + sep.length) = win.drop (i + sep.length) ++ rest := by
            rw [List.drop_append_of_le_length (by omega)]
          rw [ih _ _ eof sched _ heof (by
            simp only [scanMeasure, List.length_drop] at hm ⊢
            have hl : 0 < sep.length := by cases sep <;> simp_all
            omega) (by
              rw [fitsTok_found m sep hsep _ i hi', h3] at hfit
              simp only [Bool.and_eq_true] at hfit
              exact hfit.2)]
          rw [specLines_found sep hsep (win ++ rest) i hi']
          have h2 : (win ++ rest).take i = win.take i := by
            rw [List.take_append_of_le_length (by omega)]
          rw [h2, h3]
          simp
        | none =>
          simp only
          by_cases he : eof = true
          · -- final, non-terminated line
            have hr := heof he
            subst hr
            have hw : win ≠ [] := by
              intro h; subst h; simp [he] at h1
            have hpos : 0 < m := by
              rw [List.append_nil, fitsTok_none m sep _ hi] at hfit
              simp only [decide_eq_true_eq] at hfit
              omega
            simp only [he, if_true, Nat.lt_irrefl, if_false, List.drop_length]
            rw [ih [] [] true sched _ (fun _ => rfl) (by
              simp only [scanMeasure, he] at hm ⊢
              cases win with
              | nil => exact absurd rfl hw
              | cons _ _ => simp at hm ⊢; omega) (by
                rw [List.append_nil, fitsTok_none m sep _ (indexOf_nil sep hsep)]
                simpa using hpos)]
            simp only [List.append_nil, List.reverse_cons, specLines_none sep [] (indexOf_nil sep hsep),
              specLines_none sep win hi]
            cases win with
            | nil => exact absurd rfl hw
            | cons _ _ => simp
          · have he' : eof = false := by cases eof <;> simp_all
            simp only [he', Bool.false_eq_true, if_false, Nat.not_lt_zero, List.drop_zero]
            exact readMore rest rfl hi he'
    · rw [if_neg hc]
      have he' : eof = false := by cases eof <;> simp_all
      have hw : win = [] := by cases win <;> simp_all
      simp only [he', Bool.false_eq_true, if_false]
      subst hw
      exact readMore rest rfl (indexOf_nil sep hsep) he'

end Octo.Files

namespace Octo.Files

def ScanResult.mapTokens (f : Bytes → Bytes) : ScanResult → ScanResult
  | .tokens ts => .tokens (ts.map f)
  | .advanceTooFar ts => .advanceTooFar (ts.map f)
  | .tooLong ts => .tooLong (ts.map f)
  | .outOfFuel => .outOfFuel

/-- a split function that post-processes the token of another one scans to the post-processed tokens -/
theorem scanLoop_mapToken (f : Bytes → Bytes) (g h : Bytes → Bool → SplitRes) (m : Nat)
    (hg : ∀ d e, g d e = ⟨(h d e).advance, (h d e).token.map f⟩) :
    ∀ (fuel : Nat) (win rest : Bytes) (eof : Bool) (sched : List Nat) (acc : List Bytes),
    scanLoop g m fuel win rest eof sched (acc.map f) = (scanLoop h m fuel win rest eof sched acc).mapTokens f
  | 0, _, _, _, _, _ => rfl
  | fuel + 1, win, rest, eof, sched, acc => by
    have ih := scanLoop_mapToken f g h m hg fuel
    have readMore : ∀ w : Bytes,
        (if eof = true then ScanResult.tokens (acc.map f).reverse
         else if w.length ≥ m then ScanResult.tooLong (acc.map f).reverse
         else match rest with
          | [] => scanLoop g m fuel w [] true sched (acc.map f)
          | _ :: _ => scanLoop g m fuel (w ++ rest.take (min (sched.headD 0 + 1) (m - w.length)))
              (rest.drop (min (sched.headD 0 + 1) (m - w.length))) false sched.tail (acc.map f)) =
        (if eof = true then ScanResult.tokens acc.reverse
         else if w.length ≥ m then ScanResult.tooLong acc.reverse
         else match rest with
          | [] => scanLoop h m fuel w [] true sched acc
          | _ :: _ => scanLoop h m fuel (w ++ rest.take (min (sched.headD 0 + 1) (m - w.length)))
              (rest.drop (min (sched.headD 0 + 1) (m - w.length))) false sched.tail acc).mapTokens f := by
      intro w
      by_cases he : eof = true
      · simp [he, ScanResult.mapTokens]
      · simp only [he, Bool.false_eq_true, if_false]
        by_cases hl : w.length ≥ m
        · simp [hl, ScanResult.mapTokens]
        · simp only [hl, if_false]
          cases rest with
          | nil => simp only; rw [← ih]
          | cons x xs => simp only; rw [← ih]
    unfold scanLoop
    simp only [hg]
    by_cases hc : (!win.isEmpty || eof) = true
    · simp only [hc, if_true]
      by_cases ha : (h win eof).advance > win.length
      · simp [ha, ScanResult.mapTokens]
      · simp only [ha, if_false]
        cases ht : (h win eof).token with
        | some t =>
          simp only [Option.map_some]
          rw [← ih]; simp
        | none =>
          simp only [Option.map_none]
          exact readMore _
    · simp only [hc, Bool.false_eq_true, if_false]
      exact readMore _

theorem scanLines_eq (d : Bytes) (e : Bool) :
    scanLines d e = ⟨(splitFixed [10] d e).advance, (splitFixed [10] d e).token.map dropCR⟩ := by
  unfold scanLines
  rw [splitFixed_eq]
  by_cases h1 : (e && d.isEmpty) = true
  · simp [h1]
  · simp only [h1, Bool.false_eq_true, if_false]
    cases indexOf [10] d with
    | some i => simp
    | none => cases e <;> simp

end Octo.Files
