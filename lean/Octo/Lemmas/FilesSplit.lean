import Octo.Model.LineSplit
/-! The lines splitter under the Scanner contract: index lemmas, the unfolding of the specification, and the loop
    invariant `tokens so far ++ spec (window ++ unread) = spec content`. -/
namespace Octo.Files

theorem isPrefix_length : ∀ (sep d : Bytes), isPrefix sep d = true → sep.length ≤ d.length
  | [], _, _ => by simp
  | _ :: _, [], h => by simp [isPrefix] at h
  | s :: ss, d :: ds, h => by
    simp only [isPrefix, Bool.and_eq_true] at h
    have := isPrefix_length ss ds h.2
    simp only [List.length_cons]; omega

/-- whether `sep` starts `w ++ r` is decided inside `w` as soon as `w` is at least as long as `sep` -/
theorem isPrefix_append : ∀ (sep w r : Bytes), sep.length ≤ w.length → isPrefix sep (w ++ r) = isPrefix sep w
  | [], _, _, _ => by simp [isPrefix]
  | _ :: _, [], _, h => by simp at h
  | s :: ss, d :: ds, r, h => by
    simp only [List.length_cons] at h
    simp only [List.cons_append, isPrefix]
    rw [isPrefix_append ss ds r (by omega)]

theorem indexOf_bound (sep : Bytes) : ∀ (d : Bytes) (i : Nat), indexOf sep d = some i → i + sep.length ≤ d.length
  | [], i, h => by
    simp only [indexOf] at h
    split at h
    · next he => cases h; cases sep <;> simp_all
    · cases h
  | d :: ds, i, h => by
    simp only [indexOf] at h
    split at h
    · next hp => cases h; have := isPrefix_length _ _ hp; omega
    · cases hi : indexOf sep ds with
      | none => simp [hi] at h
      | some j =>
        simp only [hi, Option.map_some, Option.some.injEq] at h
        have := indexOf_bound sep ds j hi
        simp only [List.length_cons]; omega

/-- the first occurrence inside the window is the first occurrence in the whole input -/
theorem indexOf_append (sep : Bytes) (hsep : sep ≠ []) : ∀ (w r : Bytes) (i : Nat),
    indexOf sep w = some i → indexOf sep (w ++ r) = some i
  | [], r, i, h => by
    simp only [indexOf] at h
    split at h
    · next he => cases sep <;> simp_all
    · cases h
  | d :: ds, r, i, h => by
    have hb := indexOf_bound sep (d :: ds) i h
    simp only [indexOf] at h
    simp only [List.cons_append, indexOf]
    have hp : isPrefix sep (d :: (ds ++ r)) = isPrefix sep (d :: ds) := by
      have := isPrefix_append sep (d :: ds) r (by omega)
      simpa using this
    rw [hp]
    split at h
    · next hq => simp [hq, h]
    · next hq =>
      simp only [hq]
      cases hi : indexOf sep ds with
      | none => simp [hi] at h
      | some j =>
        simp only [hi, Option.map_some, Option.some.injEq] at h
        rw [indexOf_append sep hsep ds r j hi]
        simp [h]

theorem indexOf_nil (sep : Bytes) (hsep : sep ≠ []) : indexOf sep [] = none := by
  cases sep with
  | nil => exact absurd rfl hsep
  | cons _ _ => simp [indexOf]

/-! ### the specification unfolds along the first occurrence -/

theorem splitOnF_ne_nil (sep : Bytes) : ∀ (f : Nat) (s : Bytes), splitOnF sep f s ≠ []
  | 0, _ => by simp [splitOnF]
  | f + 1, s => by
    simp only [splitOnF]
    split <;> simp

theorem splitOnF_fuel (sep : Bytes) (hsep : sep ≠ []) : ∀ (f1 f2 : Nat) (s : Bytes),
    s.length < f1 → s.length < f2 → splitOnF sep f1 s = splitOnF sep f2 s
  | 0, _, _, h, _ => by omega
  | _ + 1, 0, _, _, h => by omega
  | f1 + 1, f2 + 1, s, h1, h2 => by
    simp only [splitOnF]
    cases hi : indexOf sep s with
    | none => rfl
    | some i =>
      simp only
      have hb := indexOf_bound sep s i hi
      have hl : 0 < sep.length := by cases sep <;> simp_all
      have : (s.drop (i + sep.length)).length < s.length := by simp only [List.length_drop]; omega
      rw [splitOnF_fuel sep hsep f1 f2 _ (by omega) (by omega)]

theorem dropLastEmpty_cons (x : Bytes) (l : List Bytes) (h : l ≠ []) : dropLastEmpty (x :: l) = x :: dropLastEmpty l := by
  cases l with
  | nil => exact absurd rfl h
  | cons y r => rfl

theorem specLines_found (sep : Bytes) (hsep : sep ≠ []) (s : Bytes) (i : Nat) (h : indexOf sep s = some i) :
    specLines sep s = s.take i :: specLines sep (s.drop (i + sep.length)) := by
  have e : splitOnF sep (s.length + 1) s = s.take i :: splitOnF sep s.length (s.drop (i + sep.length)) := by
    simp only [splitOnF, h]
  unfold specLines splitOn
  rw [e, dropLastEmpty_cons _ _ (splitOnF_ne_nil _ _ _)]
  have hb := indexOf_bound sep s i h
  have hl : 0 < sep.length := by cases sep <;> simp_all
  have : (s.drop (i + sep.length)).length < s.length := by simp only [List.length_drop]; omega
  rw [splitOnF_fuel sep hsep s.length ((s.drop (i + sep.length)).length + 1) _ (by omega) (by omega)]

theorem specLines_none (sep s : Bytes) (h : indexOf sep s = none) :
    specLines sep s = if s.isEmpty then [] else [s] := by
  unfold specLines splitOn
  simp only [splitOnF, h, dropLastEmpty]

end Octo.Files

namespace Octo.Files

/-- progress measure of the scanner loop -/
def scanMeasure (win rest : Bytes) (eof : Bool) : Nat :=
  2 * win.length + 3 * rest.length + (if eof then 0 else 1)

theorem splitFixed_eq (sep data : Bytes) (atEOF : Bool) :
    splitFixed sep data atEOF =
      if atEOF && data.isEmpty then ⟨0, none⟩
      else match indexOf sep data with
        | some i => ⟨i + sep.length, some (data.take i)⟩
        | none => if atEOF then ⟨data.length, some data⟩ else ⟨0, none⟩ := rfl

/-- the read step: more input or EOF, the unconsumed input `win ++ rest` stays the same -/
theorem scanLoop_fixed (sep : Bytes) (hsep : sep ≠ []) : ∀ (fuel : Nat) (win rest : Bytes) (eof : Bool)
    (sched : List Nat) (acc : List Bytes),
    (eof = true → rest = []) → scanMeasure win rest eof < fuel →
    scanLoop (splitFixed sep) fuel win rest eof sched acc = .tokens (acc.reverse ++ specLines sep (win ++ rest))
  | 0, _, _, _, _, _, _, h => by omega
  | fuel + 1, win, rest, eof, sched, acc, heof, hm => by
    have ih := scanLoop_fixed sep hsep fuel
    -- the "read more" continuation, for a window without a separator
    have readMore : ∀ (w : Bytes), w = win → eof = false →
        (match rest with
          | [] => scanLoop (splitFixed sep) fuel w [] true sched acc
          | _ :: _ => scanLoop (splitFixed sep) fuel (w ++ rest.take (sched.headD 0 + 1)) (rest.drop (sched.headD 0 + 1)) false sched.tail acc)
          = .tokens (acc.reverse ++ specLines sep (win ++ rest)) := by
      intro w hw he
      subst hw
      cases hr : rest with
      | nil =>
        simp only
        rw [ih w [] true sched acc (fun _ => rfl) (by simp [scanMeasure, he, hr] at hm ⊢; omega)]
      | cons x xs =>
        simp only
        rw [ih _ _ false sched.tail acc (by simp) (by
          simp only [scanMeasure, he, hr, List.length_append, List.length_take, List.length_drop, List.length_cons] at hm ⊢
          simp only [Bool.false_eq_true, if_false] at hm ⊢
          omega)]
        simp [List.append_assoc, List.take_append_drop]
    unfold scanLoop
    simp only []
    by_cases hc : (!win.isEmpty || eof) = true
    · rw [if_pos hc]
      rw [splitFixed_eq]
      by_cases h1 : (eof && win.isEmpty) = true
      · -- at EOF with an empty window: done
        simp only [Bool.and_eq_true] at h1
        have hw : win = [] := by cases win <;> simp_all
        have hr := heof h1.1
        subst hw; subst hr
        simp [h1.1, specLines_none sep [] (indexOf_nil sep hsep)]
      · rw [if_neg h1]
        cases hi : indexOf sep win with
        | some i =>
          have hb := indexOf_bound sep win i hi
          simp only
          rw [if_neg (by omega)]
          rw [ih _ _ eof sched _ heof (by
            simp only [scanMeasure, List.length_drop] at hm ⊢
            have hl : 0 < sep.length := by cases sep <;> simp_all
            omega)]
          rw [specLines_found sep hsep (win ++ rest) i (indexOf_append sep hsep win rest i hi)]
          have h2 : (win ++ rest).take i = win.take i := by
            rw [List.take_append_of_le_length (by omega)]
          have h3 : (win ++ rest).drop (i + sep.length) = win.drop (i + sep.length) ++ rest := by
            rw [List.drop_append_of_le_length (by omega)]
          rw [h2, h3]
          simp
        | none =>
          simp only
          by_cases he : eof = true
          · -- final, non-terminated line
            have hr := heof he
            subst hr
            have hw : win ≠ [] := by
              intro h; subst h; simp [he] at h1
            simp only [he, if_true, Nat.lt_irrefl, if_false, List.drop_length]
            rw [ih [] [] true sched _ (fun _ => rfl) (by
              simp only [scanMeasure, he] at hm ⊢
              cases win with
              | nil => exact absurd rfl hw
              | cons _ _ => simp at hm ⊢; omega)]
            simp only [List.append_nil, List.reverse_cons, specLines_none sep [] (indexOf_nil sep hsep),
              specLines_none sep win hi]
            cases win with
            | nil => exact absurd rfl hw
            | cons _ _ => simp
          · have he' : eof = false := by cases eof <;> simp_all
            simp only [he', Bool.false_eq_true, if_false, Nat.not_lt_zero, List.drop_zero]
            exact readMore win rfl he'
    · rw [if_neg hc]
      have he' : eof = false := by cases eof <;> simp_all
      simp only [he', Bool.false_eq_true, if_false]
      exact readMore win rfl he'

end Octo.Files

namespace Octo.Files

def ScanResult.mapTokens (f : Bytes → Bytes) : ScanResult → ScanResult
  | .tokens ts => .tokens (ts.map f)
  | .advanceTooFar ts => .advanceTooFar (ts.map f)
  | .outOfFuel => .outOfFuel

/-- a split function that post-processes the token of another one scans to the post-processed tokens -/
theorem scanLoop_mapToken (f : Bytes → Bytes) (g h : Bytes → Bool → SplitRes)
    (hg : ∀ d e, g d e = ⟨(h d e).advance, (h d e).token.map f⟩) :
    ∀ (fuel : Nat) (win rest : Bytes) (eof : Bool) (sched : List Nat) (acc : List Bytes),
    scanLoop g fuel win rest eof sched (acc.map f) = (scanLoop h fuel win rest eof sched acc).mapTokens f
  | 0, _, _, _, _, _ => rfl
  | fuel + 1, win, rest, eof, sched, acc => by
    have ih := scanLoop_mapToken f g h hg fuel
    unfold scanLoop
    simp only [hg]
    by_cases hc : (!win.isEmpty || eof) = true
    · simp only [hc, if_true]
      by_cases ha : (h win eof).advance > win.length
      · simp [ha, ScanResult.mapTokens]
      · simp only [ha, if_false]
        cases ht : (h win eof).token with
        | some t =>
          simp only [Option.map_some]
          rw [← ih]; simp
        | none =>
          simp only [Option.map_none]
          by_cases he : eof = true
          · simp [he, ScanResult.mapTokens]
          · simp only [he, Bool.false_eq_true, if_false]
            cases rest with
            | nil => simp only; rw [← ih]
            | cons x xs => simp only; rw [← ih]
    · simp only [hc, Bool.false_eq_true, if_false]
      by_cases he : eof = true
      · simp [he, ScanResult.mapTokens]
      · simp only [he, Bool.false_eq_true, if_false]
        cases rest with
        | nil => simp only; rw [← ih]
        | cons x xs => simp only; rw [← ih]

theorem scanLines_eq (d : Bytes) (e : Bool) :
    scanLines d e = ⟨(splitFixed [10] d e).advance, (splitFixed [10] d e).token.map dropCR⟩ := by
  unfold scanLines
  rw [splitFixed_eq]
  by_cases h1 : (e && d.isEmpty) = true
  · simp [h1]
  · simp only [h1, Bool.false_eq_true, if_false]
    cases indexOf [10] d with
    | some i => simp
    | none => cases e <;> simp

end Octo.Files
