import Octo.Lemmas.FilesJsonAcc
import Octo.Lemmas.TySumUpper
import Octo.Lemmas.TyNames
import Octo.Lemmas.TySumTotal
import Octo.Lemmas.TyWf
/-! JSON schema inference, part 2: `TypeSum` of two JSON-shaped types accepts everything either operand accepts
    (including the merge of two object types with different key sets, which is NOT an upper bound w.r.t. `Is`). -/
namespace Octo.Files
open Octo Octo.Ty

/-- what the induction hypothesis gives for the recursive calls of `TypeSum` -/
def AccFor (f : Ty → Ty → Option Ty) : Prop :=
  ∀ a b c, jok a = true → jok b = true → f a b = some c →
    jok c = true ∧ (∀ oj, acc a oj = true → acc c oj = true) ∧ (∀ oj, acc b oj = true → acc c oj = true)

theorem mem_insertName_self (x : Name) : ∀ (l : List Name), x ∈ insertName x l
  | [] => by simp [insertName]
  | y :: ys => by
    simp only [insertName]
    split
    · simp
    · split
      · next h => have := cmpName_eq_zero x y h; simp [this]
      · simp [mem_insertName_self x ys]

theorem mem_insertName_of_mem (x z : Name) : ∀ (l : List Name), z ∈ l → z ∈ insertName x l
  | [], h => by cases h
  | y :: ys, h => by
    simp only [insertName]
    split
    · simp only [List.mem_cons] at h ⊢; exact Or.inr h
    · split
      · exact h
      · simp only [List.mem_cons] at h ⊢
        rcases h with h | h
        · exact Or.inl h
        · exact Or.inr (mem_insertName_of_mem x z ys h)

theorem mem_sortNames_of_mem (x : Name) : ∀ (l : List Name), x ∈ l → x ∈ sortNames l
  | [], h => by cases h
  | y :: ys, h => by
    unfold sortNames
    simp only [List.foldr]
    simp only [List.mem_cons] at h
    rcases h with h | h
    · subst h; exact mem_insertName_self _ _
    · exact mem_insertName_of_mem _ _ _ (by have := mem_sortNames_of_mem x ys h; unfold sortNames at this; exact this)

theorem optMap_length {α β} {f : α → Option β} : ∀ (l : List α) (r : List β), optMap f l = some r → r.length = l.length
  | [], r, h => by simp only [optMap, Option.some.injEq] at h; subst h; rfl
  | x :: xs, r, h => by
    simp only [optMap] at h
    cases hx : f x with
    | none => simp [hx] at h
    | some y =>
      cases hxs : optMap f xs with
      | none => simp [hx, hxs] at h
      | some ys =>
        simp only [hx, hxs, Option.some.injEq] at h
        subst h
        simp [optMap_length xs ys hxs]

theorem nullOk_struct (ns : List Name) (ts : List Ty) : nullOk (.struct ns ts) = false := by
  simp only [nullOk]; rw [is_eq]; simp [isStep, isAny, Ty.id]
theorem nullOk_list (e : Ty) : nullOk (.list e) = false := by
  simp only [nullOk]; rw [is_eq]; simp [isStep, isAny, Ty.id]
theorem nullOk_null : nullOk .null = true := by decide
theorem acc_null_none : acc .null none = true := by rw [acc_none]; exact nullOk_null
theorem jok_null : jok .null = true := rfl

/-- the field a struct type gives to a key -/
theorem lookupLast_acc (o : J) (k : Name) : ∀ (ns : List Name) (ts : List Ty) (a : Ty), ns.length = ts.length →
    accFields ns ts o → lookupLast k ns ts = some a → acc a (o.get k) = true
  | [], _, _, _, _, h => by simp [lookupLast] at h
  | _ :: _, [], _, hl, _, _ => by simp at hl
  | n :: ns, t :: ts, a, hl, ha, h => by
    simp only [accFields, List.headD_cons, List.tail_cons] at ha
    simp only [lookupLast] at h
    cases hr : lookupLast k ns ts with
    | some r =>
      simp only [hr, Option.some.injEq] at h
      subst h
      exact lookupLast_acc o k ns ts r (by simpa using hl) ha.2 hr
    | none =>
      simp only [hr] at h
      split at h
      · next hnk => cases h; subst hnk; exact ha.1
      · cases h

theorem lookupLast_none_not_mem (k : Name) : ∀ (ns : List Name) (ts : List Ty), ns.length = ts.length →
    lookupLast k ns ts = none → k ∉ ns
  | [], _, _, _ => by simp
  | _ :: _, [], hl, _ => by simp at hl
  | n :: ns, t :: ts, hl, h => by
    simp only [lookupLast] at h
    cases hr : lookupLast k ns ts with
    | some r => simp [hr] at h
    | none =>
      simp only [hr] at h
      split at h
      · cases h
      · next hnk =>
        have := lookupLast_none_not_mem k ns ts (by simpa using hl) hr
        simp only [List.mem_cons, not_or]
        exact ⟨fun e => hnk e.symm, this⟩

theorem lookup_none_of_not_key (k : Name) : ∀ (ks : List Name) (vs : List J), k ∉ ks → J.lookup k ks vs = none
  | [], _, _ => by simp [J.lookup]
  | _ :: _, [], _ => by simp [J.lookup]
  | k' :: ks, v :: vs, h => by
    simp only [List.mem_cons, not_or] at h
    simp only [J.lookup]
    rw [if_neg (fun e => h.1 e.symm)]
    exact lookup_none_of_not_key k ks vs h.2

theorem jok_lookupLast {k : Name} {ns : List Name} {ts : List Ty} {a : Ty} (h : lookupLast k ns ts = some a)
    (j : jokList ts = true) : jok a = true :=
  (jokList_iff ts).mp j a (lookupLast_mem k ns ts a h)

/-- the struct / struct case: every field of the merged object type accepts what the first operand's object
    offers for it (missing keys read as NULL, and a key only the second operand knows is made nullable) -/
theorem structFields_acc_left {f : Ty → Ty → Option Ty} (hf : AccFor f) (ns1 : List Name) (ts1 : List Ty)
    (ns2 : List Name) (ts2 : List Ty) (l1 : ns1.length = ts1.length) (l2 : ns2.length = ts2.length)
    (j1 : jokList ts1 = true) (j2 : jokList ts2 = true) (ks : List Name) (vs : List J)
    (hk : ∀ k ∈ ks, k ∈ ns1) (ha : accFields ns1 ts1 (.obj ks vs)) :
    ∀ (names : List Name) (tys : List Ty), optMap (structField f ns1 ts1 ns2 ts2) names = some tys →
      jokList tys = true ∧ accFields names tys (.obj ks vs)
  | [], tys, h => by simp only [optMap, Option.some.injEq] at h; subst h; simp [jokList, accFields]
  | name :: names, tys, h => by
    simp only [optMap] at h
    cases hx : structField f ns1 ts1 ns2 ts2 name with
    | none => simp [hx] at h
    | some ty =>
      cases hxs : optMap (structField f ns1 ts1 ns2 ts2) names with
      | none => simp [hx, hxs] at h
      | some tys' =>
        simp only [hx, hxs, Option.some.injEq] at h
        subst h
        obtain ⟨jr, ar⟩ := structFields_acc_left hf ns1 ts1 ns2 ts2 l1 l2 j1 j2 ks vs hk ha names tys' hxs
        have key : jok ty = true ∧ acc ty ((J.obj ks vs).get name) = true := by
          unfold structField at hx
          cases h1 : lookupLast name ns1 ts1 with
          | some a =>
            have aa := lookupLast_acc (.obj ks vs) name ns1 ts1 a l1 ha h1
            cases h2 : lookupLast name ns2 ts2 with
            | some b =>
              simp only [h1, h2] at hx
              have := hf a b ty (jok_lookupLast h1 j1) (jok_lookupLast h2 j2) hx
              exact ⟨this.1, this.2.1 _ aa⟩
            | none =>
              simp only [h1, h2] at hx
              have := hf a .null ty (jok_lookupLast h1 j1) jok_null hx
              exact ⟨this.1, this.2.1 _ aa⟩
          | none =>
            cases h2 : lookupLast name ns2 ts2 with
            | some b =>
              simp only [h1, h2] at hx
              have := hf b .null ty (jok_lookupLast h2 j2) jok_null hx
              have hnk : name ∉ ks := fun hin => lookupLast_none_not_mem name ns1 ts1 l1 h1 (hk name hin)
              have hget : (J.obj ks vs).get name = none := lookup_none_of_not_key name ks vs hnk
              rw [hget]
              exact ⟨this.1, this.2.2 _ acc_null_none⟩
            | none => simp [h1, h2] at hx
        exact ⟨by simp [jokList, key.1, jr], by simp only [accFields, List.headD_cons, List.tail_cons]; exact ⟨key.2, ar⟩⟩

theorem structFields_acc_right {f : Ty → Ty → Option Ty} (hf : AccFor f) (ns1 : List Name) (ts1 : List Ty)
    (ns2 : List Name) (ts2 : List Ty) (l1 : ns1.length = ts1.length) (l2 : ns2.length = ts2.length)
    (j1 : jokList ts1 = true) (j2 : jokList ts2 = true) (ks : List Name) (vs : List J)
    (hk : ∀ k ∈ ks, k ∈ ns2) (ha : accFields ns2 ts2 (.obj ks vs)) :
    ∀ (names : List Name) (tys : List Ty), optMap (structField f ns1 ts1 ns2 ts2) names = some tys →
      accFields names tys (.obj ks vs)
  | [], tys, h => by simp only [optMap, Option.some.injEq] at h; subst h; simp [accFields]
  | name :: names, tys, h => by
    simp only [optMap] at h
    cases hx : structField f ns1 ts1 ns2 ts2 name with
    | none => simp [hx] at h
    | some ty =>
      cases hxs : optMap (structField f ns1 ts1 ns2 ts2) names with
      | none => simp [hx, hxs] at h
      | some tys' =>
        simp only [hx, hxs, Option.some.injEq] at h
        subst h
        have ar := structFields_acc_right hf ns1 ts1 ns2 ts2 l1 l2 j1 j2 ks vs hk ha names tys' hxs
        have key : acc ty ((J.obj ks vs).get name) = true := by
          unfold structField at hx
          cases h2 : lookupLast name ns2 ts2 with
          | some b =>
            have bb := lookupLast_acc (.obj ks vs) name ns2 ts2 b l2 ha h2
            cases h1 : lookupLast name ns1 ts1 with
            | some a =>
              simp only [h1, h2] at hx
              exact (hf a b ty (jok_lookupLast h1 j1) (jok_lookupLast h2 j2) hx).2.2 _ bb
            | none =>
              simp only [h1, h2] at hx
              exact (hf b .null ty (jok_lookupLast h2 j2) jok_null hx).2.1 _ bb
          | none =>
            cases h1 : lookupLast name ns1 ts1 with
            | some a =>
              simp only [h1, h2] at hx
              have hnk : name ∉ ks := fun hin => lookupLast_none_not_mem name ns2 ts2 l2 h2 (hk name hin)
              have hget : (J.obj ks vs).get name = none := lookup_none_of_not_key name ks vs hnk
              rw [hget]
              exact (hf a .null ty (jok_lookupLast h1 j1) jok_null hx).2.2 _ acc_null_none
            | none => simp [h1, h2] at hx
        simp only [accFields, List.headD_cons, List.tail_cons]; exact ⟨key, ar⟩

theorem structFields_jok {f : Ty → Ty → Option Ty} (hf : AccFor f) (ns1 : List Name) (ts1 : List Ty)
    (ns2 : List Name) (ts2 : List Ty) (j1 : jokList ts1 = true) (j2 : jokList ts2 = true) :
    ∀ (names : List Name) (tys : List Ty), optMap (structField f ns1 ts1 ns2 ts2) names = some tys → jokList tys = true
  | [], tys, h => by simp only [optMap, Option.some.injEq] at h; subst h; rfl
  | name :: names, tys, h => by
    simp only [optMap] at h
    cases hx : structField f ns1 ts1 ns2 ts2 name with
    | none => simp [hx] at h
    | some ty =>
      cases hxs : optMap (structField f ns1 ts1 ns2 ts2) names with
      | none => simp [hx, hxs] at h
      | some tys' =>
        simp only [hx, hxs, Option.some.injEq] at h
        subst h
        have jr := structFields_jok hf ns1 ts1 ns2 ts2 j1 j2 names tys' hxs
        have key : jok ty = true := by
          unfold structField at hx
          cases h1 : lookupLast name ns1 ts1 with
          | some a =>
            cases h2 : lookupLast name ns2 ts2 with
            | some b => simp only [h1, h2] at hx; exact (hf a b ty (jok_lookupLast h1 j1) (jok_lookupLast h2 j2) hx).1
            | none => simp only [h1, h2] at hx; exact (hf a .null ty (jok_lookupLast h1 j1) jok_null hx).1
          | none =>
            cases h2 : lookupLast name ns2 ts2 with
            | some b => simp only [h1, h2] at hx; exact (hf b .null ty (jok_lookupLast h2 j2) jok_null hx).1
            | none => simp [h1, h2] at hx
        simp [jokList, key, jr]

/-- the union / union loop `out = TypeSum(out, alternative)` -/
theorem fold_acc {f : Ty → Ty → Option Ty} (hf : AccFor f) : ∀ (alts : List Ty) (out c : Ty),
    jok out = true → jokList alts = true → optFoldl f out alts = some c →
    jok c = true ∧ (∀ oj, acc out oj = true → acc c oj = true) ∧ (∀ x ∈ alts, ∀ oj, acc x oj = true → acc c oj = true)
  | [], out, c, jo, _, h => by
    simp only [optFoldl, Option.some.injEq] at h; subst h
    exact ⟨jo, fun _ h => h, by simp⟩
  | x :: xs, out, c, jo, ja, h => by
    simp only [jokList, Bool.and_eq_true] at ja
    simp only [optFoldl] at h
    cases hx : f out x with
    | none => simp [hx] at h
    | some out' =>
      simp only [hx] at h
      obtain ⟨j1, a1, a2⟩ := hf out x out' jo ja.1 hx
      obtain ⟨j2, b1, b2⟩ := fold_acc hf xs out' c j1 ja.2 h
      refine ⟨j2, fun oj ho => b1 oj (a1 oj ho), ?_⟩
      intro y hy oj hacc
      simp only [List.mem_cons] at hy
      rcases hy with hy | hy
      · subst hy; exact b1 oj (a2 oj hacc)
      · exact b2 y hy oj hacc

/-- replacing the first alternative of the same TypeID by its sum with `b` -/
theorem mergeFirst_acc {g : Ty → Option Ty} (k : Nat) (b : Ty)
    (hg : ∀ x r, jok x = true → g x = some r →
      jok r = true ∧ (∀ oj, acc x oj = true → acc r oj = true) ∧ (∀ oj, acc b oj = true → acc r oj = true)) :
    ∀ (alts alts' : List Ty), jokList alts = true → mergeFirst g k alts = some alts' →
      alts.any (fun a => a.id = k) = true →
      jokList alts' = true ∧ (∀ x ∈ alts, ∀ oj, acc x oj = true → ∃ r ∈ alts', acc r oj = true) ∧
        (∀ oj, acc b oj = true → ∃ r ∈ alts', acc r oj = true)
  | [], _, _, _, hany => by simp at hany
  | a :: as, alts', ja, hm, hany => by
    simp only [jokList, Bool.and_eq_true] at ja
    simp only [mergeFirst] at hm
    split at hm
    · cases hga : g a with
      | none => simp [hga] at hm
      | some r =>
        simp only [hga, Option.map_some, Option.some.injEq] at hm
        subst hm
        obtain ⟨jr, h1, h2⟩ := hg a r ja.1 hga
        refine ⟨by simp [jokList, jr, ja.2], ?_, fun oj hb => ⟨r, by simp, h2 oj hb⟩⟩
        intro x hx oj hacc
        simp only [List.mem_cons] at hx
        rcases hx with hx | hx
        · subst hx; exact ⟨r, by simp, h1 oj hacc⟩
        · exact ⟨x, by simp [hx], hacc⟩
    · next hk =>
      cases hrest : mergeFirst g k as with
      | none => simp [hrest] at hm
      | some rs =>
        simp only [hrest, Option.map_some, Option.some.injEq] at hm
        subst hm
        have hany' : as.any (fun a => a.id = k) = true := by
          simp only [List.any_cons, Bool.or_eq_true, decide_eq_true_eq] at hany
          rcases hany with h | h
          · exact absurd h hk
          · exact h
        obtain ⟨jr, h1, h2⟩ := mergeFirst_acc k b hg as rs ja.2 hrest hany'
        refine ⟨by simp [jokList, ja.1, jr], ?_, fun oj hb => ?_⟩
        · intro x hx oj hacc
          simp only [List.mem_cons] at hx
          rcases hx with hx | hx
          · subst hx; exact ⟨x, by simp, hacc⟩
          · obtain ⟨r, hr, hra⟩ := h1 x hx oj hacc
            exact ⟨r, by simp [hr], hra⟩
        · obtain ⟨r, hr, hra⟩ := h2 oj hb
          exact ⟨r, by simp [hr], hra⟩

theorem jok_sortById (l : List Ty) (h : ∀ t ∈ l, jok t = true) : jokList (sortById l) = true :=
  (jokList_iff _).mpr (fun t ht => h t ((mem_sortById t l).mp ht))

end Octo.Files

namespace Octo.Files
open Octo Octo.Ty

theorem acc_struct_nonobj (ns : List Name) (ts : List Ty) (oj : Option J)
    (h : acc (.struct ns ts) oj = true) : ∃ ks vs, oj = some (.obj ks vs) := by
  by_cases hnull : oj = none ∨ oj = some .null
  · rw [acc_nullish _ _ hnull, nullOk_struct] at h; cases h
  · cases oj with
    | none => simp at hnull
    | some j =>
      obtain ⟨ks, vs, rfl⟩ := acc_struct_inv ns ts j (fun e => hnull (Or.inr (by rw [e]))) h
      exact ⟨ks, vs, rfl⟩

theorem acc_list_nonarr (e : Ty) (oj : Option J) (h : acc (.list e) oj = true) : ∃ xs, oj = some (.arr xs) := by
  by_cases hnull : oj = none ∨ oj = some .null
  · rw [acc_nullish _ _ hnull, nullOk_list] at h; cases h
  · cases oj with
    | none => simp at hnull
    | some j =>
      obtain ⟨xs, rfl⟩ := acc_list_inv e j (fun e' => hnull (Or.inr (by rw [e']))) h
      exact ⟨xs, rfl⟩

/-- one unfolding of `TypeSum` preserves "accepts what either operand accepts" -/
theorem acc_step {f : Ty → Ty → Option Ty} (hf : AccFor f) : AccFor (typeSumStep f) := by
  intro a b c ja jb hc
  unfold typeSumStep at hc
  by_cases h1 : a.is b = .is
  · rw [if_pos h1] at hc
    cases hc
    exact ⟨jb, fun oj h => acc_of_is' ja jb h1 oj h, fun _ h => h⟩
  rw [if_neg h1] at hc
  by_cases h2 : b.is a = .is
  · rw [if_pos h2] at hc
    cases hc
    exact ⟨ja, fun _ h => h, fun oj h => acc_of_is' jb ja h2 oj h⟩
  rw [if_neg h2] at hc
  split at hc
  · -- struct / struct
    rename_i ns1 ts1 ns2 ts2
    simp only [Option.map_eq_some_iff] at hc
    obtain ⟨tys, hz, rfl⟩ := hc
    simp only [jok, Bool.and_eq_true, beq_iff_eq] at ja jb
    have hlen := optMap_length _ _ hz
    refine ⟨?_, ?_, ?_⟩
    · simp only [jok, Bool.and_eq_true, beq_iff_eq]
      exact ⟨hlen.symm, structFields_jok hf ns1 ts1 ns2 ts2 ja.2 jb.2 _ tys hz⟩
    · intro oj hacc
      obtain ⟨ks, vs, rfl⟩ := acc_struct_nonobj _ _ _ hacc
      rw [acc_struct] at hacc ⊢
      refine ⟨fun k hk => mem_sortNames_of_mem k _ (List.mem_append_left _ (hacc.1 k hk)), ?_⟩
      exact (structFields_acc_left hf ns1 ts1 ns2 ts2 ja.1 jb.1 ja.2 jb.2 ks vs hacc.1 hacc.2 _ tys hz).2
    · intro oj hacc
      obtain ⟨ks, vs, rfl⟩ := acc_struct_nonobj _ _ _ hacc
      rw [acc_struct] at hacc ⊢
      refine ⟨fun k hk => mem_sortNames_of_mem k _ (List.mem_append_right _ (hacc.1 k hk)), ?_⟩
      exact structFields_acc_right hf ns1 ts1 ns2 ts2 ja.1 jb.1 ja.2 jb.2 ks vs hacc.1 hacc.2 _ tys hz
  · exact absurd (by simp) h1
  · exact absurd (by simp) h1
  · exact absurd (by simp) h2
  · -- list / list
    rename_i e1 e2
    simp only [Option.map_eq_some_iff] at hc
    obtain ⟨s, hs, rfl⟩ := hc
    simp only [jok] at ja jb
    obtain ⟨js, s1, s2⟩ := hf e1 e2 s ja jb hs
    refine ⟨by simpa [jok] using js, ?_, ?_⟩
    · intro oj hacc
      obtain ⟨xs, rfl⟩ := acc_list_nonarr _ _ hacc
      rw [acc_list] at hacc ⊢
      exact fun x hx => s1 _ (hacc x hx)
    · intro oj hacc
      obtain ⟨xs, rfl⟩ := acc_list_nonarr _ _ hacc
      rw [acc_list] at hacc ⊢
      exact fun x hx => s2 _ (hacc x hx)
  · -- tuple / tuple
    simp [jok] at ja
  · -- union / union
    rename_i alts1 alts2
    simp only [jok] at jb
    obtain ⟨jc, c1, c2⟩ := fold_acc hf alts2 (.union alts1) c ja jb hc
    refine ⟨jc, c1, ?_⟩
    intro oj hacc
    obtain ⟨x, hx, hxa⟩ := (acc_union alts2 oj).mp hacc
    exact c2 x hx oj hxa
  · -- only t2 is a union: swap
    obtain ⟨jc, c1, c2⟩ := hf _ _ c jb ja hc
    exact ⟨jc, c2, c1⟩
  · -- only t1 is a union
    rename_i alts _
    simp only [jok] at ja
    split at hc
    · rename_i hany
      simp only [Option.map_eq_some_iff] at hc
      obtain ⟨alts', hm, rfl⟩ := hc
      obtain ⟨jc, c1, c2⟩ := mergeFirst_acc (g := fun x => f x b) b.id b
        (fun x r jx hr => hf x b r jx jb hr) alts alts' ja hm (by simpa using hany)
      refine ⟨by simpa [jok] using jc, ?_, ?_⟩
      · intro oj hacc
        obtain ⟨x, hx, hxa⟩ := (acc_union alts oj).mp hacc
        exact (acc_union alts' oj).mpr (c1 x hx oj hxa)
      · intro oj hacc
        exact (acc_union alts' oj).mpr (c2 oj hacc)
    · cases hc
      refine ⟨?_, ?_, ?_⟩
      · simp only [jok]
        apply jok_sortById
        intro t ht
        simp only [List.mem_append, List.mem_singleton] at ht
        rcases ht with ht | ht
        · exact (jokList_iff _).mp ja t ht
        · subst ht; exact jb
      · intro oj hacc
        obtain ⟨x, hx, hxa⟩ := (acc_union alts oj).mp hacc
        exact (acc_union _ oj).mpr ⟨x, (mem_sortById _ _).mpr (by simp [hx]), hxa⟩
      · intro oj hacc
        exact (acc_union _ oj).mpr ⟨b, (mem_sortById _ _).mpr (by simp), hacc⟩
  · cases hc
    refine ⟨?_, ?_, ?_⟩
    · simp only [jok]
      apply jok_sortById
      intro t ht
      simp only [List.mem_cons, List.not_mem_nil, or_false] at ht
      rcases ht with ht | ht
      · subst ht; exact ja
      · subst ht; exact jb
    · intro oj hacc
      exact (acc_union _ oj).mpr ⟨a, (mem_sortById _ _).mpr (by simp), hacc⟩
    · intro oj hacc
      exact (acc_union _ oj).mpr ⟨b, (mem_sortById _ _).mpr (by simp), hacc⟩

end Octo.Files
