import Octo.Lemmas.TySumUpper
/-! Well-formed types (`Ty.wf`) and their preservation by `TypeSum`. -/
namespace Octo
namespace Ty

theorem altsPlain_iff : ∀ (l : List Ty), altsPlain l = true ↔ ∀ a ∈ l, a.isUnion = false ∧ a.isAny = false
  | [] => by simp [altsPlain]
  | a :: as => by simp [altsPlain, altsPlain_iff as, and_assoc]

theorem wfList_iff : ∀ (l : List Ty), wfList l = true ↔ ∀ a ∈ l, wf a = true
  | [] => by simp [wfList]
  | a :: as => by simp [wfList, wfList_iff as]

theorem distinctIds_congr : ∀ (l l' : List Ty), l.map Ty.id = l'.map Ty.id → distinctIds l = distinctIds l'
  | [], [], _ => rfl
  | [], _ :: _, h => by simp at h
  | _ :: _, [], h => by simp at h
  | a :: as, b :: bs, h => by
    simp only [List.map_cons, List.cons.injEq] at h
    simp only [distinctIds]
    rw [distinctIds_congr as bs h.2, h.1]
    congr 1
    have : ∀ (k : Nat) (xs ys : List Ty), xs.map Ty.id = ys.map Ty.id →
        xs.all (fun c => k != c.id) = ys.all (fun c => k != c.id) := by
      intro k xs
      induction xs with
      | nil => intro ys h; cases ys <;> simp_all
      | cons x xs ih =>
        intro ys h
        cases ys with
        | nil => simp at h
        | cons y ys =>
          simp only [List.map_cons, List.cons.injEq] at h
          simp only [List.all_cons, h.1, ih ys h.2]
    exact this _ as bs h.2

theorem distinctIds_cons (a : Ty) (as : List Ty) :
    distinctIds (a :: as) = true ↔ (∀ b ∈ as, a.id ≠ b.id) ∧ distinctIds as = true := by
  simp [distinctIds]

theorem distinctIds_unique : ∀ {l : List Ty} {a b : Ty}, distinctIds l = true → a ∈ l → b ∈ l → a.id = b.id → a = b
  | [], _, _, _, h, _, _ => by cases h
  | x :: xs, a, b, hd, ha, hb, hid => by
    rw [distinctIds_cons] at hd
    cases ha with
    | head =>
      cases hb with
      | head => rfl
      | tail _ hb => exact absurd hid (hd.1 b hb)
    | tail _ ha =>
      cases hb with
      | head => exact absurd hid.symm (hd.1 a ha)
      | tail _ hb => exact distinctIds_unique hd.2 ha hb hid

theorem distinctIds_insert (x : Ty) : ∀ (l : List Ty), distinctIds l = true → (∀ b ∈ l, x.id ≠ b.id) →
    distinctIds (insertById x l) = true
  | [], _, _ => by simp [insertById, distinctIds]
  | y :: ys, hd, hx => by
    simp only [insertById]
    split
    · rw [distinctIds_cons]; exact ⟨hx, hd⟩
    · rw [distinctIds_cons] at hd ⊢
      refine ⟨?_, distinctIds_insert x ys hd.2 (fun b hb => hx b (by simp [hb]))⟩
      intro b hb
      rw [mem_insertById] at hb
      rcases hb with rfl | hb
      · exact Ne.symm (hx y (by simp))
      · exact hd.1 b hb

theorem distinctIds_foldl : ∀ (l acc : List Ty), distinctIds acc = true → distinctIds l = true →
    (∀ a ∈ acc, ∀ b ∈ l, a.id ≠ b.id) → distinctIds (l.foldl (fun acc x => insertById x acc) acc) = true
  | [], _, ha, _, _ => ha
  | x :: xs, acc, ha, hl, hd => by
    rw [distinctIds_cons] at hl
    simp only [List.foldl]
    refine distinctIds_foldl xs _ (distinctIds_insert x acc ha (fun b hb => Ne.symm (hd b hb x (by simp)))) hl.2 ?_
    intro a ha' b hb
    rw [mem_insertById] at ha'
    rcases ha' with rfl | ha'
    · exact hl.1 b hb
    · exact hd a ha' b (by simp [hb])

theorem distinctIds_sortById (l : List Ty) (h : distinctIds l = true) : distinctIds (sortById l) = true :=
  distinctIds_foldl l [] rfl h (by simp)

theorem distinctIds_append_single : ∀ (l : List Ty) (y : Ty), distinctIds l = true → (∀ a ∈ l, a.id ≠ y.id) →
    distinctIds (l ++ [y]) = true
  | [], _, _, _ => by simp [distinctIds]
  | x :: xs, y, hd, hy => by
    rw [distinctIds_cons] at hd
    rw [List.cons_append, distinctIds_cons]
    refine ⟨?_, distinctIds_append_single xs y hd.2 (fun a ha => hy a (by simp [ha]))⟩
    intro b hb
    rw [List.mem_append] at hb
    rcases hb with hb | hb
    · exact hd.1 b hb
    · simp only [List.mem_singleton] at hb; subst hb; exact hy x (by simp)

/-! field names -/

theorem strictSorted_of_ltAll {x : Name} {l : List Name} (h1 : ltAll x l) (h2 : strictSortedNames l = true) :
    strictSortedNames (x :: l) = true := by
  cases l with
  | nil => rfl
  | cons y ys => simp [strictSortedNames, h1 y (by simp), h2]

theorem mem_insertName (x z : Name) : ∀ (l : List Name), z ∈ insertName x l → z = x ∨ z ∈ l
  | [], h => by simpa [insertName] using h
  | y :: ys, h => by
    simp only [insertName] at h
    split at h
    · simpa using h
    · split at h
      · right; exact h
      · simp only [List.mem_cons] at h ⊢
        rcases h with h | h
        · right; left; exact h
        · rcases mem_insertName x z ys h with h | h
          · left; exact h
          · right; right; exact h

theorem strictSorted_insertName (x : Name) : ∀ (l : List Name), strictSortedNames l = true →
    strictSortedNames (insertName x l) = true
  | [], _ => rfl
  | y :: ys, h => by
    have ⟨hlt, hs⟩ := strictSorted_cons h
    simp only [insertName]
    split
    · rename_i hxy
      simp [strictSortedNames, hxy, h]
    · split
      · exact h
      · rename_i h1 h2
        refine strictSorted_of_ltAll ?_ (strictSorted_insertName x ys hs)
        intro z hz
        rcases mem_insertName x z ys hz with rfl | hz
        · have := cmpName_antisymm z y; omega
        · exact hlt z hz

theorem strictSorted_sortNames : ∀ (l : List Name), strictSortedNames (sortNames l) = true
  | [] => rfl
  | x :: xs => by
    have ih := strictSorted_sortNames xs
    unfold sortNames at ih ⊢
    simp only [List.foldr]
    exact strictSorted_insertName x _ ih

theorem lookupLast_mem : ∀ (k : Name) (ns : List Name) (ts : List Ty) (a : Ty), lookupLast k ns ts = some a → a ∈ ts
  | _, [], _, _, h => by simp [lookupLast] at h
  | _, _ :: _, [], _, h => by simp [lookupLast] at h
  | k, n :: ns, t :: ts, a, h => by
    simp only [lookupLast] at h
    cases hl : lookupLast k ns ts with
    | some r =>
      simp only [hl, Option.some.injEq] at h
      subst h
      exact List.mem_cons_of_mem _ (lookupLast_mem k ns ts r hl)
    | none =>
      simp only [hl] at h
      split at h
      · simp only [Option.some.injEq] at h; subst h; simp
      · cases h

theorem optMap_spec {α β} {f : α → Option β} : ∀ (l : List α) (rs : List β), optMap f l = some rs →
    rs.length = l.length ∧ ∀ r ∈ rs, ∃ x ∈ l, f x = some r
  | [], rs, h => by simp only [optMap, Option.some.injEq] at h; subst h; simp
  | x :: xs, rs, h => by
    simp only [optMap] at h
    cases hx : f x with
    | none => simp [hx] at h
    | some y =>
      cases hxs : optMap f xs with
      | none => simp [hx, hxs] at h
      | some ys =>
        simp only [hx, hxs, Option.some.injEq] at h
        subst h
        have ⟨l, m⟩ := optMap_spec xs ys hxs
        refine ⟨by simp [l], ?_⟩
        intro r hr
        cases hr with
        | head => exact ⟨x, by simp, hx⟩
        | tail _ hr =>
          obtain ⟨x', hx', h'⟩ := m r hr
          exact ⟨x', by simp [hx'], h'⟩

theorem tupleMerge_spec {f : Ty → Ty → Option Ty} : ∀ (l s rs : List Ty), tupleMerge f l s = some rs →
    ∀ r ∈ rs, ∃ a ∈ l, (∃ b ∈ s, f a b = some r) ∨ f a .null = some r
  | [], _, rs, h => by simp only [tupleMerge, Option.some.injEq] at h; subst h; simp
  | x :: xs, [], rs, h => by
    simp only [tupleMerge] at h
    cases hx : f x .null with
    | none => simp [hx] at h
    | some y =>
      cases hxs : tupleMerge f xs [] with
      | none => simp [hx, hxs] at h
      | some ys =>
        simp only [hx, hxs, Option.some.injEq] at h
        subst h
        intro r hr
        cases hr with
        | head => exact ⟨x, by simp, Or.inr hx⟩
        | tail _ hr =>
          obtain ⟨a, ha, h'⟩ := tupleMerge_spec xs [] ys hxs r hr
          exact ⟨a, by simp [ha], h'⟩
  | x :: xs, s :: ss, rs, h => by
    simp only [tupleMerge] at h
    cases hx : f x s with
    | none => simp [hx] at h
    | some y =>
      cases hxs : tupleMerge f xs ss with
      | none => simp [hx, hxs] at h
      | some ys =>
        simp only [hx, hxs, Option.some.injEq] at h
        subst h
        intro r hr
        cases hr with
        | head => exact ⟨x, by simp, Or.inl ⟨s, by simp, hx⟩⟩
        | tail _ hr =>
          obtain ⟨a, ha, h'⟩ := tupleMerge_spec xs ss ys hxs r hr
          refine ⟨a, by simp [ha], ?_⟩
          rcases h' with ⟨b, hb, h'⟩ | h'
          · exact Or.inl ⟨b, by simp [hb], h'⟩
          · exact Or.inr h'

theorem mergeFirst_split {g : Ty → Option Ty} (k : Nat) : ∀ (alts alts' : List Ty),
    mergeFirst g k alts = some alts' → (alts.any fun a => a.id = k) = true →
    ∃ pre a0 post r, alts = pre ++ a0 :: post ∧ a0.id = k ∧ g a0 = some r ∧ alts' = pre ++ r :: post
  | [], _, _, hany => by simp at hany
  | a :: as, alts', hm, hany => by
    simp only [mergeFirst] at hm
    split at hm
    · rename_i hk
      cases hga : g a with
      | none => simp [hga] at hm
      | some r =>
        simp only [hga, Option.map_some, Option.some.injEq] at hm
        exact ⟨[], a, as, r, rfl, hk, hga, by simp [← hm]⟩
    · rename_i hk
      cases hrest : mergeFirst g k as with
      | none => simp [hrest] at hm
      | some rs =>
        simp only [hrest, Option.map_some, Option.some.injEq] at hm
        have hany' : (as.any fun a => a.id = k) = true := by
          simp only [List.any_cons, Bool.or_eq_true, decide_eq_true_eq] at hany
          rcases hany with h | h
          · exact absurd h hk
          · exact h
        obtain ⟨pre, a0, post, r, e1, e2, e3, e4⟩ := mergeFirst_split k as rs hrest hany'
        exact ⟨a :: pre, a0, post, r, by simp [e1], e2, e3, by simp [← hm, e4]⟩


theorem find_of_mergeFirst {g : Ty → Option Ty} (k : Nat) :
    ∀ (alts alts' : List Ty), mergeFirst g k alts = some alts' → (alts.any fun a => a.id = k) = true →
      ∃ a r, alts.find? (fun a => a.id = k) = some a ∧ g a = some r ∧ a.id = k
  | [], _, _, hany => by simp at hany
  | a :: as, alts', hm, hany => by
    simp only [mergeFirst] at hm
    split at hm
    · rename_i hk
      cases hga : g a with
      | none => simp [hga] at hm
      | some r => exact ⟨a, r, by simp [List.find?, hk], hga, hk⟩
    · rename_i hk
      cases hrest : mergeFirst g k as with
      | none => simp [hrest] at hm
      | some rs =>
        have hany' : (as.any fun a => a.id = k) = true := by
          simp only [List.any_cons, Bool.or_eq_true, decide_eq_true_eq] at hany
          rcases hany with h | h
          · exact absurd h hk
          · exact h
        obtain ⟨a', r, h1, h2, h3⟩ := find_of_mergeFirst k as rs hrest hany'
        exact ⟨a', r, by simp [List.find?, hk, h1], h2, h3⟩

end Ty
end Octo
