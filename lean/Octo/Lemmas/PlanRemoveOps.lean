import Octo.Lemmas.PlanRemove
import Octo.Lemmas.PlanJoinKey
/-!
  Node operators commute with erasing an unused field from their input records.
-/
namespace Octo.Plan
open Octo

theorem filterRows_erase {f : String} {e : PExpr} (hf : f ∉ varsUsed e) (ctx : Ctx) : ∀ (rows : List Row),
    filterRows ctx e (rows.map (eraseKey f)) = (filterRows ctx e rows).map (List.map (eraseKey f))
  | [] => rfl
  | r :: rs => by
    simp only [List.map_cons, filterRows, eval_eraseKey hf, filterRows_erase hf ctx rs]
    cases eval (r :: ctx) e with
    | none => rfl
    | some v =>
      cases filterRows ctx e rs with
      | none => rfl
      | some out =>
        simp only [Option.map_some]
        cases v with
        | bool b => cases b <;> rfl
        | _ => rfl

theorem evalArgs_eraseKey {f : String} {es : List PExpr} (hf : f ∉ varsUsedL es) (r : Row) (ctx : Ctx) :
    evalArgs (eraseKey f r :: ctx) es = evalArgs (r :: ctx) es := by
  unfold evalArgs
  rw [evalL_eraseKey hf]

theorem mapRows_erase_src {f : String} {es : List PExpr} (hf : f ∉ varsUsedL es) (ctx : Ctx) (fs : List String) :
    ∀ (rows : List Row), mapRows ctx fs es (rows.map (eraseKey f)) = mapRows ctx fs es rows
  | [] => rfl
  | r :: rs => by
    simp only [List.map_cons, mapRows, evalArgs_eraseKey hf, mapRows_erase_src hf ctx fs rs]

theorem mapRows_names {ctx : Ctx} {fs : List String} {es : List PExpr} : ∀ {rows out : List Row},
    mapRows ctx fs es rows = some out → ∀ r ∈ out, Row.names r = fs
  | [], out, h => by
    simp only [mapRows, Option.some.injEq] at h
    subst h
    simp
  | r :: rs, out, h => by
    simp only [mapRows] at h
    cases he : evalArgs (r :: ctx) es with
    | none => simp [he] at h
    | some vs =>
      cases hz : zipNames fs vs with
      | none => simp [he, hz] at h
      | some row =>
        cases hm : mapRows ctx fs es rs with
        | none => simp [he, hz, hm] at h
        | some rest =>
          simp only [he, hz, hm, Option.some.injEq] at h
          subst h
          intro x hx
          rcases List.mem_cons.mp hx with rfl | hx
          · exact zipNames_names hz
          · exact mapRows_names hm x hx

/-- the Map node loses the expression of the (unique) field `f` -/
theorem mapRows_drop {f : String} {ctx : Ctx} {fs : List String} {es : List PExpr} {i : Nat}
    (hnd : fs.Nodup) (hi : fs[i]? = some f) : ∀ {rows out : List Row},
    mapRows ctx fs es rows = some out →
    mapRows ctx (fs.eraseIdx i) (es.eraseIdx i) rows = some (out.map (eraseKey f))
  | [], out, h => by
    simp only [mapRows, Option.some.injEq] at h
    subst h
    rfl
  | r :: rs, out, h => by
    simp only [mapRows] at h
    cases he : evalArgs (r :: ctx) es with
    | none => simp [he] at h
    | some vs =>
      cases hz : zipNames fs vs with
      | none => simp [he, hz] at h
      | some row =>
        cases hm : mapRows ctx fs es rs with
        | none => simp [he, hz, hm] at h
        | some rest =>
          simp only [he, hz, hm, Option.some.injEq] at h
          subst h
          have he' : evalArgs (r :: ctx) (es.eraseIdx i) = some (vs.eraseIdx i) := by
            unfold evalArgs at he ⊢
            rw [evalL_eraseIdx]
            exact sequence_eraseIdx i he
          simp only [mapRows, he', zipNames_eraseIdx f i hnd hi hz, mapRows_drop hnd hi hm, List.map_cons]

theorem mapRows_isSome {ctx : Ctx} {fs scope outer : List String} {es : List PExpr}
    (hes : ExprsOK (scope ++ outer) es) (hlen : es.length = fs.length) (hb : Binds outer ctx) : ∀ {rows : List Row},
    (∀ r ∈ rows, Row.names r = scope) → (mapRows ctx fs es rows).isSome = true
  | [], _ => rfl
  | r :: rs, h => by
    have h1 := evalArgs_isSome hes (binds_cons (h r (by simp)) hb)
    have h3 := mapRows_isSome hes hlen hb (rows := rs) (fun x hx => h x (by simp [hx]))
    cases he : evalArgs (r :: ctx) es with
    | none => rw [he] at h1; cases h1
    | some vs =>
      have h2 := zipNames_isSome (fs := fs) (vs := vs) (by rw [evalArgs_length he, hlen])
      cases hz : zipNames fs vs with
      | none => rw [hz] at h2; cases h2
      | some row =>
        cases hm : mapRows ctx fs es rs with
        | none => rw [hm] at h3; cases h3
        | some rest => simp [mapRows, he, hz, hm]

theorem keyInputs_erase {f : String} {key aggExprs : List PExpr} (hk : f ∉ varsUsedL key) (ha : f ∉ varsUsedL aggExprs)
    (ctx : Ctx) : ∀ (rows : List Row),
    keyInputs ctx key aggExprs (rows.map (eraseKey f)) = keyInputs ctx key aggExprs rows
  | [] => rfl
  | r :: rs => by
    simp only [List.map_cons, keyInputs, evalArgs_eraseKey hk, evalArgs_eraseKey ha, keyInputs_erase hk ha ctx rs]

theorem groupOut_names {fs aggs : List String} : ∀ {gs : List (List Value × List (List Value))} {out : List Row},
    groupOut fs aggs gs = some out → ∀ r ∈ out, Row.names r = fs
  | [], out, h => by
    simp only [groupOut, Option.some.injEq] at h
    subst h
    simp
  | (k, inputs) :: rest, out, h => by
    simp only [groupOut] at h
    cases ha : aggCols aggs (columns aggs.length inputs) with
    | none => simp [ha] at h
    | some avs =>
      cases hg : groupOut fs aggs rest with
      | none => simp [ha, hg] at h
      | some out' =>
        cases hz : zipNames fs (k ++ avs) with
        | none => simp [ha, hg, hz] at h
        | some row =>
          simp only [ha, hg, hz, Option.some.injEq] at h
          subst h
          intro x hx
          rcases List.mem_cons.mp hx with rfl | hx
          · exact zipNames_names hz
          · exact groupOut_names hg x hx

theorem replaceField_erase {f g : String} (hgf : g ≠ f) (v : Value) : ∀ (r : Row),
    replaceField g v (eraseKey f r) = eraseKey f (replaceField g v r)
  | [] => rfl
  | (k, x) :: r => by
    by_cases hk : k = f
    · subst hk
      have hkg : (k == g) = false := by
        simp only [beq_eq_false_iff_ne, ne_eq]
        exact fun e => hgf e.symm
      simp only [eraseKey, List.filter_cons, bne_self_eq_false, Bool.false_eq_true, if_false, replaceField, hkg]
      exact replaceField_erase hgf v r
    · have hkf : (k != f) = true := by simpa using hk
      simp only [eraseKey, List.filter_cons, hkf, if_true, replaceField]
      by_cases hkg : (k == g) = true
      · simp only [hkg, if_true, List.filter_cons, hkf]
      · simp only [hkg, Bool.false_eq_true, if_false, List.filter_cons, hkf, if_true]
        congr 1
        exact replaceField_erase hgf v r

theorem replaceField_names (g : String) (v : Value) : ∀ (r : Row), Row.names (replaceField g v r) = Row.names r
  | [] => rfl
  | (k, x) :: r => by
    simp only [replaceField]
    split
    · rfl
    · have ih := replaceField_names g v r
      simp only [Row.names, List.map_cons] at ih ⊢
      rw [ih]

theorem unnestRows_erase {f g : String} (hgf : g ≠ f) : ∀ (rows : List Row),
    unnestRows g (rows.map (eraseKey f)) = (unnestRows g rows).map (List.map (eraseKey f))
  | [] => rfl
  | r :: rs => by
    simp only [List.map_cons, unnestRows, lookupRow_eraseKey hgf, unnestRows_erase hgf rs]
    cases lookupRow g r with
    | none => rfl
    | some v =>
      cases unnestRows g rs with
      | none => rfl
      | some out =>
        simp only [Option.map_some, List.map_append, List.map_map]
        congr 2
        apply List.map_congr_left
        intro e _
        exact replaceField_erase hgf e r

theorem unnestRows_names {g : String} {fs : List String} : ∀ {rows out : List Row},
    (∀ r ∈ rows, Row.names r = fs) → unnestRows g rows = some out → ∀ r ∈ out, Row.names r = fs
  | [], out, _, h => by
    simp only [unnestRows, Option.some.injEq] at h
    subst h
    simp
  | r :: rs, out, hn, h => by
    simp only [unnestRows] at h
    cases hl : lookupRow g r with
    | none => simp [hl] at h
    | some v =>
      cases hu : unnestRows g rs with
      | none => simp [hl, hu] at h
      | some rest =>
        simp only [hl, hu, Option.some.injEq] at h
        subst h
        intro x hx
        rcases List.mem_append.mp hx with hx | hx
        · simp only [List.mem_map] at hx
          obtain ⟨e, _, rfl⟩ := hx
          rw [replaceField_names]
          exact hn r (by simp)
        · exact unnestRows_names (fun y hy => hn y (by simp [hy])) hu x hx

theorem keysOk_erase {f : String} {ks : List PExpr} (hf : f ∉ varsUsedL ks) (ctx : Ctx) (rows : List Row) :
    keysOk ctx ks (rows.map (eraseKey f)) = keysOk ctx ks rows := by
  simp only [keysOk, List.all_map]
  apply List.all_congr rfl
  intro r
  simp only [Function.comp, evalArgs_eraseKey hf]

theorem keyMatch_erase {f : String} {lk rk : List PExpr} (hl : f ∉ varsUsedL lk) (hr : f ∉ varsUsedL rk)
    (ctx : Ctx) (l r : Row) : keyMatch ctx lk rk (eraseKey f l) (eraseKey f r) = keyMatch ctx lk rk l r := by
  simp only [keyMatch, evalArgs_eraseKey hl, evalArgs_eraseKey hr]

theorem joinRows_erase {f : String} {lk rk : List PExpr} (hl : f ∉ varsUsedL lk) (hr : f ∉ varsUsedL rk)
    (ctx : Ctx) (ls rs : List Row) :
    joinRows ctx lk rk (ls.map (eraseKey f)) (rs.map (eraseKey f)) =
      (joinRows ctx lk rk ls rs).map (List.map (eraseKey f)) := by
  simp only [joinRows, keysOk_erase hl, keysOk_erase hr]
  split
  · simp only [Option.map_some, List.map_flatMap, List.flatMap_map]
    congr 1
    apply flatMap_congr''
    intro l _
    simp only [List.filter_map, List.map_map]
    congr 1
    · funext r
      simp [Function.comp, eraseKey_append]
    · apply List.filter_congr
      intro r _
      simp [Function.comp, keyMatch_erase hl hr]
  · rfl
where
  flatMap_congr'' {α β : Type} {f g : α → List β} : ∀ {l : List α}, (∀ x ∈ l, f x = g x) → l.flatMap f = l.flatMap g
    | [], _ => rfl
    | x :: l, h => by
      rw [List.flatMap_cons, List.flatMap_cons, h x (by simp), flatMap_congr'' (l := l) (fun y hy => h y (by simp [hy]))]

/-- the check of the declared schema commutes with the erasure, when the records had the declared names -/
theorem checked_erase {f : String} {s s' : Schema} (hs : s'.fields = eraseField f s.fields) {o : Option (List Row)}
    (hn : ∀ out, o = some out → ∀ r ∈ out, Row.names r = s.fields) :
    checked s' (o.map (List.map (eraseKey f))) = (checked s o).map (List.map (eraseKey f)) := by
  cases o with
  | none => rfl
  | some out =>
    simp only [Option.map_some]
    rw [checked_pass (hn out rfl), checked_pass]
    · rfl
    · intro r hr
      simp only [List.mem_map] at hr
      obtain ⟨r0, hr0, rfl⟩ := hr
      rw [names_eraseKey, hn out rfl r0 hr0, hs]

end Octo.Plan
