import Octo.Lemmas.PlanRemove
import Octo.Lemmas.PlanJoinKey
/-!
  Node operators commute with erasing an unused field from their input records.
-/
namespace Octo.Plan
open Octo

theorem filterRows_erase {f : String} {e : PExpr} (hf : f ∉ varsUsed e) (ctx : Ctx) : ∀ (rows : List Row),
    filterRows ctx e (rows.map (eraseKey f)) = (filterRows ctx e rows).map (List.map (eraseKey f))
  | [] => rfl
  | r :: rs => by
    simp only [List.map_cons, filterRows, eval_eraseKey hf, filterRows_erase hf ctx rs]
    cases eval (r :: ctx) e with
    | none => rfl
    | some v =>
      cases filterRows ctx e rs with
      | none => rfl
      | some out =>
        simp only [Option.map_some]
        cases v with
        | bool b => cases b <;> rfl
        | _ => rfl

theorem evalArgs_eraseKey {f : String} {es : List PExpr} (hf : f ∉ varsUsedL es) (r : Row) (ctx : Ctx) :
    evalArgs (eraseKey f r :: ctx) es = evalArgs (r :: ctx) es := by
  unfold evalArgs
  rw [evalL_eraseKey hf]

theorem mapRows_erase_src {f : String} {es : List PExpr} (hf : f ∉ varsUsedL es) (ctx : Ctx) (fs : List String) :
    ∀ (rows : List Row), mapRows ctx fs es (rows.map (eraseKey f)) = mapRows ctx fs es rows
  | [] => rfl
  | r :: rs => by
    simp only [List.map_cons, mapRows, evalArgs_eraseKey hf, mapRows_erase_src hf ctx fs rs]

theorem mapRows_names {ctx : Ctx} {fs : List String} {es : List PExpr} : ∀ {rows out : List Row},
    mapRows ctx fs es rows = some out → ∀ r ∈ out, Row.names r = fs
  | [], out, h => by
    simp only [mapRows, Option.some.injEq] at h
    subst h
    simp
  | r :: rs, out, h => by
    simp only [mapRows] at h
    cases he : evalArgs (r :: ctx) es with
    | none => simp [he] at h
    | some vs =>
      cases hz : zipNames fs vs with
      | none => simp [he, hz] at h
      | some row =>
        cases hm : mapRows ctx fs es rs with
        | none => simp [he, hz, hm] at h
        | some rest =>
          simp only [he, hz, hm, Option.some.injEq] at h
          subst h
          intro x hx
          rcases List.mem_cons.mp hx with rfl | hx
          · exact zipNames_names hz
          · exact mapRows_names hm x hx

/-- the Map node loses the expression of the (unique) field `f` -/
theorem mapRows_drop {f : String} {ctx : Ctx} {fs : List String} {es : List PExpr} {i : Nat}
    (hnd : fs.Nodup) (hi : fs[i]? = some f) : ∀ {rows out : List Row},
    mapRows ctx fs es rows = some out →
    mapRows ctx (fs.eraseIdx i) (es.eraseIdx i) rows = some (out.map (eraseKey f))
  | [], out, h => by
    simp only [mapRows, Option.some.injEq] at h
    subst h
    rfl
  | r :: rs, out, h => by
    simp only [mapRows] at h
    cases he : evalArgs (r :: ctx) es with
    | none => simp [he] at h
    | some vs =>
      cases hz : zipNames fs vs with
      | none => simp [he, hz] at h
      | some row =>
        cases hm : mapRows ctx fs es rs with
        | none => simp [he, hz, hm] at h
        | some rest =>
          simp only [he, hz, hm, Option.some.injEq] at h
          subst h
          have he' : evalArgs (r :: ctx) (es.eraseIdx i) = some (vs.eraseIdx i) := by
            unfold evalArgs at he ⊢
            rw [evalL_eraseIdx]
            exact sequence_eraseIdx i he
          simp only [mapRows, he', zipNames_eraseIdx f i hnd hi hz, mapRows_drop hnd hi hm, List.map_cons]

theorem mapRows_isSome {ctx : Ctx} {fs scope outer : List String} {es : List PExpr}
    (hes : ExprsOK (scope ++ outer) es) (hlen : es.length = fs.length) (hb : Binds outer ctx) : ∀ {rows : List Row},
    (∀ r ∈ rows, Row.names r = scope) → (mapRows ctx fs es rows).isSome = true
  | [], _ => rfl
  | r :: rs, h => by
    have h1 := evalArgs_isSome hes (binds_cons (h r (by simp)) hb)
    have h3 := mapRows_isSome hes hlen hb (rows := rs) (fun x hx => h x (by simp [hx]))
    cases he : evalArgs (r :: ctx) es with
    | none => rw [he] at h1; cases h1
    | some vs =>
      have h2 := zipNames_isSome (fs := fs) (vs := vs) (by rw [evalArgs_length he, hlen])
      cases hz : zipNames fs vs with
      | none => rw [hz] at h2; cases h2
      | some row =>
        cases hm : mapRows ctx fs es rs with
        | none => rw [hm] at h3; cases h3
        | some rest => simp [mapRows, he, hz, hm]

theorem keyInputs_erase {f : String} {key aggExprs : List PExpr} (hk : f ∉ varsUsedL key) (ha : f ∉ varsUsedL aggExprs)
    (ctx : Ctx) : ∀ (rows : List Row),
    keyInputs ctx key aggExprs (rows.map (eraseKey f)) = keyInputs ctx key aggExprs rows
  | [] => rfl
  | r :: rs => by
    simp only [List.map_cons, keyInputs, evalArgs_eraseKey hk, evalArgs_eraseKey ha, keyInputs_erase hk ha ctx rs]

/-! ### group-by loses one aggregate -/

theorem evalArgs_eraseIdx {ctx : Ctx} {es : List PExpr} {vs : List Value} (j : Nat) (h : evalArgs ctx es = some vs) :
    evalArgs ctx (es.eraseIdx j) = some (vs.eraseIdx j) := by
  unfold evalArgs at h ⊢
  rw [evalL_eraseIdx]
  exact sequence_eraseIdx j h

theorem keyInputs_dropAgg {ctx : Ctx} {key aggExprs : List PExpr} (j : Nat) : ∀ {rows : List Row}
    {pairs : List (List Value × List Value)}, keyInputs ctx key aggExprs rows = some pairs →
    keyInputs ctx key (aggExprs.eraseIdx j) rows = some (pairs.map fun p => (p.1, p.2.eraseIdx j))
  | [], pairs, h => by
    simp only [keyInputs, Option.some.injEq] at h
    subst h
    rfl
  | r :: rs, pairs, h => by
    simp only [keyInputs] at h
    cases hk : evalArgs (r :: ctx) key with
    | none => simp [hk] at h
    | some k =>
      cases ha : evalArgs (r :: ctx) aggExprs with
      | none => simp [hk, ha] at h
      | some a =>
        cases hr : keyInputs ctx key aggExprs rs with
        | none => simp [hk, ha, hr] at h
        | some rest =>
          simp only [hk, ha, hr, Option.some.injEq] at h
          subst h
          simp only [keyInputs, hk, evalArgs_eraseIdx j ha, keyInputs_dropAgg j hr, List.map_cons]

theorem keyInputs_keyLen {ctx : Ctx} {key aggExprs : List PExpr} : ∀ {rows : List Row}
    {pairs : List (List Value × List Value)}, keyInputs ctx key aggExprs rows = some pairs →
    ∀ p ∈ pairs, p.1.length = key.length
  | [], pairs, h => by
    simp only [keyInputs, Option.some.injEq] at h
    subst h
    simp
  | r :: rs, pairs, h => by
    simp only [keyInputs] at h
    cases hk : evalArgs (r :: ctx) key with
    | none => simp [hk] at h
    | some k =>
      cases ha : evalArgs (r :: ctx) aggExprs with
      | none => simp [hk, ha] at h
      | some a =>
        cases hr : keyInputs ctx key aggExprs rs with
        | none => simp [hk, ha, hr] at h
        | some rest =>
          simp only [hk, ha, hr, Option.some.injEq] at h
          subst h
          intro p hp
          rcases List.mem_cons.mp hp with rfl | hp
          · exact evalArgs_length hk
          · exact keyInputs_keyLen hr p hp

theorem addToGroups_map (j : Nat) (k inp : List Value) : ∀ (gs : List (List Value × List (List Value))),
    addToGroups k (inp.eraseIdx j) (gs.map fun g => (g.1, g.2.map fun x => x.eraseIdx j)) =
      (addToGroups k inp gs).map fun g => (g.1, g.2.map fun x => x.eraseIdx j)
  | [] => rfl
  | (k', ins) :: rest => by
    simp only [List.map_cons, addToGroups]
    split
    · simp [List.map_append]
    · simp only [List.map_cons, addToGroups_map j k inp rest]

theorem groupPairs_map (j : Nat) (ps : List (List Value × List Value)) :
    groupPairs (ps.map fun p => (p.1, p.2.eraseIdx j)) =
      (groupPairs ps).map fun g => (g.1, g.2.map fun x => x.eraseIdx j) := by
  unfold groupPairs
  have key : ∀ (ps : List (List Value × List Value)) (acc : List (List Value × List (List Value))),
      List.foldl (fun g p => addToGroups p.1 p.2 g) (acc.map fun g => (g.1, g.2.map fun x => x.eraseIdx j))
        (ps.map fun p => (p.1, p.2.eraseIdx j)) =
      (List.foldl (fun g p => addToGroups p.1 p.2 g) acc ps).map fun g => (g.1, g.2.map fun x => x.eraseIdx j) := by
    intro ps
    induction ps with
    | nil => intro acc; rfl
    | cons p ps ih =>
      intro acc
      simp only [List.map_cons, List.foldl_cons]
      rw [addToGroups_map j p.1 p.2 acc]
      exact ih _
  exact key ps []

theorem addToGroups_keys {P : List Value → Prop} {k inp : List Value} (hk : P k) :
    ∀ {gs : List (List Value × List (List Value))}, (∀ g ∈ gs, P g.1) → ∀ g ∈ addToGroups k inp gs, P g.1
  | [], _, g, hg => by
    simp only [addToGroups, List.mem_singleton] at hg
    subst hg
    exact hk
  | (k', ins) :: rest, h, g, hg => by
    simp only [addToGroups] at hg
    split at hg
    · rcases List.mem_cons.mp hg with rfl | hg
      · exact h (k', ins) (by simp)
      · exact h g (by simp [hg])
    · rcases List.mem_cons.mp hg with rfl | hg
      · exact h (k', ins) (by simp)
      · exact addToGroups_keys hk (fun x hx => h x (by simp [hx])) g hg

theorem groupPairs_keys {P : List Value → Prop} {ps : List (List Value × List Value)} (h : ∀ p ∈ ps, P p.1) :
    ∀ g ∈ groupPairs ps, P g.1 := by
  unfold groupPairs
  have key : ∀ (ps : List (List Value × List Value)) (acc : List (List Value × List (List Value))),
      (∀ p ∈ ps, P p.1) → (∀ g ∈ acc, P g.1) →
      ∀ g ∈ List.foldl (fun g p => addToGroups p.1 p.2 g) acc ps, P g.1 := by
    intro ps
    induction ps with
    | nil => intro acc _ ha; exact ha
    | cons p ps ih =>
      intro acc hp ha
      simp only [List.foldl_cons]
      exact ih _ (fun x hx => hp x (by simp [hx])) (addToGroups_keys (hp p (by simp)) ha)
  exact key ps [] h (by simp)

theorem head?_eraseIdx_succ (j : Nat) : ∀ (row : List Value), (row.eraseIdx (j + 1)).head? = row.head?
  | [] => rfl
  | _ :: _ => rfl

theorem tail_eraseIdx_succ (j : Nat) : ∀ (row : List Value), (row.eraseIdx (j + 1)).tail = row.tail.eraseIdx j
  | [] => by simp
  | _ :: _ => rfl

theorem aggCols_eraseIdx : ∀ {aggs : List String} {inputs : List (List Value)} {vs : List Value} (j : Nat),
    aggCols aggs inputs = some vs →
    aggCols (aggs.eraseIdx j) (inputs.map fun x => x.eraseIdx j) = some (vs.eraseIdx j)
  | [], inputs, vs, j, h => by
    simp only [aggCols, Option.some.injEq] at h
    subst h
    simp [aggCols]
  | a :: as, inputs, vs, j, h => by
    simp only [aggCols] at h
    cases h1 : aggOne a (inputs.filterMap List.head?) with
    | none => simp [h1] at h
    | some v =>
      cases h2 : aggCols as (inputs.map List.tail) with
      | none => simp [h1, h2] at h
      | some vs' =>
        simp only [h1, h2, Option.some.injEq] at h
        subst h
        cases j with
        | zero =>
          simp only [List.eraseIdx_cons_zero]
          have : (inputs.map fun x => x.eraseIdx 0) = inputs.map List.tail := by
            apply List.map_congr_left
            intro x _
            cases x <;> rfl
          rw [this]
          exact h2
        | succ j =>
          simp only [List.eraseIdx_cons_succ, aggCols]
          have hh : (inputs.map fun x => x.eraseIdx (j + 1)).filterMap List.head? = inputs.filterMap List.head? := by
            rw [List.filterMap_map]
            congr 1
            funext x
            exact head?_eraseIdx_succ j x
          have ht : (inputs.map fun x => x.eraseIdx (j + 1)).map List.tail = (inputs.map List.tail).map fun x => x.eraseIdx j := by
            rw [List.map_map, List.map_map]
            apply List.map_congr_left
            intro x _
            exact tail_eraseIdx_succ j x
          rw [hh, ht, h1, aggCols_eraseIdx j h2]

theorem aggCols_length : ∀ {aggs : List String} {inputs : List (List Value)} {vs : List Value},
    aggCols aggs inputs = some vs → vs.length = aggs.length
  | [], _, vs, h => by
    simp only [aggCols, Option.some.injEq] at h
    subst h
    rfl
  | a :: as, inputs, vs, h => by
    simp only [aggCols] at h
    cases h1 : aggOne a (inputs.filterMap List.head?) with
    | none => simp [h1] at h
    | some v =>
      cases h2 : aggCols as (inputs.map List.tail) with
      | none => simp [h1, h2] at h
      | some vs' =>
        simp only [h1, h2, Option.some.injEq] at h
        subst h
        simp [aggCols_length h2]

/-- the group-by node loses the aggregate of the (unique) field `f`, which sits `j` places after the key -/
theorem groupOut_dropAgg {f : String} {fs aggs : List String} {keyLen j : Nat}
    (hnd : fs.Nodup) (hi : fs[keyLen + j]? = some f) :
    ∀ {gs : List (List Value × List (List Value))} {out : List Row}, (∀ g ∈ gs, g.1.length = keyLen) →
    groupOut fs aggs gs = some out →
    groupOut (fs.eraseIdx (keyLen + j)) (aggs.eraseIdx j) (gs.map fun g => (g.1, g.2.map fun x => x.eraseIdx j)) =
      some (out.map (eraseKey f))
  | [], out, _, h => by
    simp only [groupOut, Option.some.injEq] at h
    subst h
    rfl
  | (k, inputs) :: rest, out, hk, h => by
    simp only [groupOut] at h
    cases ha : aggCols aggs inputs with
    | none => simp [ha] at h
    | some avs =>
      cases hg : groupOut fs aggs rest with
      | none => simp [ha, hg] at h
      | some out' =>
        cases hz : zipNames fs (k ++ avs) with
        | none => simp [ha, hg, hz] at h
        | some row =>
          simp only [ha, hg, hz, Option.some.injEq] at h
          subst h
          have hkl : k.length = keyLen := hk (k, inputs) (by simp)
          have hz' := zipNames_eraseIdx f (keyLen + j) hnd hi hz
          have he : (k ++ avs).eraseIdx (keyLen + j) = k ++ avs.eraseIdx j := by
            rw [← hkl, List.eraseIdx_append_of_length_le (Nat.le_add_right _ _)]
            simp
          rw [he] at hz'
          simp only [List.map_cons, groupOut, aggCols_eraseIdx j ha, hz',
            groupOut_dropAgg hnd hi (fun g hg' => hk g (by simp [hg'])) hg]

theorem groupByRows_dropAgg {f : String} {ctx : Ctx} {fs aggs : List String} {aggExprs key : List PExpr} {j : Nat}
    {rows out : List Row} (hnd : fs.Nodup) (hi : fs[key.length + j]? = some f)
    (h : groupByRows ctx fs aggs aggExprs key rows = some out) :
    groupByRows ctx (fs.eraseIdx (key.length + j)) (aggs.eraseIdx j) (aggExprs.eraseIdx j) key rows =
      some (out.map (eraseKey f)) := by
  unfold groupByRows at h ⊢
  cases hk : keyInputs ctx key aggExprs rows with
  | none => simp [hk] at h
  | some pairs =>
    simp only [hk] at h
    simp only [keyInputs_dropAgg j hk, groupPairs_map]
    exact groupOut_dropAgg hnd hi (groupPairs_keys (P := fun k => k.length = key.length) (keyInputs_keyLen hk)) h

/-! ### one more (unused) binding at the outer end of the record chain changes nothing -/

theorem lookupVar_snoc_other {x f : String} (hx : x ≠ f) (v : Value) : ∀ (c : Ctx),
    lookupVar x (c ++ [[(f, v)]]) = lookupVar x c
  | [] => by
    have : (f == x) = false := by
      simp only [beq_eq_false_iff_ne, ne_eq]
      exact fun e => hx e.symm
    simp [lookupVar, lookupRow, this]
  | r :: c => by
    simp only [List.cons_append, lookupVar, lookupVar_snoc_other hx v c]

theorem lookupVar_snoc_self (f : String) (v : Value) : ∀ (c : Ctx), (lookupVar f (c ++ [[(f, v)]])).isSome = true
  | [] => by simp [lookupVar, lookupRow]
  | r :: c => by
    simp only [List.cons_append, lookupVar]
    cases lookupRow f r with
    | none => exact lookupVar_snoc_self f v c
    | some _ => rfl

theorem evalArgs_snoc {f : String} {es : List PExpr} (hf : f ∉ varsUsedL es) (v : Value) (c : Ctx) :
    evalArgs (c ++ [[(f, v)]]) es = evalArgs c es := by
  unfold evalArgs
  congr 1
  apply evalL_congr
  intro x hx
  exact lookupVar_snoc_other (fun (e : x = f) => hf (e ▸ hx)) v c

theorem keyInputs_snoc {f : String} {key aggExprs : List PExpr} (hk : f ∉ varsUsedL key) (ha : f ∉ varsUsedL aggExprs)
    (v : Value) (ctx : Ctx) : ∀ (rows : List Row),
    keyInputs (ctx ++ [[(f, v)]]) key aggExprs rows = keyInputs ctx key aggExprs rows
  | [] => rfl
  | r :: rs => by
    have h1 := evalArgs_snoc hk v (r :: ctx)
    have h2 := evalArgs_snoc ha v (r :: ctx)
    simp only [List.cons_append] at h1 h2
    simp only [keyInputs, h1, h2, keyInputs_snoc hk ha v ctx rs]

theorem binds_snoc_erase {f : String} {fs outer : List String} {c : Ctx} (v : Value)
    (h : Binds (eraseField f fs ++ outer) c) : Binds (fs ++ outer) (c ++ [[(f, v)]]) := by
  intro x hx
  by_cases hxf : x = f
  · subst hxf
    exact lookupVar_snoc_self x v c
  · rw [lookupVar_snoc_other hxf]
    apply h
    simp only [List.mem_append] at hx ⊢
    rcases hx with hx | hx
    · exact Or.inl (mem_eraseField.mpr ⟨hx, hxf⟩)
    · exact Or.inr hx

theorem groupOut_names {fs aggs : List String} : ∀ {gs : List (List Value × List (List Value))} {out : List Row},
    groupOut fs aggs gs = some out → ∀ r ∈ out, Row.names r = fs
  | [], out, h => by
    simp only [groupOut, Option.some.injEq] at h
    subst h
    simp
  | (k, inputs) :: rest, out, h => by
    simp only [groupOut] at h
    cases ha : aggCols aggs inputs with
    | none => simp [ha] at h
    | some avs =>
      cases hg : groupOut fs aggs rest with
      | none => simp [ha, hg] at h
      | some out' =>
        cases hz : zipNames fs (k ++ avs) with
        | none => simp [ha, hg, hz] at h
        | some row =>
          simp only [ha, hg, hz, Option.some.injEq] at h
          subst h
          intro x hx
          rcases List.mem_cons.mp hx with rfl | hx
          · exact zipNames_names hz
          · exact groupOut_names hg x hx

theorem replaceField_erase {f g : String} (hgf : g ≠ f) (v : Value) : ∀ (r : Row),
    replaceField g v (eraseKey f r) = eraseKey f (replaceField g v r)
  | [] => rfl
  | (k, x) :: r => by
    by_cases hk : k = f
    · subst hk
      have hkg : (k == g) = false := by
        simp only [beq_eq_false_iff_ne, ne_eq]
        exact fun e => hgf e.symm
      simp only [eraseKey, List.filter_cons, bne_self_eq_false, Bool.false_eq_true, if_false, replaceField, hkg]
      exact replaceField_erase hgf v r
    · have hkf : (k != f) = true := by simpa using hk
      simp only [eraseKey, List.filter_cons, hkf, if_true, replaceField]
      by_cases hkg : (k == g) = true
      · simp only [hkg, if_true, List.filter_cons, hkf]
      · simp only [hkg, Bool.false_eq_true, if_false, List.filter_cons, hkf, if_true]
        congr 1
        exact replaceField_erase hgf v r

theorem replaceField_names (g : String) (v : Value) : ∀ (r : Row), Row.names (replaceField g v r) = Row.names r
  | [] => rfl
  | (k, x) :: r => by
    simp only [replaceField]
    split
    · rfl
    · have ih := replaceField_names g v r
      simp only [Row.names, List.map_cons] at ih ⊢
      rw [ih]

theorem unnestRows_erase {f g : String} (hgf : g ≠ f) : ∀ (rows : List Row),
    unnestRows g (rows.map (eraseKey f)) = (unnestRows g rows).map (List.map (eraseKey f))
  | [] => rfl
  | r :: rs => by
    simp only [List.map_cons, unnestRows, lookupRow_eraseKey hgf, unnestRows_erase hgf rs]
    cases lookupRow g r with
    | none => rfl
    | some v =>
      cases unnestRows g rs with
      | none => rfl
      | some out =>
        simp only [Option.map_some, List.map_append, List.map_map]
        congr 2
        apply List.map_congr_left
        intro e _
        exact replaceField_erase hgf e r

theorem unnestRows_names {g : String} {fs : List String} : ∀ {rows out : List Row},
    (∀ r ∈ rows, Row.names r = fs) → unnestRows g rows = some out → ∀ r ∈ out, Row.names r = fs
  | [], out, _, h => by
    simp only [unnestRows, Option.some.injEq] at h
    subst h
    simp
  | r :: rs, out, hn, h => by
    simp only [unnestRows] at h
    cases hl : lookupRow g r with
    | none => simp [hl] at h
    | some v =>
      cases hu : unnestRows g rs with
      | none => simp [hl, hu] at h
      | some rest =>
        simp only [hl, hu, Option.some.injEq] at h
        subst h
        intro x hx
        rcases List.mem_append.mp hx with hx | hx
        · simp only [List.mem_map] at hx
          obtain ⟨e, _, rfl⟩ := hx
          rw [replaceField_names]
          exact hn r (by simp)
        · exact unnestRows_names (fun y hy => hn y (by simp [hy])) hu x hx

theorem keysOk_erase {f : String} {ks : List PExpr} (hf : f ∉ varsUsedL ks) (ctx : Ctx) (rows : List Row) :
    keysOk ctx ks (rows.map (eraseKey f)) = keysOk ctx ks rows := by
  simp only [keysOk, List.all_map]
  apply List.all_congr rfl
  intro r
  simp only [Function.comp, evalArgs_eraseKey hf]

theorem keyMatch_erase {f : String} {lk rk : List PExpr} (hl : f ∉ varsUsedL lk) (hr : f ∉ varsUsedL rk)
    (ctx : Ctx) (l r : Row) : keyMatch ctx lk rk (eraseKey f l) (eraseKey f r) = keyMatch ctx lk rk l r := by
  simp only [keyMatch, evalArgs_eraseKey hl, evalArgs_eraseKey hr]

theorem joinRows_erase {f : String} {lk rk : List PExpr} (hl : f ∉ varsUsedL lk) (hr : f ∉ varsUsedL rk)
    (ctx : Ctx) (ls rs : List Row) :
    joinRows ctx lk rk (ls.map (eraseKey f)) (rs.map (eraseKey f)) =
      (joinRows ctx lk rk ls rs).map (List.map (eraseKey f)) := by
  simp only [joinRows, keysOk_erase hl, keysOk_erase hr]
  split
  · simp only [Option.map_some, List.map_flatMap, List.flatMap_map]
    congr 1
    apply flatMap_congr''
    intro l _
    simp only [List.filter_map, List.map_map]
    congr 1
    · funext r
      simp [Function.comp, eraseKey_append]
    · apply List.filter_congr
      intro r _
      simp [Function.comp, keyMatch_erase hl hr]
  · rfl
where
  flatMap_congr'' {α β : Type} {f g : α → List β} : ∀ {l : List α}, (∀ x ∈ l, f x = g x) → l.flatMap f = l.flatMap g
    | [], _ => rfl
    | x :: l, h => by
      rw [List.flatMap_cons, List.flatMap_cons, h x (by simp), flatMap_congr'' (l := l) (fun y hy => h y (by simp [hy]))]

theorem tableRow_erase {f : String} {mapping : List (String × String)} {tr : Row} : ∀ {fields : List String} {r : Row},
    tableRow mapping tr fields = some r → tableRow mapping tr (eraseField f fields) = some (eraseKey f r)
  | [], r, h => by
    simp only [tableRow, Option.some.injEq] at h
    subst h
    rfl
  | u :: us, r, h => by
    simp only [tableRow] at h
    cases hm : mapping.lookup u with
    | none => simp [hm] at h
    | some col =>
      simp only [hm] at h
      cases hv : lookupRow col tr with
      | none => simp [hv] at h
      | some v =>
        cases hr : tableRow mapping tr us with
        | none => simp [hv, hr] at h
        | some rest =>
          simp only [hv, hr, Option.some.injEq] at h
          subst h
          have ih := tableRow_erase (f := f) hr
          simp only [eraseField, eraseKey, List.filter_cons] at ih ⊢
          by_cases huf : u = f
          · subst huf
            simp only [bne_self_eq_false, Bool.false_eq_true, if_false]
            exact ih
          · have : (u != f) = true := by simpa using huf
            simp only [this, if_true, tableRow, hm, hv, ih]

theorem tableRows_erase {f : String} {mapping : List (String × String)} {fields : List String} : ∀ {trs rows : List Row},
    tableRows mapping fields trs = some rows →
    tableRows mapping (eraseField f fields) trs = some (rows.map (eraseKey f))
  | [], rows, h => by
    simp only [tableRows, Option.some.injEq] at h
    subst h
    rfl
  | tr :: trs, rows, h => by
    simp only [tableRows] at h
    cases h1 : tableRow mapping tr fields with
    | none => simp [h1] at h
    | some r =>
      cases h2 : tableRows mapping fields trs with
      | none => simp [h1, h2] at h
      | some rest =>
        simp only [h1, h2, Option.some.injEq] at h
        subst h
        simp only [tableRows, tableRow_erase (f := f) h1, tableRows_erase (f := f) h2, List.map_cons]

theorem andAll_erase {f : String} {preds : List PExpr} (hf : f ∉ varsUsedL preds) (ctx : Ctx) (rows : List Row) :
    andAll ctx preds (rows.map (eraseKey f)) = (andAll ctx preds rows).map (List.map (eraseKey f)) := by
  cases preds with
  | nil => rfl
  | cons p ps =>
    simp only [andAll]
    exact filterRows_erase (by simpa [varsUsed] using hf) ctx rows

theorem nullRow_erase (f : String) (fs : List String) : eraseKey f (nullRow fs) = nullRow (eraseField f fs) := by
  induction fs with
  | nil => rfl
  | cons x fs ih =>
    simp only [nullRow, List.map_cons, eraseKey, eraseField, List.filter_cons] at ih ⊢
    cases (x != f) <;> simp [ih]

theorem nullRow_names (fs : List String) : Row.names (nullRow fs) = fs := by
  induction fs with
  | nil => rfl
  | cons x fs ih =>
    simp only [nullRow, Row.names, List.map_cons] at ih ⊢
    rw [ih]

theorem outerJoinRows_erase {f : String} {lk rk : List PExpr} (hl : f ∉ varsUsedL lk) (hr : f ∉ varsUsedL rk)
    (ctx : Ctx) (il ir : Bool) (lf rf : List String) (ls rs : List Row) :
    outerJoinRows ctx il ir (eraseField f lf) (eraseField f rf) lk rk (ls.map (eraseKey f)) (rs.map (eraseKey f)) =
      (outerJoinRows ctx il ir lf rf lk rk ls rs).map (List.map (eraseKey f)) := by
  simp only [outerJoinRows, keysOk_erase hl, keysOk_erase hr]
  split
  · simp only [Option.map_some, List.map_append]
    have hm : ∀ l r, keyMatch ctx lk rk (eraseKey f l) (eraseKey f r) = keyMatch ctx lk rk l r :=
      fun l r => keyMatch_erase hl hr ctx l r
    congr 1
    congr 1
    · congr 1
      · -- the inner part
        rw [List.map_flatMap, List.flatMap_map]
        apply joinRows_erase.flatMap_congr''
        intro l _
        simp only [List.filter_map, List.map_map]
        congr 1
        · funext r
          simp [Function.comp, eraseKey_append]
        · apply List.filter_congr
          intro r _
          simp [Function.comp, hm]
      · -- unmatched left records
        cases il with
        | false => rfl
        | true =>
          simp only [if_true, List.filter_map, List.map_map]
          congr 1
          · funext l
            simp [Function.comp, eraseKey_append, nullRow_erase]
          · apply List.filter_congr
            intro l _
            simp only [Function.comp, List.any_map]
            congr 2
            funext r
            exact hm l r
    · -- unmatched right records
      cases ir with
      | false => rfl
      | true =>
        simp only [if_true, List.filter_map, List.map_map]
        congr 1
        · funext r
          simp [Function.comp, eraseKey_append, nullRow_erase]
        · apply List.filter_congr
          intro r _
          simp only [Function.comp, List.any_map]
          congr 2
          funext l
          exact hm l r
  · rfl

theorem outerJoinRows_names {lf rf : List String} {ctx : Ctx} {il ir : Bool} {lk rk : List PExpr} {ls rs out : List Row}
    (hl : ∀ r ∈ ls, Row.names r = lf) (hr : ∀ r ∈ rs, Row.names r = rf)
    (h : outerJoinRows ctx il ir lf rf lk rk ls rs = some out) : ∀ x ∈ out, Row.names x = lf ++ rf := by
  simp only [outerJoinRows] at h
  split at h
  · simp only [Option.some.injEq] at h
    subst h
    intro x hx
    simp only [List.mem_append] at hx
    rcases hx with (hx | hx) | hx
    · exact names_of_join hl hr x hx
    · cases il with
      | false => simp at hx
      | true =>
        simp only [if_true, List.mem_map, List.mem_filter] at hx
        obtain ⟨l, ⟨hl', _⟩, rfl⟩ := hx
        rw [names_append, hl l hl', nullRow_names]
    · cases ir with
      | false => simp at hx
      | true =>
        simp only [if_true, List.mem_map, List.mem_filter] at hx
        obtain ⟨r, ⟨hr', _⟩, rfl⟩ := hx
        rw [names_append, hr r hr', nullRow_names]
  · cases h

/-- the check of the declared schema commutes with the erasure, when the records had the declared names -/
theorem checked_erase {f : String} {s s' : Schema} (hs : s'.fields = eraseField f s.fields) {o : Option (List Row)}
    (hn : ∀ out, o = some out → ∀ r ∈ out, Row.names r = s.fields) :
    checked s' (o.map (List.map (eraseKey f))) = (checked s o).map (List.map (eraseKey f)) := by
  cases o with
  | none => rfl
  | some out =>
    simp only [Option.map_some]
    rw [checked_pass (hn out rfl), checked_pass]
    · rfl
    · intro r hr
      simp only [List.mem_map] at hr
      obtain ⟨r0, hr0, rfl⟩ := hr
      rw [names_eraseKey, hn out rfl r0 hr0, hs]

end Octo.Plan
