import Octo.Lemmas.TySumWf
import Octo.Lemmas.TyTypeOf
/-! The types reported by `Value.Type` are well formed — except that a struct value with two or more fields is
    reported with the field name `""` repeated (struct values carry no names). -/
namespace Octo
open Ty

mutual
/-- every struct value inside has at most one field -/
def Value.narrowStructs : Value → Bool
  | .list xs => Value.narrowStructsList xs
  | .struct xs => decide (xs.length ≤ 1) && Value.narrowStructsList xs
  | .tuple xs => Value.narrowStructsList xs
  | _ => true
def Value.narrowStructsList : List Value → Bool
  | [] => true
  | x :: xs => Value.narrowStructs x && Value.narrowStructsList xs
end

theorem wfFor_typeSum : WfFor typeSum := fun a b c hc => wfFor_F (sumFuel a b) a b c hc

theorem typeOfMany_wf : ∀ (xs : List Value) (ts : List Ty),
    (∀ x ∈ xs, x.narrowStructs = true → ∀ t, x.typeOf = some t → wf t = true) →
    Value.narrowStructsList xs = true → Value.typeOfMany xs = some ts →
    ts.length = xs.length ∧ ∀ t ∈ ts, wf t = true
  | [], ts, _, _, h => by simp only [Value.typeOfMany, Option.some.injEq] at h; subst h; simp
  | x :: xs, ts, ih, hn, h => by
    simp only [Value.typeOfMany] at h
    simp only [Value.narrowStructsList, Bool.and_eq_true] at hn
    cases hx : x.typeOf with
    | none => simp [hx] at h
    | some t =>
      cases hxs : Value.typeOfMany xs with
      | none => simp [hx, hxs] at h
      | some ts' =>
        simp only [hx, hxs, Option.some.injEq] at h
        subst h
        have h1 := ih x (by simp) hn.1 t hx
        have ⟨l, h2⟩ := typeOfMany_wf xs ts' (fun y hy => ih y (by simp [hy])) hn.2 hxs
        refine ⟨by simp [l], ?_⟩
        intro t' ht'
        cases ht' with
        | head => exact h1
        | tail _ ht' => exact h2 t' ht'

theorem typeOf_wf_aux : ∀ (n : Nat) (v : Value), v.size ≤ n → v.narrowStructs = true →
    ∀ t, v.typeOf = some t → wf t = true := by
  intro n
  induction n with
  | zero => intro v h; cases v <;> simp [Value.size] at h
  | succ n ih =>
    intro v hn hv t ht
    have sub : ∀ xs : List Value, Value.sizeList xs ≤ n → ∀ x ∈ xs, x.narrowStructs = true → ∀ t, x.typeOf = some t → wf t = true :=
      fun xs hs x hx => ih x (by have := Value.size_le_sizeList hx; omega)
    cases v with
    | list xs =>
      simp only [Value.typeOf] at ht
      simp only [Value.narrowStructs] at hv
      cases hm : Value.typeOfMany xs with
      | none => simp [hm] at ht
      | some ts =>
        simp only [hm] at ht
        have ⟨_, h2⟩ := typeOfMany_wf xs ts (sub xs (by simp only [Value.size] at hn; omega)) hv hm
        cases ts with
        | nil => simp only [elemFold, Option.some.injEq] at ht; subst ht; simp [wf]
        | cons t0 ts =>
          simp only [elemFold, Option.map_eq_some_iff] at ht
          obtain ⟨e, he, rfl⟩ := ht
          simp only [wf]
          exact foldl_wf wfFor_typeSum ts t0 e he (h2 t0 (by simp)) (fun a ha => h2 a (by simp [ha]))
    | struct xs =>
      simp only [Value.typeOf, Option.map_eq_some_iff] at ht
      simp only [Value.narrowStructs, Bool.and_eq_true, decide_eq_true_eq] at hv
      obtain ⟨ts, hm, rfl⟩ := ht
      have ⟨l, h2⟩ := typeOfMany_wf xs ts (sub xs (by simp only [Value.size] at hn; omega)) hv.2 hm
      rw [wf_struct]
      refine ⟨?_, by simp, (wfList_iff _).mpr h2⟩
      have : ts.length ≤ 1 := by omega
      match ts, this with
      | [], _ => rfl
      | [_], _ => rfl
    | tuple xs =>
      simp only [Value.typeOf, Option.map_eq_some_iff] at ht
      simp only [Value.narrowStructs] at hv
      obtain ⟨ts, hm, rfl⟩ := ht
      have ⟨_, h2⟩ := typeOfMany_wf xs ts (sub xs (by simp only [Value.size] at hn; omega)) hv hm
      simp only [wf]
      exact (wfList_iff _).mpr h2
    | _ => simp only [Value.typeOf, Option.some.injEq] at ht; subst ht; simp [wf]

end Octo
