import Octo.Lemmas.CmpLaws
/-! `cmp a b = 0 → hash a = hash b` for values of any depth. -/
namespace Octo
open Value
variable {cf : Nat → Nat → Int} {fb : Nat → Nat}

def FloatHashOk (cf : Nat → Nat → Int) (fb : Nat → Nat) : Prop :=
  ∀ a b, a < 2^64 → b < 2^64 → cf a b = 0 → fb a = fb b

theorem cmpWith_zero_rank (a b : Value) (h : cmpWith cf a b = 0) : a.rank = b.rank := by
  cases a <;> cases b <;> simp [cmpWith, rank] at * <;> (split at h <;> omega)

theorem hashListWith_congr_of (deep : Bool) (n : Nat)
    (ih : ∀ x y : Value, x.size + y.size < n → x.wf = true → y.wf = true → cmpWith cf x y = 0 →
      ∀ h, hashWith fb deep h x = hashWith fb deep h y) :
    ∀ xs ys, Value.sizeList xs + Value.sizeList ys < n → Value.wfList xs = true → Value.wfList ys = true →
      cmpListWith cf xs ys = 0 → ∀ h, hashListWith fb deep h xs = hashListWith fb deep h ys
  | [], [], _, _, _, _, _ => rfl
  | [], _ :: _, _, _, _, hc, _ => by simp [cmpListWith] at hc
  | _ :: _, [], _, _, _, hc, _ => by simp [cmpListWith] at hc
  | x :: xs, y :: ys, hs, wx, wy, hc, h => by
    simp only [Value.sizeList] at hs
    simp only [Value.wfList, Bool.and_eq_true] at wx wy
    simp only [cmpListWith, bne_iff_ne, ne_eq, ite_not] at hc
    split at hc
    · rename_i h0
      simp only [hashListWith]
      rw [ih x y (by omega) wx.1 wy.1 h0 h]
      exact hashListWith_congr_of deep n ih xs ys (by omega) wx.2 wy.2 hc _
    · contradiction

theorem hashWith_congr_aux (H : FloatHashOk cf fb) (deep : Bool) : ∀ n, ∀ a b : Value, a.size + b.size < n →
    a.wf = true → b.wf = true → cmpWith cf a b = 0 → ∀ h, hashWith fb deep h a = hashWith fb deep h b := by
  intro n
  induction n with
  | zero => intro a b h; omega
  | succ n ih =>
    intro a b hs wa wb hc h
    have hl := hashListWith_congr_of (cf := cf) (fb := fb) deep n ih
    have hr : a.rank = b.rank := cmpWith_zero_rank a b hc
    cases a <;> cases b <;> simp only [rank] at hr <;> (try omega) <;>
      simp only [cmpWith, Value.size] at hc hs
    · rfl
    · simp only [hashWith]; rw [(cmpInt_eq_iff _ _).mp hc]
    · simp only [hashWith]; rw [H _ _ (by simpa [Value.wf] using wa) (by simpa [Value.wf] using wb) hc]
    · rename_i x y; cases x <;> cases y <;> simp at hc <;> rfl
    · simp only [hashWith]; rw [(cmpBytes_eq_iff _ _).mp hc]
    · simp only [hashWith]; rw [(cmpInt_eq_iff _ _).mp hc]
    · simp only [hashWith]; rw [(cmpInt_eq_iff _ _).mp hc]
    · simp only [hashWith]; exact hl _ _ (by omega) wa wb hc h
    · simp only [hashWith]; cases deep <;> simp
      exact hl _ _ (by omega) wa wb hc h
    · simp only [hashWith]; cases deep <;> simp
      exact hl _ _ (by omega) wa wb hc h

theorem hashWith_congr (H : FloatHashOk cf fb) (deep : Bool) (a b : Value)
    (wa : a.wf = true) (wb : b.wf = true) (hc : cmpWith cf a b = 0) (h : UInt64) :
    hashWith fb deep h a = hashWith fb deep h b :=
  hashWith_congr_aux H deep _ a b (Nat.lt_succ_self _) wa wb hc h

theorem floatHashOk_fixed : FloatHashOk cmpFloatFixed hashBitsFixed :=
  fun a b ha hb h => hashBitsFixed_congr a b ha hb h

end Octo
