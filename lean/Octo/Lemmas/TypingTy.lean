import Octo.Model.Typing
import Octo.Lemmas.TyTypeOf
import Octo.Lemmas.TyNonNull
import Octo.Lemmas.TyInter
import Octo.Lemmas.TyRecFree
import Octo.Lemmas.TyTypeOfWf
import Octo.Lemmas.TyTotal
/-!
  Octo.Lemmas.TypingTy — facts about the type algebra that the typing rules of `Octo.Model.Typing` rely on:
  NULL admission, `TypeSum(t, Null)`, `NonNullable`, and the completeness of `TypeIntersection` for run-time assertions.
-/
namespace Octo.Tc
open Octo Octo.Ty

theorem conforms_null_null : conforms .null .null = true := by simp [conforms]

theorem conforms_null_iff_eq (v : Value) : conforms .null v = true ↔ v = .null := by
  cases v <;> simp [conforms]

/-- a type that `Null.Is` admits NULL as a value -/
theorem conforms_null_of_admits {t : Ty} (h : admitsNull t = true) : conforms t .null = true := by
  simp only [admitsNull, beq_iff_eq] at h
  exact Ty.is_sound h .null conforms_null_null

theorem id0_eq_null {a : Ty} (h : a.id = 0) : a = .null := by
  cases a <;> simp [Ty.id] at h; rfl

/-- … and conversely for well-formed types -/
theorem admits_of_conforms_null {t : Ty} (w : wf t = true) (h : conforms t .null = true) : admitsNull t = true := by
  simp only [admitsNull, beq_iff_eq]
  by_cases hu : t.isUnion = true
  · obtain ⟨alts, rfl⟩ := eq_union_of_isUnion hu
    rw [wf_union] at w
    have hp := (altsPlain_iff _).mp w.1
    simp only [conforms] at h
    obtain ⟨a, ha, hv⟩ := (conformsAny_iff alts .null).mp h
    have := (conforms_null_iff (hp a ha).1 (hp a ha).2).mp hv
    have := id0_eq_null this
    subst this
    exact is_union_of_mem ha
  · by_cases ha : t.isAny = true
    · have := eq_any_of_isAny ha; subst this; decide
    · have := (conforms_null_iff (by simpa using hu) (by simpa using ha)).mp h
      have := id0_eq_null this
      subst this; decide



theorem conforms_union_iff (alts : List Ty) (v : Value) :
    conforms (.union alts) v = true ↔ ∃ a ∈ alts, conforms a v = true := by
  simp only [conforms]; exact conformsAny_iff alts v

/-- `TypeSum(t, Null)` describes exactly the values of `t` and NULL (every `t`, every fuel) -/
theorem sumNull_char (n : Nat) (t c : Ty) (h : typeSumF (n + 1) t .null = some c) (v : Value) :
    conforms c v = true ↔ (conforms t v = true ∨ v = .null) := by
  rw [typeSumF] at h
  unfold typeSumStep at h
  by_cases h1 : t.is .null = .is
  · rw [if_pos h1] at h; cases h
    rw [conforms_null_iff_eq]
    constructor
    · intro hv; exact Or.inr hv
    · rintro (hv | hv)
      · exact (conforms_null_iff_eq v).mp (Ty.is_sound h1 v hv)
      · exact hv
  rw [if_neg h1] at h
  by_cases h2 : Ty.null.is t = .is
  · rw [if_pos h2] at h; cases h
    constructor
    · intro hv; exact Or.inl hv
    · rintro (hv | hv)
      · exact hv
      · subst hv; exact Ty.is_sound h2 .null (by simp [conforms])
  rw [if_neg h2] at h
  have generic : ∀ l : List Ty, (∀ x, x ∈ l ↔ (x = t ∨ x = .null)) →
      (conforms (.union l) v = true ↔ (conforms t v = true ∨ v = .null)) := by
    intro l hl
    rw [conforms_union_iff]
    constructor
    · rintro ⟨a, ha, hv⟩
      rcases (hl a).mp ha with rfl | rfl
      · exact Or.inl hv
      · exact Or.inr ((conforms_null_iff_eq v).mp hv)
    · rintro (hv | hv)
      · exact ⟨t, (hl t).mpr (Or.inl rfl), hv⟩
      · exact ⟨.null, (hl _).mpr (Or.inr rfl), (conforms_null_iff_eq v).mpr hv⟩
  split at h
  all_goals try contradiction
  all_goals first
    | (cases h; apply generic; intro x; rw [mem_sortById]; simp; done)
    | skip
  · rename_i alts
    split at h
    · rename_i hany
      obtain ⟨a, ha, hid⟩ := List.any_eq_true.mp hany
      have hid : a.id = 0 := by simp only [decide_eq_true_eq] at hid; exact hid
      have := id0_eq_null hid; subst this
      exact absurd (is_union_of_mem ha) h2
    · cases h
      rw [conforms_union_iff, conforms_union_iff]
      constructor
      · rintro ⟨a, ha, hv⟩
        rw [mem_sortById, List.mem_append] at ha
        rcases ha with ha | ha
        · exact Or.inl ⟨a, ha, hv⟩
        · simp only [List.mem_singleton] at ha; subst ha
          exact Or.inr ((conforms_null_iff_eq v).mp hv)
      · rintro (⟨a, ha, hv⟩ | hv)
        · exact ⟨a, by rw [mem_sortById, List.mem_append]; exact Or.inl ha, hv⟩
        · exact ⟨.null, by rw [mem_sortById, List.mem_append]; simp, (conforms_null_iff_eq v).mpr hv⟩


/-- `Null.Is(…) / TypeSum(Null, e)`: exactly NULL and the values of `e` -/
theorem nullSum_char (n : Nat) (e c : Ty) (h : typeSumF (n + 2) .null e = some c) (v : Value) :
    conforms c v = true ↔ (v = .null ∨ conforms e v = true) := by
  rw [typeSumF] at h
  unfold typeSumStep at h
  by_cases h1 : Ty.null.is e = .is
  · rw [if_pos h1] at h; cases h
    constructor
    · intro hv; exact Or.inr hv
    · rintro (hv | hv)
      · subst hv; exact Ty.is_sound h1 .null (by simp [conforms])
      · exact hv
  rw [if_neg h1] at h
  by_cases h2 : e.is .null = .is
  · rw [if_pos h2] at h; cases h
    rw [conforms_null_iff_eq]
    constructor
    · intro hv; exact Or.inl hv
    · rintro (hv | hv)
      · exact hv
      · exact (conforms_null_iff_eq v).mp (Ty.is_sound h2 v hv)
  rw [if_neg h2] at h
  split at h
  all_goals try contradiction
  · -- `t1, .union alts2 => self (.union alts2) t1`
    rw [sumNull_char n _ c h v]; exact Or.comm
  · cases h
    rw [conforms_union_iff]
    constructor
    · rintro ⟨a, ha, hv⟩
      rw [mem_sortById] at ha
      simp only [List.mem_cons, List.not_mem_nil, or_false] at ha
      rcases ha with rfl | rfl
      · exact Or.inl ((conforms_null_iff_eq v).mp hv)
      · exact Or.inr hv
    · rintro (hv | hv)
      · exact ⟨.null, by rw [mem_sortById]; simp, (conforms_null_iff_eq v).mpr hv⟩
      · exact ⟨_, by rw [mem_sortById]; simp, hv⟩

theorem sumFuel_ge (a b : Ty) : ∃ n, sumFuel a b = n + 2 := ⟨2 * (a.size + b.size) + 6, by simp [sumFuel]⟩

theorem typeSum_null_char {t c : Ty} (h : typeSum t .null = some c) (v : Value) :
    conforms c v = true ↔ (conforms t v = true ∨ v = .null) := by
  obtain ⟨n, hn⟩ := sumFuel_ge t .null
  rw [typeSum, hn] at h
  exact sumNull_char (n + 1) t c h v

theorem typeSum_null_l_char {e c : Ty} (h : typeSum .null e = some c) (v : Value) :
    conforms c v = true ↔ (v = .null ∨ conforms e v = true) := by
  obtain ⟨n, hn⟩ := sumFuel_ge .null e
  rw [typeSum, hn] at h
  exact nullSum_char n e c h v

theorem typeSum_wf {a b c : Ty} (h : typeSum a b = some c) (wa : wf a = true) (wb : wf b = true) : wf c = true :=
  (wfFor_typeSum a b c h wa wb).1

theorem admits_typeSum_null {t c : Ty} (h : typeSum t .null = some c) (w : wf t = true) : admitsNull c = true :=
  admits_of_conforms_null (typeSum_wf h w (by simp [wf])) ((typeSum_null_char h .null).mpr (Or.inr rfl))

/-! ### NonNullable -/

theorem nonNullable_conforms_of_wf {t : Ty} (w : wf t = true) {v : Value} (hv : conforms t v = true) (hn : v ≠ .null) :
    conforms (nonNullable t) v = true := by
  by_cases hu : t.isUnion = true
  · obtain ⟨alts, rfl⟩ := eq_union_of_isUnion hu
    rw [wf_union] at w
    exact (nonNullable_conforms alts ((altsPlain_iff _).mp w.1) v).mpr ⟨hv, hn⟩
  · rw [nonNullable_of_not_union t (by simpa using hu)]; exact hv

theorem distinctIds_filter (p : Ty → Bool) : ∀ (l : List Ty), distinctIds l = true → distinctIds (l.filter p) = true
  | [], _ => by simp [distinctIds]
  | a :: as, h => by
    rw [distinctIds_cons] at h
    simp only [List.filter]
    split
    · rw [distinctIds_cons]
      exact ⟨fun b hb => h.1 b (List.mem_filter.mp hb).1, distinctIds_filter p as h.2⟩
    · exact distinctIds_filter p as h.2

theorem nonNullable_wf {t : Ty} (w : wf t = true) : wf (nonNullable t) = true := by
  by_cases hu : t.isUnion = true
  · obtain ⟨alts, rfl⟩ := eq_union_of_isUnion hu
    have w' := w
    rw [wf_union] at w
    have hp := (altsPlain_iff _).mp w.1
    have hw := (wfList_iff _).mp w.2.2
    simp only [nonNullable]
    split
    · rename_i x hx
      have : x ∈ alts.filter (fun a => decide (a.id ≠ 0)) := by rw [hx]; simp
      exact hw x (List.mem_filter.mp this).1
    · rw [wf_union]
      refine ⟨(altsPlain_iff _).mpr (fun a ha => hp a (List.mem_filter.mp ha).1), distinctIds_filter _ _ w.2.1,
        (wfList_iff _).mpr (fun a ha => hw a (List.mem_filter.mp ha).1)⟩
  · rw [nonNullable_of_not_union t (by simpa using hu)]; exact w


/-- NULL and the six scalar types -/
def isLeaf (t : Ty) : Bool := decide (t.id ≤ 6)

/-- the targets of run-time assertions: a leaf type or a union of leaf types (`Int`, `NULL | Int`, `NULL | Boolean`, …) -/
def flatTarget : Ty → Bool
  | .union alts => alts.all isLeaf
  | t => isLeaf t

theorem leaf_noRec {t : Ty} (h : isLeaf t = true) : noRec t = true := by
  cases t <;> simp [isLeaf, Ty.id] at h <;> simp [noRec]

theorem leaf_plain {t : Ty} (h : isLeaf t = true) : t.isUnion = false ∧ t.isAny = false := by
  cases t <;> simp [isLeaf, Ty.id] at h <;> simp [isUnion, isAny]

theorem leaf_eq_of_id {p s : Ty} (hs : isLeaf s = true) (h : p.id = s.id) : p = s := by
  cases s <;> simp [isLeaf, Ty.id] at hs <;> cases p <;> simp [Ty.id] at h <;> rfl

theorem rank_of_conforms_plain {a : Ty} {v : Value} (hu : a.isUnion = false) (ha : a.isAny = false)
    (h : conforms a v = true) : v.rank = a.id := by
  cases a <;> simp [isUnion] at hu <;> simp [isAny] at ha <;> cases v <;> simp [conforms] at h <;> rfl

theorem prims_flat {t : Ty} (h : flatTarget t = true) : ∀ p ∈ prims t, isLeaf p = true := by
  cases t <;> simp only [flatTarget] at h
  case union alts =>
    intro p hp
    simp only [prims] at hp
    induction alts with
    | nil => simp [primsList] at hp
    | cons a as ih =>
      simp only [List.all_cons, Bool.and_eq_true] at h
      simp only [primsList, List.mem_append] at hp
      rcases hp with hp | hp
      · have := leaf_plain h.1
        cases a <;> simp [isUnion] at this <;> simp [prims] at hp <;> (subst hp; exact h.1)
      · exact ih h.2 hp
  all_goals (intro p hp; simp [prims] at hp; subst hp; exact h)

/-- something plain that `Is` a flat target is one of its leaves -/
theorem leaf_of_is_flat {p target : Ty} (hp : p.isUnion = false) (ft : flatTarget target = true)
    (h : p.is target = .is) : isLeaf p = true := by
  by_cases hu : target.isUnion = true
  · obtain ⟨alts, rfl⟩ := eq_union_of_isUnion hu
    simp only [flatTarget, List.all_eq_true] at ft
    obtain ⟨t, ht, hpt⟩ := (is_union_r p alts hp).mp h
    have hl := ft t ht
    have ⟨tu, ta⟩ := leaf_plain hl
    rcases is_plain_inv hp tu ta hpt with h' | h' | h' | h' | h'
    · rcases h'.2 with h'' | ⟨_, h''⟩ <;> (subst h''; simp [isLeaf, Ty.id] at hl)
    · obtain ⟨_, _, _, h'', _⟩ := h'; subst h''; simp [isLeaf, Ty.id] at hl
    · obtain ⟨_, _, _, _, _, h'', _⟩ := h'; subst h''; simp [isLeaf, Ty.id] at hl
    · obtain ⟨_, _, _, h'', _⟩ := h'; subst h''; simp [isLeaf, Ty.id] at hl
    · rw [h'.2]; exact hl
  · have hl : isLeaf target = true := by
      cases target <;> simp [isUnion] at hu <;> simpa [flatTarget] using ft
    have ⟨tu, ta⟩ := leaf_plain hl
    rcases is_plain_inv hp tu ta h with h' | h' | h' | h' | h'
    · rcases h'.2 with h'' | ⟨_, h''⟩ <;> (subst h''; simp [isLeaf, Ty.id] at hl)
    · obtain ⟨_, _, _, h'', _⟩ := h'; subst h''; simp [isLeaf, Ty.id] at hl
    · obtain ⟨_, _, _, _, _, h'', _⟩ := h'; subst h''; simp [isLeaf, Ty.id] at hl
    · obtain ⟨_, _, _, h'', _⟩ := h'; subst h''; simp [isLeaf, Ty.id] at hl
    · rw [h'.2]; exact hl

theorem typeSum_upper_noRec {o p s : Ty} (hs : typeSum o p = some s) (no : noRec o = true) (np : noRec p = true) :
    o.is s = .is ∧ p.is s = .is ∧ noRec s = true := by
  have ⟨hok, ns⟩ := recFree_typeSum o p s hs no np
  have ⟨h1, h2⟩ := sum_upper_F (sumFuel o p) o p s hs hok
  exact ⟨h1, h2, ns⟩

/-- one loop of `TypeIntersection` when every selected summand is struct/tuple free: the previous accumulator and every
    selected element are below the result -/
theorem interLoop_upper (target : Ty) :
    ∀ (ps : List Ty) (out res : Option Ty),
      (∀ p ∈ ps, p.is target = .is → noRec p = true) →
      (∀ o, out = some o → noRec o = true) →
      interLoop target out ps = some res →
      (∀ r, res = some r → noRec r = true) ∧
      (∀ o, out = some o → ∃ r, res = some r ∧ o.is r = .is) ∧
      (∀ p ∈ ps, p.is target = .is → ∃ r, res = some r ∧ p.is r = .is)
  | [], out, res, _, ho, h => by
    simp only [interLoop, Option.some.injEq] at h; subst h
    exact ⟨ho, fun o h => ⟨o, h, Ty.is_refl o⟩, fun p hp => by cases hp⟩
  | p :: ps, out, res, hp, ho, h => by
    simp only [interLoop] at h
    have hps : ∀ q ∈ ps, q.is target = .is → noRec q = true := fun q hq => hp q (by simp [hq])
    split at h
    · rename_i hsel
      have np := hp p (by simp) hsel
      cases out with
      | none =>
        simp only at h
        have ⟨r1, r2, r3⟩ := interLoop_upper target ps (some p) res hps (by intro o ho'; cases ho'; exact np) h
        refine ⟨r1, fun o ho' => (by cases ho'), ?_⟩
        intro q hq hqs
        simp only [List.mem_cons] at hq
        rcases hq with rfl | hq
        · exact r2 q rfl
        · exact r3 q hq hqs
      | some o =>
        simp only at h
        cases hs : typeSum o p with
        | none => simp [hs] at h
        | some s =>
          simp only [hs] at h
          have ⟨u1, u2, ns⟩ := typeSum_upper_noRec hs (ho o rfl) np
          have ⟨r1, r2, r3⟩ := interLoop_upper target ps (some s) res hps (by intro o' ho'; cases ho'; exact ns) h
          obtain ⟨r, hr, hsr⟩ := r2 s rfl
          refine ⟨r1, ?_, ?_⟩
          · intro o' ho'; cases ho'; exact ⟨r, hr, Ty.is_trans u1 hsr⟩
          · intro q hq hqs
            simp only [List.mem_cons] at hq
            rcases hq with rfl | hq
            · exact ⟨r, hr, Ty.is_trans u2 hsr⟩
            · exact r3 q hq hqs
    · have ⟨r1, r2, r3⟩ := interLoop_upper target ps out res hps ho h
      refine ⟨r1, r2, ?_⟩
      intro q hq hqs
      simp only [List.mem_cons] at hq
      rcases hq with rfl | hq
      · rename_i hsel; exact absurd hqs hsel
      · exact r3 q hq hqs


/-- the primitive alternatives of a well-formed type that is not `Any` are plain, and a value of the type is a value
    of one of them -/
theorem prims_of_wf {a : Ty} (wa : wf a = true) (ha : a.isAny = false) :
    (∀ p ∈ prims a, p.isUnion = false ∧ p.isAny = false) ∧
    (∀ v, conforms a v = true → ∃ p ∈ prims a, conforms p v = true) := by
  by_cases hu : a.isUnion = true
  · obtain ⟨alts, rfl⟩ := eq_union_of_isUnion hu
    rw [wf_union] at wa
    have hp := (altsPlain_iff _).mp wa.1
    have hprims : ∀ (l : List Ty), (∀ x ∈ l, x.isUnion = false ∧ x.isAny = false) → primsList l = l := by
      intro l
      induction l with
      | nil => intro _; simp [primsList]
      | cons x xs ih =>
        intro h
        have hx := h x (by simp)
        rw [primsList, ih (fun y hy => h y (by simp [hy]))]
        cases x <;> simp [isUnion] at hx <;> simp [prims]
    simp only [prims, hprims alts hp]
    exact ⟨hp, fun v hv => (conforms_union_iff alts v).mp hv⟩
  · have hu' : a.isUnion = false := by simpa using hu
    have : prims a = [a] := by cases a <;> simp [isUnion] at hu' <;> simp [prims]
    rw [this]
    exact ⟨by simp [hu', ha], fun v hv => ⟨a, by simp, hv⟩⟩

/-- **completeness of `TypeIntersection` for run-time assertions**: a value of the (well-formed) static type `a` whose
    TypeID passes the assertion against a flat target is a value of `TypeIntersection(target, a)` -/
theorem inter_complete {target a c : Ty} {v : Value} (wa : wf a = true) (ha : a.isAny = false)
    (ft : flatTarget target = true) (hv : conforms a v = true) (hr : (targetIds target).contains v.rank = true)
    (h : typeInter target a = some (some c)) : conforms c v = true := by
  unfold typeInter at h
  cases h1 : interLoop a none (prims target) with
  | none => simp [h1] at h
  | some out =>
    simp only [h1] at h
    have ⟨hplain, hmem⟩ := prims_of_wf wa ha
    have ⟨n1, _, _⟩ := interLoop_upper a (prims target) none out
      (fun p hp _ => leaf_noRec (prims_flat ft p hp)) (by intro o ho; cases ho) h1
    have ⟨_, _, r3⟩ := interLoop_upper target (prims a) out (some c)
      (fun p hp hsel => leaf_noRec (leaf_of_is_flat (hplain p hp).1 ft hsel)) (fun o ho => n1 o ho) h
    obtain ⟨p, hp, hpv⟩ := hmem v hv
    have ⟨pu, pa⟩ := hplain p hp
    have hrank := rank_of_conforms_plain pu pa hpv
    -- p is one of the target's leaves
    have hsel : p.is target = .is := by
      by_cases hu : target.isUnion = true
      · obtain ⟨alts, rfl⟩ := eq_union_of_isUnion hu
        simp only [targetIds, List.contains_eq_any_beq, List.any_map, List.any_eq_true, Function.comp, beq_iff_eq] at hr
        obtain ⟨t, ht, hid⟩ := hr
        simp only [flatTarget, List.all_eq_true] at ft
        have : p = t := leaf_eq_of_id (ft t ht) (by rw [← hrank, hid])
        subst this
        exact is_union_of_mem ht
      · have hl : isLeaf target = true := by
          cases target <;> simp [isUnion] at hu <;> simpa [flatTarget] using ft
        have hid : v.rank = target.id := by
          cases target <;> simp [isUnion] at hu <;> simpa [targetIds] using hr
        have : p = target := leaf_eq_of_id hl (by rw [← hrank, hid])
        subst this
        exact Ty.is_refl p
    obtain ⟨r, hr', hpr⟩ := r3 p hp hsel
    cases hr'
    exact Ty.is_sound hpr v hpv

end Octo.Tc
