import Octo.Lemmas.TypingDefs
/-!
  Octo.Lemmas.TypingSound — the lemmas behind the soundness theorem of C08, rule by rule.
-/
namespace Octo.Tc
open Octo Octo.Ty

/-! ### variables -/

theorem field_conforms (n : Nat) : ∀ (c : List (Nat × Ty)) (vs : List Value) (i : Nat) (t : Ty) (v : Value),
    conformsZip (c.map (·.2)) vs = true → indexOfField n c = some i → lookupField n c = some t → vs[i]? = some v →
    conforms t v = true
  | [], _, _, _, _, _, hi, _, _ => by simp [indexOfField] at hi
  | (m, t') :: fs, [], _, _, _, hc, _, _, _ => by simp [conformsZip] at hc
  | (m, t') :: fs, x :: xs, i, t, v, hc, hi, hl, hv => by
    simp only [List.map, conformsZip, Bool.and_eq_true] at hc
    simp only [indexOfField] at hi
    simp only [lookupField] at hl
    by_cases hm : m = n
    · simp only [hm, if_true, Option.some.injEq] at hi hl
      subst hi; subst hl
      simp only [List.getElem?_cons_zero, Option.some.injEq] at hv
      subst hv; exact hc.1
    · simp only [hm, if_false] at hi hl
      cases hj : indexOfField n fs with
      | none => simp [hj] at hi
      | some j =>
        simp only [hj, Option.map_some, Option.some.injEq] at hi
        subst hi
        simp only [List.getElem?_cons_succ] at hv
        exact field_conforms n fs xs j t v hc.2 hj hl hv

theorem index_none_iff_lookup_none (n : Nat) : ∀ (c : List (Nat × Ty)), indexOfField n c = none ↔ lookupField n c = none
  | [] => by simp [indexOfField, lookupField]
  | (m, t) :: fs => by
    simp only [indexOfField, lookupField]
    by_cases hm : m = n
    · simp [hm]
    · simp only [hm, if_false, Option.map_eq_none_iff]; exact index_none_iff_lookup_none n fs

theorem evalVar_conforms (n : Nat) : ∀ (Γ : Ctx) (ρ : List (List Value)) (t : Ty) (v : Value),
    EnvConforms Γ ρ → lookupVar n Γ = some t → evalVar n Γ ρ = .val v → conforms t v = true
  | [], _, _, _, _, hl, _ => by simp [lookupVar] at hl
  | c :: cs, [], _, _, he, _, _ => by simp [EnvConforms] at he
  | c :: cs, vs :: vss, t, v, he, hl, hv => by
    simp only [EnvConforms] at he
    simp only [lookupVar] at hl
    simp only [evalVar] at hv
    cases hi : indexOfField n c with
    | none =>
      have := (index_none_iff_lookup_none n c).mp hi
      simp only [this] at hl
      simp only [hi] at hv
      exact evalVar_conforms n cs vss t v he.2 hl hv
    | some i =>
      simp only [hi] at hv
      cases hf : lookupField n c with
      | none => have := (index_none_iff_lookup_none n c).mpr hf; simp [this] at hi
      | some t' =>
        simp only [hf, Option.some.injEq] at hl
        subst hl
        cases hx : vs[i]? with
        | none => simp [hx] at hv
        | some x =>
          simp only [hx, Res.val.injEq] at hv
          subst hv
          exact field_conforms n c vs i t' x he.1 hi hf hx

theorem lookupField_mem (n : Nat) : ∀ (c : List (Nat × Ty)) (t : Ty), lookupField n c = some t → (n, t) ∈ c
  | [], _, h => by simp [lookupField] at h
  | (m, t') :: fs, t, h => by
    simp only [lookupField] at h
    by_cases hm : m = n
    · simp only [hm, if_true, Option.some.injEq] at h; subst h; subst hm; simp
    · simp only [hm, if_false] at h; exact List.mem_cons_of_mem _ (lookupField_mem n fs t h)

theorem lookupVar_wf (n : Nat) : ∀ (Γ : Ctx) (t : Ty), CtxWf Γ → lookupVar n Γ = some t → wf t = true
  | [], _, _, h => by simp [lookupVar] at h
  | c :: cs, t, hw, h => by
    simp only [lookupVar] at h
    cases hf : lookupField n c with
    | none =>
      simp only [hf] at h
      exact lookupVar_wf n cs t (fun c' hc' => hw c' (List.mem_cons_of_mem _ hc')) h
    | some t' =>
      simp only [hf, Option.some.injEq] at h; subst h
      exact hw c (by simp) (n, t') (lookupField_mem n c t' hf)


/-! ### argument lists -/

theorem coalesceOkList_iff : ∀ (l : List PExpr), coalesceOkList l = true ↔ ∀ a ∈ l, coalesceOk a = true
  | [] => by simp [coalesceOkList]
  | a :: as => by simp [coalesceOkList, coalesceOkList_iff as]

/-- the argument loop: the values are those of the arguments, so they match the arguments' static types -/
theorem evalArgs_conforms (S : Sig) (Γ : Ctx) (ρ : List (List Value)) (he : EnvConforms Γ ρ) :
    ∀ (args : List PExpr) (vs : List Value), (∀ a ∈ args, Sound S Γ a) → coalesceOkList args = true →
      evalArgs S Γ ρ args = .ok vs → conformsZip (args.map PExpr.ty) vs = true
  | [], vs, _, _, h => by
    simp only [evalArgs, Except.ok.injEq] at h; subst h; simp [conformsZip]
  | a :: as, vs, hs, hp, h => by
    simp only [evalArgs] at h
    simp only [coalesceOkList, Bool.and_eq_true] at hp
    cases ha : eval S Γ ρ a with
    | val v =>
      simp only [ha] at h
      cases hr : evalArgs S Γ ρ as with
      | error r => simp [hr] at h
      | ok ws =>
        simp only [hr, Except.ok.injEq] at h; subst h
        simp only [List.map, conformsZip, Bool.and_eq_true]
        exact ⟨(hs a (by simp)).2 hp.1 ρ v he ha,
          evalArgs_conforms S Γ ρ he as ws (fun b hb => hs b (by simp [hb])) hp.2 hr⟩
    | err => simp [ha] at h
    | panic => simp [ha] at h
    | unmodelled => simp [ha] at h

/-! ### the nullable lifting of strict calls -/

theorem liftNull_spec : ∀ (args : List PExpr) (o t : Ty), liftNull o args = .ok t → wf o = true →
    wf t = true ∧ (∀ v, conforms o v = true → conforms t v = true) ∧
    ((∃ a ∈ args, admitsNull a.ty = true) → conforms t .null = true)
  | [], o, t, h, wo => by
    simp only [liftNull, Except.ok.injEq] at h; subst h
    exact ⟨wo, fun _ hv => hv, by simp⟩
  | a :: as, o, t, h, wo => by
    simp only [liftNull] at h
    by_cases hn : admitsNull a.ty = true
    · simp only [hn, if_true] at h
      cases hs : typeSum o .null with
      | none => simp [hs] at h
      | some o' =>
        simp only [hs] at h
        have wo' := typeSum_wf hs wo (by simp [wf])
        have ⟨w, mono, _⟩ := liftNull_spec as o' t h wo'
        refine ⟨w, fun v hv => mono v ((typeSum_null_char hs v).mpr (Or.inl hv)), fun _ => ?_⟩
        exact mono .null ((typeSum_null_char hs .null).mpr (Or.inr rfl))
    · simp only [hn, Bool.false_eq_true, if_false] at h
      have ⟨w, mono, hnull⟩ := liftNull_spec as o t h wo
      refine ⟨w, mono, ?_⟩
      rintro ⟨b, hb, hbn⟩
      simp only [List.mem_cons] at hb
      rcases hb with rfl | hb
      · exact absurd hbn hn
      · exact hnull ⟨b, hb, hbn⟩

theorem nullHit_exists : ∀ (args : List PExpr) (vs : List Value), nullHit args vs = true → ∃ a ∈ args, admitsNull a.ty = true
  | [], _, h => by simp [nullHit] at h
  | _ :: _, [], h => by simp [nullHit] at h
  | a :: as, v :: vs, h => by
    simp only [nullHit, Bool.or_eq_true, Bool.and_eq_true] at h
    rcases h with h | h
    · exact ⟨a, by simp, h.1⟩
    · obtain ⟨b, hb, hbn⟩ := nullHit_exists as vs h
      exact ⟨b, by simp [hb], hbn⟩

/-! ### how an argument fits a parameter -/

/-- every (non-NULL, for a strict descriptor) value of type `t` is a value of the parameter type `p` -/
def TyFit (strict : Bool) (p t : Ty) : Prop :=
  ∀ v, conforms t v = true → (strict = true → v ≠ .null) → conforms p v = true

def FitAll (strict : Bool) : List Ty → List PExpr → Prop
  | p :: ps, a :: as => TyFit strict p a.ty ∧ FitAll strict ps as
  | [], [] => True
  | _, _ => False

theorem isNullV_iff (v : Value) : isNullV v = true ↔ v = .null := by cases v <;> simp [isNullV]

/-- after the NULL check, the argument values match the parameter types -/
theorem fitAll_conforms (strict : Bool) : ∀ (ps : List Ty) (args : List PExpr) (vs : List Value),
    FitAll strict ps args → (∀ a ∈ args, wf a.ty = true) → conformsZip (args.map PExpr.ty) vs = true →
    (strict = true → nullHit args vs = false) → conformsZip ps vs = true
  | [], [], vs, _, _, hc, _ => by simpa using hc
  | [], _ :: _, _, hf, _, _, _ => by simp [FitAll] at hf
  | _ :: _, [], _, hf, _, _, _ => by simp [FitAll] at hf
  | p :: ps, a :: as, [], _, _, hc, _ => by simp [conformsZip] at hc
  | p :: ps, a :: as, v :: vs, hf, hw, hc, hn => by
    simp only [FitAll] at hf
    simp only [List.map, conformsZip, Bool.and_eq_true] at hc ⊢
    refine ⟨hf.1 v hc.1 ?_, fitAll_conforms strict ps as vs hf.2 (fun b hb => hw b (by simp [hb])) hc.2 ?_⟩
    · intro hs hv
      have := hn hs
      simp only [nullHit, Bool.or_eq_false_iff, Bool.and_eq_false_iff] at this
      subst hv
      have hadm := admits_of_conforms_null (hw a (by simp)) hc.1
      rcases this.1 with h | h
      · rw [hadm] at h; cases h
      · simp [isNullV] at h
    · intro hs
      have := hn hs
      simp only [nullHit, Bool.or_eq_false_iff] at this
      exact this.2


/-! ### run-time type assertions -/

/-- an assertion against a flat target, typed with `TypeIntersection(target, type of the asserted expression)`, is sound -/
theorem assert_sound {S : Sig} {Γ : Ctx} {a : PExpr} {target t : Ty} (hs : Sound S Γ a) (wt : wf target = true)
    (ft : flatTarget target = true) (ha : a.ty.isAny = false) (h : typeInter target a.ty = some (some t)) :
    Sound S Γ (.assert t target a) := by
  refine ⟨(typeInter_sub wt hs.1 h).1, ?_⟩
  intro hp ρ v he hv
  simp only [coalesceOk] at hp
  simp only [eval] at hv
  cases hav : eval S Γ ρ a with
  | val w =>
    simp only [hav] at hv
    split at hv
    · rename_i hr
      simp only [Res.val.injEq] at hv; subst hv
      exact inter_complete hs.1 ha ft (hs.2 hp ρ w he hav) hr h
    · cases hv
  | err => simp [hav] at hv
  | panic => simp [hav] at hv
  | unmodelled => simp [hav] at hv

/-- the asserted expression's type is below the target -/
theorem assert_below {a target t : Ty} (wt : wf target = true) (wa : wf a = true) (h : typeInter target a = some (some t)) :
    t.is target = .is := (typeInter_sub wt wa h).2.1

theorem param_scalar_sumNull {p : Ty} (hp : paramOk p = true) (ha : p.isAny = false) :
    typeSum p .null = some (.union [.null, p]) := by
  cases p <;> simp [paramOk, isLeaf, Ty.id, isAny] at hp ha <;> rfl

theorem param_flat {p : Ty} (hp : paramOk p = true) (ha : p.isAny = false) :
    flatTarget p = true ∧ flatTarget (.union [.null, p]) = true ∧ wf p = true ∧ wf (.union [.null, p]) = true := by
  cases p <;> simp [paramOk, isLeaf, Ty.id, isAny] at hp ha <;> decide

theorem any_isnt_param {p : Ty} (hp : paramOk p = true) (ha : p.isAny = false) : Ty.any.is p = .isnt := by
  cases p <;> simp [paramOk, isLeaf, Ty.id, isAny] at hp ha <;> rfl

theorem any_isnt_boolNull : Ty.any.is boolNull = .isnt := by decide

theorem boolNull_eq : typeSum .bool .null = some boolNull := rfl

theorem boolNull_flat : flatTarget boolNull = true ∧ wf boolNull = true := by decide


/-- the type an argument is matched with: `NonNullable` for a strict descriptor -/
def viewTy (strict : Bool) (t : Ty) : Ty := if strict then nonNullable t else t

theorem view_eq (d : Descr) (args : List PExpr) :
    view d (args.map PExpr.ty) ((args.map PExpr.ty).map nonNullable) = args.map (fun a => viewTy d.strict a.ty) := by
  unfold view viewTy
  cases d.strict <;> simp [List.map_map, Function.comp_def]

theorem tyFit_of_is {strict : Bool} {p t : Ty} (wt : wf t = true) (h : (viewTy strict t).is p = .is) : TyFit strict p t := by
  intro v hv hn
  cases strict with
  | false => exact Ty.is_sound h v hv
  | true => exact Ty.is_sound h v (nonNullable_conforms_of_wf wt hv (hn rfl))

theorem tyFit_view {strict : Bool} {t : Ty} (wt : wf t = true) : TyFit strict (viewTy strict t) t :=
  tyFit_of_is wt (Ty.is_refl _)

theorem fitAll_of_fitsAll (strict : Bool) : ∀ (ps : List Ty) (args : List PExpr), (∀ a ∈ args, wf a.ty = true) →
    (args.map (fun a => viewTy strict a.ty)).length = ps.length →
    fitsAll (args.map (fun a => viewTy strict a.ty)) ps = true → FitAll strict ps args
  | [], [], _, _, _ => by simp [FitAll]
  | [], _ :: _, _, hl, _ => by simp at hl
  | _ :: _, [], _, hl, _ => by simp at hl
  | p :: ps, a :: as, hw, hl, hf => by
    simp only [List.map, fitsAll, Bool.and_eq_true, beq_iff_eq] at hf
    simp only [FitAll]
    exact ⟨tyFit_of_is (hw a (by simp)) hf.1,
      fitAll_of_fitsAll strict ps as (fun b hb => hw b (by simp [hb])) (by simpa using hl) hf.2⟩

theorem fitAll_view (strict : Bool) : ∀ (args : List PExpr), (∀ a ∈ args, wf a.ty = true) →
    FitAll strict (args.map (fun a => viewTy strict a.ty)) args
  | [], _ => by simp [FitAll]
  | a :: as, hw => by
    simp only [List.map, FitAll]
    exact ⟨tyFit_view (hw a (by simp)), fitAll_view strict as (fun b hb => hw b (by simp [hb]))⟩

/-- the loop that inserts the assertions: every resulting argument is sound and fits its parameter -/
theorem wrapArgs_spec {S : Sig} {Γ : Ctx} (strict : Bool) : ∀ (ps : List Ty) (args args' : List PExpr),
    (∀ a ∈ args, Sound S Γ a) → (∀ p ∈ ps, paramOk p = true) →
    (args.map (fun a => viewTy strict a.ty)).length = ps.length →
    anyIsnt (args.map (fun a => viewTy strict a.ty)) ps = false →
    wrapArgs strict (args.map (fun a => viewTy strict a.ty)) ps args = .ok args' →
    (∀ a ∈ args', Sound S Γ a) ∧ FitAll strict ps args'
  | [], [], args', _, _, _, _, h => by
    simp only [List.map, wrapArgs, Except.ok.injEq] at h; subst h; simp [FitAll]
  | [], _ :: _, _, _, _, hl, _, _ => by simp at hl
  | _ :: _, [], _, _, _, hl, _, _ => by simp at hl
  | p :: ps, a :: as, args', hs, hp, hl, hn, h => by
    simp only [List.map, anyIsnt, Bool.or_eq_false_iff, beq_eq_false_iff_ne] at hn
    simp only [List.map, wrapArgs] at h
    have hsa := hs a (by simp)
    have hsas : ∀ b ∈ as, Sound S Γ b := fun b hb => hs b (by simp [hb])
    have hpp := hp p (by simp)
    have hpps : ∀ q ∈ ps, paramOk q = true := fun q hq => hp q (by simp [hq])
    have hl' : (as.map (fun a => viewTy strict a.ty)).length = ps.length := by simpa using hl
    by_cases hm : (viewTy strict a.ty).is p = .maybe
    · simp only [hm, beq_self_eq_true, if_true] at h
      -- the parameter is a scalar (x.is Any is never Maybe), the argument's type is not Any
      have hpa : p.isAny = false := by
        cases p <;> simp [isAny]
        simp at hm
      have haa : a.ty.isAny = false := by
        cases hta : a.ty <;> simp [isAny]
        rw [hta] at hm
        have : viewTy strict .any = .any := by unfold viewTy; cases strict <;> simp [nonNullable]
        rw [this, any_isnt_param hpp hpa] at hm
        cases hm
      have ⟨f1, f2, w1, w2⟩ := param_flat hpp hpa
      cases has : assertion strict p a with
      | error e => simp [has] at h
      | ok a' =>
        cases hws : wrapArgs strict (as.map (fun a => viewTy strict a.ty)) ps as with
        | error e => simp [has, hws] at h
        | ok as' =>
          simp only [has, hws, Except.ok.injEq] at h
          subst h
          have ⟨r1, r2⟩ := wrapArgs_spec strict ps as as' hsas hpps hl' hn.2 hws
          -- the assertion
          unfold assertion at has
          have key : ∀ target, wf target = true → flatTarget target = true →
              (∀ v, conforms target v = true → (strict = true → v ≠ .null) → conforms p v = true) →
              (match typeInter target a.ty with
                | none => Except.error TcErr.fuel
                | some none => .error .crash
                | some (some t) => .ok (PExpr.assert t target a)) = .ok a' →
              Sound S Γ a' ∧ TyFit strict p a'.ty := by
            intro target wt ft hfit hm'
            cases hi : typeInter target a.ty with
            | none => simp [hi] at hm'
            | some oi =>
              cases oi with
              | none => simp [hi] at hm'
              | some t =>
                simp only [hi, Except.ok.injEq] at hm'
                subst hm'
                refine ⟨assert_sound hsa wt ft haa hi, ?_⟩
                intro v hv hnn
                exact hfit v (Ty.is_sound (assert_below wt hsa.1 hi) v hv) hnn
          cases strict with
          | true =>
            simp only [if_true, param_scalar_sumNull hpp hpa] at has
            have ⟨k1, k2⟩ := key (.union [.null, p]) w2 f2 (by
              intro v hv hnn
              rw [conforms_union_iff] at hv
              obtain ⟨x, hx, hxv⟩ := hv
              simp only [List.mem_cons, List.not_mem_nil, or_false] at hx
              rcases hx with rfl | rfl
              · exact absurd ((conforms_null_iff_eq v).mp hxv) (hnn rfl)
              · exact hxv) has
            refine ⟨?_, ?_⟩
            · intro b hb
              simp only [List.mem_cons] at hb
              rcases hb with rfl | hb
              · exact k1
              · exact r1 b hb
            · simp only [FitAll]; exact ⟨k2, r2⟩
          | false =>
            simp only [Bool.false_eq_true, if_false] at has
            have ⟨k1, k2⟩ := key p w1 f1 (fun v hv _ => hv) has
            refine ⟨?_, ?_⟩
            · intro b hb
              simp only [List.mem_cons] at hb
              rcases hb with rfl | hb
              · exact k1
              · exact r1 b hb
            · simp only [FitAll]; exact ⟨k2, r2⟩
    · have hbeq : ((viewTy strict a.ty).is p == Rel.maybe) = false := by simpa using hm
      simp only [hbeq, Bool.false_eq_true, if_false] at h
      cases hws : wrapArgs strict (as.map (fun a => viewTy strict a.ty)) ps as with
      | error e => simp [hws] at h
      | ok as' =>
        simp only [hws, Except.ok.injEq] at h
        subst h
        have ⟨r1, r2⟩ := wrapArgs_spec strict ps as as' hsas hpps hl' hn.2 hws
        have his : (viewTy strict a.ty).is p = .is := by
          cases hr : (viewTy strict a.ty).is p with
          | is => rfl
          | maybe => exact absurd hr hm
          | isnt => exact absurd hr hn.1
        refine ⟨?_, ?_⟩
        · intro b hb
          simp only [List.mem_cons] at hb
          rcases hb with rfl | hb
          · exact hsa
          · exact r1 b hb
        · simp only [FitAll]; exact ⟨tyFit_of_is hsa.1 his, r2⟩


theorem zipIdx_mem {α} : ∀ (l : List α) (k : Nat) (x : α) (i : Nat), (x, i) ∈ zipIdx l k → k ≤ i ∧ l[i - k]? = some x
  | [], _, _, _, h => by simp [zipIdx] at h
  | y :: ys, k, x, i, h => by
    simp only [zipIdx, List.mem_cons, Prod.mk.injEq] at h
    rcases h with ⟨rfl, rfl⟩ | h
    · simp
    · have ⟨h1, h2⟩ := zipIdx_mem ys (k + 1) x i h
      refine ⟨by omega, ?_⟩
      have : i - k = (i - (k + 1)) + 1 := by omega
      rw [this, List.getElem?_cons_succ]; exact h2

/-- what the first loop picked: a descriptor of the table that fits exactly -/
def PickedExact (args : List PExpr) (ds : List (Descr × Nat)) (r : Descr × Nat × Ty) : Prop :=
  (r.1, r.2.1) ∈ ds ∧
  match r.1.typeFn with
  | some f => f (args.map (fun a => viewTy r.1.strict a.ty)) = some (some r.2.2)
  | none => (args.map (fun a => viewTy r.1.strict a.ty)).length = r.1.args.length ∧
      fitsAll (args.map (fun a => viewTy r.1.strict a.ty)) r.1.args = true ∧ r.2.2 = r.1.out

theorem exactPass_spec (args : List PExpr) : ∀ (ds : List (Descr × Nat)) (acc : Option (Descr × Nat × Ty)) (r : Descr × Nat × Ty),
    exactPass (args.map PExpr.ty) ((args.map PExpr.ty).map nonNullable) ds acc = .ok (some r) →
    acc = some r ∨ PickedExact args ds r
  | [], acc, r, h => by simp only [exactPass, Except.ok.injEq] at h; exact Or.inl h
  | (d, i) :: rest, acc, r, h => by
    simp only [exactPass, view_eq] at h
    cases htf : d.typeFn with
    | some f =>
      simp only [htf] at h
      cases hf : f (args.map (fun a => viewTy d.strict a.ty)) with
      | none => simp [hf] at h
      | some oo =>
        cases oo with
        | some o =>
          simp only [hf] at h
          rcases exactPass_spec args rest _ r h with hr | hr
          · right
            simp only [Option.some.injEq] at hr; subst hr
            exact ⟨by simp, by simp only [htf]; exact hf⟩
          · right; exact ⟨List.mem_cons_of_mem _ hr.1, hr.2⟩
        | none =>
          simp only [hf] at h
          rcases exactPass_spec args rest _ r h with hr | hr
          · exact Or.inl hr
          · right; exact ⟨List.mem_cons_of_mem _ hr.1, hr.2⟩
    | none =>
      simp only [htf] at h
      split at h
      · rcases exactPass_spec args rest _ r h with hr | hr
        · exact Or.inl hr
        · right; exact ⟨List.mem_cons_of_mem _ hr.1, hr.2⟩
      · rename_i hlen
        split at h
        · rename_i hfit
          rcases exactPass_spec args rest _ r h with hr | hr
          · right
            simp only [Option.some.injEq] at hr; subst hr
            exact ⟨by simp, by simp only [htf]; exact ⟨by simpa using hlen, hfit, trivial⟩⟩
          · right; exact ⟨List.mem_cons_of_mem _ hr.1, hr.2⟩
        · rcases exactPass_spec args rest _ r h with hr | hr
          · exact Or.inl hr
          · right; exact ⟨List.mem_cons_of_mem _ hr.1, hr.2⟩

/-- what the second loop picked: a static descriptor that may fit, and the wrapped arguments -/
theorem maybePass_spec (args : List PExpr) : ∀ (ds : List (Descr × Nat)) (d : Descr) (i : Nat) (args' : List PExpr),
    maybePass args (args.map PExpr.ty) ((args.map PExpr.ty).map nonNullable) ds = .ok (some (d, i, args')) →
    (d, i) ∈ ds ∧ d.typeFn = none ∧ (args.map (fun a => viewTy d.strict a.ty)).length = d.args.length ∧
      anyIsnt (args.map (fun a => viewTy d.strict a.ty)) d.args = false ∧
      wrapArgs d.strict (args.map (fun a => viewTy d.strict a.ty)) d.args args = .ok args'
  | [], _, _, _, h => by simp [maybePass] at h
  | (d0, i0) :: rest, d, i, args', h => by
    simp only [maybePass, view_eq] at h
    have rec_ := fun h' => maybePass_spec args rest d i args' h'
    split at h
    · have ⟨r1, r2⟩ := rec_ h; exact ⟨List.mem_cons_of_mem _ r1, r2⟩
    · rename_i htf
      split at h
      · have ⟨r1, r2⟩ := rec_ h; exact ⟨List.mem_cons_of_mem _ r1, r2⟩
      · rename_i hlen
        split at h
        · have ⟨r1, r2⟩ := rec_ h; exact ⟨List.mem_cons_of_mem _ r1, r2⟩
        · rename_i hni
          cases hw : wrapArgs d0.strict (args.map (fun a => viewTy d0.strict a.ty)) d0.args args with
          | error e => simp [hw] at h
          | ok as' =>
            simp only [hw, Except.ok.injEq, Option.some.injEq, Prod.mk.injEq] at h
            obtain ⟨rfl, rfl, rfl⟩ := h
            refine ⟨by simp, ?_, by simpa using hlen, by simpa using hni, hw⟩
            cases hh : d0.typeFn with
            | none => rfl
            | some f => simp [hh] at htf


theorem evalArgs_error (S : Sig) (Γ : Ctx) (ρ : List (List Value)) : ∀ (args : List PExpr) (r : Res),
    evalArgs S Γ ρ args = .error r → ∀ v, r ≠ .val v
  | [], r, h, _ => by simp [evalArgs] at h
  | a :: as, r, h, v => by
    simp only [evalArgs] at h
    cases ha : eval S Γ ρ a with
    | val w =>
      simp only [ha] at h
      cases hr : evalArgs S Γ ρ as with
      | error r' =>
        simp only [hr, Except.error.injEq] at h; subst h
        exact evalArgs_error S Γ ρ as r' hr v
      | ok ws => simp [hr] at h
    | err => simp only [ha, Except.error.injEq] at h; subst h; simp
    | panic => simp only [ha, Except.error.injEq] at h; subst h; simp
    | unmodelled => simp only [ha, Except.error.injEq] at h; subst h; simp

/-- the tail of `FunctionExpression.Typecheck` + `FunctionCall.Evaluate`: given sound arguments and a body whose results
    match `o` after the NULL check, the call is sound -/
theorem finish_sound {S : Sig} {Γ : Ctx} {name : Name} {d : Descr} {i : Nat} {o : Ty} {args : List PExpr} {p : PExpr}
    (hargs : ∀ a ∈ args, Sound S Γ a) (wo : wf o = true)
    (hbody : ∀ vs v, conformsZip (args.map PExpr.ty) vs = true → (d.strict = true → nullHit args vs = false) →
      S.body name i vs = .val v → conforms o v = true)
    (h : finishCall name d i o args = .ok p) : Sound S Γ p := by
  unfold finishCall at h
  cases hst : d.strict with
  | true =>
    simp only [hst, if_true] at h
    cases hl : liftNull o args with
    | error e => simp [hl] at h
    | ok t =>
      simp only [hl, Except.ok.injEq] at h
      subst h
      have ⟨wt, mono, hnull⟩ := liftNull_spec args o t hl wo
      refine ⟨wt, ?_⟩
      intro hp ρ v he hv
      simp only [coalesceOk] at hp
      simp only [eval] at hv
      cases hea : evalArgs S Γ ρ args with
      | error r => simp only [hea] at hv; exact absurd hv (evalArgs_error S Γ ρ args r hea v)
      | ok vs =>
        simp only [hea, Bool.true_and] at hv
        have hc := evalArgs_conforms S Γ ρ he args vs hargs hp hea
        by_cases hh : nullHit args vs = true
        · simp only [hh, if_true, Res.val.injEq] at hv
          subst hv
          exact hnull (nullHit_exists args vs hh)
        · simp only [hh, Bool.false_eq_true, if_false] at hv
          exact mono v (hbody vs v hc (fun _ => by simpa using hh) hv)
  | false =>
    simp only [hst, Bool.false_eq_true, if_false, Except.ok.injEq] at h
    subst h
    refine ⟨wo, ?_⟩
    intro hp ρ v he hv
    simp only [coalesceOk] at hp
    simp only [eval] at hv
    cases hea : evalArgs S Γ ρ args with
    | error r => simp only [hea] at hv; exact absurd hv (evalArgs_error S Γ ρ args r hea v)
    | ok vs =>
      simp only [hea, Bool.false_and, Bool.false_eq_true, if_false] at hv
      have hc := evalArgs_conforms S Γ ρ he args vs hargs hp hea
      exact hbody vs v hc (fun h' => by rw [hst] at h'; cases h') hv

/-- **function calls**: overload resolution (exact pass, maybe pass with inserted assertions), nullable lifting, NULL check
    and body, for any table that satisfies `SigOk` -/
theorem call_sound {S : Sig} {Γ : Ctx} (hS : SigOk S) (name : Name) (args : List PExpr) (p : PExpr)
    (hargs : ∀ a ∈ args, Sound S Γ a) (h : typecheckCall S name args = .ok p) : Sound S Γ p := by
  unfold typecheckCall at h
  dsimp only at h
  have hw : ∀ a ∈ args, wf a.ty = true := fun a ha => (hargs a ha).1
  cases he : exactPass (args.map PExpr.ty) ((args.map PExpr.ty).map nonNullable) (zipIdx (S.descrs name)) none with
  | error e => rw [he] at h; cases h
  | ok r =>
    simp only [he] at h
    cases r with
    | some r =>
      obtain ⟨d, i, o⟩ := r
      simp only at h
      rcases exactPass_spec args _ none (d, i, o) he with hr | ⟨hmem, hpick⟩
      · cases hr
      · have ⟨_, hget⟩ := zipIdx_mem _ 0 d i hmem
        simp only [Nat.sub_zero] at hget
        have hd : d ∈ S.descrs name := List.mem_of_getElem? hget
        have hsound := hS.sound name i d hget
        simp only at hpick
        cases htf : d.typeFn with
        | some f =>
          simp only [htf] at hpick
          have wo : wf o = true := hS.tyfn_wf name d f hd htf _ o (by
            intro t ht
            simp only [List.mem_map] at ht
            obtain ⟨a, ha, rfl⟩ := ht
            unfold viewTy; split
            · exact nonNullable_wf (hw a ha)
            · exact hw a ha) hpick
          refine finish_sound hargs wo ?_ h
          intro vs v hc hn hb
          unfold DescrSound at hsound
          simp only [htf] at hsound
          exact hsound _ o vs v hpick (fitAll_conforms d.strict _ args vs (fitAll_view d.strict args hw) hw hc hn) hb
        | none =>
          simp only [htf] at hpick
          obtain ⟨hlen, hfit, rfl⟩ := hpick
          refine finish_sound hargs (hS.out_wf name d hd) ?_ h
          intro vs v hc hn hb
          unfold DescrSound at hsound
          simp only [htf] at hsound
          exact hsound vs v (fitAll_conforms d.strict _ args vs (fitAll_of_fitsAll d.strict d.args args hw hlen hfit) hw hc hn) hb
    | none =>
      simp only at h
      cases hm : maybePass args (args.map PExpr.ty) ((args.map PExpr.ty).map nonNullable) (zipIdx (S.descrs name)) with
      | error e => rw [hm] at h; cases h
      | ok r =>
        simp only [hm] at h
        cases r with
        | none => simp at h
        | some r =>
          obtain ⟨d, i, args'⟩ := r
          simp only at h
          have ⟨hmem, htf, hlen, hni, hwrap⟩ := maybePass_spec args _ d i args' hm
          have ⟨_, hget⟩ := zipIdx_mem _ 0 d i hmem
          simp only [Nat.sub_zero] at hget
          have hd : d ∈ S.descrs name := List.mem_of_getElem? hget
          have hsound := hS.sound name i d hget
          have ⟨hargs', hfit⟩ := wrapArgs_spec (S := S) (Γ := Γ) d.strict d.args args args' hargs (hS.params name d hd) hlen hni hwrap
          refine finish_sound hargs' (hS.out_wf name d hd) ?_ h
          intro vs v hc hn hb
          unfold DescrSound at hsound
          simp only [htf] at hsound
          exact hsound vs v (fitAll_conforms d.strict _ args' vs hfit (fun a ha => (hargs' a ha).1) hc hn) hb


/-! ### AND / OR -/

theorem boolNull_values {v : Value} (h : conforms boolNull v = true) : v = .null ∨ ∃ b, v = .bool b := by
  unfold boolNull at h
  rw [conforms_union_iff] at h
  obtain ⟨a, ha, hv⟩ := h
  simp only [List.mem_cons, List.not_mem_nil, or_false] at ha
  rcases ha with rfl | rfl
  · exact Or.inl ((conforms_null_iff_eq v).mp hv)
  · cases v <;> simp [conforms] at hv
    exact Or.inr ⟨_, rfl⟩

/-- `TypecheckExpression(Boolean | NULL, e)`: the result is sound and its type is below `Boolean | NULL` -/
theorem checkExpected_bool {S : Sig} {Γ : Ctx} {p p' : PExpr} (hs : Sound S Γ p) (h : checkExpected boolNull p = .ok p') :
    Sound S Γ p' ∧ p'.ty.is boolNull = .is := by
  unfold checkExpected at h
  cases hr : p.ty.is boolNull with
  | isnt => simp [hr] at h
  | is => simp only [hr, Except.ok.injEq] at h; subst h; exact ⟨hs, hr⟩
  | maybe =>
    simp only [hr] at h
    cases hi : typeInter boolNull p.ty with
    | none => simp [hi] at h
    | some oi =>
      cases oi with
      | none => simp [hi] at h
      | some t =>
        simp only [hi, Except.ok.injEq] at h
        subst h
        have haa : p.ty.isAny = false := by
          cases hta : p.ty <;> simp [isAny]
          rw [hta, any_isnt_boolNull] at hr; cases hr
        exact ⟨assert_sound hs boolNull_flat.2 boolNull_flat.1 haa hi, assert_below boolNull_flat.2 hs.1 hi⟩

/-- what `And.Evaluate` / `Or.Evaluate` can return over arguments of types below `Boolean | NULL` -/
def LogicRes (nullEncountered : Bool) (args : List PExpr) (v : Value) : Prop :=
  (∃ b, v = .bool b) ∨ (v = .null ∧ (nullEncountered = true ∨ ∃ a ∈ args, admitsNull a.ty = true))

theorem logicRes_cons {ne : Bool} {a : PExpr} {as : List PExpr} {v : Value} (h : LogicRes ne as v) : LogicRes ne (a :: as) v := by
  rcases h with h | ⟨h1, h2⟩
  · exact Or.inl h
  · refine Or.inr ⟨h1, ?_⟩
    rcases h2 with h2 | ⟨b, hb, hbn⟩
    · exact Or.inl h2
    · exact Or.inr ⟨b, by simp [hb], hbn⟩

theorem evalAnd_spec (S : Sig) (Γ : Ctx) (ρ : List (List Value)) (he : EnvConforms Γ ρ) :
    ∀ (args : List PExpr) (ne : Bool) (v : Value), (∀ a ∈ args, Sound S Γ a ∧ a.ty.is boolNull = .is) →
      coalesceOkList args = true → evalAnd S Γ ρ ne args = .val v → LogicRes ne args v
  | [], ne, v, _, _, h => by
    simp only [evalAnd] at h
    cases ne with
    | true => simp only [if_true, Res.val.injEq] at h; subst h; exact Or.inr ⟨rfl, Or.inl rfl⟩
    | false => simp only [Bool.false_eq_true, if_false, Res.val.injEq] at h; subst h; exact Or.inl ⟨_, rfl⟩
  | a :: as, ne, v, hs, hp, h => by
    simp only [evalAnd] at h
    simp only [coalesceOkList, Bool.and_eq_true] at hp
    have ⟨hsa, hba⟩ := hs a (by simp)
    have hsas : ∀ b ∈ as, Sound S Γ b ∧ b.ty.is boolNull = .is := fun b hb => hs b (by simp [hb])
    cases hav : eval S Γ ρ a with
    | val w =>
      simp only [hav] at h
      have hcw := hsa.2 hp.1 ρ w he hav
      rcases boolNull_values (Ty.is_sound hba w hcw) with rfl | ⟨b, rfl⟩
      · simp only [isNullV, if_true] at h
        rcases evalAnd_spec S Γ ρ he as true v hsas hp.2 h with r | ⟨r1, _⟩
        · exact Or.inl r
        · exact Or.inr ⟨r1, Or.inr ⟨a, by simp, admits_of_conforms_null hsa.1 hcw⟩⟩
      · simp only [isNullV, Bool.false_eq_true, if_false, boolField] at h
        cases b with
        | false => simp only [Bool.not_false, if_true, Res.val.injEq] at h; subst h; exact Or.inl ⟨_, rfl⟩
        | true =>
          simp only [Bool.not_true, Bool.false_eq_true, if_false] at h
          exact logicRes_cons (evalAnd_spec S Γ ρ he as ne v hsas hp.2 h)
    | err => simp [hav] at h
    | panic => simp [hav] at h
    | unmodelled => simp [hav] at h

theorem evalOr_spec (S : Sig) (Γ : Ctx) (ρ : List (List Value)) (he : EnvConforms Γ ρ) :
    ∀ (args : List PExpr) (ne : Bool) (v : Value), (∀ a ∈ args, Sound S Γ a ∧ a.ty.is boolNull = .is) →
      coalesceOkList args = true → evalOr S Γ ρ ne args = .val v → LogicRes ne args v
  | [], ne, v, _, _, h => by
    simp only [evalOr] at h
    cases ne with
    | true => simp only [if_true, Res.val.injEq] at h; subst h; exact Or.inr ⟨rfl, Or.inl rfl⟩
    | false => simp only [Bool.false_eq_true, if_false, Res.val.injEq] at h; subst h; exact Or.inl ⟨_, rfl⟩
  | a :: as, ne, v, hs, hp, h => by
    simp only [evalOr] at h
    simp only [coalesceOkList, Bool.and_eq_true] at hp
    have ⟨hsa, hba⟩ := hs a (by simp)
    have hsas : ∀ b ∈ as, Sound S Γ b ∧ b.ty.is boolNull = .is := fun b hb => hs b (by simp [hb])
    cases hav : eval S Γ ρ a with
    | val w =>
      simp only [hav] at h
      have hcw := hsa.2 hp.1 ρ w he hav
      rcases boolNull_values (Ty.is_sound hba w hcw) with rfl | ⟨b, rfl⟩
      · simp only [boolField, Bool.false_eq_true, if_false, isNullV, Bool.or_true] at h
        rcases evalOr_spec S Γ ρ he as true v hsas hp.2 h with r | ⟨r1, _⟩
        · exact Or.inl r
        · exact Or.inr ⟨r1, Or.inr ⟨a, by simp, admits_of_conforms_null hsa.1 hcw⟩⟩
      · simp only [boolField] at h
        cases b with
        | true => simp only [if_true, Res.val.injEq] at h; subst h; exact Or.inl ⟨_, rfl⟩
        | false =>
          simp only [Bool.false_eq_true, if_false, isNullV, Bool.or_false] at h
          exact logicRes_cons (evalOr_spec S Γ ρ he as ne v hsas hp.2 h)
    | err => simp [hav] at h
    | panic => simp [hav] at h
    | unmodelled => simp [hav] at h

theorem logicTy_wf (l r : PExpr) : wf (logicTy l r) = true := by
  unfold logicTy; split
  · exact boolNull_flat.2
  · simp [wf]

theorem logicRes_conforms {l r : PExpr} {v : Value} (h : LogicRes false [l, r] v) : conforms (logicTy l r) v = true := by
  rcases h with ⟨b, rfl⟩ | ⟨rfl, h⟩
  · unfold logicTy; split
    · unfold boolNull; rw [conforms_union_iff]; exact ⟨.bool, by simp, by simp [conforms]⟩
    · simp [conforms]
  · rcases h with h | ⟨a, ha, han⟩
    · cases h
    · have : (admitsNull l.ty || admitsNull r.ty) = true := by
        simp only [List.mem_cons, List.not_mem_nil, or_false] at ha
        rcases ha with rfl | rfl <;> simp [han]
      unfold logicTy; rw [if_pos this]
      unfold boolNull; rw [conforms_union_iff]; exact ⟨.null, by simp, by simp [conforms]⟩

theorem and_sound {S : Sig} {Γ : Ctx} {l r : PExpr} (hl : Sound S Γ l ∧ l.ty.is boolNull = .is)
    (hr : Sound S Γ r ∧ r.ty.is boolNull = .is) : Sound S Γ (.and (logicTy l r) [l, r]) := by
  refine ⟨logicTy_wf l r, ?_⟩
  intro hp ρ v he hv
  simp only [coalesceOk] at hp
  simp only [eval] at hv
  exact logicRes_conforms (evalAnd_spec S Γ ρ he [l, r] false v (by
    intro a ha; simp only [List.mem_cons, List.not_mem_nil, or_false] at ha
    rcases ha with rfl | rfl <;> assumption) hp hv)

theorem or_sound {S : Sig} {Γ : Ctx} {l r : PExpr} (hl : Sound S Γ l ∧ l.ty.is boolNull = .is)
    (hr : Sound S Γ r ∧ r.ty.is boolNull = .is) : Sound S Γ (.or (logicTy l r) [l, r]) := by
  refine ⟨logicTy_wf l r, ?_⟩
  intro hp ρ v he hv
  simp only [coalesceOk] at hp
  simp only [eval] at hv
  exact logicRes_conforms (evalOr_spec S Γ ρ he [l, r] false v (by
    intro a ha; simp only [List.mem_cons, List.not_mem_nil, or_false] at ha
    rcases ha with rfl | rfl <;> assumption) hp hv)


/-! ### tuples -/
theorem tuple_sound {S : Sig} {Γ : Ctx} (args : List PExpr) (hargs : ∀ a ∈ args, Sound S Γ a) :
    Sound S Γ (.tuple (.tuple (args.map PExpr.ty)) args) := by
  refine ⟨?_, ?_⟩
  · simp only [PExpr.ty, wf]
    rw [wfList_iff]
    intro t ht
    simp only [List.mem_map] at ht
    obtain ⟨a, ha, rfl⟩ := ht
    exact (hargs a ha).1
  · intro hp ρ v he hv
    simp only [coalesceOk] at hp
    simp only [eval] at hv
    cases hea : evalArgs S Γ ρ args with
    | error r => simp only [hea] at hv; exact absurd hv (evalArgs_error S Γ ρ args r hea v)
    | ok vs =>
      simp only [hea, Res.val.injEq] at hv
      subst hv
      simp only [PExpr.ty, conforms]
      exact evalArgs_conforms S Γ ρ he args vs hargs hp hea

/-! ### constants -/
theorem const_sound {S : Sig} {Γ : Ctx} {c : Value} {t : Ty} (hok : constOk c = true) (ht : c.typeOf = some t) :
    Sound S Γ (.const t c) := by
  simp only [constOk, Bool.and_eq_true] at hok
  refine ⟨typeOf_wf_aux c.size c (Nat.le_refl _) hok.2 t ht, ?_⟩
  intro _ ρ v _ hv
  simp only [eval, Res.val.injEq] at hv
  subst hv
  exact typeOf_conforms_aux c.size c (Nat.le_refl _) hok.1 t ht

/-! ### `::` -/
theorem findAltById_spec (tid : Nat) : ∀ (alts : List Ty) (alt : Ty), findAltById tid alts = some alt → alt ∈ alts ∧ alt.id = tid
  | [], _, h => by simp [findAltById] at h
  | a :: as, alt, h => by
    simp only [findAltById] at h
    by_cases ha : a.id = tid
    · simp only [ha, if_true, Option.some.injEq] at h; subst h; exact ⟨by simp, ha⟩
    · simp only [ha, if_false] at h
      have ⟨h1, h2⟩ := findAltById_spec tid as alt h
      exact ⟨by simp [h1], h2⟩

/-- a value of a well-formed union with TypeID `tid` is a value of THE alternative with that TypeID -/
theorem conforms_alt_of_rank {alts : List Ty} {alt : Ty} {v : Value} (w : wf (.union alts) = true)
    (hm : alt ∈ alts) (hv : conforms (.union alts) v = true) (hr : v.rank = alt.id) : conforms alt v = true := by
  rw [wf_union] at w
  have hp := (altsPlain_iff _).mp w.1
  rw [conforms_union_iff] at hv
  obtain ⟨a, ha, hav⟩ := hv
  have := rank_of_conforms_plain (hp a ha).1 (hp a ha).2 hav
  have : a = alt := distinctIds_unique w.2.1 ha hm (by rw [← this, hr])
  subst this; exact hav

theorem wf_alt {alts : List Ty} {alt : Ty} (w : wf (.union alts) = true) (hm : alt ∈ alts) : wf alt = true := by
  rw [wf_union] at w
  exact (wfList_iff _).mp w.2.2 alt hm

theorem cast_sound {S : Sig} {Γ : Ctx} {tid : Nat} {p p' : PExpr} (hs : Sound S Γ p) (h : typecheckCast tid p = .ok p') :
    Sound S Γ p' := by
  unfold typecheckCast at h
  cases hty : p.ty with
  | union alts =>
    simp only [hty] at h
    cases hf : findAltById tid alts with
    | none => simp [hf] at h
    | some alt =>
      simp only [hf] at h
      cases hsum : typeSum alt .null with
      | none => simp [hsum] at h
      | some t =>
        simp only [hsum, Except.ok.injEq] at h
        subst h
        have ⟨hm, hid⟩ := findAltById_spec tid alts alt hf
        have wp := hs.1; rw [hty] at wp
        refine ⟨typeSum_wf hsum (wf_alt wp hm) (by simp [wf]), ?_⟩
        intro hp ρ v he hv
        simp only [coalesceOk] at hp
        simp only [eval] at hv
        cases hav : eval S Γ ρ p with
        | val w =>
          simp only [hav] at hv
          split at hv
          · simp only [Res.val.injEq] at hv; subst hv
            exact (typeSum_null_char hsum .null).mpr (Or.inr rfl)
          · rename_i hr
            simp only [Res.val.injEq] at hv; subst hv
            have hcw := hs.2 hp ρ w he hav
            rw [hty] at hcw
            refine (typeSum_null_char hsum w).mpr (Or.inl (conforms_alt_of_rank wp hm hcw ?_))
            rw [hid]; exact Decidable.of_not_not hr
        | err => simp [hav] at hv
        | panic => simp [hav] at hv
        | unmodelled => simp [hav] at hv
  | _ => simp [hty] at h

end Octo.Tc
