import Octo.Lemmas.TriggerGroupBy
/-!
  Sums over changelogs: the signed record count of a list of records is determined by its net
  multiplicities (`count_eq_of_net_eq`), is non-negative when they are (`countOf_nonneg`), and filtering by a
  predicate that respects row equality filters the net multiplicities (`net_filter`).
-/
namespace Octo.Trig
open Octo Octo.TMap

theorem countOf_nil : countOf [] = 0 := rfl
theorem countOf_cons (r : Rec) (rs : List Rec) : countOf (r :: rs) = sign r + countOf rs := by
  simp [countOf]
theorem countOf_append (a b : List Rec) : countOf (a ++ b) = countOf a + countOf b := by
  induction a with
  | nil => simp [countOf]
  | cons r rs ih => simp only [List.cons_append, countOf_cons, ih]; omega

theorem sign_ne_zero (r : Rec) : sign r = 1 ∨ sign r = -1 := by
  unfold sign; split <;> simp

theorem weight_eq_sign (r : Rec) (row : Row) : r.weight row = if rowEq r.vals row then sign r else 0 := by
  simp only [Rec.weight, sign]

theorem rowEq_refl (a : Row) : rowEq a a = true := keq_refl a
theorem rowEq_symm {a b : Row} (h : rowEq a b = true) : rowEq b a = true := keq_symm h
theorem rowEq_trans {a b c : Row} (h1 : rowEq a b = true) (h2 : rowEq b c = true) : rowEq a c = true :=
  keq_trans h1 h2

/-- a predicate on rows that does not tell apart pointwise `Compare`-equal rows -/
def RowCongr (P : Row → Bool) : Prop := ∀ a b : Row, rowEq a b = true → P a = P b

theorem net_filter (P : Row → Bool) (hP : RowCongr P) (L : List Rec) (row : Row) :
    net (L.filter fun r => P r.vals) row = if P row then net L row else 0 := by
  induction L with
  | nil => simp [net]
  | cons r rs ih =>
    have hc := hP r.vals row
    simp only [List.filter_cons]
    cases hr : P r.vals <;> cases hq : rowEq r.vals row <;> cases hrow : P row <;>
      simp only [hr, hq, hrow, net, weight_eq_sign, ih, if_true, if_false, Bool.false_eq_true] at hc ⊢ <;>
      first | omega | (have := hc trivial; cases this) | (have := hc rfl; cases this)

theorem countOf_filter_split (p : Rec → Bool) (L : List Rec) :
    countOf L = countOf (L.filter p) + countOf (L.filter fun r => !p r) := by
  induction L with
  | nil => rfl
  | cons r rs ih =>
    simp only [List.filter_cons, countOf_cons]
    cases p r <;> simp [countOf_cons] <;> omega

theorem countOf_class (ρ : Row) (L : List Rec) : countOf (L.filter fun r => rowEq r.vals ρ) = net L ρ := by
  induction L with
  | nil => rfl
  | cons r rs ih =>
    simp only [List.filter_cons, net, weight_eq_sign]
    cases rowEq r.vals ρ <;> simp [countOf_cons, ih]

theorem congr_class (ρ : Row) : RowCongr fun row => !rowEq row ρ := by
  intro a b h
  show (!keq a ρ) = (!keq b ρ)
  rw [keq_congr_left h]

/-- splitting off the class of `ρ` -/
theorem countOf_split_class (ρ : Row) (L : List Rec) :
    countOf L = net L ρ + countOf (L.filter fun r => !rowEq r.vals ρ) := by
  rw [countOf_filter_split (fun r => rowEq r.vals ρ) L, countOf_class]

theorem length_filter_class_lt (r : Rec) (rs : List Rec) :
    ((r :: rs).filter fun x => !rowEq x.vals r.vals).length ≤ rs.length := by
  simp only [List.filter_cons, rowEq_refl, Bool.not_true, Bool.false_eq_true, if_false]
  exact List.length_filter_le _ _

/-- the record count of a changelog is a function of its net multiplicities -/
theorem count_eq_of_net_eq_aux : ∀ n (L₁ L₂ : List Rec), L₁.length + L₂.length ≤ n →
    (∀ row, net L₁ row = net L₂ row) → countOf L₁ = countOf L₂ := by
  intro n
  induction n with
  | zero =>
    intro L₁ L₂ hl _
    have h1 : L₁ = [] := List.eq_nil_of_length_eq_zero (by omega)
    have h2 : L₂ = [] := List.eq_nil_of_length_eq_zero (by omega)
    rw [h1, h2]
  | succ n ih =>
    intro L₁ L₂ hl hnet
    have step : ∀ (ρ : Row), (L₁.filter fun r => !rowEq r.vals ρ).length + (L₂.filter fun r => !rowEq r.vals ρ).length ≤ n →
        countOf L₁ = countOf L₂ := by
      intro ρ hlen
      rw [countOf_split_class ρ L₁, countOf_split_class ρ L₂, hnet ρ]
      have := ih _ _ hlen (fun row => by
        rw [net_filter _ (congr_class ρ), net_filter _ (congr_class ρ), hnet row])
      omega
    cases L₁ with
    | nil =>
      cases L₂ with
      | nil => rfl
      | cons r rs =>
        apply step r.vals
        have := length_filter_class_lt r rs
        simp only [List.filter_nil, List.length_nil, List.length_cons] at hl ⊢
        omega
    | cons r rs =>
      apply step r.vals
      have h1 := length_filter_class_lt r rs
      have h2 := List.length_filter_le (fun x : Rec => !rowEq x.vals r.vals) L₂
      simp only [List.length_cons] at hl
      omega

theorem count_eq_of_net_eq (L₁ L₂ : List Rec) (h : ∀ row, net L₁ row = net L₂ row) : countOf L₁ = countOf L₂ :=
  count_eq_of_net_eq_aux _ L₁ L₂ (Nat.le_refl _) h

/-- non-negative multiplicities give a non-negative record count -/
theorem countOf_nonneg_aux : ∀ n (L : List Rec), L.length ≤ n → (∀ row, 0 ≤ net L row) → 0 ≤ countOf L := by
  intro n
  induction n with
  | zero =>
    intro L hl _
    have : L = [] := List.eq_nil_of_length_eq_zero (by omega)
    rw [this]; simp [countOf]
  | succ n ih =>
    intro L hl hnet
    cases L with
    | nil => simp [countOf]
    | cons r rs =>
      rw [countOf_split_class r.vals]
      have h1 := length_filter_class_lt r rs
      simp only [List.length_cons] at hl
      have := ih _ (by omega : ((r :: rs).filter fun x => !rowEq x.vals r.vals).length ≤ n) (fun row => by
        rw [net_filter _ (congr_class r.vals)]
        split
        · exact hnet row
        · exact Int.le_refl 0)
      have := hnet r.vals
      omega

theorem countOf_nonneg (L : List Rec) (h : ∀ row, 0 ≤ net L row) : 0 ≤ countOf L :=
  countOf_nonneg_aux _ L (Nat.le_refl _) h

/-- a changelog without negative multiplicities whose record count is zero is empty in the net -/
theorem net_zero_of_count_zero (L : List Rec) (h : ∀ row, 0 ≤ net L row) (hc : countOf L = 0) (row : Row) :
    net L row = 0 := by
  have h1 := countOf_split_class row L
  have h2 := countOf_nonneg (L.filter fun r => !rowEq r.vals row) (fun row' => by
    rw [net_filter _ (congr_class row)]
    split
    · exact h row'
    · exact Int.le_refl 0)
  have := h row
  omega

/-! ### prefixes of filtered lists -/
theorem take_filter_exists {α : Type} (p : α → Bool) (l : List α) (n : Nat) :
    ∃ m, (l.filter p).take n = (l.take m).filter p := by
  induction l generalizing n with
  | nil => exact ⟨0, by simp⟩
  | cons x xs ih =>
    cases n with
    | zero => exact ⟨0, by simp⟩
    | succ n =>
      by_cases hx : p x = true
      · obtain ⟨m, hm⟩ := ih n
        refine ⟨m + 1, ?_⟩
        simp [List.filter_cons, hx, hm]
      · obtain ⟨m, hm⟩ := ih (n + 1)
        refine ⟨m + 1, ?_⟩
        simp [List.filter_cons, hx, hm]

/-- a valid changelog stays valid when filtered by a predicate that respects row equality -/
theorem validLog_filter (P : Row → Bool) (hP : RowCongr P) (L : List Rec) (h : ValidLog L) :
    ValidLog (L.filter fun r => P r.vals) := by
  intro n row
  obtain ⟨m, hm⟩ := take_filter_exists (fun r : Rec => P r.vals) L n
  rw [hm, net_filter P hP]
  split
  · exact h m row
  · exact Int.le_refl 0

theorem validLog_nets (L : List Rec) (h : ValidLog L) (row : Row) : 0 ≤ net L row := by
  have := h L.length row
  simpa using this

end Octo.Trig
