import Octo.Lemmas.PluginsOrder
import Octo.Lemmas.FsLemmas
/-!
  What `listInstalled`, `resolveDb` and `startup` compute, said through `get` only:

    * `listInstalled fs` succeeds  ⇔ `ListOk fs`   (plugins directory absent, or a tree of directories three
      levels deep whose non-dot entries on the fourth level all parse as versions);
    * a database resolves to `v`   ⇔ `v` is the greatest version installed for its reference that passes its
      constraint (`MaxInstalled`), where "installed for a reference" (`Installed`) means: a non-dot entry of the
      directory `plugins/<repo>/octosql-plugin-<name>` that parses to `v`;
    * hence two trees with the same `Installed` relation that both list fine and both have a readable extension
      registry start up identically (`startup_congr`).
-/
namespace Octo.Plugins
open Octo.Fs

section
variable {V C : Type} (S : Sem V C)

/-- version `v` is installed for `ref`: the three directories exist and a non-dot entry parses to `v` -/
def Installed (fs : Fs) (ref : Ref) (v : V) : Prop :=
  get fs pluginsDir = some .dir ∧ get fs (pluginsDir ++ [ref.repo]) = some .dir ∧ get fs (pluginDir ref) = some .dir ∧
  ∃ x, isDot x = false ∧ (get fs (pluginDir ref ++ [x])).isSome = true ∧ S.parse x = some v

/-- the greatest installed version passing `p` -/
def MaxInstalled (fs : Fs) (ref : Ref) (p : V → Bool) (v : V) : Prop :=
  Installed S fs ref v ∧ p v = true ∧ ∀ w, Installed S fs ref w → p w = true → S.gt w v = false

/-- a plugin directory whose versions can be listed -/
def PluginOk (fs : Fs) (pd : Path) : Prop :=
  get fs pd = some .dir ∧ ∀ x, isDot x = false → (get fs (pd ++ [x])).isSome = true → (S.parse x).isSome = true

def RepoOk (fs : Fs) (r : FName) : Prop :=
  get fs (pluginsDir ++ [r]) = some .dir ∧
  ∀ d, (get fs (pluginsDir ++ [r, d])).isSome = true → PluginOk S fs (pluginsDir ++ [r, d])

/-- the condition under which ListInstalledPlugins returns without error -/
def ListOk (fs : Fs) : Prop :=
  get fs pluginsDir = none ∨
  (get fs pluginsDir = some .dir ∧ ∀ r, (get fs (pluginsDir ++ [r])).isSome = true → RepoOk S fs r)

/-- every directory on the plugin level is called `octosql-plugin-…` (all that Install ever creates) -/
def NoUnprefixed (fs : Fs) : Prop :=
  ∀ r d, (get fs (pluginsDir ++ [r, d])).isSome = true → stripPrefix? pluginPrefix d ≠ none

/-! ### one plugin directory -/

theorem parseE_ok_iff {x : FName} {v : V} : parseE S x = .ok v ↔ S.parse x = some v := by
  simp only [parseE]; split <;> simp_all

theorem listVersions_isOk_iff {fs : Fs} {pd : Path} :
    (∃ vs, listVersions S fs pd = .ok vs) ↔ PluginOk S fs pd := by
  simp only [listVersions, PluginOk]
  cases hrd : readDir fs pd with
  | error e =>
    constructor
    · rintro ⟨vs, h⟩; cases h
    · rintro ⟨hdir, _⟩; simp [readDir, hdir] at hrd
  | ok names =>
    obtain ⟨hdir, rfl⟩ := readDir_ok_iff.1 hrd
    simp only [hdir, true_and]
    constructor
    · rintro ⟨vs, h⟩
      split at h
      · cases h
      · next vs' hm =>
        intro x hx hs
        have := (mapE_isOk_iff.1 ⟨_, hm⟩) x (by simp [mem_children, hx, hs])
        obtain ⟨v, hv⟩ := this
        simp [(parseE_ok_iff S).1 hv]
    · intro h
      have : ∃ ys, mapE (parseE S) ((children fs pd).filter (fun x => !isDot x)) = .ok ys := by
        apply mapE_isOk_iff.2
        intro x hx
        simp only [List.mem_filter, mem_children, Bool.not_eq_eq_eq_not, Bool.not_true] at hx
        have := h x hx.2 hx.1
        cases hp : S.parse x with
        | none => simp [hp] at this
        | some v => exact ⟨v, (parseE_ok_iff S).2 hp⟩
      obtain ⟨ys, hys⟩ := this
      exact ⟨sortDesc S.gt ys, by simp [hys]⟩

/-- the listed versions are the sorted list of some list `l` whose members are exactly the parsed non-dot entries -/
theorem listVersions_ok {fs : Fs} {pd : Path} {vs : List V} (h : listVersions S fs pd = .ok vs) :
    get fs pd = some .dir ∧ ∃ l, vs = sortDesc S.gt l ∧
      ∀ v, v ∈ l ↔ ∃ x, isDot x = false ∧ (get fs (pd ++ [x])).isSome = true ∧ S.parse x = some v := by
  simp only [listVersions] at h
  cases hrd : readDir fs pd with
  | error e => simp [hrd] at h
  | ok names =>
    obtain ⟨hdir, rfl⟩ := readDir_ok_iff.1 hrd
    simp only [hrd] at h
    split at h
    · cases h
    · next l hm =>
      cases h
      refine ⟨hdir, l, rfl, ?_⟩
      intro v
      rw [mapE_mem hm]
      simp only [List.mem_filter, mem_children, Bool.not_eq_eq_eq_not, Bool.not_true, parseE_ok_iff]
      constructor
      · rintro ⟨x, ⟨hs, hd⟩, hp⟩; exact ⟨x, hd, hs, hp⟩
      · rintro ⟨x, hd, hs, hp⟩; exact ⟨x, ⟨hs, hd⟩, hp⟩

/-! ### one repository directory, the whole plugins directory -/

theorem listPlugin_ok_iff {fs : Fs} {r d : FName} {m : Meta V} :
    listPlugin S fs r d = .ok m ↔ m.ref = ⟨nameOfDir d, r⟩ ∧ listVersions S fs (pluginsDir ++ [r, d]) = .ok m.versions := by
  simp only [listPlugin]
  split
  · next e he => simp [he]
  · next vs hvs =>
    constructor
    · intro h; cases h; exact ⟨rfl, hvs⟩
    · rintro ⟨h1, h2⟩
      rw [hvs] at h2; cases h2
      obtain ⟨ref, versions⟩ := m
      simp only at h1
      subst h1; rfl

theorem listRepo_isOk_iff {fs : Fs} {r : FName} : (∃ ms, listRepo S fs r = .ok ms) ↔ RepoOk S fs r := by
  simp only [listRepo, RepoOk]
  cases hrd : readDir fs (pluginsDir ++ [r]) with
  | error e =>
    constructor
    · rintro ⟨vs, h⟩; cases h
    · rintro ⟨hdir, _⟩; simp [readDir, hdir] at hrd
  | ok ds =>
    obtain ⟨hdir, rfl⟩ := readDir_ok_iff.1 hrd
    simp only [hdir, true_and]
    rw [mapE_isOk_iff]
    constructor
    · intro h d hd
      have hd' : d ∈ children fs (pluginsDir ++ [r]) := by simpa [mem_children] using hd
      obtain ⟨m, hm⟩ := h d hd'
      exact (listVersions_isOk_iff S).1 ⟨_, ((listPlugin_ok_iff S).1 hm).2⟩
    · intro h d hd
      have hd' : (get fs (pluginsDir ++ [r, d])).isSome = true := by simpa [mem_children] using hd
      obtain ⟨vs, hvs⟩ := (listVersions_isOk_iff S).2 (h d hd')
      exact ⟨⟨⟨nameOfDir d, r⟩, vs⟩, (listPlugin_ok_iff S).2 ⟨rfl, hvs⟩⟩

theorem listRepo_mem {fs : Fs} {r : FName} {ms : List (Meta V)} (h : listRepo S fs r = .ok ms) {m : Meta V} :
    m ∈ ms ↔ ∃ d, (get fs (pluginsDir ++ [r, d])).isSome = true ∧ listPlugin S fs r d = .ok m := by
  simp only [listRepo] at h
  cases hrd : readDir fs (pluginsDir ++ [r]) with
  | error e => simp [hrd] at h
  | ok ds =>
    obtain ⟨_, rfl⟩ := readDir_ok_iff.1 hrd
    simp only [hrd] at h
    rw [mapE_mem h]
    constructor
    · rintro ⟨d, hd, hm⟩; exact ⟨d, by simpa [mem_children] using hd, hm⟩
    · rintro ⟨d, hd, hm⟩; exact ⟨d, by simpa [mem_children] using hd, hm⟩

theorem listInstalled_isOk_iff {fs : Fs} : (∃ ms, listInstalled S fs = .ok ms) ↔ ListOk S fs := by
  simp only [listInstalled, ListOk]
  cases hrd : readDir fs pluginsDir with
  | error e =>
    cases hg : get fs pluginsDir with
    | none =>
      have := readDir_notExist_iff.2 hg
      rw [hrd] at this; cases this
      simp
    | some n =>
      cases n with
      | dir => simp [readDir, hg] at hrd
      | file c =>
        simp only [readDir, hg] at hrd
        cases hrd
        simp
  | ok rs =>
    obtain ⟨hdir, rfl⟩ := readDir_ok_iff.1 hrd
    simp only [hdir, reduceCtorEq, true_and, false_or]
    constructor
    · rintro ⟨ms, h⟩
      split at h
      · cases h
      · next mss hm =>
        intro r hr
        have hr' : r ∈ children fs pluginsDir := by simpa [mem_children] using hr
        exact (listRepo_isOk_iff S).1 ((mapE_isOk_iff.1 ⟨_, hm⟩) r hr')
    · intro h
      have : ∃ mss, mapE (listRepo S fs) (children fs pluginsDir) = .ok mss := by
        apply mapE_isOk_iff.2
        intro r hr
        exact (listRepo_isOk_iff S).2 (h r (by simpa [mem_children] using hr))
      obtain ⟨mss, hmss⟩ := this
      exact ⟨mss.flatten, by simp [hmss]⟩

theorem listInstalled_mem {fs : Fs} {ms : List (Meta V)} (h : listInstalled S fs = .ok ms) {m : Meta V} :
    m ∈ ms ↔ get fs pluginsDir = some .dir ∧
      ∃ r d, (get fs (pluginsDir ++ [r])).isSome = true ∧ (get fs (pluginsDir ++ [r, d])).isSome = true ∧
        listPlugin S fs r d = .ok m := by
  simp only [listInstalled] at h
  cases hrd : readDir fs pluginsDir with
  | error e =>
    simp only [hrd] at h
    cases e <;> simp at h
    subst h
    have := readDir_notExist_iff.1 hrd
    simp [this]
  | ok rs =>
    obtain ⟨hdir, rfl⟩ := readDir_ok_iff.1 hrd
    simp only [hrd] at h
    split at h
    · cases h
    · next mss hm =>
      cases h
      simp only [List.mem_flatten, hdir, true_and]
      constructor
      · rintro ⟨ms', hms', hmem⟩
        obtain ⟨r, hr, hlr⟩ := (mapE_mem hm).1 hms'
        obtain ⟨d, hd, hp⟩ := (listRepo_mem S hlr).1 hmem
        exact ⟨r, d, by simpa [mem_children] using hr, hd, hp⟩
      · rintro ⟨r, d, hr, hd, hp⟩
        have hr' : r ∈ children fs pluginsDir := by simpa [mem_children] using hr
        obtain ⟨ms', hms'⟩ := (mapE_isOk_iff.1 ⟨_, hm⟩) r hr'
        exact ⟨ms', (mapE_mem hm).2 ⟨r, hr', hms'⟩, (listRepo_mem S hms').2 ⟨d, hd, hp⟩⟩

/-! ### resolution -/

theorem pluginDir_of_prefixed {r d : FName} (hd : stripPrefix? pluginPrefix d ≠ none) :
    pluginDir ⟨nameOfDir d, r⟩ = pluginsDir ++ [r, d] := by
  have := nameOfDir_eq_of_prefixed hd rfl
  simp only [pluginDir]
  rw [← this]

/-- for an entry of the listing, "first version passing `p`" is "greatest installed version passing `p`" -/
theorem find?_versions_iff (L : OrderLaws S.gt) {fs : Fs} {ms : List (Meta V)} (h : listInstalled S fs = .ok ms)
    (hnu : NoUnprefixed fs) {m : Meta V} (hm : m ∈ ms) (p : V → Bool) (v : V) :
    m.versions.find? p = some v ↔ MaxInstalled S fs m.ref p v := by
  obtain ⟨hP, r, d, hr, hd, hlp⟩ := (listInstalled_mem S h).1 hm
  obtain ⟨href, hlv⟩ := (listPlugin_ok_iff S).1 hlp
  obtain ⟨hD, l, hvs, hl⟩ := listVersions_ok S hlv
  have hok := (listInstalled_isOk_iff S).1 ⟨ms, h⟩
  have hR : get fs (pluginsDir ++ [r]) = some .dir := by
    rcases hok with hnone | ⟨_, hall⟩
    · rw [hnone] at hP; cases hP
    · exact (hall r hr).1
  have hpd : pluginDir m.ref = pluginsDir ++ [r, d] := by rw [href]; exact pluginDir_of_prefixed (hnu r d hd)
  have hrepo : m.ref.repo = r := by rw [href]
  rw [hvs, find?_sortDesc_eq_some_iff L]
  simp only [IsMaxSat, MaxInstalled, Installed, hpd, hrepo, hP, hR, hD, true_and, hl]

theorem find?_versions_none_iff {fs : Fs} {ms : List (Meta V)} (h : listInstalled S fs = .ok ms)
    (hnu : NoUnprefixed fs) {m : Meta V} (hm : m ∈ ms) (p : V → Bool) :
    m.versions.find? p = none ↔ ∀ w, Installed S fs m.ref w → p w = false := by
  obtain ⟨hP, r, d, hr, hd, hlp⟩ := (listInstalled_mem S h).1 hm
  obtain ⟨href, hlv⟩ := (listPlugin_ok_iff S).1 hlp
  obtain ⟨hD, l, hvs, hl⟩ := listVersions_ok S hlv
  have hok := (listInstalled_isOk_iff S).1 ⟨ms, h⟩
  have hR : get fs (pluginsDir ++ [r]) = some .dir := by
    rcases hok with hnone | ⟨_, hall⟩
    · rw [hnone] at hP; cases hP
    · exact (hall r hr).1
  have hpd : pluginDir m.ref = pluginsDir ++ [r, d] := by rw [href]; exact pluginDir_of_prefixed (hnu r d hd)
  have hrepo : m.ref.repo = r := by rw [href]
  rw [hvs, find?_sortDesc_eq_none_iff]
  simp only [Installed, hpd, hrepo, hP, hR, hD, true_and, hl]

/-- an installed reference has an entry in the listing -/
theorem exists_meta_of_installed {fs : Fs} {ms : List (Meta V)} (h : listInstalled S fs = .ok ms)
    {ref : Ref} {v : V} (hi : Installed S fs ref v) : ∃ m ∈ ms, m.ref = ref := by
  obtain ⟨hP, hR, hD, _⟩ := hi
  have hok := (listInstalled_isOk_iff S).1 ⟨ms, h⟩
  rcases hok with hnone | ⟨_, hall⟩
  · rw [hnone] at hP; cases hP
  · have hr : (get fs (pluginsDir ++ [ref.repo])).isSome = true := by simp [hR]
    have hd : (get fs (pluginsDir ++ [ref.repo, pluginDirName ref.name])).isSome = true := by
      have : pluginDir ref = pluginsDir ++ [ref.repo, pluginDirName ref.name] := rfl
      rw [← this, hD]; rfl
    obtain ⟨vs, hvs⟩ := (listVersions_isOk_iff S).2 ((hall _ hr).2 _ hd)
    refine ⟨⟨⟨nameOfDir (pluginDirName ref.name), ref.repo⟩, vs⟩, ?_, ?_⟩
    · exact (listInstalled_mem S h).2 ⟨hP, ref.repo, _, hr, hd, (listPlugin_ok_iff S).2 ⟨rfl, hvs⟩⟩
    · simp [nameOfDir_pluginDirName]

/-- the `dbLoop` of RunE: a database resolves to the greatest installed version of its plugin that passes its constraint -/
theorem resolveDb_eq_some_iff (L : OrderLaws S.gt) {fs : Fs} {ms : List (Meta V)} (h : listInstalled S fs = .ok ms)
    (hnu : NoUnprefixed fs) (db : Db C) (v : V) :
    resolveDb S ms db = some v ↔ MaxInstalled S fs db.type (S.check (db.con S)) v := by
  simp only [resolveDb]
  cases hf : ms.find? (fun m => decide (m.ref = db.type)) with
  | none =>
    simp only [reduceCtorEq, false_iff]
    intro hmax
    obtain ⟨m, hm, href⟩ := exists_meta_of_installed S h hmax.1
    have := List.find?_eq_none.1 hf m hm
    simp [href] at this
  | some m =>
    have hm := List.mem_of_find?_eq_some hf
    have href : m.ref = db.type := by simpa using List.find?_some hf
    simp only []
    rw [find?_versions_iff S L h hnu hm, href]

theorem resolveDb_eq_none_iff {fs : Fs} {ms : List (Meta V)} (h : listInstalled S fs = .ok ms)
    (hnu : NoUnprefixed fs) (db : Db C) :
    resolveDb S ms db = none ↔ ∀ w, Installed S fs db.type w → S.check (db.con S) w = false := by
  simp only [resolveDb]
  cases hf : ms.find? (fun m => decide (m.ref = db.type)) with
  | none =>
    simp only [true_iff]
    intro w hw
    obtain ⟨m, hm, href⟩ := exists_meta_of_installed S h hw
    have := List.find?_eq_none.1 hf m hm
    simp [href] at this
  | some m =>
    have hm := List.mem_of_find?_eq_some hf
    have href : m.ref = db.type := by simpa using List.find?_some hf
    simp only []
    rw [find?_versions_none_iff S h hnu hm, href]

/-! ### start-up -/

theorem startup_ok_iff {fs : Fs} {cfg : List (Db C)} {res : List (Db C × V)} :
    startup S fs cfg = .ok res ↔
      ∃ ms, listInstalled S fs = .ok ms ∧ mapE (resolveE S ms) cfg = .ok res ∧ loadHandlers S fs = .ok () := by
  simp only [startup]
  cases h1 : listInstalled S fs with
  | error e => simp
  | ok ms =>
    simp only [Except.ok.injEq, exists_eq_left']
    cases h2 : mapE (resolveE S ms) cfg with
    | error e => simp
    | ok res' =>
      cases h3 : loadHandlers S fs with
      | error e => simp
      | ok u => cases u; simp

theorem MaxInstalled.congr {fs fs' : Fs} (hI : ∀ ref v, Installed S fs ref v ↔ Installed S fs' ref v)
    (ref : Ref) (p : V → Bool) (v : V) : MaxInstalled S fs ref p v ↔ MaxInstalled S fs' ref p v := by
  simp only [MaxInstalled, hI]

/-- two trees with the same installed versions, both listable, whose extension registries load alike,
    start up identically -/
theorem startup_congr (L : OrderLaws S.gt) {fs fs' : Fs} (hnu : NoUnprefixed fs) (hnu' : NoUnprefixed fs')
    (hok : ListOk S fs) (hok' : ListOk S fs') (hI : ∀ ref v, Installed S fs ref v ↔ Installed S fs' ref v)
    (hH : loadHandlers S fs = loadHandlers S fs') (cfg : List (Db C)) :
    startup S fs cfg = startup S fs' cfg := by
  obtain ⟨ms, hms⟩ := (listInstalled_isOk_iff S).2 hok
  obtain ⟨ms', hms'⟩ := (listInstalled_isOk_iff S).2 hok'
  have hres : ∀ db, resolveDb S ms db = resolveDb S ms' db := by
    intro db
    apply Option.ext
    intro v
    rw [resolveDb_eq_some_iff S L hms hnu, resolveDb_eq_some_iff S L hms' hnu', MaxInstalled.congr S hI]
  have hmap : mapE (resolveE S ms) cfg = mapE (resolveE S ms') cfg := by
    apply mapE_congr
    intro db _
    simp only [resolveE, hres]
  simp only [startup, hms, hms', hmap, hH]

/-- when installed versions are only added, a start-up that worked keeps working (it may resolve differently) -/
theorem startup_isOk_mono (L : OrderLaws S.gt) {fs fs' : Fs} (hnu : NoUnprefixed fs) (hnu' : NoUnprefixed fs')
    (hok' : ListOk S fs') (hI : ∀ ref v, Installed S fs ref v → Installed S fs' ref v)
    (hH : loadHandlers S fs' = .ok ()) {cfg : List (Db C)} {res : List (Db C × V)}
    (h : startup S fs cfg = .ok res) : ∃ res', startup S fs' cfg = .ok res' := by
  obtain ⟨ms, hms, hmap, _⟩ := (startup_ok_iff S).1 h
  obtain ⟨ms', hms'⟩ := (listInstalled_isOk_iff S).2 hok'
  have : ∃ res', mapE (resolveE S ms') cfg = .ok res' := by
    apply mapE_isOk_iff.2
    intro db hdb
    obtain ⟨e, he⟩ := (mapE_isOk_iff.1 ⟨_, hmap⟩) db hdb
    simp only [resolveE] at he ⊢
    cases hr : resolveDb S ms db with
    | none => simp [hr] at he
    | some v =>
      have hv := (resolveDb_eq_some_iff S L hms hnu db v).1 hr
      cases hr' : resolveDb S ms' db with
      | none =>
        have := (resolveDb_eq_none_iff S hms' hnu' db).1 hr' v (hI _ _ hv.1)
        simp [hv.2.1] at this
      | some v' => exact ⟨_, rfl⟩
  obtain ⟨res', hres'⟩ := this
  exact ⟨res', (startup_ok_iff S).2 ⟨ms', hms', hres', hH⟩⟩

end
end Octo.Plugins
