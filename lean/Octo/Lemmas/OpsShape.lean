import Octo.Lemmas.OpsWm
import Octo.Lemmas.OpsStateless
import Octo.Lemmas.OpsGroupFinal
/-!
  Octo.Lemmas.OpsShape — the *shape* of each node's output, without any validity hypothesis:
  sublist of the input (Filter, Distinct, Limit), record-wise rewrite (Map, Unnest, LookupJoin),
  watermarks followed by a final batch (SimpleGroupBy, CustomTriggerGroupBy), final batch only
  (OrderSensitiveTransform).  These feed the C18 theorems.
-/
namespace Octo.Ops
open Octo

theorem flatMap_sublist (emit : Msg → List Msg) (h : ∀ m, emit m = [m] ∨ emit m = []) (ms : List Msg) :
    (ms.flatMap emit).Sublist ms := by
  induction ms with
  | nil => exact List.Sublist.slnil
  | cons m ms ih =>
    rw [List.flatMap_cons]
    rcases h m with h' | h' <;> rw [h']
    · exact List.Sublist.cons_cons _ ih
    · exact List.Sublist.cons _ ih

theorem filter_out_sublist (p : Row → Value) (ms : List Msg) :
    ((filterOp fun x => .ok (p x)).run ms).1.Sublist ms := by
  rw [filter_run]
  apply flatMap_sublist
  intro m
  cases m with
  | wm t => left; rfl
  | data r => simp only [filterEmit]; split <;> simp

theorem distinct_out_sublist (ms : List Msg) : ∀ cnt f, (distinctOp.runFrom cnt ms f).1.Sublist ms := by
  induction ms with
  | nil => intro cnt f; cases f <;> exact List.Sublist.slnil
  | cons m ms ih =>
    intro cnt f
    cases m with
    | wm t =>
      have hstep : distinctOp.onMsg cnt (.wm t) = (cnt, [], none) := rfl
      simp only [Op.runFrom, hstep, List.nil_append]
      exact List.Sublist.cons _ (ih cnt f)
    | data r =>
      have : ∃ cnt' out, distinctOp.onMsg cnt (.data r) = (cnt', out, none) ∧ (out = [] ∨ out = [.data r]) := by
        simp only [distinctOp]
        repeat' split
        all_goals first | exact ⟨_, _, rfl, Or.inr rfl⟩ | exact ⟨_, _, rfl, Or.inl rfl⟩
      obtain ⟨cnt', out, hstep, ho⟩ := this
      simp only [Op.runFrom, hstep]
      rcases ho with h | h <;> subst h
      · exact List.Sublist.cons _ (ih cnt' f)
      · exact List.Sublist.cons_cons _ (ih cnt' f)

theorem limit_out_sublist (n : Int) (ms : List Msg) : ∀ i f, ((limitOp n).runFrom i ms f).1.Sublist ms := by
  induction ms with
  | nil => intro i f; cases f <;> simp [Op.runFrom, limitOp, propagate]
  | cons m ms ih =>
    intro i f
    cases m with
    | wm t =>
      have hstep : (limitOp n).onMsg i (.wm t) = (i, [.wm t], none) := rfl
      simp only [Op.runFrom, hstep]
      exact List.Sublist.cons_cons _ (ih i f)
    | data r =>
      by_cases h : i + 1 = n
      · have hstep : (limitOp n).onMsg i (.data r) = (i + 1, [.data r], some .limit) := by simp [limitOp, h]
        simp only [Op.runFrom, hstep]
        simp [limitOp]
      · have hstep : (limitOp n).onMsg i (.data r) = (i + 1, [.data r], none) := by simp [limitOp, h]
        simp only [Op.runFrom, hstep]
        exact List.Sublist.cons_cons _ (ih (i + 1) f)

/-! ### Unnest -/
def unnestEmit (idx : Nat) : Msg → List Msg
  | .wm t => [.wm t]
  | .data r => (unnestRow idx r.vals).map fun v => .data { vals := v, retr := r.retr, et := r.et }

def unnestBlock (idx : Nat) (r : Rec) : List Rec :=
  (unnestRow idx r.vals).map fun v => { vals := v, retr := r.retr, et := r.et }

theorem unnest_run (idx : Nat) (ms : List Msg) (h : ∀ r ∈ recs ms, idx < r.vals.length) :
    (unnestOp idx).run ms = (ms.flatMap (unnestEmit idx), none) := by
  apply runFrom_stateless _ _ rfl ms
  intro m hm
  cases m with
  | wm t => rfl
  | data r =>
    have hlen : idx < r.vals.length := h r (by
      clear h
      induction ms with
      | nil => simp at hm
      | cons a as ih =>
        rcases List.mem_cons.mp hm with h' | h'
        · subst h'; simp [recs]
        · cases a <;> simp [recs, ih h'])
    simp only [unnestOp, unnestEmit, unnestRow]
    have : r.vals[idx]? = some r.vals[idx] := List.getElem?_eq_getElem hlen
    rw [this]
    cases r.vals[idx] <;> simp

theorem unnest_recs (idx : Nat) (ms : List Msg) (h : ∀ r ∈ recs ms, idx < r.vals.length) :
    recs ((unnestOp idx).run ms).1 = (recs ms).flatMap (unnestBlock idx) := by
  rw [unnest_run idx ms h]
  apply recs_flatMap
  · intro t; rfl
  · intro r
    simp only [unnestEmit, unnestBlock]
    induction unnestRow idx r.vals with
    | nil => rfl
    | cons v vs ih => simp [recs, ih]

/-! ### SimpleGroupBy / CustomTriggerGroupBy / OrderSensitiveTransform: the final batch -/
theorem gFlush_shape (agg : GAgg α) (groups : List (Row × GItem α)) (out : List Msg)
    (h : gFlush agg groups = some out) : ∃ l : List Rec, out = l.map .data ∧ ∀ q ∈ l, q.et = none := by
  induction groups generalizing out with
  | nil => simp only [gFlush, Option.some.injEq] at h; subst h; exact ⟨[], rfl, by simp⟩
  | cons e es ih =>
    obtain ⟨k, it⟩ := e
    simp only [gFlush] at h
    split at h
    · rename_i row ms' _ hrest
      simp only [Option.some.injEq] at h; subst h
      obtain ⟨l, hl, het⟩ := ih ms' hrest
      exact ⟨{ vals := row, retr := false, et := none } :: l, by simp [hl], by
        intro q hq
        rcases List.mem_cons.mp hq with h' | h'
        · subst h'; rfl
        · exact het q h'⟩
    · cases h

theorem sgroup_shape (agg : GAgg α) (kf inf : Row → Row) (ms : List Msg) :
    ∀ groups, ∃ l : List Rec,
      ((simpleGroupOp agg (fun x => .ok (kf x)) (fun x => .ok (inf x))).runFrom groups ms false).1 =
        wmMsgs ms ++ l.map .data ∧ ∀ q ∈ l, q.et = none := by
  induction ms with
  | nil =>
    intro groups
    simp only [Op.runFrom, simpleGroupOp, wmMsgs, wms, List.map_nil, List.nil_append]
    cases h : gFlush agg groups with
    | none => exact ⟨[], rfl, by simp⟩
    | some out => exact gFlush_shape agg groups out h
  | cons m ms ih =>
    intro groups
    cases m with
    | wm t =>
      have hstep : (simpleGroupOp agg (fun x => .ok (kf x)) (fun x => .ok (inf x))).onMsg groups (.wm t) =
          (groups, [.wm t], none) := rfl
      obtain ⟨l, hl, het⟩ := ih groups
      exact ⟨l, by simp only [Op.runFrom, hstep, hl, wmMsgs, wms, List.map_cons, List.cons_append, List.nil_append], het⟩
    | data r =>
      have hstep : (simpleGroupOp agg (fun x => .ok (kf x)) (fun x => .ok (inf x))).onMsg groups (.data r) =
          (gUpdate agg groups (kf r.vals) r.retr (inf r.vals), [], none) := rfl
      obtain ⟨l, hl, het⟩ := ih (gUpdate agg groups (kf r.vals) r.retr (inf r.vals))
      exact ⟨l, by simp only [Op.runFrom, hstep, hl, wmMsgs, wms, List.nil_append], het⟩

theorem order_shape (dirs : List Int) (kf : Row → Row) (limit : Option Int) (noRetr : Bool) (ms : List Msg) :
    ∀ t, ∃ l : List Rec,
      ((orderOp dirs (fun x => .ok (kf x)) limit noRetr).runFrom t ms false).1 = l.map .data ∧
        ∀ q ∈ l, q.et = none ∧ q.retr = false := by
  induction ms with
  | nil =>
    intro t
    refine ⟨(takeOpt limit (treeRows t)).map fun v => { vals := v, retr := false, et := none }, ?_, ?_⟩
    · simp [Op.runFrom, orderOp, addRec, List.map_map, Function.comp_def]
    · intro q hq; simp only [List.mem_map] at hq; obtain ⟨_, _, rfl⟩ := hq; exact ⟨rfl, rfl⟩
  | cons m ms ih =>
    intro t
    cases m with
    | wm w =>
      have hstep : (orderOp dirs (fun x => .ok (kf x)) limit noRetr).onMsg t (.wm w) = (t, [], none) := rfl
      obtain ⟨l, hl, h⟩ := ih t
      exact ⟨l, by simp only [Op.runFrom, hstep, hl, List.nil_append], h⟩
    | data r =>
      have : ∃ t', (orderOp dirs (fun x => .ok (kf x)) limit noRetr).onMsg t (.data r) = (t', [], none) := by
        simp only [orderOp]; exact ⟨_, rfl⟩
      obtain ⟨t', hstep⟩ := this
      obtain ⟨l, hl, h⟩ := ih t'
      exact ⟨l, by simp only [Op.runFrom, hstep, hl, List.nil_append], h⟩

theorem ctgbFlush_shape (agg : GAgg α) (groups : List (Row × GItem α)) (keys : List Row) :
    ∀ out, ctgbFlush agg none groups keys = .ok out →
      ∃ l : List Rec, out = l.map .data ∧ ∀ q ∈ l, q.et = some maxWm ∧ q.retr = false := by
  induction keys with
  | nil => intro out h; simp only [ctgbFlush, Except.ok.injEq] at h; subst h; exact ⟨[], rfl, by simp⟩
  | cons k ks ih =>
    intro out h
    simp only [ctgbFlush] at h
    split at h
    · exact ih out h
    · split at h
      · cases h
      · split at h
        · rename_i row _ _ _ et ms' het hrest
          simp only [Except.ok.injEq] at h; subst h
          obtain ⟨l, hl, hq⟩ := ih ms' hrest
          simp only [ctgbEventTime, Except.ok.injEq] at het
          refine ⟨{ vals := row, retr := false, et := et } :: l, by simp [hl], ?_⟩
          intro q hq'
          rcases List.mem_cons.mp hq' with h' | h'
          · subst h'; exact ⟨het.symm, rfl⟩
          · exact hq q h'
        · cases h
        · cases h

theorem ctgb_shape (agg : GAgg α) (kf inf : Row → Row) (ms : List Msg) :
    ∀ s, ∃ l : List Rec,
      ((ctgbOp agg (fun x => .ok (kf x)) (fun x => .ok (inf x)) none).runFrom s ms false).1 =
        wmMsgs ms ++ l.map .data ∧ ∀ q ∈ l, q.et = some maxWm ∧ q.retr = false := by
  induction ms with
  | nil =>
    intro s
    simp only [Op.runFrom, ctgbOp, wmMsgs, wms, List.map_nil, List.nil_append]
    cases h : ctgbFlush agg none s.groups s.keys with
    | error e => exact ⟨[], rfl, by simp⟩
    | ok out => exact ctgbFlush_shape agg s.groups s.keys out h
  | cons m ms ih =>
    intro s
    cases m with
    | wm t =>
      have hstep : (ctgbOp agg (fun x => .ok (kf x)) (fun x => .ok (inf x)) none).onMsg s (.wm t) =
          (s, [.wm t], none) := rfl
      obtain ⟨l, hl, het⟩ := ih s
      exact ⟨l, by simp only [Op.runFrom, hstep, hl, wmMsgs, wms, List.map_cons, List.cons_append, List.nil_append], het⟩
    | data r =>
      have : ∃ s', (ctgbOp agg (fun x => .ok (kf x)) (fun x => .ok (inf x)) none).onMsg s (.data r) = (s', [], none) :=
        ⟨_, rfl⟩
      obtain ⟨s', hstep⟩ := this
      obtain ⟨l, hl, het⟩ := ih s'
      exact ⟨l, by simp only [Op.runFrom, hstep, hl, wmMsgs, wms, List.nil_append], het⟩

theorem wms_wmMsgs (ms : List Msg) : wms (wmMsgs ms) = wms ms := by
  simp only [wmMsgs]
  induction wms ms with
  | nil => rfl
  | cons t ts ih => simp [wms, ih]

end Octo.Ops
