import Octo.Lemmas.PluginsFrame
/-!
  Crash analysis of `installPrims` and `addRepoPrims` (C27).

  The hidden region of an installation job is everything at or below its staging directory `.installing-<v>` and
  its trash directory `.old-<v>`, plus the temporary registry file. Steps confined to the hidden region leave the
  visible tree alone, except that `MkdirAll(stagingDir)` may create the (empty) ancestors of the plugin directory.
-/
namespace Octo.Plugins
open Octo.Fs

/-! ### paths of a job -/

def InstallJob.D (j : InstallJob) : Path := pluginDir j.ref
def InstallJob.Sg (j : InstallJob) : Path := stagingDir j.ref j.v
def InstallJob.O (j : InstallJob) : Path := oldDir j.ref j.v
def InstallJob.N (j : InstallJob) : Path := versionDir j.ref j.v

/-- the hidden region -/
def Hid (j : InstallJob) (q : Path) : Prop :=
  isPre j.Sg q = true ∨ isPre j.O q = true ∨ q = handlersTmp

theorem Sg_eq (j : InstallJob) : j.Sg = j.D ++ [lit ".installing-" ++ j.v] := rfl
theorem O_eq (j : InstallJob) : j.O = j.D ++ [lit ".old-" ++ j.v] := rfl
theorem N_eq (j : InstallJob) : j.N = j.D ++ [j.v] := rfl
theorem D_eq (j : InstallJob) : j.D = pluginsDir ++ [j.ref.repo, pluginDirName j.ref.name] := rfl

theorem hid_of_pre {j : InstallJob} {p q : Path} (hp : isPre j.Sg p = true ∨ isPre j.O p = true) (hpq : isPre p q = true) :
    Hid j q := by
  rcases hp with h | h
  · exact Or.inl (isPre_trans h hpq)
  · exact Or.inr (Or.inl (isPre_trans h hpq))

/-- a path that is a prefix of something below `D ++ [s]` but is not itself below `D ++ [s]` is a prefix of `D` -/
theorem pre_of_pre_child {D : Path} {s : FName} {p q : Path} (hq : isPre q p = true) (hp : isPre (D ++ [s]) p = true)
    (hn : isPre (D ++ [s]) q = false) : isPre q D = true := by
  have h1 := List.isPrefixOf_iff_prefix.1 hq
  have h2 := List.isPrefixOf_iff_prefix.1 hp
  rcases List.prefix_or_prefix_of_prefix h1 h2 with h | h
  · rcases List.prefix_concat_iff.1 h with h' | h'
    · subst h'; simp [isPre_refl] at hn
    · exact List.isPrefixOf_iff_prefix.2 h'
  · have := List.isPrefixOf_iff_prefix.2 h
    simp only [isPre] at hn
    rw [hn] at this; cases this

theorem vis_not_hid {j : InstallJob} {q : Path} (hq : Vis q) : ¬ Hid j q := by
  have dotS : isDot (lit ".installing-" ++ j.v) = true := rfl
  have dotO : isDot (lit ".old-" ++ j.v) = true := rfl
  rintro (h | h | h)
  · obtain ⟨t, ht⟩ := isPre_iff.1 h
    rcases hq with rfl | ⟨r, rfl⟩ | ⟨r, d, rfl⟩ | ⟨r, d, x, hx, rfl⟩
    · simp [Sg_eq, D_eq, pluginsDir] at ht
    · simp [Sg_eq, D_eq, pluginsDir] at ht
    · simp [Sg_eq, D_eq, pluginsDir] at ht
    · simp only [Sg_eq, D_eq, pluginsDir, List.cons_append, List.nil_append, List.append_assoc, List.cons.injEq, true_and] at ht
      obtain ⟨_, _, hx', _⟩ := ht
      rw [hx'] at hx; rw [dotS] at hx; cases hx
  · obtain ⟨t, ht⟩ := isPre_iff.1 h
    rcases hq with rfl | ⟨r, rfl⟩ | ⟨r, d, rfl⟩ | ⟨r, d, x, hx, rfl⟩
    · simp [O_eq, D_eq, pluginsDir] at ht
    · simp [O_eq, D_eq, pluginsDir] at ht
    · simp [O_eq, D_eq, pluginsDir] at ht
    · simp only [O_eq, D_eq, pluginsDir, List.cons_append, List.nil_append, List.append_assoc, List.cons.injEq, true_and] at ht
      obtain ⟨_, _, hx', _⟩ := ht
      rw [hx'] at hx; rw [dotO] at hx; cases hx
  · rcases hq with rfl | ⟨r, rfl⟩ | ⟨r, d, rfl⟩ | ⟨r, d, x, hx, rfl⟩ <;> simp [pluginsDir, handlersTmp, lit] at h

theorem handlersFile_not_hid (j : InstallJob) : ¬ Hid j handlersFile := by
  rintro (h | h | h)
  · obtain ⟨t, ht⟩ := isPre_iff.1 h; simp [Sg_eq, D_eq, pluginsDir, handlersFile, lit] at ht
  · obtain ⟨t, ht⟩ := isPre_iff.1 h; simp [O_eq, D_eq, pluginsDir, handlersFile, lit] at ht
  · simp [handlersFile, handlersTmp, lit] at h

/-- below a version directory whose name does not start with "." -/
def InVersionDir (q : Path) : Prop := ∃ ref x t, isDot x = false ∧ q = pluginDir ref ++ [x] ++ t

theorem inVersionDir_not_hid {j : InstallJob} {q : Path} (hq : InVersionDir q) : ¬ Hid j q := by
  obtain ⟨ref, x, t, hx, rfl⟩ := hq
  have dotS : isDot (lit ".installing-" ++ j.v) = true := rfl
  have dotO : isDot (lit ".old-" ++ j.v) = true := rfl
  rintro (h | h | h)
  · obtain ⟨u, hu⟩ := isPre_iff.1 h
    simp only [Sg_eq, D_eq, pluginDir, pluginsDir, List.cons_append, List.nil_append, List.append_assoc, List.cons.injEq, true_and] at hu
    obtain ⟨_, _, hx', _⟩ := hu
    rw [hx'] at hx; rw [dotS] at hx; cases hx
  · obtain ⟨u, hu⟩ := isPre_iff.1 h
    simp only [O_eq, D_eq, pluginDir, pluginsDir, List.cons_append, List.nil_append, List.append_assoc, List.cons.injEq, true_and] at hu
    obtain ⟨_, _, hx', _⟩ := hu
    rw [hx'] at hx; rw [dotO] at hx; cases hx
  · simp [pluginDir, pluginsDir, handlersTmp] at h

theorem inVersionDir_not_pre_D {j : InstallJob} {q : Path} (hq : InVersionDir q) : isPre q j.D = false := by
  obtain ⟨ref, x, t, _, rfl⟩ := hq
  cases h : isPre (pluginDir ref ++ [x] ++ t) j.D with
  | false => rfl
  | true => have := isPre_len h; simp [D_eq, pluginDir, pluginsDir] at this

/-! ### steps confined to the hidden region -/

/-- all paths of the step lie at or below `root` -/
def Under (root : Path) : Prim → Prop
  | .removeAll p => isPre root p = true
  | .mkdirAll p => isPre root p = true
  | .create p => isPre root p = true
  | .append p _ => isPre root p = true
  | .remove p => isPre root p = true
  | .rename a b => isPre root a = true ∧ isPre root b = true
  | .renameIfExists a b => isPre root a = true ∧ isPre root b = true

def Confined (j : InstallJob) (p : Prim) : Prop :=
  Under j.Sg p ∨ Under j.O p ∨ p = .create handlersTmp ∨ ∃ bs, p = .append handlersTmp bs

/-- `fs` is `fs₀` outside the hidden region, except for new empty ancestors of the plugin directory -/
def ExtA (j : InstallJob) (fs₀ fs : Fs) : Prop :=
  ∀ q, ¬ Hid j q → get fs q = get fs₀ q ∨ (isPre q j.D = true ∧ get fs₀ q = none ∧ get fs q = some .dir)

theorem extA_refl (j : InstallJob) (fs : Fs) : ExtA j fs fs := fun _ _ => Or.inl rfl

/-- a step that leaves everything outside the hidden region alone keeps `ExtA` -/
theorem extA_of_frame {j : InstallJob} {fs₀ fs fs' : Fs} (h : ExtA j fs₀ fs)
    (hf : ∀ q, ¬ Hid j q → get fs' q = get fs q) : ExtA j fs₀ fs' := by
  intro q hq
  rw [hf q hq]; exact h q hq

theorem under_hid {j : InstallJob} {root p q : Path} (hroot : root = j.Sg ∨ root = j.O) (hp : isPre root p = true)
    (hpq : isPre p q = true) : Hid j q := by
  rcases hroot with rfl | rfl
  · exact Or.inl (isPre_trans hp hpq)
  · exact Or.inr (Or.inl (isPre_trans hp hpq))

theorem extA_step_under {j : InstallJob} {root : Path} (hroot : root = j.Sg ∨ root = j.O) {fs₀ fs fs' : Fs} {p : Prim}
    (h : ExtA j fs₀ fs) (hu : Under root p) (hp : p.apply fs = .ok fs') : ExtA j fs₀ fs' := by
  have hid : ∀ a q, isPre root a = true → isPre a q = true → Hid j q := fun a q => under_hid hroot
  cases p with
  | removeAll a =>
    simp only [Prim.apply, Except.ok.injEq] at hp; subst hp
    apply extA_of_frame h
    intro q hq
    rw [get_removeAll]
    split
    · next hpre => exact absurd (hid a q hu hpre) hq
    · rfl
  | mkdirAll a =>
    simp only [Prim.apply] at hp
    intro q hq
    rcases get_mkdirAll hp q with h' | ⟨hn, hd, hpre, _⟩
    · rw [h']; exact h q hq
    · -- q is a new directory on the way to `a`; it is not hidden, so it is an ancestor of the plugin directory
      have hqD : isPre q j.D = true := by
        rcases hroot with rfl | rfl
        · have hnot : isPre (j.D ++ [lit ".installing-" ++ j.v]) q = false := by
            cases hh : isPre (j.D ++ [lit ".installing-" ++ j.v]) q with
            | false => rfl
            | true => exact absurd (Or.inl hh) hq
          exact pre_of_pre_child hpre hu hnot
        · have hnot : isPre (j.D ++ [lit ".old-" ++ j.v]) q = false := by
            cases hh : isPre (j.D ++ [lit ".old-" ++ j.v]) q with
            | false => rfl
            | true => exact absurd (Or.inr (Or.inl hh)) hq
          exact pre_of_pre_child hpre hu hnot
      rcases h q hq with h'' | ⟨_, _, hdir⟩
      · right; exact ⟨hqD, by rw [← h'']; exact hn, hd⟩
      · rw [hn] at hdir; cases hdir
  | create a =>
    simp only [Prim.apply] at hp
    apply extA_of_frame h
    intro q hq
    rw [get_create hp]
    split
    · next he => subst he; exact absurd (hid a a hu (isPre_refl a)) hq
    · rfl
  | append a bs =>
    simp only [Prim.apply] at hp
    apply extA_of_frame h
    intro q hq
    exact get_append hp q (by rintro rfl; exact hq (hid q q hu (isPre_refl q)))
  | remove a =>
    simp only [Prim.apply] at hp
    apply extA_of_frame h
    intro q hq
    rw [get_remove hp]
    split
    · next he => subst he; exact absurd (hid q q hu (isPre_refl q)) hq
    · rfl
  | rename a b =>
    simp only [Prim.apply] at hp
    apply extA_of_frame h
    intro q hq
    apply (get_rename hp q).1
    · cases hh : isPre a q with
      | false => rfl
      | true => exact absurd (hid a q hu.1 hh) hq
    · cases hh : isPre b q with
      | false => rfl
      | true => exact absurd (hid b q hu.2 hh) hq
  | renameIfExists a b =>
    simp only [Prim.apply, renameIfExists] at hp
    split at hp
    · cases hp; exact h
    · apply extA_of_frame h
      intro q hq
      apply (get_rename hp q).1
      · cases hh : isPre a q with
        | false => rfl
        | true => exact absurd (hid a q hu.1 hh) hq
      · cases hh : isPre b q with
        | false => rfl
        | true => exact absurd (hid b q hu.2 hh) hq

theorem extA_step {j : InstallJob} {fs₀ fs fs' : Fs} {p : Prim} (h : ExtA j fs₀ fs) (hc : Confined j p)
    (hp : p.apply fs = .ok fs') : ExtA j fs₀ fs' := by
  rcases hc with hu | hu | rfl | ⟨bs, rfl⟩
  · exact extA_step_under (Or.inl rfl) h hu hp
  · exact extA_step_under (Or.inr rfl) h hu hp
  · simp only [Prim.apply] at hp
    apply extA_of_frame h
    intro q hq
    rw [get_create hp]
    split
    · next he => subst he; exact absurd (Or.inr (Or.inr rfl)) hq
    · rfl
  · simp only [Prim.apply] at hp
    apply extA_of_frame h
    intro q hq
    exact get_append hp q (by rintro rfl; exact hq (Or.inr (Or.inr rfl)))

theorem extA_run {j : InstallJob} {fs₀ fs : Fs} {ps : List Prim} (h : ExtA j fs₀ fs) (hc : ∀ p ∈ ps, Confined j p) :
    ExtA j fs₀ (run ps fs) :=
  run_invariant (Inv := ExtA j fs₀) (fun p hp s s' hs happ => extA_step hs (hc p hp) happ) h

/-! ### crash prefixes -/

theorem confined_tear {j : InstallJob} {p : Prim} (hc : Confined j p) (t : Nat) : ∀ q ∈ tearPrim t p, Confined j q := by
  intro q hq
  cases p with
  | append a bs =>
    simp only [tearPrim, List.mem_singleton] at hq; subst hq
    rcases hc with hu | hu | h | ⟨bs', h⟩
    · exact Or.inl hu
    · exact Or.inr (Or.inl hu)
    · cases h
    · cases h; exact Or.inr (Or.inr (Or.inr ⟨_, rfl⟩))
  | removeAll a => simp [tearPrim] at hq
  | mkdirAll a => simp [tearPrim] at hq
  | create a => simp [tearPrim] at hq
  | remove a => simp [tearPrim] at hq
  | rename a b => simp [tearPrim] at hq
  | renameIfExists a b => simp [tearPrim] at hq

theorem confined_crashPrims {j : InstallJob} {ps : List Prim} (hc : ∀ p ∈ ps, Confined j p) (k t : Nat) :
    ∀ p ∈ crashPrims k t ps, Confined j p := by
  intro p hp
  simp only [crashPrims, List.mem_append] at hp
  rcases hp with hp | hp
  · exact hc p (List.mem_of_mem_take hp)
  · cases hk : ps[k]? with
    | none => simp [hk] at hp
    | some x =>
      simp only [hk] at hp
      exact confined_tear (hc x (List.mem_of_getElem? hk)) t p hp

theorem crashPrims_append_lt {xs ys : List Prim} {k : Nat} (t : Nat) (h : k < xs.length) :
    crashPrims k t (xs ++ ys) = crashPrims k t xs := by
  simp only [crashPrims, List.take_append, List.getElem?_append_left h]
  have : k - xs.length = 0 := by omega
  simp [this]

theorem crashPrims_append_ge {xs ys : List Prim} {k : Nat} (t : Nat) (h : xs.length ≤ k) :
    crashPrims k t (xs ++ ys) = xs ++ crashPrims (k - xs.length) t ys := by
  simp only [crashPrims, List.take_append, List.getElem?_append_right h, List.take_of_length_le h, List.append_assoc]

theorem crashPrims_cons_zero (t : Nat) (p : Prim) (ps : List Prim) : crashPrims 0 t (p :: ps) = tearPrim t p := by
  simp [crashPrims]

theorem crashPrims_cons_succ (k t : Nat) (p : Prim) (ps : List Prim) :
    crashPrims (k + 1) t (p :: ps) = p :: crashPrims k t ps := by
  simp [crashPrims]

theorem crashPrims_nil (k t : Nat) : crashPrims k t [] = [] := by simp [crashPrims]

theorem crashPrims_full (t : Nat) (ps : List Prim) : crashPrims ps.length t ps = ps := by
  simp [crashPrims]

/-! ### the three segments of `installPrims` -/

def primsA (j : InstallJob) : List Prim := [.removeAll j.Sg, .mkdirAll j.Sg] ++ j.staging ++ [.removeAll j.O]

def handlerPrims (j : InstallJob) : List Prim :=
  match j.newHandlers with
  | some data => saveHandlersPrims data
  | none => []

def primsB (j : InstallJob) : List Prim := .removeAll j.O :: handlerPrims j

theorem installPrims_eq (j : InstallJob) :
    installPrims j = primsA j ++ (.renameIfExists j.N j.O :: .rename j.Sg j.N :: primsB j) := by
  unfold installPrims primsA primsB handlerPrims
  cases j.newHandlers <;> simp [InstallJob.Sg, InstallJob.O, InstallJob.N]

section main
variable {V C : Type} (S : Sem V C)

/-- the state before the operation: a real tree (closed), plugin directories named by Install, and octosql starts -/
structure Healthy (fs₀ : Fs) (cfg : List (Db C)) : Prop where
  closed : Closed fs₀
  nu : NoUnprefixed fs₀
  start : ∃ res, startup S fs₀ cfg = .ok res

/-- what is assumed of an installation job: the staging work stays below the staging directory, the version
    directory name is a version (it is `Version.String()`) not starting with ".", the new registry content decodes -/
structure JobOk (j : InstallJob) : Prop where
  staging : ∀ p ∈ j.staging, Under j.Sg p
  vparse : (S.parse j.v).isSome = true
  vdot : isDot j.v = false
  handlers : ∀ data, j.newHandlers = some data → S.handlersOk data = true

theorem primsA_confined {j : InstallJob} (hj : JobOk S j) : ∀ p ∈ primsA j, Confined j p := by
  intro p hp
  simp only [primsA, List.mem_append, List.mem_cons, List.mem_singleton, List.not_mem_nil, or_false] at hp
  rcases hp with ((rfl | rfl) | hp) | rfl
  · exact Or.inl (isPre_refl _)
  · exact Or.inl (isPre_refl _)
  · exact Or.inl (hj.staging p hp)
  · exact Or.inr (Or.inl (isPre_refl _))

/-- start-up behaves the same and every version directory is byte for byte the same -/
def SameAs (fs fs' : Fs) (cfg : List (Db C)) : Prop :=
  startup S fs cfg = startup S fs' cfg ∧ (∀ q, InVersionDir q → get fs q = get fs' q) ∧ NoUnprefixed fs

theorem N_inVersionDir {j : InstallJob} (hd : isDot j.v = false) (t : Path) : InVersionDir (j.N ++ t) :=
  ⟨j.ref, j.v, t, hd, rfl⟩

theorem handlersFile_not_pre_D (j : InstallJob) : isPre handlersFile j.D = false := by
  cases h : isPre handlersFile j.D with
  | false => rfl
  | true => obtain ⟨t, ht⟩ := isPre_iff.1 h; simp [D_eq, pluginsDir, handlersFile, lit] at ht

theorem listOk_of_healthy {fs₀ : Fs} {cfg : List (Db C)} (H : Healthy S fs₀ cfg) : ListOk S fs₀ := by
  obtain ⟨res, h⟩ := H.start
  obtain ⟨ms, hms, _, _⟩ := (startup_ok_iff S).1 h
  exact (listInstalled_isOk_iff S).1 ⟨ms, hms⟩

theorem loadHandlers_of_healthy {fs₀ : Fs} {cfg : List (Db C)} (H : Healthy S fs₀ cfg) : loadHandlers S fs₀ = .ok () := by
  obtain ⟨res, h⟩ := H.start
  obtain ⟨ms, _, _, hh⟩ := (startup_ok_iff S).1 h
  exact hh

/-- before the version directory is touched: exactly the old behaviour -/
theorem sameAs_of_extA (L : OrderLaws S.gt) {fs₀ fs : Fs} {cfg : List (Db C)} {j : InstallJob}
    (H : Healthy S fs₀ cfg) (hj : JobOk S j) (h : ExtA j fs₀ fs) : SameAs S fs fs₀ cfg := by
  have hver : ∀ q, InVersionDir q → get fs q = get fs₀ q := by
    intro q hq
    rcases h q (inVersionDir_not_hid hq) with h' | ⟨hpre, _, _⟩
    · exact h'
    · rw [inVersionDir_not_pre_D hq] at hpre; cases hpre
  have hvis : ExtVis j.ref j.v fs₀ fs := by
    intro q hq
    exact Or.inr (h q (vis_not_hid hq))
  have hN : get fs (pluginDir j.ref ++ [j.v]) = get fs₀ (pluginDir j.ref ++ [j.v]) := by
    have := hver (j.N ++ []) (N_inVersionDir hj.vdot [])
    simp only [List.append_nil] at this
    exact this
  have hH : get fs handlersFile = get fs₀ handlersFile := by
    rcases h _ (handlersFile_not_hid j) with h' | ⟨hpre, _, _⟩
    · exact h'
    · rw [handlersFile_not_pre_D] at hpre; cases hpre
  exact ⟨startup_eq_of_extVis S L H.closed hvis hN hj.vparse H.nu (listOk_of_healthy S H) hH cfg, hver,
    noUnprefixed_of_extVis hvis H.nu⟩

/-! ### moving the old version aside, moving the new one into place -/

/-- like `ExtA`, but saying nothing about the version directory itself -/
def ExtW (j : InstallJob) (fs₀ fs : Fs) : Prop :=
  ∀ q, ¬ Hid j q → isPre j.N q = false →
    get fs q = get fs₀ q ∨ (isPre q j.D = true ∧ get fs₀ q = none ∧ get fs q = some .dir)

theorem extW_of_extA {j : InstallJob} {fs₀ fs : Fs} (h : ExtA j fs₀ fs) : ExtW j fs₀ fs := fun q hq _ => h q hq

theorem O_hid (j : InstallJob) {q : Path} (h : isPre j.O q = true) : Hid j q := Or.inr (Or.inl h)
theorem Sg_hid (j : InstallJob) {q : Path} (h : isPre j.Sg q = true) : Hid j q := Or.inl h

theorem not_pre_of_not_hid {j : InstallJob} {q : Path} (hq : ¬ Hid j q) : isPre j.Sg q = false ∧ isPre j.O q = false := by
  constructor
  · cases h : isPre j.Sg q with
    | false => rfl
    | true => exact absurd (Sg_hid j h) hq
  · cases h : isPre j.O q with
    | false => rfl
    | true => exact absurd (O_hid j h) hq

/-- `if Stat(N) == nil { Rename(N, O) }`: either nothing happens, or the installed version is now out of sight -/
theorem moveAside {j : InstallJob} {fs₀ fsA fsW : Fs} (hd : isDot j.v = false) (hA : ExtA j fs₀ fsA)
    (h : (Prim.renameIfExists j.N j.O).apply fsA = .ok fsW) :
    ExtW j fs₀ fsW ∧ (fsW = fsA ∨ ((get fs₀ j.N).isSome = true ∧ get fsW j.N = none)) := by
  simp only [Prim.apply, renameIfExists] at h
  split at h
  · cases h; exact ⟨extW_of_extA hA, Or.inl rfl⟩
  · next n hn =>
    constructor
    · intro q hq hNq
      rw [(get_rename h q).1 hNq (not_pre_of_not_hid hq).2]
      exact hA q hq
    · right
      constructor
      · have hN : get fsA j.N = get fs₀ j.N := by
          have hv := N_inVersionDir (j := j) hd []
          rcases hA _ (inVersionDir_not_hid hv) with h' | ⟨hpre, _, _⟩
          · simpa using h'
          · rw [inVersionDir_not_pre_D hv] at hpre; cases hpre
        rw [← hN, hn]; rfl
      · exact get_rename_src h

/-- what the tree looks like once the staging directory has been renamed to the version directory -/
structure AtN (j : InstallJob) (fs₀ fsN : Fs) : Prop where
  ext : ExtW j fs₀ fsN
  present : (get fsN j.N).isSome = true

theorem moveIn {j : InstallJob} {fs₀ fsW fsN : Fs} (hW : ExtW j fs₀ fsW)
    (h : (Prim.rename j.Sg j.N).apply fsW = .ok fsN) : AtN j fs₀ fsN := by
  simp only [Prim.apply] at h
  refine ⟨?_, rename_dst_isSome h⟩
  intro q hq hNq
  rw [(get_rename h q).1 (not_pre_of_not_hid hq).1 hNq]
  exact hW q hq hNq

/-- visible paths other than the version directory itself are not below it -/
theorem vis_not_below_N {j : InstallJob} {q : Path} (hq : Vis q) (hne : q ≠ j.N) : isPre j.N q = false := by
  cases h : isPre j.N q with
  | false => rfl
  | true =>
    have hl := isPre_len h
    have : q.length ≤ 4 := by
      rcases hq with rfl | ⟨r, rfl⟩ | ⟨r, d, rfl⟩ | ⟨r, d, x, _, rfl⟩ <;> simp [pluginsDir]
    have hl4 : j.N.length = 4 := by simp [N_eq, D_eq, pluginsDir]
    exact absurd (isPre_eq_of_len h (by omega)).symm hne

theorem extVis_of_atN {j : InstallJob} {fs₀ fsN : Fs} (h : AtN j fs₀ fsN) : ExtVis j.ref j.v fs₀ fsN := by
  intro q hq
  by_cases hN : q = j.N
  · left; subst hN; exact ⟨rfl, h.present⟩
  · right; exact h.ext q (vis_not_hid hq) (vis_not_below_N hq hN)

theorem handlersFile_not_below_N (j : InstallJob) : isPre j.N handlersFile = false := by
  cases h : isPre j.N handlersFile with
  | false => rfl
  | true => have := isPre_len h; simp [N_eq, D_eq, pluginsDir, handlersFile] at this

theorem handlers_of_atN {j : InstallJob} {fs₀ fsN : Fs} (h : AtN j fs₀ fsN) : get fsN handlersFile = get fs₀ handlersFile := by
  rcases h.ext _ (handlersFile_not_hid j) (handlersFile_not_below_N j) with h' | ⟨hpre, _, _⟩
  · exact h'
  · rw [handlersFile_not_pre_D] at hpre; cases hpre

/-! ### after the move: removing the trash, writing the registry -/

/-- `fs` is `fsN` outside the hidden region, except that the registry may already be the new one -/
structure FrameN (j : InstallJob) (fsN fs : Fs) : Prop where
  frame : ∀ q, ¬ Hid j q → q ≠ handlersFile → get fs q = get fsN q
  handlers : get fs handlersFile = get fsN handlersFile ∨
    ∃ data, j.newHandlers = some data ∧ get fs handlersFile = some (.file data)

/-- write-to-temporary-then-rename -/
def atomicWritePrims (tmp dst : Path) (data : Bytes) : List Prim :=
  [.create tmp, .append tmp data, .rename tmp dst]

theorem saveHandlersPrims_eq (data : Bytes) : saveHandlersPrims data = atomicWritePrims handlersTmp handlersFile data := rfl

theorem only_tmp {tmp : Path} {ps : List Prim} (hps : ∀ p ∈ ps, p = .create tmp ∨ ∃ bs, p = .append tmp bs)
    (fs : Fs) (q : Path) (hq : q ≠ tmp) : get (run ps fs) q = get fs q := by
  apply run_invariant (Inv := fun s => get s q = get fs q) _ rfl
  intro p hp s s' hs happ
  rcases hps p hp with rfl | ⟨bs, rfl⟩
  · simp only [Prim.apply] at happ
    rw [get_create happ]; simp [Ne.symm hq, hs]
  · simp only [Prim.apply] at happ
    rw [get_append happ q hq]; exact hs

/-- a write-then-rename killed anywhere: only the temporary file and the destination can differ, and the
    destination is the old one or the complete new one -/
theorem atomicWrite_crash {tmp dst : Path} (hne : dst ≠ tmp) (data : Bytes) (fs : Fs) (k t : Nat) :
    (∀ q, q ≠ tmp → q ≠ dst →
        get (run (crashPrims k t (atomicWritePrims tmp dst data)) fs) q = get fs q) ∧
    (get (run (crashPrims k t (atomicWritePrims tmp dst data)) fs) dst = get fs dst ∨
      get (run (crashPrims k t (atomicWritePrims tmp dst data)) fs) dst = some (.file data)) := by
  match k with
  | 0 => simp [crashPrims, atomicWritePrims, tearPrim, run]
  | 1 =>
    have e : crashPrims 1 t (atomicWritePrims tmp dst data) = [.create tmp, .append tmp (data.take t)] := by
      simp [crashPrims, atomicWritePrims, tearPrim]
    rw [e]
    have hps : ∀ p ∈ [Prim.create tmp, Prim.append tmp (data.take t)],
        p = .create tmp ∨ ∃ bs, p = .append tmp bs := by
      intro p hp; simp at hp; rcases hp with rfl | rfl
      · exact Or.inl rfl
      · exact Or.inr ⟨_, rfl⟩
    exact ⟨fun q hq _ => only_tmp hps fs q hq, Or.inl (only_tmp hps fs _ hne)⟩
  | 2 =>
    have e : crashPrims 2 t (atomicWritePrims tmp dst data) = [.create tmp, .append tmp data] := by
      simp [crashPrims, atomicWritePrims, tearPrim]
    rw [e]
    have hps : ∀ p ∈ [Prim.create tmp, Prim.append tmp data],
        p = .create tmp ∨ ∃ bs, p = .append tmp bs := by
      intro p hp; simp at hp; rcases hp with rfl | rfl
      · exact Or.inl rfl
      · exact Or.inr ⟨_, rfl⟩
    exact ⟨fun q hq _ => only_tmp hps fs q hq, Or.inl (only_tmp hps fs _ hne)⟩
  | k + 3 =>
    have e : crashPrims (k + 3) t (atomicWritePrims tmp dst data) = atomicWritePrims tmp dst data := by
      simp [crashPrims, atomicWritePrims]
    rw [e]
    simp only [atomicWritePrims]
    cases h1 : (Prim.create tmp).apply fs with
    | error e1 => rw [run_cons_err h1]; exact ⟨fun _ _ _ => rfl, Or.inl rfl⟩
    | ok s1 =>
      rw [run_cons_ok h1]
      simp only [Prim.apply] at h1
      have g1 : ∀ q, get s1 q = if tmp = q then some (.file []) else get fs q := get_create h1
      cases h2 : (Prim.append tmp data).apply s1 with
      | error e2 =>
        rw [run_cons_err h2]
        refine ⟨fun q hq _ => by rw [g1]; simp [Ne.symm hq], Or.inl (by rw [g1]; simp [Ne.symm hne])⟩
      | ok s2 =>
        rw [run_cons_ok h2]
        simp only [Prim.apply] at h2
        have g2 : ∀ q, q ≠ tmp → get s2 q = get fs q := by
          intro q hq; rw [get_append h2 q hq, g1]; simp [Ne.symm hq]
        obtain ⟨c, hc, hc'⟩ := get_append_self h2
        have : c = [] := by
          have := g1 tmp; simp at this; rw [this] at hc; cases hc; rfl
        subst this
        simp only [List.nil_append] at hc'
        cases h3 : (Prim.rename tmp dst).apply s2 with
        | error e3 =>
          rw [run_cons_err h3]
          exact ⟨fun q hq _ => g2 q hq, Or.inl (g2 _ hne)⟩
        | ok s3 =>
          rw [run_cons_ok h3, run_nil]
          simp only [Prim.apply] at h3
          have g3 := get_rename_file h3 hc'
          refine ⟨?_, Or.inr (by rw [g3]; simp)⟩
          intro q hq hq'
          rw [g3]; simp [Ne.symm hq', hq, g2 q hq]

theorem saveHandlers_crash (data : Bytes) (fs : Fs) (k t : Nat) :
    (∀ q, q ≠ handlersTmp → q ≠ handlersFile →
        get (run (crashPrims k t (saveHandlersPrims data)) fs) q = get fs q) ∧
    (get (run (crashPrims k t (saveHandlersPrims data)) fs) handlersFile = get fs handlersFile ∨
      get (run (crashPrims k t (saveHandlersPrims data)) fs) handlersFile = some (.file data)) :=
  atomicWrite_crash (by decide) data fs k t

theorem frameN_B {j : InstallJob} (fsN : Fs) (k t : Nat) : FrameN j fsN (run (crashPrims k t (primsB j)) fsN) := by
  have hHT : ∀ q, ¬ Hid j q → q ≠ handlersTmp := fun q hq he => hq (Or.inr (Or.inr he))
  match k with
  | 0 =>
    simp only [primsB, crashPrims_cons_zero, tearPrim, run_nil]
    exact ⟨fun _ _ _ => rfl, Or.inl rfl⟩
  | k + 1 =>
    simp only [primsB, crashPrims_cons_succ]
    have h1 : (Prim.removeAll j.O).apply fsN = .ok (removeAll j.O fsN) := rfl
    rw [run_cons_ok h1]
    have g1 : ∀ q, ¬ Hid j q → get (removeAll j.O fsN) q = get fsN q := by
      intro q hq; rw [get_removeAll]; simp [(not_pre_of_not_hid hq).2]
    cases hn : j.newHandlers with
    | none =>
      simp only [handlerPrims, hn, crashPrims_nil, run_nil]
      exact ⟨fun q hq _ => g1 q hq, Or.inl (g1 _ (handlersFile_not_hid j))⟩
    | some data =>
      simp only [handlerPrims, hn]
      obtain ⟨f, hh⟩ := saveHandlers_crash data (removeAll j.O fsN) k t
      refine ⟨fun q hq hq' => by rw [f q (hHT q hq) hq', g1 q hq], ?_⟩
      rcases hh with hh | hh
      · left; rw [hh, g1 _ (handlersFile_not_hid j)]
      · right; exact ⟨data, hn, hh⟩

/-- after the move: the behaviour of the completed installation -/
theorem sameAs_of_frameN (L : OrderLaws S.gt) {fs₀ fsN fs fin : Fs} {cfg : List (Db C)} {j : InstallJob}
    (H : Healthy S fs₀ cfg) (hj : JobOk S j) (hN : AtN j fs₀ fsN) (hfs : FrameN j fsN fs) (hfin : FrameN j fsN fin) :
    SameAs S fs fin cfg ∧ ∃ res, startup S fin cfg = .ok res := by
  have hvisN := extVis_of_atN hN
  have nuN : NoUnprefixed fsN := noUnprefixed_of_extVis hvisN H.nu
  have okN : ListOk S fsN := listOk_of_extVis S H.closed hvisN hj.vparse (listOk_of_healthy S H)
  have visH : ∀ q, Vis q → q ≠ handlersFile := by
    intro q hq he; subst he
    rcases hq with h | ⟨r, h⟩ | ⟨r, d, h⟩ | ⟨r, d, x, _, h⟩ <;> simp [pluginsDir, handlersFile, lit] at h
  have agree : ∀ {s : Fs}, FrameN j fsN s → AgreeVis fsN s :=
    fun hs q hq => (hs.frame q (vis_not_hid hq) (visH q hq)).symm
  have hload : ∀ {s : Fs}, FrameN j fsN s → loadHandlers S s = .ok () := by
    intro s hs
    rcases hs.handlers with h | ⟨data, hd, h⟩
    · rw [loadHandlers_congr S (h.trans (handlers_of_atN hN))]; exact loadHandlers_of_healthy S H
    · simp [loadHandlers, h, hj.handlers data hd]
  have nu : ∀ {s : Fs}, FrameN j fsN s → NoUnprefixed s := fun hs => noUnprefixed_of_agree (agree hs) nuN
  have ok : ∀ {s : Fs}, FrameN j fsN s → ListOk S s := fun hs => listOk_of_agree S (agree hs) okN
  refine ⟨⟨?_, ?_, nu hfs⟩, ?_⟩
  · exact startup_eq_of_agree S L ((agree hfs).symm.trans (agree hfin)) (nu hfs) (ok hfs)
      ((hload hfs).trans (hload hfin).symm) cfg
  · intro q hq
    have hH : q ≠ handlersFile := by
      rintro rfl
      obtain ⟨ref, x, t, _, he⟩ := hq
      simp [pluginDir, pluginsDir, handlersFile] at he
    rw [hfs.frame q (inVersionDir_not_hid hq) hH, hfin.frame q (inVersionDir_not_hid hq) hH]
  · obtain ⟨res, hres⟩ := H.start
    apply startup_isOk_mono S L H.nu (nu hfin) (ok hfin) _ (hload hfin) hres
    intro ref v hi
    exact installed_of_agree S (agree hfin) ref v (installed_mono_of_extVis S hvisN ref v hi)

/-- **Crash safety of Install.** Kill the installation after any number of filesystem steps, the last write torn at
    any byte. Unless the version directory existed before and is absent now (the swap window of a re-install),
    the next start-up behaves exactly as before the installation, or exactly as after the completed installation
    (which then starts fine); and every version directory is byte for byte the one of that state. -/
theorem install_crash_safe (L : OrderLaws S.gt) {fs₀ : Fs} {cfg : List (Db C)} {j : InstallJob}
    (H : Healthy S fs₀ cfg) (hj : JobOk S j) (k t : Nat)
    (hwin : ¬ ((get fs₀ j.N).isSome = true ∧ get (crash k t (installPrims j) fs₀) j.N = none)) :
    SameAs S (crash k t (installPrims j) fs₀) fs₀ cfg ∨
    (SameAs S (crash k t (installPrims j) fs₀) (run (installPrims j) fs₀) cfg ∧
      ∃ res, startup S (run (installPrims j) fs₀) cfg = .ok res) := by
  have before : ∀ {s : Fs}, ExtA j fs₀ s → SameAs S s fs₀ cfg := fun hs => sameAs_of_extA S L H hj hs
  have confA := primsA_confined S hj
  simp only [crash] at hwin ⊢
  rw [installPrims_eq]
  by_cases hk : k < (primsA j).length
  · -- killed during the staging work
    rw [crashPrims_append_lt t hk]
    exact Or.inl (before (extA_run (extA_refl j fs₀) (confined_crashPrims confA k t)))
  · have hk' : (primsA j).length ≤ k := by omega
    rw [crashPrims_append_ge t hk', run_append']
    cases hA : runAll (primsA j) fs₀ with
    | none =>
      -- a staging step failed: Install returned early
      exact Or.inl (before (extA_run (extA_refl j fs₀) confA))
    | some fsA =>
      have extA_fsA : ExtA j fs₀ fsA := by
        rw [← run_of_runAll hA]; exact extA_run (extA_refl j fs₀) confA
      simp only []
      rw [installPrims_eq, crashPrims_append_ge t hk', run_append', hA] at hwin
      simp only [] at hwin
      -- the uninterrupted run from here
      have hfin : run (primsA j ++ (.renameIfExists j.N j.O :: .rename j.Sg j.N :: primsB j)) fs₀ =
          run (.renameIfExists j.N j.O :: .rename j.Sg j.N :: primsB j) fsA := by
        rw [run_append', hA]
      rw [hfin]
      generalize k - (primsA j).length = k1 at hwin ⊢
      match k1 with
      | 0 =>
        rw [crashPrims_cons_zero]; simp only [tearPrim, run_nil]
        exact Or.inl (before extA_fsA)
      | k2 + 1 =>
        rw [crashPrims_cons_succ] at hwin ⊢
        cases hW : (Prim.renameIfExists j.N j.O).apply fsA with
        | error e => rw [run_cons_err hW]; exact Or.inl (before extA_fsA)
        | ok fsW =>
          rw [run_cons_ok hW] at hwin ⊢
          obtain ⟨extW, hcase⟩ := moveAside hj.vdot extA_fsA hW
          -- the state in which only the move aside has happened
          have atW : ∀ {s : Fs}, s = fsW → ¬ ((get fs₀ j.N).isSome = true ∧ get s j.N = none) → SameAs S s fs₀ cfg := by
            intro s hs hw
            subst hs
            rcases hcase with he | hwindow
            · rw [he]; exact before extA_fsA
            · exact absurd hwindow hw
          rw [run_cons_ok hW]
          match k2 with
          | 0 =>
            rw [crashPrims_cons_zero] at hwin ⊢; simp only [tearPrim, run_nil] at hwin ⊢
            exact Or.inl (atW rfl hwin)
          | k3 + 1 =>
            rw [crashPrims_cons_succ] at hwin ⊢
            cases hNn : (Prim.rename j.Sg j.N).apply fsW with
            | error e =>
              rw [run_cons_err hNn] at hwin ⊢
              exact Or.inl (atW rfl hwin)
            | ok fsN =>
              rw [run_cons_ok hNn, run_cons_ok hNn]
              have atN := moveIn extW hNn
              have f1 : FrameN j fsN (run (crashPrims k3 t (primsB j)) fsN) := frameN_B fsN k3 t
              have f2 : FrameN j fsN (run (primsB j) fsN) := by
                have := frameN_B (j := j) fsN (primsB j).length 0
                rwa [crashPrims_full] at this
              exact Or.inr (sameAs_of_frameN S L H hj atN f1 f2)

/-! ### AddRepository -/

/-- the condition under which getAdditionalPluginRepositoryURLs returns without error -/
def ReposOk (fs : Fs) : Prop :=
  get fs repositoriesDir = none ∨
  (get fs repositoriesDir = some .dir ∧ ∀ x, (get fs (repositoriesDir ++ [x])).isSome = true →
      ∃ c, get fs (repositoriesDir ++ [x]) = some (.file c) ∧ S.repoEntryOk c = true)

theorem loadRepositories_isOk_iff {fs : Fs} : (∃ us, loadRepositories S fs = .ok us) ↔ ReposOk S fs := by
  simp only [loadRepositories, ReposOk]
  cases hrd : readDir fs repositoriesDir with
  | error e =>
    cases hg : get fs repositoriesDir with
    | none =>
      have := readDir_notExist_iff.2 hg
      rw [hrd] at this; cases this
      simp
    | some n =>
      cases n with
      | dir => simp [readDir, hg] at hrd
      | file c =>
        simp only [readDir, hg] at hrd
        cases hrd
        simp
  | ok names =>
    obtain ⟨hdir, rfl⟩ := readDir_ok_iff.1 hrd
    simp only [hdir, reduceCtorEq, true_and, false_or]
    rw [mapE_isOk_iff]
    constructor
    · intro h x hx
      obtain ⟨y, hy⟩ := h x (by simpa [mem_children] using hx)
      split at hy
      · next c hc =>
        split at hy
        · next hok => exact ⟨c, hc, hok⟩
        · cases hy
      · cases hy
    · intro h x hx
      obtain ⟨c, hc, hok⟩ := h x (by simpa [mem_children] using hx)
      exact ⟨x, by simp [hc, hok]⟩

theorem addRepoPrims_eq (slug : FName) (data : Bytes) :
    addRepoPrims slug data = .mkdirAll repositoriesDir :: atomicWritePrims (repoTmp slug) (repoEntry slug) data := rfl

theorem repo_paths_not_vis (slug : FName) {q : Path} (hq : Vis q ∨ q = handlersFile ∨ InVersionDir q) :
    q ≠ repositoriesDir ∧ q ≠ repoTmp slug ∧ q ≠ repoEntry slug := by
  rcases hq with hq | rfl | ⟨ref, x, t, _, rfl⟩
  · rcases hq with rfl | ⟨r, rfl⟩ | ⟨r, d, rfl⟩ | ⟨r, d, x, _, rfl⟩ <;>
      simp [pluginsDir, repositoriesDir, repoTmp, repoEntry, lit]
  · simp [handlersFile, repositoriesDir, repoTmp, repoEntry, lit]
  · simp [pluginDir, pluginsDir, repositoriesDir, repoTmp, repoEntry, lit]

/-- **Crash safety of AddRepository.** Kill it after any number of filesystem steps, the write torn at any byte:
    the repositories directory still loads, and start-up and every version directory are as before. -/
theorem addRepo_crash_safe (L : OrderLaws S.gt) {fs₀ : Fs} {cfg : List (Db C)} (H : Healthy S fs₀ cfg)
    (hR : ReposOk S fs₀) (slug : FName) {data : Bytes} (hdata : S.repoEntryOk data = true) (k t : Nat) :
    ReposOk S (crash k t (addRepoPrims slug data) fs₀) ∧ SameAs S (crash k t (addRepoPrims slug data) fs₀) fs₀ cfg := by
  -- it is enough to know: everything except the three paths is untouched, the directory is as before or new and
  -- empty, the entry is as before or complete
  have key : ∀ fs : Fs,
      (∀ q, q ≠ repositoriesDir → q ≠ repoTmp slug → q ≠ repoEntry slug → get fs q = get fs₀ q) →
      (get fs repositoriesDir = get fs₀ repositoriesDir ∨ (get fs₀ repositoriesDir = none ∧ get fs repositoriesDir = some .dir)) →
      (get fs (repoEntry slug) = get fs₀ (repoEntry slug) ∨ get fs (repoEntry slug) = some (.file data)) →
      ReposOk S fs ∧ SameAs S fs fs₀ cfg := by
    intro fs hframe hdir hentry
    constructor
    · -- the repositories directory
      have hchild : ∀ x, (get fs (repositoriesDir ++ [x])).isSome = true →
          get fs (repositoriesDir ++ [x]) = get fs₀ (repositoriesDir ++ [x]) ∨ get fs (repositoriesDir ++ [x]) = some (.file data) := by
        intro x _
        by_cases hx : x = slug
        · subst hx; exact hentry
        · left
          apply hframe
          · simp [repositoriesDir]
          · simp [repositoriesDir, repoTmp]
          · simpa [repoEntry] using hx
      rcases hdir with hsame | ⟨hnone, hnew⟩
      · rcases hR with hn | ⟨hd, hall⟩
        · left; rw [hsame]; exact hn
        · right
          refine ⟨by rw [hsame]; exact hd, ?_⟩
          intro x hx
          rcases hchild x hx with h' | h'
          · rw [h'] at hx ⊢; exact hall x hx
          · exact ⟨data, h', hdata⟩
      · right
        refine ⟨hnew, ?_⟩
        intro x hx
        rcases hchild x hx with h' | h'
        · rw [h'] at hx
          have := H.closed _ x (by simp [repositoriesDir]) hx
          rw [hnone] at this; cases this
        · exact ⟨data, h', hdata⟩
    · -- the plugins
      have same : ∀ q, Vis q ∨ q = handlersFile ∨ InVersionDir q → get fs q = get fs₀ q := by
        intro q hq
        obtain ⟨h1, h2, h3⟩ := repo_paths_not_vis slug hq
        exact hframe q h1 h2 h3
      have agree : AgreeVis fs₀ fs := fun q hq => (same q (Or.inl hq)).symm
      refine ⟨?_, fun q hq => same q (Or.inr (Or.inr hq)), noUnprefixed_of_agree agree H.nu⟩
      exact (startup_eq_of_agree S L agree H.nu (listOk_of_healthy S H)
        (loadHandlers_congr S (same _ (Or.inr (Or.inl rfl))).symm) cfg).symm
  simp only [crash, addRepoPrims_eq]
  match k with
  | 0 =>
    rw [crashPrims_cons_zero]; simp only [tearPrim, run_nil]
    exact key fs₀ (fun _ _ _ _ => rfl) (Or.inl rfl) (Or.inl rfl)
  | k + 1 =>
    rw [crashPrims_cons_succ]
    cases h1 : (Prim.mkdirAll repositoriesDir).apply fs₀ with
    | error e => rw [run_cons_err h1]; exact key fs₀ (fun _ _ _ _ => rfl) (Or.inl rfl) (Or.inl rfl)
    | ok fs1 =>
      rw [run_cons_ok h1]
      simp only [Prim.apply] at h1
      have g1 : ∀ q, q ≠ repositoriesDir → get fs1 q = get fs₀ q := by
        intro q hq
        rcases get_mkdirAll h1 q with h' | ⟨_, _, hpre, hne⟩
        · exact h'
        · exfalso
          obtain ⟨u, hu⟩ := isPre_iff.1 hpre
          cases q with
          | nil => exact hne rfl
          | cons a as =>
            simp only [repositoriesDir, List.cons_append, List.cons.injEq] at hu
            obtain ⟨ha, has⟩ := hu
            have : as = [] := by
              have := congrArg List.length has; simp at this; exact List.length_eq_zero_iff.1 (by omega)
            subst this; subst ha
            exact hq rfl
      have d1 : get fs1 repositoriesDir = get fs₀ repositoriesDir ∨ (get fs₀ repositoriesDir = none ∧ get fs1 repositoriesDir = some .dir) := by
        rcases get_mkdirAll h1 repositoriesDir with h' | ⟨hn, hd, _, _⟩
        · exact Or.inl h'
        · exact Or.inr ⟨hn, hd⟩
      have hne : repoEntry slug ≠ repoTmp slug := by simp [repoEntry, repoTmp, repositoriesDir]
      obtain ⟨f, he⟩ := atomicWrite_crash hne data fs1 k t
      have hRt : repositoriesDir ≠ repoTmp slug := by simp [repositoriesDir, repoTmp, lit]
      have hRe : repositoriesDir ≠ repoEntry slug := by simp [repositoriesDir, repoEntry]
      apply key
      · intro q h1' h2' h3'
        rw [f q h2' h3', g1 q h1']
      · rw [f _ hRt hRe]; exact d1
      · rcases he with he | he
        · left; rw [he, g1 _ (Ne.symm hRe)]
        · right; exact he

/-! ### an installation never touches the repositories directory -/

def primPaths : Prim → List Path
  | .removeAll a => [a]
  | .mkdirAll a => [a]
  | .create a => [a]
  | .append a _ => [a]
  | .remove a => [a]
  | .rename a b => [a, b]
  | .renameIfExists a b => [a, b]

/-- a step whose paths are neither above nor below `q` leaves `q` alone -/
theorem get_apply_of_disjoint {p : Prim} {fs fs' : Fs} {q : Path}
    (h : ∀ a ∈ primPaths p, isPre a q = false ∧ isPre q a = false) (hp : p.apply fs = .ok fs') : get fs' q = get fs q := by
  cases p with
  | removeAll a =>
    simp only [Prim.apply, Except.ok.injEq] at hp; subst hp
    rw [get_removeAll]; simp [(h a (by simp [primPaths])).1]
  | mkdirAll a =>
    simp only [Prim.apply] at hp
    rcases get_mkdirAll hp q with h' | ⟨_, _, hpre, _⟩
    · exact h'
    · rw [(h a (by simp [primPaths])).2] at hpre; cases hpre
  | create a =>
    simp only [Prim.apply] at hp
    rw [get_create hp]
    have : ¬ (a = q) := by intro hh; subst hh; have := (h a (by simp [primPaths])).1; simp [isPre_refl] at this
    simp [this]
  | append a bs =>
    simp only [Prim.apply] at hp
    exact get_append hp q (by intro hh; subst hh; have := (h q (by simp [primPaths])).1; simp [isPre_refl] at this)
  | remove a =>
    simp only [Prim.apply] at hp
    rw [get_remove hp]
    have : ¬ (q = a) := by intro hh; subst hh; have := (h q (by simp [primPaths])).1; simp [isPre_refl] at this
    simp [this]
  | rename a b =>
    simp only [Prim.apply] at hp
    exact (get_rename hp q).1 (h a (by simp [primPaths])).1 (h b (by simp [primPaths])).1
  | renameIfExists a b =>
    simp only [Prim.apply, renameIfExists] at hp
    split at hp
    · cases hp; rfl
    · exact (get_rename hp q).1 (h a (by simp [primPaths])).1 (h b (by simp [primPaths])).1

theorem disjoint_of_head {a q : Path} {c d : FName} {s t : Path} (hcd : c ≠ d) (ha : a = c :: s) (hq : q = d :: t) :
    isPre a q = false ∧ isPre q a = false := by
  subst ha; subst hq
  constructor
  · cases h : isPre (c :: s) (d :: t) with
    | false => rfl
    | true => obtain ⟨u, hu⟩ := isPre_iff.1 h; simp at hu; exact absurd hu.1.symm hcd
  · cases h : isPre (d :: t) (c :: s) with
    | false => rfl
    | true => obtain ⟨u, hu⟩ := isPre_iff.1 h; simp at hu; exact absurd hu.1 hcd

theorem under_paths {root : Path} {p : Prim} (h : Under root p) : ∀ a ∈ primPaths p, isPre root a = true := by
  cases p <;> simp_all [Under, primPaths]

/-- every path an installation step names starts with `plugins` or is one of the two registry files -/
theorem installPrims_heads {j : InstallJob} (hj : JobOk S j) : ∀ p ∈ installPrims j, ∀ a ∈ primPaths p,
    ∃ c s, a = c :: s ∧ c ≠ lit "repositories" := by
  have plug : ∀ a, isPre j.D a = true → ∃ c s, a = c :: s ∧ c ≠ lit "repositories" := by
    intro a ha
    obtain ⟨t, rfl⟩ := isPre_iff.1 ha
    exact ⟨lit "plugins", j.ref.repo :: pluginDirName j.ref.name :: t, by simp [D_eq, pluginsDir], by decide⟩
  have hSg : isPre j.D j.Sg = true := by rw [Sg_eq]; exact isPre_append _ _
  have hO : isPre j.D j.O = true := by rw [O_eq]; exact isPre_append _ _
  have hN : isPre j.D j.N = true := by rw [N_eq]; exact isPre_append _ _
  have hHT : ∃ c s, handlersTmp = c :: s ∧ c ≠ lit "repositories" := ⟨_, _, rfl, by decide⟩
  have hH : ∃ c s, handlersFile = c :: s ∧ c ≠ lit "repositories" := ⟨_, _, rfl, by decide⟩
  intro p hp a ha
  rw [installPrims_eq] at hp
  simp only [primsA, primsB, handlerPrims, List.mem_append, List.mem_cons, List.not_mem_nil, or_false] at hp
  rcases hp with (((rfl | rfl) | hp) | rfl) | rfl | rfl | rfl | hp
  · simp only [primPaths, List.mem_singleton] at ha; subst ha; exact plug _ hSg
  · simp only [primPaths, List.mem_singleton] at ha; subst ha; exact plug _ hSg
  · exact plug _ (isPre_trans hSg (under_paths (hj.staging p hp) a ha))
  · simp only [primPaths, List.mem_singleton] at ha; subst ha; exact plug _ hO
  · simp only [primPaths, List.mem_cons, List.not_mem_nil, or_false] at ha
    rcases ha with rfl | rfl
    · exact plug _ hN
    · exact plug _ hO
  · simp only [primPaths, List.mem_cons, List.not_mem_nil, or_false] at ha
    rcases ha with rfl | rfl
    · exact plug _ hSg
    · exact plug _ hN
  · simp only [primPaths, List.mem_singleton] at ha; subst ha; exact plug _ hO
  · cases hn : j.newHandlers with
    | none => simp [hn] at hp
    | some data =>
      simp only [hn, saveHandlersPrims, List.mem_cons, List.not_mem_nil, or_false] at hp
      rcases hp with rfl | rfl | rfl
      · simp only [primPaths, List.mem_singleton] at ha; subst ha; exact hHT
      · simp only [primPaths, List.mem_singleton] at ha; subst ha; exact hHT
      · simp only [primPaths, List.mem_cons, List.not_mem_nil, or_false] at ha
        rcases ha with rfl | rfl
        · exact hHT
        · exact hH

theorem tear_paths {p q : Prim} {t : Nat} (h : q ∈ tearPrim t p) : primPaths q = primPaths p := by
  cases p <;> simp [tearPrim] at h
  subst h; rfl

/-- a killed or completed installation leaves everything at or below the repositories directory as it was -/
theorem install_keeps_repositories {j : InstallJob} (hj : JobOk S j) (fs₀ : Fs) (k t : Nat) (q : Path)
    (hq : isPre repositoriesDir q = true) : get (crash k t (installPrims j) fs₀) q = get fs₀ q := by
  obtain ⟨u, rfl⟩ := isPre_iff.1 hq
  apply run_invariant (Inv := fun s => get s (repositoriesDir ++ u) = get fs₀ (repositoriesDir ++ u)) _ rfl
  intro p hp s s' hs happ
  rw [← hs]
  apply get_apply_of_disjoint _ happ
  intro a ha
  -- where does `p` come from: a step of the list, or the torn version of one
  have hheads : ∃ p' ∈ installPrims j, a ∈ primPaths p' := by
    simp only [crashPrims, List.mem_append] at hp
    rcases hp with hp | hp
    · exact ⟨p, List.mem_of_mem_take hp, ha⟩
    · cases hk : (installPrims j)[k]? with
      | none => simp [hk] at hp
      | some x =>
        simp only [hk] at hp
        exact ⟨x, List.mem_of_getElem? hk, by rw [← tear_paths hp]; exact ha⟩
  obtain ⟨p', hp', ha'⟩ := hheads
  obtain ⟨c, s'', hc, hne⟩ := installPrims_heads S hj p' hp' a ha'
  exact disjoint_of_head (d := lit "repositories") (t := u) hne hc (by simp [repositoriesDir])

end main
end Octo.Plugins
